/-
C02 (`allocate_temps`), part 10: the step-for-step simulation (`sim_step`) between the input program and the
output program of the pass.
-/
import Hpbf.Proofs.C02AllocSim
set_option linter.unusedSimpArgs false

namespace Hpbf
namespace C02
namespace Alloc

open Bc BcWf BcGen C11

variable {w : Nat} {s : St w}

/-! ### the machine -/

theorem rd_wr (st : State w) (m m' : Int) (v : BitVec w) :
    (st.wr m v).rd m' = if m' = m then v else st.rd m' := by
  unfold State.rd State.wr
  by_cases h : m' = m
  · subst h; simp
  · simp only [h, if_false]
    exact Tape.get_set_ne _ _ _ _ (by omega)

theorem rd_input (st : State w) (d m' : Int) (h : m' ≠ d) : (st.input d).2.rd m' = st.rd m' := by
  unfold State.rd
  rw [input_ptr, input_get _ _ (by omega)]

theorem rd_output (st : State w) (d m' : Int) : (st.output d).2.rd m' = st.rd m' := by
  unfold State.rd
  rw [output_ptr, output_tape]

theorem stepI_mkArith (p : Program w) (lim : Bool) (c : Cfg w) (op : BcGen.Op) (d a b : Loc w) :
    stepI p lim c (mkArith op d a b) = arith c (opFun op) d a b := by
  cases op <;> rfl

theorem copyCfg_pure (c : Cfg w) (d src : Loc w) (h : locNoZero src = true) :
    copyCfg c d src = wrCfg c (rdVal c src) d := by
  unfold copyCfg
  rw [rdSt_noZero _ h]

/-! ### the relation -/

/-- Configurations of the two runs: same position, state and budget, temporaries related by `RelV`. -/
structure Rel (s : St w) (tr : Nat → ASt w) (c1 c2 : Cfg w) : Prop where
  pc : c2.pc = c1.pc
  le : c1.pc ≤ s.insts.size
  st : c2.st = c1.st
  budget : c2.budget = c1.budget
  v : RelV s c1.pc (tr c1.pc) c1 c2

section
variable {numRegs : Nat} {tr : Nat → ASt w}

/-- No computation waits across an instruction that is not straight-line. -/
theorem no_fused_nonplain (hp : AllocPre s) {k : Nat} {a : ASt w} (hI : PassInv s k a) {x : Instr w}
    (hx : s.insts[k]? = some x) (hpl : plain x = false) {f : Nat} {op : BcGen.Op} {m : Int} {t : Nat}
    {s0 s1 : Loc w} : ¬ Fused s k a f op m t s0 s1 := by
  intro h
  rw [fused_plain hp hI h hx] at hpl
  cases hpl

/-- A taken branch. -/
theorem relV_jump (hp : AllocPre s) (T : Trace s numRegs tr) {k k' : Nat} (hk : k < s.insts.size)
    (hk' : k' ≤ s.insts.size) {x : Instr w} {off : Int} (hx : s.insts[k]? = some x)
    (hoff : branchOff? x = some off) (hkk : (k : Int) + off = (k' : Int))
    {c1 c2 c1' c2' : Cfg w} (hR : RelV s k (tr k) c1 c2)
    (e1 : c1'.temps = c1.temps) (e2 : c2'.temps = c2.temps) (e3 : c1'.st = c1.st) (e4 : c2'.st = c2.st) :
    RelV s k' (tr k') c1' c2' := by
  have hI := trace_inv hp T k (by omega)
  have hI' := trace_inv hp T k' hk'
  have hpl : plain x = false := by cases x <;> simp [branchOff?] at hoff <;> rfl
  have hnoF : ∀ {f op m t s0 s1}, ¬ Fused s k' (tr k') f op m t s0 s1 :=
    fun h => fused_nojump hp hI' h hx hoff hkk
  constructor
  · intro t v hv hlive _
    rcases hlive with ⟨r, L, g1, g2, g3⟩ | ⟨f, op, m, t', s0, s1, hf, _⟩
    · obtain ⟨_, r', q1, q2⟩ := hI'.replDom t v hv
      rw [g1] at q1; cases q1
      obtain ⟨r1, L1, p1, p2, p3, p4⟩ := hp.flow k x off k' hx hoff hkk t ⟨r, L, g1, g2, q2, g3⟩
      rw [g1] at p1; cases p1
      rw [g2] at p2; cases p2
      have hv' : alGet (tr k).repl t = some v := by
        by_cases hle : k ≤ k'
        · rw [← repl_stable hp T g1 g2 p3 k' hle g3 hk']; exact hv
        · rw [repl_stable hp T g1 g2 q2 k (by omega) p4 (by omega)]; exact hv
      have h0 := hR.val t v hv' (Or.inl ⟨r, L, g1, g2, p4⟩) (by
        rintro ⟨f, op, m, s0, s1, hf⟩
        exact no_fused_nonplain hp hI hx hpl hf)
      rw [e1, h0]
      symm
      apply rdVal_of_eq
      · intro i _; rw [e2]
      · intro o _; rw [e4]
    · exact absurd hf hnoF
  · intro f op m t s0 s1 hf
    exact absurd hf hnoF

/-- After a pointer move nothing is live. -/
theorem relV_vacuous (hp : AllocPre s) {k j : Nat} {a : ASt w} (hI : PassInv s k a) {x : Instr w}
    (hx : s.insts[j]? = some x) (hjk : j ≤ k) (hptr : ptrStable x = false)
    (hdom : ∀ t v, alGet a.repl t = some v → ∃ r : RangeInfo, s.ranges[t]? = some r ∧ r.created < j)
    (hnoF : ∀ f op m t s0 s1, ¬ Fused s k a f op m t s0 s1) (c1 c2 : Cfg w) : RelV s k a c1 c2 := by
  constructor
  · intro t v hv hlive _
    rcases hlive with ⟨r, L, g1, g2, g3⟩ | ⟨f, op, m, t', s0, s1, hf, _⟩
    · obtain ⟨r', q1, q2⟩ := hdom t v hv
      rw [g1] at q1; cases q1
      have := hp.ptr t j x ⟨r, L, g1, g2, q2, by omega⟩ hx
      rw [this] at hptr; cases hptr
    · exact absurd hf (hnoF _ _ _ _ _ _)
  · intro f op m t s0 s1 hf
    exact absurd hf (hnoF _ _ _ _ _ _)

/-! ### instructions that are not straight-line -/

theorem sim_other (hp : AllocPre s) (T : Trace s numRegs tr) {P Q : Program w} (hP : P.insts = s.insts)
    (hQs : Q.insts.size = s.insts.size) (lim : Bool) {k : Nat} (hk : k < s.insts.size) {x : Instr w}
    (hx : s.insts[k]? = some x) (hpl : plain x = false)
    (hr : ∀ t' v, alGet (tr (k + 1)).repl t' = some v → alGet (tr k).repl t' = some v)
    {t1 t2 : Temps w} {b : Nat} {st : State w}
    (hV : RelV s k (tr k) ⟨k, t1, b, st⟩ ⟨k, t2, b, st⟩) :
    StepRel (Rel s tr) CfgEq CfgEq (stepI P lim ⟨k, t1, b, st⟩ x) (stepI Q lim ⟨k, t2, b, st⟩ x) := by
  have hI := trace_inv hp T k (by omega)
  have hI' := trace_inv hp T (k + 1) (by omega)
  have K := (trace_sum hp T hk).kind
  have hnoF : ∀ f op m t s0 s1, ¬ Fused s k (tr k) f op m t s0 s1 :=
    fun f op m t s0 s1 => no_fused_nonplain hp hI hx hpl
  have hnoF' : ∀ f op m t s0 s1, ¬ Fused s (k + 1) (tr (k + 1)) f op m t s0 s1 := by
    intro f op m t s0 s1 h
    rcases stepKind_fused_back K h with h | ⟨h, _, _⟩
    · exact hnoF _ _ _ _ _ _ h
    · rw [hx] at h; cases h; rw [plain_mkArith] at hpl; cases hpl
  -- fall through with the same temporaries
  have hnext : ∀ st' : State w, (∀ m', m' ∉ memDefs x → st'.rd m' = st.rd m') →
      Rel s tr ⟨k + 1, t1, b, st'⟩ ⟨k + 1, t2, b, st'⟩ := by
    intro st' hm
    refine ⟨rfl, hk, rfl, rfl, ?_⟩
    refine relV_succ hp hI hI' K hx hV rfl rfl hm (fun _ _ => rfl) (fun _ _ _ _ => rfl) ?_ ?_ ?_
    · intro t' v hv hn _
      rw [hr t' v hv] at hn; cases hn
    · intro op m t s0 s1 h; exact absurd h (hnoF _ _ _ _ _ _)
    · intro op t s0 s1 h _
      rw [hx] at h; cases h; rw [plain_mkArith] at hpl; cases hpl
  have hsame : CfgEq (⟨k, t1, b, st⟩ : Cfg w) ⟨k, t2, b, st⟩ := ⟨StEq.refl _, rfl⟩
  have hbranch : ∀ (taken : Bool) (off : Int), branchOff? x = some off →
      StepRel (Rel s tr) CfgEq CfgEq (branch P lim ⟨k, t1, b, st⟩ taken off)
        (branch Q lim ⟨k, t2, b, st⟩ taken off) := by
    intro taken off hoff
    unfold branch
    rw [hP, hQs]
    by_cases hb : lim = true ∧ b ≤ 1
    · simp only [hb, and_self, if_true, StepRel]
      exact ⟨StEq.refl _, rfl⟩
    · simp only [hb, if_false]
      cases taken with
      | false =>
        simp only [Bool.false_eq_true, if_false, StepRel]
        refine ⟨rfl, hk, rfl, rfl, ?_⟩
        refine relV_succ hp hI hI' K hx hV rfl rfl (fun _ _ => rfl) (fun _ _ => rfl) (fun _ _ _ _ => rfl)
          ?_ ?_ ?_
        · intro t' v hv hn _
          rw [hr t' v hv] at hn; cases hn
        · intro op m t s0 s1 h; exact absurd h (hnoF _ _ _ _ _ _)
        · intro op t s0 s1 h _
          rw [hx] at h; cases h; rw [plain_mkArith] at hpl; cases hpl
      | true =>
        simp only [if_true]
        cases hbt : branchTarget k off s.insts.size with
        | none => simp only [StepRel]; exact ⟨StEq.refl _, rfl⟩
        | some t =>
          simp only [StepRel]
          unfold branchTarget at hbt
          simp only at hbt
          split at hbt
          · rename_i hc
            cases hbt
            have hkk : (k : Int) + off = (((k : Int) + off).toNat : Int) := by omega
            have hle : ((k : Int) + off).toNat ≤ s.insts.size := by omega
            exact ⟨rfl, hle, rfl, rfl, relV_jump hp T hk hle hx hoff hkk hV rfl rfl rfl rfl⟩
          · cases hbt
  cases x with
  | noop => cases hpl
  | add d a b => cases hpl
  | sub d a b => cases hpl
  | mul d a b => cases hpl
  | copy d a => cases hpl
  | mov sh =>
    simp only [stepI, StepRel]
    refine ⟨rfl, hk, rfl, rfl, ?_⟩
    refine relV_vacuous hp hI' hx (Nat.le_succ k) rfl ?_ hnoF' _ _
    intro t v hv
    obtain ⟨_, r, g1, g2⟩ := hI.replDom t v (hr t v hv)
    exact ⟨r, g1, g2⟩
  | scan cond sh =>
    simp only [stepI]
    by_cases h0 : st.rd cond = 0#w
    · simp only [h0, if_true, StepRel]
      exact hnext st (fun _ _ => rfl)
    · simp only [h0, if_false]
      by_cases hs : sh = 0
      · simp only [hs, if_true]
        cases lim with
        | true => simp only [if_true, StepRel]; exact ⟨StEq.refl _, rfl⟩
        | false =>
          simp only [Bool.false_eq_true, if_false, StepRel]
          exact ⟨rfl, Nat.le_of_lt hk, rfl, rfl, hV⟩
      · simp only [hs, if_false, StepRel]
        refine ⟨rfl, Nat.le_of_lt hk, rfl, rfl, ?_⟩
        refine relV_vacuous hp hI hx (Nat.le_refl k) (by simp [ptrStable, hs]) ?_ hnoF _ _
        intro t v hv
        obtain ⟨_, r, g1, g2⟩ := hI.replDom t v hv
        exact ⟨r, g1, g2⟩
  | inp d =>
    simp only [stepI]
    by_cases hb : (st.input d).1 = true
    · simp only [hb, if_true, StepRel]
      apply hnext
      intro m' hm
      exact rd_input st d m' (by simpa [memDefs] using hm)
    · simp only [hb, StepRel]
      exact ⟨StEq.refl _, rfl⟩
  | out d =>
    simp only [stepI]
    by_cases hb : (st.output d).1 = true
    · simp only [hb, if_true, StepRel]
      apply hnext
      intro m' _
      exact rd_output st d m'
    · simp only [hb, StepRel]
      exact ⟨StEq.refl _, rfl⟩
  | brz cond off => exact hbranch _ off rfl
  | brnz cond off => exact hbranch _ off rfl

/-! ### a computation that is moved away -/

theorem sim_fuse (hp : AllocPre s) (T : Trace s numRegs tr) {P Q : Program w} (lim : Bool) {k : Nat}
    (hk : k < s.insts.size) {op : BcGen.Op} {t : Nat} {s0 s1 : Loc w} {f : Nat} {m : Int}
    (hx : s.insts[k]? = some (mkArith op (.tmp t) s0 s1))
    (hxa : (tr k).st.insts[k]? = some (mkArith op (.tmp t) s0 s1)) (hkf : k < f)
    (hPf : s.insts[f]? = some (.copy (.mem m) (.tmp t)))
    (hf : (tr (k + 1)).st.insts[f]? = some (mkArith op (.mem m) s0 s1))
    (hnone : alGet (tr k).repl t = none) (hr : ReplSub (tr k) (tr (k + 1)) t (.mem m))
    {t1 t2 : Temps w} {b : Nat} {st : State w}
    (hV : RelV s k (tr k) ⟨k, t1, b, st⟩ ⟨k, t2, b, st⟩) :
    StepRel (Rel s tr) CfgEq CfgEq (stepI P lim ⟨k, t1, b, st⟩ (mkArith op (.tmp t) s0 s1))
      (stepI Q lim ⟨k, t2, b, st⟩ .noop) := by
  have hI := trace_inv hp T k (by omega)
  have hI' := trace_inv hp T (k + 1) (by omega)
  have K := (trace_sum hp T hk).kind
  have hz := hp.noZero k _ hx
  rw [noMemZero_mkArith] at hz
  rw [stepI_mkArith]
  simp only [arith, isDst, if_true, stepI, binopCfg_pure _ _ _ _ _ hz.2.1 hz.2.2, wrCfg, StepRel]
  refine ⟨rfl, hk, rfl, rfl, ?_⟩
  have hFnew : Fused s (k + 1) (tr (k + 1)) f op m t s0 s1 := ⟨hkf, hPf, hf⟩
  refine relV_succ hp hI hI' K hx hV rfl rfl (fun _ _ => rfl) ?_ (fun _ _ _ _ => rfl) ?_ ?_ ?_
  · intro t' hd
    have : t' ≠ t := by
      intro e; subst e; exact hd (by rw [defs_mkArith]; simp [locTmp])
    exact tget_tset_ne _ _ this
  · intro t' v hv hn hnp
    rcases hr.2 t' v hv with ⟨rfl, _⟩ | h
    · exact absurd ⟨f, op, m, s0, s1, hFnew⟩ hnp
    · rw [hn] at h; cases h
  · intro op' m' t' a' b' h
    have := h.2.2
    rw [hxa] at this
    have := mkArith_inj (Option.some.inj this)
    cases this.2.1
  · intro op' t' a' b' h _
    rw [hx] at h
    obtain ⟨rfl, ht, rfl, rfl⟩ := mkArith_inj (Option.some.inj h)
    cases ht
    exact tget_tset_same _ _ _

/-! ### operands -/

theorem opnd_val {k : Nat} {a : ASt w} {c1 c2 : Cfg w} (hR : RelV s k a c1 c2) (hst : c2.st = c1.st)
    {l l' : Loc w} (hlive : ∀ u, l = .tmp u → LiveAt s k a u ∧ ¬ PendDst s k a u)
    (hrs : replSrc a.repl l = .ok l') : rdVal c2 l' = rdVal c1 l := by
  rcases replSrc_ok hrs with ⟨u, rfl, hu⟩ | ⟨hnt, rfl⟩
  · obtain ⟨h1, h2⟩ := hlive u rfl
    exact (hR.val u l' hu h1 h2).symm
  · apply rdVal_of_eq
    · intro i e; exact absurd e (hnt i)
    · intro o _; rw [hst]

/-- Operands of an input instruction that is still in place. -/
theorem opnd_live_a (hp : AllocPre s) {k : Nat} {a : ASt w} (hI : PassInv s k a) {x : Instr w}
    (hx : s.insts[k]? = some x) (hxa : a.st.insts[k]? = some x) {u : Nat} (hu : u ∈ BcWf.uses x) :
    LiveAt s k a u ∧ ¬ PendDst s k a u := by
  obtain ⟨r, L, g1, g2, g3, g4⟩ := hp.uses k x u hx hu
  refine ⟨Or.inl ⟨r, L, g1, g2, g4⟩, ?_⟩
  rintro ⟨f, op, m, s0, s1, hf⟩
  obtain ⟨i, hik, hc, _⟩ := fused_cand hI hf
  obtain ⟨_, hreg, _⟩ := hp.fuse _ _ _ _ _ _ _ _ hc
  by_cases hkf : k = f
  · subst hkf
    have h1 := hf.2.1
    have h2 := hf.2.2
    rw [hx] at h1; cases h1
    rw [hxa] at h2
    exact absurd (Option.some.inj h2).symm (mkArith_ne_copy _ _ _ _ _ _)
  · exact (hreg k x hik (Nat.lt_of_le_of_ne hf.1 hkf) hx).2 hu

/-- Operands of a moved computation at its destination. -/
theorem opnd_live_b (hp : AllocPre s) {k : Nat} {a : ASt w} (hI : PassInv s k a) {op : BcGen.Op} {m : Int}
    {t : Nat} {s0 s1 : Loc w} (hF : Fused s k a k op m t s0 s1) {u : Nat} (hu : s0 = .tmp u ∨ s1 = .tmp u) :
    LiveAt s k a u ∧ ¬ PendDst s k a u := by
  refine ⟨Or.inr ⟨k, op, m, t, s0, s1, hF, hu⟩, ?_⟩
  rintro ⟨f', op', m', a', b', hf'⟩
  obtain ⟨i, hik, hc, _⟩ := fused_cand hI hF
  obtain ⟨i', hik', hc', ru, gu, gc⟩ := fused_cand hI hf'
  obtain ⟨_, hreg, _⟩ := hp.fuse _ _ _ _ _ _ _ _ hc'
  have hmem : u ∈ BcWf.uses (mkArith op (.tmp t) s0 s1) := by
    rw [uses_mkArith]; rcases hu with rfl | rfl <;> simp [locTmp]
  obtain ⟨r, L, g1, g2, g3, g4⟩ := hp.uses i _ u hc.inst hmem
  rw [gu] at g1; cases g1
  have := hf'.1
  exact (hreg i _ (by omega) (by omega) hc.inst).2 hmem

/-! ### an instruction that stays: the destination -/

def tmpOf : Loc w → Option Nat
  | .tmp t => some t
  | _ => none

/-- Both runs write the same value `v`: the input into `d`, the output into the location chosen in step 7. -/
theorem sim_dst (hp : AllocPre s) (T : Trace s numRegs tr) {P Q : Program w} (lim : Bool) {k : Nat}
    (hk : k < s.insts.size) {x new q : Instr w} (hx : s.insts[k]? = some x)
    (hxa : (tr k).st.insts[k]? = some x) {d : Loc w} {v : BitVec w} (hdz : locNoZero d = true)
    {t1 t2 : Temps w} {b : Nat} {st : State w}
    (hV : RelV s k (tr k) ⟨k, t1, b, st⟩ ⟨k, t2, b, st⟩)
    (hPs : stepI P lim ⟨k, t1, b, st⟩ x =
      if isDst d then .next { wrCfg ⟨k, t1, b, st⟩ v d with pc := k + 1 } else .bad ⟨k, t1, b, st⟩)
    (hQs : ∀ d', stepI Q lim ⟨k, t2, b, st⟩ (setDst new d') =
      if isDst d' then .next { wrCfg ⟨k, t2, b, st⟩ v d' with pc := k + 1 } else .bad ⟨k, t2, b, st⟩)
    (hnd : setDst new d = new)
    (hdn : dstTmp? new = tmpOf d)
    (hmd : memDefs x = locMem d) (hdf : BcWf.defs x = locTmp d)
    (hfwd : ∀ t src, new = .copy (.tmp t) src → v = rdVal (⟨k, t2, b, st⟩ : Cfg w) src)
    (harith : ∀ op t s0 s1, x = mkArith op (.tmp t) s0 s1 →
      d = .tmp t ∧ v = opFun op (rdVal (⟨k, t1, b, st⟩ : Cfg w) s0) (rdVal (⟨k, t1, b, st⟩ : Cfg w) s1))
    (hD : DstKind s k (tr k) (tr (k + 1)) new q) :
    StepRel (Rel s tr) CfgEq CfgEq (stepI P lim ⟨k, t1, b, st⟩ x) (stepI Q lim ⟨k, t2, b, st⟩ q) := by
  have hI := trace_inv hp T k (by omega)
  have hI' := trace_inv hp T (k + 1) (by omega)
  have K := (trace_sum hp T hk).kind
  have hexec : ∀ op m t s0 s1, Fused s k (tr k) k op m t s0 s1 →
      tget t1 t = (st.wr 0 0#w).rd m ∧ False := by
    intro op m t s0 s1 h
    exfalso
    have h1 := h.2.1
    have h2 := h.2.2
    rw [hx] at h1; cases h1
    rw [hxa] at h2
    exact absurd (Option.some.inj h2).symm (mkArith_ne_copy _ _ _ _ _ _)
  rw [hPs]
  cases d with
  | memZero o => cases hdz
  | imm cc =>
    have hdn' : dstTmp? new = none := hdn
    unfold DstKind at hD
    rw [hdn'] at hD
    rcases hD with ⟨_, rfl, _⟩ | ⟨t, ht, _⟩
    · have := hQs (.imm cc)
      rw [hnd] at this
      rw [this]
      simp only [isDst, Bool.false_eq_true, if_false, StepRel]
      exact ⟨StEq.refl _, rfl⟩
    · cases ht
  | mem md =>
    have hdn' : dstTmp? new = none := hdn
    unfold DstKind at hD
    rw [hdn'] at hD
    rcases hD with ⟨_, rfl, hsub⟩ | ⟨t, ht, _⟩
    · have := hQs (.mem md)
      rw [hnd] at this
      rw [this]
      simp only [isDst, if_true, wrCfg, StepRel]
      refine ⟨rfl, hk, rfl, rfl, ?_⟩
      refine relV_succ hp hI hI' K hx hV rfl rfl ?_ (fun _ _ => rfl) (fun _ _ _ _ => rfl) ?_ ?_ ?_
      · intro m' hm'
        rw [hmd] at hm'
        have : m' ≠ md := by simpa [locMem] using hm'
        show (st.wr md v).rd m' = st.rd m'
        rw [rd_wr]; simp [this]
      · intro t' v' hv hn _
        rw [hsub t' v' hv] at hn; cases hn
      · intro op m t s0 s1 h; exact (hexec op m t s0 s1 h).2.elim
      · intro op t s0 s1 h _
        rw [hx] at h
        have := (harith op t s0 s1 (Option.some.inj h)).1
        cases this
    · cases ht
  | tmp t =>
    have hdn' : dstTmp? new = some t := hdn
    unfold DstKind at hD
    rw [hdn'] at hD
    have hvnew : ∀ op t' s0 s1, s.insts[k]? = some (mkArith op (.tmp t') s0 s1) →
        t' = t ∧ v = opFun op (rdVal (⟨k, t1, b, st⟩ : Cfg w) s0) (rdVal (⟨k, t1, b, st⟩ : Cfg w) s1) := by
      intro op t' s0 s1 h
      rw [hx] at h
      obtain ⟨e, hv⟩ := harith op t' s0 s1 (Option.some.inj h)
      cases e
      exact ⟨rfl, hv⟩
    rcases hD with ⟨hcontra, _, _⟩ | ⟨t', ht', hnone, _, hD⟩
    · cases hcontra
    cases ht'
    have hne : ∀ t' v', alGet (tr k).repl t' = some v' → t' ≠ t := by
      intro t' v' hv e; subst e; rw [hnone] at hv; cases hv
    have hnd' : ∀ t', t' ∉ BcWf.defs x → t' ≠ t := by
      intro t' hd e; subst e; exact hd (by rw [hdf]; simp [locTmp])
    simp only [isDst, if_true, wrCfg]
    rcases hD with ⟨rfl, hsub⟩ | ⟨src, hnew, _, rfl, hrs⟩ | ⟨r, rfl, hrs⟩
    · -- the value is never used
      simp only [stepI, StepRel]
      refine ⟨rfl, hk, rfl, rfl, ?_⟩
      refine relV_succ hp hI hI' K hx hV rfl rfl (fun _ _ => rfl) ?_ (fun _ _ _ _ => rfl) ?_ ?_ ?_
      · intro t' hd; exact tget_tset_ne _ _ (hnd' t' hd)
      · intro t' v' hv hn _
        rw [hsub t' v' hv] at hn; cases hn
      · intro op m t s0 s1 h; exact (hexec op m t s0 s1 h).2.elim
      · intro op t' s0 s1 h _
        obtain ⟨rfl, hv⟩ := hvnew op t' s0 s1 h
        rw [← hv]; exact tget_tset_same _ _ _
    · -- forwarded
      simp only [stepI, StepRel]
      refine ⟨rfl, hk, rfl, rfl, ?_⟩
      refine relV_succ hp hI hI' K hx hV rfl rfl (fun _ _ => rfl) ?_ (fun _ _ _ _ => rfl) ?_ ?_ ?_
      · intro t' hd; exact tget_tset_ne _ _ (hnd' t' hd)
      · intro t' v' hv hn _
        rcases hrs.2 t' v' hv with ⟨rfl, rfl⟩ | h
        · show tget (tset t1 t' v) t' = _
          rw [tget_tset_same, hfwd t' v' hnew]
          apply rdVal_of_eq <;> (intros; rfl)
        · rw [hn] at h; cases h
      · intro op m t s0 s1 h; exact (hexec op m t s0 s1 h).2.elim
      · intro op t' s0 s1 h _
        obtain ⟨rfl, hv⟩ := hvnew op t' s0 s1 h
        rw [← hv]; exact tget_tset_same _ _ _
    · -- allocated
      rw [hQs (.tmp r)]
      simp only [isDst, if_true, wrCfg, StepRel]
      refine ⟨rfl, hk, rfl, rfl, ?_⟩
      refine relV_succ hp hI hI' K hx hV rfl rfl (fun _ _ => rfl) ?_ ?_ ?_ ?_ ?_
      · intro t' hd; exact tget_tset_ne _ _ (hnd' t' hd)
      · intro t' r' hv' hv
        have : r' ≠ r := by
          intro e; subst e
          have := hI'.regs.inj t' t r' hv' hrs.1
          exact hne t' _ hv this
        exact tget_tset_ne _ _ this
      · intro t' v' hv hn _
        rcases hrs.2 t' v' hv with ⟨rfl, rfl⟩ | h
        · show tget (tset t1 t' v) t' = tget (tset t2 r v) r
          rw [tget_tset_same, tget_tset_same]
        · rw [hn] at h; cases h
      · intro op m t s0 s1 h; exact (hexec op m t s0 s1 h).2.elim
      · intro op t' s0 s1 h _
        obtain ⟨rfl, hv⟩ := hvnew op t' s0 s1 h
        rw [← hv]; exact tget_tset_same _ _ _

theorem setDst_mkArith (op : BcGen.Op) (d d' a b : Loc w) : setDst (mkArith op d a b) d' = mkArith op d' a b := by
  cases op <;> rfl

/-! ### an instruction that stays -/

theorem sim_rw (hp : AllocPre s) (T : Trace s numRegs tr) {P Q : Program w} (lim : Bool) {k : Nat}
    (hk : k < s.insts.size) {x cur new q : Instr w} (hx : s.insts[k]? = some x)
    (hxa : (tr k).st.insts[k]? = some cur) (hpl : plain cur = true)
    (hn : rwInst (tr k).repl cur = .ok new) (hD : DstKind s k (tr k) (tr (k + 1)) new q)
    {t1 t2 : Temps w} {b : Nat} {st : State w}
    (hV : RelV s k (tr k) ⟨k, t1, b, st⟩ ⟨k, t2, b, st⟩) :
    StepRel (Rel s tr) CfgEq CfgEq (stepI P lim ⟨k, t1, b, st⟩ x) (stepI Q lim ⟨k, t2, b, st⟩ q) := by
  have hI := trace_inv hp T k (by omega)
  have hI' := trace_inv hp T (k + 1) (by omega)
  have K := (trace_sum hp T hk).kind
  have hrz : ∀ t v, alGet (tr k).repl t = some v → locNoZero v = true := fun t v g => (hI.replDom t v g).1
  rcases hI.fut k (Nat.le_refl _) with hsame | ⟨op, m, t, s0, s1, hF⟩
  · -- the input instruction is still in place
    have hcx : x = cur := by
      rw [hx, hxa] at hsame
      exact (Option.some.inj hsame).symm
    subst hcx
    have hz := hp.noZero k _ hx
    have hlive : ∀ l : Loc w, (∀ u, l = Loc.tmp u → u ∈ BcWf.uses x) →
        ∀ u, l = Loc.tmp u → LiveAt s k (tr k) u ∧ ¬ PendDst s k (tr k) u :=
      fun l h u e => opnd_live_a hp hI hx hxa (h u e)
    rcases rwInst_cases hn with ⟨d, src, src', rfl, g, rfl⟩ | ⟨op, d, s0, s1, s0', s1', rfl, g0, g1, rfl⟩ |
        ⟨hc, _⟩ | ⟨rfl, rfl⟩
    · -- copy
      simp only [NoMemZero, noMemZero, Bool.and_eq_true] at hz
      have hv : rdVal (⟨k, t2, b, st⟩ : Cfg w) src' = rdVal (⟨k, t1, b, st⟩ : Cfg w) src :=
        opnd_val hV rfl (hlive src (by intro u e; subst e; simp [BcWf.uses, locTmp])) g
      have hz' := replSrc_noZero g hrz hz.2
      refine sim_dst hp T lim hk hx hxa hz.1 hV (d := d) (v := rdVal (⟨k, t1, b, st⟩ : Cfg w) src) ?_ ?_ rfl ?_ rfl rfl
        ?_ ?_ hD
      · simp only [stepI, copyCfg_pure _ _ _ hz.2]
      · intro d'
        simp only [setDst, stepI, copyCfg_pure _ _ _ hz', hv]
      · cases d <;> rfl
      · intro t src'' e
        cases e
        exact hv.symm
      · intro op t a b' e
        exact absurd e.symm (mkArith_ne_copy _ _ _ _ _ _)
    · -- arithmetic
      rw [noMemZero_mkArith] at hz
      have hv0 : rdVal (⟨k, t2, b, st⟩ : Cfg w) s0' = rdVal (⟨k, t1, b, st⟩ : Cfg w) s0 :=
        opnd_val hV rfl (hlive s0 (by intro u e; subst e; rw [uses_mkArith]; simp [locTmp])) g0
      have hv1 : rdVal (⟨k, t2, b, st⟩ : Cfg w) s1' = rdVal (⟨k, t1, b, st⟩ : Cfg w) s1 :=
        opnd_val hV rfl (hlive s1 (by intro u e; subst e; rw [uses_mkArith]; simp [locTmp])) g1
      have hz0 := replSrc_noZero g0 hrz hz.2.1
      have hz1 := replSrc_noZero g1 hrz hz.2.2
      refine sim_dst hp T lim hk hx hxa hz.1 hV (d := d)
        (v := opFun op (rdVal (⟨k, t1, b, st⟩ : Cfg w) s0) (rdVal (⟨k, t1, b, st⟩ : Cfg w) s1)) ?_ ?_
        (setDst_mkArith _ _ _ _ _) ?_ ?_ (defs_mkArith _ _ _ _) ?_ ?_ hD
      · rw [stepI_mkArith]
        simp only [arith, binopCfg_pure _ _ _ _ _ hz.2.1 hz.2.2]
      · intro d'
        rw [setDst_mkArith, stepI_mkArith]
        simp only [arith, binopCfg_pure _ _ _ _ _ hz0 hz1, hv0, hv1]
      · rw [dstTmp?_mkArith]; cases d <;> rfl
      · cases op <;> rfl
      · intro t src'' e
        exact absurd e (mkArith_ne_copy _ _ _ _ _ _)
      · intro op' t a b' e
        obtain ⟨rfl, rfl, rfl, rfl⟩ := mkArith_inj e
        exact ⟨rfl, rfl⟩
    · rw [hc] at hpl; cases hpl
    · -- noop
      have hq : q = .noop := by
        rcases hD with ⟨_, e, _⟩ | ⟨t, ht, _⟩
        · exact e
        · cases ht
      subst hq
      simp only [stepI, StepRel]
      refine ⟨rfl, hk, rfl, rfl, ?_⟩
      have hsub : ∀ t' v, alGet (tr (k + 1)).repl t' = some v → alGet (tr k).repl t' = some v := by
        rcases hD with ⟨_, _, h⟩ | ⟨t, ht, _⟩
        · exact h
        · cases ht
      refine relV_succ hp hI hI' K hx hV rfl rfl (fun _ _ => rfl) (fun _ _ => rfl) (fun _ _ _ _ => rfl)
        ?_ ?_ ?_
      · intro t' v hv hn' _
        rw [hsub t' v hv] at hn'; cases hn'
      · intro op m t s0 s1 h
        have := h.2.2
        rw [hxa] at this
        cases op <;> cases this
      · intro op t s0 s1 h _
        rw [hx] at h
        cases op <;> cases h
  · -- a moved computation arrives at its destination
    have h1 := hF.2.1
    have h2 := hF.2.2
    rw [hx] at h1; cases h1
    rw [hxa] at h2; cases h2
    have hz := (hI.skel k _ hxa).1
    rw [noMemZero_mkArith] at hz
    rcases rwInst_cases hn with ⟨d, src, src', e, _⟩ | ⟨op', d, a', b', s0', s1', e, g0, g1, rfl⟩ |
        ⟨hc, _⟩ | ⟨e, _⟩
    · exact absurd e (mkArith_ne_copy _ _ _ _ _ _)
    · obtain ⟨rfl, rfl, rfl, rfl⟩ := mkArith_inj e
      have hq : q = mkArith op (.mem m) s0' s1' := by
        rcases hD with ⟨_, e, _⟩ | ⟨t', ht', _⟩
        · exact e
        · rw [dstTmp?_mkArith] at ht'; cases ht'
      have hsub : ∀ t' v, alGet (tr (k + 1)).repl t' = some v → alGet (tr k).repl t' = some v := by
        rcases hD with ⟨_, _, h⟩ | ⟨t', ht', _⟩
        · exact h
        · rw [dstTmp?_mkArith] at ht'; cases ht'
      subst hq
      have hv0 : rdVal (⟨k, t2, b, st⟩ : Cfg w) s0' = rdVal (⟨k, t1, b, st⟩ : Cfg w) s0 :=
        opnd_val hV rfl (fun u e => opnd_live_b hp hI hF (Or.inl e)) g0
      have hv1 : rdVal (⟨k, t2, b, st⟩ : Cfg w) s1' = rdVal (⟨k, t1, b, st⟩ : Cfg w) s1 :=
        opnd_val hV rfl (fun u e => opnd_live_b hp hI hF (Or.inr e)) g1
      have hz0 := replSrc_noZero g0 hrz hz.2.1
      have hz1 := replSrc_noZero g1 hrz hz.2.2
      have hpend : tget t1 t = opFun op (rdVal (⟨k, t1, b, st⟩ : Cfg w) s0) (rdVal (⟨k, t1, b, st⟩ : Cfg w) s1) :=
        hV.pend k op m t s0 s1 hF
      have hPs : stepI P lim ⟨k, t1, b, st⟩ (.copy (.mem m) (.tmp t)) =
          .next ⟨k + 1, t1, b, st.wr m (tget t1 t)⟩ := rfl
      have hQs : stepI Q lim ⟨k, t2, b, st⟩ (mkArith op (.mem m) s0' s1') =
          .next ⟨k + 1, t2, b, st.wr m (tget t1 t)⟩ := by
        rw [stepI_mkArith]
        simp only [arith, isDst, if_true, binopCfg_pure _ _ _ _ _ hz0 hz1, wrCfg, hv0, hv1, ← hpend]
      rw [hPs, hQs]
      simp only [StepRel]
      refine ⟨rfl, hk, rfl, rfl, ?_⟩
      refine relV_succ hp hI hI' K hx hV rfl rfl ?_ (fun _ _ => rfl) (fun _ _ _ _ => rfl) ?_ ?_ ?_
      · intro m' hm'
        have : m' ≠ m := by simpa [memDefs, locMem] using hm'
        show (st.wr m (tget t1 t)).rd m' = st.rd m'
        rw [rd_wr]; simp [this]
      · intro t' v hv hn' _
        rw [hsub t' v hv] at hn'; cases hn'
      · intro op'' m'' t'' a'' b'' h
        have h1 := h.2.1
        rw [hx] at h1
        simp only [Option.some.injEq, Instr.copy.injEq, Loc.mem.injEq, Loc.tmp.injEq] at h1
        obtain ⟨rfl, rfl⟩ := h1
        show tget t1 t = (st.wr m (tget t1 t)).rd m
        rw [rd_wr]; simp
      · intro op'' t'' a'' b'' h _
        rw [hx] at h
        exact absurd (Option.some.inj h) (Ne.symm (mkArith_ne_copy _ _ _ _ _ _))
    · rw [plain_mkArith] at hc; cases hc
    · cases op <;> cases e

end

end Alloc
end C02
end Hpbf
