/-
Rebuild-round proofs: the FOOTPRINT of `loopOrIf` (non-moving child) without `hGcT`, part 2: the read footprint
(`loopOrIf_stay_foot_g`), mirrored badness (`loopOrIf_stay_footBad_g`), the write frame (`loopOrIf_stay_footFrame_g`).
For `isLoop = false` these are rb-foot's lemmas (whose `hGcT` is void); for `isLoop = true` the valid first run of the
child at every head is the source head re-coordinated (`loopPrep_stay_heads`).
-/
import Hpbf.Proofs.OptRbFootG1

namespace Hpbf
namespace OptProof
open Opt OptSem Ir

variable {w : Nat}

/-- The read footprint of `loopOrIf` for a real loop. -/
theorem loopOrIf_stay_foot_loop {shP shC shS cS : Int} {bodyS : List (Instr w)}
    {s : Rebuild w} {ps : List (Rebuild w)} {sub : Rebuild w} {cond : Int} {isLoop : Bool} {L : OptLoop w}
    {C : List Int} {pc : List (Rebuild w)} {sub0 : Rebuild w} {os os' : Orders} {s' : Rebuild w}
    {G Gc : State w → Prop}
    (hr : (loopOrIf s ps sub cond isLoop L C).run os = .ok (s', os'))
    (hwf : Wf s) (hpre : ChildPre Gc shP shC pc sub0 sub cS bodyS)
    (hns : (sub.subShift || sub.shift != s.shift) = false)
    (hcond : cond = cS + shP) (hsh : shC + shS = shP)
    (hGc : ∀ M0 σE σS, RelAt shP s ps M0 σE σS → G σS → ∀ k σk, Head cS shS bodyS σS k σk →
      (isLoop = false → k = 0) → σk.rd cS ≠ 0#w → Gc σk)
    (hifne : L.noEffect = true → ∀ M0 σ1 σS, RelAt shP s ps M0 σ1 σS → G σS →
      σS.rd cS ≠ 0#w → ∀ new x, s'.insts = s.insts ++ new → ¬ Exec new σ1 (.fin x))
    (halo : L.atLeastOnce = true → ∀ M0 σE σS, RelAt shP s ps M0 σE σS → G σS → σS.rd cS ≠ 0#w) :
    isLoop = true → ∃ new, s'.insts = s.insts ++ new ∧ FootStepV (ValidG G shP s ps) s s' new ∧ ReadsMono s s' ∧
      (s'.subShift = false → ∀ v, mGet s'.written v = none → mGet s.written v = none) := by
  subst hcond
  obtain ⟨sub1, os1, r, h1, h2, rfl⟩ := loopOrIf_run hr
  obtain ⟨hc, hwf1, hshift1⟩ := hpre.emit h1
  have hshEq : sub.shift = s.shift := by
    have := hns
    simp only [Bool.or_eq_false_iff, bne_eq_false_iff_eq] at this
    exact this.2
  have hns1 : (sub1.subShift || sub1.shift != s.shift) = false := by
    rw [hc.noShift, hshift1, hshEq]; simp
  -- the semantic package
  obtain ⟨compsL, eL, hsemc⟩ := loopPrep_stay_semctx hc hwf hwf1 hns1 h2
  obtain ⟨compsH, eH, hheads⟩ := loopPrep_stay_heads (isLoop := isLoop) (G := G) hc hwf hwf1 hns1 hsh hGc h2
  have hcompsH : compsL = compsH := calc_map_inj (List.append_cancel_left (eL.symm.trans eH))
  subst hcompsH
  -- the footprint package
  obtain ⟨comps, hsubR, p1, p2, p3, p4, p5, p6, p7⟩ := loopPrep_stay_foot hwf hwf1 hns1 h2
  have hcompsL : compsL = comps := calc_map_inj (List.append_cancel_left (eL.symm.trans p1))
  subst hcompsL
  -- fields of the result
  obtain ⟨t1, _, _, t4, t5, _, t7⟩ := loopTail_fields r.1 r.2.1 (cS + shP) isLoop L
    (sub1.subShift || sub1.shift != s.shift) r.2.2
  have hbs : r.2.1.shift - r.1.shift = 0 := by
    rw [hsubR, p3.2.2.1]
    show sub1.shift - s.shift = 0
    rw [hshift1, hshEq]; omega
  have hinsR : r.2.1.insts = sub1.insts := by rw [hsubR]
  rw [hbs, hinsR] at t7
  have hssEq : (loopTail r.1 r.2.1 (cS + shP) isLoop L (sub1.subShift || sub1.shift != s.shift) r.2.2).subShift =
      r.1.subShift := t1.2.2.2.2
  -- `written` of the result away from the condition cell
  have hwne : ∀ v, v ≠ cS + shP →
      mGet (loopTail r.1 r.2.1 (cS + shP) isLoop L (sub1.subShift || sub1.shift != s.shift) r.2.2).written v =
        mGet r.1.written v := by
    intro v hv
    rw [t5]
    split
    · rw [mGet_mSet_ne _ _ _ _ (fun e => hv e.symm)]
    · rfl
  have hwnone : ∀ v,
      mGet (loopTail r.1 r.2.1 (cS + shP) isLoop L (sub1.subShift || sub1.shift != s.shift) r.2.2).written v =
        none → mGet r.1.written v = none := by
    intro v hv
    rw [t5] at hv
    split at hv
    · rw [mGet_mSet] at hv
      split at hv
      · cases hv
      · exact hv
    · exact hv
  have hinsts : (loopTail r.1 r.2.1 (cS + shP) isLoop L (sub1.subShift || sub1.shift != s.shift) r.2.2).insts =
      s.insts ++ (compsL.map Instr.calc ++ [if isLoop then Instr.loop (cS + shP) 0 sub1.insts L.atLeastOnce
        else Instr.ifnz (cS + shP) 0 sub1.insts]) := by
    rw [t7, p1, List.append_assoc]
  intro hil
  refine ⟨compsL.map Instr.calc ++ [if isLoop then Instr.loop (cS + shP) 0 sub1.insts L.atLeastOnce
      else Instr.ifnz (cS + shP) 0 sub1.insts], hinsts, ?_, ?_, ?_⟩
  · -- the read footprint
    intro hss K hK σ1 σ2 v1 hag
    have hssP : r.1.subShift = false := by rw [← hssEq]; exact hss
    have hKP : ∀ v, K v → v ∉ r.1.reads := fun v hv hr' => hK v hv (by rw [t4]; exact hr')
    have hA := p5 hssP K hKP σ1 σ2 hag
    refine Sim.calcs_both compsL compsL ?_
    -- names for the two head states
    obtain ⟨τ1, hτ1⟩ : ∃ τ, τ = compsL.foldl doCalc σ1 := ⟨_, rfl⟩
    obtain ⟨τ2, hτ2⟩ : ∃ τ, τ = compsL.foldl doCalc σ2 := ⟨_, rfl⟩
    rw [← hτ1, ← hτ2] at hA ⊢
    -- the condition cell is read alike
    have hAcond : ∀ (X : Int → Prop) (a b : State w), (∀ v, X v → HeadSet K r.1 sub1 (cS + shP) L C v) →
        AgreeOff X a b → a.rd (cS + shP) = b.rd (cS + shP) := by
      intro X a b hX hab
      exact hab.2.2.2 (cS + shP) (fun h => (hX _ h).1.2 rfl)
    have hAreads : ∀ v, HeadSet K r.1 sub1 (cS + shP) L C v → v ∉ sub1.reads := fun v h => h.1.1
    -- one round
    have hround : (∀ σ, Gc σ) → ∀ a b : State w, AgreeOff (HeadSet K r.1 sub1 (cS + shP) L C) a b →
        a.rd (cS + shP) ≠ 0#w →
        Sim (fun a' b' => AgreeOff (Rest (HeadSet K r.1 sub1 (cS + shP) L C) sub1) (a'.mov 0) (b'.mov 0))
          sub1.insts sub1.insts a b := by
      intro hall a b hab hne
      have hab0 : AgreeOff (Rest (HeadSet K r.1 sub1 (cS + shP) L C) sub0) a b :=
        hab.congr (fun v => (rest_fresh hc.w0 v).symm)
      exact (hc.foot hc.noShift _ hAreads a b (hc.valid_head hall hne) hab0).mono
        (fun a' b' h => h.mov0)
    -- the loop runs at least once when that is claimed
    have hfirst : L.atLeastOnce = true → τ1.rd (cS + shP) ≠ 0#w := by
      intro hal
      obtain ⟨M0, σS, hrel, hg⟩ := v1
      rw [hτ1, (hsemc M0 σ1 σS hrel).1]
      exact halo hal M0 σ1 σS hrel hg
    -- leaving the loop / if
    have hexit : ∀ a b : State w, AgreeOff (HeadSet K r.1 sub1 (cS + shP) L C) a b →
        (L.atLeastOnce = true → AgreeOff (Rest (HeadSet K r.1 sub1 (cS + shP) L C) sub1) a b) →
        AgreeOff (Rest K (loopTail r.1 r.2.1 (cS + shP) isLoop L
          (sub1.subShift || sub1.shift != s.shift) r.2.2)) a b := by
      intro a b hab hlater
      refine ⟨hab.1, hab.2.1, hab.2.2.1, ?_⟩
      intro v hv
      by_cases hAv : HeadSet K r.1 sub1 (cS + shP) L C v
      · obtain ⟨⟨_, hvc⟩, hcase⟩ := hAv
        have hdw : DefW (loopTail r.1 r.2.1 (cS + shP) isLoop L
            (sub1.subShift || sub1.shift != s.shift) r.2.2) v ↔ DefW r.1 v := DefW.of_get_eq (hwne v hvc)
        rcases hcase with ⟨hk, hnd⟩ | ⟨hk, hcl⟩
        · exact absurd ⟨hk, fun hd => hnd (hdw.1 hd)⟩ hv
        · by_cases hd : DefW r.1 v
          · obtain ⟨hal, hdsub⟩ := p6 v hvc hcl hd
            exact (hlater hal).2.2.2 v (fun hrest => hrest.2 hdsub)
          · exact absurd ⟨hk, fun hd' => hd (hdw.1 hd')⟩ hv
      · exact hab.2.2.2 v hAv
    -- the heads of the valid run
    obtain ⟨M0, σS, hrel, hg⟩ := v1
    have hV : HeadsV Gc shP cS pc sub0 sub1 L isLoop τ1 := by
      rw [hτ1]
      exact headsV_of_ctx (hheads M0 σ1 σS hrel hg) (hGc M0 σ1 σS hrel hg)
    have hcell : τ1.rd (cS + shP) = σS.rd cS := by rw [hτ1]; exact (hsemc M0 σ1 σS hrel).1
    have hHc : ¬ HeadSet K r.1 sub1 (cS + shP) L C (cS + shP) := fun h => h.1.2 rfl
    subst hil
    simp only [if_true]
    cases hnev : L.noEffect with
    | true =>
      refine (loop_foot_nofin hc hV ⟨Head.zero, _, hA, hAreads, hHc⟩ ?_).mono ?_
      · intro hne x hx
        refine hifne hnev M0 σ1 σS hrel hg (by rw [← hcell]; exact hne) _ x hinsts ?_
        refine (exec_calcs_iff compsL _ σ1 _).2 ?_
        simp only [if_true]
        rw [← hτ1]
        exact hx
      · rintro a b ⟨rfl, rfl, hz⟩
        exact hexit _ _ hA (fun hal => absurd hz (hfirst hal))
    | false =>
      refine (loop_foot_eff hc hwf1 hV hnev hAreads hHc hA).mono ?_
      rintro a b ⟨hab, hor⟩
      refine hexit a b hab ?_
      intro hal
      rcases hor with ⟨_, _, hz⟩ | h
      · exact absurd hz (hfirst hal)
      · exact h
  · refine ⟨fun v hv => ?_, fun h => p4.2 (by rw [← hssEq]; exact h)⟩
    rw [t4]
    exact p4.1 v hv
  · intro hss v hv
    exact p7 (by rw [← hssEq]; exact hss) v (hwnone v hv)


/-- The read footprint of `loopOrIf` (non-moving child), without `hGcT`.  (`hifne`: when the block has no effect,
once entered it never ends; here for loops too.) -/
theorem loopOrIf_stay_foot_g {shP shC shS cS : Int} {bodyS : List (Instr w)}
    {s : Rebuild w} {ps : List (Rebuild w)} {sub : Rebuild w} {cond : Int} {isLoop : Bool} {L : OptLoop w}
    {C : List Int} {pc : List (Rebuild w)} {sub0 : Rebuild w} {os os' : Orders} {s' : Rebuild w}
    {G Gc : State w → Prop}
    (hr : (loopOrIf s ps sub cond isLoop L C).run os = .ok (s', os'))
    (hwf : Wf s) (hpre : ChildPre Gc shP shC pc sub0 sub cS bodyS)
    (hns : (sub.subShift || sub.shift != s.shift) = false)
    (hcond : cond = cS + shP) (hsh : shC + shS = shP)
    (hGc : ∀ M0 σE σS, RelAt shP s ps M0 σE σS → G σS → ∀ k σk, Head cS shS bodyS σS k σk →
      (isLoop = false → k = 0) → σk.rd cS ≠ 0#w → Gc σk)
    (hifne : L.noEffect = true → ∀ M0 σ1 σS, RelAt shP s ps M0 σ1 σS → G σS →
      σS.rd cS ≠ 0#w → ∀ new x, s'.insts = s.insts ++ new → ¬ Exec new σ1 (.fin x))
    (halo : L.atLeastOnce = true → ∀ M0 σE σS, RelAt shP s ps M0 σE σS → G σS → σS.rd cS ≠ 0#w) :
    ∃ new, s'.insts = s.insts ++ new ∧ FootStepV (ValidG G shP s ps) s s' new ∧ ReadsMono s s' ∧
      (s'.subShift = false → ∀ v, mGet s'.written v = none → mGet s.written v = none) := by
  rcases Bool.eq_false_or_eq_true isLoop with hil | hil
  · exact loopOrIf_stay_foot_loop hr hwf hpre hns hcond hsh hGc hifne halo hil
  · subst hil
    exact loopOrIf_stay_foot hr hwf hpre hns hcond hGc (fun h => Bool.noConfusion h) (fun _ => hifne) halo

/-! ### mirrored badness -/

theorem loopOrIf_stay_footBad_g {shP shC shS cS : Int} {bodyS : List (Instr w)}
    {s : Rebuild w} {ps : List (Rebuild w)} {sub : Rebuild w} {cond : Int} {isLoop : Bool} {L : OptLoop w}
    {C : List Int} {pc : List (Rebuild w)} {sub0 : Rebuild w} {os os' : Orders} {s' : Rebuild w}
    {G Gc : State w → Prop}
    (hr : (loopOrIf s ps sub cond isLoop L C).run os = .ok (s', os'))
    (hwf : Wf s) (hpre : ChildPre Gc shP shC pc sub0 sub cS bodyS)
    (hns : (sub.subShift || sub.shift != s.shift) = false)
    (hcond : cond = cS + shP) (hsh : shC + shS = shP)
    (hGc : ∀ M0 σE σS, RelAt shP s ps M0 σE σS → G σS → ∀ k σk, Head cS shS bodyS σS k σk →
      (isLoop = false → k = 0) → σk.rd cS ≠ 0#w → Gc σk) :
    ∃ new, s'.insts = s.insts ++ new ∧ FootBadV (ValidG G shP s ps) s s' new := by
  subst hcond
  obtain ⟨sub1, os1, r, h1, h2, rfl⟩ := loopOrIf_run hr
  obtain ⟨hc, hwf1, hshift1⟩ := hpre.emit h1
  have hshEq : sub.shift = s.shift := by
    have := hns
    simp only [Bool.or_eq_false_iff, bne_eq_false_iff_eq] at this
    exact this.2
  have hns1 : (sub1.subShift || sub1.shift != s.shift) = false := by
    rw [hc.noShift, hshift1, hshEq]; simp
  obtain ⟨comps, hi, hhead, _, _, _⟩ :=
    loopOrIf_stay_setup (isLoop := isLoop)
      (sub1.subShift || sub1.shift != s.shift) hwf hwf1 hns1 h2
  obtain ⟨compsL, eL, hsemc⟩ := loopPrep_stay_semctx hc hwf hwf1 hns1 h2
  have hcL : compsL = comps := by
    apply calc_map_inj
    obtain ⟨_, _, _, _, _, _, t7⟩ := loopTail_fields r.1 r.2.1 (cS + shP) isLoop L
      (sub1.subShift || sub1.shift != s.shift) r.2.2
    rw [t7, eL, List.append_assoc] at hi
    exact List.append_inj_left' (List.append_cancel_left hi) rfl
  rw [hcL] at hsemc
  obtain ⟨compsH, eH, hheads⟩ := loopPrep_stay_heads (isLoop := isLoop) (G := G) hc hwf hwf1 hns1 hsh hGc h2
  have hcH : compsH = comps := (calc_map_inj (List.append_cancel_left (eH.symm.trans eL))).trans hcL
  rw [hcH] at hheads
  refine ⟨_, hi, ?_⟩
  intro hss K hK σ1 σ2 v1 hag hbad
  have hA := hhead hss K hK σ1 σ2 hag
  rw [bad_calcs_iff] at hbad ⊢
  have hXr : ∀ v, HeadSet K r.1 sub1 (cS + shP) L C v → v ∉ sub1.reads := fun v h => h.1.1
  have hcnd : ∀ a b : State w, AgreeOff (HeadSet K r.1 sub1 (cS + shP) L C) a b →
      a.rd (cS + shP) = b.rd (cS + shP) := fun a b hab => hab.2.2.2 (cS + shP) (fun h => h.1.2 rfl)
  cases isLoop with
  | true =>
    simp only [if_true] at hbad ⊢
    obtain ⟨M0, σS, hrel, hg⟩ := v1
    have hV : HeadsV Gc shP cS pc sub0 sub1 L true (comps.foldl doCalc σ1) :=
      headsV_of_ctx (hheads M0 σ1 σS hrel hg) (hGc M0 σ1 σS hrel hg)
    exact loop_bad_g hc hV ⟨Head.zero, _, hA, hXr, fun h => h.1.2 rfl⟩ hbad
  | false =>
    simp only [Bool.false_eq_true, if_false] at hbad ⊢
    -- the body is not bad from the real source state, hence (mirrored) not from the second run
    exfalso
    cases hbad with
    | ifSkip _ hb' => cases hb'
    | ifIter _ _ hb' => cases hb'
    | ifIn hne hb' =>
      obtain ⟨M0, σS, hrel, hg⟩ := v1
      obtain ⟨hcell, hctx⟩ := hsemc M0 σ1 σS hrel
      have hneS : σS.rd cS ≠ 0#w := by rw [← hcell, hcnd _ _ hA]; exact hne
      have hGcS : Gc σS := hGc M0 σ1 σS hrel hg 0 σS Head.zero (fun _ => rfl) hneS
      obtain ⟨hvX, hnbX, hXp, hXe, hXt, hXrd, _⟩ := hctx hneS hGcS
      obtain ⟨_, hbm, _⟩ := child_chain hc.foot hc.badfoot hc.frame2 hc.noShift hc.w0 hvX hXr hXp hXe hXt
        hXrd hA
      exact hnbX (hbm hb')

/-! ### the write frame along the footprint -/

/-- The write frame of `loopOrIf` (non-moving child), given the simulation statement of `loopOrIf_stay_ok'` as a
hypothesis. -/
theorem loopOrIf_stay_footFrame_of_step_g {shP shC shS cS : Int} {bodyS : List (Instr w)} {oS : Bool}
    {s : Rebuild w} {ps : List (Rebuild w)} {sub : Rebuild w} {cond : Int} {isLoop : Bool} {L : OptLoop w}
    {C : List Int} {pc : List (Rebuild w)} {sub0 : Rebuild w} {os os' : Orders} {s' : Rebuild w}
    {G Gc : State w → Prop}
    (hr : (loopOrIf s ps sub cond isLoop L C).run os = .ok (s', os'))
    (hwf : Wf s) (hpre : ChildPre Gc shP shC pc sub0 sub cS bodyS)
    (hns : (sub.subShift || sub.shift != s.shift) = false)
    (hcond : cond = cS + shP) (hsh : shC + shS = shP)
    (hGc : ∀ M0 σE σS, RelAt shP s ps M0 σE σS → G σS → ∀ k σk, Head cS shS bodyS σS k σk →
      (isLoop = false → k = 0) → σk.rd cS ≠ 0#w → Gc σk)
    (halo : L.atLeastOnce = true → ∀ M0 σE σS, RelAt shP s ps M0 σE σS → G σS → σS.rd cS ≠ 0#w)
    (hne : L.noEffect = true → ∀ M0 σE σS, RelAt shP s ps M0 σE σS → G σS →
      σS.rd cS = 0#w ∨ ∀ x, ¬ Exec [blockInstr isLoop cS shS bodyS oS] σS (.fin x))
    (hstepEx : ∃ new, s'.insts = s.insts ++ new ∧
      StepNG G shP shP ps s s' [blockInstr isLoop cS shS bodyS oS] new) :
    ∃ new, s'.insts = s.insts ++ new ∧ FootFrameV (ValidG G shP s ps) s s' new := by
  have hifne : L.noEffect = true → ∀ M0 σ1 σS, RelAt shP s ps M0 σ1 σS → G σS →
      σS.rd cS ≠ 0#w → ∀ new x, s'.insts = s.insts ++ new → ¬ Exec new σ1 (.fin x) := by
    intro hnev M0 σ1 σS hrel hg hneS new x hin hx
    obtain ⟨newS, eS, hst⟩ := hstepEx
    have : new = newS := List.append_cancel_left (hin.symm.trans eS)
    subst this
    rcases hne hnev M0 σ1 σS hrel hg with h | h
    · exact hneS h
    · exact nofin_of_step hst hrel hg h x hx
  obtain ⟨newF, eF, hfoot, _, _⟩ := loopOrIf_stay_foot_g hr hwf hpre hns hcond hsh hGc hifne halo
  obtain ⟨newS, eS, _, hstep⟩ := hstepEx
  have hnew : newS = newF := List.append_cancel_left (eS.symm.trans eF)
  subst hnew
  subst hcond
  obtain ⟨sub1, os1, r, h1, h2, rfl⟩ := loopOrIf_run hr
  obtain ⟨hc, hwf1, hshift1⟩ := hpre.emit h1
  have hshEq : sub.shift = s.shift := by
    have := hns
    simp only [Bool.or_eq_false_iff, bne_eq_false_iff_eq] at this
    exact this.2
  have hns1 : (sub1.subShift || sub1.shift != s.shift) = false := by
    rw [hc.noShift, hshift1, hshEq]; simp
  obtain ⟨comps, hi, hhead, htgt, hrec, hcell⟩ :=
    loopOrIf_stay_setup (isLoop := isLoop)
      (sub1.subShift || sub1.shift != s.shift) hwf hwf1 hns1 h2
  have hnewEq : newS = comps.map Instr.calc ++ [if isLoop then Instr.loop (cS + shP) 0 sub1.insts L.atLeastOnce
      else Instr.ifnz (cS + shP) 0 sub1.insts] := List.append_cancel_left (eS.symm.trans hi)
  subst hnewEq
  obtain ⟨compsL, eL, hsemc⟩ := loopPrep_stay_semctx hc hwf hwf1 hns1 h2
  have hcL : compsL = comps := by
    apply calc_map_inj
    obtain ⟨_, _, _, _, _, _, t7⟩ := loopTail_fields r.1 r.2.1 (cS + shP) isLoop L
      (sub1.subShift || sub1.shift != s.shift) r.2.2
    have hi' := hi
    rw [t7, eL, List.append_assoc] at hi'
    exact List.append_inj_left' (List.append_cancel_left hi') rfl
  rw [hcL] at hsemc
  obtain ⟨compsH, eH, hheads⟩ := loopPrep_stay_heads (isLoop := isLoop) (G := G) hc hwf hwf1 hns1 hsh hGc h2
  have hcH : compsH = comps := (calc_map_inj (List.append_cancel_left (eH.symm.trans eL))).trans hcL
  rw [hcH] at hheads
  refine ⟨_, hi, ?_⟩
  intro hss K hK σ1 σ2 v1 hag bb hex
  have hA := hhead hss K hK σ1 σ2 hag
  have hexL := (exec_calcs_iff comps _ σ2 _).1 hex
  -- the groups
  have hexC : Exec (comps.map Instr.calc) σ2 (.fin (comps.foldl doCalc σ2)) := by
    have := (exec_calcs_iff comps [] σ2 (.fin (comps.foldl doCalc σ2))).2 (Exec.nil _)
    rw [List.append_nil] at this
    exact this
  obtain ⟨pc0, mc0⟩ := phys_frame hexC _ rfl (nsL_calcs comps)
  have hXr : ∀ v, HeadSet K r.1 sub1 (cS + shP) L C v → v ∉ sub1.reads := fun v h => h.1.1
  have hcnd : ∀ a b : State w, AgreeOff (HeadSet K r.1 sub1 (cS + shP) L C) a b →
      a.rd (cS + shP) = b.rd (cS + shP) := fun a b hab => hab.2.2.2 (cS + shP) (fun h => h.1.2 rfl)
  -- it suffices to treat the pushed instruction
  suffices hloop : bb.ptr = (comps.foldl doCalc σ2).ptr ∧
      ∀ v, v ∉ mKeys (loopTail r.1 r.2.1 (cS + shP) isLoop L
          (sub1.subShift || sub1.shift != s.shift) r.2.2).written →
        v ∉ (loopTail r.1 r.2.1 (cS + shP) isLoop L (sub1.subShift || sub1.shift != s.shift) r.2.2).reads →
        memE bb v = memE (comps.foldl doCalc σ2) v by
    refine ⟨hloop.1.trans pc0, fun v hv1 hv2 => ?_⟩
    rw [hloop.2 v hv1 hv2]
    apply mc0 v
    intro ht
    rcases htgt hss v ht with h | h
    · exact hv1 h
    · exact hv2 h
  cases hnev : L.noEffect with
  | true =>
    -- a run that reaches the end has not entered the loop
    obtain ⟨aa, hexA, _⟩ := (hfoot hss K hK σ1 σ2 v1 hag).finR bb hex
    obtain ⟨M0, σS, hrel, hg⟩ := v1
    obtain ⟨x, hx, _⟩ := (hstep M0 σ1 σS hrel hg).1.finR aa hexA
    have hzS : σS.rd cS = 0#w := by
      rcases hne hnev M0 σ1 σS hrel hg with h | h
      · exact h
      · exact absurd hx (h x)
    have hz1 : (comps.foldl doCalc σ1).rd (cS + shP) = 0#w := by rw [hcell M0 σ1 σS hrel]; exact hzS
    have hz2 : (comps.foldl doCalc σ2).rd (cS + shP) = 0#w := by rw [← hcnd _ _ hA]; exact hz1
    have hbb : bb = comps.foldl doCalc σ2 := by
      cases isLoop with
      | true =>
        simp only [if_true] at hexL
        exact exec_loop_zero hz2 hexL
      | false =>
        simp only [Bool.false_eq_true, if_false] at hexL
        exact exec_ifnz_zero hz2 hexL
    rw [hbb]
    exact ⟨rfl, fun _ _ _ => rfl⟩
  | false =>
    -- what the child writes is recorded by the parent
    have hP : ∀ v, v ∉ mKeys (loopTail r.1 r.2.1 (cS + shP) isLoop L
          (sub1.subShift || sub1.shift != s.shift) r.2.2).written →
        v ∉ (loopTail r.1 r.2.1 (cS + shP) isLoop L (sub1.subShift || sub1.shift != s.shift) r.2.2).reads →
        v ∉ mKeys sub1.written ∧ v ∉ sub1.reads := by
      intro v hv1 hv2
      refine ⟨fun h => ?_, fun h => ?_⟩
      · rcases hrec hss hnev v (Or.inl h) with h' | h'
        · exact hv1 h'
        · exact hv2 h'
      · rcases hrec hss hnev v (Or.inr h) with h' | h'
        · exact hv1 h'
        · exact hv2 h'
    have hframe : bb.ptr = (comps.foldl doCalc σ2).ptr ∧
        ∀ v, (v ∉ mKeys sub1.written ∧ v ∉ sub1.reads) → memE bb v = memE (comps.foldl doCalc σ2) v := by
      cases isLoop with
      | true =>
        simp only [if_true] at hexL
        obtain ⟨M0, σS, hrel, hg⟩ := v1
        have hV : HeadsV Gc shP cS pc sub0 sub1 L true (comps.foldl doCalc σ1) :=
          headsV_of_ctx (hheads M0 σ1 σS hrel hg) (hGc M0 σ1 σS hrel hg)
        exact loop_frame_g hc hV ⟨Head.zero, _, hA, hXr, fun h => h.1.2 rfl⟩ hexL
      | false =>
        simp only [Bool.false_eq_true, if_false] at hexL
        refine ifnz_frame_aux ?_ hexL
        intro hne' b' hb'
        obtain ⟨M0, σS, hrel, hg⟩ := v1
        obtain ⟨hcell', hctx⟩ := hsemc M0 σ1 σS hrel
        have hneS : σS.rd cS ≠ 0#w := by rw [← hcell', hcnd _ _ hA]; exact hne'
        have hGcS : Gc σS := hGc M0 σ1 σS hrel hg 0 σS Head.zero (fun _ => rfl) hneS
        obtain ⟨hvX, _, hXp, hXe, hXt, hXrd, _⟩ := hctx hneS hGcS
        obtain ⟨_, _, hfr⟩ := child_chain hc.foot hc.badfoot hc.frame2 hc.noShift hc.w0 hvX hXr hXp hXe hXt
          hXrd hA
        obtain ⟨p, m⟩ := hfr b' hb'
        exact ⟨p, fun v hv => m v hv.1 hv.2⟩
    exact ⟨hframe.1, fun v hv1 hv2 => hframe.2 v (hP v hv1 hv2)⟩

/-- The write frame of `loopOrIf` (non-moving child) without `hGcT` (hypotheses of `loopOrIf_stay_ok'`). -/
theorem loopOrIf_stay_footFrame_g {shP shC shS cS : Int} {bodyS : List (Instr w)} {oS : Bool}
    {s : Rebuild w} {ps : List (Rebuild w)} {sub : Rebuild w} {cond : Int} {isLoop : Bool} {L : OptLoop w}
    {C : List Int} {pc : List (Rebuild w)} {sub0 : Rebuild w} {os os' : Orders} {s' : Rebuild w}
    {G Gc : State w → Prop}
    (hr : (loopOrIf s ps sub cond isLoop L C).run os = .ok (s', os'))
    (hwf : Wf s) (hpre : ChildPre Gc shP shC pc sub0 sub cS bodyS)
    (hns : (sub.subShift || sub.shift != s.shift) = false)
    (hcond : cond = cS + shP) (hsh : shC + shS = shP)
    (hGc : ∀ M0 σE σS, RelAt shP s ps M0 σE σS → G σS → ∀ k σk, Head cS shS bodyS σS k σk →
      (isLoop = false → k = 0) → σk.rd cS ≠ 0#w → Gc σk)
    (halo : L.atLeastOnce = true → ∀ M0 σE σS, RelAt shP s ps M0 σE σS → G σS → σS.rd cS ≠ 0#w)
    (hnc : L.noContinue = true → ∀ M0 σE σS, RelAt shP s ps M0 σE σS → G σS →
      ∀ x, ¬ Exec [blockInstr isLoop cS shS bodyS oS] σS (.fin x))
    (hne : L.noEffect = true → ∀ M0 σE σS, RelAt shP s ps M0 σE σS → G σS →
      σS.rd cS = 0#w ∨ ∀ x, ¬ Exec [blockInstr isLoop cS shS bodyS oS] σS (.fin x))
    (hconst : ∀ M0 σE σS, RelAt shP s ps M0 σE σS → G σS → ∀ k σk, Head cS shS bodyS σS k σk →
      (isLoop = false → k ≤ 1) → ∀ x, C.contains x = true → memS σE σk x = memS σE σS x) :
    ∃ new, s'.insts = s.insts ++ new ∧ FootFrameV (ValidG G shP s ps) s s' new :=
  loopOrIf_stay_footFrame_of_step_g hr hwf hpre hns hcond hsh hGc halo hne
    (loopOrIf_stay_ok' (oS := oS) hr hwf hpre hns hcond hsh hGc halo hnc hne hconst).2.2

/-- The read footprint with the hypotheses of `loopOrIf_stay_ok'` (from which `hifne` follows). -/
theorem loopOrIf_stay_foot_g' {shP shC shS cS : Int} {bodyS : List (Instr w)} {oS : Bool}
    {s : Rebuild w} {ps : List (Rebuild w)} {sub : Rebuild w} {cond : Int} {isLoop : Bool} {L : OptLoop w}
    {C : List Int} {pc : List (Rebuild w)} {sub0 : Rebuild w} {os os' : Orders} {s' : Rebuild w}
    {G Gc : State w → Prop}
    (hr : (loopOrIf s ps sub cond isLoop L C).run os = .ok (s', os'))
    (hwf : Wf s) (hpre : ChildPre Gc shP shC pc sub0 sub cS bodyS)
    (hns : (sub.subShift || sub.shift != s.shift) = false)
    (hcond : cond = cS + shP) (hsh : shC + shS = shP)
    (hGc : ∀ M0 σE σS, RelAt shP s ps M0 σE σS → G σS → ∀ k σk, Head cS shS bodyS σS k σk →
      (isLoop = false → k = 0) → σk.rd cS ≠ 0#w → Gc σk)
    (halo : L.atLeastOnce = true → ∀ M0 σE σS, RelAt shP s ps M0 σE σS → G σS → σS.rd cS ≠ 0#w)
    (hnc : L.noContinue = true → ∀ M0 σE σS, RelAt shP s ps M0 σE σS → G σS →
      ∀ x, ¬ Exec [blockInstr isLoop cS shS bodyS oS] σS (.fin x))
    (hne : L.noEffect = true → ∀ M0 σE σS, RelAt shP s ps M0 σE σS → G σS →
      σS.rd cS = 0#w ∨ ∀ x, ¬ Exec [blockInstr isLoop cS shS bodyS oS] σS (.fin x))
    (hconst : ∀ M0 σE σS, RelAt shP s ps M0 σE σS → G σS → ∀ k σk, Head cS shS bodyS σS k σk →
      (isLoop = false → k ≤ 1) → ∀ x, C.contains x = true → memS σE σk x = memS σE σS x) :
    ∃ new, s'.insts = s.insts ++ new ∧ FootStepV (ValidG G shP s ps) s s' new ∧ ReadsMono s s' ∧
      (s'.subShift = false → ∀ v, mGet s'.written v = none → mGet s.written v = none) := by
  obtain ⟨_, _, newS, eS, hst⟩ := loopOrIf_stay_ok' (oS := oS) hr hwf hpre hns hcond hsh hGc halo hnc hne hconst
  refine loopOrIf_stay_foot_g hr hwf hpre hns hcond hsh hGc ?_ halo
  intro hnev M0 σ1 σS hrel hg hneS new x hin hx
  have : new = newS := List.append_cancel_left (hin.symm.trans eS)
  subst this
  rcases hne hnev M0 σ1 σS hrel hg with h | h
  · exact hneS h
  · exact nofin_of_step hst hrel hg h x hx

end OptProof
end Hpbf

#print axioms Hpbf.OptProof.loopOrIf_stay_foot_g
#print axioms Hpbf.OptProof.loopOrIf_stay_foot_g'
#print axioms Hpbf.OptProof.loopOrIf_stay_footBad_g
#print axioms Hpbf.OptProof.loopOrIf_stay_footFrame_g
