/-
Rebuild-round proofs: the recorded analysis tree matches the emitted nested blocks (`ShapeI` / `ShapeL`), and
what dead store elimination needs from that: `C01Dse.ShapeOk`, `C01Dse.ShiftFact`, and the lookup of the node of
a nested block.  Part 1: everything that does not mention the optimizer state.
-/
import Hpbf.Proofs.OptRbReads
import Hpbf.Proofs.C01DseStruct

namespace Hpbf
namespace OptProof
open Opt OptSem Ir

variable {w : Nat}

/-! ### Definitions -/

mutual
/-- The analysis node `a` fits the nested block `i`. -/
def ShapeI : Instr w → OptAnalysis w → Prop
  | .loop _ sh body once, .mk L hs _ _ subs =>
      once = L.atLeastOnce ∧ L.atMostOnce = false ∧
      (hs = false → sh = 0 ∧ ∀ a ∈ subs, a.hasShift = false) ∧ ShapeL body subs
  | .ifnz _ sh body, .mk L hs _ _ subs =>
      L.atLeastOnce = false ∧ (hs = false → sh = 0 ∧ ∀ a ∈ subs, a.hasShift = false) ∧ ShapeL body subs
  | .output _, _ => False
  | .input _, _ => False
  | .calc _, _ => False
/-- The nested blocks of the list, in order, are paired with the nodes (same number). -/
def ShapeL : List (Instr w) → List (OptAnalysis w) → Prop
  | [], subs => subs = []
  | i :: rest, subs =>
    if C01Dse.isBlock i then ∃ a subs', subs = a :: subs' ∧ ShapeI i a ∧ ShapeL rest subs'
    else ShapeL rest subs
end

theorem shapeL_nil : ShapeL ([] : List (Instr w)) [] := by rw [ShapeL]

theorem shapeL_nil_iff {subs : List (OptAnalysis w)} : ShapeL ([] : List (Instr w)) subs ↔ subs = [] := by
  rw [ShapeL]

theorem shapeL_cons_nonblock {i : Instr w} (h : C01Dse.isBlock i = false) {rest : List (Instr w)}
    {subs : List (OptAnalysis w)} : ShapeL (i :: rest) subs ↔ ShapeL rest subs := by
  rw [ShapeL, h]; simp

theorem shapeL_cons_block {i : Instr w} (h : C01Dse.isBlock i = true) {rest : List (Instr w)}
    {subs : List (OptAnalysis w)} :
    ShapeL (i :: rest) subs ↔ ∃ a subs', subs = a :: subs' ∧ ShapeI i a ∧ ShapeL rest subs' := by
  rw [ShapeL, h]; simp

theorem shapeI_isBlock {i : Instr w} {a : OptAnalysis w} (h : ShapeI i a) : C01Dse.isBlock i = true := by
  cases i with
  | output _ => rw [ShapeI] at h; exact h.elim
  | input _ => rw [ShapeI] at h; exact h.elim
  | «calc» _ => rw [ShapeI] at h; exact h.elim
  | loop _ _ _ _ => rfl
  | ifnz _ _ _ => rfl

theorem shapeL_append {l1 l2 : List (Instr w)} {s1 s2 : List (OptAnalysis w)} (h1 : ShapeL l1 s1)
    (h2 : ShapeL l2 s2) : ShapeL (l1 ++ l2) (s1 ++ s2) := by
  induction l1 generalizing s1 with
  | nil =>
    rw [shapeL_nil_iff] at h1
    subst h1; exact h2
  | cons i l1 ih =>
    rw [List.cons_append]
    cases hb : C01Dse.isBlock i with
    | false =>
      rw [shapeL_cons_nonblock hb] at h1 ⊢
      exact ih h1
    | true =>
      rw [shapeL_cons_block hb] at h1 ⊢
      obtain ⟨a, subs', rfl, ha, hr⟩ := h1
      exact ⟨a, subs' ++ s2, rfl, ha, ih hr⟩

theorem shapeL_nonblocks {l : List (Instr w)} (h : ∀ i ∈ l, C01Dse.isBlock i = false) : ShapeL l [] := by
  induction l with
  | nil => exact shapeL_nil
  | cons i l ih =>
    rw [shapeL_cons_nonblock (h i (by simp))]
    exact ih (fun j hj => h j (by simp [hj]))

theorem shapeL_single {i : Instr w} {a : OptAnalysis w} (h : ShapeI i a) : ShapeL [i] [a] := by
  rw [shapeL_cons_block (shapeI_isBlock h)]
  exact ⟨a, [], rfl, h, shapeL_nil⟩

/-- Same number of nested blocks and nodes. -/
theorem shapeL_length {l : List (Instr w)} {subs : List (OptAnalysis w)} (h : ShapeL l subs) :
    subs.length = C01Dse.nblocks l := by
  induction l generalizing subs with
  | nil => rw [shapeL_nil_iff] at h; subst h; rfl
  | cons i l ih =>
    cases hb : C01Dse.isBlock i with
    | false =>
      rw [shapeL_cons_nonblock hb] at h
      rw [ih h]
      simp [C01Dse.nblocks, hb]
    | true =>
      rw [shapeL_cons_block hb] at h
      obtain ⟨a, subs', rfl, _, hr⟩ := h
      rw [List.length_cons, ih hr]
      simp [C01Dse.nblocks, hb]

/-- The node of a nested block in the middle of a list. -/
theorem shapeL_split {pre : List (Instr w)} {i : Instr w} {rest : List (Instr w)}
    {subs : List (OptAnalysis w)} (hb : C01Dse.isBlock i = true) (h : ShapeL (pre ++ i :: rest) subs) :
    ∃ sp a sr, subs = sp ++ a :: sr ∧ ShapeL pre sp ∧ ShapeI i a ∧ ShapeL rest sr := by
  induction pre generalizing subs with
  | nil =>
    rw [List.nil_append, shapeL_cons_block hb] at h
    obtain ⟨a, subs', rfl, ha, hr⟩ := h
    exact ⟨[], a, subs', rfl, shapeL_nil, ha, hr⟩
  | cons j pre ih =>
    rw [List.cons_append] at h
    cases hj : C01Dse.isBlock j with
    | false =>
      rw [shapeL_cons_nonblock hj] at h
      obtain ⟨sp, a, sr, e, h1, h2, h3⟩ := ih h
      exact ⟨sp, a, sr, e, (shapeL_cons_nonblock hj).2 h1, h2, h3⟩
    | true =>
      rw [shapeL_cons_block hj] at h
      obtain ⟨b, subs', rfl, hbj, hr⟩ := h
      obtain ⟨sp, a, sr, e, h1, h2, h3⟩ := ih hr
      exact ⟨b :: sp, a, sr, by rw [e]; rfl, (shapeL_cons_block hj).2 ⟨b, sp, rfl, hbj, h1⟩, h2, h3⟩

/-! ### `toDAnal` -/

theorem toDAnals_eq_map (l : List (OptAnalysis w)) : OptAnalysis.toDAnals l = l.map OptAnalysis.toDAnal := by
  induction l with
  | nil => rw [OptAnalysis.toDAnals]; rfl
  | cons a l ih => rw [OptAnalysis.toDAnals, ih]; rfl

theorem toDAnal_mk (L : OptLoop w) (hs : Bool) (r c : List Int) (subs : List (OptAnalysis w)) :
    (OptAnalysis.mk L hs r c subs).toDAnal =
      .mk L.atMostOnce L.atLeastOnce hs r (OptAnalysis.toDAnals subs) := by
  rw [OptAnalysis.toDAnal]

theorem toDAnal_hasShift (a : OptAnalysis w) : a.toDAnal.hasShift = a.hasShift := by
  cases a with
  | mk L hs r c subs => rw [toDAnal_mk]; rfl

theorem toDAnal_subs (a : OptAnalysis w) : a.toDAnal.subs = OptAnalysis.toDAnals a.subBlocks := by
  cases a with
  | mk L hs r c subs => rw [toDAnal_mk]; rfl

theorem toDAnal_atMostOnce (a : OptAnalysis w) : a.toDAnal.atMostOnce = a.loopAnal.atMostOnce := by
  cases a with
  | mk L hs r c subs => rw [toDAnal_mk]; rfl

theorem toDAnal_atLeastOnce (a : OptAnalysis w) : a.toDAnal.atLeastOnce = a.loopAnal.atLeastOnce := by
  cases a with
  | mk L hs r c subs => rw [toDAnal_mk]; rfl

theorem toDAnal_reads (a : OptAnalysis w) : a.toDAnal.reads = a.reads := by
  cases a with
  | mk L hs r c subs => rw [toDAnal_mk]; rfl

/-- The node in the middle of the list is the `(sr.length + 1)`-th from the end. -/
theorem subAt_mid {A : OptDse.DAnal} {sp : List (OptAnalysis w)} {a : OptAnalysis w}
    {sr : List (OptAnalysis w)} (h : A.subs = OptAnalysis.toDAnals (sp ++ a :: sr)) :
    C01Dse.subAt A (sr.length + 1) = some a.toDAnal := by
  apply C01Dse.subAt_of (j := sp.length)
  · rw [h, toDAnals_eq_map]
    simp
  · rw [h, toDAnals_eq_map]
    simp

/-! ### the static conditions of dead store elimination -/

mutual
theorem shapeI_ok : ∀ (i : Instr w) (a : OptAnalysis w) (A : OptDse.DAnal) (k : Nat), ShapeI i a →
    C01Dse.subAt A k = some a.toDAnal → C01Dse.shapeOkI A i k = true ∧ C01Dse.shiftOkI A i k = true
  | .output _, _, _, _, h, _ => by rw [ShapeI] at h; exact h.elim
  | .input _, _, _, _, h, _ => by rw [ShapeI] at h; exact h.elim
  | .calc _, _, _, _, h, _ => by rw [ShapeI] at h; exact h.elim
  | .loop c sh body o, .mk L hs r cl subs, A, k, h, hk => by
    rw [ShapeI] at h
    obtain ⟨_, _, h3, h4⟩ := h
    obtain ⟨b1, b2⟩ := shapeL_ok body subs [] (OptAnalysis.mk L hs r cl subs).toDAnal
      (by rw [toDAnal_subs]; rfl) h4
    rw [C01Dse.shapeOkI, C01Dse.shiftOkI, hk]
    refine ⟨b1, ?_⟩
    simp only [b2, Bool.and_true]
    rw [toDAnal_hasShift]
    cases hhs : hs with
    | true => rfl
    | false =>
      obtain ⟨e1, e2⟩ := h3 hhs
      show (false || _) = true
      simp only [Bool.false_or, Bool.and_eq_true, beq_iff_eq, List.all_eq_true, Bool.not_eq_true']
      refine ⟨e1, ?_⟩
      intro x hx
      have hx' : x ∈ (OptAnalysis.mk L hs r cl subs).toDAnal.subs := by
        unfold C01Dse.usedSubs at hx
        exact List.mem_of_mem_drop hx
      rw [toDAnal_subs, toDAnals_eq_map] at hx'
      obtain ⟨a', ha', rfl⟩ := List.mem_map.1 hx'
      rw [toDAnal_hasShift]
      exact e2 a' ha'
  | .ifnz c sh body, .mk L hs r cl subs, A, k, h, hk => by
    rw [ShapeI] at h
    obtain ⟨_, h3, h4⟩ := h
    obtain ⟨b1, b2⟩ := shapeL_ok body subs [] (OptAnalysis.mk L hs r cl subs).toDAnal
      (by rw [toDAnal_subs]; rfl) h4
    rw [C01Dse.shapeOkI, C01Dse.shiftOkI, hk]
    refine ⟨b1, ?_⟩
    simp only [b2, Bool.and_true]
    rw [toDAnal_hasShift]
    cases hhs : hs with
    | true => rfl
    | false =>
      obtain ⟨e1, e2⟩ := h3 hhs
      show (false || _) = true
      simp only [Bool.false_or, Bool.and_eq_true, beq_iff_eq, List.all_eq_true, Bool.not_eq_true']
      refine ⟨e1, ?_⟩
      intro x hx
      have hx' : x ∈ (OptAnalysis.mk L hs r cl subs).toDAnal.subs := by
        unfold C01Dse.usedSubs at hx
        exact List.mem_of_mem_drop hx
      rw [toDAnal_subs, toDAnals_eq_map] at hx'
      obtain ⟨a', ha', rfl⟩ := List.mem_map.1 hx'
      rw [toDAnal_hasShift]
      exact e2 a' ha'
theorem shapeL_ok : ∀ (l : List (Instr w)) (subs pre : List (OptAnalysis w)) (A : OptDse.DAnal),
    A.subs = OptAnalysis.toDAnals (pre ++ subs) → ShapeL l subs →
    C01Dse.shapeOkL A l = true ∧ C01Dse.shiftOkL A l = true
  | [], _, _, _, _, _ => by rw [C01Dse.shapeOkL, C01Dse.shiftOkL]; exact ⟨rfl, rfl⟩
  | .output x :: rest, subs, pre, A, hA, h => by
    rw [shapeL_cons_nonblock rfl] at h
    obtain ⟨b1, b2⟩ := shapeL_ok rest subs pre A hA h
    rw [C01Dse.shapeOkL, C01Dse.shiftOkL, b1, b2]
    simp [C01Dse.shapeOkI, C01Dse.shiftOkI]
  | .input x :: rest, subs, pre, A, hA, h => by
    rw [shapeL_cons_nonblock rfl] at h
    obtain ⟨b1, b2⟩ := shapeL_ok rest subs pre A hA h
    rw [C01Dse.shapeOkL, C01Dse.shiftOkL, b1, b2]
    simp [C01Dse.shapeOkI, C01Dse.shiftOkI]
  | .calc x :: rest, subs, pre, A, hA, h => by
    rw [shapeL_cons_nonblock rfl] at h
    obtain ⟨b1, b2⟩ := shapeL_ok rest subs pre A hA h
    rw [C01Dse.shapeOkL, C01Dse.shiftOkL, b1, b2]
    simp [C01Dse.shapeOkI, C01Dse.shiftOkI]
  | .loop c sh body o :: rest, subs, pre, A, hA, h => by
    rw [shapeL_cons_block rfl] at h
    obtain ⟨a, subs', rfl, ha, hr⟩ := h
    have hk : C01Dse.subAt A (C01Dse.nblocks rest + 1) = some a.toDAnal := by
      rw [← shapeL_length hr]; exact subAt_mid hA
    obtain ⟨b1, b2⟩ := shapeL_ok rest subs' (pre ++ [a]) A (by rw [hA]; simp) hr
    obtain ⟨c1, c2⟩ := shapeI_ok (.loop c sh body o) a A _ ha hk
    rw [C01Dse.shapeOkL, C01Dse.shiftOkL, b1, b2, c1, c2]
    exact ⟨rfl, rfl⟩
  | .ifnz c sh body :: rest, subs, pre, A, hA, h => by
    rw [shapeL_cons_block rfl] at h
    obtain ⟨a, subs', rfl, ha, hr⟩ := h
    have hk : C01Dse.subAt A (C01Dse.nblocks rest + 1) = some a.toDAnal := by
      rw [← shapeL_length hr]; exact subAt_mid hA
    obtain ⟨b1, b2⟩ := shapeL_ok rest subs' (pre ++ [a]) A (by rw [hA]; simp) hr
    obtain ⟨c1, c2⟩ := shapeI_ok (.ifnz c sh body) a A _ ha hk
    rw [C01Dse.shapeOkL, C01Dse.shiftOkL, b1, b2, c1, c2]
    exact ⟨rfl, rfl⟩
end

/-- **`ShapeOk`** from the shape of the recorded tree. -/
theorem shapeOk_of_shapeL {b : Block w} {anal : OptAnalysis w} (h : ShapeL b.insts anal.subBlocks) :
    C01Dse.ShapeOk b anal.toDAnal :=
  (shapeL_ok b.insts anal.subBlocks [] anal.toDAnal (by rw [toDAnal_subs]; rfl) h).1

/-- **`ShiftFact`** from the shape of the recorded tree. -/
theorem shiftFact_of_shapeL {b : Block w} {anal : OptAnalysis w} (h : ShapeL b.insts anal.subBlocks) :
    C01Dse.ShiftFact b anal.toDAnal :=
  (shapeL_ok b.insts anal.subBlocks [] anal.toDAnal (by rw [toDAnal_subs]; rfl) h).2

/-! ### lookup of the node of a nested block -/

theorem isBlock_of_blockParts {i : Instr w} {p : Int × Int × List (Instr w)}
    (h : C01Dse.blockParts i = some p) : C01Dse.isBlock i = true := by
  cases i <;> simp [C01Dse.blockParts] at h <;> rfl

/-- The node paired with the nested block `i` of `l = pre ++ i :: rest` is the one DSE looks up. -/
theorem shapeL_lookup {l : List (Instr w)} {subs : List (OptAnalysis w)} (h : ShapeL l subs)
    {pre : List (Instr w)} {i : Instr w} {rest : List (Instr w)} (hl : l = pre ++ i :: rest)
    {p : Int × Int × List (Instr w)} (hp : C01Dse.blockParts i = some p) :
    ∃ a, a ∈ subs ∧ ShapeI i a ∧
      ∀ A : OptDse.DAnal, A.subs = OptAnalysis.toDAnals subs →
        C01Dse.subAt A (C01Dse.nblocks rest + 1) = some a.toDAnal := by
  subst hl
  obtain ⟨sp, a, sr, rfl, _, ha, hr⟩ := shapeL_split (isBlock_of_blockParts hp) h
  refine ⟨a, by simp, ha, ?_⟩
  intro A hA
  rw [← shapeL_length hr]
  exact subAt_mid hA

/-- What `ShapeI` says about a `loop` node. -/
theorem shapeI_loop {c sh : Int} {body : List (Instr w)} {once : Bool} {a : OptAnalysis w}
    (h : ShapeI (.loop c sh body once) a) :
    once = a.loopAnal.atLeastOnce ∧ a.loopAnal.atMostOnce = false ∧
    (a.hasShift = false → sh = 0 ∧ ∀ a' ∈ a.subBlocks, a'.hasShift = false) ∧ ShapeL body a.subBlocks := by
  cases a with
  | mk L hs r cl subs => rw [ShapeI] at h; exact h

/-- What `ShapeI` says about an `ifnz` node. -/
theorem shapeI_ifnz {c sh : Int} {body : List (Instr w)} {a : OptAnalysis w}
    (h : ShapeI (.ifnz c sh body) a) :
    a.loopAnal.atLeastOnce = false ∧
    (a.hasShift = false → sh = 0 ∧ ∀ a' ∈ a.subBlocks, a'.hasShift = false) ∧ ShapeL body a.subBlocks := by
  cases a with
  | mk L hs r cl subs => rw [ShapeI] at h; exact h

end OptProof
end Hpbf
