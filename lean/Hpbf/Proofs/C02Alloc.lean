/-
C02 (`allocate_temps`), part 11: the pass preserves behaviour.

`allocateTemps_preserves`: for every generator state satisfying `AllocPre`, a successful run of
`allocateTemps numRegs` keeps the number of instructions, records one `live` bitmap per instruction, keeps the
branch structure (`TargetsOk`) and the absence of read-and-clear operands, and the output program is
behaviourally equivalent (`BehEq`: same events, tape, pointer, budget; limited and unlimited mode) to the input.
-/
import Hpbf.Proofs.C02AllocSim2
set_option linter.unusedSimpArgs false

namespace Hpbf
namespace C02
namespace Alloc

open Bc BcWf BcGen C11

variable {w : Nat} {s : St w} {numRegs : Nat} {tr : Nat → ASt w}

theorem sim_step (hp : AllocPre s) (T : Trace s numRegs tr) {P Q : Program w} (hP : P.insts = s.insts)
    (hQ : Q.insts = (tr s.insts.size).st.insts) (lim : Bool) (c1 c2 : Cfg w) (hR : Rel s tr c1 c2) :
    StepRel (Rel s tr) CfgEq CfgEq (step P lim c1) (step Q lim c2) := by
  obtain ⟨k, t1, b, st⟩ := c1
  obtain ⟨k2, t2, b2, st2⟩ := c2
  obtain ⟨h1, h2, h3, h4, hV⟩ := hR
  simp only at h1 h2 h3 h4 hV
  subst h1 h3 h4
  have hIn := trace_inv hp T s.insts.size (Nat.le_refl _)
  have hQs : Q.insts.size = s.insts.size := by rw [hQ]; exact hIn.isize
  by_cases hk : k2 = s.insts.size
  · have e1 : step P lim ⟨k2, t1, b2, st2⟩ = .halt ⟨k2, t1, b2, st2⟩ :=
      step_exit (by rw [hP]; exact Array.getElem?_eq_none (by simp [hk])) (by rw [hP]; exact hk)
    have e2 : step Q lim ⟨k2, t2, b2, st2⟩ = .halt ⟨k2, t2, b2, st2⟩ :=
      step_exit (Array.getElem?_eq_none (by simp [hk, hQs])) (by rw [hQs]; exact hk)
    rw [e1, e2]
    exact ⟨StEq.refl _, rfl⟩
  · have hk' : k2 < s.insts.size := Nat.lt_of_le_of_ne h2 hk
    have hx : s.insts[k2]? = some s.insts[k2] := Array.getElem?_eq_getElem hk'
    have hI := trace_inv hp T k2 (by omega)
    have hI' := trace_inv hp T (k2 + 1) (by omega)
    have S := trace_sum hp T hk'
    have hfin : Q.insts[k2]? = (tr (k2 + 1)).st.insts[k2]? := by
      rw [hQ]; exact trace_insts_final hp T _ (by omega) (Nat.le_refl _)
    have hq' : (tr (k2 + 1)).st.insts[k2]? = some ((tr (k2 + 1)).st.insts[k2]'(by rw [hI'.isize]; exact hk')) :=
      Array.getElem?_eq_getElem _
    rw [step_eq (p := P) (ins := s.insts[k2]) (by rw [hP]; exact hx)]
    rw [step_eq (p := Q) (by rw [hfin]; exact hq')]
    generalize s.insts[k2] = x at hx
    generalize (tr (k2 + 1)).st.insts[k2]'_ = q at hq'
    cases S.kind with
    | other x' hx' hpl hq hi hr =>
      have : x' = x := by
        rcases hI.fut k2 (Nat.le_refl _) with h | ⟨op, m, t, a', b', h⟩
        · rw [hx', hx] at h; exact Option.some.inj h
        · have := h.2.2
          rw [hx'] at this
          cases this
          rw [plain_mkArith] at hpl; cases hpl
      subst this
      rw [hq'] at hq; cases hq
      exact sim_other hp T hP hQs lim hk' hx hpl hr hV
    | fuse op t s0 s1 f m hxa hPk hkf hPf hfa hq hf hi hnone hr =>
      rw [hx] at hPk; cases hPk
      rw [hq'] at hq; cases hq
      exact sim_fuse hp T lim hk' hx hxa hkf hPf hf hnone hr hV
    | rw cur new q0 hxa hpl hn hq hi hd =>
      rw [hq'] at hq; cases hq
      exact sim_rw hp T lim hk' hx hxa hpl hn hd hV

theorem rel_init (hp : AllocPre s) (T : Trace s numRegs tr) (c : Cfg w) (hc : c.pc = 0) : Rel s tr c c := by
  refine ⟨rfl, by rw [hc]; exact Nat.zero_le _, rfl, rfl, ?_⟩
  rw [hc, T.init]
  constructor
  · intro t l h; simp [initASt, alGet] at h
  · intro f op m t s0 s1 h
    have h1 := h.2.1
    have h2 := h.2.2
    simp only [initASt] at h2
    rw [h1] at h2
    exact absurd (Option.some.inj h2).symm (mkArith_ne_copy _ _ _ _ _ _)

theorem behEq_of_trace (hp : AllocPre s) (T : Trace s numRegs tr) {P Q : Program w} (hP : P.insts = s.insts)
    (hQ : Q.insts = (tr s.insts.size).st.insts) : BehEq P Q := by
  have key : ∀ (lim : Bool) (fuel : Nat) (c : Cfg w), c.pc = 0 →
      ObsEq' (runCfg P lim fuel c) (runCfg Q lim fuel c) := by
    intro lim fuel c hc
    exact lockstep_run (R := Rel s tr) (G := CfgEq) (E := CfgEq) (O := CfgIo)
      (fun c1 c2 h => sim_step hp T hP hQ lim c1 c2 h)
      (fun c1 c2 h => ⟨⟨by rw [h.st], by rw [h.st], by rw [h.st]⟩, h.budget.symm⟩) fuel c c (rel_init hp T c hc)
  constructor
  · exact beh_of_runCfg (fun c => ObsEq'.refl _) (fun lim fuel c hc => ⟨fuel, key lim fuel c hc⟩)
  · exact beh_of_runCfg (fun c => ObsEq'.refl _) (fun lim fuel c hc => ⟨fuel, (key lim fuel c hc).symm⟩)

end Alloc

open Bc BcWf BcGen C11 Alloc

variable {w : Nat}

/-- **`allocate_temps` preserves behaviour.** -/
theorem allocateTemps_preserves (s s' : St w) (numRegs : Nat) (hp : AllocPre s)
    (h : allocateTemps numRegs s = .ok s') :
    s'.insts.size = s.insts.size ∧ s'.live.size = s'.insts.size ∧
    (TargetsOk s.insts → TargetsOk s'.insts) ∧ (∀ ins ∈ s'.insts, NoMemZero ins) ∧
    ∀ (t t' : Nat) (mn mx : Int), BehEq (progOf s t mn mx) (progOf s' t' mn mx) := by
  obtain ⟨tr, T, hs'⟩ := trace_of_allocateTemps h
  have hI := trace_inv hp T s.insts.size (Nat.le_refl _)
  have hsz : s'.insts.size = s.insts.size := by rw [← hs']; exact hI.isize
  refine ⟨hsz, ?_, ?_, ?_, ?_⟩
  · rw [hsz, ← hs']; exact trace_live_size hp T _ (Nat.le_refl _)
  · intro hT i ins off hi hoff
    rw [← hs'] at hi
    obtain ⟨_, y, hy, hb⟩ := hI.skel i ins hi
    rw [hsz]
    exact hT i y off hy (by rw [← hb]; exact hoff)
  · intro ins hins
    obtain ⟨i, hi, rfl⟩ := Array.mem_iff_getElem.1 hins
    have : (tr s.insts.size).st.insts[i]? = some s'.insts[i] := by
      rw [hs']; exact Array.getElem?_eq_getElem hi
    exact (hI.skel i _ this).1
  · intro t t' mn mx
    exact behEq_of_trace hp T (P := progOf s t mn mx) (Q := progOf s' t' mn mx) rfl (by rw [hs']; rfl)

/-- The `LatePre` hand-over to the late passes. -/
theorem allocateTemps_latePre (s s' : St w) (numRegs : Nat) (hp : AllocPre s) (hT : TargetsOk s.insts)
    (h : allocateTemps numRegs s = .ok s') : LatePre s' := by
  obtain ⟨_, h2, h3, h4, _⟩ := allocateTemps_preserves s s' numRegs hp h
  exact ⟨h2, h3 hT, h4⟩

end C02
end Hpbf
