/-
C02, `dead_store_elim`, part 2: the pass produces a certificate (`C02DseSim.lean`).

Precondition `DsePre s`:
* structural: no operand is a `memZero` (the scan does not see that reading `memZero m` also WRITES `m`);
* bookkeeping: for every temporary `t`, the number of source operands `tmp t` in `insts` (with multiplicity) is at
  most `ranges[t].numUses` (so `num_uses -= 1` never underflows or indexes out of bounds, and `num_uses == 0`
  implies that nobody reads `t`), and the destination temporaries of arithmetic instructions index `ranges`.
No assumption on branch targets is needed.
-/
import Hpbf.Proofs.C02DseSim

namespace Hpbf
namespace C02

open Bc BcWf BcGen C11

variable {w : Nat}

/-! ### counting uses -/

/-- `ranges[t].num_uses` (0 outside the table). -/
def dseNuse (rs : Array RangeInfo) (t : Nat) : Nat :=
  match rs[t]? with
  | some r => r.numUses
  | none => 0

/-- Number of source operands `tmp t` of an instruction. -/
def dseCnt (t : Nat) (ins : Instr w) : Nat := (uses ins).count t

/-- Number of source operands `tmp t` in the whole code. -/
def dseUseCount (I : Array (Instr w)) (t : Nat) : Nat := (I.toList.map (dseCnt t)).sum

theorem dse_list_set_sum {α : Type} (f : α → Nat) : ∀ (l : List α) (i : Nat) (x : α) (hi : i < l.length),
    ((l.set i x).map f).sum + f l[i] = (l.map f).sum + f x := by
  intro l
  induction l with
  | nil => intro i x hi; simp at hi
  | cons a l ih =>
    intro i x hi
    cases i with
    | zero => simp; omega
    | succ i =>
      simp only [List.length_cons, Nat.add_lt_add_iff_right] at hi
      have := ih i x hi
      simp only [List.set_cons_succ, List.map_cons, List.sum_cons, List.getElem_cons_succ]
      omega

theorem dse_list_le_sum {α : Type} (f : α → Nat) : ∀ (l : List α) (x : α), x ∈ l → f x ≤ (l.map f).sum := by
  intro l
  induction l with
  | nil => intro x hx; simp at hx
  | cons a l ih =>
    intro x hx
    simp only [List.mem_cons] at hx
    simp only [List.map_cons, List.sum_cons]
    rcases hx with rfl | hx
    · omega
    · have := ih x hx; omega

theorem dse_useCount_set (I : Array (Instr w)) (i : Nat) (x : Instr w) (t : Nat) (hi : i < I.size) :
    dseUseCount (I.setIfInBounds i x) t + dseCnt t I[i] = dseUseCount I t + dseCnt t x := by
  unfold dseUseCount
  rw [Array.toList_setIfInBounds]
  have := dse_list_set_sum (dseCnt t) I.toList i x (by simpa using hi)
  simpa using this

theorem dse_useCount_push (I : Array (Instr w)) (x : Instr w) (t : Nat) :
    dseUseCount (I.push x) t = dseUseCount I t + dseCnt t x := by
  unfold dseUseCount
  simp

theorem dse_cnt_le_useCount {I : Array (Instr w)} {ins : Instr w} (h : ins ∈ I) (t : Nat) :
    dseCnt t ins ≤ dseUseCount I t :=
  dse_list_le_sum (dseCnt t) I.toList ins (by simpa using h)

theorem dse_not_uses_of_useCount_zero {I : Array (Instr w)} {t : Nat} (h : dseUseCount I t = 0) {ins : Instr w}
    (hm : ins ∈ I) : t ∉ uses ins := by
  have := dse_cnt_le_useCount hm t
  intro hmem
  have : 0 < dseCnt t ins := List.count_pos_iff.mpr hmem
  omega

/-! ### the precondition -/

/-- The invariant of the backward scan, on the two fields of the generator state the pass touches. -/
structure DseInv (I : Array (Instr w)) (R : Array RangeInfo) : Prop where
  noZero : ∀ ins ∈ I, NoMemZero ins
  uses : ∀ t, dseUseCount I t ≤ dseNuse R t
  dst : ∀ (i : Nat) (op : BcGen.Op) (t : Nat) (a b : Loc w), I[i]? = some (mkArith op (.tmp t) a b) → t < R.size

/-- Precondition of `dead_store_elim`. -/
def DsePre (s : St w) : Prop := DseInv s.insts s.ranges

/-! ### `decUse` -/

theorem dse_nuse_set (rs : Array RangeInfo) (t : Nat) (r : RangeInfo) (t' : Nat) (h : t < rs.size) :
    dseNuse (rs.setIfInBounds t r) t' = if t' = t then r.numUses else dseNuse rs t' := by
  unfold dseNuse
  rw [Array.getElem?_setIfInBounds]
  by_cases e : t = t'
  · subst e; simp [h]
  · have e' : ¬ t' = t := fun x => e x.symm
    simp [e, e']

theorem dse_decUse_spec (rs : Array RangeInfo) (l : Loc w) (h : ∀ t ∈ locTmp l, 1 ≤ dseNuse rs t) :
    ∃ rs', decUse rs l = .ok rs' ∧ rs'.size = rs.size ∧
      ∀ t, dseNuse rs' t + (locTmp l).count t = dseNuse rs t := by
  cases l with
  | tmp t =>
    have h1 := h t (by simp [locTmp])
    unfold dseNuse at h1
    cases hr : rs[t]? with
    | none => rw [hr] at h1; simp at h1
    | some r =>
      rw [hr] at h1
      simp only at h1
      have hlt : t < rs.size := C07_lt hr
      refine ⟨rs.setIfInBounds t { r with numUses := r.numUses - 1 }, ?_, by simp, ?_⟩
      · simp only [decUse, hr]
        have : ¬ r.numUses = 0 := by omega
        simp [this]
      · intro t'
        rw [dse_nuse_set _ _ _ _ hlt]
        by_cases e : t' = t
        · subst e
          simp only [if_true, locTmp, List.count_cons_self, List.count_nil]
          unfold dseNuse; rw [hr]; simp only; omega
        · have e' : ¬ t = t' := fun x => e x.symm
          simp [e, locTmp, e']
  | mem o => exact ⟨rs, rfl, rfl, fun t => by simp [locTmp]⟩
  | memZero o => exact ⟨rs, rfl, rfl, fun t => by simp [locTmp]⟩
  | imm v => exact ⟨rs, rfl, rfl, fun t => by simp [locTmp]⟩

theorem dse_decUses_spec : ∀ (ls : List (Loc w)) (rs : Array RangeInfo),
    (∀ t, (ls.flatMap locTmp).count t ≤ dseNuse rs t) →
    ∃ rs', ls.foldlM decUse rs = .ok rs' ∧ rs'.size = rs.size ∧
      ∀ t, dseNuse rs' t + (ls.flatMap locTmp).count t = dseNuse rs t := by
  intro ls
  induction ls with
  | nil => intro rs _; exact ⟨rs, rfl, rfl, fun t => by simp⟩
  | cons l ls ih =>
    intro rs h
    simp only [List.flatMap_cons, List.count_append] at h
    obtain ⟨r1, h1, h2, h3⟩ := dse_decUse_spec rs l (fun t ht => by
      have := h t
      have : 0 < (locTmp l).count t := List.count_pos_iff.mpr ht
      omega)
    obtain ⟨r2, g1, g2, g3⟩ := ih r1 (fun t => by have := h t; have := h3 t; omega)
    refine ⟨r2, ?_, by omega, fun t => ?_⟩
    · simp only [List.foldlM_cons, h1]
      exact g1
    · simp only [List.flatMap_cons, List.count_append]
      have := h3 t; have := g3 t; omega

/-! ### the dead set -/

theorem dse_mem_setInsert {s : List Int} {k x : Int} : x ∈ setInsert s k ↔ x ∈ s ∨ x = k := by
  unfold setInsert
  split
  · rename_i h
    constructor
    · exact Or.inl
    · rintro (h' | rfl)
      · exact h'
      · simpa using h
  · simp

theorem dse_mem_setErase {s : List Int} {k x : Int} : x ∈ setErase s k ↔ x ∈ s ∧ x ≠ k := by
  unfold setErase
  simp

theorem dse_mem_remMem {D : List Int} {l : Loc w} (hl : locNoZero l = true) {x : Int} :
    x ∈ remMem D l ↔ x ∈ D ∧ x ∉ locMem l := by
  cases l with
  | mem m => simp [remMem, dse_mem_setErase, locMem]
  | memZero m => simp [locNoZero] at hl
  | tmp t => simp [remMem, locMem]
  | imm v => simp [remMem, locMem]

/-- The three conditions of the "unchanged instruction" case of `DseStepOk`. -/
structure DseSameOk (inst : Instr w) (Db Da : List Int) : Prop where
  reads : ∀ o ∈ dseReadMems inst, o ∉ Db
  ctl : dseIsCtl inst = true → Db = []
  sub : ∀ o ∈ Db, o ∈ Da ∨ o ∈ dseWriteMems inst

theorem dse_getElem?_set_noop {I : Array (Instr w)} {i j : Nat} {ins : Instr w}
    (h : (I.setIfInBounds i .noop)[j]? = some ins) : ins = .noop ∨ (j ≠ i ∧ I[j]? = some ins) := by
  rw [Array.getElem?_setIfInBounds] at h
  by_cases hij : i = j
  · simp only [hij, if_true] at h
    by_cases hlt : j < I.size
    · simp only [hlt, if_true] at h
      cases h; exact Or.inl rfl
    · simp only [hlt, if_false] at h
      cases h
  · simp only [hij, if_false] at h
    exact Or.inr ⟨fun e => hij e.symm, h⟩

theorem dseReads_ok (inst : Instr w) (hnz : NoMemZero inst) (dead0 Da : List Int)
    (hsub : ∀ o ∈ dead0, o ∈ Da ∨ o ∈ dseWriteMems inst) : DseSameOk inst (dseReads dead0 inst) Da := by
  have arithCase : ∀ (d a b : Loc w), locNoZero a = true → locNoZero b = true →
      (∀ o ∈ dead0, o ∈ Da ∨ o ∈ dseDstMem d) →
      (∀ o ∈ locMem a ++ locMem b, o ∉ remMem (remMem dead0 b) a) ∧
      (∀ o ∈ remMem (remMem dead0 b) a, o ∈ Da ∨ o ∈ dseDstMem d) := by
    intro d a b ha hb hs
    refine ⟨fun o ho hm => ?_, fun o ho => ?_⟩
    · rw [dse_mem_remMem ha, dse_mem_remMem hb] at hm
      rcases List.mem_append.1 ho with h1 | h1
      · exact hm.2 h1
      · exact hm.1.2 h1
    · rw [dse_mem_remMem ha, dse_mem_remMem hb] at ho
      exact hs o ho.1.1
  cases inst with
  | noop => exact ⟨fun o ho => by simp [dseReadMems] at ho, fun h => (by cases h), hsub⟩
  | scan c sh => exact ⟨fun o _ h => by simp [dseReads] at h, fun _ => rfl, fun o h => by simp [dseReads] at h⟩
  | mov sh => exact ⟨fun o _ h => by simp [dseReads] at h, fun _ => rfl, fun o h => by simp [dseReads] at h⟩
  | brz c off => exact ⟨fun o _ h => by simp [dseReads] at h, fun _ => rfl, fun o h => by simp [dseReads] at h⟩
  | brnz c off => exact ⟨fun o _ h => by simp [dseReads] at h, fun _ => rfl, fun o h => by simp [dseReads] at h⟩
  | inp m =>
    refine ⟨fun o ho => by simp [dseReadMems] at ho, fun h => (by cases h), fun o ho => ?_⟩
    simp only [dseReads, dse_mem_setInsert] at ho
    rcases ho with ho | rfl
    · exact hsub o ho
    · exact Or.inr (by simp [dseWriteMems])
  | out m =>
    refine ⟨fun o ho hm => ?_, fun h => (by cases h), fun o ho => ?_⟩
    · simp only [dseReadMems, List.mem_singleton] at ho
      simp only [dseReads, dse_mem_setErase] at hm
      exact hm.2 ho
    · simp only [dseReads, dse_mem_setErase] at ho
      exact hsub o ho.1
  | add d a b =>
    simp only [NoMemZero, noMemZero, Bool.and_eq_true] at hnz
    obtain ⟨h1, h2⟩ := arithCase d a b hnz.1.2 hnz.2 hsub
    exact ⟨h1, fun h => (by cases h), h2⟩
  | sub d a b =>
    simp only [NoMemZero, noMemZero, Bool.and_eq_true] at hnz
    obtain ⟨h1, h2⟩ := arithCase d a b hnz.1.2 hnz.2 hsub
    exact ⟨h1, fun h => (by cases h), h2⟩
  | mul d a b =>
    simp only [NoMemZero, noMemZero, Bool.and_eq_true] at hnz
    obtain ⟨h1, h2⟩ := arithCase d a b hnz.1.2 hnz.2 hsub
    exact ⟨h1, fun h => (by cases h), h2⟩
  | copy d s =>
    simp only [NoMemZero, noMemZero, Bool.and_eq_true] at hnz
    refine ⟨fun o ho hm => ?_, fun h => (by cases h), fun o ho => ?_⟩
    · simp only [dseReads, dse_mem_remMem hnz.2] at hm
      exact hm.2 ho
    · simp only [dseReads, dse_mem_remMem hnz.2] at ho
      exact hsub o ho.1

/-! ### `dseStep` -/

/-- The `kill` closure of `dseStep`. -/
def dseKill (i : Nat) (s : St w) (dead : List Int) (srcs : List (Loc w)) : Except String (St w × List Int) := do
  let rs ← srcs.foldlM decUse s.ranges
  pure ({ s with ranges := rs, insts := s.insts.setIfInBounds i .noop }, dead)

theorem dseStep_copy_mem {i : Nat} {s : St w} {dead : List Int} {m : Int} {src : Loc w}
    (hi : s.insts[i]? = some (.copy (.mem m) src)) :
    dseStep i s dead = if dead.contains m then dseKill i s dead [src]
      else .ok (s, dseReads (setInsert dead m) (.copy (.mem m) src)) := by
  unfold dseStep
  rw [hi]
  rfl

theorem dseStep_arith_mem {i : Nat} {s : St w} {dead : List Int} {op : BcGen.Op} {m : Int} {a b : Loc w}
    (hi : s.insts[i]? = some (mkArith op (.mem m) a b)) :
    dseStep i s dead = if dead.contains m then dseKill i s dead [a, b]
      else .ok (s, dseReads (setInsert dead m) (mkArith op (.mem m) a b)) := by
  unfold dseStep
  rw [hi]
  cases op <;> rfl

theorem dseStep_arith_tmp {i : Nat} {s : St w} {dead : List Int} {op : BcGen.Op} {t : Nat} {a b : Loc w}
    (hi : s.insts[i]? = some (mkArith op (.tmp t) a b)) :
    dseStep i s dead =
      match s.ranges[t]? with
      | none => .error "dead_store_elim:ranges-index"
      | some r => if r.numUses = 0 then dseKill i s dead [a, b]
          else .ok (s, dseReads dead (mkArith op (.tmp t) a b)) := by
  unfold dseStep
  rw [hi]
  cases op <;> rfl

theorem dseStep_other {i : Nat} {s : St w} {dead : List Int} {inst : Instr w} (hi : s.insts[i]? = some inst)
    (h1 : ∀ m src, inst ≠ .copy (.mem m) src) (h2 : ∀ op m a b, inst ≠ mkArith op (.mem m) a b)
    (h3 : ∀ op t a b, inst ≠ mkArith op (.tmp t) a b) :
    dseStep i s dead = .ok (s, dseReads dead inst) := by
  unfold dseStep
  rw [hi]
  cases inst with
  | noop => rfl
  | scan c sh => rfl
  | mov sh => rfl
  | inp m => rfl
  | out m => rfl
  | brz c off => rfl
  | brnz c off => rfl
  | copy d src =>
    cases d with
    | mem m => exact absurd rfl (h1 m src)
    | memZero m => rfl
    | tmp t => rfl
    | imm v => rfl
  | add d a b =>
    cases d with
    | mem m => exact absurd rfl (h2 .add m a b)
    | tmp t => exact absurd rfl (h3 .add t a b)
    | memZero m => rfl
    | imm v => rfl
  | sub d a b =>
    cases d with
    | mem m => exact absurd rfl (h2 .sub m a b)
    | tmp t => exact absurd rfl (h3 .sub t a b)
    | memZero m => rfl
    | imm v => rfl
  | mul d a b =>
    cases d with
    | mem m => exact absurd rfl (h2 .mul m a b)
    | tmp t => exact absurd rfl (h3 .mul t a b)
    | memZero m => rfl
    | imm v => rfl

theorem dse_uses_mkArith (op : BcGen.Op) (d a b : Loc w) : uses (mkArith op d a b) = [a, b].flatMap locTmp := by
  cases op <;> simp [mkArith, uses]

theorem dse_writeMems_mkArith (op : BcGen.Op) (d a b : Loc w) : dseWriteMems (mkArith op d a b) = dseDstMem d := by
  cases op <;> rfl

/-- Replacing instruction `i` by `noop` and decrementing the use counts of its sources. -/
theorem dseKill_spec {i : Nat} {s : St w} {dead : List Int} {inst : Instr w} {srcs : List (Loc w)}
    (hi : s.insts[i]? = some inst) (hI : DseInv s.insts s.ranges) (hu : uses inst = srcs.flatMap locTmp) :
    ∃ rs, dseKill i s dead srcs = .ok ({ s with ranges := rs, insts := s.insts.setIfInBounds i .noop }, dead) ∧
      rs.size = s.ranges.size ∧ DseInv (s.insts.setIfInBounds i .noop) rs := by
  have hlt : i < s.insts.size := C07_lt hi
  have hget : s.insts[i] = inst := by
    rw [Array.getElem?_eq_getElem hlt] at hi; exact Option.some.inj hi
  have hmem : inst ∈ s.insts := Array.mem_of_getElem? hi
  obtain ⟨rs, h1, h2, h3⟩ := dse_decUses_spec srcs s.ranges (fun t => by
    rw [← hu]
    exact Nat.le_trans (dse_cnt_le_useCount hmem t) (hI.uses t))
  refine ⟨rs, ?_, h2, ?_, ?_, ?_⟩
  · simp only [dseKill, h1]
    rfl
  · intro ins hins
    rcases Array.getElem?_of_mem hins with ⟨j, hj⟩
    rcases dse_getElem?_set_noop hj with rfl | ⟨_, hj⟩
    · rfl
    · exact hI.noZero ins (Array.mem_of_getElem? hj)
  · intro t
    have hs := dse_useCount_set s.insts i .noop t hlt
    rw [hget] at hs
    have hc : dseCnt t (Instr.noop : Instr w) = 0 := by simp [dseCnt, uses]
    have h3t := h3 t
    rw [← hu] at h3t
    have := hI.uses t
    unfold dseCnt at hs hc
    omega
  · intro j op t a b hj
    rw [h2]
    rcases dse_getElem?_set_noop hj with h | ⟨_, hj⟩
    · cases op <;> cases h
    · exact hI.dst j op t a b hj

/-- What one iteration does. -/
theorem dseStep_spec {i : Nat} {s : St w} {dead : List Int} {inst : Instr w}
    (hi : s.insts[i]? = some inst) (hI : DseInv s.insts s.ranges) :
    ∃ (I1 : Array (Instr w)) (R1 : Array RangeInfo) (dead1 : List Int),
      dseStep i s dead = .ok ({ s with ranges := R1, insts := I1 }, dead1) ∧ R1.size = s.ranges.size ∧ DseInv I1 R1 ∧
      ((I1 = s.insts ∧ DseSameOk inst dead1 dead) ∨
       (I1 = s.insts.setIfInBounds i .noop ∧ dead1 = dead ∧ ∃ d, DseKillOf inst d ∧
          ((∃ m, d = .mem m ∧ m ∈ dead) ∨ (∃ t, d = .tmp t ∧ dseUseCount s.insts t = 0)))) := by
  have hnz : NoMemZero inst := hI.noZero inst (Array.mem_of_getElem? hi)
  have same : ∀ dead1, dseStep i s dead = .ok (s, dead1) → DseSameOk inst dead1 dead →
      ∃ (I1 : Array (Instr w)) (R1 : Array RangeInfo) (dead1 : List Int),
      dseStep i s dead = .ok ({ s with ranges := R1, insts := I1 }, dead1) ∧ R1.size = s.ranges.size ∧ DseInv I1 R1 ∧
      ((I1 = s.insts ∧ DseSameOk inst dead1 dead) ∨
       (I1 = s.insts.setIfInBounds i .noop ∧ dead1 = dead ∧ ∃ d, DseKillOf inst d ∧
          ((∃ m, d = .mem m ∧ m ∈ dead) ∨ (∃ t, d = .tmp t ∧ dseUseCount s.insts t = 0)))) :=
    fun dead1 h1 h2 => ⟨s.insts, s.ranges, dead1, h1, rfl, hI, Or.inl ⟨rfl, h2⟩⟩
  have kill : ∀ (srcs : List (Loc w)) (d : Loc w), dseStep i s dead = dseKill i s dead srcs →
      uses inst = srcs.flatMap locTmp → DseKillOf inst d →
      ((∃ m, d = .mem m ∧ m ∈ dead) ∨ (∃ t, d = .tmp t ∧ dseUseCount s.insts t = 0)) →
      ∃ (I1 : Array (Instr w)) (R1 : Array RangeInfo) (dead1 : List Int),
      dseStep i s dead = .ok ({ s with ranges := R1, insts := I1 }, dead1) ∧ R1.size = s.ranges.size ∧ DseInv I1 R1 ∧
      ((I1 = s.insts ∧ DseSameOk inst dead1 dead) ∨
       (I1 = s.insts.setIfInBounds i .noop ∧ dead1 = dead ∧ ∃ d, DseKillOf inst d ∧
          ((∃ m, d = .mem m ∧ m ∈ dead) ∨ (∃ t, d = .tmp t ∧ dseUseCount s.insts t = 0)))) := by
    intro srcs d h1 hu hk hd
    obtain ⟨rs, g1, g2, g3⟩ := dseKill_spec (dead := dead) hi hI hu
    exact ⟨_, rs, dead, h1.trans g1, g2, g3, Or.inr ⟨rfl, rfl, d, hk, hd⟩⟩
  -- the store cases
  have memCase : ∀ (m : Int) (srcs : List (Loc w)),
      dseStep i s dead = (if dead.contains m then dseKill i s dead srcs
        else .ok (s, dseReads (setInsert dead m) inst)) →
      uses inst = srcs.flatMap locTmp → DseKillOf inst (.mem m) → m ∈ dseWriteMems inst →
      ∃ (I1 : Array (Instr w)) (R1 : Array RangeInfo) (dead1 : List Int),
      dseStep i s dead = .ok ({ s with ranges := R1, insts := I1 }, dead1) ∧ R1.size = s.ranges.size ∧ DseInv I1 R1 ∧
      ((I1 = s.insts ∧ DseSameOk inst dead1 dead) ∨
       (I1 = s.insts.setIfInBounds i .noop ∧ dead1 = dead ∧ ∃ d, DseKillOf inst d ∧
          ((∃ m, d = .mem m ∧ m ∈ dead) ∨ (∃ t, d = .tmp t ∧ dseUseCount s.insts t = 0)))) := by
    intro m srcs h1 hu hk hw
    by_cases hd : dead.contains m = true
    · rw [if_pos hd] at h1
      exact kill srcs (.mem m) h1 hu hk (Or.inl ⟨m, rfl, by simpa using hd⟩)
    · rw [if_neg hd] at h1
      refine same _ h1 (dseReads_ok inst hnz _ dead ?_)
      intro o ho
      rcases dse_mem_setInsert.1 ho with h | rfl
      · exact Or.inl h
      · exact Or.inr hw
  by_cases c1 : ∃ m src, inst = .copy (.mem m) src
  · obtain ⟨m, src, rfl⟩ := c1
    exact memCase m [src] (dseStep_copy_mem hi) (by simp [uses]) (Or.inl ⟨src, rfl⟩) (by simp [dseWriteMems, dseDstMem])
  by_cases c2 : ∃ op m a b, inst = mkArith op (.mem m) a b
  · obtain ⟨op, m, a, b, rfl⟩ := c2
    exact memCase m [a, b] (dseStep_arith_mem hi) (dse_uses_mkArith _ _ _ _) (Or.inr ⟨op, a, b, rfl⟩)
      (by simp [dse_writeMems_mkArith, dseDstMem])
  by_cases c3 : ∃ op t a b, inst = mkArith op (.tmp t) a b
  · obtain ⟨op, t, a, b, rfl⟩ := c3
    have hstep := dseStep_arith_tmp (dead := dead) hi
    have hlt := hI.dst i op t a b hi
    rw [Array.getElem?_eq_getElem hlt] at hstep
    simp only at hstep
    by_cases hz : s.ranges[t].numUses = 0
    · rw [if_pos hz] at hstep
      refine kill [a, b] (.tmp t) hstep (dse_uses_mkArith _ _ _ _) (Or.inr ⟨op, a, b, rfl⟩) (Or.inr ⟨t, rfl, ?_⟩)
      have := hI.uses t
      unfold dseNuse at this
      rw [Array.getElem?_eq_getElem hlt] at this
      simp only at this
      omega
    · rw [if_neg hz] at hstep
      exact same _ hstep (dseReads_ok _ hnz dead dead (fun o ho => Or.inl ho))
  · refine same _ (dseStep_other hi (fun m src e => c1 ⟨m, src, e⟩) (fun op m a b e => c2 ⟨op, m, a, b, e⟩)
      (fun op t a b e => c3 ⟨op, t, a, b, e⟩)) (dseReads_ok _ hnz dead dead (fun o ho => Or.inl ho))

/-! ### the loop -/

theorem dseLoop_spec : ∀ (k : Nat) (s : St w) (dead : List Int), k ≤ s.insts.size → DseInv s.insts s.ranges →
    ∃ (I' : Array (Instr w)) (R' : Array RangeInfo),
      dseLoop k s dead = .ok { s with ranges := R', insts := I' } ∧ I'.size = s.insts.size ∧
      R'.size = s.ranges.size ∧ DseInv I' R' ∧
      (∀ (j : Nat) (ins' : Instr w), I'[j]? = some ins' → ins' = .noop ∨ s.insts[j]? = some ins') ∧
      (∀ j, k ≤ j → I'[j]? = s.insts[j]?) ∧
      ∃ D : Nat → List Int, D k = dead ∧
        ∀ (i : Nat) (ins ins' : Instr w), i < k → s.insts[i]? = some ins → I'[i]? = some ins' →
          DseStepOk I' ins ins' (D i) (D (i + 1)) := by
  intro k
  induction k with
  | zero =>
    intro s dead _ hI
    exact ⟨s.insts, s.ranges, rfl, rfl, rfl, hI, fun j ins' h => Or.inr h, fun _ _ => rfl,
      fun _ => dead, rfl, fun i _ _ hi => by omega⟩
  | succ i ih =>
    intro s dead hk hI
    have hilt : i < s.insts.size := by omega
    have hi : s.insts[i]? = some s.insts[i] := Array.getElem?_eq_getElem hilt
    obtain ⟨I1, R1, dead1, hstep, hR1, hI1, hcase⟩ := dseStep_spec (dead := dead) hi hI
    have hsz1 : I1.size = s.insts.size := by
      rcases hcase with ⟨e, _⟩ | ⟨e, _⟩ <;> rw [e]
      simp
    have hlow : ∀ j, j ≠ i → I1[j]? = s.insts[j]? := by
      intro j hj
      rcases hcase with ⟨e, _⟩ | ⟨e, _⟩ <;> rw [e]
      rw [Array.getElem?_setIfInBounds]
      have hne : ¬ i = j := fun e' => hj e'.symm
      simp [hne]
    have hsub1 : ∀ (j : Nat) (ins' : Instr w), I1[j]? = some ins' → ins' = .noop ∨ s.insts[j]? = some ins' := by
      intro j ins' hj
      rcases hcase with ⟨e, _⟩ | ⟨e, _⟩
      · rw [e] at hj; exact Or.inr hj
      · rw [e] at hj
        rcases dse_getElem?_set_noop hj with h | ⟨_, h⟩
        · exact Or.inl h
        · exact Or.inr h
    obtain ⟨I', R', hloop, hsz', hR', hI', hsub', hframe', D', hD'k, hD'⟩ :=
      ih { s with ranges := R1, insts := I1 } dead1 (by simp only [hsz1]; omega) hI1
    simp only at hloop hsz' hR' hsub' hframe' hD'
    refine ⟨I', R', ?_, by omega, by omega, hI', ?_, ?_, ?_⟩
    · rw [dseLoop, hstep]
      exact hloop
    · intro j ins' hj
      rcases hsub' j ins' hj with h | h
      · exact Or.inl h
      · exact hsub1 j ins' h
    · intro j hj
      rw [hframe' j (by omega), hlow j (by omega)]
    · refine ⟨fun j => if j ≤ i then D' j else dead, by simp only [show ¬ (i + 1 ≤ i) by omega, if_false], ?_⟩
      intro j ins ins' hj hins hins'
      by_cases hji : j = i
      · subst hji
        have hins1 : I'[j]? = I1[j]? := hframe' j (Nat.le_refl _)
        simp only [Nat.le_refl, if_true, show ¬ (j + 1 ≤ j) by omega, if_false, hD'k]
        rw [hi] at hins
        cases hins
        rcases hcase with ⟨e, hsame⟩ | ⟨e, hd1, d, hk', hdead⟩
        · rw [hins1, e, hi] at hins'
          cases hins'
          exact Or.inl ⟨rfl, hsame.reads, hsame.ctl, hsame.sub⟩
        · rw [hins1, e, Array.getElem?_setIfInBounds] at hins'
          simp only [hilt, if_true] at hins'
          cases hins'
          refine Or.inr ⟨rfl, hd1, d, hk', ?_⟩
          rcases hdead with h | ⟨t, rfl, hz⟩
          · exact Or.inl h
          · refine Or.inr ⟨t, rfl, ?_⟩
            rintro ⟨x, insx, hx, htx⟩
            rcases hsub' x insx hx with h | h
            · subst h; simp [uses] at htx
            · rcases hsub1 x insx h with h | h
              · subst h; simp [uses] at htx
              · exact dse_not_uses_of_useCount_zero hz (Array.mem_of_getElem? h) htx
      · have hjlt : j < i := by omega
        simp only [show j ≤ i by omega, show j + 1 ≤ i by omega, if_true]
        exact hD' j ins ins' hjlt (by rw [hlow j hji]; exact hins) hins'

/-! ### the theorem -/

theorem dse_targetsOk_of_sub {I I' : Array (Instr w)} (hsz : I'.size = I.size)
    (hsub : ∀ (j : Nat) (ins' : Instr w), I'[j]? = some ins' → ins' = .noop ∨ I[j]? = some ins')
    (hT : TargetsOk I) : TargetsOk I' := by
  intro i ins off hi hoff
  rw [hsz]
  rcases hsub i ins hi with h | h
  · subst h; cases hoff
  · exact hT i ins off h hoff

/-- `dead_store_elim` on a state satisfying `DsePre`: succeeds, changes only `insts` and `ranges` (sizes
unchanged), every instruction is kept or replaced by `noop`, the result again satisfies `DsePre` (in
particular: no `memZero`), branch targets stay in range, and there is a certificate. -/
theorem deadStoreElim_cert (s : St w) (h : DsePre s) :
    ∃ (I' : Array (Instr w)) (R' : Array RangeInfo),
      deadStoreElim s = .ok { s with ranges := R', insts := I' } ∧ I'.size = s.insts.size ∧
      R'.size = s.ranges.size ∧ DseInv I' R' ∧
      (∀ (j : Nat) (ins' : Instr w), I'[j]? = some ins' → ins' = .noop ∨ s.insts[j]? = some ins') ∧
      ∃ D, DseCert s.insts I' D := by
  obtain ⟨I', R', h1, h2, h3, h4, h5, _, D, hD, hstep⟩ := dseLoop_spec s.insts.size s [] (Nat.le_refl _) h
  refine ⟨I', R', h1, h2, h3, h4, h5, D, h2, h.noZero, hD, ?_⟩
  intro i ins ins' hi hi'
  exact hstep i ins ins' (C07_lt hi) hi hi'

theorem deadStoreElim_preserves (s : St w) (h : DsePre s) :
    ∃ s', deadStoreElim s = .ok s' ∧ s'.insts.size = s.insts.size ∧ s'.ranges.size = s.ranges.size ∧
      s' = { s with insts := s'.insts, ranges := s'.ranges } ∧ s'.live = s.live ∧
      (∀ (j : Nat) (ins' : Instr w), s'.insts[j]? = some ins' → ins' = .noop ∨ s.insts[j]? = some ins') ∧
      DsePre s' ∧ (∀ ins ∈ s'.insts, NoMemZero ins) ∧ (TargetsOk s.insts → TargetsOk s'.insts) ∧
      (∀ (t : Nat) (mn mx : Int), BehEqIO (progOf s t mn mx) (progOf s' t mn mx)) ∧
      ∀ (t : Nat) (mn mx : Int) (limited : Bool) (b fuel : Nat) (env : Env),
        ObsEqIO (Bc.run (progOf s t mn mx) limited b fuel env) (Bc.run (progOf s' t mn mx) limited b fuel env) := by
  obtain ⟨I', R', h1, h2, h3, h4, h5, D, hD⟩ := deadStoreElim_cert s h
  refine ⟨_, h1, h2, h3, rfl, rfl, h5, h4, h4.noZero, dse_targetsOk_of_sub h2 h5, ?_, ?_⟩
  · intro t mn mx
    exact dse_behEqIO (P := progOf s t mn mx) (Q := progOf { s with ranges := R', insts := I' } t mn mx) hD
  · intro t mn mx limited b fuel env
    exact dse_run (P := progOf s t mn mx) (Q := progOf { s with ranges := R', insts := I' } t mn mx) hD
      limited b fuel env

end C02
end Hpbf
