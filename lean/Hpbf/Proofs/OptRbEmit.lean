/-
Rebuild-round proofs, part 6: the emitting primitives at the level of memories.
* `EmitRes ps s s' comps`: `s'` is `s` after the groups `comps` have been taken out of `pending` and emitted
  (`gatherForEmit` + `emitStructured`): closed under composition; `emit`, `explosionVars`, the check phase of
  `performAll`, `emitAll`.
* `performAll_spec`.
* `MInvX D`: the invariant modulo a set `D` of cells that are about to be overwritten, `Dead s v` (nothing
  pending for / reading `v`, `v` recorded as overwritten), `clobber_spec`, and the `havoc` lemma.
-/
import Hpbf.Proofs.OptRbPrim
import Hpbf.Proofs.OptRbDfs

namespace Hpbf
namespace OptProof
open Opt OptSem

variable {w : Nat}

/-! ### emission steps -/

structure EmitRes (ps : List (Rebuild w)) (s s' : Rebuild w) (comps : List (List (Int × Expr w))) : Prop where
  wf : Wf s'
  insts : s'.insts = s.insts ++ comps.map Ir.Instr.calc
  nodup : ∀ g ∈ comps, (g.map (·.1)).Nodup
  hdr : SameHdr s s'
  noRet : s'.noReturn = s.noReturn
  subAnal : s'.subAnal = s.subAnal
  sub : ∀ k e, mGet s'.pending k = some e → mGet s.pending k = some e
  tgt : ∀ g ∈ comps, ∀ ve ∈ g, mGet s.pending ve.1 = some ve.2
  gone : ∀ k, mGet s'.pending k = none → mGet s.pending k ≠ none → ∃ g ∈ comps, k ∈ g.map (·.1)
  wr : ∀ v, (∀ g ∈ comps, v ∉ g.map (·.1)) → mGet s'.written v = mGet s.written v
  par : ∀ E : Mem w, Mem.par s.pending E = Mem.par s'.pending (Mem.seq comps E)
  writ : ∀ M0 E, WrOk s M0 E → PK s ps M0 → WrOk s' M0 (Mem.seq comps E)

theorem EmitRes.refl (ps : List (Rebuild w)) {s : Rebuild w} (h : Wf s) : EmitRes ps s s [] :=
  ⟨h, by simp, by simp, SameHdr.refl s, rfl, rfl, fun _ _ h => h, by simp,
   fun k h1 h2 => absurd h1 h2, fun _ _ => rfl, fun _ => rfl, fun _ _ h _ => h⟩

theorem EmitRes.trans {ps : List (Rebuild w)} {a b c : Rebuild w} {c1 c2 : List (List (Int × Expr w))}
    (h1 : EmitRes ps a b c1) (h2 : EmitRes ps b c c2) : EmitRes ps a c (c1 ++ c2) := by
  refine ⟨h2.wf, ?_, ?_, h1.hdr.trans h2.hdr, h2.noRet.trans h1.noRet, h2.subAnal.trans h1.subAnal,
    fun k e h => h1.sub k e (h2.sub k e h), ?_, ?_, ?_, ?_, ?_⟩
  · rw [h2.insts, h1.insts]; simp
  · intro g hg
    rcases List.mem_append.1 hg with h | h
    · exact h1.nodup g h
    · exact h2.nodup g h
  · intro g hg ve hve
    rcases List.mem_append.1 hg with h | h
    · exact h1.tgt g h ve hve
    · exact h1.sub _ _ (h2.tgt g h ve hve)
  · intro k hk hk'
    cases hb : mGet b.pending k with
    | none =>
      obtain ⟨g, hg, hkg⟩ := h1.gone k hb hk'
      exact ⟨g, List.mem_append_left _ hg, hkg⟩
    | some e =>
      obtain ⟨g, hg, hkg⟩ := h2.gone k hk (by rw [hb]; simp)
      exact ⟨g, List.mem_append_right _ hg, hkg⟩
  · intro v hv
    rw [h2.wr v (fun g hg => hv g (List.mem_append_right _ hg)),
      h1.wr v (fun g hg => hv g (List.mem_append_left _ hg))]
  · intro E
    rw [h1.par E, h2.par (Mem.seq c1 E), seq_append]
  · intro M0 E hw hk
    rw [seq_append]
    exact h2.writ M0 _ (h1.writ M0 E hw hk) (hk.congr h1.hdr)

/-- `gatherForEmit` followed by `emitStructured`. -/
theorem gatherEmit_res {s : Rebuild w} (ps : List (Rebuild w)) (hwf : Wf s) (var : Int) {os os' : Orders}
    {s1 : Rebuild w} {toEmit : List (List (Int × Expr w))}
    (hr : (gatherForEmit s [var]).run os = .ok ((s1, toEmit), os')) :
    EmitRes ps s (emitStructured s1 ps toEmit) toEmit ∧
    mGet (emitStructured s1 ps toEmit).pending var = none ∧
    (∀ u e, mGet (emitStructured s1 ps toEmit).pending u = some e → var ∉ Expr.variables e) := by
  obtain ⟨g1, g2, g3, g4, g5, g6, g7, g8, g9⟩ := gatherForEmit_spec hwf var hr
  have hnd : ∀ g ∈ toEmit, (g.map (·.1)).Nodup := fun g hg => (g6 g hg).1
  have hstruct : ∀ (M0 E : Mem w), WrOk s M0 E → PK s ps M0 →
      WrOk (emitStructured s1 ps toEmit) M0 (Mem.seq toEmit E) := fun M0 E hw hk =>
    emitStructured_writ (ps := ps) g1 (hw.of_written_eq g2.2.2.2.2.2.2.2.1) (hk.congr g2.hdr) toEmit hnd
  have key : (emitStructured s1 ps toEmit).insts = s1.insts ++ toEmit.map Ir.Instr.calc ∧
      SameButEmit s1 (emitStructured s1 ps toEmit) ∧ Wf (emitStructured s1 ps toEmit) ∧
      (∀ v, (∀ g ∈ toEmit, v ∉ g.map (·.1)) →
        mGet (emitStructured s1 ps toEmit).written v = mGet s1.written v) :=
    emitStructured_struct g1 ps toEmit
  obtain ⟨k1, k2, k3, k4⟩ := key
  have hpend : (emitStructured s1 ps toEmit).pending = s1.pending := k2.2.2.2.2.2.2.1
  refine ⟨⟨k3, ?_, hnd, g2.hdr.trans k2.hdr, ?_, ?_, ?_, g7, ?_, ?_, ?_, ?_⟩, ?_, ?_⟩
  · rw [k1, g2.2.2.2.2.2.2.2.2.1]
  · rw [k2.2.2.2.2.2.1, g2.2.2.2.2.2.1]
  · rw [k2.2.2.2.2.2.2.2.2, g2.2.2.2.2.2.2.2.2.2]
  · intro k e h; rw [hpend] at h; exact g3 k e h
  · intro k h; rw [hpend] at h; exact g8 k h
  · intro v hv; rw [k4 v hv, g2.2.2.2.2.2.2.2.1]
  · intro E; rw [hpend]; exact g9 E
  · intro M0 E hw hk; exact hstruct M0 E hw hk
  · rw [hpend]; exact g4
  · intro u e h; rw [hpend] at h; exact g5 u e h

/-! ### `emit` and the loops built from it -/

theorem emit_res {s : Rebuild w} (ps : List (Rebuild w)) (hwf : Wf s) (var : Int) {os os' : Orders}
    {s' : Rebuild w} (hr : (emit s ps var).run os = .ok (s', os')) :
    ∃ comps, EmitRes ps s s' comps ∧ mGet s'.pending var = none := by
  unfold emit at hr
  split at hr
  · rw [run_bind_ok] at hr
    obtain ⟨⟨s1, toEmit⟩, os1, h1, h2⟩ := hr
    rw [run_pure] at h2
    cases h2
    obtain ⟨a, b, _⟩ := gatherEmit_res ps hwf var h1
    exact ⟨toEmit, a, b⟩
  · rename_i hh
    rw [run_pure] at hr
    cases hr
    exact ⟨[], EmitRes.refl ps hwf, (mHas_false_iff _ _).1 (by simpa using hh)⟩

/-- A `foldlM` all of whose steps are emission steps is an emission step. -/
theorem foldlM_emitRes {γ : Type} (ps : List (Rebuild w)) (f : Rebuild w → γ → M (Rebuild w)) (l : List γ)
    (hstep : ∀ s x os s' os', x ∈ l → Wf s → (f s x).run os = .ok (s', os') → ∃ comps, EmitRes ps s s' comps)
    {s : Rebuild w} {os : Orders} {s' : Rebuild w} {os' : Orders} (hwf : Wf s)
    (hr : (l.foldlM f s).run os = .ok (s', os')) : ∃ comps, EmitRes ps s s' comps := by
  induction l generalizing s os with
  | nil =>
    rw [List.foldlM_nil, run_pure] at hr
    cases hr; exact ⟨[], EmitRes.refl ps hwf⟩
  | cons x l ih =>
    rw [List.foldlM_cons, run_bind_ok] at hr
    obtain ⟨s1, os1, h1, h2⟩ := hr
    obtain ⟨c1, r1⟩ := hstep s x os s1 os1 (by simp) hwf h1
    obtain ⟨c2, r2⟩ := ih (fun s x os s' os' hx => hstep s x os s' os' (List.mem_cons_of_mem _ hx)) r1.wf h2
    exact ⟨c1 ++ c2, r1.trans r2⟩

theorem explosionVars_res (ps : List (Rebuild w)) (vars : List Int) (last : Option Int) {s : Rebuild w}
    (hwf : Wf s) {os os' : Orders} {s' : Rebuild w}
    (hr : (explosionVars ps vars last s).run os = .ok (s', os')) : ∃ comps, EmitRes ps s s' comps := by
  induction vars generalizing s os last with
  | nil =>
    rw [explosionVars, run_pure] at hr
    cases hr; exact ⟨[], EmitRes.refl ps hwf⟩
  | cons var rest ih =>
    rw [explosionVars] at hr
    have hskip : ∀ {os : Orders}, ((do let s ← pure s; (fun s => explosionVars ps rest (some var) s) s) :
        M (Rebuild w)).run os = .ok (s', os') → ∃ comps, EmitRes ps s s' comps := by
      intro os h
      rw [run_bind_ok] at h
      obtain ⟨s1, os1, h1, h2⟩ := h
      rw [run_pure] at h1; cases h1
      exact ih (some var) hwf h2
    split at hr
    · split at hr
      · rw [run_bind_ok] at hr
        obtain ⟨s1, os1, h1, h2⟩ := hr
        obtain ⟨c1, r1, _⟩ := emit_res ps hwf var h1
        obtain ⟨c2, r2⟩ := ih (some var) r1.wf h2
        exact ⟨c1 ++ c2, r1.trans r2⟩
      · exact hskip hr
    · exact hskip hr

theorem performCheck_res (ps : List (Rebuild w)) (calcs : List (Int × Expr w)) {s : Rebuild w}
    (hwf : Wf s) {os os' : Orders} {s' : Rebuild w}
    (hr : (performCheck s ps calcs).run os = .ok (s', os')) : ∃ comps, EmitRes ps s s' comps := by
  unfold performCheck at hr
  refine foldlM_emitRes ps _ calcs ?_ hwf hr
  intro s vc os s' os' _ hwf' h
  refine foldlM_emitRes ps _ (groupedVars vc.2) ?_ hwf' h
  intro s vars os s' os' _ hwf'' h'
  split at h'
  · exact explosionVars_res ps vars none hwf'' h'
  · rw [run_pure] at h'; cases h'; exact ⟨[], EmitRes.refl ps hwf''⟩

theorem emitAll_res (ps : List (Rebuild w)) (vars : List Int) {s : Rebuild w}
    (hwf : Wf s) {os os' : Orders} {s' : Rebuild w}
    (hr : (emitAll ps vars s).run os = .ok (s', os')) : ∃ comps, EmitRes ps s s' comps := by
  unfold emitAll at hr
  refine foldlM_emitRes ps _ vars ?_ hwf hr
  intro s var os s' os' _ hwf' h
  obtain ⟨c, r, _⟩ := emit_res ps hwf' var h
  exact ⟨c, r⟩

/-- An emission step preserves the invariant: the emitted groups have been executed. -/
theorem EmitRes.minv {ps : List (Rebuild w)} {s s' : Rebuild w} {comps : List (List (Int × Expr w))}
    (h : EmitRes ps s s' comps) {M0 E S : Mem w} (hi : MInv s ps M0 E S) :
    MInv s' ps M0 (Mem.seq comps E) S :=
  ⟨by rw [hi.pend, h.par E], h.writ M0 E hi.writ hi.pk, hi.pk.congr h.hdr⟩

/-! ### `performAll` -/

theorem performAll_spec {s : Rebuild w} {ps : List (Rebuild w)} {shift : Int} {calcs : List (Int × Expr w)}
    (hwf : Wf s) {os os' : Orders} {s' : Rebuild w}
    (hr : (performAll s ps shift calcs).run os = .ok (s', os')) :
    ∃ comps s1, EmitRes ps s s1 comps ∧ Wf s' ∧ SameButPend s1 s' ∧
      ∀ M0 E S, MInv s ps M0 E S → MInv s' ps M0 (Mem.seq comps E) (assignS shift calcs S) := by
  rw [performAll_eq, run_bind_ok] at hr
  obtain ⟨s1, os1, h1, h2⟩ := hr
  rw [run_bind_ok] at h2
  obtain ⟨exprs, os2, h3, h4⟩ := h2
  rw [run_pure] at h4
  cases h4
  obtain ⟨comps, r⟩ := performCheck_res ps calcs hwf h1
  obtain ⟨_, hf⟩ := performEval_ok h3
  refine ⟨comps, s1, r, ?_⟩
  have hbase : ∀ M0 E S, MInv s ps M0 E S → MInv s1 ps M0 (Mem.seq comps E) S := fun M0 E S hi => r.minv hi
  refine ⟨?_, ?_, ?_⟩
  · -- Wf does not depend on the memories: use the fold lemma structurally
    exact (foldl_insertPending_wf r.wf ps exprs).1
  · exact (foldl_insertPending_wf r.wf ps exprs).2
  · intro M0 E S hi
    have h1' := hbase M0 E S hi
    have := (foldl_insertPending_minv r.wf h1' exprs).2.2
    rw [assignE_eq_assignS h1' hf] at this
    exact this

/-! ### the invariant modulo dead cells -/

/-- Nothing is pending for `v`, no pending operation reads `v`, and `v` is recorded as overwritten
(`unknown` / `maybe`). -/
def Dead (s : Rebuild w) (v : Int) : Prop :=
  mGet s.pending v = none ∧ (∀ u e, mGet s.pending u = some e → v ∉ Expr.variables e) ∧
  ∃ k, mGet s.written v = some k ∧ ∀ e, k ≠ .known e

/-- The invariant, except that on the cells in `D` the source memory need not agree with
`Mem.par pending E` (their pending operations have been dropped because they are about to be overwritten). -/
structure MInvX (D : Int → Prop) (s : Rebuild w) (ps : List (Rebuild w)) (M0 E S : Mem w) : Prop where
  pendX : ∀ v, ¬ D v → S v = Mem.par s.pending E v
  writ : WrOk s M0 E
  pk : PK s ps M0

theorem MInv.toX {s : Rebuild w} {ps : List (Rebuild w)} {M0 E S : Mem w} (h : MInv s ps M0 E S)
    (D : Int → Prop) : MInvX D s ps M0 E S :=
  ⟨fun v _ => by rw [h.pend], h.writ, h.pk⟩

theorem MInvX.mono {D D' : Int → Prop} {s : Rebuild w} {ps : List (Rebuild w)} {M0 E S : Mem w}
    (h : MInvX D s ps M0 E S) (hD : ∀ v, D v → D' v) : MInvX D' s ps M0 E S :=
  ⟨fun v hv => h.pendX v (fun hd => hv (hD v hd)), h.writ, h.pk⟩

theorem MInvX.emit {D : Int → Prop} {ps : List (Rebuild w)} {s s' : Rebuild w}
    {comps : List (List (Int × Expr w))} (h : EmitRes ps s s' comps) {M0 E S : Mem w}
    (hi : MInvX D s ps M0 E S) : MInvX D s' ps M0 (Mem.seq comps E) S :=
  ⟨fun v hv => by rw [hi.pendX v hv, h.par E], h.writ M0 E hi.writ hi.pk, hi.pk.congr h.hdr⟩

theorem MInvX.removePending {D : Int → Prop} {ps : List (Rebuild w)} {s : Rebuild w} (hwf : Wf s)
    {M0 E S : Mem w} (hi : MInvX D s ps M0 E S) (var : Int) :
    MInvX (fun v => D v ∨ v = var) (removePending s var).1 ps M0 E S := by
  have hs := removePending_same s var
  refine ⟨?_, hi.writ.of_written_eq hs.2.2.2.2.2.2.2.1, hi.pk.congr hs.hdr⟩
  intro v hv
  have h1 : ¬ D v := fun h => hv (Or.inl h)
  have h2 : ¬ var = v := fun h => hv (Or.inr h.symm)
  rw [hi.pendX v h1]
  unfold Mem.par
  rw [removePending_get hwf, if_neg h2]

/-- What `insertWritten` stores. -/
def normW (k : OptWrite w) : OptWrite w :=
  match k with
  | .known e => OptWrite.known (Expr.normalize e)
  | v => v

theorem insertWritten_written' (s : Rebuild w) (var : Int) (val : OptWrite w) :
    (insertWritten s var val).written = mSet s.written var (normW val) := insertWritten_written s var val

theorem normW_nonknown (k : OptWrite w) (hk : ∀ e, k ≠ .known e) : normW k = k := by
  cases k with
  | known e => exact absurd rfl (hk e)
  | unknown => rfl
  | maybe => rfl

theorem MInvX.insertWritten {D : Int → Prop} {ps : List (Rebuild w)} {s : Rebuild w}
    {M0 E S : Mem w} (hi : MInvX D s ps M0 E S) (var : Int) (k : OptWrite w) (hk : ∀ e, k ≠ .known e) :
    MInvX D (insertWritten s var k) ps M0 E S := by
  have hs := insertWritten_same s var k
  refine ⟨?_, ?_, hi.pk.congr hs.hdr⟩
  · intro v hv; rw [hs.2.2.2.2.2.2.2.1]; exact hi.pendX v hv
  · intro v
    rw [insertWritten_written', normW_nonknown k hk, mGet_mSet]
    by_cases hv : var = v
    · rw [if_pos hv]
      cases k with
      | known e => exact absurd rfl (hk e)
      | unknown => trivial
      | maybe => trivial
    · rw [if_neg hv]; exact hi.writ v

/-- The cells in `D` are overwritten (by the same values in both programs): the full invariant is back. -/
theorem MInvX.havoc {D : Int → Prop} {ps : List (Rebuild w)} {s : Rebuild w}
    {M0 E S : Mem w} (hi : MInvX D s ps M0 E S) (hD : ∀ v, D v → Dead s v) {E' S' : Mem w}
    (hout : ∀ v, ¬ D v → E' v = E v ∧ S' v = S v) (hin : ∀ v, D v → S' v = E' v) :
    MInv s ps M0 E' S' := by
  refine ⟨?_, ?_, hi.pk⟩
  · funext v
    by_cases hv : D v
    · rw [par_of_not_mem _ _ _ (hD v hv).1]; exact hin v hv
    · rw [(hout v hv).2, hi.pendX v hv]
      unfold Mem.par
      cases hp : mGet s.pending v with
      | none => exact (hout v hv).1.symm
      | some e =>
        simp only
        apply ev_congr
        intro x hx
        have : ¬ D x := fun hd => (hD x hd).2.1 v e hp hx
        exact ((hout x this).1).symm
  · intro v
    by_cases hv : D v
    · obtain ⟨k, hk1, hk2⟩ := (hD v hv).2.2
      rw [hk1]
      cases k with
      | known e => exact absurd rfl (hk2 e)
      | unknown => trivial
      | maybe => trivial
    · have := hi.writ v
      rw [(hout v hv).1]; exact this

theorem Dead.emit {ps : List (Rebuild w)} {s s' : Rebuild w} {comps : List (List (Int × Expr w))}
    (h : EmitRes ps s s' comps) {v : Int} (hd : Dead s v) : Dead s' v := by
  obtain ⟨d1, d2, d3⟩ := hd
  refine ⟨?_, fun u e hu => d2 u e (h.sub u e hu), ?_⟩
  · cases hp : mGet s'.pending v with
    | none => rfl
    | some e => rw [h.sub v e hp] at d1; cases d1
  · rw [h.wr v]
    · exact d3
    · intro g hg hv
      obtain ⟨ve, hve, e⟩ := List.mem_map.1 hv
      have := h.tgt g hg ve hve
      rw [e, d1] at this; cases this

/-! ### `clobber` -/

theorem clobber_spec {s : Rebuild w} (ps : List (Rebuild w)) (hwf : Wf s) (var : Int) (maybe : Bool)
    {os os' : Orders} {s' : Rebuild w} (hr : (clobber s ps var maybe).run os = .ok (s', os')) :
    ∃ comps, Wf s' ∧ s'.insts = s.insts ++ comps.map Ir.Instr.calc ∧
      (∀ g ∈ comps, (g.map (·.1)).Nodup) ∧ SameHdr s s' ∧ s'.noReturn = s.noReturn ∧
      s'.subAnal = s.subAnal ∧
      (∀ k e, mGet s'.pending k = some e → mGet s.pending k = some e) ∧
      Dead s' var ∧ (∀ v, Dead s v → Dead s' v) ∧
      (∀ (D : Int → Prop) M0 E S, MInvX D s ps M0 E S →
        MInvX (fun v => D v ∨ v = var) s' ps M0 (Mem.seq comps E) S) := by
  unfold clobber at hr
  rw [run_bind_ok] at hr
  obtain ⟨⟨s2, toEmit⟩, os1, h1, h2⟩ := hr
  rw [run_pure] at h2
  cases h2
  -- the state handed to `gatherForEmit`
  have hs0 : ∃ s0, s0 = (if !maybe then (removePending s var).1 else s) := ⟨_, rfl⟩
  obtain ⟨s0, hs0e⟩ := hs0
  rw [← hs0e] at h1
  have hwf0 : Wf s0 := by
    rw [hs0e]; split
    · exact removePending_wf hwf var
    · exact hwf
  have hsame0 : SameButPend s s0 := by
    rw [hs0e]; split
    · exact removePending_same s var
    · exact SameButPend.refl s
  have hsub0 : ∀ k e, mGet s0.pending k = some e → mGet s.pending k = some e := by
    rw [hs0e]; split
    · intro k e h
      rw [removePending_get hwf] at h
      split at h
      · cases h
      · exact h
    · exact fun _ _ h => h
  have hX0 : ∀ (D : Int → Prop) M0 E S, MInvX D s ps M0 E S → MInvX (fun v => D v ∨ v = var) s0 ps M0 E S := by
    intro D M0 E S hi
    rw [hs0e]; split
    · exact hi.removePending hwf var
    · exact hi.mono (fun v h => Or.inl h)
  obtain ⟨r, hg1, hg2⟩ := gatherEmit_res ps hwf0 var h1
  have hk : ∀ e, (if maybe then OptWrite.maybe else OptWrite.unknown : OptWrite w) ≠ .known e := by
    intro e; split <;> simp
  have hiw := insertWritten_same (emitStructured s2 ps toEmit) var (if maybe then .maybe else .unknown)
  obtain ⟨i1, i2, i3, i4, i5, i6, i7, i8, i9, i10, i11⟩ := hiw
  have hdead0 : ∀ v, Dead s v → Dead s0 v := by
    intro v ⟨d1, d2, d3⟩
    refine ⟨?_, fun u e hu => d2 u e (hsub0 u e hu), by rw [hsame0.2.2.2.2.2.2.2.1]; exact d3⟩
    cases hp : mGet s0.pending v with
    | none => rfl
    | some e => rw [hsub0 v e hp] at d1; cases d1
  refine ⟨toEmit, insertWritten_wf r.wf _ _, ?_, r.nodup, ?_, ?_, ?_, ?_, ?_, ?_, ?_⟩
  · rw [i10, r.insts, hsame0.2.2.2.2.2.2.2.2.1]
  · exact (hsame0.hdr.trans r.hdr).trans ⟨i1, i2, i3, i4, i5⟩
  · rw [i6, r.noRet, hsame0.2.2.2.2.2.1]
  · rw [i11, r.subAnal, hsame0.2.2.2.2.2.2.2.2.2]
  · intro k e h
    rw [i8] at h
    exact hsub0 k e (r.sub k e h)
  · refine ⟨by rw [i8]; exact hg1, by rw [i8]; exact hg2, ?_⟩
    rw [insertWritten_written', normW_nonknown _ hk, mGet_mSet_same]
    exact ⟨_, rfl, hk⟩
  · intro v hv
    have hd2 := Dead.emit r (hdead0 v hv)
    obtain ⟨d1, d2, d3⟩ := hd2
    refine ⟨by rw [i8]; exact d1, by rw [i8]; exact d2, ?_⟩
    rw [insertWritten_written', normW_nonknown _ hk, mGet_mSet]
    by_cases hvv : var = v
    · rw [if_pos hvv]; exact ⟨_, rfl, hk⟩
    · rw [if_neg hvv]; exact d3
  · intro D M0 E S hi
    exact ((hX0 D M0 E S hi).emit r).insertWritten var _ hk

end OptProof
end Hpbf
