/-
C11 for the output of `allocate_temps`, part 4: the output satisfies the initialisation and liveness clauses of
the bytecode contract.

For a successful run of the pass on a state satisfying `AllocPre` (trace `tr`, output `s' = (tr n).st`) and every
packaging `p = progOf s' temps mn mx` whose `temps` bounds the temporaries of the code:
* `alloc_initFacts` / `alloc_initOk`: an explicit array of definitely-initialised sets is accepted by `initOk`, hence
  (completeness of the solver) `initOk p (initSolve p) = true`;
* `alloc_liveFacts` / `alloc_liveOk`: the same for `liveOk p numRegs ·` and `liveSolve`.
-/
import Hpbf.Proofs.C11AllocSets
import Hpbf.Proofs.C11AllocSolve
import Hpbf.Proofs.C02Alloc
set_option linter.unusedSimpArgs false

namespace Hpbf
namespace C02

open Bc BcWf BcGen C11

variable {w : Nat}

namespace Alloc

variable {s : St w} {numRegs : Nat} {tr : Nat → ASt w}

/-! ### the two solutions -/

open Classical in
/-- The physical temporaries below `Tn` that hold a needed value before instruction `k`. -/
noncomputable def heldList (s : St w) (tr : Nat → ASt w) (Tn k : Nat) : List Nat :=
  (List.range Tn).filter (fun r => decide (Held s tr k r))

theorem mem_heldList {Tn k r : Nat} : r ∈ heldList s tr Tn k ↔ r < Tn ∧ Held s tr k r := by
  simp [heldList]

noncomputable def heldArr (s : St w) (tr : Nat → ASt w) (Tn : Nat) : Array (List Nat) :=
  Array.ofFn (n := s.insts.size) (fun i => heldList s tr Tn i.1)

theorem getD_heldArr {Tn k : Nat} (hk : k < s.insts.size) :
    BcWf.getD (heldArr s tr Tn) k = heldList s tr Tn k := by
  simp [BcWf.getD, heldArr, hk]

/-- `r` holds a needed value before some successor of `i` (in the final code `q`). -/
def HeldAfter (s : St w) (tr : Nat → ASt w) (q : Array (Instr w)) (i r : Nat) : Prop :=
  ∃ ins ss j, q[i]? = some ins ∧ succs q.size i ins = some ss ∧ j ∈ ss ∧ j < q.size ∧ Held s tr j r

open Classical in
noncomputable def afterList (s : St w) (tr : Nat → ASt w) (q : Array (Instr w)) (Tn i : Nat) : List Nat :=
  (List.range Tn).filter (fun r => decide (HeldAfter s tr q i r))

theorem mem_afterList {q : Array (Instr w)} {Tn i r : Nat} :
    r ∈ afterList s tr q Tn i ↔ r < Tn ∧ HeldAfter s tr q i r := by
  simp [afterList]

noncomputable def afterArr (s : St w) (tr : Nat → ASt w) (q : Array (Instr w)) (Tn : Nat) : Array (List Nat) :=
  Array.ofFn (n := s.insts.size) (fun i => afterList s tr q Tn i.1)

theorem getD_afterArr {q : Array (Instr w)} {Tn k : Nat} (hk : k < s.insts.size) :
    BcWf.getD (afterArr s tr q Tn) k = afterList s tr q Tn k := by
  simp [BcWf.getD, afterArr, hk]

/-! ### edges of the output code -/

theorem succs_cases {n i : Nat} {ins : Instr w} {ss : List Nat} (h : succs n i ins = some ss) {j : Nat}
    (hj : j ∈ ss) : j = i + 1 ∨ ∃ off, branchOff? ins = some off ∧ (i : Int) + off = (j : Int) ∧ j ≤ n := by
  have key : ∀ (c off : Int), (branchTarget i off n).map (fun t => [i + 1, t]) = some ss →
      j = i + 1 ∨ ((i : Int) + off = (j : Int) ∧ j ≤ n) := by
    intro c off h
    simp only [branchTarget] at h
    split at h
    · rename_i hb
      simp only [Option.map_some, Option.some.injEq] at h
      subst h
      simp only [List.mem_cons, List.not_mem_nil, or_false] at hj
      rcases hj with rfl | rfl
      · exact Or.inl rfl
      · right; omega
    · simp at h
  cases ins with
  | brz c off =>
    rcases key c off h with g | g
    · exact Or.inl g
    · exact Or.inr ⟨off, rfl, g⟩
  | brnz c off =>
    rcases key c off h with g | g
    · exact Or.inl g
    · exact Or.inr ⟨off, rfl, g⟩
  | _ =>
    simp only [succs, Option.some.injEq] at h
    subst h
    simp only [List.mem_singleton] at hj
    exact Or.inl hj

section
variable (hp : AllocPre s) (T : Trace s numRegs tr)
include hp T

theorem final_size : (tr s.insts.size).st.insts.size = s.insts.size :=
  (trace_inv hp T s.insts.size (Nat.le_refl _)).isize

/-- What is held at a successor was held before the instruction or is written by it. -/
theorem held_edge {i j : Nat} {ins : Instr w} {ss : List Nat}
    (hi : (tr s.insts.size).st.insts[i]? = some ins)
    (hs : succs (tr s.insts.size).st.insts.size i ins = some ss) (hj : j ∈ ss) {r : Nat}
    (h : Held s tr j r) : Held s tr i r ∨ r ∈ BcWf.defs ins := by
  have hsz := final_size hp T
  have hi_lt : i < s.insts.size := by rw [← hsz]; exact lt_of_getElem? hi
  have hq : (tr (i + 1)).st.insts[i]? = some ins := by rw [← final_inst hp T hi_lt]; exact hi
  rcases succs_cases hs hj with rfl | ⟨off, hoff, hkk, hle⟩
  · exact held_succ hp T hi_lt hq h
  · left
    obtain ⟨_, y, hy, hbr⟩ := (trace_inv hp T s.insts.size (Nat.le_refl _)).skel i ins hi
    rw [hoff] at hbr
    exact held_jump hp T hi_lt (by rw [← hsz]; exact hle) hy hbr.symm hkk h

theorem alloc_initFacts {Tn : Nat} (mn mx : Int) (hT : TargetsOk (tr s.insts.size).st.insts)
    (htemps : ∀ (i : Nat) (q : Instr w), (tr s.insts.size).st.insts[i]? = some q → ∀ t ∈ BcWf.uses q, t < Tn) :
    InitFacts (progOf (tr s.insts.size).st Tn mn mx) (heldArr s tr Tn) := by
  have hsz := final_size hp T
  refine ⟨by simp [heldArr, progOf, hsz], ?_, ?_, ?_⟩
  · by_cases h0 : 0 < s.insts.size
    · rw [getD_heldArr h0]
      apply List.eq_nil_iff_forall_not_mem.2
      intro r hr
      exact held_zero T r (mem_heldList.1 hr).2
    · exact getD_oob (by simp only [heldArr, Array.size_ofFn]; omega)
  · intro i ins hi t ht
    have hi' : (tr s.insts.size).st.insts[i]? = some ins := hi
    have hi_lt : i < s.insts.size := by rw [← hsz]; exact lt_of_getElem? hi'
    rw [getD_heldArr hi_lt]
    refine mem_heldList.2 ⟨htemps i ins hi' t ht, ?_⟩
    exact held_uses hp T hi_lt (by rw [← final_inst hp T hi_lt]; exact hi') ht
  · intro i ins hi
    have hi' : (tr s.insts.size).st.insts[i]? = some ins := hi
    have hi_lt : i < s.insts.size := by rw [← hsz]; exact lt_of_getElem? hi'
    have hsome := succs_of_targetsOk hT hi'
    cases hs : succs (tr s.insts.size).st.insts.size i ins with
    | none => rw [hs] at hsome; cases hsome
    | some ss =>
      refine ⟨ss, hs, ?_⟩
      intro j hj t ht
      by_cases hjn : j < s.insts.size
      · rw [getD_heldArr hjn] at ht
        obtain ⟨h1, h2⟩ := mem_heldList.1 ht
        rcases held_edge hp T hi' hs hj h2 with g | g
        · left; rw [getD_heldArr hi_lt]; exact mem_heldList.2 ⟨h1, g⟩
        · exact Or.inr g
      · rw [getD_oob (by simp only [heldArr, Array.size_ofFn]; omega)] at ht; cases ht

theorem alloc_liveFacts {Tn : Nat} (mn mx : Int) (hT : TargetsOk (tr s.insts.size).st.insts)
    (htemps : ∀ (i : Nat) (q : Instr w), (tr s.insts.size).st.insts[i]? = some q → ∀ t ∈ BcWf.uses q, t < Tn) :
    LiveFacts (progOf (tr s.insts.size).st Tn mn mx) numRegs
      (afterArr s tr (tr s.insts.size).st.insts Tn) := by
  have hsz := final_size hp T
  refine ⟨by simp [afterArr, progOf, hsz], ?_, ?_⟩
  · intro i ins hi
    have hi' : (tr s.insts.size).st.insts[i]? = some ins := hi
    have hi_lt : i < s.insts.size := by rw [← hsz]; exact lt_of_getElem? hi'
    have hsome := succs_of_targetsOk hT hi'
    cases hs : succs (tr s.insts.size).st.insts.size i ins with
    | none => rw [hs] at hsome; cases hsome
    | some ss =>
      refine ⟨ss, hs, ?_⟩
      intro j hj ij hij t ht
      have hij' : (tr s.insts.size).st.insts[j]? = some ij := hij
      have hj_lt : j < s.insts.size := by rw [← hsz]; exact lt_of_getElem? hij'
      rw [getD_afterArr hi_lt]
      rw [getD_afterArr hj_lt] at ht
      -- `t` is held before `j`
      have hheld : t < Tn ∧ Held s tr j t := by
        rcases mem_liveIn.1 ht with g | ⟨g1, g2⟩
        · exact ⟨htemps j ij hij' t g,
            held_uses hp T hj_lt (by rw [← final_inst hp T hj_lt]; exact hij') g⟩
        · obtain ⟨h1, ins', ss', j', q1, q2, q3, _, q5⟩ := mem_afterList.1 g1
          rw [hij'] at q1; cases q1
          rcases held_edge hp T hij' q2 q3 q5 with g | g
          · exact ⟨h1, g⟩
          · exact absurd g g2
      exact mem_afterList.2 ⟨hheld.1, ins, ss, j, hi', hs, hj, by rw [hsz]; exact hj_lt, hheld.2⟩
  · intro i ins hi hb t ht h1 h2
    have hi' : (tr s.insts.size).st.insts[i]? = some ins := hi
    have hi_lt : i < s.insts.size := by rw [← hsz]; exact lt_of_getElem? hi'
    rw [getD_afterArr hi_lt] at ht
    obtain ⟨_, ins', ss', j', q1, q2, q3, _, q5⟩ := mem_afterList.1 ht
    rw [hi'] at q1; cases q1
    have hj' : j' = i + 1 := by
      rcases succs_cases q2 q3 with g | ⟨off, hoff, _⟩
      · exact g
      · cases ins <;> simp [branchOff?] at hoff <;> simp [isBranch] at hb
    subst hj'
    exact held_mask hp T hi_lt (by rw [← final_inst hp T hi_lt]; exact hi') q5 h1 h2

end

/-! ### the output state -/

/-- The temporaries read by the instructions are below `Tn`. -/
def TempsBelow (insts : Array (Instr w)) (Tn : Nat) : Prop :=
  ∀ (i : Nat) (q : Instr w), insts[i]? = some q → ∀ t ∈ BcWf.uses q, t < Tn

theorem locMax_spec {l : Loc w} {t : Nat} (h : t ∈ locTmp l) : t < locMax l := by
  cases l <;> simp [locTmp] at h
  subst h
  simp [locMax]

theorem uses_lt_instTemps {x : Instr w} {t : Nat} (h : t ∈ BcWf.uses x ++ BcWf.defs x) : t < instTemps x := by
  cases x <;> simp only [BcWf.uses, BcWf.defs, List.append_nil, List.not_mem_nil, List.mem_append] at h
  all_goals first
    | exact h.elim
    | (simp only [instTemps]
       rcases h with (h | h) | h <;> have := locMax_spec h <;> omega)
    | (simp only [instTemps]
       rcases h with h | h <;> have := locMax_spec h <;> omega)

theorem instTemps_le_countTemps {insts : Array (Instr w)} {i : Nat} {x : Instr w} (h : insts[i]? = some x) :
    instTemps x ≤ countTemps insts := by
  unfold countTemps
  rw [← Array.foldl_toList]
  have hm : x ∈ insts.toList := by
    rw [Array.mem_toList_iff]; exact Array.mem_of_getElem? h
  generalize insts.toList = l at hm
  have key : ∀ (l : List (Instr w)) (m : Nat),
      m ≤ l.foldl (fun m x => max m (instTemps x)) m ∧
      ∀ x ∈ l, instTemps x ≤ l.foldl (fun m x => max m (instTemps x)) m := by
    intro l
    induction l with
    | nil => intro m; exact ⟨Nat.le_refl _, fun x hx => by cases hx⟩
    | cons a t ih =>
      intro m
      obtain ⟨h1, h2⟩ := ih (max m (instTemps a))
      simp only [List.foldl_cons]
      refine ⟨by omega, ?_⟩
      intro x hx
      rcases List.mem_cons.1 hx with rfl | hx
      · omega
      · exact h2 x hx
  exact (key l 0).2 x hm

/-- All temporaries of the code are below `countTemps`. -/
theorem temps_lt_countTemps {insts : Array (Instr w)} {i : Nat} {x : Instr w} (h : insts[i]? = some x) {t : Nat}
    (ht : t ∈ BcWf.uses x ++ BcWf.defs x) : t < countTemps insts :=
  Nat.lt_of_lt_of_le (uses_lt_instTemps ht) (instTemps_le_countTemps h)

theorem tempsBelow_countTemps (insts : Array (Instr w)) : TempsBelow insts (countTemps insts) :=
  fun _ _ h _ ht => temps_lt_countTemps h (List.mem_append_left _ ht)

end Alloc

open Alloc

/-- **Initialisation clause for the output of `allocate_temps`** (any input satisfying `AllocPre` whose branches
stay inside the code): there is an array accepted by `initOk`, with entries below `Tn`. -/
theorem allocateTemps_initFacts (s s' : St w) (numRegs : Nat) (hp : AllocPre s) (hT : TargetsOk s.insts)
    (h : allocateTemps numRegs s = .ok s') (Tn : Nat) (mn mx : Int) (hb : TempsBelow s'.insts Tn) :
    ∃ I, InitFacts (progOf s' Tn mn mx) I ∧ ∀ i t, t ∈ BcWf.getD I i → t < Tn := by
  obtain ⟨tr, T, rfl⟩ := trace_of_allocateTemps h
  have hT' := (allocateTemps_preserves s _ numRegs hp h).2.2.1 hT
  refine ⟨heldArr s tr Tn, alloc_initFacts hp T mn mx hT' hb, ?_⟩
  intro i t ht
  by_cases hi : i < s.insts.size
  · rw [getD_heldArr hi] at ht
    exact (mem_heldList.1 ht).1
  · rw [getD_oob (by simp only [heldArr, Array.size_ofFn]; omega)] at ht; cases ht

/-- **Liveness clause for the output of `allocate_temps`.** -/
theorem allocateTemps_liveFacts (s s' : St w) (numRegs : Nat) (hp : AllocPre s) (hT : TargetsOk s.insts)
    (h : allocateTemps numRegs s = .ok s') (Tn : Nat) (mn mx : Int) (hb : TempsBelow s'.insts Tn) :
    ∃ O, LiveFacts (progOf s' Tn mn mx) numRegs O := by
  obtain ⟨tr, T, rfl⟩ := trace_of_allocateTemps h
  have hT' := (allocateTemps_preserves s _ numRegs hp h).2.2.1 hT
  exact ⟨_, alloc_liveFacts hp T mn mx hT' hb⟩

/-- The boolean form, with the array computed by the checker. -/
theorem allocateTemps_initOk (s s' : St w) (numRegs : Nat) (hp : AllocPre s) (hT : TargetsOk s.insts)
    (h : allocateTemps numRegs s = .ok s') (Tn : Nat) (mn mx : Int) (hb : TempsBelow s'.insts Tn) :
    initOk (progOf s' Tn mn mx) (initSolve (progOf s' Tn mn mx)) = true := by
  obtain ⟨I, h1, h2⟩ := allocateTemps_initFacts s s' numRegs hp hT h Tn mn mx hb
  exact alloc_initOk_of_facts (alloc_initSolve_facts h1 h2)

theorem allocateTemps_liveOk (s s' : St w) (numRegs : Nat) (hp : AllocPre s) (hT : TargetsOk s.insts)
    (h : allocateTemps numRegs s = .ok s') (Tn : Nat) (mn mx : Int) (hb : TempsBelow s'.insts Tn) :
    liveOk (progOf s' Tn mn mx) numRegs (liveSolve (progOf s' Tn mn mx)) = true := by
  obtain ⟨O, h1⟩ := allocateTemps_liveFacts s s' numRegs hp hT h Tn mn mx hb
  exact alloc_liveOk_of_facts (alloc_liveSolve_facts h1 hb)

namespace Alloc

end Alloc
end C02
end Hpbf
