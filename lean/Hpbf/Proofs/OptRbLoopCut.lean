/-
Rebuild-round proofs, stage 2: `loopOrIf` cut into phases (`loopOrIf_run`): emission of the child's pending
operations, `loopPrep` (what the parent does before the instruction is pushed), `loopTail` (push + bookkeeping).
-/
import Hpbf.Proofs.OptRbFoot2

namespace Hpbf
namespace OptProof
open Opt OptSem Ir

variable {w : Nat}

/-- The end of `loopOrIf`: push the `Loop` / `If`, record `cond = 0` after a loop, `noReturn`, the analysis. -/
def loopTail (s sub : Rebuild w) (cond : Int) (isLoop : Bool) (L : OptLoop w) (hasShift : Bool)
    (clobbered : List Int) : Rebuild w :=
  let blockShift := sub.shift - s.shift
  let s :=
    if isLoop then
      insertWritten { s with insts := s.insts ++ [Ir.Instr.loop cond blockShift sub.insts L.atLeastOnce] }
        cond (.known (Expr.val 0#w))
    else { s with insts := s.insts ++ [Ir.Instr.ifnz cond blockShift sub.insts] }
  let s := if L.noContinue then { s with noReturn := true } else s
  { s with subAnal := s.subAnal ++ [OptAnalysis.mk L hasShift sub.reads clobbered sub.subAnal] }

/-- The `clobber` phase of `loopOrIf` (non-shift branch). -/
def clobberPhase (s : Rebuild w) (ps : List (Rebuild w)) (sub : Rebuild w) (L : OptLoop w) (C : List Int) :
    M (Rebuild w) :=
  if !L.noEffect then do
    let sc := sub.written.foldl (fun (acc : Rebuild w × List (Int × Bool)) vk =>
      if !C.contains vk.1 then
        if vk.2.isMaybe || !L.atLeastOnce then (acc.1, acc.2 ++ [(vk.1, true)])
        else ((removePending acc.1 vk.1).1, acc.2 ++ [(vk.1, false)])
      else acc) (s, [])
    let clobber := Expr.stableSort (fun (a b : Int × Bool) => decide (a.1 ≤ b.1)) sc.2
    clobberAll ps clobber sc.1
  else pure s

/-- `if let Some(Known(expr)) = sub.written.get(cond) { if expr.constant() == 0 { … } }`. -/
def condZero (s sub : Rebuild w) (cond : Int) : Rebuild w :=
  match mGet sub.written cond with
  | some (.known expr) =>
    if Expr.constant expr == some 0#w then insertWritten s cond (.known (Expr.val 0#w)) else s
  | _ => s

/-- Everything of `loopOrIf` between the emission of the child's pending operations and the push of the
instruction: `(parent, child, clobbered)`. -/
def loopPrep (s : Rebuild w) (ps : List (Rebuild w)) (sub : Rebuild w) (cond : Int) (L : OptLoop w)
    (C : List Int) : M (Rebuild w × Rebuild w × List Int) :=
  if sub.subShift || sub.shift != s.shift then do
    let s ← emitAll ps (pendingSorted s s) s
    pure (uncertainShift s, sub, ([] : List Int))
  else do
    let sub := { sub with reads := sIns sub.reads cond }
    let s ← emitReadAll ps (readsSorted sub s) s
    let s ← emitReadAll ps ((mKeys sub.written).filter (fun var => C.contains var)) s
    let s ← clobberPhase s ps sub L C
    pure (condZero s sub cond, sub, (mKeys sub.written).filter (fun var => !C.contains var))

theorem loopOrIf_run {s : Rebuild w} {ps : List (Rebuild w)} {sub : Rebuild w} {cond : Int} {isLoop : Bool}
    {L : OptLoop w} {C : List Int} {os os' : Orders} {s' : Rebuild w}
    (hr : (loopOrIf s ps sub cond isLoop L C).run os = .ok (s', os')) :
    ∃ sub1 os1 r,
      ((if !sub.noReturn then emitAll [] (pendingSorted sub sub) sub else pure sub : M (Rebuild w)).run os
        = .ok (sub1, os1)) ∧
      (loopPrep s ps sub1 cond L C).run os1 = .ok (r, os') ∧
      s' = loopTail r.1 r.2.1 cond isLoop L (sub1.subShift || sub1.shift != s.shift) r.2.2 := by
  unfold loopOrIf at hr
  dsimp only at hr
  split at hr
  · rename_i hn
    rw [run_bind_ok] at hr
    obtain ⟨sub1, os1, h1, h2⟩ := hr
    refine ⟨sub1, os1, ?_⟩
    unfold loopPrep
    split at h2
    · rw [run_bind_ok] at h2
      obtain ⟨s1, os2, h3, h4⟩ := h2
      rw [run_bind_ok] at h4
      obtain ⟨x, os3, h5, h6⟩ := h4
      rw [run_pure] at h5
      cases h5
      rw [run_pure] at h6
      cases h6
      rename_i hs
      refine ⟨(uncertainShift s1, sub1, []), by rw [if_pos hn]; exact h1, ?_, rfl⟩
      rw [if_pos hs, run_bind_ok]
      exact ⟨s1, os', h3, rfl⟩
    · rename_i hs
      rw [run_bind_ok] at h2
      obtain ⟨s1, os2, h3, h4⟩ := h2
      rw [run_bind_ok] at h4
      obtain ⟨s2, os3, h5, h6⟩ := h4
      split at h6
      · rename_i hne
        rw [run_bind_ok] at h6
        obtain ⟨s3, os4, h7, h8⟩ := h6
        rw [run_bind_ok] at h8
        obtain ⟨x, os5, h9, h10⟩ := h8
        rw [run_pure] at h9
        cases h9
        rw [run_pure] at h10
        cases h10
        refine ⟨_, by rw [if_pos hn]; exact h1, ?_, rfl⟩
        rw [if_neg hs, run_bind_ok]
        refine ⟨s1, os2, h3, ?_⟩
        rw [run_bind_ok]
        refine ⟨s2, os3, h5, ?_⟩
        rw [run_bind_ok]
        refine ⟨s3, os', ?_, rfl⟩
        unfold clobberPhase
        rw [if_pos hne]; exact h7
      · rename_i hne
        rw [run_bind_ok] at h6
        obtain ⟨s3, os4, h7, h8⟩ := h6
        rw [run_pure] at h7
        cases h7
        rw [run_bind_ok] at h8
        obtain ⟨x, os5, h9, h10⟩ := h8
        rw [run_pure] at h9
        cases h9
        rw [run_pure] at h10
        cases h10
        refine ⟨_, by rw [if_pos hn]; exact h1, ?_, rfl⟩
        rw [if_neg hs, run_bind_ok]
        refine ⟨s1, os2, h3, ?_⟩
        rw [run_bind_ok]
        refine ⟨s2, os', h5, ?_⟩
        rw [run_bind_ok]
        refine ⟨s2, os', ?_, rfl⟩
        unfold clobberPhase
        rw [if_neg hne]; rfl
  · rename_i hn
    rw [run_bind_ok] at hr
    obtain ⟨sub1, os1, h1, h2⟩ := hr
    refine ⟨sub1, os1, ?_⟩
    unfold loopPrep
    split at h2
    · rw [run_bind_ok] at h2
      obtain ⟨s1, os2, h3, h4⟩ := h2
      rw [run_bind_ok] at h4
      obtain ⟨x, os3, h5, h6⟩ := h4
      rw [run_pure] at h5
      cases h5
      rw [run_pure] at h6
      cases h6
      rename_i hs
      refine ⟨(uncertainShift s1, sub1, []), by rw [if_neg hn]; exact h1, ?_, rfl⟩
      rw [if_pos hs, run_bind_ok]
      exact ⟨s1, os', h3, rfl⟩
    · rename_i hs
      rw [run_bind_ok] at h2
      obtain ⟨s1, os2, h3, h4⟩ := h2
      rw [run_bind_ok] at h4
      obtain ⟨s2, os3, h5, h6⟩ := h4
      split at h6
      · rename_i hne
        rw [run_bind_ok] at h6
        obtain ⟨s3, os4, h7, h8⟩ := h6
        rw [run_bind_ok] at h8
        obtain ⟨x, os5, h9, h10⟩ := h8
        rw [run_pure] at h9
        cases h9
        rw [run_pure] at h10
        cases h10
        refine ⟨_, by rw [if_neg hn]; exact h1, ?_, rfl⟩
        rw [if_neg hs, run_bind_ok]
        refine ⟨s1, os2, h3, ?_⟩
        rw [run_bind_ok]
        refine ⟨s2, os3, h5, ?_⟩
        rw [run_bind_ok]
        refine ⟨s3, os', ?_, rfl⟩
        unfold clobberPhase
        rw [if_pos hne]; exact h7
      · rename_i hne
        rw [run_bind_ok] at h6
        obtain ⟨s3, os4, h7, h8⟩ := h6
        rw [run_pure] at h7
        cases h7
        rw [run_bind_ok] at h8
        obtain ⟨x, os5, h9, h10⟩ := h8
        rw [run_pure] at h9
        cases h9
        rw [run_pure] at h10
        cases h10
        refine ⟨_, by rw [if_neg hn]; exact h1, ?_, rfl⟩
        rw [if_neg hs, run_bind_ok]
        refine ⟨s1, os2, h3, ?_⟩
        rw [run_bind_ok]
        refine ⟨s2, os', h5, ?_⟩
        rw [run_bind_ok]
        refine ⟨s2, os', ?_, rfl⟩
        unfold clobberPhase
        rw [if_neg hne]; rfl
end OptProof
end Hpbf
