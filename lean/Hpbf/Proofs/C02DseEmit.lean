/-
C02, `dead_store_elim`, part 4: the state produced by the emission phase satisfies `DsePre`.

The emission proofs (`C02Emit*.lean`) work on the "core" of the generator state and ignore `ranges`.  Here the
invariant `DseInv insts ranges` is carried through the actual monadic code: every instruction that reads a
temporary is pushed right after the matching `read`s (which increment `num_uses`), `range_extend(_to)` and the
`outer_accessed` loop leave `num_uses` alone, and a fresh value number gets a fresh `ranges` entry before its
defining instruction is pushed.
-/
import Hpbf.Proofs.C02DsePass
import Hpbf.Proofs.C02EmitGen

namespace Hpbf
namespace C02

open Bc BcWf BcGen C11 C02Emit

variable {w : Nat}

/-! ### how `DseInv` moves -/

theorem DseInv.push {I : Array (Instr w)} {R : Array RangeInfo} (h : DseInv I R) {x : Instr w} (hz : NoMemZero x)
    (hu : ∀ t, dseUseCount I t + dseCnt t x ≤ dseNuse R t)
    (hd : ∀ op t a b, x = mkArith op (.tmp t) a b → t < R.size) : DseInv (I.push x) R := by
  refine ⟨?_, ?_, ?_⟩
  · intro ins hins
    rcases Array.mem_push.1 hins with h1 | rfl
    · exact h.noZero ins h1
    · exact hz
  · intro t; rw [dse_useCount_push]; exact hu t
  · intro i op t a b hi
    rw [Array.getElem?_push] at hi
    split at hi
    · cases hi; exact hd op t a b rfl
    · exact h.dst i op t a b hi

/-- An instruction without temporaries. -/
structure DsePlain (x : Instr w) : Prop where
  noZero : NoMemZero x
  uses : uses x = []
  notArith : ∀ op t a b, x ≠ mkArith op (.tmp t) a b

theorem DseInv.pushPlain {I : Array (Instr w)} {R : Array RangeInfo} (h : DseInv I R) {x : Instr w} (hx : DsePlain x) :
    DseInv (I.push x) R :=
  h.push hx.noZero (fun t => by simp only [dseCnt, hx.uses, List.count_nil, Nat.add_zero]; exact h.uses t)
    (fun op t a b e => absurd e (hx.notArith op t a b))

theorem DseInv.setPlain {I : Array (Instr w)} {R : Array RangeInfo} (h : DseInv I R) {x : Instr w} (hx : DsePlain x)
    (i : Nat) : DseInv (I.setIfInBounds i x) R := by
  by_cases hi : i < I.size
  · refine ⟨?_, ?_, ?_⟩
    · intro ins hins
      rcases Array.getElem?_of_mem hins with ⟨j, hj⟩
      rw [Array.getElem?_setIfInBounds] at hj
      by_cases hij : i = j
      · simp only [hij, if_true] at hj
        split at hj
        · cases hj; exact hx.noZero
        · cases hj
      · simp only [hij, if_false] at hj
        exact h.noZero ins (Array.mem_of_getElem? hj)
    · intro t
      have := dse_useCount_set I i x t hi
      have hc : dseCnt t x = 0 := by simp [dseCnt, hx.uses]
      have := h.uses t
      omega
    · intro j op t a b hj
      rw [Array.getElem?_setIfInBounds] at hj
      by_cases hij : i = j
      · simp only [hij, if_true] at hj
        split at hj
        · cases hj; exact absurd rfl (hx.notArith op t a b)
        · cases hj
      · simp only [hij, if_false] at hj
        exact h.dst j op t a b hj
  · have : I.setIfInBounds i x = I := by
      apply Array.ext_getElem?
      intro k
      rw [Array.getElem?_setIfInBounds]
      by_cases hik : i = k
      · subst hik; simp [hi]
      · simp [hik]
    rw [this]; exact h

theorem DseInv.ranges {I : Array (Instr w)} {R R' : Array RangeInfo} (h : DseInv I R) (hs : R.size ≤ R'.size)
    (hn : ∀ t, dseNuse R t ≤ dseNuse R' t) : DseInv I R' :=
  ⟨h.noZero, fun t => Nat.le_trans (h.uses t) (hn t), fun i op t a b hi => Nat.lt_of_lt_of_le (h.dst i op t a b hi) hs⟩

theorem dse_plain_noop : DsePlain (.noop : Instr w) := ⟨rfl, rfl, fun op _ _ _ => by cases op <;> simp [mkArith]⟩
theorem dse_plain_out (m : Int) : DsePlain (.out m : Instr w) := ⟨rfl, rfl, fun op _ _ _ => by cases op <;> simp [mkArith]⟩
theorem dse_plain_inp (m : Int) : DsePlain (.inp m : Instr w) := ⟨rfl, rfl, fun op _ _ _ => by cases op <;> simp [mkArith]⟩
theorem dse_plain_mov (m : Int) : DsePlain (.mov m : Instr w) := ⟨rfl, rfl, fun op _ _ _ => by cases op <;> simp [mkArith]⟩
theorem dse_plain_scan (c m : Int) : DsePlain (.scan c m : Instr w) :=
  ⟨rfl, rfl, fun op _ _ _ => by cases op <;> simp [mkArith]⟩
theorem dse_plain_brz (c m : Int) : DsePlain (.brz c m : Instr w) :=
  ⟨rfl, rfl, fun op _ _ _ => by cases op <;> simp [mkArith]⟩
theorem dse_plain_brnz (c m : Int) : DsePlain (.brnz c m : Instr w) :=
  ⟨rfl, rfl, fun op _ _ _ => by cases op <;> simp [mkArith]⟩
theorem dse_plain_copy_imm (v : Nat) (c : BitVec w) : DsePlain (.copy (.tmp v) (.imm c) : Instr w) :=
  ⟨rfl, rfl, fun op _ _ _ => by cases op <;> simp [mkArith]⟩
theorem dse_plain_copy_mem (v : Nat) (m : Int) : DsePlain (.copy (.tmp v) (.mem m) : Instr w) :=
  ⟨rfl, rfl, fun op _ _ _ => by cases op <;> simp [mkArith]⟩

/-! ### `ranges` bookkeeping of the primitive actions -/

/-- `insts` unchanged, `ranges` of the same size, `num_uses` increased by the multiplicities in `e`. -/
structure DseGrow (s s' : St w) (e : List Nat) : Prop where
  insts : s'.insts = s.insts
  size : s'.ranges.size = s.ranges.size
  nuse : ∀ t, dseNuse s'.ranges t = dseNuse s.ranges t + e.count t

theorem DseGrow.refl (s : St w) : DseGrow s s [] := ⟨rfl, rfl, fun t => by simp⟩

theorem DseGrow.trans {s1 s2 s3 : St w} {e1 e2 : List Nat} (h1 : DseGrow s1 s2 e1) (h2 : DseGrow s2 s3 e2) :
    DseGrow s1 s3 (e1 ++ e2) :=
  ⟨h2.insts.trans h1.insts, h2.size.trans h1.size, fun t => by
    rw [h2.nuse, h1.nuse, List.count_append]; omega⟩

theorem DseGrow.pre {s s' : St w} (h : DseGrow s s' []) (hI : DsePre s) : DsePre s' := by
  unfold DsePre
  rw [h.insts]
  exact hI.ranges (Nat.le_of_eq h.size.symm) (fun t => by rw [h.nuse]; simp)

theorem dse_extendTo_nuse {rs rs' : Array RangeInfo} {v to : Nat} (h : extendTo rs v to = .ok rs') :
    v < rs.size ∧ rs'.size = rs.size ∧ ∀ t, dseNuse rs' t = dseNuse rs t := by
  unfold extendTo at h
  cases hr : rs[v]? with
  | none => rw [hr] at h; cases h
  | some r =>
    rw [hr] at h
    have hlt : v < rs.size := C07_lt hr
    simp only [Except.ok.injEq] at h
    subst h
    refine ⟨hlt, by simp, fun t => ?_⟩
    rw [dse_nuse_set _ _ _ _ hlt]
    split
    · rename_i e
      subst e
      unfold dseNuse
      rw [hr]
      split <;> rfl
    · rfl

theorem dse_rangeExtendTo_grow {v to : Nat} {s s' : St w} {u : Unit} (h : rangeExtendTo v to s = .ok (u, s')) :
    DseGrow s s' [] ∧ v < s.ranges.size := by
  unfold rangeExtendTo at h
  cases hrs : extendTo s.ranges v to with
  | error e => simp only [hrs] at h; cases h
  | ok rs =>
    simp only [hrs] at h
    cases h
    obtain ⟨h0, h1, h2⟩ := dse_extendTo_nuse hrs
    exact ⟨⟨rfl, h1, fun t => by simp [h2]⟩, h0⟩

theorem dse_rangeExtend_grow {v : Nat} {s s' : St w} {u : Unit} (h : rangeExtend v s = .ok (u, s')) :
    DseGrow s s' [] ∧ v < s.ranges.size := by
  unfold rangeExtend at h
  simp only [get_bind] at h
  cases hr : s.ranges[v]? with
  | none => simp only [hr, throw_ok] at h
  | some r =>
    simp only [hr] at h
    simp only [ite_run, modify_bind] at h
    have hlt : v < s.ranges.size := C07_lt hr
    have key : ∀ c : Bool, (if c = true then
          rangeExtendTo v s.insts.size { s with outerAccessed := s.outerAccessed.push v }
        else rangeExtendTo v s.insts.size s) = Except.ok (u, s') → DseGrow s s' [] ∧ v < s.ranges.size := by
      intro c hc
      cases c
      · exact dse_rangeExtendTo_grow hc
      · have := (dse_rangeExtendTo_grow hc).1
        exact ⟨⟨this.insts, this.size, this.nuse⟩, hlt⟩
    split at h <;> exact key _ h

theorem dse_read_grow {v : Nat} {s s' : St w} {u : Unit} (h : BcGen.read v s = .ok (u, s')) : DseGrow s s' [v] := by
  unfold BcGen.read at h
  simp only [bind_ok, modify_ok] at h
  obtain ⟨_, s1, h1, rfl⟩ := h
  obtain ⟨g, hlt⟩ := dse_rangeExtend_grow h1
  have hlt1 : v < s1.ranges.size := by rw [g.size]; exact hlt
  rw [Array.getElem?_eq_getElem hlt1]
  refine ⟨g.insts, by simp [g.size], fun t => ?_⟩
  simp only
  rw [dse_nuse_set _ _ _ _ hlt1]
  by_cases e : t = v
  · subst e
    simp only [if_true, List.count_cons_self, List.count_nil]
    have := g.nuse t
    simp only [List.count_nil, Nat.add_zero] at this
    rw [← this]
    unfold dseNuse
    rw [Array.getElem?_eq_getElem hlt1]
  · have e' : ¬ v = t := fun x => e x.symm
    simp [e, g.nuse, e']

theorem dse_nuse_push (R : Array RangeInfo) (x : RangeInfo) (hx : x.numUses = 0) (t : Nat) :
    dseNuse (R.push x) t = dseNuse R t := by
  unfold dseNuse
  rw [Array.getElem?_push]
  by_cases e : t = R.size
  · subst e
    simp [hx]
  · simp [e]

/-! ### actions that preserve the precondition -/

def DsePres {α : Type} (m : M w α) : Prop :=
  ∀ (s : St w) (a : α) (s' : St w), m s = .ok (a, s') → DsePre s → DsePre s'

theorem DsePres.bind {α β : Type} {m : M w α} {f : α → M w β} (hm : DsePres m) (hf : ∀ a, DsePres (f a)) :
    DsePres (m >>= f) := by
  intro s b s' h hI
  rw [bind_ok] at h
  obtain ⟨a, s1, h1, h2⟩ := h
  exact hf a s1 b s' h2 (hm s a s1 h1 hI)

theorem DsePres.pure {α : Type} (a : α) : DsePres (pure a : M w α) := by
  intro s b s' h hI
  rw [pure_ok] at h
  rw [h.2]; exact hI

theorem DsePres.ite {α : Type} {c : Prop} [Decidable c] {a b : M w α} (ha : DsePres a) (hb : DsePres b) :
    DsePres (if c then a else b) := by
  split
  · exact ha
  · exact hb

/-- Fresh value number `s.ranges.size` with a new `ranges` entry, two `read`s, then the defining instruction. -/
theorem dse_getValue_arith_pre {s s1 s2 s3 : St w} {u u' : Unit} (op : BcGen.Op) {a b : Nat} {r0 : RangeInfo}
    (hI : DsePre s) (h1 : BcGen.read a s1 = .ok (u, s2)) (h2 : BcGen.read b s2 = .ok (u', s3))
    (hi1 : s1.insts = s.insts) (hr1 : s1.ranges = s.ranges.push r0) (h0 : r0.numUses = 0) :
    DseInv (s3.insts.push (mkArith op (.tmp s.ranges.size) (.tmp a) (.tmp b))) s3.ranges := by
  have g := (dse_read_grow h1).trans (dse_read_grow h2)
  have hn : ∀ t, dseNuse s3.ranges t = dseNuse s.ranges t + [a, b].count t := by
    intro t
    rw [g.nuse, hr1, dse_nuse_push _ _ h0]
    rfl
  have hsz : s3.ranges.size = s.ranges.size + 1 := by rw [g.size, hr1]; simp
  rw [g.insts, hi1]
  have base : DseInv s.insts s3.ranges := DseInv.ranges hI (by omega) (fun t => by rw [hn]; omega)
  refine base.push ?_ ?_ ?_
  · cases op <;> rfl
  · intro t
    have : dseCnt t (mkArith op (.tmp s.ranges.size) (.tmp a) (.tmp b) : Instr w) = [a, b].count t := by
      unfold dseCnt
      rw [dse_uses_mkArith]
      simp [locTmp]
    rw [this, hn]
    have := hI.uses t
    omega
  · intro op' t a' b' e
    have : t = s.ranges.size := by
      cases op <;> cases op' <;> simp only [mkArith, Instr.add.injEq, Instr.sub.injEq, Instr.mul.injEq,
        Loc.tmp.injEq, reduceCtorEq] at e
      all_goals exact e.1.symm
    omega

theorem dse_getValue_pres (e : GvnExpr w) : DsePres (getValue e) := by
  intro s t s' h hI
  unfold getValue at h
  simp only [get_bind] at h
  cases hv : alGet s.values e with
  | some v =>
    simp only [hv, pure_ok] at h
    rw [h.2]; exact hI
  | none =>
    simp only [hv, set_bind] at h
    have hpush : ∀ r0 : RangeInfo, r0.numUses = 0 → DseInv s.insts (s.ranges.push r0) := fun r0 h0 =>
      DseInv.ranges hI (by simp) (fun t => by rw [dse_nuse_push _ _ h0]; exact Nat.le_refl _)
    cases e with
    | imm v =>
      simp only [modify_bind, pure_ok] at h
      obtain ⟨rfl, rfl⟩ := h
      exact (hpush _ rfl).pushPlain (dse_plain_copy_imm _ _)
    | mem v =>
      simp only [modify_bind, pure_ok] at h
      obtain ⟨rfl, rfl⟩ := h
      exact (hpush _ rfl).pushPlain (dse_plain_copy_mem _ _)
    | add a b =>
      simp only [bind_ok, modify_ok, pure_ok] at h
      obtain ⟨_, s1, h1, _, s2, h2, _, s3, rfl, rfl, rfl⟩ := h
      exact dse_getValue_arith_pre .add hI h1 h2 rfl rfl rfl
    | sub a b =>
      simp only [bind_ok, modify_ok, pure_ok] at h
      obtain ⟨_, s1, h1, _, s2, h2, _, s3, rfl, rfl, rfl⟩ := h
      exact dse_getValue_arith_pre .sub hI h1 h2 rfl rfl rfl
    | mul a b =>
      simp only [bind_ok, modify_ok, pure_ok] at h
      obtain ⟨_, s1, h1, _, s2, h2, _, s3, rfl, rfl, rfl⟩ := h
      exact dse_getValue_arith_pre .mul hI h1 h2 rfl rfl rfl

theorem dse_memWrite_pres (var : Int) (value : Nat) : DsePres (memWrite (w := w) var value) := by
  intro s u s' h hI
  unfold memWrite at h
  simp only [bind_ok, modify_ok] at h
  obtain ⟨_, s1, h1, rfl⟩ := h
  have g := dse_read_grow h1
  show DseInv (s1.insts.push _) s1.ranges
  rw [g.insts]
  have base : DseInv s.insts s1.ranges :=
    DseInv.ranges hI (Nat.le_of_eq g.size.symm) (fun t => by rw [g.nuse]; omega)
  refine base.push rfl ?_ ?_
  · intro t
    have : dseCnt t (.copy (.mem var) (.tmp value) : Instr w) = [value].count t := by
      simp [dseCnt, uses, locTmp]
    rw [this, g.nuse]
    have := hI.uses t
    omega
  · intro op t a b e
    cases op <;> simp [mkArith] at e

theorem dse_codegenVars_pres : ∀ (vs : List Int) (result : Nat), DsePres (codegenVars (w := w) result vs) := by
  intro vs
  induction vs with
  | nil => intro result; unfold codegenVars; exact DsePres.pure _
  | cons v vs ih =>
    intro result
    unfold codegenVars
    exact DsePres.bind (dse_getValue_pres _) fun m => DsePres.bind (dse_getValue_pres _) fun r => ih r

theorem dse_codegenPart_pres (var : Int) (p : Part w) : DsePres (codegenPart var p) := by
  unfold codegenPart
  generalize Expr.stableSort (fun a b => decide (ordering var a ≤ ordering var b)) p.vars = sorted
  cases sorted with
  | nil => exact dse_getValue_pres _
  | cons v0 vs =>
    exact DsePres.bind (dse_getValue_pres _) fun r0 => DsePres.bind (dse_codegenVars_pres vs r0) fun r =>
      DsePres.ite (DsePres.pure r) (DsePres.bind (dse_getValue_pres _) fun im => dse_getValue_pres _)

theorem dse_codegenRest_pres (var : Int) : ∀ (ps : List (Part w)) (result : Nat),
    DsePres (codegenRest var result ps) := by
  intro ps
  induction ps with
  | nil => intro result; unfold codegenRest; exact DsePres.pure _
  | cons p ps ih =>
    intro result
    unfold codegenRest
    refine DsePres.bind (dse_codegenPart_pres var p) fun pr => ?_
    exact DsePres.ite (DsePres.bind (dse_getValue_pres _) fun r => ih r) (DsePres.bind (dse_getValue_pres _) fun r => ih r)

theorem dse_getExprValue_pres (e : Expr w) (var : Int) : DsePres (getExprValue e var) := by
  unfold getExprValue
  generalize orderParts var e = parts
  cases parts with
  | nil => exact dse_getValue_pres _
  | cons p0 ps =>
    refine DsePres.bind (dse_codegenPart_pres var p0) fun r0 => ?_
    exact DsePres.ite
      (DsePres.bind (dse_getValue_pres _) fun z => DsePres.bind (dse_getValue_pres _) fun r => dse_codegenRest_pres var ps r)
      (DsePres.bind (DsePres.pure r0) fun r => dse_codegenRest_pres var ps r)

theorem dse_calcValues_pres : ∀ (calcs : List (Int × Expr w)), DsePres (calcValues calcs) := by
  intro calcs
  induction calcs with
  | nil => unfold calcValues; exact DsePres.pure _
  | cons ve calcs ih =>
    obtain ⟨v, e⟩ := ve
    unfold calcValues
    exact DsePres.bind (dse_getExprValue_pres e v) fun x => DsePres.bind ih fun r => DsePres.pure _

theorem dse_memWrites_pres : ∀ (vals : List (Int × Nat)), DsePres (memWrites (w := w) vals) := by
  intro vals
  induction vals with
  | nil => unfold memWrites; exact DsePres.pure _
  | cons vx vals ih =>
    obtain ⟨v, x⟩ := vx
    unfold memWrites
    exact DsePres.bind (dse_memWrite_pres v x) fun _ => ih

theorem dse_outerLoop_pres (ps : Nat) : ∀ (fuel i : Nat), DsePres (outerLoop (w := w) ps fuel i) := by
  intro fuel
  induction fuel with
  | zero => intro i s u s' h; simp only [outerLoop, throw_ok] at h
  | succ fuel ih =>
    intro i s u s' h hI
    simp only [outerLoop, get_bind] at h
    split at h
    · cases ho : s.outerAccessed[i]? with
      | none => simp only [ho, throw_ok] at h
      | some var =>
        simp only [ho] at h
        cases hr : s.ranges[var]? with
        | none => simp only [hr, throw_ok] at h
        | some r =>
          simp only [hr] at h
          split at h
          · exact ih _ _ _ _ h hI
          · simp only [bind_ok, modify_ok] at h
            obtain ⟨_, s2, h2, _, s3, rfl, h⟩ := h
            have h2' := (dse_rangeExtend_grow h2).1.pre hI
            refine ih _ _ _ _ h ?_
            split <;> exact h2'
    · simp only [pure_ok] at h
      rw [h.2]; exact hI

/-! ### loops and ifs -/

section
variable {fuse : Bool} {ps : Nat} {cond shift : Int} {be : Bool} {sub : Analysis}
  {eb : Nat → M w Unit} {s s' : St w} {u : Unit}

set_option linter.unusedSimpArgs false in
theorem dse_emitLoopIf_loop_pres (hB : ∀ ps, DsePres (eb ps)) (once : Bool) (hf : (!fuse || false || !be) = true)
    (h : emitLoopIf fuse ps true once cond shift be sub eb s = .ok (u, s')) (hI : DsePre s) : DsePre s' := by
  unfold emitLoopIf at h
  cases once <;> cases hsh : sub.hasShift <;> by_cases hs0 : shift = 0
  all_goals
    first
      | have hs0' : (shift != 0) = false := by simp [hs0]
      | have hs0' : (shift != 0) = true := by simp [hs0]
    simp only [hsh, hs0', Bool.not_true, Bool.not_false, hf, ↓reduceIte, Bool.false_eq_true] at h
    simp only [get_bind, modify_bind, pushInst_bind] at h
    rw [bind_ok] at h
    obtain ⟨_, s2, hb, h⟩ := h
    have hb' : DsePre s2 := hB _ _ _ _ hb (by first | exact hI.pushPlain dse_plain_noop | exact hI)
    try simp only [get_bind, modify_bind, pushInst_bind] at h
    rw [bind_ok] at h
    obtain ⟨_, s3, ho, h⟩ := h
    have ho' : DsePre s3 := dse_outerLoop_pres _ _ _ _ _ _ ho
      (by first | exact hb'.pushPlain (dse_plain_mov _) | exact hb')
    simp only [get_bind, modify_bind, pushInst_bind, ite_run, throw_bind, ite_error_ok, set_bind,
      modify_ok] at h
    first
      | (obtain ⟨-, -, rfl⟩ := h
         exact (ho'.pushPlain (dse_plain_brnz _ _)).setPlain (dse_plain_brz _ _) _)
      | (subst h
         exact ho'.pushPlain (dse_plain_brnz _ _))
      | (rw [pure_ok] at h
         obtain ⟨-, rfl⟩ := h
         exact ho'.pushPlain (dse_plain_brnz _ _))

set_option linter.unusedSimpArgs false in
theorem dse_emitLoopIf_if_pres (hB : ∀ ps, DsePres (eb ps))
    (h : emitLoopIf fuse ps false false cond shift be sub eb s = .ok (u, s')) (hI : DsePre s) : DsePre s' := by
  unfold emitLoopIf at h
  have hf : (!fuse || true || !be) = true := by cases fuse <;> cases be <;> rfl
  cases hsh : sub.hasShift <;> by_cases hs0 : shift = 0
  all_goals
    first
      | have hs0' : (shift != 0) = false := by simp [hs0]
      | have hs0' : (shift != 0) = true := by simp [hs0]
    simp only [hsh, hs0', Bool.not_true, Bool.not_false, hf, ↓reduceIte, Bool.false_eq_true] at h
    simp only [get_bind, modify_bind, pushInst_bind] at h
    rw [bind_ok] at h
    obtain ⟨_, s2, hb, h⟩ := h
    have hb' : DsePre s2 := hB _ _ _ _ hb (hI.pushPlain dse_plain_noop)
    try simp only [get_bind, modify_bind, pushInst_bind] at h
    simp only [get_bind, modify_bind, pushInst_bind, ite_run, throw_bind, ite_error_ok, set_bind,
      modify_ok] at h
    obtain ⟨-, -, rfl⟩ := h
    first
      | exact (hb'.pushPlain (dse_plain_mov _)).setPlain (dse_plain_brz _ _) _
      | exact DseInv.setPlain hb' (dse_plain_brz _ _) _

set_option linter.unusedSimpArgs false in
theorem dse_emitLoopIf_scan_pres (once : Bool) (hf : (!fuse || false || !be) = false)
    (h : emitLoopIf fuse ps true once cond shift be sub eb s = .ok (u, s')) (hI : DsePre s) : DsePre s' := by
  unfold emitLoopIf at h
  cases once <;> cases hsh : sub.hasShift
  all_goals
    simp only [hsh, Bool.not_true, Bool.not_false, hf, ↓reduceIte, Bool.false_eq_true] at h
    simp only [get_bind, modify_bind, pushInst_bind, modify_ok, pure_ok] at h
    first
      | (subst h; exact hI.pushPlain (dse_plain_scan _ _))
      | (obtain ⟨-, rfl⟩ := h; exact hI.pushPlain (dse_plain_scan _ _))

end

/-! ### `emit_block` -/

theorem dse_emitInsts_pres (fuse : Bool) : ∀ (n : Nat) (l : List (Ir.Instr w)), iszL l ≤ n →
    ∀ (ps : Nat), DsePres (emitInsts fuse ps l (subsOf l)) := by
  intro n
  induction n with
  | zero =>
    intro l hl ps s u s' h hI
    cases l with
    | nil =>
      simp only [emitInsts, pure_ok] at h
      rw [h.2]; exact hI
    | cons i rest => cases i <;> simp [iszL, isz] at hl <;> omega
  | succ n ih =>
    intro l hl ps s u s' h hI
    cases l with
    | nil =>
      simp only [emitInsts, pure_ok] at h
      rw [h.2]; exact hI
    | cons i rest =>
      rw [emitInsts, bind_ok] at h
      obtain ⟨an', s1, h1, h2⟩ := h
      cases i with
      | output src =>
        simp only [emitInstr, bind_ok, pushInst_ok, pure_ok] at h1
        obtain ⟨_, s2, rfl, rfl, rfl⟩ := h1
        simp only [iszL, isz] at hl
        exact ih rest (by omega) ps _ _ _ h2 (hI.pushPlain (dse_plain_out _))
      | input dst =>
        simp only [emitInstr, bind_ok, modify_ok, pure_ok] at h1
        obtain ⟨_, s2, rfl, rfl, rfl⟩ := h1
        simp only [iszL, isz] at hl
        exact ih rest (by omega) ps _ _ _ h2 (hI.pushPlain (dse_plain_inp _))
      | «calc» calcs =>
        simp only [emitInstr, bind_ok, pure_ok] at h1
        obtain ⟨vals, s2, hc, _, s3, hm, rfl, rfl⟩ := h1
        simp only [iszL, isz] at hl
        exact ih rest (by omega) ps _ _ _ h2
          (dse_memWrites_pres vals _ _ _ hm (dse_calcValues_pres calcs _ _ _ hc hI))
      | loop cond shift body once =>
        simp only [subsOf, emitInstr, bind_ok, pure_ok] at h1
        obtain ⟨_, s2, hl1, rfl, rfl⟩ := h1
        simp only [iszL, isz] at hl
        rw [subOf_subAnal] at hl1
        refine ih rest (by omega) ps _ _ _ h2 ?_
        cases hf : (fuse && body.isEmpty) with
        | false =>
          have hf' : (!fuse || false || !body.isEmpty) = true := by
            cases fuse <;> cases hb : body.isEmpty <;> simp_all
          exact dse_emitLoopIf_loop_pres (fun ps => ih body (by omega) ps) once hf' hl1 hI
        | true =>
          have hf' : (!fuse || false || !body.isEmpty) = false := by
            cases fuse <;> cases hb : body.isEmpty <;> simp_all
          exact dse_emitLoopIf_scan_pres once hf' hl1 hI
      | ifnz cond shift body =>
        simp only [subsOf, emitInstr, bind_ok, pure_ok] at h1
        obtain ⟨_, s2, hl1, rfl, rfl⟩ := h1
        simp only [iszL, isz] at hl
        rw [subOf_subAnal] at hl1
        refine ih rest (by omega) ps _ _ _ h2 ?_
        exact dse_emitLoopIf_if_pres (fun ps => ih body (by omega) ps) hl1 hI

/-- (B): the output of the emission phase satisfies the precondition of `dead_store_elim`. -/
theorem dsePre_of_emit {prog : Ir.Block w} {fuse : Bool} {s : St w} (h : emitState prog fuse = .ok s) :
    DsePre s := by
  unfold emitState at h
  rw [analyze_subAnal] at h
  cases hr : (emitInsts fuse 0 prog.insts (subsOf prog.insts)).run ({} : St w) with
  | error e => rw [hr] at h; cases h
  | ok p =>
    obtain ⟨u, s1⟩ := p
    rw [hr] at h
    cases h
    refine dse_emitInsts_pres fuse _ prog.insts (Nat.le_refl _) 0 {} u s hr ?_
    exact ⟨fun ins hins => by simp at hins, fun t => by simp [dseUseCount], fun i op t a b hi => by simp at hi⟩

/-- (A) + (B): `dead_store_elim` applied to the output of the emission phase. -/
theorem deadStoreElim_preserves_of_emit {prog : Ir.Block w} {fuse : Bool} {s : St w}
    (h : emitState prog fuse = .ok s) :
    ∃ s', deadStoreElim s = .ok s' ∧ s'.insts.size = s.insts.size ∧ s'.live = s.live ∧ DsePre s' ∧
      (TargetsOk s.insts → TargetsOk s'.insts) ∧
      ∀ (t : Nat) (mn mx : Int), BehEqIO (progOf s t mn mx) (progOf s' t mn mx) := by
  obtain ⟨s', h1, h2, _, _, h5, _, h7, _, h9, h10, _⟩ := deadStoreElim_preserves s (dsePre_of_emit h)
  exact ⟨s', h1, h2, h5, h7, h9, h10⟩

end C02
end Hpbf
