/-
Rebuild-round proofs: a boolean equality test for IR blocks (`Ir.Instr` is a nested inductive type without
`DecidableEq`), so that concrete optimizer results can be checked by kernel evaluation in the examples.
-/
import Hpbf.Proofs.OptRbTop

namespace Hpbf
namespace OptProof
open Opt OptSem Ir

variable {w : Nat}

mutual
def beqI : Instr w → Instr w → Bool
  | .output a, .output b => a == b
  | .input a, .input b => a == b
  | .calc a, .calc b => a == b
  | .loop c s b o, .loop c' s' b' o' => c == c' && s == s' && o == o' && beqL b b'
  | .ifnz c s b, .ifnz c' s' b' => c == c' && s == s' && beqL b b'
  | _, _ => false
def beqL : List (Instr w) → List (Instr w) → Bool
  | [], [] => true
  | a :: as, b :: bs => beqI a b && beqL as bs
  | _, _ => false
end

mutual
theorem beqI_sound : ∀ (a b : Instr w), beqI a b = true → a = b
  | .output a, .output b, h => by simp [beqI] at h; rw [h]
  | .input a, .input b, h => by simp [beqI] at h; rw [h]
  | .calc a, .calc b, h => by simp [beqI] at h; rw [h]
  | .loop c s b o, .loop c' s' b' o', h => by
    simp [beqI] at h
    obtain ⟨⟨⟨h1, h2⟩, h3⟩, h4⟩ := h
    rw [h1, h2, h3, beqL_sound b b' h4]
  | .ifnz c s b, .ifnz c' s' b', h => by
    simp [beqI] at h
    obtain ⟨⟨h1, h2⟩, h4⟩ := h
    rw [h1, h2, beqL_sound b b' h4]
  | .output _, .input _, h | .output _, .calc _, h | .output _, .loop .., h | .output _, .ifnz .., h
  | .input _, .output _, h | .input _, .calc _, h | .input _, .loop .., h | .input _, .ifnz .., h
  | .calc _, .output _, h | .calc _, .input _, h | .calc _, .loop .., h | .calc _, .ifnz .., h
  | .loop .., .output _, h | .loop .., .input _, h | .loop .., .calc _, h | .loop .., .ifnz .., h
  | .ifnz .., .output _, h | .ifnz .., .input _, h | .ifnz .., .calc _, h | .ifnz .., .loop .., h => by
    simp [beqI] at h
theorem beqL_sound : ∀ (a b : List (Instr w)), beqL a b = true → a = b
  | [], [], _ => rfl
  | a :: as, b :: bs, h => by
    simp [beqL] at h
    rw [beqI_sound a b h.1, beqL_sound as bs h.2]
  | [], _ :: _, h => by simp [beqL] at h
  | _ :: _, [], h => by simp [beqL] at h
end

/-- Boolean check of an optimizer result. -/
def optimizeIs (b : Block w) (level : Nat) (orders : Orders) (b' : Block w) : Bool :=
  match Opt.optimize b level orders with
  | .ok r => r.shift == b'.shift && beqL r.insts b'.insts
  | .error _ => false

theorem optimize_of_check {b b' : Block w} {level : Nat} {orders : Orders}
    (h : optimizeIs b level orders b' = true) : Opt.optimize b level orders = .ok b' := by
  unfold optimizeIs at h
  split at h
  · rename_i r hr
    simp at h
    rw [hr]
    obtain ⟨rs, ri⟩ := r
    obtain ⟨bs, bi⟩ := b'
    simp only at h
    rw [h.1, beqL_sound _ _ h.2]
  · cases h

/-- Boolean check of a parser result. -/
def parseIs (src : List Kind) (b' : Block w) : Bool :=
  match Ir.parse (w := w) src with
  | .ok r => r.shift == b'.shift && beqL r.insts b'.insts
  | .error _ => false

theorem parse_of_check {src : List Kind} {b' : Block w} (h : parseIs src b' = true) :
    Ir.parse (w := w) src = .ok b' := by
  unfold parseIs at h
  split at h
  · rename_i r hr
    simp at h
    rw [hr]
    obtain ⟨rs, ri⟩ := r
    obtain ⟨bs, bi⟩ := b'
    simp only at h
    rw [h.1, beqL_sound _ _ h.2]
  · cases h

end OptProof
end Hpbf
