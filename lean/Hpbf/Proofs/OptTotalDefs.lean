/-
Totality of the optimizer model (`Hpbf/Opt.lean`), part 1: the vocabulary.

* `isOracleError e`: `e` starts with the literal prefix `order-mismatch ` that all diagnostics of the two oracle
  readers (`takeOrder`, `takeInlineOrder`) and of the final "all orders consumed" check of `optimize` carry. Every
  Rust panic site is an error `panic: …`, the two fuel sites are `model: …`: neither is an oracle error.
* `Ok x`: an `Except` computation that does not fail.
* `NoPanic x`: for EVERY oracle, if `x` fails then with an oracle error.
* `Total x`: there is a piece of oracle `pre` that `x` consumes exactly, succeeding, whatever follows it.
* `Safe x = NoPanic x ∧ Total x`, with the rules for `pure`, `>>=`, lifting, `foldlM`, `mapM`.
-/
import Hpbf.Proofs.OptRbMonad

namespace Hpbf
namespace OptTotal
open Opt OptProof

variable {α β γ : Type}

/-- The diagnostics of the oracle readers: the literal prefix `order-mismatch `. -/
def isOracleError (e : String) : Bool := "order-mismatch ".toList.isPrefixOf e.toList

theorem isOracle_append (a b : String) (h : isOracleError a = true) : isOracleError (a ++ b) = true := by
  simp only [isOracleError, List.isPrefixOf_iff_prefix, String.toList_append] at h ⊢
  exact List.IsPrefix.trans h (List.prefix_append _ _)

/-- An oracle error is neither a `panic: …` nor a `model: …` error. -/
theorem isOracle_not_panic (e : String) (h : isOracleError e = true) :
    "panic: ".toList.isPrefixOf e.toList = false ∧ "model: ".toList.isPrefixOf e.toList = false := by
  simp only [isOracleError, List.isPrefixOf_iff_prefix] at h
  obtain ⟨t, ht⟩ := h
  rw [← ht]
  constructor <;> rfl

/-- An `Except` computation that does not fail. -/
def Ok (x : Except String α) : Prop := ∃ a, x = .ok a

theorem Ok.pure (a : α) : Ok (pure a : Except String α) := ⟨a, rfl⟩

theorem Ok.bind {x : Except String α} {f : α → Except String β} (hx : Ok x)
    (hf : ∀ a, x = .ok a → Ok (f a)) : Ok (x >>= f) := by
  obtain ⟨a, rfl⟩ := hx
  exact hf a rfl

theorem Ok.foldlM (Inv : β → Prop) (f : β → γ → Except String β) (l : List γ)
    (hstep : ∀ b x, x ∈ l → Inv b → Ok (f b x) ∧ ∀ b', f b x = .ok b' → Inv b') {b : β} (h0 : Inv b) :
    Ok (l.foldlM f b) ∧ ∀ b', l.foldlM f b = .ok b' → Inv b' := by
  induction l generalizing b with
  | nil =>
    refine ⟨⟨b, rfl⟩, fun b' h => ?_⟩
    rw [List.foldlM_nil] at h
    cases h; exact h0
  | cons x l ih =>
    obtain ⟨⟨b1, hb1⟩, hi⟩ := hstep b x (by simp) h0
    obtain ⟨h1, h2⟩ := ih (fun b x hx => hstep b x (List.mem_cons_of_mem _ hx)) (hi b1 hb1)
    rw [List.foldlM_cons, hb1]
    exact ⟨h1, h2⟩

/-- For every oracle: if the computation fails, then with an oracle error. -/
def NoPanic (x : M α) : Prop := ∀ os e, x.run os = .error e → isOracleError e = true

/-- A fitting piece of oracle exists; it is consumed exactly, whatever follows it. -/
def Total (x : M α) : Prop := ∃ pre a, ∀ rest, x.run (pre ++ rest) = .ok (a, rest)

/-- Never a panic / fuel error, and some oracle makes it succeed. -/
structure Safe (x : M α) : Prop where
  noPanic : NoPanic x
  total : Total x

theorem Safe.pure (a : α) : Safe (pure a : M α) :=
  ⟨fun os e h => (by rw [run_pure] at h; cases h), [], a, fun rest => (by rw [run_pure]; rfl)⟩

theorem Safe.bind {x : M α} {f : α → M β} (hx : Safe x)
    (hf : ∀ a os os', x.run os = .ok (a, os') → Safe (f a)) : Safe (x >>= f) := by
  constructor
  · intro os e h
    rw [run_bind] at h
    cases hxo : x.run os with
    | error e' =>
      rw [hxo] at h
      cases h
      exact hx.noPanic os _ hxo
    | ok v =>
      obtain ⟨a, os1⟩ := v
      rw [hxo] at h
      exact (hf a os os1 hxo).noPanic os1 e h
  · obtain ⟨pre1, a, h1⟩ := hx.total
    obtain ⟨pre2, b, h2⟩ := (hf a (pre1 ++ []) [] (h1 [])).total
    refine ⟨pre1 ++ pre2, b, fun rest => ?_⟩
    rw [run_bind, List.append_assoc, h1 (pre2 ++ rest)]
    exact h2 rest

theorem Safe.monadLift {x : Except String α} (h : Ok x) : Safe (monadLift x : M α) := by
  obtain ⟨a, rfl⟩ := h
  exact ⟨fun os e h => (by rw [run_monadLift] at h; cases h), [], a, fun rest => (by rw [run_monadLift]; rfl)⟩

theorem Safe.liftM {x : Except String α} (h : Ok x) : Safe (liftM x : M α) := by
  obtain ⟨a, rfl⟩ := h
  exact ⟨fun os e h => (by rw [run_lift] at h; cases h), [], a, fun rest => (by rw [run_lift]; rfl)⟩

/-- Invariant rule for `foldlM`. -/
theorem Safe.foldlM (Inv : β → Prop) (f : β → γ → M β) (l : List γ)
    (hstep : ∀ b x, x ∈ l → Inv b →
      Safe (f b x) ∧ ∀ os b' os', (f b x).run os = .ok (b', os') → Inv b') {b : β} (h0 : Inv b) :
    Safe (l.foldlM f b) := by
  induction l generalizing b with
  | nil => rw [List.foldlM_nil]; exact Safe.pure b
  | cons x l ih =>
    rw [List.foldlM_cons]
    obtain ⟨hs, hi⟩ := hstep b x (by simp) h0
    refine hs.bind (fun b1 os os' h => ?_)
    exact ih (fun b x hx => hstep b x (List.mem_cons_of_mem _ hx)) (hi os b1 os' h)

/-- The invariant holds after a successful `foldlM`. -/
theorem foldlM_post (Inv : β → Prop) (f : β → γ → M β) (l : List γ)
    (hstep : ∀ b x, x ∈ l → Inv b → ∀ os b' os', (f b x).run os = .ok (b', os') → Inv b') {b : β}
    (h0 : Inv b) {os : Orders} {b' : β} {os' : Orders} (hr : (l.foldlM f b).run os = .ok (b', os')) :
    Inv b' :=
  foldlM_inv (fun b _ => Inv b) f l (fun b x os b' os' hx hi h => hstep b x hx hi os b' os' h) h0 hr

theorem Safe.mapM (f : γ → M β) (l : List γ) (hstep : ∀ x, x ∈ l → Safe (f x)) : Safe (l.mapM f) := by
  induction l with
  | nil => rw [List.mapM_nil]; exact Safe.pure _
  | cons x l ih =>
    rw [List.mapM_cons]
    refine (hstep x (by simp)).bind (fun b _ _ _ => ?_)
    refine (ih (fun y hy => hstep y (List.mem_cons_of_mem _ hy))).bind (fun bs _ _ _ => ?_)
    exact Safe.pure _

/-! ### the two oracle readers -/

theorem takeOrder_safe (var : Int) (next : List Int) : Safe (takeOrder var next) := by
  constructor
  · intro os e h
    cases os with
    | nil =>
      simp only [StateT.run, takeOrder] at h
      cases h
      repeat (first | decide | apply isOracle_append)
    | cons o rest =>
      obtain ⟨k, ns⟩ := o
      simp only [StateT.run, takeOrder] at h
      split at h
      · cases h
        repeat (first | decide | apply isOracle_append)
      · split at h
        · cases h
        · cases h
          repeat (first | decide | apply isOracle_append)
  · refine ⟨[(toString var, next)], next, fun rest => ?_⟩
    simp only [StateT.run, takeOrder, List.cons_append, List.nil_append]
    rw [if_neg (by simp)]
    rw [if_pos]
    simp

theorem takeInlineOrder_safe {w : Nat} (pending : List (Int × Expr w)) : Safe (takeInlineOrder pending) := by
  constructor
  · intro os e h
    simp only [StateT.run, takeInlineOrder] at h
    split at h
    · cases h
    · split at h
      · split at h
        · cases h
        · cases h
          repeat (first | decide | apply isOracle_append)
      · cases h
        repeat (first | decide | apply isOracle_append)
  · by_cases hl : pending.length < 2
    · refine ⟨[], pending, fun rest => ?_⟩
      simp only [StateT.run, takeInlineOrder, List.nil_append]
      rw [if_pos hl]
    · refine ⟨[("inline", mKeys pending)],
        (mKeys pending).filterMap (fun k => (mGet pending k).map (fun e => (k, e))), fun rest => ?_⟩
      simp only [StateT.run, takeInlineOrder, List.cons_append, List.nil_append]
      rw [if_neg hl]
      rw [if_pos]
      simp

#print axioms Safe.bind
#print axioms takeOrder_safe
#print axioms takeInlineOrder_safe

end OptTotal
end Hpbf
