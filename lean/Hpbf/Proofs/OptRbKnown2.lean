/-
Rebuild-round proofs: the invariant `KnownVars`, part 2: through loops (`inline`, `loopOrIf`, `loopInsideIf`,
`finishLoop`) and the full induction over `rebuildInstr` / `rebuildInsts`.
-/
import Hpbf.Proofs.OptRbKnown

namespace Hpbf
namespace OptProof
open Opt OptSem Ir

variable {w : Nat}

theorem foldl_remove_kstep {α β : Type} (f : Rebuild w × β → α → Rebuild w × β)
    (hf : ∀ acc x, (f acc x).1 = acc.1 ∨ ∃ k, (f acc x).1 = (removePending acc.1 k).1)
    (l : List α) (acc : Rebuild w × β) : KStep acc.1 (l.foldl f acc).1 := by
  induction l generalizing acc with
  | nil => exact KStep.refl _
  | cons x l ih =>
    simp only [List.foldl_cons]
    refine KStep.trans ?_ (ih _)
    rcases hf acc x with e | ⟨k, e⟩
    · rw [e]; exact KStep.refl _
    · rw [e]; exact removePending_kstep _ k

theorem KnownVars.of_same {s s' : Rebuild w} (h : KnownVars s) (hsub : s'.subShift = s.subShift)
    (hr : s'.reads = s.reads) (hw : s'.written = s.written) : KnownVars s' :=
  (KStep.of_same hsub hr hw).known h

theorem KnownVars.forgetParent {s : Rebuild w} (h : KnownVars s) : KnownVars (forgetParent s) :=
  h.of_same rfl rfl rfl

/-! ### `inline` -/

theorem inlineRest_wk {s : Rebuild w} {ps : List (Rebuild w)} {sub : Rebuild w} {os os' : Orders}
    {s' : Rebuild w} (hr : (inlineRest s ps sub).run os = .ok (s', os')) (hwf : Wf s) (hc : CanonSt s)
    (hsub : Child sub) (hks : KnownVars sub)
    (hcov : s.subShift = false → sub.subShift = false ∧ ∀ x ∈ sub.reads, Cov s x) : WK s s' := by
  refine ⟨(inlineRest_canon hr hwf hc hsub).wf, ?_⟩
  unfold inlineRest at hr
  dsimp only at hr
  rw [run_bind_ok] at hr
  obtain ⟨s2, os2, h5, h6⟩ := hr
  have hf : ∀ (acc : Rebuild w × List (Int × Bool)) (vk : Int × OptWrite w),
      ((fun (acc : Rebuild w × List (Int × Bool)) (vk : Int × OptWrite w) =>
        if vk.2.isMaybe then (acc.1, acc.2 ++ [(vk.1, true)])
        else ((removePending acc.1 vk.1).1, acc.2 ++ [(vk.1, false)])) acc vk).1 = acc.1 ∨
      ∃ k, ((fun (acc : Rebuild w × List (Int × Bool)) (vk : Int × OptWrite w) =>
        if vk.2.isMaybe then (acc.1, acc.2 ++ [(vk.1, true)])
        else ((removePending acc.1 vk.1).1, acc.2 ++ [(vk.1, false)])) acc vk).1
          = (removePending acc.1 k).1 := by
    intro acc x
    dsimp only
    split
    · exact Or.inl rfl
    · exact Or.inr ⟨_, rfl⟩
  have r1' := foldl_remove_cstep _ hf sub.written (s, []) (CStep.refl hwf hc)
  have k1 := foldl_remove_kstep _ hf sub.written (s, [])
  have r2 := clobberAll_wk ps _ h5 r1'.wf
  have k3 : KStep s ({ s2 with insts := s2.insts ++ sub.insts } : Rebuild w) :=
    (k1.trans r2.k).trans (KStep.of_same rfl rfl rfl)
  have hwf3 : Wf (writtenCalcs ({ s2 with insts := s2.insts ++ sub.insts } : Rebuild w) ps
      (sub.written.filterMap (fun vk =>
        match vk.2 with
        | .known e => some (vk.1, e)
        | _ => none))) := writtenCalcs_wf (r2.wf.pushInsts _) ps _
  have k4 : KStep s (writtenCalcs ({ s2 with insts := s2.insts ++ sub.insts } : Rebuild w) ps
      (sub.written.filterMap (fun vk =>
        match vk.2 with
        | .known e => some (vk.1, e)
        | _ => none))) := by
    refine k3.trans (writtenCalcs_kstep _ ps _ ?_)
    intro hss vc hvc x hx
    obtain ⟨hsf, hc0⟩ := hcov (k3.sub hss)
    obtain ⟨vk, hvk, e1⟩ := List.mem_filterMap.1 hvc
    obtain ⟨k, v⟩ := vk
    cases v with
    | known e =>
      simp only [Option.some.injEq] at e1
      subst e1
      have hm : mGet sub.written k = some (.known e) := mGet_of_mem hsub.wf.writ hvk
      exact k3.cov hss (hc0 x (hks hsf k e hm x hx))
    | unknown => cases e1
    | maybe => cases e1
  split at h6
  · rw [run_bind_ok] at h6
    obtain ⟨s3, os3, h7, h8⟩ := h6
    rw [run_pure] at h7
    cases h7
    rw [run_pure] at h8
    cases h8
    exact (k4.trans (KStep.of_same rfl rfl rfl)).trans (KStep.of_same rfl rfl rfl)
  · rw [run_bind_ok] at h6
    obtain ⟨pend, os4, h9, h10⟩ := h6
    rw [run_bind_ok] at h10
    obtain ⟨s4, os5, h11, h12⟩ := h10
    rw [run_bind_ok] at h12
    obtain ⟨s5, os6, h13, h14⟩ := h12
    rw [run_pure] at h13
    cases h13
    rw [run_pure] at h14
    cases h14
    have r4 := performAll_wk h11 hwf3
    exact ((k4.trans r4.k).trans (KStep.of_same rfl rfl rfl)).trans (KStep.of_same rfl rfl rfl)

theorem mem_readsSorted (s su : Rebuild w) (x : Int) : x ∈ readsSorted s su ↔ x ∈ s.reads :=
  (Expr.stableSort_perm _ _).mem_iff

/-- **`inline`** keeps `KnownVars` (the child's known expressions only mention cells the parent has read or
written). -/
theorem inline_wk {s : Rebuild w} {ps : List (Rebuild w)} {sub : Rebuild w} {os os' : Orders}
    {s' : Rebuild w} (hr : (Opt.inline s ps sub).run os = .ok (s', os')) (hwf : Wf s) (hc : CanonSt s)
    (hsub : Child sub) (hks : KnownVars sub) : WK s s' := by
  rw [inline_eq] at hr
  split at hr
  · rw [run_bind_ok] at hr
    obtain ⟨s1, os1, h1, h2⟩ := hr
    rw [run_bind_ok] at h2
    obtain ⟨s2, os2, h3, h4⟩ := h2
    rw [run_pure] at h3
    cases h3
    have r1 := emitAll_wk ps _ h1 hwf
    have c1 := (emitAll_canon ps _ h1 hwf hc).uncertainShift
    have r2 := inlineRest_wk h4 c1.wf c1.canon hsub hks (fun h => by simp [uncertainShift] at h)
    exact ⟨r2.wf, (r1.k.trans (uncertainShift_kstep s1)).trans r2.k⟩
  · rename_i hns
    rw [run_bind_ok] at hr
    obtain ⟨s1, os1, h1, h2⟩ := hr
    obtain ⟨r1, cov1⟩ := emitReadAll_wk_cov ps _ h1 hwf
    have c1 := emitReadAll_canon ps _ h1 hwf hc
    have r2 := inlineRest_wk h2 c1.wf c1.canon hsub hks (fun h =>
      ⟨by simpa using hns, fun x hx => cov1 h x ((mem_readsSorted sub s x).2 hx)⟩)
    exact r1.trans r2

/-! ### `loopOrIf` -/

theorem clobberPhase_wk {s : Rebuild w} {ps : List (Rebuild w)} {sub : Rebuild w} {L : OptLoop w}
    {C : List Int} {os os' : Orders} {s' : Rebuild w}
    (hr : (clobberPhase s ps sub L C).run os = .ok (s', os')) (hwf : Wf s) : WK s s' := by
  unfold clobberPhase at hr
  split at hr
  · dsimp only at hr
    have hf : ∀ (acc : Rebuild w × List (Int × Bool)) (vk : Int × OptWrite w),
        ((fun (acc : Rebuild w × List (Int × Bool)) (vk : Int × OptWrite w) =>
          if !C.contains vk.1 then
            if vk.2.isMaybe || !L.atLeastOnce then (acc.1, acc.2 ++ [(vk.1, true)])
            else ((removePending acc.1 vk.1).1, acc.2 ++ [(vk.1, false)])
          else acc) acc vk).1 = acc.1 ∨
        ∃ k, ((fun (acc : Rebuild w × List (Int × Bool)) (vk : Int × OptWrite w) =>
          if !C.contains vk.1 then
            if vk.2.isMaybe || !L.atLeastOnce then (acc.1, acc.2 ++ [(vk.1, true)])
            else ((removePending acc.1 vk.1).1, acc.2 ++ [(vk.1, false)])
          else acc) acc vk).1 = (removePending acc.1 k).1 := by
      intro acc x
      dsimp only
      split
      · split
        · exact Or.inl rfl
        · exact Or.inr ⟨_, rfl⟩
      · exact Or.inl rfl
    have k1 := foldl_remove_kstep _ hf sub.written (s, [])
    have hwf1 : Wf (sub.written.foldl (fun (acc : Rebuild w × List (Int × Bool)) (vk : Int × OptWrite w) =>
        if !C.contains vk.1 then
          if vk.2.isMaybe || !L.atLeastOnce then (acc.1, acc.2 ++ [(vk.1, true)])
          else ((removePending acc.1 vk.1).1, acc.2 ++ [(vk.1, false)])
        else acc) (s, [])).1 := by
      suffices H : ∀ (l : List (Int × OptWrite w)) (acc : Rebuild w × List (Int × Bool)), Wf acc.1 →
          Wf (l.foldl (fun (acc : Rebuild w × List (Int × Bool)) (vk : Int × OptWrite w) =>
            if !C.contains vk.1 then
              if vk.2.isMaybe || !L.atLeastOnce then (acc.1, acc.2 ++ [(vk.1, true)])
              else ((removePending acc.1 vk.1).1, acc.2 ++ [(vk.1, false)])
            else acc) acc).1 from H _ _ hwf
      intro l
      induction l with
      | nil => intro acc h; exact h
      | cons x l ih =>
        intro acc h
        simp only [List.foldl_cons]
        apply ih
        rcases hf acc x with e | ⟨k, e⟩
        · rw [e]; exact h
        · rw [e]; exact removePending_wf h k
    have r2 := clobberAll_wk ps _ hr hwf1
    exact ⟨r2.wf, k1.trans r2.k⟩
  · rw [run_pure] at hr
    cases hr
    exact WK.refl hwf

theorem condZero_wk {s s1 : Rebuild w} (h : WK s s1) (sub : Rebuild w) (cond : Int) :
    WK s (condZero s1 sub cond) := by
  unfold condZero
  split
  · split
    · exact ⟨insertWritten_wf h.wf _ _, h.k.trans (insertWritten_kstep_val _ _ _)⟩
    · exact h
  · exact h

/-- The parent's part of `loopOrIf` before the instruction is pushed.  (If the second `emitAll` becomes an
`emitReadAll`, replace `emitAll_wk` by `emitReadAll_wk` in the line marked below.) -/
theorem loopPrep_wk {s : Rebuild w} {ps : List (Rebuild w)} {sub : Rebuild w} {cond : Int}
    {L : OptLoop w} {C : List Int} {os os' : Orders} {r : Rebuild w × Rebuild w × List Int}
    (hr : (loopPrep s ps sub cond L C).run os = .ok (r, os')) (hwf : Wf s) : WK s r.1 := by
  unfold loopPrep at hr
  split at hr
  · rw [run_bind_ok] at hr
    obtain ⟨s1, os1, h1, h2⟩ := hr
    rw [run_pure] at h2
    cases h2
    have r1 := emitAll_wk ps _ h1 hwf
    exact ⟨uncertainShift_wf r1.wf, r1.k.trans (uncertainShift_kstep s1)⟩
  · dsimp only at hr
    rw [run_bind_ok] at hr
    obtain ⟨s1, os1, h1, h2⟩ := hr
    rw [run_bind_ok] at h2
    obtain ⟨s2, os2, h3, h4⟩ := h2
    rw [run_bind_ok] at h4
    obtain ⟨s3, os3, h5, h6⟩ := h4
    rw [run_pure] at h6
    cases h6
    have r1 := emitReadAll_wk ps _ h1 hwf
    have r2 := r1.trans (emitReadAll_wk ps _ h3 r1.wf)   -- (was `emitAll_wk` before the F12 repair)
    have r3 := r2.trans (clobberPhase_wk h5 r2.wf)
    exact condZero_wk r3 _ _

theorem loopTail_kstep (s1 sub : Rebuild w) (cond : Int) (isLoop : Bool) (L : OptLoop w) (hasShift : Bool)
    (clobbered : List Int) : KStep s1 (loopTail s1 sub cond isLoop L hasShift clobbered) := by
  have key : ∀ X : Rebuild w, KStep s1 X →
      KStep s1 ({ (if L.noContinue then { X with noReturn := true } else X) with
        subAnal := (if L.noContinue then { X with noReturn := true } else X).subAnal ++
          [OptAnalysis.mk L hasShift sub.reads clobbered sub.subAnal] } : Rebuild w) := by
    intro X hX
    by_cases hn : L.noContinue = true
    · rw [if_pos hn]; exact (hX.trans (KStep.of_same rfl rfl rfl)).trans (KStep.of_same rfl rfl rfl)
    · rw [if_neg hn]; exact hX.trans (KStep.of_same rfl rfl rfl)
  have hX : KStep s1 (if isLoop then
      insertWritten { s1 with insts := s1.insts ++ [Ir.Instr.loop cond (sub.shift - s1.shift) sub.insts L.atLeastOnce] }
        cond (.known (Expr.val 0#w))
    else { s1 with insts := s1.insts ++ [Ir.Instr.ifnz cond (sub.shift - s1.shift) sub.insts] }) := by
    split
    · exact KStep.trans
        (b := { s1 with insts := s1.insts ++ [Ir.Instr.loop cond (sub.shift - s1.shift) sub.insts L.atLeastOnce] })
        (KStep.of_same rfl rfl rfl) (insertWritten_kstep_val _ _ _)
    · exact KStep.of_same rfl rfl rfl
  exact key _ hX

/-- **`loopOrIf`** keeps `KnownVars` (nothing is assumed about the child's known entries). -/
theorem loopOrIf_wk {s : Rebuild w} {ps : List (Rebuild w)} {sub : Rebuild w} {cond : Int}
    {isLoop : Bool} {L : OptLoop w} {C : List Int} {os os' : Orders} {s' : Rebuild w}
    (hr : (loopOrIf s ps sub cond isLoop L C).run os = .ok (s', os')) (hwf : Wf s) (hc : CanonSt s)
    (hsub : Child sub) : WK s s' := by
  refine ⟨(loopOrIf_canon hr hwf hc hsub).wf, ?_⟩
  obtain ⟨sub1, os1, r, _, h2, rfl⟩ := loopOrIf_run hr
  exact (loopPrep_wk h2 hwf).k.trans (loopTail_kstep _ _ _ _ _ _ _)

/-! ### `loopInsideIf` -/

theorem loopInsideIf_wk {s : Rebuild w} {ps : List (Rebuild w)} {sub : Rebuild w} {cond : Int}
    {L : OptLoop w} {after : List (Int × Expr w)} {C : List Int} {os os' : Orders} {s' : Rebuild w}
    (hr : (loopInsideIf s ps sub cond L after C).run os = .ok (s', os')) (hwf : Wf s) (hc : CanonSt s)
    (hsub : Child sub) (hks : KnownVars sub) : WK s s' := by
  unfold loopInsideIf at hr
  dsimp only at hr
  split at hr
  · rw [run_bind_ok] at hr
    obtain ⟨s1, os1, h1, h2⟩ := hr
    have r1 := inline_wk h1 hwf hc hsub hks
    exact r1.trans (performAll_wk h2 r1.wf)
  · split at hr
    · rw [run_bind_ok] at hr
      obtain ⟨s1, os1, h1, h2⟩ := hr
      have r1 := performAll_wk h1 hwf
      exact r1.trans (performAll_wk h2 r1.wf)
    · rw [run_bind_ok] at hr
      obtain ⟨s1, os1, h1, h2⟩ := hr
      have r1 := loopOrIf_wk h1 hwf hc hsub
      exact r1.trans (performAll_wk h2 r1.wf)

/-! ### `finishLoop` -/

theorem finishMotionK_run_k {s : Rebuild w} {ps : List (Rebuild w)} {sub : Rebuild w} {cond : Int}
    {L : OptLoop w} {k : MidRes w → M (Rebuild w)} {os os' : Orders} {s' : Rebuild w}
    (hr : (finishMotionK s ps sub cond L k).run os = .ok (s', os')) (hsub : Child sub) (hL : LoopCanon L) :
    ∃ (r : MidRes w) (os1 : Orders), Child r.1 ∧ KStep sub r.1 ∧ CanonCalcs r.2.1 ∧ CanonCalcs r.2.2.1 ∧
      (k r).run os1 = .ok (s', os') := by
  unfold finishMotionK at hr
  dsimp only at hr
  rw [run_bind_ok] at hr
  obtain ⟨constant, os1, _, h2⟩ := hr
  rw [run_bind_ok] at h2
  obtain ⟨⟨sub1, B, D, A⟩, os2, h3, h4⟩ := h2
  dsimp only at h4
  rw [run_bind_ok] at h4
  obtain ⟨sub2, os3, h5, h6⟩ := h4
  rw [run_bind_ok] at h6
  obtain ⟨x, os4, h7, h8⟩ := h6
  rw [run_pure] at h7
  cases h7
  have hinv : MotionInv (sub1, B, D, A) ∧ KStep sub sub1 := by
    refine foldlM_inv (fun acc _ => MotionInv acc ∧ KStep sub acc.1) _ (pendingSorted sub sub) ?_
      (b := (sub, [], [], [])) (os := os1) ?_ h3
    · intro acc x os acc' os' _ hi hstep
      refine ⟨motionStepM_canon (fun v l h => linearAmong_canon_get hsub.canon _ _ h) hL hi.1 hstep, ?_⟩
      obtain ⟨sb, B0, D0, A0⟩ := acc
      obtain ⟨_, sub', p, b, d, a, hrm, _, hres⟩ :=
        OptLoop.motionStepM_ok s ps _ _ _ _ L sb B0 D0 A0 x os os' acc' hstep
      subst hres
      have e1 : sub' = (removePending sb x).1 := by rw [hrm]
      show KStep sub sub'
      rw [e1]
      exact hi.2.trans (removePending_kstep sb x)
    · exact ⟨⟨hsub, canonCalcs_nil, canonCalcs_nil, canonCalcs_nil⟩, KStep.refl sub⟩
  obtain ⟨⟨hch, hB, hD, hA⟩, hk⟩ := hinv
  exact ⟨(sub2, B, A, constant), os3, hch.step (performAll_canon h5 hch.wf hch.canon hD),
    hk.trans (performAll_wk h5 hch.wf).k, hB, hA, h8⟩

theorem finishEnd_wk {s : Rebuild w} {ps : List (Rebuild w)} {cond : Int} {L : OptLoop w}
    {r : MidRes w} {os os' : Orders} {s' : Rebuild w}
    (hr : (finishEnd s ps cond L r).run os = .ok (s', os')) (hwf : Wf s) (hc : CanonSt s)
    (hsub : Child r.1) (hks : KnownVars r.1) (hbefore : CanonCalcs r.2.1) (hafter : CanonCalcs r.2.2.1) :
    WK s s' := by
  obtain ⟨sub, before, after, constant⟩ := r
  unfold finishEnd at hr
  dsimp only at hr
  rw [run_bind_ok] at hr
  obtain ⟨s1, os1, h1, h2⟩ := hr
  have c1 := performAll_canon h1 hwf hc hbefore
  have r1 := performAll_wk h1 hwf
  split at h2
  · exact r1.trans (loopInsideIf_wk h2 c1.wf c1.canon hsub.forgetParent hks.forgetParent)
  · rw [run_bind_ok] at h2
    obtain ⟨ifS, os2, h3, h4⟩ := h2
    have c2 := loopInsideIf_canon h3 (wf_new _ _ _ _) (canonSt_new _ _ _ _) hsub.forgetParent hafter
    have hif : Child ifS := (child_new s1.shift (some cond) .unknown none).step c2
    exact r1.trans (loopOrIf_wk h4 c1.wf c1.canon hif)

/-- **`finishLoop`** keeps `KnownVars` of the parent, given a good child with `KnownVars`. -/
theorem finishLoop_wk {s : Rebuild w} {ps : List (Rebuild w)} {sub : Rebuild w} {cond : Int}
    {isLoop : Bool} {os os' : Orders} {s' : Rebuild w}
    (hr : (finishLoop s ps sub cond isLoop).run os = .ok (s', os')) (hwf : Wf s) (hc : CanonSt s)
    (hsub : Child sub) (hks : KnownVars sub) : WK s s' := by
  rw [finishLoop_cut] at hr
  split at hr
  · rw [run_pure] at hr
    cases hr
    exact WK.refl hwf
  · split at hr
    · rw [run_bind_ok] at hr
      obtain ⟨x, os1, h1, h2⟩ := hr
      rw [run_pure] at h1
      cases h1
      exact finishEnd_wk h2 hwf hc hsub hks canonCalcs_nil canonCalcs_nil
    · obtain ⟨r, os1, a, kk, b, c, h2⟩ := finishMotionK_run_k hr hsub
        (fun e he => analyzeLoop_canon s ps sub cond isLoop he)
      exact finishEnd_wk h2 hwf hc a (kk.known hks) b c

/-! ### the full induction -/

/-- The statement for instruction lists. -/
def ListStmtK (l : List (Instr w)) : Prop :=
  ∀ (ps : List (Rebuild w)) (s : Rebuild w) (os os' : Orders) (s' : Rebuild w) (done : Bool),
    (rebuildInsts ps s l).run os = .ok ((s', done), os') → Wf s → CanonSt s → CanonL l → WK s s'

theorem rebuildBlockArm_wk {ps : List (Rebuild w)} {s : Rebuild w} {cond shift : Int}
    {body : List (Instr w)} (isLoop : Bool) (hbody : ListStmtK body) (hcb : CanonL body)
    {os os' : Orders} {s' : Rebuild w}
    (hr : ((do
      let cond := cond + s.shift
      let (s, subAnal) := popSubAnal s
      let sub : Rebuild w := reverseSubBlocks (Rebuild.new s.shift (some cond) .parent subAnal)
      let (sub, completed) ← rebuildInsts (s :: ps) sub body
      let sub := if completed then { sub with shift := sub.shift + shift } else sub
      finishLoop s ps sub cond isLoop) : M (Rebuild w)).run os = .ok (s', os'))
    (hwf : Wf s) (hc : CanonSt s) : WK s s' := by
  have r0 := popSubAnal_cstep hwf hc
  have k0 : KStep s (popSubAnal s).1 := by
    unfold popSubAnal
    split
    · split
      · exact KStep.of_same rfl rfl rfl
      · exact KStep.refl s
    · exact KStep.refl s
  rcases hps : popSubAnal s with ⟨s1, sa⟩
  rw [hps] at hr r0 k0
  dsimp only at hr r0 k0
  rw [run_bind_ok] at hr
  obtain ⟨⟨sub, completed⟩, os1, h1, h2⟩ := hr
  dsimp only at h2
  have hch0 : Child (reverseSubBlocks (Rebuild.new s1.shift (some (cond + s.shift)) .parent sa)) :=
    (child_new _ _ _ _).reverseSubBlocks
  have hk0 : KnownVars (reverseSubBlocks (Rebuild.new s1.shift (some (cond + s.shift)) .parent sa)) := by
    obtain ⟨_, _, _, f4, _, f6, f7, _⟩ :=
      reverseSubBlocks_fields (Rebuild.new s1.shift (some (cond + s.shift)) .parent sa : Rebuild w)
    exact (knownVars_new _ _ _ _).of_same f4 f6 f7
  have hch : Child sub := hch0.step (rebuildInsts_cstep_all body h1 hch0.wf hch0.canon hcb)
  have hks : KnownVars sub := (hbody _ _ _ _ _ _ h1 hch0.wf hch0.canon hcb).known hk0
  have hch' : Child (if completed = true then { sub with shift := sub.shift + shift } else sub) := by
    split
    · exact hch.of_fields rfl rfl rfl rfl
    · exact hch
  have hks' : KnownVars (if completed = true then { sub with shift := sub.shift + shift } else sub) := by
    split
    · exact hks.of_same rfl rfl rfl
    · exact hks
  have r1 := finishLoop_wk h2 r0.wf r0.canon hch' hks'
  exact ⟨r1.wf, k0.trans r1.k⟩

theorem rebuildInstr_wk_of_lists (n : Nat) (IH : ∀ l : List (Instr w), sizeL l ≤ n → ListStmtK l)
    (i : Instr w) (hi : sizeI i ≤ n + 1) {ps : List (Rebuild w)} {s : Rebuild w} {os os' : Orders}
    {s' : Rebuild w} (hr : (rebuildInstr ps s i).run os = .ok (s', os')) (hwf : Wf s) (hc : CanonSt s)
    (hci : CanonL [i]) : WK s s' := by
  cases i with
  | output src => exact rebuildInstr_wk hr hwf rfl
  | input dst => exact rebuildInstr_wk hr hwf rfl
  | «calc» calcs => exact rebuildInstr_wk hr hwf rfl
  | loop c sh body o =>
    rw [sizeI] at hi
    rw [rebuildInstr] at hr
    exact rebuildBlockArm_wk true (IH body (by omega)) (canonL_loop.1 hci) hr hwf hc
  | ifnz c sh body =>
    rw [sizeI] at hi
    rw [rebuildInstr] at hr
    exact rebuildBlockArm_wk false (IH body (by omega)) (canonL_ifnz.1 hci) hr hwf hc

theorem rebuildInsts_wk_size (n : Nat) : ∀ l : List (Instr w), sizeL l ≤ n → ListStmtK l := by
  induction n with
  | zero =>
    intro l hl ps s os os' s' done hr hwf hc _
    cases l with
    | nil =>
      rw [rebuildInsts, run_pure] at hr
      cases hr
      exact WK.refl hwf
    | cons i rest =>
      rw [sizeL] at hl
      have := sizeI_pos i
      omega
  | succ n ih =>
    intro l hl
    induction l with
    | nil =>
      intro ps s os os' s' done hr hwf hc _
      rw [rebuildInsts, run_pure] at hr
      cases hr
      exact WK.refl hwf
    | cons i rest ihl =>
      intro ps s os os' s' done hr hwf hc hcl
      rw [sizeL] at hl
      have hpos := sizeI_pos i
      rw [canonL_cons] at hcl
      rw [rebuildInsts] at hr
      split at hr
      · rw [run_pure] at hr
        cases hr
        exact WK.refl hwf
      · rw [run_bind_ok] at hr
        obtain ⟨s1, os1, h1, h2⟩ := hr
        have hci : CanonL [i] := canonL_single.2 hcl.1
        have c1 := rebuildInstr_cstep_all i h1 hwf hc hci
        have r1 := rebuildInstr_wk_of_lists n ih i (by omega) h1 hwf hc hci
        exact r1.trans (ihl (by omega) ps s1 os1 os' s' done h2 c1.wf c1.canon hcl.2)

/-- **All of `rebuildInsts`**: `Wf s'`, `subShift` is not reset, `reads` and the keys of `written` grow,
`KnownVars s → KnownVars s'`. -/
theorem rebuildInsts_wk_all {ps : List (Rebuild w)} (l : List (Instr w)) {s : Rebuild w}
    {os os' : Orders} {s' : Rebuild w} {done : Bool}
    (hr : (rebuildInsts ps s l).run os = .ok ((s', done), os')) (hwf : Wf s) (hc : CanonSt s)
    (hcl : CanonL l) : WK s s' :=
  rebuildInsts_wk_size (sizeL l) l (Nat.le_refl _) ps s os os' s' done hr hwf hc hcl

/-- **All of `rebuildInstr`** (including `loop` / `ifnz`). -/
theorem rebuildInstr_wk_all {ps : List (Rebuild w)} {s : Rebuild w} (i : Instr w) {os os' : Orders}
    {s' : Rebuild w} (hr : (rebuildInstr ps s i).run os = .ok (s', os')) (hwf : Wf s) (hc : CanonSt s)
    (hci : CanonL [i]) : WK s s' :=
  rebuildInstr_wk_of_lists (sizeI i) (fun l hl => rebuildInsts_wk_size _ l hl) i (by omega) hr hwf hc hci

/-- The requested form. -/
theorem rebuildInsts_knownVars {ps : List (Rebuild w)} (l : List (Instr w)) {s : Rebuild w}
    {os os' : Orders} {s' : Rebuild w} {done : Bool}
    (hr : (rebuildInsts ps s l).run os = .ok ((s', done), os')) (hwf : Wf s) (hc : CanonSt s)
    (hcl : CanonL l) (hk : KnownVars s) : Wf s' ∧ KnownVars s' :=
  ⟨(rebuildInsts_wk_all l hr hwf hc hcl).wf, (rebuildInsts_wk_all l hr hwf hc hcl).known hk⟩

#print axioms rebuildInsts_wk_all
#print axioms inline_wk

end OptProof
end Hpbf
