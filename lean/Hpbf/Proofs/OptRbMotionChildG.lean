/-
Rebuild-round proofs, stage 4: the child state after the loop-motion phase of `finishLoop`, GUARDED version.

The child's `StepAll Gc …` only holds at real heads (guard `Gc`); the heads `τ` of the transformed loop are not real,
they only have a real PARTNER `σ` (`PartnerG`): same pointer / environment / trace, agreeing on the cells `R` the loop
reads.  The facts about the run of `newC` from `τ` are obtained by mirroring the real run from `ρ := σ.mov (-shP)`
along the child's footprint.
-/
import Hpbf.Proofs.OptRbGDefs
import Hpbf.Proofs.OptRbPerfC
import Hpbf.Proofs.OptRbExt
import Hpbf.Proofs.OptRbMotionChild

namespace Hpbf
namespace OptProof
open Opt OptSem Ir

variable {w : Nat}

/-! ### small facts -/

theorem AgreeOff.stEq_right {X : Int → Prop} {a b c : State w} (h : AgreeOff X a b) (he : StEq b c) :
    AgreeOff X a c :=
  ⟨h.1.trans he.1, h.2.1.trans he.2.1, h.2.2.1.trans he.2.2.1, fun v hv => by rw [h.2.2.2 v hv, he.memE]⟩

theorem AgreeOff.trans' {X Y : Int → Prop} {a b c : State w} (h1 : AgreeOff X a b) (h2 : AgreeOff Y b c) :
    AgreeOff (fun v => X v ∨ Y v) a c :=
  ⟨h1.1.trans h2.1, h1.2.1.trans h2.2.1, h1.2.2.1.trans h2.2.2.1,
    fun v hv => (h1.2.2.2 v (fun h => hv (Or.inl h))).trans (h2.2.2.2 v (fun h => hv (Or.inr h)))⟩

/-- A pair related through the fresh child state consists of equal states. -/
theorem relAt_freshU {sh c : Int} {M0 : Mem w} {σE τ : State w}
    (h : RelAt 0 (freshChildU sh c) [] M0 σE τ) : StEq τ σE ∧ M0 = memE σE := by
  have hp := h.inv.pend
  rw [show (freshChildU sh c : Rebuild w).pending = [] from rfl, par_nil] at hp
  have hptr : τ.ptr = σE.ptr := by rw [h.ptr, Int.add_zero]
  refine ⟨⟨hptr, h.env, h.tr, ?_⟩, ?_⟩
  · intro i
    have := congrFun hp (i - σE.ptr)
    have e : σE.ptr + (i - σE.ptr) = i := by omega
    show τ.tape.get i = σE.tape.get i
    have h1 : memS σE τ (i - σE.ptr) = τ.tape.get i := by
      show τ.tape.get (σE.ptr + (i - σE.ptr)) = _
      rw [e]
    have h2 : memE σE (i - σE.ptr) = σE.tape.get i := by
      show σE.tape.get (σE.ptr + (i - σE.ptr)) = _
      rw [e]
    rw [← h1, ← h2]; exact this
  · funext v
    have := h.inv.writ v
    rw [show (freshChildU sh c : Rebuild w).written = [] from rfl] at this
    exact this.symm

/-- `memS_doCalc` for equal states. -/
theorem memS_doCalc0 {σE σS : State w} (he : StEq σS σE) (calcs : List (Int × Expr w)) :
    memS σE (doCalc σS calcs) = assignS 0 calcs (memE σE) := by
  have hmem : memS σE σS = memE σE := by
    funext v
    show σS.tape.get (σE.ptr + v) = σE.tape.get (σE.ptr + v)
    exact he.get_eq _
  have hrel : RelAt 0 (Rebuild.new 0 none .unknown none : Rebuild w) [] (memE σE) σE σS := by
    refine ⟨he.trace_eq, he.env_eq, by rw [he.ptr_eq, Int.add_zero], rfl, ?_, fun v => rfl, ?_⟩
    · show memS σE σS = Mem.par [] (memE σE)
      rw [par_nil]; exact hmem
    · exact pk_fresh_unknown rfl rfl [] _ (fun _ v hv => by cases hv)
  rw [memS_doCalc hrel calcs, hmem]

/-! ### the partner of a head of the transformed loop -/

section Core
variable {Gc : State w → Prop} {shP shC cS : Int} {bodyS newC : List (Instr w)}
  {s : Rebuild w} {ps : List (Rebuild w)} {sub0 sub : Rebuild w} {R : List Int}

/-- The partner `σ` of `τ`, re-coordinated (`ρ = σ.mov (-shP)`), is a valid start state of the real child whose
entry memory is its own memory, and the child's code does not go bad from it. -/
theorem partner_ctx (hall : StepAll Gc shP shC (s :: ps) sub0 sub bodyS newC) (hw0 : sub0.written = [])
    (hentry : ∀ σE σS : State w, SameMem shP σS σE → σS.rd cS ≠ 0#w → Gc σS →
      ∃ M0, RelAt shP sub0 (s :: ps) M0 σE σS)
    {τ : State w} (hp : PartnerG Gc shP cS R τ) :
    ∃ σ, Gc σ ∧ σ.rd cS ≠ 0#w ∧ AgreeOff (fun v => v ∉ R) (σ.mov (-shP)) τ ∧
      RelAt shP sub0 (s :: ps) (memE (σ.mov (-shP))) (σ.mov (-shP)) σ ∧ ¬ Bad newC (σ.mov (-shP)) := by
  obtain ⟨σ, hg, hne, hag⟩ := hp
  obtain ⟨Mρ, hrel⟩ := hentry (σ.mov (-shP)) σ (sameMem_movNeg shP σ) hne hg
  have hM : Mρ = memE (σ.mov (-shP)) := by
    funext v
    have := hrel.inv.writ v
    rw [hw0] at this
    exact this.symm
  subst hM
  exact ⟨σ, hg, hne, hag, hrel, (hall.step.2 _ _ σ hrel hg).2⟩

/-- Mirror of a run of the child's code along the footprint: what the real run says about a run that agrees with it
on the cells in `R`. -/
theorem partner_end (hall : StepAll Gc shP shC (s :: ps) sub0 sub bodyS newC) (hw0 : sub0.written = [])
    (hns : sub.subShift = false) (hkvs : KnownVars sub) (hR : ∀ r ∈ sub.reads, r ∈ R)
    {σ τ y₂ : State w} (hg : Gc σ)
    (hrel : RelAt shP sub0 (s :: ps) (memE (σ.mov (-shP))) (σ.mov (-shP)) σ)
    (hag : AgreeOff (fun v => v ∉ R) (σ.mov (-shP)) τ) (hex : Exec newC τ (.fin y₂)) :
    sub.noReturn = false ∧ y₂.ptr = τ.ptr ∧ WrOk sub (memE τ) (memE y₂) := by
  have hV : ValidG Gc shP sub0 (s :: ps) (σ.mov (-shP)) := ⟨_, σ, hrel, hg⟩
  have hK : ∀ v, (fun v => v ∉ R) v → v ∉ sub.reads := fun v hv hr => hv (hR v hr)
  have hag0 : AgreeOff (Rest (fun v => v ∉ R) sub0) (σ.mov (-shP)) τ :=
    hag.congr (fun v => (rest_fresh (K := fun v => v ∉ R) hw0 v).symm)
  obtain ⟨y, hexy, hyy⟩ := (hall.foot hns _ hK _ τ hV hag0).finR y₂ hex
  obtain ⟨pfr, mfr⟩ := hall.frame hns _ hK _ τ hV hag0 y₂ hex
  obtain ⟨a, _, M0', hr', hk'⟩ := (hall.step.2 _ _ σ hrel hg).1.finR y hexy
  obtain ⟨hM0, _⟩ := hk' hns
  subst hM0
  have hRag : ∀ v, v ∈ R → memE (σ.mov (-shP)) v = memE τ v :=
    fun v hv => hag.2.2.2 v (fun h => h hv)
  refine ⟨hr'.nr, pfr, ?_⟩
  intro v
  split
  · rename_i e hv
    have hdef : DefW sub v := ⟨_, hv, rfl⟩
    have h1 : memE y v = memE y₂ v := hyy.2.2.2 v (fun h => h.2 hdef)
    rw [← h1, hr'.inv.writ.known hv]
    apply ev_congr
    intro x hx
    exact hRag x (hR x (hkvs hns v e hv x hx))
  · trivial
  · rename_i hv
    by_cases hr : v ∈ sub.reads
    · have h1 : memE y v = memE y₂ v := hyy.2.2.2 v (fun h => h.1 (hR v hr))
      rw [← h1, hr'.inv.writ.absent hv]
      exact hRag v (hR v hr)
    · exact mfr v ((mGet_none_iff _ _).1 hv) hr

end Core

/-- A state with forgotten parent only knows (through the "parent" interface) that its condition cell is not
zero. -/
theorem pk_forget_of_cond {sub : Rebuild w} {M0 : Mem w}
    (h : sub.subShift = false → ∀ v, sub.cond = some v → M0 v ≠ 0#w) : PK (forgetParent sub) [] M0 := by
  refine ⟨?_, ?_, ?_⟩
  · intro v c hc
    unfold getParentConstant at hc
    split at hc
    · simp [forgetParent] at hc
    · cases hc
  · intro v hv
    unfold nonZeroParent at hv
    split at hv
    · rename_i hh
      simp only [Bool.and_eq_true, Bool.not_eq_true', beq_iff_eq] at hh
      exact h hh.1 v hh.2
    · split at hv
      · simp [forgetParent] at hv
      · cases hv
  · intro a b _ _ hc
    unfold compareParent at hc
    split at hc
    · rename_i hab
      have : a = b := by simpa using hab
      rw [this]
    · split at hc
      · simp [forgetParent, pure, Except.pure] at hc
      · simp [pure, Except.pure] at hc

/-! ### the new child -/

/-- The child of the transformed loop, guarded: its entry states have a real partner. -/
theorem childPre_motion_g {Gc : State w → Prop} {shP shC cS : Int} {bodyS newC : List (Instr w)}
    {s : Rebuild w} {ps : List (Rebuild w)} {sub0 sub sub1 sub' : Rebuild w} {D : List (Int × Expr w)}
    {R : List Int} {os os' : Orders}
    (hall : StepAll Gc shP shC (s :: ps) sub0 sub bodyS newC)
    (h0 : sub0.insts = []) (hw0 : sub0.written = []) (_hp0 : sub0.pending = [])
    (hns : sub.subShift = false) (hkvs : KnownVars sub)
    (hentry : ∀ σE σS : State w, SameMem shP σS σE → σS.rd cS ≠ 0#w → Gc σS →
      ∃ M0, RelAt shP sub0 (s :: ps) M0 σE σS)
    (hfootNB : FootStepV (fun σ => ¬ Bad newC σ) sub0 sub newC)
    (hR : ∀ r ∈ sub.reads, r ∈ R) (hRc : cS + shP ∈ R)
    (hcf : ∀ v, sub.cond = some v → v = cS + shP)
    (hDask : ∀ vc ∈ D, ∀ x ∈ Expr.variables vc.2, mGet sub.written x = none →
      getParentConstant sub (s :: ps) x = none)
    (hwf1 : Wf sub1) (hsame : SameButPend sub sub1) (hpend1 : sub1.pending = [])
    (h5 : (performAll sub1 (s :: ps) 0 D).run os = .ok (sub', os')) :
    ChildPre (PartnerG Gc shP cS R) 0 0 [] (freshChildU sub0.shift (cS + shP)) (forgetParent sub') (cS + shP)
      (newC ++ [.calc D]) ∧
    Wf sub' ∧ sub'.shift = sub.shift ∧ sub'.subShift = false ∧ sub'.noReturn = sub.noReturn ∧
    (∀ v e, mGet sub'.written v = some (.known e) → ∀ x ∈ Expr.variables e, x ∈ sub'.reads) := by
  obtain ⟨wf', hdr', nr', _, _, _, _, _⟩ := performAll_stepN hwf1 h5
  obtain ⟨_, _, hsame', hspec⟩ := performAll_spec_c hwf1 hpend1 h5
  obtain ⟨_, _, e_shift, e_cond, e_ss, e_nr, e_reads, e_written, e_insts, _⟩ := hsame
  obtain ⟨_, _, _, _, _, _, e_reads', e_written', e_insts', _⟩ := hsame'
  have hsameHdr : SameHdr sub sub1 := ⟨by assumption, by assumption, e_shift, e_cond, e_ss⟩
  have hinstsC : sub.insts = newC := by rw [hall.insts, h0]; rfl
  have hinsts' : (forgetParent sub').insts = newC := by
    show sub'.insts = _
    rw [e_insts', e_insts, hinstsC]
  have hss1 : sub1.subShift = false := by rw [e_ss]; exact hns
  have hss' : sub'.subShift = false := by rw [hdr'.2.2.2.2]; exact hss1
  have hreads' : (forgetParent sub').reads = sub.reads := by
    show sub'.reads = _
    rw [e_reads', e_reads]
  have hwritten' : (forgetParent sub').written = sub.written := by
    show sub'.written = _
    rw [e_written', e_written]
  have hK : ∀ v, (fun v => v ∉ R) v → v ∉ sub.reads := fun v hv hr => hv (hR v hr)
  have hrestF : ∀ (K : Int → Prop) v, Rest K (freshChildU sub0.shift (cS + shP) : Rebuild w) v ↔ K v :=
    fun K v => rest_fresh rfl v
  have hrest0 : ∀ (K : Int → Prop) v, Rest K sub0 v ↔ K v := fun K v => rest_fresh hw0 v
  have hrest' : ∀ (K : Int → Prop) v, Rest K (forgetParent sub') v ↔ Rest K sub v := by
    intro K v; unfold Rest DefW; rw [hwritten']
  -- the partner of a valid state
  have hval : ∀ σ1, ValidG (PartnerG Gc shP cS R) 0 (freshChildU sub0.shift (cS + shP)) [] σ1 →
      ∃ σ, Gc σ ∧ σ.rd cS ≠ 0#w ∧ AgreeOff (fun v => v ∉ R) (σ.mov (-shP)) σ1 ∧
        RelAt shP sub0 (s :: ps) (memE (σ.mov (-shP))) (σ.mov (-shP)) σ ∧ ¬ Bad newC (σ.mov (-shP)) := by
    rintro σ1 ⟨M0, τ, hrel, hp⟩
    obtain ⟨σ, hg, hne, hag, hrelρ, hnb⟩ := partner_ctx hall hw0 hentry hp
    exact ⟨σ, hg, hne, hag.stEq_right (relAt_freshU hrel).1, hrelρ, hnb⟩
  -- the known variables
  have hkv1 : KnownVars sub1 := by
    intro _ v e hv x hx
    rw [e_reads]
    rw [e_written] at hv
    exact hkvs hns v e hv x hx
  have hkv' : KnownVars sub' := (performAll_wk h5 hwf1).known hkv1
  refine ⟨⟨?_, ?_, ?_, ?_, hss', rfl, ?_, ⟨wf'.pend, wf'.writ, wf'.rev, wf'.revOk⟩⟩, wf',
    hdr'.2.2.1.trans e_shift, hss', nr'.trans e_nr, hkv' hss'⟩
  · -- representation
    intro M0 σE τ hrel hp
    obtain ⟨heq, hM0⟩ := relAt_freshU hrel
    subst hM0
    obtain ⟨σ, hg, hne, hag, hrelρ, hnb⟩ := partner_ctx hall hw0 hentry hp
    have hV : ValidG Gc shP sub0 (s :: ps) (σ.mov (-shP)) := ⟨_, σ, hrelρ, hg⟩
    rw [hinsts']
    refine ⟨?_, ?_⟩
    · have hS : Sim (StepQ 0 [] (forgetParent sub') (memE σE) σE) (newC ++ [.calc D]) (newC ++ []) τ σE := by
        refine Sim.append (Sim.of_stEq heq).fin_strengthen ?_
        rintro y₂ yE ⟨hye, hex2, _⟩
        obtain ⟨hnr, hptr, hwr⟩ := partner_end hall hw0 hns hkvs hR hg hrelρ hag hex2
        obtain ⟨d1, d2, d3⟩ := C01Dse.doCalc_meta y₂ D
        have hsrc : Atomic [Instr.calc D] (fun σ : State w => (true, [D].foldl doCalc σ)) := atomic_calcs [D]
        have htgt : Atomic ([] : List (Instr w)) (fun σ : State w => (true, ([] : List (List (Int × Expr w))).foldl doCalc σ)) :=
          atomic_calcs []
        refine Sim.of_atomic hsrc htgt hye.trace_eq.symm rfl ?_ ?_ ?_
        · show yE.trace = (doCalc y₂ D).trace
          rw [d3]; exact hye.trace_eq.symm
        · show yE.env = (doCalc y₂ D).env
          rw [d2]; exact hye.env_eq.symm
        · intro _
          show StepQ 0 [] (forgetParent sub') (memE σE) σE (doCalc y₂ D) yE
          have hwr1 : WrOk sub1 (memE σE) (memE yE) := by
            rw [← heq.memE, ← hye.memE]
            exact hwr.of_written_eq e_written
          have hpkc : PKc (fun x => ∃ vc ∈ D, x ∈ Expr.variables vc.2) sub1 (s :: ps) (memE σE) := by
            rintro v ⟨vc, hvc, hx⟩ hv c hc
            rw [getParentConstant_congr hsameHdr, hDask vc hvc v hx (by rw [← e_written]; exact hv)] at hc
            cases hc
          obtain ⟨hpar, hwr'⟩ := hspec _ (memE σE) (memE yE) (fun vc hvc x hx => ⟨vc, hvc, hx⟩) hwr1 hpkc
          refine ⟨memE σE, ⟨?_, ?_, ?_, ?_, ?_, hwr', ?_⟩, fun _ => ⟨rfl, ?_⟩⟩
          · rw [d3]; exact hye.trace_eq
          · rw [d2]; exact hye.env_eq
          · rw [d1, Int.add_zero]; exact hye.ptr_eq
          · exact nr'.trans (e_nr.trans hnr)
          · show memS yE (doCalc y₂ D) = Mem.par sub'.pending (memE yE)
            rw [memS_doCalc0 hye D, hpar]
          · apply pk_forget_of_cond
            intro _ v hv
            have hv' : sub.cond = some v := by rw [← e_cond, ← hdr'.2.2.2.1]; exact hv
            rw [hcf v hv', ← heq.memE, ← hag.2.2.2 (cS + shP) (fun h => h hRc)]
            have e1 : memE (σ.mov (-shP)) (cS + shP) = σ.rd cS := by
              show σ.tape.get (σ.ptr + -shP + (cS + shP)) = σ.tape.get (σ.ptr + cS)
              have e : σ.ptr + -shP + (cS + shP) = σ.ptr + cS := by omega
              rw [e]
            rw [e1]; exact hne
          · exact hye.ptr_eq.symm.trans (hptr.trans heq.ptr_eq)
      rw [List.append_nil] at hS
      exact hS
    · intro hb
      exact hnb (hall.bad hns _ hK _ σE hV ((hag.stEq_right heq).congr (fun v => (hrest0 (fun v => v ∉ R) v).symm)) hb)
  · -- read footprint
    rw [hinsts']
    intro _ K' hK' σ1 σ2 v1 hag'
    obtain ⟨σ, hg, _, hag, hrelρ, hnb⟩ := hval σ1 v1
    have hV : ValidG Gc shP sub0 (s :: ps) (σ.mov (-shP)) := ⟨_, σ, hrelρ, hg⟩
    have hnb1 : ¬ Bad newC σ1 :=
      fun hb => hnb (hall.bad hns _ hK _ σ1 hV (hag.congr (fun v => (hrest0 (fun v => v ∉ R) v).symm)) hb)
    refine (hfootNB hns K' (fun v hv => by rw [← hreads']; exact hK' v hv) σ1 σ2 hnb1
      (hag'.congr (fun v => (hrestF K' v).trans (hrest0 K' v).symm))).mono ?_
    intro a b hab
    exact hab.congr (fun v => (hrest' K' v).symm)
  · -- mirrored badness (void: the valid run's partner does not go bad)
    rw [hinsts']
    intro _ K' hK' σ1 σ2 v1 hag' hb
    obtain ⟨σ, hg, _, hag, hrelρ, hnb⟩ := hval σ1 v1
    have hV : ValidG Gc shP sub0 (s :: ps) (σ.mov (-shP)) := ⟨_, σ, hrelρ, hg⟩
    have hag2 : AgreeOff (fun v => v ∉ R ∨ K' v) (σ.mov (-shP)) σ2 := hag.trans' (hag'.congr (hrestF K'))
    have hK2 : ∀ v, (fun v => v ∉ R ∨ K' v) v → v ∉ sub.reads := by
      rintro v (h | h)
      · exact hK v h
      · rw [← hreads']; exact hK' v h
    exact absurd (hall.bad hns _ hK2 _ σ2 hV (hag2.congr (fun v => (hrest0 (fun v => v ∉ R ∨ K' v) v).symm)) hb) hnb
  · -- write frame
    rw [hinsts']
    intro _ K' hK' σ1 σ2 v1 hag' b hex
    obtain ⟨σ, hg, _, hag, hrelρ, _⟩ := hval σ1 v1
    have hV : ValidG Gc shP sub0 (s :: ps) (σ.mov (-shP)) := ⟨_, σ, hrelρ, hg⟩
    have hag2 : AgreeOff (fun v => v ∉ R ∨ K' v) (σ.mov (-shP)) σ2 := hag.trans' (hag'.congr (hrestF K'))
    have hK2 : ∀ v, (fun v => v ∉ R ∨ K' v) v → v ∉ sub.reads := by
      rintro v (h | h)
      · exact hK v h
      · rw [← hreads']; exact hK' v h
    obtain ⟨p, m⟩ := hall.frame hns _ hK2 _ σ2 hV (hag2.congr (fun v => (hrest0 (fun v => v ∉ R ∨ K' v) v).symm)) b hex
    exact ⟨p, fun v hv1 hv2 => m v (by rw [← hwritten']; exact hv1) (by rw [← hreads']; exact hv2)⟩
  · -- entry
    intro σE τ hm hne _
    refine ⟨memE σE, hm.1, hm.2.1, hm.2.2.1, rfl, ?_, fun v => rfl, ?_⟩
    · show memS σE τ = Mem.par [] (memE σE)
      rw [par_nil]; exact hm.2.2.2
    · refine pk_fresh_unknown rfl rfl [] _ ?_
      intro _ v hv
      have hv' : v = cS + shP := by
        have h' : (freshChildU sub0.shift (cS + shP) : Rebuild w).cond = some (cS + shP) := rfl
        rw [h'] at hv; cases hv; rfl
      have := sameMem_rd (cS := cS + shP) hm
      rw [Int.add_zero] at this
      rw [hv', ← this]; exact hne

end OptProof
end Hpbf

#print axioms Hpbf.OptProof.childPre_motion_g
