/-
Rebuild-round proofs, stage 4: the hypothesis `C01Dse.AnalSound` of the dead-store-elimination theorem holds for
the output of EVERY round whose `once` marks are justified (`OnceOk`), in particular — unconditionally — for the
output of the first round.  Hence "first round; dead store elimination" preserves the observable behaviour, and
the correctness of `Program::optimize` at every level is reduced to ONE obligation about the later rounds.

Ingredients: `optimizeOnce_shape` (rb-canon), `atLeastFact_of_shape`/`atMostFact_of_shape` and
`readsFact_of_rdOk` (rb-adeq), `optimizeOnce_rdOk` (rb-foot).
-/
import Hpbf.Proofs.OptRbRounds
import Hpbf.Proofs.OptRbRd5
import Hpbf.Proofs.OptRbRdAdeq

namespace Hpbf
namespace OptProof
open Opt OptSem Ir

variable {w : Nat}

/-- **The analysis recorded by a round is sound for the program it emits** (all four clauses of
`C01Dse.AnalSound`), for every previous analysis and every oracle, as soon as the `once` marks of the emitted
program are justified on the run from `env`. -/
theorem optimizeOnce_analSound {b : Block w} {prevAnal : OptAnalysis w} {os os' : Orders} {b' : Block w}
    {anal' : OptAnalysis w} (hr : (optimizeOnce b prevAnal).run os = .ok ((b', anal'), os'))
    (hcl : CanonL b.insts) {env : Env} (ho : C02Emit.OnceOk b' env) :
    C01Dse.AnalSound b' anal'.toDAnal env :=
  ⟨optimizeOnce_shiftFact hr hcl, optimizeOnce_atLeastFact hr hcl ho, optimizeOnce_atMostFact hr hcl env,
   optimizeOnce_readsFact hr hcl (optimizeOnce_rdOk hr hcl) ho⟩

/-- Dead store elimination after ANY round preserves the observable behaviour, given `OnceOk` of the round's
output. -/
theorem round_dse_behEq {b : Block w} {prevAnal : OptAnalysis w} {os os' : Orders} {b1 b2 : Block w}
    {anal1 : OptAnalysis w} (hr : (optimizeOnce b prevAnal).run os = .ok ((b1, anal1), os'))
    (hcl : CanonL b.insts) {env : Env} (ho : C02Emit.OnceOk b1 env)
    (hd : deadStoreElimination b1 anal1 = .ok b2) : BehEq b1 b2 env :=
  behEq_of_eliminate (deadStoreElimination_ok hd) (optimizeOnce_noDupTargets hr hcl)
    (optimizeOnce_analSound hr hcl ho)

/-- The first round: no hypothesis left. -/
theorem analSound_round1 (hw : 0 < w) {b : Block w} (hcl : CanonL b.insts) {os os' : Orders}
    {b1 : Block w} {anal1 : OptAnalysis w}
    (hr : (optimizeOnce b (topAnalysis [] [])).run os = .ok ((b1, anal1), os')) (env : Env) :
    C01Dse.AnalSound b1 anal1.toDAnal env :=
  optimizeOnce_analSound hr hcl (optimizeOnce_onceOk_l1 hw hcl hr env)

/-- **First round, then dead store elimination: same observable behaviour** (every oracle, every environment). -/
theorem round1_dse_behEq (hw : 0 < w) {b : Block w} (hcl : CanonL b.insts) {os os' : Orders}
    {b1 b2 : Block w} {anal1 : OptAnalysis w}
    (hr : (optimizeOnce b (topAnalysis [] [])).run os = .ok ((b1, anal1), os'))
    (hd : deadStoreElimination b1 anal1 = .ok b2) (env : Env) : BehEq b b2 env :=
  (optimizeOnce_preserves_l1 hw hcl hr env).trans
    (round_dse_behEq hr hcl (optimizeOnce_onceOk_l1 hw hcl hr env) hd)

/-! ### all levels, reduced to the later rounds -/

/-- The state of the loop of `optimize` after a round: `(prog, anal)` is the output of a round on a canonical
program, and the `once` marks of `prog` are justified. -/
def AfterRound (env : Env) (prog : Block w) (anal : OptAnalysis w) : Prop :=
  C02Emit.OnceOk prog env ∧
  ∃ (b : Block w) (prev : OptAnalysis w) (os os' : Orders), CanonL b.insts ∧
    (optimizeOnce b prev).run os = .ok ((prog, anal), os')

/-- The state after dead store elimination: the input of a later round. -/
def AfterDse (env : Env) (prog1 : Block w) (anal : OptAnalysis w) : Prop :=
  ∃ prog, AfterRound env prog anal ∧ deadStoreElimination prog anal = .ok prog1

/-- The ONE remaining obligation: a round that uses the analysis of the previous round (on the dead-store-eliminated
output of that round) preserves the observable behaviour, justifies its `once` marks, and works on a canonical
program. -/
def LaterRoundsOk (w : Nat) (env : Env) : Prop :=
  ∀ (prog1 : Block w) (anal : OptAnalysis w) (prog2 : Block w) (anal2 : OptAnalysis w) (os os2 : Orders),
    AfterDse env prog1 anal → (optimizeOnce prog1 anal).run os = .ok ((prog2, anal2), os2) →
    CanonL prog1.insts ∧ BehEq prog1 prog2 env ∧ C02Emit.OnceOk prog2 env

/-- **`Program::optimize` at every level**, given `LaterRoundsOk`. Everything else (first round, every dead store
elimination including the soundness of the recorded analyses) is proved. -/
theorem optimize_preserves_of_laterRounds (hw : 0 < w) {env : Env} (hL : LaterRoundsOk w env)
    {b b' : Block w} (hcl : CanonL b.insts) {level : Nat} {orders : Orders}
    (h : Opt.optimize b level orders = .ok b') : BehEq b b' env := by
  refine optimize_preserves_of_steps hw (P := AfterRound env) (P1 := AfterDse env) ?_ ?_ ?_ hcl h
  · intro b b1 anal1 os os1 hc hr
    exact ⟨optimizeOnce_onceOk_l1 hw hc hr env, b, _, os, os1, hc, hr⟩
  · rintro prog anal prog1 ⟨ho, b0, prev, os, os', hc, hr⟩ hd
    exact ⟨round_dse_behEq hr hc ho hd, prog, ⟨ho, b0, prev, os, os', hc, hr⟩, hd⟩
  · intro prog1 anal prog2 anal2 os os2 hp hr
    obtain ⟨hc, hb, ho⟩ := hL prog1 anal prog2 anal2 os os2 hp hr
    exact ⟨hb, ho, prog1, anal, os, os2, hc, hr⟩

end OptProof
end Hpbf

#print axioms Hpbf.OptProof.optimizeOnce_analSound
#print axioms Hpbf.OptProof.round1_dse_behEq
#print axioms Hpbf.OptProof.optimize_preserves_of_laterRounds
