/-
C02 (`allocate_temps`), part 24: the precondition `AllocPre` holds for every state produced by the generator
(`emitState`) followed by `deadStoreElim`, without further hypotheses.
-/
import Hpbf.Proofs.C02AllocEmitX
set_option linter.unusedSimpArgs false

namespace Hpbf
namespace C02
namespace AEmit

open Bc BcWf BcGen C11 C02Emit

variable {w : Nat}

/-- The three facts about generator output that are not local to an instruction. -/
theorem emitRest_of_emit {prog : Ir.Block w} {fuse : Bool} {s : St w} (h : emitState prog fuse = .ok s) :
    EmitRest s := by
  refine ⟨?_, fun t j ins ht hj => ptr_of_emit h t j ins ht hj, fun i op t s0 s1 f m src hc =>
    region_of_emit h i op t s0 s1 f m src hc⟩
  intro j ins off k' hj hb hk t ht
  cases ins with
  | brz cnd o =>
    simp only [branchOff?, Option.some.injEq] at hb
    subst hb
    exact flowFwd_of_emit h j cnd o k' hj hk t ht
  | brnz cnd o =>
    simp only [branchOff?, Option.some.injEq] at hb
    subst hb
    exact flowBack_of_emit h j cnd o k' hj hk t ht
  | _ => simp [branchOff?] at hb

/-- **`AllocPre` for generator output.** -/
theorem allocPre_of_emitState {prog : Ir.Block w} {fuse : Bool} {s : St w} (h : emitState prog fuse = .ok s) :
    AllocPre s :=
  allocPre_of_linv (linv_of_emit h) (emitRest_of_emit h)

/-- **`AllocPre` for the input of `allocate_temps` in the pipeline** (generator, then `dead_store_elim`). -/
theorem allocPre_of_emit {prog : Ir.Block w} {fuse : Bool} {s1 s2 : St w} (h1 : emitState prog fuse = .ok s1)
    (h2 : deadStoreElim s1 = .ok s2) : AllocPre s2 :=
  allocPre_of_emitRest h1 h2 (emitRest_of_emit h1)

/-- **`allocate_temps` in the pipeline**: on the output of the generator followed by `dead_store_elim` the pass
keeps the number of instructions, fills `live`, keeps `NoMemZero` and `TargetsOk`, and preserves behaviour. -/
theorem allocateTemps_of_emit {prog : Ir.Block w} {fuse : Bool} {numRegs : Nat} {s1 s2 s3 : St w}
    (h1 : emitState prog fuse = .ok s1) (h2 : deadStoreElim s1 = .ok s2)
    (h3 : allocateTemps numRegs s2 = .ok s3) :
    s3.insts.size = s2.insts.size ∧ s3.live.size = s3.insts.size ∧ (∀ ins ∈ s3.insts, NoMemZero ins) ∧
    (TargetsOk s2.insts → TargetsOk s3.insts) ∧
    ∀ (t t' : Nat) (mn mx : Int), BehEq (progOf s2 t mn mx) (progOf s3 t' mn mx) :=
  allocateTemps_of_emitRest h1 h2 h3 (emitRest_of_emit h1)

end AEmit
end C02
end Hpbf
