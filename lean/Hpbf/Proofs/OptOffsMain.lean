/-
Offsets of optimized IR, part 10: `rebuild_block`, `optimize_once`, dead store elimination, `optimize`.

The induction over the input: the state `s` (with `Inv R g0 s`) is rebuilding an input list `l` whose
mentions respect the bound from INPUT drift `gi` (`OkL R gi l`). The link between the two drifts is the slack

      g0 + driftL s.insts + W  ≤  gi        with   |s.shift| ≤ W,

i.e. the output is behind the input by at least the shift absorbed so far. An input offset `o` becomes the
name `o + s.shift`, and `g_out + |o + s.shift| ≤ g_out + W + |o| ≤ gi + |o| ≤ R`. After the list has been
processed (`s'`), `g0 + driftL s'.insts + W + |s'.shift - s.shift| ≤ gi + driftL l`.
-/
import Hpbf.Proofs.OptOffsFinish
import Hpbf.Proofs.C01DseStruct

namespace Hpbf.OptOffs
open Hpbf Opt Ir
open Hpbf.OptLoop (VarsIn varsIn_iff)

variable {w : Nat}
set_option linter.unusedSimpArgs false

/-! ### small steps -/

theorem nb_shift {R g W gi : Nat} {o σ : Int} (ho : NB R gi o) (hσ : σ.natAbs ≤ W) (hg : g + W ≤ gi) :
    NB R g (o + σ) := by
  unfold NB at *; omega

theorem nb_shift' {R g W gi : Nat} {o σ : Int} (ho : NB R gi o) (hσ : σ.natAbs ≤ W) (hg : g + W ≤ gi) :
    NB R g (σ + o) := by
  unfold NB at *; omega

/-- Appending one instruction without drift. -/
theorem inv_push {R g0 : Nat} {s s' : Rebuild w} (hi : Inv R g0 s) (i : Instr w)
    (hok : OkI R (g0 + driftL s.insts) i) (hd : driftI i = 0)
    (h1 : s'.insts = s.insts ++ [i]) (h2 : s'.pending = s.pending) (h3 : s'.written = s.written)
    (h4 : s'.subShift = s.subShift) : Inv R g0 s' ∧ driftL s'.insts = driftL s.insts := by
  refine ⟨inv_append hi [i] (by rw [okL_cons]; exact ⟨hok, okL_nil _ _⟩) (Or.inr ?_) h1 h2 h3 h4, ?_⟩
  · simp [driftL, hd]
  · rw [h1, driftL_snoc, hd]; rfl

theorem popSubAnal_fields (s : Rebuild w) :
    (popSubAnal s).1.insts = s.insts ∧ (popSubAnal s).1.pending = s.pending ∧
    (popSubAnal s).1.written = s.written ∧ (popSubAnal s).1.subShift = s.subShift ∧
    (popSubAnal s).1.shift = s.shift := by
  unfold popSubAnal
  split
  · split <;> exact ⟨rfl, rfl, rfl, rfl, rfl⟩
  · exact ⟨rfl, rfl, rfl, rfl, rfl⟩

theorem reverseSubBlocks_fields (s : Rebuild w) :
    (reverseSubBlocks s).insts = s.insts ∧ (reverseSubBlocks s).pending = s.pending ∧
    (reverseSubBlocks s).written = s.written ∧ (reverseSubBlocks s).subShift = s.subShift ∧
    (reverseSubBlocks s).shift = s.shift := by
  unfold reverseSubBlocks
  split <;> exact ⟨rfl, rfl, rfl, rfl, rfl⟩

theorem retargetOutput_nb {R g0 : Nat} {s : Rebuild w} (hi : Inv R g0 s) {var src : Int}
    (hv : NB R (g0 + driftL s.insts) var) (h : retargetOutput s var = some src) :
    NB R (g0 + driftL s.insts) src := by
  unfold retargetOutput at h
  split at h
  · rename_i expr hg
    have he := Expr.identity_some h
    have := (hi.pend _ (mem_of_mGet hg)).2
    rw [he] at this
    exact this _ List.mem_cons_self src List.mem_cons_self
  · simp only [Option.some.injEq] at h
    rw [← h]; exact hv

/-! ### the loop of `rebuild_block` -/

/-- The common part of the `Loop` and `If` arms. -/
theorem block_arm {R g0 W gi : Nat} {s : Rebuild w} (ps : List (Rebuild w)) {cond shift : Int}
    {body : List (Instr w)} (isLoop : Bool)
    (ih : ∀ (ps : List (Rebuild w)) (s : Rebuild w) (os os' : Orders) (s' : Rebuild w) (c : Bool)
      (R g0 W gi : Nat), Inv R g0 s → s.shift.natAbs ≤ W → g0 + driftL s.insts + W ≤ gi → OkL R gi body →
      (rebuildInsts ps s body).run os = .ok ((s', c), os') →
      Inv R g0 s' ∧ g0 + driftL s'.insts + W + (s'.shift - s.shift).natAbs ≤ gi + driftL body)
    (hi : Inv R g0 s) (hW : s.shift.natAbs ≤ W) (hg : g0 + driftL s.insts + W ≤ gi)
    (hc : NB R gi cond) (hb : OkL R gi body) {os os' : Orders} {s' : Rebuild w}
    (h : (match popSubAnal s with
      | (s_1, subAnal) =>
        have sub := reverseSubBlocks (Rebuild.new s_1.shift (some (cond + s.shift)) OptParent.parent subAnal);
        (do
          let __x ← rebuildInsts (s_1 :: ps) sub body
          match __x with
            | (sub, completed) =>
              have sub := if completed = true then { sub with shift := sub.shift + shift } else sub;
              finishLoop s_1 ps sub (cond + s.shift) isLoop : M (Rebuild w))).run os = .ok (s', os')) :
    Inv R g0 s' ∧ g0 + driftL s'.insts + W + (s'.shift - s.shift).natAbs
      ≤ gi + (driftL body + shift.natAbs) := by
  obtain ⟨p1, p2, p3, p4, p5⟩ := popSubAnal_fields s
  split at h
  rename_i s1 subAnal heq
  rw [heq] at p1 p2 p3 p4 p5
  simp only at p1 p2 p3 p4 p5 h
  have hi1 : Inv R g0 s1 := hi.of_eq p1 p2 p3 p4
  have hd1 : driftL s1.insts = driftL s.insts := by rw [p1]
  rw [run_bind_ok] at h
  obtain ⟨⟨sub1, completed⟩, os1, h1, h2⟩ := h
  simp only at h2
  obtain ⟨q1, q2, q3, q4, q5⟩ := reverseSubBlocks_fields
    (Rebuild.new s1.shift (some (cond + s.shift)) OptParent.parent subAnal : Rebuild w)
  have hi0 : Inv R (g0 + driftL s.insts)
      (reverseSubBlocks (Rebuild.new s1.shift (some (cond + s.shift)) OptParent.parent subAnal)) :=
    (inv_new R _ s1.shift (some (cond + s.shift)) OptParent.parent subAnal).of_eq q1 q2 q3 q4
  have hsh0 : (reverseSubBlocks (Rebuild.new s1.shift (some (cond + s.shift)) OptParent.parent subAnal)).shift
      = s.shift := by rw [q5]; exact p5
  have hdr0 : driftL (reverseSubBlocks
      (Rebuild.new s1.shift (some (cond + s.shift)) OptParent.parent subAnal)).insts = 0 := by rw [q1]; rfl
  obtain ⟨a, b⟩ := ih _ _ _ _ _ _ R (g0 + driftL s.insts) W gi hi0 (by rw [hsh0]; exact hW)
    (by rw [hdr0]; omega) hb h1
  rw [hsh0] at b
  have hi2 : Inv R (g0 + driftL s1.insts)
      (if completed = true then { sub1 with shift := sub1.shift + shift } else sub1) := by
    rw [hd1]
    split
    · exact a.of_eq rfl rfl rfl rfl
    · exact a
  have hd2 : driftL (if completed = true then { sub1 with shift := sub1.shift + shift } else sub1).insts
      = driftL sub1.insts := by split <;> rfl
  have hs2 : ((if completed = true then { sub1 with shift := sub1.shift + shift } else sub1).shift
      - s.shift).natAbs ≤ (sub1.shift - s.shift).natAbs + shift.natAbs := by
    split
    · show (sub1.shift + shift - s.shift).natAbs ≤ _
      omega
    · omega
  have hfin := finishLoop_step ps isLoop hi1 hi2 (by rw [hd1]; exact nb_shift hc hW hg) h2
  refine ⟨hfin.inv, ?_⟩
  have hsl := hfin.slack
  rw [hd2, hd1, p5] at hsl
  omega

mutual
theorem rebuildInstr_step : ∀ (i : Instr w) (ps : List (Rebuild w)) (s : Rebuild w) (os os' : Orders)
    (s' : Rebuild w) (R g0 W gi : Nat), Inv R g0 s → s.shift.natAbs ≤ W → g0 + driftL s.insts + W ≤ gi →
    OkI R gi i → (rebuildInstr ps s i).run os = .ok (s', os') →
    Inv R g0 s' ∧ g0 + driftL s'.insts + W + (s'.shift - s.shift).natAbs ≤ gi + driftI i
  | .output src, ps, s, os, os', s', R, g0, W, gi, hi, hW, hg, hok, h => by
    rw [okI_output] at hok
    have hv : NB R (g0 + driftL s.insts) (src + s.shift) := nb_shift hok hW hg
    rw [rebuildInstr] at h
    split at h
    · rename_i src' hre
      simp only [run_pure, Except.ok.injEq, Prod.mk.injEq] at h
      obtain ⟨rfl, _⟩ := h
      have hp := read_pstep s src'
      have hi1 := hp.inv hi
      obtain ⟨a, b⟩ := inv_push (s' := { (Opt.read s src') with insts := (Opt.read s src').insts ++
          [Instr.output src'] }) hi1 (Instr.output src')
        (okI_output.2 (by rw [hp.insts]; exact retargetOutput_nb hi hv hre)) rfl rfl rfl rfl rfl
      refine ⟨a, ?_⟩
      rw [b, hp.insts]
      show _ + ((Opt.read s src').shift - s.shift).natAbs ≤ _
      rw [hp.shift]; simp only [driftI]; omega
    · rw [run_bind_ok] at h
      obtain ⟨s1, os1, h1, h2⟩ := h
      simp only [run_pure, Except.ok.injEq, Prod.mk.injEq] at h2
      obtain ⟨rfl, _⟩ := h2
      have he := (emit_step ps hi _ h1).1
      have hp := read_pstep s1 (src + s.shift)
      have hi1 := hp.inv he.inv
      obtain ⟨a, b⟩ := inv_push (s' := { (Opt.read s1 (src + s.shift)) with
          insts := (Opt.read s1 (src + s.shift)).insts ++ [Instr.output (src + s.shift)] })
        hi1 (Instr.output (src + s.shift))
        (okI_output.2 (by rw [hp.insts, he.keep.drift]; exact hv)) rfl rfl rfl rfl rfl
      refine ⟨a, ?_⟩
      rw [b, hp.insts, he.keep.drift]
      show _ + ((Opt.read s1 (src + s.shift)).shift - s.shift).natAbs ≤ _
      rw [hp.shift, he.keep.shift]; simp only [driftI]; omega
  | .input dst, ps, s, os, os', s', R, g0, W, gi, hi, hW, hg, hok, h => by
    rw [okI_input] at hok
    have hv : NB R (g0 + driftL s.insts) (dst + s.shift) := nb_shift hok hW hg
    rw [rebuildInstr, run_bind_ok] at h
    obtain ⟨s1, os1, h1, h2⟩ := h
    simp only [run_pure, Except.ok.injEq, Prod.mk.injEq] at h2
    obtain ⟨rfl, _⟩ := h2
    have he := clobber_step ps hi _ false h1
    obtain ⟨a, b⟩ := inv_push (s' := { s1 with insts := s1.insts ++ [Instr.input (dst + s.shift)] })
      he.inv (Instr.input (dst + s.shift))
      (okI_input.2 (by rw [he.keep.drift]; exact hv)) rfl rfl rfl rfl rfl
    refine ⟨a, ?_⟩
    rw [b, he.keep.drift]
    show _ + (s1.shift - s.shift).natAbs ≤ _
    rw [he.keep.shift]; simp only [driftI]; omega
  | .calc calcs, ps, s, os, os', s', R, g0, W, gi, hi, hW, hg, hok, h => by
    rw [okI_calc] at hok
    rw [rebuildInstr] at h
    have hp := performAll_step ps hi (shift := s.shift) (calcs := calcs) (by
      intro vc hvc
      obtain ⟨a, b⟩ := hok vc hvc
      exact ⟨nb_shift' a hW hg, varsIn_iff.2 (fun x hx => nb_shift (b x hx) hW hg)⟩) h
    refine ⟨hp.inv, ?_⟩
    rw [hp.keep.drift, hp.keep.shift]; simp only [driftI]; omega
  | .loop cond shift body once, ps, s, os, os', s', R, g0, W, gi, hi, hW, hg, hok, h => by
    rw [okI_loop] at hok
    rw [rebuildInstr] at h
    simp only [driftI]
    exact block_arm ps true (fun ps s os os' s' c R g0 W gi => rebuildInsts_step body ps s os os' s' c R g0 W gi)
      hi hW hg hok.1 hok.2 h
  | .ifnz cond shift body, ps, s, os, os', s', R, g0, W, gi, hi, hW, hg, hok, h => by
    rw [okI_ifnz] at hok
    rw [rebuildInstr] at h
    simp only [driftI]
    exact block_arm ps false (fun ps s os os' s' c R g0 W gi => rebuildInsts_step body ps s os os' s' c R g0 W gi)
      hi hW hg hok.1 hok.2 h
theorem rebuildInsts_step : ∀ (l : List (Instr w)) (ps : List (Rebuild w)) (s : Rebuild w) (os os' : Orders)
    (s' : Rebuild w) (c : Bool) (R g0 W gi : Nat), Inv R g0 s → s.shift.natAbs ≤ W →
    g0 + driftL s.insts + W ≤ gi → OkL R gi l → (rebuildInsts ps s l).run os = .ok ((s', c), os') →
    Inv R g0 s' ∧ g0 + driftL s'.insts + W + (s'.shift - s.shift).natAbs ≤ gi + driftL l
  | [], ps, s, os, os', s', c, R, g0, W, gi, hi, hW, hg, hok, h => by
    rw [rebuildInsts] at h
    simp only [run_pure, Except.ok.injEq, Prod.mk.injEq] at h
    obtain ⟨⟨rfl, _⟩, _⟩ := h
    exact ⟨hi, by simp only [driftL]; omega⟩
  | i :: r, ps, s, os, os', s', c, R, g0, W, gi, hi, hW, hg, hok, h => by
    rw [okL_cons] at hok
    rw [rebuildInsts] at h
    split at h
    · simp only [run_pure, Except.ok.injEq, Prod.mk.injEq] at h
      obtain ⟨⟨rfl, _⟩, _⟩ := h
      exact ⟨hi, by omega⟩
    · rw [run_bind_ok] at h
      obtain ⟨s1, os1, h1, h2⟩ := h
      obtain ⟨a, b⟩ := rebuildInstr_step i ps s os os1 s1 R g0 W gi hi hW hg hok.1 h1
      obtain ⟨x, y⟩ := rebuildInsts_step r ps s1 os1 os' s' c R g0 (W + (s1.shift - s.shift).natAbs)
        (gi + driftI i) a (by omega) (by omega) hok.2 h2
      refine ⟨x, ?_⟩
      simp only [driftL]
      omega
end

/-! ### `optimizeOnce`, dead store elimination, `optimize` -/

theorem optimizeOnce_ok {R : Nat} {b b' : Block w} {anal anal' : OptAnalysis w} {os os' : Orders}
    (hb : OkL R 0 b.insts) (h : (optimizeOnce b anal).run os = .ok ((b', anal'), os')) :
    OkL R 0 b'.insts := by
  unfold optimizeOnce at h
  rw [run_bind_ok] at h
  obtain ⟨state, os1, h1, h2⟩ := h
  simp only [run_pure, Except.ok.injEq, Prod.mk.injEq] at h2
  obtain ⟨⟨rfl, _⟩, _⟩ := h2
  unfold rebuildBlock at h1
  rw [run_bind_ok] at h1
  obtain ⟨⟨s1, completed⟩, os2, h3, h4⟩ := h1
  simp only [run_pure, Except.ok.injEq, Prod.mk.injEq] at h4
  obtain ⟨rfl, _⟩ := h4
  obtain ⟨q1, q2, q3, q4, q5⟩ := reverseSubBlocks_fields
    (Rebuild.new 0 none OptParent.zero (some anal) : Rebuild w)
  have hi0 : Inv R 0 (reverseSubBlocks (Rebuild.new 0 none OptParent.zero (some anal) : Rebuild w)) :=
    (inv_new R 0 0 none OptParent.zero (some anal)).of_eq q1 q2 q3 q4
  obtain ⟨a, _⟩ := rebuildInsts_step b.insts [] _ os os2 s1 completed R 0 0 0 hi0
    (by rw [q5]; rfl) (by rw [q1]; rfl) hb h3
  show OkL R 0 (if completed = true then { s1 with shift := s1.shift + b.shift } else s1).insts
  split
  · exact a.insts
  · exact a.insts

mutual
theorem subI_ok : ∀ (i i' : Instr w) (R g : Nat), C01Dse.SubI i i' →
    driftI i' = driftI i ∧ (OkI R g i → OkI R g i')
  | .output _, _, _, _, h => by cases h; exact ⟨rfl, id⟩
  | .input _, _, _, _, h => by cases h; exact ⟨rfl, id⟩
  | .calc cs, _, R, g, h => by
    cases h with
    | «calc» hs =>
      refine ⟨rfl, ?_⟩
      rw [okI_calc, okI_calc]
      exact fun hok ve hve => hok ve (hs.subset hve)
  | .loop c sh body once, _, R, g, h => by
    cases h with
    | loop _ _ _ hb =>
      obtain ⟨a, b⟩ := subL_ok body _ R g hb
      refine ⟨by simp only [driftI, a], ?_⟩
      rw [okI_loop, okI_loop]
      exact fun hok => ⟨hok.1, b hok.2⟩
  | .ifnz c sh body, _, R, g, h => by
    cases h with
    | ifnz _ _ hb =>
      obtain ⟨a, b⟩ := subL_ok body _ R g hb
      refine ⟨by simp only [driftI, a], ?_⟩
      rw [okI_ifnz, okI_ifnz]
      exact fun hok => ⟨hok.1, b hok.2⟩
theorem subL_ok : ∀ (l l' : List (Instr w)) (R g : Nat), C01Dse.SubL l l' →
    driftL l' = driftL l ∧ (OkL R g l → OkL R g l')
  | [], _, _, _, h => by cases h; exact ⟨rfl, id⟩
  | i :: r, _, R, g, h => by
    cases h with
    | cons hi hr =>
      obtain ⟨a, b⟩ := subI_ok i _ R g hi
      obtain ⟨x, y⟩ := subL_ok r _ R (g + driftI i) hr
      refine ⟨by simp only [driftL, a, x], ?_⟩
      rw [okL_cons, okL_cons, a]
      exact fun hok => ⟨b hok.1, y hok.2⟩
end

theorem dse_ok {R : Nat} {b b' : Block w} {anal : OptAnalysis w} (hb : OkL R 0 b.insts)
    (h : deadStoreElimination b anal = .ok b') : OkL R 0 b'.insts := by
  unfold deadStoreElimination at h
  split at h
  · rename_i b1 he
    simp only [pure, Except.pure, Except.ok.injEq] at h
    subst h
    unfold OptDse.eliminate at he
    split at he
    · cases he
    · rename_i insts x y hel
      simp only [Option.some.injEq] at he
      subst he
      exact (subL_ok _ _ R 0 (C01Dse.subL_of_elimInsts _ _ _ _ _ _ _ hel)).2 hb
  · cases h

theorem optimizeRounds_ok {R : Nat} : ∀ (n : Nat) (b b' : Block w) (anal : OptAnalysis w) (os os' : Orders),
    OkL R 0 b.insts → (optimizeRounds n b anal).run os = .ok (b', os') → OkL R 0 b'.insts := by
  intro n
  induction n with
  | zero =>
    intro b b' anal os os' hb h
    simp only [optimizeRounds, run_pure, Except.ok.injEq, Prod.mk.injEq] at h
    rw [← h.1]; exact hb
  | succ n ih =>
    intro b b' anal os os' hb h
    rw [optimizeRounds, run_bind_ok] at h
    obtain ⟨b1, os1, h1, h2⟩ := h
    rw [run_liftM_ok] at h1
    rw [run_bind_ok] at h2
    obtain ⟨⟨b2, anal2⟩, os2, h3, h4⟩ := h2
    exact ih _ _ _ _ _ (optimizeOnce_ok (dse_ok hb h1.1) h3) h4

/-- **Main invariant**: whatever bound the input respects, the optimized block respects it too. -/
theorem optimize_ok {R : Nat} {b b' : Block w} {level : Nat} {orders : Orders} (hb : OkL R 0 b.insts)
    (h : Opt.optimize b level orders = .ok b') : OkL R 0 b'.insts := by
  unfold Opt.optimize at h
  split at h
  · cases h
  · rename_i prog hrun
    simp only [Except.ok.injEq] at h
    subst h
    unfold optimizeM at hrun
    split at hrun
    · rw [run_bind_ok] at hrun
      obtain ⟨⟨b1, anal1⟩, os1, h1, h2⟩ := hrun
      exact optimizeRounds_ok _ _ _ _ _ _ (optimizeOnce_ok hb h1) h2
    · simp only [run_pure, Except.ok.injEq, Prod.mk.injEq] at hrun
      rw [← hrun.1]; exact hb
  · cases h

/-- `reach` never grows. -/
theorem optimize_reach {b b' : Block w} {level : Nat} {orders : Orders}
    (h : Opt.optimize b level orders = .ok b') : reach b' ≤ reach b :=
  okL_iff_reach.1 (optimize_ok (okL_reach b) h)

/-! ### the shift of the top-level block -/

theorem optimizeOnce_shift {b b' : Block w} {anal anal' : OptAnalysis w} {os os' : Orders}
    (h : (optimizeOnce b anal).run os = .ok ((b', anal'), os')) : b'.shift = 0 := by
  unfold optimizeOnce at h
  rw [run_bind_ok] at h
  obtain ⟨state, os1, _, h2⟩ := h
  simp only [run_pure, Except.ok.injEq, Prod.mk.injEq] at h2
  obtain ⟨⟨rfl, _⟩, _⟩ := h2
  rfl

theorem optimizeRounds_shift : ∀ (n : Nat) (b b' : Block w) (anal : OptAnalysis w) (os os' : Orders),
    b.shift = 0 → (optimizeRounds n b anal).run os = .ok (b', os') → b'.shift = 0 := by
  intro n
  induction n with
  | zero =>
    intro b b' anal os os' hb h
    simp only [optimizeRounds, run_pure, Except.ok.injEq, Prod.mk.injEq] at h
    rw [← h.1]; exact hb
  | succ n ih =>
    intro b b' anal os os' _ h
    rw [optimizeRounds, run_bind_ok] at h
    obtain ⟨b1, os1, _, h2⟩ := h
    rw [run_bind_ok] at h2
    obtain ⟨⟨b2, anal2⟩, os2, h3, h4⟩ := h2
    exact ih _ _ _ _ _ (optimizeOnce_shift h3) h4

/-- The optimized block is the input (level 0) or has shift 0. -/
theorem optimize_shift {b b' : Block w} {level : Nat} {orders : Orders}
    (h : Opt.optimize b level orders = .ok b') : b' = b ∨ b'.shift = 0 := by
  unfold Opt.optimize at h
  split at h
  · cases h
  · rename_i prog hrun
    simp only [Except.ok.injEq] at h
    subst h
    unfold optimizeM at hrun
    split at hrun
    · rw [run_bind_ok] at hrun
      obtain ⟨⟨b1, anal1⟩, os1, h1, h2⟩ := hrun
      exact Or.inr (optimizeRounds_shift _ _ _ _ _ _ (optimizeOnce_shift h1) h2)
    · simp only [run_pure, Except.ok.injEq, Prod.mk.injEq] at hrun
      exact Or.inl hrun.1.symm
  · cases h

end Hpbf.OptOffs
