/-
C02 / C13 (`allocate_temps` is total), part 4: one round of the loop keeps the additional invariant `TInv`
(`tinv_step`) and succeeds (`alloc_step_total`).
-/
import Hpbf.Proofs.C02AllocTotalInv
set_option linter.unusedSimpArgs false

namespace Hpbf
namespace C02
namespace Alloc

open Bc BcWf BcGen C11

variable {w : Nat} {s : St w}

/-! ### after the ended ranges have been taken off the heap -/

/-- What is known after phase 1 of round `k` (`b` = state, `atf0` = temporaries about to be released). -/
structure DrainFacts (s : St w) (k : Nat) (a b : ASt w) (atf0 : List Nat) : Prop where
  st : b.st = a.st
  repl : b.repl = a.repl
  freeRegs : b.freeRegs = a.freeRegs
  sorted : SortedE b.nre
  bound : ∀ e t, (e, t) ∈ b.nre → k < e ∧ e < s.insts.size
  range : HeapRange b
  kept : ∀ t l, alGet a.repl t = some l → (∃ e, (e, t) ∈ b.nre) ∨ t ∈ atf0
  noread : ∀ t ∈ atf0, ∀ (j : Nat) (x : Instr w), k + 1 ≤ j → a.st.insts[j]? = some x → t ∉ BcWf.uses x

theorem uses_mkArith_tmp {op : BcGen.Op} {d s0 s1 : Loc w} {t : Nat} (h : t ∈ BcWf.uses (mkArith op d s0 s1)) :
    s0 = .tmp t ∨ s1 = .tmp t := by
  rw [uses_mkArith] at h
  rcases List.mem_append.1 h with h0 | h1
  · left
    cases s0 with
    | tmp i => simp only [locTmp, List.mem_singleton] at h0; rw [h0]
    | _ => simp [locTmp] at h0
  · right
    cases s1 with
    | tmp i => simp only [locTmp, List.mem_singleton] at h1; rw [h1]
    | _ => simp [locTmp] at h1

theorem drainFacts (hp : AllocPre s) {numRegs k : Nat} {a b : ASt w} {atf0 : List Nat} (hI : PassInv s k a)
    (hT : TInv s numRegs k a) (hd : drainEnds k (2 * a.nre.length + 2) [] a = .ok (atf0, b)) :
    DrainFacts s k a b atf0 := by
  obtain ⟨d1, d2, d3⟩ := drainEnds_ok _ hd
  obtain ⟨atf0', b', hd', D1, D2, D3, _⟩ := drainEnds_total (i := k) (2 * a.nre.length + 2) [] a hT.sorted
    hT.heapRange (by have := muE_le k (luOf a) a.nre; omega)
  rw [hd] at hd'
  simp only [Except.ok.injEq, Prod.mk.injEq] at hd'
  obtain ⟨rfl, rfl⟩ := hd'
  -- every entry of the new heap stems from an old entry with an end that is not later
  have hent : ∀ e t, Ent a (e, t) → ∃ e0, e0 ≤ e ∧ (e0, t) ∈ a.nre ∧
      (e < s.insts.size) := by
    intro e t he
    rcases he with h | ⟨e0, r, h1, h2, h3, h4⟩
    · exact ⟨e, Nat.le_refl _, h, (hT.heapBound e t h).2⟩
    · exact ⟨e0, Nat.le_of_lt h4, h1, hT.rangeLt t r e h2 h3⟩
  refine ⟨d1.st, d1.repl, d1.freeRegs, D1, ?_, ?_, ?_, ?_⟩
  · intro e t h
    obtain ⟨_, _, _, g⟩ := hent e t (d2 _ h)
    exact ⟨D2 e t h, g⟩
  · intro e t h
    obtain ⟨e0, _, g, _⟩ := hent e t (d2 _ h)
    obtain ⟨r, L, q1, q2⟩ := hT.heapRange e0 t g
    exact ⟨r, L, by rw [d1.st]; exact q1, q2⟩
  · intro t l hl
    obtain ⟨e, he⟩ := hT.replHeap t l hl
    exact D3 e t he
  · intro t ht j x hj hx hu
    obtain ⟨e, r, L, hE, hek, hr, hL, hLe⟩ := (d3 t ht).resolve_left (by simp)
    obtain ⟨e0, he0, hmem, _⟩ := hent e t hE
    obtain ⟨r0, g1, g2, g3⟩ := hI.heap e0 t hmem
    rcases hI.fut j (by omega) with hsame | ⟨op, m, t', s0, s1, hFu⟩
    · obtain ⟨r1, L1, p1, p2, p3, p4⟩ := hp.uses j x t (by rw [← hsame]; exact hx) hu
      rw [g1] at p1; cases p1
      have := g3 L1 p2
      omega
    · have h2 := hFu.2.2
      rw [hx] at h2; cases h2
      obtain ⟨r', L', q1, q2, q3⟩ := hT.fusedLast j op m t' s0 s1 t hFu (uses_mkArith_tmp hu)
      rw [hr] at q1; cases q1
      rw [hL] at q2; cases q2
      omega

/-! ### what phase 7 does to the heap, the table and the free registers -/

theorem phDst_fields {k : Nat} {can : Bool} {c a' : ASt w} {x : Instr w} {u : Unit}
    (hD : phDst k can c = .ok (u, a')) (hx : c.st.insts[k]? = some x) :
    a'.st.ranges = c.st.ranges ∧ (∀ r ∈ a'.freeRegs, r ∈ c.freeRegs) ∧
    (∀ j, j ≠ k → a'.st.insts[j]? = c.st.insts[j]?) ∧
    ((dstTmp? x = none ∧ a'.nre = c.nre ∧ a'.repl = c.repl) ∨
     ∃ (t : Nat) (r : RangeInfo), dstTmp? x = some t ∧ c.st.ranges[t]? = some r ∧
      (((r.numUses = 0 ∨ r.lastUse = none) ∧ a'.nre = c.nre ∧ a'.repl = c.repl) ∨
       ∃ (L : Nat) (l : Loc w), r.lastUse = some L ∧ a'.nre = nrePush (L, t) c.nre ∧
        a'.repl = alSet c.repl t l)) := by
  have hset : ∀ (y : Instr w) j, j ≠ k → (c.st.insts.setIfInBounds k y)[j]? = c.st.insts[j]? := by
    intro y j hj
    rw [Array.getElem?_setIfInBounds]
    simp [Ne.symm hj]
  obtain ⟨x', hx', h⟩ := phDst_ok hD
  rw [hx] at hx'; cases hx'
  rcases h with ⟨hn, rfl⟩ | ⟨t, ht, r, hr, h⟩
  · exact ⟨rfl, fun _ h => h, fun _ _ => rfl, Or.inl ⟨hn, rfl, rfl⟩⟩
  rcases h with ⟨h0, rfl⟩ | ⟨src, L, rfl, hL, hnu, _, rfl⟩ | ⟨hnu, u', hA⟩
  · exact ⟨rfl, fun _ h => h, fun j hj => hset _ j hj, Or.inr ⟨t, r, ht, hr, Or.inl ⟨h0, rfl, rfl⟩⟩⟩
  · exact ⟨rfl, fun _ h => h, fun j hj => hset _ j hj,
      Or.inr ⟨t, r, ht, hr, Or.inr ⟨L, src, hL, rfl, rfl⟩⟩⟩
  · obtain ⟨r2, L, x2, q1, q2, q3, q4, q5⟩ := allocTemp_ok hA
    rw [hr] at q1; cases q1
    subst q5
    exact ⟨rfl, pickTemp_freeRegs_sub c (L - k), fun j hj => hset _ j hj,
      Or.inr ⟨t, r, ht, hr, Or.inr ⟨L, _, q2, rfl, rfl⟩⟩⟩

end Alloc
end C02
end Hpbf
