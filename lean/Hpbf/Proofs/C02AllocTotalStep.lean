/-
C02 / C13 (`allocate_temps` is total), part 4: one round of the loop keeps the additional invariant `TInv`
(`tinv_step`) and succeeds (`alloc_step_total`).
-/
import Hpbf.Proofs.C02AllocTotalInv
set_option linter.unusedSimpArgs false

namespace Hpbf
namespace C02
namespace Alloc

open Bc BcWf BcGen C11

variable {w : Nat} {s : St w}

/-! ### after the ended ranges have been taken off the heap -/

/-- What is known after phase 1 of round `k` (`b` = state, `atf0` = temporaries about to be released). -/
structure DrainFacts (s : St w) (k : Nat) (a b : ASt w) (atf0 : List Nat) : Prop where
  st : b.st = a.st
  repl : b.repl = a.repl
  freeRegs : b.freeRegs = a.freeRegs
  sorted : SortedE b.nre
  bound : ∀ e t, (e, t) ∈ b.nre → k < e ∧ e < s.insts.size
  range : HeapRange b
  kept : ∀ t l, alGet a.repl t = some l → (∃ e, (e, t) ∈ b.nre) ∨ t ∈ atf0
  noread : ∀ t ∈ atf0, ∀ (j : Nat) (x : Instr w), k + 1 ≤ j → a.st.insts[j]? = some x → t ∉ BcWf.uses x

theorem uses_mkArith_tmp {op : BcGen.Op} {d s0 s1 : Loc w} {t : Nat} (h : t ∈ BcWf.uses (mkArith op d s0 s1)) :
    s0 = .tmp t ∨ s1 = .tmp t := by
  rw [uses_mkArith] at h
  rcases List.mem_append.1 h with h0 | h1
  · left
    cases s0 with
    | tmp i => simp only [locTmp, List.mem_singleton] at h0; rw [h0]
    | _ => simp [locTmp] at h0
  · right
    cases s1 with
    | tmp i => simp only [locTmp, List.mem_singleton] at h1; rw [h1]
    | _ => simp [locTmp] at h1

theorem drainFacts (hp : AllocPre s) {numRegs k : Nat} {a b : ASt w} {atf0 : List Nat} (hI : PassInv s k a)
    (hT : TInv s numRegs k a) (hd : drainEnds k (2 * a.nre.length + 2) [] a = .ok (atf0, b)) :
    DrainFacts s k a b atf0 := by
  obtain ⟨d1, d2, d3⟩ := drainEnds_ok _ hd
  obtain ⟨atf0', b', hd', D1, D2, D3, _⟩ := drainEnds_total (i := k) (2 * a.nre.length + 2) [] a hT.sorted
    hT.heapRange (by have := muE_le k (luOf a) a.nre; omega)
  rw [hd] at hd'
  simp only [Except.ok.injEq, Prod.mk.injEq] at hd'
  obtain ⟨rfl, rfl⟩ := hd'
  -- every entry of the new heap stems from an old entry with an end that is not later
  have hent : ∀ e t, Ent a (e, t) → ∃ e0, e0 ≤ e ∧ (e0, t) ∈ a.nre ∧
      (e < s.insts.size) := by
    intro e t he
    rcases he with h | ⟨e0, r, h1, h2, h3, h4⟩
    · exact ⟨e, Nat.le_refl _, h, (hT.heapBound e t h).2⟩
    · exact ⟨e0, Nat.le_of_lt h4, h1, hT.rangeLt t r e h2 h3⟩
  refine ⟨d1.st, d1.repl, d1.freeRegs, D1, ?_, ?_, ?_, ?_⟩
  · intro e t h
    obtain ⟨_, _, _, g⟩ := hent e t (d2 _ h)
    exact ⟨D2 e t h, g⟩
  · intro e t h
    obtain ⟨e0, _, g, _⟩ := hent e t (d2 _ h)
    obtain ⟨r, L, q1, q2⟩ := hT.heapRange e0 t g
    exact ⟨r, L, by rw [d1.st]; exact q1, q2⟩
  · intro t l hl
    obtain ⟨e, he⟩ := hT.replHeap t l hl
    exact D3 e t he
  · intro t ht j x hj hx hu
    obtain ⟨e, r, L, hE, hek, hr, hL, hLe⟩ := (d3 t ht).resolve_left (by simp)
    obtain ⟨e0, he0, hmem, _⟩ := hent e t hE
    obtain ⟨r0, g1, g2, g3⟩ := hI.heap e0 t hmem
    rcases hI.fut j (by omega) with hsame | ⟨op, m, t', s0, s1, hFu⟩
    · obtain ⟨r1, L1, p1, p2, p3, p4⟩ := hp.uses j x t (by rw [← hsame]; exact hx) hu
      rw [g1] at p1; cases p1
      have := g3 L1 p2
      omega
    · have h2 := hFu.2.2
      rw [hx] at h2; cases h2
      obtain ⟨r', L', q1, q2, q3⟩ := hT.fusedLast j op m t' s0 s1 t hFu (uses_mkArith_tmp hu)
      rw [hr] at q1; cases q1
      rw [hL] at q2; cases q2
      omega

/-! ### what phase 7 does to the heap, the table and the free registers -/

theorem phDst_fields {k : Nat} {can : Bool} {c a' : ASt w} {x : Instr w} {u : Unit}
    (hD : phDst k can c = .ok (u, a')) (hx : c.st.insts[k]? = some x) :
    a'.st.ranges = c.st.ranges ∧ (∀ r ∈ a'.freeRegs, r ∈ c.freeRegs) ∧
    (∀ j, j ≠ k → a'.st.insts[j]? = c.st.insts[j]?) ∧
    ((dstTmp? x = none ∧ a'.nre = c.nre ∧ a'.repl = c.repl) ∨
     ∃ (t : Nat) (r : RangeInfo), dstTmp? x = some t ∧ c.st.ranges[t]? = some r ∧
      (((r.numUses = 0 ∨ r.lastUse = none) ∧ a'.nre = c.nre ∧ a'.repl = c.repl) ∨
       ∃ (L : Nat) (l : Loc w), r.lastUse = some L ∧ a'.nre = nrePush (L, t) c.nre ∧
        a'.repl = alSet c.repl t l)) := by
  have hset : ∀ (y : Instr w) j, j ≠ k → (c.st.insts.setIfInBounds k y)[j]? = c.st.insts[j]? := by
    intro y j hj
    rw [Array.getElem?_setIfInBounds]
    simp [Ne.symm hj]
  obtain ⟨x', hx', h⟩ := phDst_ok hD
  rw [hx] at hx'; cases hx'
  rcases h with ⟨hn, rfl⟩ | ⟨t, ht, r, hr, h⟩
  · exact ⟨rfl, fun _ h => h, fun _ _ => rfl, Or.inl ⟨hn, rfl, rfl⟩⟩
  rcases h with ⟨h0, rfl⟩ | ⟨src, L, rfl, hL, hnu, _, rfl⟩ | ⟨hnu, u', hA⟩
  · exact ⟨rfl, fun _ h => h, fun j hj => hset _ j hj, Or.inr ⟨t, r, ht, hr, Or.inl ⟨h0, rfl, rfl⟩⟩⟩
  · exact ⟨rfl, fun _ h => h, fun j hj => hset _ j hj,
      Or.inr ⟨t, r, ht, hr, Or.inr ⟨L, src, hL, rfl, rfl⟩⟩⟩
  · obtain ⟨r2, L, x2, q1, q2, q3, q4, q5⟩ := allocTemp_ok hA
    rw [hr] at q1; cases q1
    subst q5
    exact ⟨rfl, pickTemp_freeRegs_sub c (L - k), fun j hj => hset _ j hj,
      Or.inr ⟨t, r, ht, hr, Or.inr ⟨L, _, q2, rfl, rfl⟩⟩⟩

/-! ### a round without fusion -/

/-- A temporary read by a pending instruction is read by an instruction of the input. -/
theorem read_in_input {k : Nat} {a : ASt w} (hI : PassInv s k a) {j : Nat} {x : Instr w} {t : Nat} (hj : k ≤ j)
    (hx : a.st.insts[j]? = some x) (ht : t ∈ BcWf.uses x) :
    ∃ (j' : Nat) (y : Instr w), s.insts[j']? = some y ∧ t ∈ BcWf.uses y := by
  rcases hI.fut j hj with hsame | ⟨op, m, t', s0, s1, hFu⟩
  · exact ⟨j, x, by rw [← hsame]; exact hx, ht⟩
  · have h2 := hFu.2.2
    rw [hx] at h2; cases h2
    obtain ⟨i, r, L, g1, _⟩ := hI.fused _ _ _ _ _ _ hFu
    exact ⟨i, _, g1, by rw [uses_mkArith] at ht ⊢; exact ht⟩

/-- A temporary that is read and was created at `k` is the destination of input instruction `k`. -/
theorem created_here (hp : TotalPre s) {k : Nat} {a : ASt w} (hI : PassInv s k a) {j : Nat} {x : Instr w} {t : Nat}
    (hj : k ≤ j) (hx : a.st.insts[j]? = some x) (ht : t ∈ BcWf.uses x) {r : RangeInfo}
    (hr : s.ranges[t]? = some r) (hc : r.created = k) :
    ∃ y, s.insts[k]? = some y ∧ dstTmp? y = some t ∧ r.numUses ≠ 0 ∧ ∃ L, r.lastUse = some L := by
  obtain ⟨j', y', hy', hu'⟩ := read_in_input hI hj hx ht
  obtain ⟨r', y, g1, g2, g3⟩ := hp.defAt j' y' t hy' hu'
  rw [hr] at g1; cases g1
  rw [hc] at g2
  refine ⟨y, g2, g3, ?_, ?_⟩
  · intro h0
    exact hp.unread t r hr h0 j' y' hy' hu'
  · obtain ⟨r1, L, p1, p2, _⟩ := hp.pre.uses j' y' t hy' hu'
    rw [hr] at p1; cases p1
    exact ⟨L, p2⟩

theorem tinv_nofuse (hp : TotalPre s) {numRegs k : Nat} {a b a' : ASt w} {atf0 : List Nat} {cur new : Instr w}
    {can : Bool} {live : Nat} {u : Unit} (hk : k < s.insts.size) (hI : PassInv s k a) (hT : TInv s numRegs k a)
    (hb : PassInv s k b) (DF : DrainFacts s k a b atf0) (hi0 : b.st.insts[k]? = some cur)
    (hn : rwInst b.repl cur = .ok new)
    (hD : phDst k can (pushLive (freeList numRegs atf0 (b.setI k new)) live) = .ok (u, a')) :
    TInv s numRegs (k + 1) a' := by
  have hpa := hp.pre
  have hc1 := passInv_rewrite hb hi0 hn
  have hkb : k < b.st.insts.size := lt_of_getElem? hi0
  have hcst : (freeList numRegs atf0 (b.setI k new)).st = (b.setI k new).st := freeList_st _ _ _
  have hcnre : (freeList numRegs atf0 (b.setI k new)).nre = b.nre := freeList_nre _ _ _
  have hx3 : (pushLive (freeList numRegs atf0 (b.setI k new)) live).st.insts[k]? = some new := by
    show (freeList numRegs atf0 (b.setI k new)).st.insts[k]? = _
    rw [hcst, getElem?_setI]; simp [hkb]
  have hget3 : ∀ t', alGet (freeList numRegs atf0 (b.setI k new)).repl t' =
      if t' ∈ atf0 then none else alGet a.repl t' := by
    intro t'
    rw [alGet_freeList numRegs atf0 hc1.regs t', ← DF.repl]; rfl
  obtain ⟨f1, f2, f3, f4⟩ := phDst_fields hD hx3
  have hrng : a'.st.ranges = a.st.ranges := by
    rw [f1]
    show (freeList numRegs atf0 (b.setI k new)).st.ranges = _
    rw [hcst, ← DF.st]; rfl
  have hins : ∀ j, j ≠ k → a'.st.insts[j]? = a.st.insts[j]? := by
    intro j hj
    rw [f3 j hj]
    show (freeList numRegs atf0 (b.setI k new)).st.insts[j]? = _
    rw [hcst, getElem?_setI, ← DF.st]
    have : ¬ (k = j ∧ k < b.st.insts.size) := fun h => hj h.1.symm
    simp [this]
  have hcnre' : (pushLive (freeList numRegs atf0 (b.setI k new)) live).nre = b.nre := hcnre
  have hcrepl' : ∀ t', alGet (pushLive (freeList numRegs atf0 (b.setI k new)) live).repl t' =
      if t' ∈ atf0 then none else alGet a.repl t' := hget3
  have hcrng' : (pushLive (freeList numRegs atf0 (b.setI k new)) live).st.ranges = a.st.ranges := by
    show (freeList numRegs atf0 (b.setI k new)).st.ranges = _
    rw [hcst, ← DF.st]; rfl
  have hcfree : ∀ r ∈ (pushLive (freeList numRegs atf0 (b.setI k new)) live).freeRegs, r < numRegs := by
    show ∀ r ∈ (freeList numRegs atf0 (b.setI k new)).freeRegs, r < numRegs
    apply freeList_freeRegs_lt
    show ∀ r ∈ b.freeRegs, r < numRegs
    rw [DF.freeRegs]; exact hT.freeLt
  generalize pushLive (freeList numRegs atf0 (b.setI k new)) live = c at *
  -- `dstTmp?` is not changed by the rewriting
  obtain ⟨hzc, ycur, hycur, hbrc⟩ := hb.skel k cur hi0
  obtain ⟨_, _, hnd⟩ := rwInst_facts hn (fun t v g => (hb.replDom t v g).1) hzc
  -- the table after the round has an entry wherever the table before had one that is not released
  have hkeep : ∀ t l, alGet a.repl t = some l → t ∉ atf0 → ∃ l', alGet a'.repl t = some l' := by
    intro t l hl hna
    have hc : alGet c.repl t = some l := by rw [hcrepl']; simp [hna, hl]
    rcases f4 with ⟨_, _, e⟩ | ⟨t0, r0, _, _, ⟨_, _, e⟩ | ⟨L, l0, _, _, e⟩⟩
    · exact ⟨l, by rw [e]; exact hc⟩
    · exact ⟨l, by rw [e]; exact hc⟩
    · rw [e, alGet_alSet]
      split
      · exact ⟨_, rfl⟩
      · exact ⟨l, hc⟩
  refine ⟨?_, ?_, ?_, ?_, ?_, ?_, ?_, ?_⟩
  · -- complete
    intro j x t r hj hx ht hr hcr
    have hjk : j ≠ k := by omega
    have hxa : a.st.insts[j]? = some x := by rw [← hins j hjk]; exact hx
    by_cases hck : r.created = k
    · obtain ⟨y, hy, hdy, hnu, L, hL⟩ := created_here hp hI (by omega) hxa ht hr hck
      -- `y` is the current instruction
      have hcy : cur = y := by
        rcases hb.fut k (Nat.le_refl _) with hsame | ⟨op, m, t', s0, s1, hFu⟩
        · rw [hi0, hy] at hsame; exact Option.some.inj hsame
        · have h1 := hFu.2.1
          rw [hy] at h1; cases h1
          cases hdy
      subst hcy
      have hdn : dstTmp? new = some t := by rw [hnd]; exact hdy
      have hrb : b.st.ranges[t]? = some r := by
        obtain ⟨r', q1, _, _, q4⟩ := hb.rkeep t r hr
        rw [q4 (by omega)] at q1; exact q1
      rcases f4 with ⟨e, _⟩ | ⟨t0, r0, e0, hr0, h0⟩
      · rw [hdn] at e; cases e
      · rw [hdn] at e0; cases e0
        rw [hcrng', ← DF.st, hrb] at hr0; cases hr0
        rcases h0 with ⟨h0 | h0, _⟩ | ⟨L', l0, _, _, e⟩
        · exact absurd h0 hnu
        · rw [hL] at h0; cases h0
        · exact ⟨l0, by rw [e, alGet_alSet_self]⟩
    · obtain ⟨l, hl⟩ := hT.complete j x t r (by omega) hxa ht hr (by omega)
      exact hkeep t l hl (fun hm => DF.noread t hm j x hj hxa ht)
  · -- fusedLast
    intro f op m t' s0 s1 t hFu hs
    have hfk : f ≠ k := Nat.ne_of_gt hFu.1
    have hFa : Fused s k a f op m t' s0 s1 := fused_mono hFu (Nat.le_of_succ_le hFu.1) (hins f hfk).symm
    rw [hrng]
    exact hT.fusedLast f op m t' s0 s1 t hFa hs
  · -- heapRange
    intro e t h
    rw [hrng]
    have hold : ∀ e t, (e, t) ∈ b.nre → ∃ (r : RangeInfo) (L : Nat), a.st.ranges[t]? = some r ∧ r.lastUse = some L := by
      intro e t h
      obtain ⟨r, L, q1, q2⟩ := DF.range e t h
      exact ⟨r, L, by rw [← DF.st]; exact q1, q2⟩
    rcases f4 with ⟨_, e1, _⟩ | ⟨t0, r0, _, hr0, ⟨_, e1, _⟩ | ⟨L, l0, hL, e1, _⟩⟩
    · rw [e1, hcnre'] at h; exact hold e t h
    · rw [e1, hcnre'] at h; exact hold e t h
    · rw [e1, hcnre', mem_nrePush] at h
      rcases h with h | h
      · simp only [Prod.mk.injEq] at h
        rw [h.2]
        exact ⟨r0, L, by rw [← hcrng']; exact hr0, hL⟩
      · exact hold e t h
  · -- replHeap
    intro t l hl
    have hold : ∀ t l, alGet c.repl t = some l → ∃ e, (e, t) ∈ b.nre := by
      intro t l hc
      rw [hcrepl'] at hc
      split at hc
      · cases hc
      · rename_i hna
        exact (DF.kept t l hc).resolve_right hna
    rcases f4 with ⟨_, e1, e2⟩ | ⟨t0, r0, _, hr0, ⟨_, e1, e2⟩ | ⟨L, l0, hL, e1, e2⟩⟩
    · rw [e1, hcnre']; exact hold t l (by rw [← e2]; exact hl)
    · rw [e1, hcnre']; exact hold t l (by rw [← e2]; exact hl)
    · rw [e2, alGet_alSet] at hl
      rw [e1, hcnre']
      split at hl
      · rename_i e; subst e
        exact ⟨L, by rw [mem_nrePush]; exact Or.inl rfl⟩
      · obtain ⟨e, he⟩ := hold t l hl
        exact ⟨e, by rw [mem_nrePush]; exact Or.inr he⟩
  · -- heapBound
    intro e t h
    have hold : ∀ e t, (e, t) ∈ b.nre → k + 1 ≤ e ∧ e < s.insts.size := by
      intro e t h
      have := DF.bound e t h
      omega
    rcases f4 with ⟨_, e1, _⟩ | ⟨t0, r0, hd0, hr0, ⟨_, e1, _⟩ | ⟨L, l0, hL, e1, _⟩⟩
    · rw [e1, hcnre'] at h; exact hold e t h
    · rw [e1, hcnre'] at h; exact hold e t h
    · rw [e1, hcnre', mem_nrePush] at h
      rcases h with h | h
      · simp only [Prod.mk.injEq] at h
        rw [h.1]
        -- the destination of input instruction `k`
        have hdc : dstTmp? cur = some t0 := by rw [← hnd]; exact hd0
        have hPk : s.insts[k]? = some cur := by
          rcases hb.fut k (Nat.le_refl _) with hsame | ⟨op, m, t', s0, s1, hFu⟩
          · rw [← hsame]; exact hi0
          · have h2 := hFu.2.2
            rw [hi0] at h2; cases h2
            rw [dstTmp?_mkArith] at hdc; cases hdc
        obtain ⟨r, f, L1, g1, g2, g3, g4, g5⟩ := hp.defd k cur t0 hPk hdc
        obtain ⟨rd, gd1, gd2⟩ := hpa.defs k cur t0 hPk (mem_defs_of_dstTmp? hdc)
        rw [g1] at gd1; cases gd1
        obtain ⟨r', q1, _, _, q4⟩ := hb.rkeep t0 r g1
        rw [q4 (by omega)] at q1
        rw [hcrng', ← DF.st, q1] at hr0; cases hr0
        rw [g3] at hL; cases hL
        exact ⟨by omega, hp.lastLt t0 _ _ g1 g3⟩
      · exact hold e t h
  · -- sorted
    rcases f4 with ⟨_, e1, _⟩ | ⟨t0, r0, _, _, ⟨_, e1, _⟩ | ⟨L, l0, _, e1, _⟩⟩
    · rw [e1, hcnre']; exact DF.sorted
    · rw [e1, hcnre']; exact DF.sorted
    · rw [e1, hcnre']; exact sortedE_nrePush DF.sorted
  · -- freeLt
    intro r hr
    exact hcfree r (f2 r hr)
  · -- rangeLt
    rw [hrng]; exact hT.rangeLt

/-! ### a round with fusion -/

theorem fuseSrcP_ranges_size {f : Nat} {atf atf' : List Nat} {l : Loc w} {a a' : ASt w}
    (h : fuseSrcP f atf l a = .ok (atf', a')) : a'.st.ranges.size = a.st.ranges.size := by
  cases l with
  | tmp t =>
    simp only [fuseSrcP] at h
    cases he : extendTo a.st.ranges t f with
    | error e => simp [he] at h
    | ok rs =>
      simp only [he] at h
      have hsz : rs.size = a.st.ranges.size := by
        unfold extendTo at he
        cases hr : a.st.ranges[t]? with
        | none => simp [hr] at he
        | some r => simp only [hr, Except.ok.injEq] at he; rw [← he]; simp
      split at h
      · simp only [Except.ok.injEq, Prod.mk.injEq] at h
        obtain ⟨_, rfl⟩ := h; exact hsz
      · simp only [Except.ok.injEq, Prod.mk.injEq] at h
        obtain ⟨_, rfl⟩ := h; exact hsz
  | mem m => simp only [fuseSrcP, Except.ok.injEq, Prod.mk.injEq] at h; obtain ⟨_, rfl⟩ := h; rfl
  | memZero m => simp only [fuseSrcP, Except.ok.injEq, Prod.mk.injEq] at h; obtain ⟨_, rfl⟩ := h; rfl
  | imm c => simp only [fuseSrcP, Except.ok.injEq, Prod.mk.injEq] at h; obtain ⟨_, rfl⟩ := h; rfl

theorem retarget_fields (a5 : ASt w) (f : Nat) (m : Int) (x : Instr w) :
    (retarget a5 f m x).nre = a5.nre ∧ (retarget a5 f m x).st.ranges = a5.st.ranges := by
  unfold retarget
  split <;> exact ⟨rfl, rfl⟩

theorem tinv_fuse (hp : TotalPre s) {numRegs k : Nat} {a b a' : ASt w} {atf0 : List Nat} {inst0 : Instr w}
    {live : Nat} (hk : k < s.insts.size) (hI : PassInv s k a) (hT : TInv s numRegs k a) (hb : PassInv s k b)
    (DF : DrainFacts s k a b atf0) (hdead : ∀ t ∈ atf0, DeadAt s k t) (hi0 : b.st.insts[k]? = some inst0)
    {op : BcGen.Op} {t : Nat} {s0 s1 : Loc w} {r : RangeInfo} {L f : Nat} {m : Int} {src : Loc w}
    {atf1 atf : List Nat} {a1 a2 : ASt w} {x : Instr w}
    (e1 : arith? inst0 = some (op, .tmp t, s0, s1)) (e2 : b.st.ranges[t]? = some r) (e3 : r.lastUse = some L)
    (e4 : r.firstUse = some f) (e5 : b.st.insts[f]? = some (.copy (.mem m) src))
    (e6 : hasWriteInRange b.st m (f + 1) L = false)
    (e7 : srcOk b k f s0 = .ok true) (e8 : srcOk b k f s1 = .ok true)
    (e9 : fuseSrcP f atf0 s0 b = .ok (atf1, a1)) (e10 : fuseSrcP f atf1 s1 a1 = .ok (atf, a2))
    (e11 : (fuseSt a2 k t L f m inst0).st.insts[f]? = some x)
    (ha' : a' = pushLive (freeList numRegs atf (retarget (fuseSt a2 k t L f m inst0) f m x)) live) :
    TInv s numRegs (k + 1) a' := by
  have hpa := hp.pre
  obtain ⟨hcF, hkF, hPk, hkf, hPf, hreplF, hatf, hinsF, hfF, hfr, hft, hnf, hlv, hfb⟩ :=
    passInv_fuse hpa hb hdead hi0 e1 e2 e3 e4 e5 e6 e7 e8 e9 e10 e11
  have hinst0 : inst0 = mkArith op (.tmp t) s0 s1 := arith?_eq_some.1 e1
  have S1 := fuseSrcP_spec e9
  have S2 := fuseSrcP_spec e10
  obtain ⟨hFnre, hFrng⟩ := retarget_fields (fuseSt a2 k t L f m inst0) f m x
  have hFnre' : (retarget (fuseSt a2 k t L f m inst0) f m x).nre = nrePush (L, t) a2.nre := hFnre
  have hFrng' : (retarget (fuseSt a2 k t L f m inst0) f m x).st.ranges = a2.st.ranges := hFrng
  generalize haFdef : retarget (fuseSt a2 k t L f m inst0) f m x = aF at *
  subst ha'
  -- the state after the round
  have hst' : (pushLive (freeList numRegs atf aF) live).st.ranges = a2.st.ranges := by
    show (freeList numRegs atf aF).st.ranges = _
    rw [freeList_st, hFrng']
  have hins' : ∀ j : Nat, (pushLive (freeList numRegs atf aF) live).st.insts[j]? = aF.st.insts[j]? := by
    intro j
    show (freeList numRegs atf aF).st.insts[j]? = _
    rw [freeList_st]
  have hnre' : (pushLive (freeList numRegs atf aF) live).nre = nrePush (L, t) a2.nre := by
    show (freeList numRegs atf aF).nre = _
    rw [freeList_nre, hFnre']
  have hrepl' : ∀ t', alGet (pushLive (freeList numRegs atf aF) live).repl t' =
      if t' ∈ atf then none else alGet aF.repl t' := fun t' => alGet_freeList numRegs atf hcF.regs t'
  have hfree' : ∀ r ∈ (pushLive (freeList numRegs atf aF) live).freeRegs, r < numRegs := by
    show ∀ r ∈ (freeList numRegs atf aF).freeRegs, r < numRegs
    apply freeList_freeRegs_lt
    rw [hfr, DF.freeRegs]; exact hT.freeLt
  generalize pushLive (freeList numRegs atf aF) live = A' at *
  -- the members of `atf`
  have hatfm : ∀ y, y ∈ atf ↔ y ∈ atf0 ∧ s0 ≠ .tmp y ∧ s1 ≠ .tmp y := by
    intro y
    rw [S2.atfMem, S1.atfMem]
    constructor
    · rintro ⟨⟨h1, h2⟩, h3⟩; exact ⟨h1, h2, h3⟩
    · rintro ⟨h1, h2, h3⟩; exact ⟨⟨h1, h2⟩, h3⟩
  -- the range table
  have hR : ∀ (t' : Nat) (r0 : RangeInfo), b.st.ranges[t']? = some r0 →
      ∃ r2 : RangeInfo, a2.st.ranges[t']? = some r2 ∧
        ((s0 ≠ .tmp t' ∧ s1 ≠ .tmp t') → r2 = r0) ∧ ((s0 = .tmp t' ∨ s1 = .tmp t') → r2.lastUse = some f) := by
    intro t' r0 h0
    obtain ⟨r1, g1, _, _, g4, g5⟩ := S1.ranges t' r0 h0
    obtain ⟨r2, q1, _, _, q4, q5⟩ := S2.ranges t' r1 g1
    refine ⟨r2, q1, ?_, ?_⟩
    · rintro ⟨n0, n1⟩
      rw [q4 n1, g4 n0]
    · intro hop
      by_cases h1 : s1 = .tmp t'
      · exact q5 h1
      · rw [q4 h1]
        exact g5 (hop.resolve_right h1)
  have hRback : ∀ (t' : Nat) (r2 : RangeInfo), a2.st.ranges[t']? = some r2 →
      ∃ r0 : RangeInfo, b.st.ranges[t']? = some r0 := by
    intro t' r2 h2
    have hlt : t' < b.st.ranges.size := by
      rw [← fuseSrcP_ranges_size e9, ← fuseSrcP_ranges_size e10]; exact lt_of_getElem? h2
    exact ⟨_, Array.getElem?_eq_getElem hlt⟩
  -- operands of the moved computation
  have hopnd : ∀ u, (s0 = .tmp u ∨ s1 = .tmp u) →
      ∃ ru : RangeInfo, s.ranges[u]? = some ru ∧ ru.created < k ∧ ∃ rb : RangeInfo, b.st.ranges[u]? = some rb := by
    intro u hu
    obtain ⟨ru, Lu, g1, _, g3, _⟩ := hpa.uses k _ u hPk (by
      rw [uses_mkArith]; rcases hu with rfl | rfl <;> simp [locTmp])
    obtain ⟨rb, q1, _⟩ := hb.rkeep u ru g1
    exact ⟨ru, g1, g3, rb, q1⟩
  -- the destination
  obtain ⟨rt, ft, Lt, gt1, gt2, gt3, gt4, gt5⟩ := hp.defd k _ t hPk (by rw [dstTmp?_mkArith])
  obtain ⟨rd, gd1, gd2⟩ := hpa.defs k _ t hPk (by rw [defs_mkArith]; simp [locTmp])
  rw [gt1] at gd1; cases gd1
  have hrt : r = rt := by
    obtain ⟨r', q1, _, _, q4⟩ := hb.rkeep t rt gt1
    rw [q4 (by omega), e2] at q1
    exact Option.some.inj q1
  subst hrt
  rw [gt3] at e3; cases e3
  rw [gt2] at e4; cases e4
  have hLn : L < s.insts.size := hp.lastLt t r L gt1 gt3
  have htatf : t ∉ atf := by
    intro hm
    have := hdead t ((hatfm t).1 hm).1 r L gt1 gt3
    omega
  have hbinsts : ∀ j : Nat, b.st.insts[j]? = a.st.insts[j]? := fun j => by rw [DF.st]
  refine ⟨?_, ?_, ?_, ?_, ?_, ?_, hfree', ?_⟩
  · -- complete
    intro j x' t' r' hj hx' ht' hr' hcr
    rw [hins'] at hx'
    by_cases hjf : j = f
    · subst hjf
      rw [hfF] at hx'; cases hx'
      have hu := uses_mkArith_tmp ht'
      obtain ⟨ru, g1, g2, _⟩ := hopnd t' hu
      rw [hr'] at g1; cases g1
      obtain ⟨l, hl⟩ := hT.complete k inst0 t' r' (Nat.le_refl _) (by rw [← hbinsts]; exact hi0)
        (by rw [hinst0, uses_mkArith]; rw [uses_mkArith] at ht'; exact ht') hr' g2
      have hna : t' ∉ atf := by
        intro hm
        obtain ⟨_, n0, n1⟩ := (hatfm t').1 hm
        rcases hu with h | h
        · exact n0 h
        · exact n1 h
      rw [hrepl']
      simp only [hna, if_false]
      rw [hreplF, alGet_alSet]
      split
      · exact ⟨_, rfl⟩
      · exact ⟨l, by rw [DF.repl]; exact hl⟩
    · have hjk : j ≠ k := by omega
      have hxa : a.st.insts[j]? = some x' := by rw [← hbinsts, ← hinsF j hjk hjf]; exact hx'
      by_cases hck : r'.created = k
      · obtain ⟨y, hy, hdy, _⟩ := created_here hp hI (by omega) hxa ht' hr' hck
        rw [hPk] at hy; cases hy
        rw [dstTmp?_mkArith] at hdy
        cases hdy
        rw [hrepl']
        simp only [htatf, if_false]
        exact ⟨_, by rw [hreplF, alGet_alSet_self]⟩
      · obtain ⟨l, hl⟩ := hT.complete j x' t' r' (by omega) hxa ht' hr' (by omega)
        have hna : t' ∉ atf := fun hm => DF.noread t' ((hatfm t').1 hm).1 j x' hj hxa ht'
        rw [hrepl']
        simp only [hna, if_false]
        rw [hreplF, alGet_alSet]
        split
        · exact ⟨_, rfl⟩
        · exact ⟨l, by rw [DF.repl]; exact hl⟩
  · -- fusedLast
    intro f' op' m' t'' s0' s1' u hFu hs
    rw [hst']
    by_cases hff : f' = f
    · subst hff
      have h2 := hFu.2.2
      rw [hins', hfF] at h2
      obtain ⟨rfl, _, rfl, rfl⟩ := mkArith_inj (Option.some.inj h2)
      obtain ⟨_, _, _, rb, hrb⟩ := hopnd u hs
      obtain ⟨r2, q1, _, q3⟩ := hR u rb hrb
      exact ⟨r2, f', q1, q3 hs, Nat.le_refl _⟩
    · have hfk : f' ≠ k := Nat.ne_of_gt hFu.1
      have hFa : Fused s k a f' op' m' t'' s0' s1' := by
        refine fused_mono hFu (Nat.le_of_succ_le hFu.1) ?_
        rw [hins', hinsF f' hfk hff, hbinsts]
      obtain ⟨r0, L0, g1, g2, g3⟩ := hT.fusedLast f' op' m' t'' s0' s1' u hFa hs
      obtain ⟨r2, q1, q2, q3⟩ := hR u r0 (by rw [DF.st]; exact g1)
      by_cases hop : s0 = .tmp u ∨ s1 = .tmp u
      · refine ⟨r2, f, q1, q3 hop, ?_⟩
        obtain ⟨i', hik', hc', _⟩ := fused_cand hI hFa
        have hcnew : Cand s k op t s0 s1 f m (.tmp t) := ⟨hPk, ⟨r, L, gt1, gt2, gt3⟩, hPf⟩
        exact hp.mono i' op' t'' s0' s1' f' m' k op t s0 s1 f m u hc' hcnew hik' hs hop
      · have : s0 ≠ .tmp u ∧ s1 ≠ .tmp u := ⟨fun h => hop (Or.inl h), fun h => hop (Or.inr h)⟩
        rw [q2 this] at q1
        exact ⟨r0, L0, q1, g2, g3⟩
  · -- heapRange
    intro e t' h
    rw [hst']
    rw [hnre', mem_nrePush] at h
    have hfromb : ∀ (t' : Nat) (r0 : RangeInfo) (L0 : Nat), b.st.ranges[t']? = some r0 → r0.lastUse = some L0 →
        ∃ (r2 : RangeInfo) (L2 : Nat), a2.st.ranges[t']? = some r2 ∧ r2.lastUse = some L2 := by
      intro t' r0 L0 h0 hL0
      obtain ⟨r2, q1, q2, q3⟩ := hR t' r0 h0
      by_cases hop : s0 = .tmp t' ∨ s1 = .tmp t'
      · exact ⟨r2, f, q1, q3 hop⟩
      · have : s0 ≠ .tmp t' ∧ s1 ≠ .tmp t' := ⟨fun h => hop (Or.inl h), fun h => hop (Or.inr h)⟩
        rw [q2 this] at q1
        exact ⟨r0, L0, q1, hL0⟩
    rcases h with h | h
    · simp only [Prod.mk.injEq] at h
      rw [h.2]
      exact hfromb t r L e2 gt3
    · rcases S2.nre _ h with h2 | ⟨u, hu, he, _⟩
      · rcases S1.nre _ h2 with h1 | ⟨u, hu, he, _⟩
        · obtain ⟨r0, L0, g1, g2⟩ := DF.range e t' h1
          exact hfromb t' r0 L0 g1 g2
        · simp only [Prod.mk.injEq] at he
          rw [he.2]
          obtain ⟨_, _, _, rb, hrb⟩ := hopnd u (Or.inl hu)
          obtain ⟨r2, q1, _, q3⟩ := hR u rb hrb
          exact ⟨r2, f, q1, q3 (Or.inl hu)⟩
      · simp only [Prod.mk.injEq] at he
        rw [he.2]
        obtain ⟨_, _, _, rb, hrb⟩ := hopnd u (Or.inr hu)
        obtain ⟨r2, q1, _, q3⟩ := hR u rb hrb
        exact ⟨r2, f, q1, q3 (Or.inr hu)⟩
  · -- replHeap
    intro t' l hl
    rw [hrepl'] at hl
    split at hl
    · cases hl
    · rename_i hna
      rw [hnre']
      rw [hreplF, alGet_alSet] at hl
      split at hl
      · rename_i e; subst e
        exact ⟨L, by rw [mem_nrePush]; exact Or.inl rfl⟩
      · rcases DF.kept t' l (by rw [← DF.repl]; exact hl) with ⟨e, he⟩ | hm
        · exact ⟨e, by rw [mem_nrePush]; exact Or.inr (S2.nreSub _ (S1.nreSub _ he))⟩
        · -- about to be released, but an operand of the moved computation
          have hop : s0 = .tmp t' ∨ s1 = .tmp t' := by
            apply Classical.byContradiction
            intro hno
            exact hna ((hatfm t').2 ⟨hm, fun h => hno (Or.inl h), fun h => hno (Or.inr h)⟩)
          refine ⟨f, ?_⟩
          rw [mem_nrePush]
          right
          by_cases h0 : s0 = .tmp t'
          · subst h0
            exact S2.nreSub _ (fuseSrcP_push e9 hm)
          · have h1 : s1 = .tmp t' := hop.resolve_left h0
            subst h1
            exact fuseSrcP_push e10 ((S1.atfMem t').2 ⟨hm, h0⟩)
  · -- heapBound
    intro e t' h
    rw [hnre', mem_nrePush] at h
    rcases h with h | h
    · simp only [Prod.mk.injEq] at h
      rw [h.1]; omega
    · rcases S2.nre _ h with h2 | ⟨u, hu, he, _⟩
      · rcases S1.nre _ h2 with h1 | ⟨u, hu, he, _⟩
        · have := DF.bound e t' h1; omega
        · simp only [Prod.mk.injEq] at he
          rw [he.1]; omega
      · simp only [Prod.mk.injEq] at he
        rw [he.1]; omega
  · -- sorted
    rw [hnre']
    exact sortedE_nrePush (fuseSrcP_sorted e10 (fuseSrcP_sorted e9 DF.sorted))
  · -- rangeLt
    intro t' r2 L2 h2 hL2
    rw [hst'] at h2
    obtain ⟨r0, h0⟩ := hRback t' r2 h2
    obtain ⟨r2', q1, q2, q3⟩ := hR t' r0 h0
    rw [h2] at q1; cases q1
    by_cases hop : s0 = .tmp t' ∨ s1 = .tmp t'
    · rw [q3 hop] at hL2; cases hL2; omega
    · have : s0 ≠ .tmp t' ∧ s1 ≠ .tmp t' := ⟨fun h => hop (Or.inl h), fun h => hop (Or.inr h)⟩
      rw [q2 this] at hL2
      exact hT.rangeLt t' r0 L2 (by rw [← DF.st]; exact h0) hL2

/-! ### one round -/

theorem tinv_step (hp : TotalPre s) {numRegs k : Nat} {a a' : ASt w} {u : Unit} (hk : k < s.insts.size)
    (hI : PassInv s k a) (hT : TInv s numRegs k a) (h : allocStep numRegs k a = .ok (u, a')) :
    TInv s numRegs (k + 1) a' := by
  obtain ⟨atf0, b, inst0, can, atf, aF, cur, new, live, hd, hi0, hF, hc, hn, hl, hD⟩ := allocStep_ok h
  replace hD : phDst k can (pushLive (freeList numRegs atf (aF.setI k new)) live) = .ok (u, a') := hD
  obtain ⟨d1, d2, d3⟩ := drainEnds_ok _ hd
  obtain ⟨hb, hdead⟩ := passInv_drain hI d1 d2 (fun t ht => (d3 t ht).resolve_left (by simp))
  have DF := drainFacts hp.pre hI hT hd
  rcases hF with ⟨rfl, rfl⟩ | ⟨op, t, s0, s1, r, L, f, m, src, atf1, a1, a2, x, e1, e2, e3, e4, e5, e6, e7, e8,
      e9, e10, e11, rfl⟩
  · have hcur : cur = inst0 := Option.some.inj (hc.symm.trans hi0)
    subst hcur
    exact tinv_nofuse hp hk hI hT hb DF hi0 hn hD
  · obtain ⟨hcF, hkF, _⟩ := passInv_fuse hp.pre hb hdead hi0 e1 e2 e3 e4 e5 e6 e7 e8 e9 e10 e11
    rw [hkF] at hc; cases hc
    have hnew : new = .noop := by
      simp only [rwInst, arith?, Except.ok.injEq] at hn; exact hn.symm
    subst hnew
    rw [setI_self hkF] at hD
    have hx3 : (pushLive (freeList numRegs atf (retarget (fuseSt a2 k t L f m inst0) f m x)) live).st.insts[k]?
        = some .noop := by
      show (freeList numRegs atf (retarget (fuseSt a2 k t L f m inst0) f m x)).st.insts[k]? = _
      rw [freeList_st]; exact hkF
    have hst' : a' = pushLive (freeList numRegs atf (retarget (fuseSt a2 k t L f m inst0) f m x)) live := by
      obtain ⟨x', hx', h'⟩ := phDst_ok hD
      rw [hx3] at hx'; cases hx'
      rcases h' with ⟨_, e⟩ | ⟨t0, ht0, _⟩
      · exact e
      · cases ht0
    exact tinv_fuse hp hk hI hT hb DF hdead hi0 e1 e2 e3 e4 e5 e6 e7 e8 e9 e10 e11 hst'

/-- **Progress**: under the invariants no lookup of round `k` fails. -/
theorem alloc_step_total (hp : TotalPre s) (numRegs : Nat) {k : Nat} {a : ASt w} (hk : k < s.insts.size)
    (hI : PassInv s k a) (hT : TInv s numRegs k a) : ∃ u a', allocStep numRegs k a = .ok (u, a') := by
  have hpa := hp.pre
  suffices H : ∃ res, allocStep numRegs k a = .ok res by
    obtain ⟨⟨u, a'⟩, h⟩ := H; exact ⟨u, a', h⟩
  rw [allocStep_eqK]
  simp only [get_bind]
  -- phase 1
  obtain ⟨atf0, b, hd, _⟩ := drainEnds_total (i := k) (2 * a.nre.length + 2) [] a hT.sorted hT.heapRange
    (by have := muE_le k (luOf a) a.nre; omega)
  refine bind_prog hd ?_
  obtain ⟨d1, d2, d3⟩ := drainEnds_ok _ hd
  obtain ⟨hb, hdead⟩ := passInv_drain hI d1 d2 (fun t ht => (d3 t ht).resolve_left (by simp))
  have DF := drainFacts hpa hI hT hd
  have hkb : k < b.st.insts.size := by rw [hb.isize]; exact hk
  have hi0 : b.st.insts[k]? = some b.st.insts[k] := Array.getElem?_eq_getElem hkb
  generalize b.st.insts[k] = inst0 at hi0
  refine bind_prog ((instAt_ok _ _ _ _ _).2 ⟨hi0, rfl⟩) ?_
  -- the current instruction is the input instruction or a moved computation
  have hcurcase : s.insts[k]? = some inst0 ∨ ∃ op m t s0 s1, Fused s k b k op m t s0 s1 ∧
      inst0 = mkArith op (.mem m) s0 s1 := by
    rcases hb.fut k (Nat.le_refl _) with hsame | ⟨op, m, t, s0, s1, hFu⟩
    · exact Or.inl (by rw [← hsame]; exact hi0)
    · refine Or.inr ⟨op, m, t, s0, s1, hFu, ?_⟩
      have h2 := hFu.2.2
      rw [hi0] at h2
      exact Option.some.inj h2
  -- the destination temporary of the current instruction
  have hdstb : ∀ t, dstTmp? inst0 = some t → s.insts[k]? = some inst0 ∧
      ∃ (r : RangeInfo) (f L : Nat), s.ranges[t]? = some r ∧ b.st.ranges[t]? = some r ∧ r.created = k ∧
        r.firstUse = some f ∧ r.lastUse = some L ∧ k < f ∧ f ≤ L := by
    intro t ht
    rcases hcurcase with hPk | ⟨op, m, t', s0, s1, _, rfl⟩
    · obtain ⟨r, f, L, g1, g2, g3, g4, g5⟩ := hp.defd k inst0 t hPk ht
      obtain ⟨rd, gd1, gd2⟩ := hpa.defs k inst0 t hPk (mem_defs_of_dstTmp? ht)
      rw [g1] at gd1; cases gd1
      obtain ⟨r', q1, _, _, q4⟩ := hb.rkeep t r g1
      rw [q4 (by omega)] at q1
      exact ⟨hPk, r, f, L, g1, q1, gd2, g2, g3, g4, g5⟩
    · rw [dstTmp?_mkArith] at ht; cases ht
  -- every temporary read by the current instruction has a location
  have hsrcb : ∀ u ∈ BcWf.uses inst0, (∃ l, alGet b.repl u = some l) ∧ ∃ ru : RangeInfo, b.st.ranges[u]? = some ru := by
    intro u hu
    have hxa : a.st.insts[k]? = some inst0 := by rw [← DF.st]; exact hi0
    obtain ⟨j', y, hy, huy⟩ := read_in_input hI (Nat.le_refl _) hxa hu
    have hcr : ∃ ru : RangeInfo, s.ranges[u]? = some ru ∧ ru.created < k := by
      rcases hcurcase with hPk | ⟨op, m, t', s0, s1, hFu, rfl⟩
      · obtain ⟨ru, Lu, g1, _, g3, _⟩ := hpa.uses k inst0 u hPk hu
        exact ⟨ru, g1, g3⟩
      · obtain ⟨ru, g1, g2⟩ := fused_src_created hpa hb hFu (u := u) (uses_mkArith_tmp hu)
        exact ⟨ru, g1, by omega⟩
    obtain ⟨ru, g1, g2⟩ := hcr
    obtain ⟨l, hl⟩ := hT.complete k inst0 u ru (Nat.le_refl _) hxa hu g1 g2
    obtain ⟨rb, q1, _⟩ := hb.rkeep u ru g1
    exact ⟨⟨l, by rw [DF.repl]; exact hl⟩, rb, q1⟩
  -- phase 2
  refine phCanK_prog ?_ ?_
  · intro t ht
    obtain ⟨_, r, f, L, _, g2, _, _, g5, g6, g7⟩ := hdstb t ht
    exact ⟨r, L, g2, g5, by omega⟩
  intro can
  -- phase 3
  refine phFuseK_prog ?_ ?_
  · intro op t s0 s1 har
    have hinst0 : inst0 = mkArith op (.tmp t) s0 s1 := arith?_eq_some.1 har
    obtain ⟨_, r, f, L, g1, g2, _, g4, g5, g6, g7⟩ := hdstb t (by rw [hinst0, dstTmp?_mkArith])
    refine ⟨r, g2, ?_, ?_⟩
    · intro L' hL'
      have hfn : f < b.st.insts.size := by
        rw [hb.isize]
        have := hp.lastLt t r L g1 g5
        omega
      exact ⟨f, _, g4, Array.getElem?_eq_getElem hfn⟩
    · intro u hu
      apply hsrcb u
      rw [hinst0, uses_mkArith]
      rcases hu with rfl | rfl <;> simp [locTmp]
  intro atf aF hF
  -- phases 4-7, as in `alloc_step`
  rcases hF with ⟨rfl, rfl⟩ | ⟨op, t, s0, s1, r, L, f, m, src, atf1, a1, a2, x, e1, e2, e3, e4, e5, e6, e7, e8,
      e9, e10, e11, rfl⟩
  · -- no fusion
    obtain ⟨new, hn⟩ := rwInst_total (repl := aF.repl) (cur := inst0) (fun u hu => (hsrcb u hu).1)
    refine phRewriteK_prog hi0 hn ?_
    have hc1 := passInv_rewrite hb hi0 hn
    have hc2 := passInv_free (numRegs := numRegs) (atf := atf) hc1
    refine bind_prog (freeAll_eq numRegs atf _) ?_
    have hfl : ∀ r ∈ (freeList numRegs atf (aF.setI k new)).freeRegs, r < numRegs := by
      apply freeList_freeRegs_lt
      show ∀ r ∈ aF.freeRegs, r < numRegs
      rw [DF.freeRegs]; exact hT.freeLt
    obtain ⟨live, hlive⟩ := liveMask_total hc2.regs.freeRegsNodup hfl
    refine phLiveK_prog (a := freeList numRegs atf (aF.setI k new)) hlive ?_
    have hcst : (freeList numRegs atf (aF.setI k new)).st = (aF.setI k new).st := freeList_st _ _ _
    have hx3 : (pushLive (freeList numRegs atf (aF.setI k new)) live).st.insts[k]? = some new := by
      show (freeList numRegs atf (aF.setI k new)).st.insts[k]? = _
      rw [hcst, getElem?_setI]; simp [hkb]
    refine phDst_prog hx3 ?_
    intro t ht
    obtain ⟨hzc, ycur, hycur, hbrc⟩ := hb.skel k inst0 hi0
    obtain ⟨_, _, hnd⟩ := rwInst_facts hn (fun t v g => (hb.replDom t v g).1) hzc
    obtain ⟨_, r, f, L, _, g2, _, _, g5, g6, g7⟩ := hdstb t (by rw [← hnd]; exact ht)
    refine ⟨r, L, ?_, g5, by omega⟩
    show (freeList numRegs atf (aF.setI k new)).st.ranges[t]? = some r
    rw [hcst]; exact g2
  · -- fusion
    obtain ⟨hcF, hkF, _, _, _, _, _, _, _, hfr, _⟩ :=
      passInv_fuse hpa hb hdead hi0 e1 e2 e3 e4 e5 e6 e7 e8 e9 e10 e11
    generalize retarget (fuseSt a2 k t L f m inst0) f m x = aF at *
    refine phRewriteK_prog hkF (new := .noop) rfl ?_
    rw [setI_self hkF]
    have hc2 := passInv_free (numRegs := numRegs) (atf := atf) hcF
    refine bind_prog (freeAll_eq numRegs atf _) ?_
    have hfl : ∀ r ∈ (freeList numRegs atf aF).freeRegs, r < numRegs := by
      apply freeList_freeRegs_lt
      rw [hfr, DF.freeRegs]; exact hT.freeLt
    obtain ⟨live, hlive⟩ := liveMask_total hc2.regs.freeRegsNodup hfl
    refine phLiveK_prog (a := freeList numRegs atf aF) hlive ?_
    have hx3 : (pushLive (freeList numRegs atf aF) live).st.insts[k]? = some .noop := by
      show (freeList numRegs atf aF).st.insts[k]? = _
      rw [freeList_st]; exact hkF
    refine phDst_prog hx3 ?_
    intro t ht
    cases ht

end Alloc
end C02
end Hpbf
