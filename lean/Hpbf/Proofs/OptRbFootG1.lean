/-
Rebuild-round proofs: the FOOTPRINT of `loopOrIf` (non-moving child) WITHOUT the hypothesis that the child's guard is
trivial for real loops (`hGcT`), part 1: the head correspondence in "cut" form, the abstract statement `HeadsV`
(every head of the valid emitted run has a child-valid companion state), and the generic round / loop lemmas.
-/
import Hpbf.Proofs.OptRbHeads

namespace Hpbf
namespace OptProof
open Opt OptSem Ir

variable {w : Nat}

/-! ### the head correspondence, stated for `loopPrep` (so that `sub1` and `comps` are those of the caller) -/

theorem loopPrep_stay_heads {shP shC shS cS : Int} {bodyS : List (Instr w)}
    {s : Rebuild w} {ps : List (Rebuild w)} {sub1 : Rebuild w} {isLoop : Bool} {L : OptLoop w}
    {C : List Int} {pc : List (Rebuild w)} {sub0 : Rebuild w} {os os' : Orders}
    {r : Rebuild w × Rebuild w × List Int} {G Gc : State w → Prop}
    (hc : ChildOk Gc shP shC pc sub0 sub1 cS bodyS) (hwf : Wf s) (hwf1 : Wf sub1)
    (hns1 : (sub1.subShift || sub1.shift != s.shift) = false)
    (hsh : shC + shS = shP)
    (hGc : ∀ M0 σE σS, RelAt shP s ps M0 σE σS → G σS → ∀ k σk, Head cS shS bodyS σS k σk →
      (isLoop = false → k = 0) → σk.rd cS ≠ 0#w → Gc σk)
    (h2 : (loopPrep s ps sub1 (cS + shP) L C).run os = .ok (r, os')) :
    ∃ comps : List (List (Int × Expr w)), r.1.insts = s.insts ++ comps.map Instr.calc ∧
      ∀ M0 σ1 σS, RelAt shP s ps M0 σ1 σS → G σS →
        ∀ k b, Head (cS + shP) 0 sub1.insts (comps.foldl doCalc σ1) k b → (isLoop = false → k = 0) →
          ∃ σk, Head cS shS bodyS σS k σk ∧ HeadCtx Gc shP cS pc sub0 sub1 L σk b := by
  obtain ⟨s3, comps, Dx, hreq, hclob, hdrop, hreads, hconstP, hdead, hminvx⟩ := loopPrep_stay hwf hns1 h2
  have e1 : r.1.insts = s3.insts := by
    rw [hreq]
    exact (condZero_same s3 _ (cS + shP)).2.2.2.2.2.2.2.2.2.1
  refine ⟨comps, e1.trans hclob.insts, ?_⟩
  intro M0 σE σS hrel hG
  obtain ⟨m1, m2, m3⟩ := foldl_doCalc_meta comps σE
  have hX : MInvX Dx s3 ps M0 (memE (comps.foldl doCalc σE)) (memS (comps.foldl doCalc σE) σS) := by
    rw [memE_foldl_doCalc σE comps hclob.nodup, memS_foldl_doCalc]
    exact hminvx M0 _ _ hrel.inv
  have hJ0 : StayJ shP cS shS bodyS sub1 s3 Dx σS (comps.foldl doCalc σE) 0 σS (comps.foldl doCalc σE) :=
    stayJ_init hX (by rw [m3]; exact hrel.tr) (by rw [m2]; exact hrel.env) (by rw [m1]; exact hrel.ptr)
  have hread' : ∀ v, v ∈ sub1.reads ∨ v = cS + shP → mGet s3.pending v = none ∧ ¬ Dx v := by
    intro v hv
    refine ⟨hreads v hv, fun hd => ?_⟩
    obtain ⟨n1, n2⟩ := hdrop.notRead v hd
    rcases hv with h | h
    · exact n1 h
    · exact n2 h
  have hDx' : ∀ v, Dx v → DefW sub1 v := by
    intro v hd
    obtain ⟨kk, hkk, hm⟩ := hdrop.written v hd
    exact ⟨kk, mGet_of_mem hwf1.writ hkk, hm⟩
  have hcondrd : ∀ (k : Nat) (a b : State w),
      StayJ shP cS shS bodyS sub1 s3 Dx σS (comps.foldl doCalc σE) k a b → a.rd cS = b.rd (cS + shP) := by
    intro k a b hJ
    obtain ⟨p1, p2⟩ := hread' (cS + shP) (Or.inr rfl)
    have := hJ.agree (cS + shP) p1 p2
    show a.tape.get (a.ptr + cS) = b.tape.get (b.ptr + (cS + shP))
    rw [hJ.ptr]
    have e : b.ptr + shP + cS = b.ptr + (cS + shP) := by omega
    rw [e]; exact this
  -- every emitted head has its source head
  have hheads : ∀ k b, Head (cS + shP) 0 sub1.insts (comps.foldl doCalc σE) k b → (isLoop = false → k = 0) →
      ∃ σk, StayJ shP cS shS bodyS sub1 s3 Dx σS (comps.foldl doCalc σE) k σk b := by
    intro k b hh
    induction hh with
    | zero => intro _; exact ⟨σS, hJ0⟩
    | @succ k' bk b' hprev hne hex ih =>
      intro hk
      have hil : isLoop = true := by
        cases h : isLoop with
        | true => rfl
        | false => have := hk h; omega
      obtain ⟨σk, hJ⟩ := ih (fun h => by rw [hil] at h; cases h)
      have hneS : σk.rd cS ≠ 0#w := by rw [hcondrd k' σk bk hJ]; exact hne
      have hg := hGc M0 σE σS hrel hG k' σk hJ.head (fun h => by rw [hil] at h; cases h) hneS
      obtain ⟨hs, _⟩ := stayJ_round hc hsh hread' hDx' hJ hneS hg
      obtain ⟨a', _, hq⟩ := hs.finR b' hex
      exact ⟨a'.mov shS, hq⟩
  intro k b hh hk
  obtain ⟨σk, hJ⟩ := hheads k b hh hk
  refine ⟨σk, hJ.head, ?_⟩
  have hXptr : (σk.mov (-shP)).ptr = b.ptr := by
    show σk.ptr + -shP = b.ptr
    rw [hJ.ptr]; omega
  have hXS : ∀ v, memE (σk.mov (-shP)) v = memS b σk v := by
    intro v
    show σk.tape.get ((σk.mov (-shP)).ptr + v) = σk.tape.get (b.ptr + v)
    rw [hXptr]
  have hR : ∀ v, (v ∈ sub1.reads ∨ v = cS + shP) → memS b σk v = memE b v := by
    intro v hv
    obtain ⟨p1, p2⟩ := hread' v hv
    exact hJ.agree v p1 p2
  refine ⟨(hcondrd k σk b hJ).symm, ?_, hXptr, hJ.env, hJ.tr, ?_, ?_⟩
  · intro hne hg
    obtain ⟨M0c, hre⟩ := hc.entry (σk.mov (-shP)) σk (sameMem_movNeg shP σk) hne hg
    exact ⟨⟨M0c, σk, hre, hg⟩, (hc.rep M0c _ σk hre hg).2⟩
  · intro v hv
    rw [hXS v]; exact hR v (Or.inl hv)
  · intro hnev v kk hvk hm
    rw [hXS v]
    have hkey : v ∈ mKeys sub1.written := List.mem_map.2 ⟨(v, kk), hvk, rfl⟩
    have hnd : ¬ Dx v := by
      intro hd
      obtain ⟨k', hk', hm'⟩ := hdrop.written v hd
      have g1 := mGet_of_mem hwf1.writ hvk
      have g2 := mGet_of_mem hwf1.writ hk'
      rw [g1] at g2
      cases g2
      rw [hm] at hm'
      cases hm'
    cases hC : C.contains v with
    | true => exact hJ.agree v (hconstP v hkey hC) hnd
    | false => exact hJ.agree v (hdead hnev (v, kk) hvk hC).1 hnd

/-! ### the abstract statement: every head of the valid run has a child-valid companion -/

/-- Every head `a` (with non-zero condition cell) of the emitted loop / if started in `τ1` has a companion state
`σX` (the source head, re-coordinated) that is a valid entry state of the child, from which the child's code does
not go bad, and that agrees with `a` on everything the child reads, on the condition cell and (when the loop has an
effect) on the cells the child only maybe-writes. -/
def HeadsV (Gc : State w → Prop) (shP cS : Int) (pc : List (Rebuild w)) (sub0 sub1 : Rebuild w) (L : OptLoop w)
    (isLoop : Bool) (τ1 : State w) : Prop :=
  ∀ k a, Head (cS + shP) 0 sub1.insts τ1 k a → (isLoop = false → k = 0) → a.rd (cS + shP) ≠ 0#w →
    ∃ σX, ValidG Gc shP sub0 pc σX ∧ ¬ Bad sub1.insts σX ∧ σX.ptr = a.ptr ∧ σX.env = a.env ∧
      σX.trace = a.trace ∧ (∀ v ∈ sub1.reads, memE σX v = memE a v) ∧
      memE σX (cS + shP) = memE a (cS + shP) ∧
      (L.noEffect = false → ∀ v k, (v, k) ∈ sub1.written → k.isMaybe = true → memE σX v = memE a v)

theorem headsV_of_ctx {Gc : State w → Prop} {shP shS cS : Int} {pc : List (Rebuild w)} {sub0 sub1 : Rebuild w}
    {L : OptLoop w} {isLoop : Bool} {bodyS : List (Instr w)} {τ1 σS : State w}
    (hh : ∀ k b, Head (cS + shP) 0 sub1.insts τ1 k b → (isLoop = false → k = 0) →
      ∃ σk, Head cS shS bodyS σS k σk ∧ HeadCtx Gc shP cS pc sub0 sub1 L σk b)
    (hg : ∀ k σk, Head cS shS bodyS σS k σk → (isLoop = false → k = 0) → σk.rd cS ≠ 0#w → Gc σk) :
    HeadsV Gc shP cS pc sub0 sub1 L isLoop τ1 := by
  intro k a ha hk hne
  obtain ⟨σk, hσk, ctx⟩ := hh k a ha hk
  have hneS : σk.rd cS ≠ 0#w := by rw [← ctx.cond]; exact hne
  obtain ⟨hv, hnb⟩ := ctx.valid hneS (hg k σk hσk hk hneS)
  refine ⟨σk.mov (-shP), hv, hnb, ctx.ptr, ctx.env, ctx.tr, ctx.reads, ?_, ctx.maybe⟩
  have e1 : memE (σk.mov (-shP)) (cS + shP) = σk.rd cS := by
    show σk.tape.get (σk.ptr + -shP + (cS + shP)) = σk.tape.get (σk.ptr + cS)
    have e : σk.ptr + -shP + (cS + shP) = σk.ptr + cS := by omega
    rw [e]
  rw [e1, ← ctx.cond]
  rfl

theorem head_succ_ne {c sh : Int} {body : List (Instr w)} {σ x : State w} {k : Nat}
    (h : Head c sh body σ k x) : k ≠ 0 → σ.rd c ≠ 0#w := by
  induction h with
  | zero => intro h; exact absurd rfl h
  | @succ k' σk σ' hprev hne _ ih =>
    intro _
    by_cases hk : k' = 0
    · subst hk
      cases hprev
      exact hne
    · exact ih hk

theorem rd_eq_of_agreeOff {X : Int → Prop} {a b : State w} {c : Int} (h : AgreeOff X a b) (hc : ¬ X c) :
    a.rd c = b.rd c := h.2.2.2 c hc

/-! ### one round -/

/-- The loop-head relation between the valid run (from `τ1`) and its mirror: `a` is the `k`-th head of the valid
run, and the two heads agree off some set that avoids the child's reads and the condition cell. -/
def JG (sub1 : Rebuild w) (c : Int) (τ1 : State w) (k : Nat) (a b : State w) : Prop :=
  Head c 0 sub1.insts τ1 k a ∧ ∃ X : Int → Prop, AgreeOff X a b ∧ (∀ v, X v → v ∉ sub1.reads) ∧ ¬ X c

section Round
variable {Gc : State w → Prop} {shP shC cS : Int} {pc : List (Rebuild w)} {sub0 sub1 : Rebuild w}
  {bodyS : List (Instr w)} {L : OptLoop w} {τ1 : State w}

theorem jg_round (hc : ChildOk Gc shP shC pc sub0 sub1 cS bodyS)
    (hV : HeadsV Gc shP cS pc sub0 sub1 L true τ1) {k : Nat} {a b : State w}
    (hJ : JG sub1 (cS + shP) τ1 k a b) (hne : a.rd (cS + shP) ≠ 0#w) :
    Sim (fun a' b' => JG sub1 (cS + shP) τ1 (k + 1) (a'.mov 0) (b'.mov 0)) sub1.insts sub1.insts a b ∧
    ¬ Bad sub1.insts b ∧
    (∀ b', Exec sub1.insts b (.fin b') →
      b'.ptr = b.ptr ∧ ∀ v, (v ∉ mKeys sub1.written ∧ v ∉ sub1.reads) → memE b' v = memE b v) := by
  obtain ⟨hh, X, hag, hXr, hXc⟩ := hJ
  obtain ⟨σX, hvX, hnbX, hXp, hXe, hXt, hXrd, hXcell, _⟩ := hV k a hh (fun h => Bool.noConfusion h) hne
  obtain ⟨Sc, hbm, hfr⟩ := child_chain hc.foot hc.badfoot hc.frame2 hc.noShift hc.w0 hvX hXr hXp hXe hXt hXrd hag
  refine ⟨?_, fun hb => hnbX (hbm hb), fun b' hb' => ?_⟩
  · refine Sc.fin_strengthen.mono ?_
    rintro a' b' ⟨⟨q1, q2, q3, via, _⟩, hxa, _⟩
    refine ⟨Head.succ hh hne hxa,
      fun v => ¬ (DefW sub1 v ∨ ¬ (memE σX v ≠ memE a v ∨ X v)), ?_, ?_, ?_⟩
    · exact AgreeOff.mov0 ⟨q1, q2, q3, fun v hv => via v (Classical.not_not.1 hv)⟩
    · intro v hv hr
      apply hv
      right
      rintro (h | h)
      · exact h (hXrd v hr)
      · exact hXr v h hr
    · intro h
      apply h
      right
      rintro (h' | h')
      · exact h' hXcell
      · exact hXc h'
  · obtain ⟨p, m⟩ := hfr b' hb'
    exact ⟨p, fun v hv => m v hv.1 hv.2⟩

/-- One round when the loop has an effect: the two runs agree afterwards off `Rest H sub1`. -/
theorem jf_round (hc : ChildOk Gc shP shC pc sub0 sub1 cS bodyS) (hwf1 : Wf sub1)
    (hV : HeadsV Gc shP cS pc sub0 sub1 L true τ1) (hnev : L.noEffect = false) {H : Int → Prop}
    (hHr : ∀ v, H v → v ∉ sub1.reads) {k : Nat} {a b : State w}
    (hh : Head (cS + shP) 0 sub1.insts τ1 k a) (hag : AgreeOff H a b) (hne : a.rd (cS + shP) ≠ 0#w) :
    Sim (fun a' b' => Head (cS + shP) 0 sub1.insts τ1 (k + 1) (a'.mov 0) ∧
        AgreeOff (Rest H sub1) (a'.mov 0) (b'.mov 0)) sub1.insts sub1.insts a b := by
  obtain ⟨σX, hvX, _, hXp, hXe, hXt, hXrd, _, hXm⟩ := hV k a hh (fun h => Bool.noConfusion h) hne
  obtain ⟨Sc, _, _⟩ := child_chain hc.foot hc.badfoot hc.frame2 hc.noShift hc.w0 hvX hHr hXp hXe hXt hXrd hag
  refine Sc.fin_strengthen.mono ?_
  rintro a' b' ⟨⟨q1, q2, q3, via, fr⟩, hxa, _⟩
  refine ⟨Head.succ hh hne hxa, AgreeOff.mov0 ⟨q1, q2, q3, ?_⟩⟩
  intro v hv
  by_cases hd : DefW sub1 v
  · exact via v (Or.inl hd)
  have hH : ¬ H v := fun h => hv ⟨h, hd⟩
  by_cases hk1 : memE σX v = memE a v
  · exact via v (Or.inr (fun h => h.elim (fun h' => h' hk1) hH))
  · by_cases hkey : v ∈ mKeys sub1.written
    · exfalso
      obtain ⟨vk, hvk, e⟩ := List.mem_map.1 hkey
      have hmb : vk.2.isMaybe = true := by
        cases hm : vk.2.isMaybe with
        | true => rfl
        | false =>
          exact absurd ⟨vk.2, by rw [← e]; exact mGet_of_mem hwf1.writ hvk, hm⟩ hd
      exact hk1 (hXm hnev v vk.2 (by rw [← e]; exact hvk) hmb)
    · have hrd : v ∉ sub1.reads := fun h => hk1 (hXrd v h)
      obtain ⟨fa, fb⟩ := fr v hkey hrd
      rw [fa, fb]
      exact hag.2.2.2 v hH

/-! ### the whole loop -/

theorem jg_cond {k : Nat} {a b : State w} (hJ : JG sub1 (cS + shP) τ1 k a b) :
    a.rd (cS + shP) = b.rd (cS + shP) := by
  obtain ⟨_, X, hag, _, hXc⟩ := hJ
  exact rd_eq_of_agreeOff hag hXc

/-- Badness of the emitted loop is mirrored. -/
theorem loop_bad_g (hc : ChildOk Gc shP shC pc sub0 sub1 cS bodyS)
    (hV : HeadsV Gc shP cS pc sub0 sub1 L true τ1) {τ2 : State w} {once : Bool}
    (hJ : JG sub1 (cS + shP) τ1 0 τ1 τ2) (hb : Bad [.loop (cS + shP) 0 sub1.insts once] τ2) :
    Bad [.loop (cS + shP) 0 sub1.insts once] τ1 := by
  refine loop_bad_mirror (J := fun a b => ∃ k, JG sub1 (cS + shP) τ1 k a b) ?_ ?_ ?_ ⟨0, hJ⟩ hb
  · rintro a b ⟨k, h⟩
    rw [jg_cond h]
  · rintro a b ⟨k, h⟩ hne
    exact (jg_round hc hV h (by rw [jg_cond h]; exact hne)).1.mono (fun _ _ h' => ⟨k + 1, h'⟩)
  · rintro a b ⟨k, h⟩ hne hb'
    exact absurd hb' (jg_round hc hV h (by rw [jg_cond h]; exact hne)).2.1

/-- The write frame of the mirror run of the emitted loop. -/
theorem loop_frame_g (hc : ChildOk Gc shP shC pc sub0 sub1 cS bodyS)
    (hV : HeadsV Gc shP cS pc sub0 sub1 L true τ1) {τ2 bb : State w} {once : Bool}
    (hJ : JG sub1 (cS + shP) τ1 0 τ1 τ2) (hex : Exec [.loop (cS + shP) 0 sub1.insts once] τ2 (.fin bb)) :
    bb.ptr = τ2.ptr ∧ ∀ v, (v ∉ mKeys sub1.written ∧ v ∉ sub1.reads) → memE bb v = memE τ2 v := by
  refine loop_frame_aux (J := fun a b => ∃ k, JG sub1 (cS + shP) τ1 k a b) ?_ ?_ ⟨0, hJ⟩ hex
  · rintro a b ⟨k, h⟩ hne
    exact (jg_round hc hV h (by rw [jg_cond h]; exact hne)).1.mono (fun _ _ h' => ⟨k + 1, h'⟩)
  · rintro a b ⟨k, h⟩ hne b' hb'
    exact (jg_round hc hV h (by rw [jg_cond h]; exact hne)).2.2 b' hb'

/-- The read footprint of the emitted loop when, once entered, it never ends (from the valid start state). -/
theorem loop_foot_nofin (hc : ChildOk Gc shP shC pc sub0 sub1 cS bodyS)
    (hV : HeadsV Gc shP cS pc sub0 sub1 L true τ1) {τ2 : State w} {once : Bool}
    (hJ : JG sub1 (cS + shP) τ1 0 τ1 τ2)
    (hnofin : τ1.rd (cS + shP) ≠ 0#w → ∀ x, ¬ Exec [.loop (cS + shP) 0 sub1.insts once] τ1 (.fin x)) :
    Sim (fun a b => a = τ1 ∧ b = τ2 ∧ τ1.rd (cS + shP) = 0#w)
      [.loop (cS + shP) 0 sub1.insts once] [.loop (cS + shP) 0 sub1.insts once] τ1 τ2 := by
  refine Sim.loop (J := fun a b => ∃ k, JG sub1 (cS + shP) τ1 k a b ∧ (k = 0 → a = τ1 ∧ b = τ2))
    ?_ ?_ ?_ ?_ ⟨0, hJ, fun _ => ⟨rfl, rfl⟩⟩
  · rintro a b ⟨k, h, _⟩
    rw [jg_cond h]
  · rintro a b ⟨k, ⟨_, X, hag, _, _⟩, _⟩
    exact hag.2.2.1.symm
  · rintro a b ⟨k, h, _⟩ hne
    exact (jg_round hc hV h hne).1.mono (fun _ _ h' => ⟨k + 1, h', fun h0 => absurd h0 (Nat.succ_ne_zero k)⟩)
  · rintro a b ⟨k, h, h0⟩ hz
    by_cases hk : k = 0
    · obtain ⟨e1, e2⟩ := h0 hk
      refine ⟨e1, e2, ?_⟩
      rw [← e1]; exact hz
    · exact absurd (head_exec_fin h.1 hz) (hnofin (head_succ_ne h.1 hk) a)

/-- The read footprint of the emitted loop when it has an effect. -/
theorem loop_foot_eff (hc : ChildOk Gc shP shC pc sub0 sub1 cS bodyS) (hwf1 : Wf sub1)
    (hV : HeadsV Gc shP cS pc sub0 sub1 L true τ1) (hnev : L.noEffect = false) {H : Int → Prop}
    (hHr : ∀ v, H v → v ∉ sub1.reads) (hHc : ¬ H (cS + shP)) {τ2 : State w} {once : Bool}
    (hag : AgreeOff H τ1 τ2) :
    Sim (fun a b => AgreeOff H a b ∧ ((a = τ1 ∧ b = τ2 ∧ τ1.rd (cS + shP) = 0#w) ∨ AgreeOff (Rest H sub1) a b))
      [.loop (cS + shP) 0 sub1.insts once] [.loop (cS + shP) 0 sub1.insts once] τ1 τ2 := by
  refine Sim.loop (J := fun a b => (∃ k, Head (cS + shP) 0 sub1.insts τ1 k a) ∧ AgreeOff H a b ∧
      ((a = τ1 ∧ b = τ2) ∨ AgreeOff (Rest H sub1) a b))
    ?_ ?_ ?_ ?_ ⟨⟨0, Head.zero⟩, hag, Or.inl ⟨rfl, rfl⟩⟩
  · rintro a b ⟨_, hab, _⟩
    rw [rd_eq_of_agreeOff hab hHc]
  · rintro a b ⟨_, hab, _⟩
    exact hab.2.2.1.symm
  · rintro a b ⟨⟨k, hh⟩, hab, _⟩ hne
    refine (jf_round hc hwf1 hV hnev hHr hh hab hne).mono ?_
    rintro a' b' ⟨h1, h2⟩
    exact ⟨⟨k + 1, h1⟩, h2.mono (fun v hv => hv.1), Or.inr h2⟩
  · rintro a b ⟨_, hab, hor⟩ hz
    refine ⟨hab, ?_⟩
    rcases hor with ⟨e1, e2⟩ | h
    · refine Or.inl ⟨e1, e2, ?_⟩
      rw [← e1]; exact hz
    · exact Or.inr h

end Round

end OptProof
end Hpbf
