/-
C15, part 2: `normalize` preserves the value.
Key facts, with `H = 2^(w-1)` (`halfMod`): `H + H = 0`, `H * (x * x) = H * x`, hence
`H * m(vars) = H * m(dedupVars vars)` and adding `H` to the coefficients of two parts whose
deduplicated variable lists agree changes the value by `H*m + H*m = 0`.
-/
import Hpbf.Proofs.C15Basic

namespace Hpbf
namespace Expr
variable {w : Nat}

/-! ### The constant `H = 1 << (w-1)` -/

/-- `half_mod` of `normalize`. -/
def halfMod (w : Nat) : BitVec w := Cell.wshl (1#w) (w - 1)

theorem halfMod_toNat (hw : 0 < w) : (halfMod w).toNat = 2 ^ (w - 1) := by
  unfold halfMod Cell.wshl
  have h1 : w - 1 < w := by omega
  simp only [h1, if_true]
  rw [BitVec.toNat_shiftLeft, BitVec.toNat_one hw, Nat.shiftLeft_eq, Nat.one_mul]
  exact Nat.mod_eq_of_lt (Nat.pow_lt_pow_right (by omega) h1)

theorem two_pow_pred (hw : 0 < w) : 2 ^ w = 2 ^ (w - 1) * 2 := by
  rw [← Nat.pow_succ]; congr 1; omega

theorem halfMod_add_self : halfMod w + halfMod w = 0#w := by
  by_cases hw : 0 < w
  · apply BitVec.eq_of_toNat_eq
    rw [BitVec.toNat_add, halfMod_toNat hw]
    have := two_pow_pred hw
    simp only [BitVec.toNat_ofNat, Nat.zero_mod]
    rw [this, ← Nat.mul_two, Nat.mod_self]
  · have : w = 0 := by omega
    subst this; exact Subsingleton.elim _ _

theorem halfMod_mul_congr (y z : BitVec w) (h : y.toNat % 2 = z.toNat % 2) :
    halfMod w * y = halfMod w * z := by
  by_cases hw : 0 < w
  · apply BitVec.eq_of_toNat_eq
    rw [BitVec.toNat_mul, BitVec.toNat_mul, halfMod_toNat hw]
    rw [two_pow_pred hw, Nat.mul_mod_mul_left, Nat.mul_mod_mul_left, h]
  · have : w = 0 := by omega
    subst this; exact Subsingleton.elim _ _

theorem halfMod_mul_sq (x : BitVec w) : halfMod w * (x * x) = halfMod w * x := by
  by_cases hw : 0 < w
  · apply halfMod_mul_congr
    rw [BitVec.toNat_mul]
    have hd : 2 ∣ 2 ^ w := by rw [two_pow_pred hw]; exact Nat.dvd_mul_left 2 _
    rw [Nat.mod_mod_of_dvd _ hd, Nat.mul_mod]
    rcases Nat.mod_two_eq_zero_or_one x.toNat with h | h <;> simp [h]
  · have : w = 0 := by omega
    subst this; exact Subsingleton.elim _ _

theorem halfMod_mul_mono_dedup (f : Int → BitVec w) (vs : List Int) :
    halfMod w * mono f (dedupVars vs) = halfMod w * mono f vs := by
  fun_induction dedupVars vs with
  | case1 => rfl
  | case2 x => rfl
  | case3 x rest ih =>
    rw [ih]
    simp only [mono_cons]
    have := halfMod_mul_sq (f x)
    grind
  | case4 x y rest h ih =>
    simp only [mono_cons] at ih ⊢
    grind

/-- Two monomials with the same deduplicated variables: adding `H` to both coefficients is free. -/
theorem halfMod_pair (f : Int → BitVec w) (vs1 vs2 : List Int) (h : dedupVars vs1 = dedupVars vs2) :
    halfMod w * mono f vs1 + halfMod w * mono f vs2 = 0#w := by
  rw [← halfMod_mul_mono_dedup f vs1, ← halfMod_mul_mono_dedup f vs2, h, ← BitVec.add_mul,
    halfMod_add_self]
  simp

theorem dedupVars_sublist (vs : List Int) : (dedupVars vs).Sublist vs := by
  fun_induction dedupVars vs with
  | case1 => exact List.Sublist.refl _
  | case2 x => exact List.Sublist.refl _
  | case3 x rest ih =>
    exact ih.trans (List.Sublist.cons _ (List.Sublist.refl _))
  | case4 x y rest h ih => exact List.Sublist.cons_cons _ ih

theorem dedupVars_eq_of_length (vs : List Int) (h : (dedupVars vs).length = vs.length) :
    dedupVars vs = vs := (dedupVars_sublist vs).eq_of_length h

/-! ### Phase 1 -/

/-- The first phase of `normalize` (the value bound to `e1`). -/
def normPhase1 (e : Expr w) : Expr w :=
  if e.any (fun p => p.vars.length ≥ 2 && p.coef = halfMod w) then
    let e' := e.map (fun p => if p.coef = halfMod w then { p with vars := dedupVars p.vars } else p)
    let needElim := (e.zip e').any (fun pq => pq.1.coef = halfMod w && pq.1.vars.length != pq.2.vars.length)
    if needElim then
      (mergeChunks (stableSort (fun a b => leVars a.vars b.vars) e')).filter (fun p => p.coef != 0#w)
    else e'
  else e

/-- Everything of `normalize` after phase 1. -/
def normPhase2' (e1 : Expr w) : Expr w :=
  if e1.any (fun p => !p.vars.isEmpty && (p.coef ≤ halfMod w + 1#w || p.coef ≥ halfMod w + (-1#w))) then
    let (parts, need) := normPhase2 (halfMod w) (halfMod w + 1#w) (halfMod w + (-1#w)) e1.length 0 e1.toArray [] false
    if need then parts.toList.filter (fun p => p.coef != 0#w) else parts.toList
  else e1

theorem normalize_eq (e : Expr w) :
    normalize e = if !e.isEmpty && e.any (fun p => p.vars.length ≥ 2) then normPhase2' (normPhase1 e) else e :=
  rfl

theorem evaluate_dedupMap (f : Int → BitVec w) (e : Expr w) :
    evaluate (e.map (fun p => if p.coef = halfMod w then { p with vars := dedupVars p.vars } else p)) f
      = evaluate e f := by
  induction e with
  | nil => rfl
  | cons p e ih =>
    simp only [List.map_cons, evaluate_cons', ih]
    split
    · rename_i h
      simp only [h, halfMod_mul_mono_dedup]
    · rfl

theorem mergeChunks_ne_nil (p : Part w) (l : List (Part w)) : mergeChunks (p :: l) ≠ [] := by
  generalize hl : p :: l = l'
  fun_induction mergeChunks l' generalizing p l with
  | case1 => cases hl
  | case2 p => simp
  | case3 p q rest h hnil ih => exact absurd hnil (ih _ _ rfl)
  | case4 p q rest h hd tl heq ih => simp
  | case5 p q rest h ih => simp

theorem evaluate_mergeChunks (f : Int → BitVec w) (l : List (Part w)) :
    evaluate (mergeChunks l) f = evaluate l f := by
  fun_induction mergeChunks l with
  | case1 => rfl
  | case2 p => rfl
  | case3 p q rest h hnil ih => exact absurd hnil (mergeChunks_ne_nil _ _)
  | case4 p q rest h hd tl heq ih =>
    rw [heq] at ih
    simp only [evaluate_cons'] at ih ⊢
    rw [h] at ih
    rw [h]
    simp only [BitVec.zero_mul, BitVec.zero_add]
    rw [ih]; grind
  | case5 p q rest h ih => simp only [evaluate_cons, ih]

theorem evaluate_normPhase1 (f : Int → BitVec w) (e : Expr w) :
    evaluate (normPhase1 e) f = evaluate e f := by
  unfold normPhase1
  split
  · simp only []
    split
    · rw [evaluate_filter_coef, evaluate_mergeChunks, evaluate_perm f (stableSort_perm _ _),
        evaluate_dedupMap]
    · exact evaluate_dedupMap f e
  · rfl

/-! ### Phase 2: list view of `setCoef` -/

/-- `setCoef` on lists. -/
def setCoefL (l : List (Part w)) (i : Nat) (c : BitVec w) : List (Part w) :=
  match l[i]? with
  | some p => l.set i { p with coef := c }
  | none => l

theorem setCoef_toList (parts : Array (Part w)) (i : Nat) (c : BitVec w) :
    (setCoef parts i c).toList = setCoefL parts.toList i c := by
  unfold setCoef setCoefL
  rw [Array.getElem?_toList]
  cases parts[i]? <;> simp

theorem setCoefL_vars (l : List (Part w)) (i : Nat) (c : BitVec w) :
    (setCoefL l i c).map (·.vars) = l.map (·.vars) := by
  unfold setCoefL
  cases h : l[i]? with
  | none => rfl
  | some p =>
    simp only
    apply List.ext_getElem?
    intro j
    simp only [List.getElem?_map, List.getElem?_set]
    by_cases hij : i = j
    · subst hij
      simp only [if_true]
      obtain ⟨hlt, hli⟩ := List.getElem?_eq_some_iff.1 h
      simp [hlt, hli]
    · simp [hij]

theorem setCoefL_getElem?_ne (l : List (Part w)) (i j : Nat) (c : BitVec w) (h : i ≠ j) :
    (setCoefL l i c)[j]? = l[j]? := by
  unfold setCoefL
  cases l[i]? with
  | none => rfl
  | some p => simp [h]

theorem evaluate_set (f : Int → BitVec w) (l : List (Part w)) (i : Nat) (p q : Part w)
    (h : l[i]? = some p) :
    evaluate (l.set i q) f + evalPart f p = evaluate l f + evalPart f q := by
  induction l generalizing i with
  | nil => simp at h
  | cons x l ih =>
    cases i with
    | zero =>
      simp only [List.getElem?_cons_zero, Option.some.injEq] at h
      subst h
      simp only [List.set_cons_zero, evaluate_cons]; grind
    | succ i =>
      simp only [List.getElem?_cons_succ] at h
      simp only [List.set_cons_succ, evaluate_cons]
      have := ih i h
      grind

theorem evaluate_setCoefL (f : Int → BitVec w) (l : List (Part w)) (i : Nat) (c : BitVec w) (p : Part w)
    (h : l[i]? = some p) :
    evaluate (setCoefL l i c) f + p.coef * mono f p.vars = evaluate l f + c * mono f p.vars := by
  unfold setCoefL
  rw [h]
  simp only
  have := evaluate_set f l i p { p with coef := c } h
  simpa [evalPart_eq] using this

/-! ### Phase 2: the index table -/

theorem lookupIdx_pushIdx (m : List (List Int × List Nat)) (k k' : List Int) (i : Nat) :
    lookupIdx (pushIdx m k i) k'
      = if k = k' then some ((lookupIdx m k).getD [] ++ [i]) else lookupIdx m k' := by
  induction m with
  | nil =>
    simp only [pushIdx, lookupIdx]
    split <;> simp
  | cons kv m ih =>
    obtain ⟨k0, v0⟩ := kv
    simp only [pushIdx]
    by_cases h0 : k0 = k
    · subst h0
      simp only [if_true, lookupIdx]
      by_cases h1 : k0 = k' <;> simp [h1]
    · simp only [h0, if_false, lookupIdx, ih]
      by_cases h1 : k0 = k'
      · subst h1
        have : ¬ k = k0 := fun e => h0 e.symm
        simp [this]
      · simp [h1]

/-- The table only mentions earlier indices, filed under the deduplicated variables of their part. -/
def IdxOK (V : List (List Int)) (i : Nat) (byRed : List (List Int × List Nat)) : Prop :=
  ∀ k idxs, lookupIdx byRed k = some idxs →
    ∀ j ∈ idxs, j < i ∧ ∃ vs, V[j]? = some vs ∧ dedupVars vs = k

theorem IdxOK_nil (V : List (List Int)) : IdxOK V 0 [] := by
  intro k idxs h; simp [lookupIdx] at h

theorem IdxOK_mono {V : List (List Int)} {i : Nat} {byRed} (h : IdxOK V i byRed) :
    IdxOK V (i + 1) byRed := by
  intro k idxs hk j hj
  obtain ⟨h1, h2⟩ := h k idxs hk j hj
  exact ⟨by omega, h2⟩

theorem IdxOK_push {V : List (List Int)} {i : Nat} {byRed} (h : IdxOK V i byRed)
    (vs : List Int) (hv : V[i]? = some vs) :
    IdxOK V (i + 1) (pushIdx byRed (dedupVars vs) i) := by
  intro k idxs hk j hj
  rw [lookupIdx_pushIdx] at hk
  split at hk
  · rename_i hkk
    subst hkk
    simp only [Option.some.injEq] at hk
    subst hk
    rcases List.mem_append.1 hj with hj | hj
    · cases hl : lookupIdx byRed (dedupVars vs) with
      | none => simp [hl] at hj
      | some idxs' =>
        simp only [hl, Option.getD_some] at hj
        obtain ⟨h1, h2⟩ := h _ _ hl j hj
        exact ⟨by omega, h2⟩
    · simp only [List.mem_singleton] at hj
      subst hj
      exact ⟨by omega, vs, hv, rfl⟩
  · exact IdxOK_mono h k idxs hk j hj

/-! ### Phase 2: the loops -/

/-- The inner loop body of `normPhase2`. -/
def pairStep (hm hp hmm : BitVec w) (i : Nat) (acc : Array (Part w) × Bool) (j : Nat) :
    Array (Part w) × Bool :=
  let (parts, need) := acc
  match parts[i]?, parts[j]? with
  | some a, some b =>
    let ci := a.coef
    let cj := b.coef
    if ((ci ≤ hp || ci ≥ hmm) && (cj > 1#w || cj < (-1#w)))
        || ((ci > 1#w && ci < (-1#w)) && (cj ≤ hp || cj ≥ hmm)) then
      let ni := ci + hm
      let nj := cj + hm
      (setCoef (setCoef parts i ni) j nj, need || ni = 0#w || nj = 0#w)
    else (parts, need)
  | _, _ => (parts, need)

theorem pairStep_spec (f : Int → BitVec w) (hp hmm : BitVec w) (V : List (List Int)) (i j : Nat)
    (parts : Array (Part w)) (need : Bool)
    (hV : parts.toList.map (·.vars) = V) (hji : j < i)
    (vi vj : List Int) (hvi : V[i]? = some vi) (hvj : V[j]? = some vj)
    (hd : dedupVars vi = dedupVars vj) :
    ((pairStep (halfMod w) hp hmm i (parts, need) j).1.toList.map (·.vars) = V) ∧
    evaluate (pairStep (halfMod w) hp hmm i (parts, need) j).1.toList f = evaluate parts.toList f := by
  unfold pairStep
  simp only
  cases hai : parts[i]? with
  | none => simp [hV]
  | some a =>
    cases hbj : parts[j]? with
    | none => simp [hV]
    | some b =>
      simp only
      split
      · simp only [setCoef_toList, setCoefL_vars, hV, true_and]
        have hai' : parts.toList[i]? = some a := by rw [Array.getElem?_toList]; exact hai
        have hbj' : parts.toList[j]? = some b := by rw [Array.getElem?_toList]; exact hbj
        have hav : a.vars = vi := by
          have : (parts.toList.map (·.vars))[i]? = some a.vars := by simp [hai']
          rw [hV, hvi] at this; exact (Option.some.inj this).symm
        have hbv : b.vars = vj := by
          have : (parts.toList.map (·.vars))[j]? = some b.vars := by simp [hbj']
          rw [hV, hvj] at this; exact (Option.some.inj this).symm
        have hbj'' : (setCoefL parts.toList i (a.coef + halfMod w))[j]? = some b := by
          rw [setCoefL_getElem?_ne _ _ _ _ (by omega)]; exact hbj'
        have e1 := evaluate_setCoefL f parts.toList i (a.coef + halfMod w) a hai'
        have e2 := evaluate_setCoefL f _ j (b.coef + halfMod w) b hbj''
        have e3 := halfMod_pair f vi vj hd
        rw [hav] at e1
        rw [hbv] at e2
        grind
      · simp [hV]

theorem pairFold_spec (f : Int → BitVec w) (hp hmm : BitVec w) (V : List (List Int)) (i : Nat)
    (vi : List Int) (hvi : V[i]? = some vi) (others : List Nat)
    (hoth : ∀ j ∈ others, j < i ∧ ∃ vs, V[j]? = some vs ∧ dedupVars vs = dedupVars vi)
    (parts : Array (Part w)) (need : Bool) (hV : parts.toList.map (·.vars) = V) :
    ((others.foldl (pairStep (halfMod w) hp hmm i) (parts, need)).1.toList.map (·.vars) = V) ∧
    evaluate (others.foldl (pairStep (halfMod w) hp hmm i) (parts, need)).1.toList f
      = evaluate parts.toList f := by
  induction others generalizing parts need with
  | nil => exact ⟨hV, rfl⟩
  | cons j others ih =>
    simp only [List.foldl_cons]
    obtain ⟨hji, vj, hvj, hd⟩ := hoth j (List.mem_cons_self)
    obtain ⟨s1, s2⟩ := pairStep_spec f hp hmm V i j parts need hV hji vi vj hvi hvj hd.symm
    generalize pairStep (halfMod w) hp hmm i (parts, need) j = st at s1 s2
    obtain ⟨parts', need'⟩ := st
    obtain ⟨t1, t2⟩ := ih (fun j hj => hoth j (List.mem_cons_of_mem _ hj)) parts' need' s1
    exact ⟨t1, t2.trans s2⟩

theorem normPhase2_step (hm hp hmm : BitVec w) (fuel i : Nat) (parts : Array (Part w))
    (byRed : List (List Int × List Nat)) (need : Bool) :
    normPhase2 hm hp hmm (fuel + 1) i parts byRed need =
      match parts[i]? with
      | none => (parts, need)
      | some pi =>
        if pi.vars.isEmpty then normPhase2 hm hp hmm fuel (i + 1) parts byRed need
        else
          match lookupIdx byRed (dedupVars pi.vars) with
          | none => normPhase2 hm hp hmm fuel (i + 1) parts (pushIdx byRed (dedupVars pi.vars) i) need
          | some others =>
            normPhase2 hm hp hmm fuel (i + 1) (others.foldl (pairStep hm hp hmm i) (parts, need)).1
              (pushIdx byRed (dedupVars pi.vars) i) (others.foldl (pairStep hm hp hmm i) (parts, need)).2 := by
  rfl

theorem normPhase2_spec (f : Int → BitVec w) (hp hmm : BitVec w) (V : List (List Int))
    (fuel i : Nat) (parts : Array (Part w)) (byRed : List (List Int × List Nat)) (need : Bool)
    (hV : parts.toList.map (·.vars) = V) (hok : IdxOK V i byRed) :
    ((normPhase2 (halfMod w) hp hmm fuel i parts byRed need).1.toList.map (·.vars) = V) ∧
    evaluate (normPhase2 (halfMod w) hp hmm fuel i parts byRed need).1.toList f
      = evaluate parts.toList f := by
  induction fuel generalizing i parts byRed need with
  | zero => exact ⟨hV, rfl⟩
  | succ fuel ih =>
    rw [normPhase2_step]
    cases hpi : parts[i]? with
    | none => exact ⟨hV, rfl⟩
    | some pi =>
      simp only
      have hvi : V[i]? = some pi.vars := by
        rw [← hV]; simp [hpi]
      split
      · exact ih (i + 1) parts byRed need hV (IdxOK_mono hok)
      · cases hl : lookupIdx byRed (dedupVars pi.vars) with
        | none =>
          simp only
          exact ih (i + 1) parts _ need hV (IdxOK_push hok pi.vars hvi)
        | some others =>
          simp only
          have hoth := hok _ _ hl
          obtain ⟨s1, s2⟩ := pairFold_spec f hp hmm V i pi.vars hvi others hoth parts need hV
          generalize others.foldl (pairStep (halfMod w) hp hmm i) (parts, need) = st at s1 s2
          obtain ⟨parts', need'⟩ := st
          obtain ⟨t1, t2⟩ := ih (i + 1) parts' (pushIdx byRed (dedupVars pi.vars) i) need' s1
            (IdxOK_push hok pi.vars hvi)
          exact ⟨t1, t2.trans s2⟩

theorem evaluate_normPhase2' (f : Int → BitVec w) (e1 : Expr w) :
    evaluate (normPhase2' e1) f = evaluate e1 f := by
  unfold normPhase2'
  split
  · obtain ⟨_, s2⟩ := normPhase2_spec f (halfMod w + 1#w) (halfMod w + (-1#w)) (e1.map (·.vars))
      e1.length 0 e1.toArray [] false (by simp) (IdxOK_nil _)
    generalize normPhase2 (halfMod w) (halfMod w + 1#w) (halfMod w + (-1#w)) e1.length 0 e1.toArray [] false
      = st at s2
    obtain ⟨parts, need⟩ := st
    simp only at s2 ⊢
    split
    · rw [evaluate_filter_coef]; simpa using s2
    · simpa using s2
  · rfl

theorem eval_normalize (e : Expr w) (f : Int → BitVec w) : evaluate (normalize e) f = evaluate e f := by
  rw [normalize_eq]
  split
  · rw [evaluate_normPhase2', evaluate_normPhase1]
  · rfl

end Expr
end Hpbf
