/-
Rebuild-round proofs: what a later round needs of the output of dead store elimination.  `OptDse.eliminate` only
deletes assignments from `calc`s (`C01Dse.SubL`), so `CanonL`, `GoodL`, `ShapeL` (for the unchanged analysis),
`noShiftL`, `blockParts`, `isBlock`, `nblocks` transfer from its input to its output.
-/
import Hpbf.Proofs.OptRbPV2
import Hpbf.Proofs.C01DseMain

namespace Hpbf
namespace OptProof
open Opt OptSem Ir

variable {w : Nat}

/-! ### transfer along `SubI` / `SubL` -/

mutual
theorem canonI_sub : ∀ (i i' : Instr w), C01Dse.SubI i i' → CanonI i → CanonI i'
  | .output _, _, h, _ => by cases h; rw [CanonI]; trivial
  | .input _, _, h, _ => by cases h; rw [CanonI]; trivial
  | .calc g, _, h, hc => by
    cases h with
    | «calc» hs =>
      rw [CanonI] at hc ⊢
      exact fun ve hve => hc ve (hs.subset hve)
  | .loop c sh body o, _, h, hc => by
    cases h with
    | loop _ _ _ hb =>
      rw [CanonI] at hc ⊢
      exact canonL_sub body _ hb hc
  | .ifnz c sh body, _, h, hc => by
    cases h with
    | ifnz _ _ hb =>
      rw [CanonI] at hc ⊢
      exact canonL_sub body _ hb hc
theorem canonL_sub : ∀ (l l' : List (Instr w)), C01Dse.SubL l l' → CanonL l → CanonL l'
  | [], _, h, _ => by cases h; exact canonL_nil
  | i :: rest, _, h, hc => by
    cases h with
    | cons hi hr =>
      rw [canonL_cons] at hc ⊢
      exact ⟨canonI_sub i _ hi hc.1, canonL_sub rest _ hr hc.2⟩
end

mutual
theorem goodI_sub : ∀ (i i' : Instr w), C01Dse.SubI i i' → GoodI i → GoodI i'
  | .output _, _, h, _ => by cases h; rw [GoodI]; trivial
  | .input _, _, h, _ => by cases h; rw [GoodI]; trivial
  | .calc g, _, h, hc => by
    cases h with
    | «calc» hs =>
      rw [GoodI] at hc ⊢
      exact ⟨hc.1.sublist (hs.map _), fun ve hve => hc.2 ve (hs.subset hve)⟩
  | .loop c sh body o, _, h, hc => by
    cases h with
    | loop _ _ _ hb =>
      rw [GoodI] at hc ⊢
      exact goodL_sub body _ hb hc
  | .ifnz c sh body, _, h, hc => by
    cases h with
    | ifnz _ _ hb =>
      rw [GoodI] at hc ⊢
      exact goodL_sub body _ hb hc
theorem goodL_sub : ∀ (l l' : List (Instr w)), C01Dse.SubL l l' → GoodL l → GoodL l'
  | [], _, h, _ => by cases h; exact goodL_nil
  | i :: rest, _, h, hc => by
    cases h with
    | cons hi hr =>
      rw [goodL_cons] at hc ⊢
      exact ⟨goodI_sub i _ hi hc.1, goodL_sub rest _ hr hc.2⟩
end

theorem isBlock_sub {i i' : Instr w} (h : C01Dse.SubI i i') : C01Dse.isBlock i' = C01Dse.isBlock i := by
  cases h <;> rfl

theorem nblocks_sub {l l' : List (Instr w)} (h : C01Dse.SubL l l') : C01Dse.nblocks l' = C01Dse.nblocks l := by
  unfold C01Dse.nblocks
  suffices H : ∀ (l l' : List (Instr w)), C01Dse.SubL l l' →
      List.countP C01Dse.isBlock l' = List.countP C01Dse.isBlock l from H l l' h
  intro l
  induction l with
  | nil => intro l' h; cases h; rfl
  | cons i rest ih =>
    intro l' h
    cases h with
    | cons hi hr =>
      rw [List.countP_cons, List.countP_cons, ih _ hr, isBlock_sub hi]

/-- The parts of a nested block of the output: same condition and shift, the body is the DSE output of the
body. -/
theorem blockParts_sub {i i' : Instr w} (h : C01Dse.SubI i i') {cond shift : Int} {body : List (Instr w)}
    (hp : C01Dse.blockParts i = some (cond, shift, body)) :
    ∃ body', C01Dse.blockParts i' = some (cond, shift, body') ∧ C01Dse.SubL body body' := by
  cases h with
  | output _ => simp [C01Dse.blockParts] at hp
  | input _ => simp [C01Dse.blockParts] at hp
  | «calc» _ => simp [C01Dse.blockParts] at hp
  | loop c sh o hb =>
    simp only [C01Dse.blockParts, Option.some.injEq, Prod.mk.injEq] at hp
    obtain ⟨rfl, rfl, rfl⟩ := hp
    exact ⟨_, rfl, hb⟩
  | ifnz c sh hb =>
    simp only [C01Dse.blockParts, Option.some.injEq, Prod.mk.injEq] at hp
    obtain ⟨rfl, rfl, rfl⟩ := hp
    exact ⟨_, rfl, hb⟩

mutual
theorem shapeI_sub : ∀ (i i' : Instr w) (a : OptAnalysis w), C01Dse.SubI i i' → ShapeI i a → ShapeI i' a
  | .output _, _, _, h, hs => by rw [ShapeI] at hs; exact hs.elim
  | .input _, _, _, h, hs => by rw [ShapeI] at hs; exact hs.elim
  | .calc _, _, _, h, hs => by rw [ShapeI] at hs; exact hs.elim
  | .loop c sh body o, _, .mk L hsf r cl subs, h, hs => by
    cases h with
    | loop _ _ _ hb =>
      rw [ShapeI] at hs ⊢
      exact ⟨hs.1, hs.2.1, hs.2.2.1, shapeL_sub body _ subs hb hs.2.2.2⟩
  | .ifnz c sh body, _, .mk L hsf r cl subs, h, hs => by
    cases h with
    | ifnz _ _ hb =>
      rw [ShapeI] at hs ⊢
      exact ⟨hs.1, hs.2.1, shapeL_sub body _ subs hb hs.2.2⟩
theorem shapeL_sub : ∀ (l l' : List (Instr w)) (subs : List (OptAnalysis w)), C01Dse.SubL l l' →
    ShapeL l subs → ShapeL l' subs
  | [], _, _, h, hs => by cases h; exact hs
  | i :: rest, _, subs, h, hs => by
    cases h with
    | cons hi hr =>
      cases hb : C01Dse.isBlock i with
      | false =>
        rw [shapeL_cons_nonblock hb] at hs
        rw [shapeL_cons_nonblock (by rw [isBlock_sub hi]; exact hb)]
        exact shapeL_sub rest _ subs hr hs
      | true =>
        rw [shapeL_cons_block hb] at hs
        rw [shapeL_cons_block (by rw [isBlock_sub hi]; exact hb)]
        obtain ⟨a, subs', e, ha, hrest⟩ := hs
        exact ⟨a, subs', e, shapeI_sub i _ a hi ha, shapeL_sub rest _ subs' hr hrest⟩
end

mutual
theorem noShiftI_sub : ∀ (i i' : Instr w), C01Dse.SubI i i' → C01Dse.noShiftI i' = C01Dse.noShiftI i
  | .output _, _, h => by cases h; rfl
  | .input _, _, h => by cases h; rfl
  | .calc _, _, h => by cases h; rfl
  | .loop c sh body o, _, h => by
    cases h with
    | loop _ _ _ hb => rw [C01Dse.noShiftI, C01Dse.noShiftI, noShiftL_sub body _ hb]
  | .ifnz c sh body, _, h => by
    cases h with
    | ifnz _ _ hb => rw [C01Dse.noShiftI, C01Dse.noShiftI, noShiftL_sub body _ hb]
theorem noShiftL_sub : ∀ (l l' : List (Instr w)), C01Dse.SubL l l' → C01Dse.noShiftL l' = C01Dse.noShiftL l
  | [], _, h => by cases h; rfl
  | i :: rest, _, h => by
    cases h with
    | cons hi hr => rw [C01Dse.noShiftL, C01Dse.noShiftL, noShiftI_sub i _ hi, noShiftL_sub rest _ hr]
end

/-! ### `OptDse.eliminate` / `deadStoreElimination` -/

theorem deadStoreElimination_sub {b b2 : Block w} {anal : OptAnalysis w}
    (h : deadStoreElimination b anal = .ok b2) : b2.shift = b.shift ∧ C01Dse.SubL b.insts b2.insts := by
  unfold deadStoreElimination at h
  cases he : OptDse.eliminate b anal.toDAnal with
  | none => rw [he] at h; cases h
  | some x =>
    rw [he] at h
    cases h
    exact C01Dse.eliminate_sub he

/-- (1) canonical right-hand sides stay canonical. -/
theorem eliminate_canonL {b b2 : Block w} {anal : OptDse.DAnal} (hc : CanonL b.insts)
    (h : OptDse.eliminate b anal = some b2) : CanonL b2.insts :=
  canonL_sub _ _ (C01Dse.eliminate_sub h).2 hc

theorem deadStoreElimination_canonL {b b2 : Block w} {anal : OptAnalysis w} (hc : CanonL b.insts)
    (h : deadStoreElimination b anal = .ok b2) : CanonL b2.insts :=
  canonL_sub _ _ (deadStoreElimination_sub h).2 hc

/-- (2) the unchanged analysis still fits. -/
theorem eliminate_shapeL {b b2 : Block w} {anal : OptDse.DAnal} {subs : List (OptAnalysis w)}
    (hs : ShapeL b.insts subs) (h : OptDse.eliminate b anal = some b2) : ShapeL b2.insts subs :=
  shapeL_sub _ _ subs (C01Dse.eliminate_sub h).2 hs

theorem deadStoreElimination_shapeL {b b2 : Block w} {anal : OptAnalysis w}
    (hs : ShapeL b.insts anal.subBlocks) (hd : deadStoreElimination b anal = .ok b2) :
    ShapeL b2.insts anal.subBlocks :=
  shapeL_sub _ _ _ (deadStoreElimination_sub hd).2 hs

theorem deadStoreElimination_noShiftL {b b2 : Block w} {anal : OptAnalysis w}
    (hd : deadStoreElimination b anal = .ok b2) : C01Dse.noShiftL b2.insts = C01Dse.noShiftL b.insts :=
  noShiftL_sub _ _ (deadStoreElimination_sub hd).2

/-- … hence the static DSE conditions hold again for the output with the unchanged analysis. -/
theorem deadStoreElimination_shapeOk {b b2 : Block w} {anal : OptAnalysis w}
    (hs : ShapeL b.insts anal.subBlocks) (hd : deadStoreElimination b anal = .ok b2) :
    C01Dse.ShapeOk b2 anal.toDAnal ∧ C01Dse.ShiftFact b2 anal.toDAnal :=
  ⟨shapeOk_of_shapeL (deadStoreElimination_shapeL hs hd), shiftFact_of_shapeL (deadStoreElimination_shapeL hs hd)⟩

/-- (3) distinct targets and canonical right-hand sides. -/
theorem eliminate_goodL {b b2 : Block w} {anal : OptDse.DAnal} (hg : GoodL b.insts)
    (h : OptDse.eliminate b anal = some b2) : GoodL b2.insts :=
  goodL_sub _ _ (C01Dse.eliminate_sub h).2 hg

theorem deadStoreElimination_goodL {b b2 : Block w} {anal : OptAnalysis w} (hg : GoodL b.insts)
    (h : deadStoreElimination b anal = .ok b2) : GoodL b2.insts :=
  goodL_sub _ _ (deadStoreElimination_sub h).2 hg

theorem deadStoreElimination_noDupTargets {b b2 : Block w} {anal : OptAnalysis w} (hg : GoodL b.insts)
    (h : deadStoreElimination b anal = .ok b2) : C01Dse.NoDupTargets b2 :=
  goodL_noDup _ (deadStoreElimination_goodL hg h)

/-! ### a round followed by dead store elimination -/

/-- The input of the next round: good code that the recorded analysis fits. -/
theorem round_then_dse {b : Block w} {prevAnal : OptAnalysis w} {os os' : Orders} {b1 b2 : Block w}
    {anal1 : OptAnalysis w} (hr : (optimizeOnce b prevAnal).run os = .ok ((b1, anal1), os'))
    (hcl : CanonL b.insts) (hd : deadStoreElimination b1 anal1 = .ok b2) :
    GoodL b2.insts ∧ CanonL b2.insts ∧ C01Dse.NoDupTargets b2 ∧ ShapeL b2.insts anal1.subBlocks ∧
    C01Dse.ShapeOk b2 anal1.toDAnal ∧ C01Dse.ShiftFact b2 anal1.toDAnal := by
  have hg := deadStoreElimination_goodL (optimizeOnce_good hr hcl) hd
  have hs := optimizeOnce_shape hr hcl
  exact ⟨hg, goodL_canonL _ hg, goodL_noDup _ hg, deadStoreElimination_shapeL hs hd,
    (deadStoreElimination_shapeOk hs hd).1, (deadStoreElimination_shapeOk hs hd).2⟩

#print axioms deadStoreElimination_canonL
#print axioms deadStoreElimination_shapeL
#print axioms deadStoreElimination_goodL
#print axioms round_then_dse

end OptProof
end Hpbf
