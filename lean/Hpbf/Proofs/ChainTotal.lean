/-
Chain, totality, part 1: the end-to-end statements of `Props/Chain.lean` for the TOTAL function
`BcGen.translate` (the hypothesis `translateE … = .ok p` is discharged by `C02.translateE_total`, the hypothesis
`BcWf.check p n = true` by `C02.translateE_check`).

* `translate_ok`            – `translateE blk numRegs fuse = .ok (translate blk numRegs fuse)`: the sentinel of
                              `translate` is never returned;
* `irOf w src`, `parse_irOf` – the block `Program::parse` returns on a balanced text, as a total function;
* `translate_refines_unconditional`, `translate_never_bad_unconditional` – every IR block;
* `bytecode_level0_unconditional` (+ `_debug`, `_proper`), the C05 / C07 / C08 corollaries – level 0.
-/
import Hpbf.Proofs.ChainLevel0
import Hpbf.Props.C02AllocTotal
import Hpbf.Props.C11Full

namespace Hpbf
namespace Chain

open Bc BcWf BcGen C11 C02

variable {w : Nat}

/-! ### `translate` is `translateE` -/

/-- The total function `translate` returns the program `translateE` returns (never its sentinel). -/
theorem translate_ok (blk : Ir.Block w) (numRegs : Nat) (fuse : Bool) :
    translateE blk numRegs fuse = .ok (translate blk numRegs fuse) := by
  obtain ⟨p, hp⟩ := translateE_total blk numRegs fuse
  unfold translate
  rw [hp]

theorem translate_eq_of_ok {blk : Ir.Block w} {numRegs : Nat} {fuse : Bool} {p : Bc.Program w}
    (h : translateE blk numRegs fuse = .ok p) : translate blk numRegs fuse = p := by
  have := translate_ok blk numRegs fuse
  rw [h] at this
  cases this; rfl

/-- The contract checker accepts it. -/
theorem translate_check (blk : Ir.Block w) (numRegs : Nat) (fuse : Bool) :
    BcWf.check (translate blk numRegs fuse) numRegs = true := translateE_check (translate_ok blk numRegs fuse)

/-- The block `Program::parse` returns (an empty block on an unbalanced text). -/
def irOf (w : Nat) (src : List Kind) : Ir.Block w :=
  match Ir.parse (w := w) src with
  | .ok b => b
  | .error _ => ⟨0, []⟩

theorem parse_irOf {src : List Kind} {prog : Prog} (hp : Bf.tree src = some prog) :
    Ir.parse (w := w) src = .ok (irOf w src) := by
  obtain ⟨b, hb⟩ := C01.C01_parse_ok_of_tree (w := w) hp
  unfold irOf
  rw [hb]

theorem irOf_eq_of_ok {src : List Kind} {blk : Ir.Block w} (h : Ir.parse (w := w) src = .ok blk) :
    irOf w src = blk := by
  unfold irOf
  rw [h]

/-! ### 2. every IR block -/

/-- Never "malformed bytecode", never interrupted in unlimited mode – for EVERY run (terminating or not), every
mode, budget and environment. -/
theorem translate_never_bad_unconditional (blk : Ir.Block w) (numRegs : Nat) (fuse : Bool) (env : Env) :
    (∀ (l : Bool) (b f' : Nat) (c' : Bc.Cfg w), Bc.run (translate blk numRegs fuse) l b f' env ≠ .bad c') ∧
    (∀ (f' : Nat) (c' : Bc.Cfg w), Bc.run (translate blk numRegs fuse) false 0 f' env ≠ .interrupted c') :=
  ⟨fun l b f' c' => C11.check_run_not_bad (translate_check blk numRegs fuse) l b f' env c',
   fun f' c' => translate_never_interrupted _ f' env c'⟩

/-- **`translate` refines the IR**, for every block, every `numRegs`, both values of `fuse`, every environment
in which the loops marked `once` are entered with a non-zero condition. -/
theorem translate_refines_unconditional (blk : Ir.Block w) (numRegs : Nat) (fuse : Bool) (env : Env)
    (ho : OnceOk blk env) :
    ((∀ f (c : Ir.Cfg w), Ir.run blk false 0 f env = .done c →
      ∃ f' c', Bc.run (translate blk numRegs fuse) false 0 f' env = .done c' ∧ c'.st.trace = c.st.trace ∧
        (∀ i, c'.st.tape.get i = c.st.tape.get i) ∧ c'.st.ptr = c.st.ptr ∧ c'.st.env = c.st.env) ∧
     (∀ f (c : Ir.Cfg w), Ir.run blk false 0 f env = .stopped c →
      ∃ f' c', Bc.run (translate blk numRegs fuse) false 0 f' env = .stopped c' ∧ c'.st.trace = c.st.trace ∧
        c'.st.ptr = c.st.ptr ∧ c'.st.env = c.st.env)) ∧
    ((∀ f' (c' : Bc.Cfg w), Bc.run (translate blk numRegs fuse) false 0 f' env = .done c' →
      ∃ f c, Ir.run blk false 0 f env = .done c ∧ c.st.trace = c'.st.trace ∧
        (∀ i, c.st.tape.get i = c'.st.tape.get i) ∧ c.st.ptr = c'.st.ptr ∧ c.st.env = c'.st.env) ∧
     (∀ f' (c' : Bc.Cfg w), Bc.run (translate blk numRegs fuse) false 0 f' env = .stopped c' →
      ∃ f c, Ir.run blk false 0 f env = .stopped c ∧ c.st.trace = c'.st.trace ∧
        c.st.ptr = c'.st.ptr ∧ c.st.env = c'.st.env)) ∧
    ((∀ f', ∃ f, C01.traceOf (Ir.run blk false 0 f env) =
        C07.traceOfBc (Bc.run (translate blk numRegs fuse) false 0 f' env)) ∧
     (∀ f, ∃ f', C07.traceOfBc (Bc.run (translate blk numRegs fuse) false 0 f' env) =
        C01.traceOf (Ir.run blk false 0 f env))) :=
  translate_refines env (translate_ok blk numRegs fuse) ho

/-- The version for IR without `once` loops: no hypothesis on the environment. -/
theorem translate_refines_noOnce_unconditional (blk : Ir.Block w) (numRegs : Nat) (fuse : Bool) (env : Env)
    (hn : NoOnce blk) :
    ((∀ f (c : Ir.Cfg w), Ir.run blk false 0 f env = .done c →
      ∃ f' c', Bc.run (translate blk numRegs fuse) false 0 f' env = .done c' ∧ c'.st.trace = c.st.trace ∧
        (∀ i, c'.st.tape.get i = c.st.tape.get i) ∧ c'.st.ptr = c.st.ptr ∧ c'.st.env = c.st.env) ∧
     (∀ f (c : Ir.Cfg w), Ir.run blk false 0 f env = .stopped c →
      ∃ f' c', Bc.run (translate blk numRegs fuse) false 0 f' env = .stopped c' ∧ c'.st.trace = c.st.trace ∧
        c'.st.ptr = c.st.ptr ∧ c'.st.env = c.st.env)) ∧
    ((∀ f' (c' : Bc.Cfg w), Bc.run (translate blk numRegs fuse) false 0 f' env = .done c' →
      ∃ f c, Ir.run blk false 0 f env = .done c ∧ c.st.trace = c'.st.trace ∧
        (∀ i, c.st.tape.get i = c'.st.tape.get i) ∧ c.st.ptr = c'.st.ptr ∧ c.st.env = c'.st.env) ∧
     (∀ f' (c' : Bc.Cfg w), Bc.run (translate blk numRegs fuse) false 0 f' env = .stopped c' →
      ∃ f c, Ir.run blk false 0 f env = .stopped c ∧ c.st.trace = c'.st.trace ∧
        c.st.ptr = c'.st.ptr ∧ c.st.env = c'.st.env)) ∧
    ((∀ f', ∃ f, C01.traceOf (Ir.run blk false 0 f env) =
        C07.traceOfBc (Bc.run (translate blk numRegs fuse) false 0 f' env)) ∧
     (∀ f, ∃ f', C07.traceOfBc (Bc.run (translate blk numRegs fuse) false 0 f' env) =
        C01.traceOf (Ir.run blk false 0 f env))) :=
  translate_refines_unconditional blk numRegs fuse env (noOnce_onceOk hn env)

/-! ### 1. level 0, bytecode interpreter -/

section Level0
variable (hw : 0 < w) {src : List Kind} {prog : Prog} (hp : Bf.tree src = some prog)
  {blk : Ir.Block w} (hb : Ir.parse (w := w) src = .ok blk) (numRegs : Nat) (fuse : Bool) (env : Env)
include hw hp hb

/-- **Level 0, bytecode interpreter, release dispatch** – no hypothesis besides `0 < w` and balancedness
(`hb` only names the parser's result; see `bytecode_level0_source` for the form without it). -/
theorem bytecode_level0_unconditional :
    ((∀ f (s : State w), Bf.run f prog env = .done s →
        ∃ f' c', Bc.run (translate blk numRegs fuse) false 0 f' env = .done c' ∧ c'.st.trace = s.trace) ∧
     (∀ f (s : State w), Bf.run f prog env = .stopped s →
        ∃ f' c', Bc.run (translate blk numRegs fuse) false 0 f' env = .stopped c' ∧ c'.st.trace = s.trace)) ∧
    ((∀ f' (c' : Bc.Cfg w), Bc.run (translate blk numRegs fuse) false 0 f' env = .done c' →
        ∃ (f : Nat) (s : State w), Bf.run f prog env = .done s ∧ s.trace = c'.st.trace) ∧
     (∀ f' (c' : Bc.Cfg w), Bc.run (translate blk numRegs fuse) false 0 f' env = .stopped c' →
        ∃ (f : Nat) (s : State w), Bf.run f prog env = .stopped s ∧ s.trace = c'.st.trace)) ∧
    ((∀ f', ∃ f, C07.traceOfBc (Bc.run (translate blk numRegs fuse) false 0 f' env) =
        C01.traceOfBf (Bf.run (w := w) f prog env)) ∧
     (∀ f, ∃ f', C07.traceOfBc (Bc.run (translate blk numRegs fuse) false 0 f' env) =
        C01.traceOfBf (Bf.run (w := w) f prog env))) :=
  bytecode_level0 hw hp hb (translate_ok blk numRegs fuse) env

/-- **Level 0, bytecode interpreter, debug build (trampolined dispatch).** -/
theorem bytecode_level0_debug_unconditional :
    ((∀ f (s : State w), Bf.run f prog env = .done s →
        ∃ f' c', runDebug (translate blk numRegs fuse) false 0 f' env = .done c' ∧ c'.st.trace = s.trace) ∧
     (∀ f (s : State w), Bf.run f prog env = .stopped s →
        ∃ f' c', runDebug (translate blk numRegs fuse) false 0 f' env = .stopped c' ∧ c'.st.trace = s.trace)) ∧
    ((∀ f' (c' : Bc.Cfg w), runDebug (translate blk numRegs fuse) false 0 f' env = .done c' →
        ∃ (f : Nat) (s : State w), Bf.run f prog env = .done s ∧ s.trace = c'.st.trace) ∧
     (∀ f' (c' : Bc.Cfg w), runDebug (translate blk numRegs fuse) false 0 f' env = .stopped c' →
        ∃ (f : Nat) (s : State w), Bf.run f prog env = .stopped s ∧ s.trace = c'.st.trace)) ∧
    ((∀ f', ∃ f, C07.traceOfBc (runDebug (translate blk numRegs fuse) false 0 f' env) =
        C01.traceOfBf (Bf.run (w := w) f prog env)) ∧
     (∀ f, ∃ f', C07.traceOfBc (runDebug (translate blk numRegs fuse) false 0 f' env) =
        C01.traceOfBf (Bf.run (w := w) f prog env))) :=
  bytecode_level0_debug hw hp hb (translate_ok blk numRegs fuse) env

/-! #### C05 -/

theorem bc_never_returns_unconditional (hdiv : C05.BfDiverges w prog env) :
    (∀ (f' : Nat) (c : Bc.Cfg w),
      Bc.run (translate blk numRegs fuse) false 0 f' env ≠ .done c ∧
      Bc.run (translate blk numRegs fuse) false 0 f' env ≠ .stopped c) ∧
    (∀ (b f' : Nat) (c : Bc.Cfg w),
      Bc.run (translate blk numRegs fuse) true b f' env ≠ .done c ∧
      Bc.run (translate blk numRegs fuse) true b f' env ≠ .stopped c) :=
  bc_never_returns hw hp hb (translate_ok blk numRegs fuse) env hdiv

/-- Unlimited mode, canonically divergent program: after any number of steps the interpreter is still
running. -/
theorem bc_runs_forever_unconditional (hdiv : C05.BfDiverges w prog env) :
    ∀ f', ∃ c : Bc.Cfg w, Bc.run (translate blk numRegs fuse) false 0 f' env = .outOfFuel c :=
  bc_runs_forever hw hp hb (translate_ok blk numRegs fuse) env hdiv (translate_check blk numRegs fuse)

/-- Limited mode, canonically divergent program: the call comes back and reports "budget exhausted". -/
theorem bc_limited_interrupted_unconditional (hdiv : C05.BfDiverges w prog env) :
    ∀ b, ∃ f' c, Bc.run (translate blk numRegs fuse) true b f' env = .interrupted c :=
  bc_limited_interrupted hw hp hb (translate_ok blk numRegs fuse) env hdiv (translate_check blk numRegs fuse)

/-- Everything a divergent program outputs is output by the bytecode interpreter, in order, nothing extra. -/
theorem bc_divergent_output_unconditional (hdiv : C05.BfDiverges w prog env) :
    (∀ f, ∃ f' c c', Bf.run (w := w) f prog env = .outOfFuel c ∧
      Bc.run (translate blk numRegs fuse) false 0 f' env = .outOfFuel c' ∧ c'.st.trace = c.st.trace) ∧
    (∀ f', ∃ f c c', Bc.run (translate blk numRegs fuse) false 0 f' env = .outOfFuel c' ∧
      Bf.run (w := w) f prog env = .outOfFuel c ∧ c'.st.trace = c.st.trace) :=
  bc_divergent_output hw hp hb (translate_ok blk numRegs fuse) env hdiv (translate_check blk numRegs fuse)

theorem bc_terminates_unconditional :
    (∀ (f : Nat) (s : State w), Bf.run f prog env = .done s →
      ∃ f' c, Bc.run (translate blk numRegs fuse) false 0 f' env = .done c ∧ c.st.trace = s.trace) ∧
    (∀ (f : Nat) (s : State w), Bf.run f prog env = .stopped s →
      ∃ f' c, Bc.run (translate blk numRegs fuse) false 0 f' env = .stopped c ∧ c.st.trace = s.trace) ∧
    (∀ (f : Nat) (s : State w), Bf.run f prog env = .done s →
      ∃ g, ∀ b, g ≤ b →
        ∃ f' c, Bc.run (translate blk numRegs fuse) true b f' env = .done c ∧ c.st.trace = s.trace) :=
  bc_terminates hw hp hb (translate_ok blk numRegs fuse) env

/-! #### C07 -/

theorem bc_limited_finished_unconditional :
    (∀ (b f' : Nat) (c : Bc.Cfg w), Bc.run (translate blk numRegs fuse) true b f' env = .done c →
      ∃ (f : Nat) (s : State w), Bf.run f prog env = .done s ∧ s.trace = c.st.trace) ∧
    (∀ (b f' : Nat) (c : Bc.Cfg w), Bc.run (translate blk numRegs fuse) true b f' env = .stopped c →
      ∃ (f : Nat) (s : State w), Bf.run f prog env = .stopped s ∧ s.trace = c.st.trace) :=
  bc_limited_finished hw hp hb (translate_ok blk numRegs fuse) env

theorem bc_limited_is_prefix_unconditional :
    ∀ b f', ∃ f, ∀ g, f ≤ g →
      C07.traceOfBc (Bc.run (translate blk numRegs fuse) true b f' env) <:+
        C01.traceOfBf (Bf.run (w := w) g prog env) :=
  bc_limited_is_prefix hw hp hb (translate_ok blk numRegs fuse) env

theorem bc_limited_enough_unconditional :
    (∀ (f : Nat) (s : State w), Bf.run f prog env = .done s →
      ∃ g, ∀ b, g ≤ b →
        ∃ f' c, Bc.run (translate blk numRegs fuse) true b f' env = .done c ∧ c.st.trace = s.trace) ∧
    (∀ (f : Nat) (s : State w), Bf.run f prog env = .stopped s →
      ∃ g, ∀ b, g ≤ b →
        ∃ f' c, Bc.run (translate blk numRegs fuse) true b f' env = .stopped c ∧ c.st.trace = s.trace) :=
  bc_limited_enough hw hp hb (translate_ok blk numRegs fuse) env

/-- Limited mode in one statement: the call returns; it reports finished / stopped only with the complete
canonical event sequence of a canonical run that ends the same way; never "malformed bytecode". -/
theorem bc_limited_total_unconditional (b : Nat) :
    ∃ f', (∃ c, Bc.run (translate blk numRegs fuse) true b f' env = .interrupted c) ∨
      (∃ (c : Bc.Cfg w) (f : Nat) (s : State w), Bc.run (translate blk numRegs fuse) true b f' env = .done c ∧
        Bf.run f prog env = .done s ∧ s.trace = c.st.trace) ∨
      (∃ (c : Bc.Cfg w) (f : Nat) (s : State w), Bc.run (translate blk numRegs fuse) true b f' env = .stopped c ∧
        Bf.run f prog env = .stopped s ∧ s.trace = c.st.trace) := by
  obtain ⟨f', hf'⟩ := C07.bc_limited_terminates (translate blk numRegs fuse) env b
  refine ⟨f', ?_⟩
  have hfin := bc_limited_finished hw hp hb (translate_ok blk numRegs fuse) env
  cases hr : Bc.run (translate blk numRegs fuse) true b f' env with
  | outOfFuel c => exact (hf' c hr).elim
  | interrupted c => exact Or.inl ⟨c, rfl⟩
  | done c =>
    obtain ⟨f, s, h1, h2⟩ := hfin.1 b f' c hr
    exact Or.inr (Or.inl ⟨c, f, s, rfl, h1, h2⟩)
  | stopped c =>
    obtain ⟨f, s, h1, h2⟩ := hfin.2 b f' c hr
    exact Or.inr (Or.inr ⟨c, f, s, rfl, h1, h2⟩)
  | bad c => exact (C11.check_run_not_bad (translate_check blk numRegs fuse) true b f' env c hr).elim

/-! #### C08 -/

theorem bc_stops_like_canonical_unconditional :
    ∀ (f : Nat) (s : State w), Bf.run f prog env = .stopped s →
      ∃ f' c, (∀ k, Bc.run (translate blk numRegs fuse) false 0 (f' + k) env = .stopped c) ∧
        c.st.trace = s.trace :=
  bc_stops_like_canonical hw hp hb (translate_ok blk numRegs fuse) env

theorem bc_stops_only_like_canonical_unconditional :
    ∀ (l : Bool) (b f' : Nat) (c : Bc.Cfg w), Bc.run (translate blk numRegs fuse) l b f' env = .stopped c →
      (l = false → b = 0) →
      ∃ (f : Nat) (s : State w), Bf.run f prog env = .stopped s ∧ s.trace = c.st.trace :=
  bc_stops_only_like_canonical hw hp hb (translate_ok blk numRegs fuse) env

end Level0

/-- The same with the parser's result as a function of the text: only `0 < w` and balancedness remain. -/
theorem bytecode_level0_source (hw : 0 < w) {src : List Kind} {prog : Prog} (hp : Bf.tree src = some prog)
    (numRegs : Nat) (fuse : Bool) (env : Env) :
    ((∀ f (s : State w), Bf.run f prog env = .done s →
        ∃ f' c', Bc.run (translate (irOf w src) numRegs fuse) false 0 f' env = .done c' ∧
          c'.st.trace = s.trace) ∧
     (∀ f (s : State w), Bf.run f prog env = .stopped s →
        ∃ f' c', Bc.run (translate (irOf w src) numRegs fuse) false 0 f' env = .stopped c' ∧
          c'.st.trace = s.trace)) ∧
    ((∀ f' (c' : Bc.Cfg w), Bc.run (translate (irOf w src) numRegs fuse) false 0 f' env = .done c' →
        ∃ (f : Nat) (s : State w), Bf.run f prog env = .done s ∧ s.trace = c'.st.trace) ∧
     (∀ f' (c' : Bc.Cfg w), Bc.run (translate (irOf w src) numRegs fuse) false 0 f' env = .stopped c' →
        ∃ (f : Nat) (s : State w), Bf.run f prog env = .stopped s ∧ s.trace = c'.st.trace)) ∧
    ((∀ f', ∃ f, C07.traceOfBc (Bc.run (translate (irOf w src) numRegs fuse) false 0 f' env) =
        C01.traceOfBf (Bf.run (w := w) f prog env)) ∧
     (∀ f, ∃ f', C07.traceOfBc (Bc.run (translate (irOf w src) numRegs fuse) false 0 f' env) =
        C01.traceOfBf (Bf.run (w := w) f prog env))) :=
  bytecode_level0_unconditional hw hp (parse_irOf hp) numRegs fuse env

end Chain
end Hpbf
