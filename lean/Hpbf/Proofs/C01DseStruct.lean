/-
Structure of the result of the pass: bookkeeping of the sub-analysis index, totality (`ShapeOk`), the
result is the input with some assignments deleted (`SubL`), and the consequences of the static part of
`AnalSound` (`noShiftL`, `hadShift`).
-/
import Hpbf.Proofs.C01DseBase

namespace Hpbf
namespace C01Dse
open Ir OptDse

variable {w : Nat}

/-! ### counting nested blocks -/

@[simp] theorem nblocks_nil : nblocks ([] : List (Instr w)) = 0 := rfl

theorem nblocks_cons (i : Instr w) (l : List (Instr w)) :
    nblocks (i :: l) = nblocks l + (if isBlock i then 1 else 0) := by
  unfold nblocks
  rw [List.countP_cons]

theorem subAt_some {A A1 : DAnal} {k : Nat} (h : subAt A k = some A1) :
    1 ≤ k ∧ k ≤ A.subs.length ∧ A.subs[A.subs.length - k]? = some A1 := by
  unfold subAt at h
  split at h
  · rename_i hk
    refine ⟨?_, hk, h⟩
    cases k with
    | zero => simp at h
    | succ k => omega
  · exact absurd h (by simp)

theorem subAt_of {A A1 : DAnal} {k j : Nat} (h : A.subs[j]? = some A1) (hk : j + k = A.subs.length) :
    subAt A k = some A1 := by
  unfold subAt
  have hj : j < A.subs.length := by
    rcases List.getElem?_eq_some_iff.1 h with ⟨hj, _⟩
    exact hj
  rw [if_pos (by omega)]
  have : A.subs.length - k = j := by omega
  rw [this, h]

/-! ### analysis, shift and index bookkeeping -/

theorem elimInstr_meta {P : List DState} {i : Instr w} {s : DState} {idx : Nat} {i' : Instr w} {s' : DState}
    {idx' : Nat} (h : elimInstr P i s idx = some (i', s', idx')) :
    s'.anal = s.anal ∧ s'.shift = s.shift ∧ idx = idx' + (if isBlock i then 1 else 0) := by
  cases i with
  | output src =>
    rw [elimInstr_output] at h
    simp only [Option.some.injEq, Prod.mk.injEq] at h
    obtain ⟨_, rfl, rfl⟩ := h
    simp [isBlock]
  | input dst =>
    rw [elimInstr_input] at h
    simp only [Option.some.injEq, Prod.mk.injEq] at h
    obtain ⟨_, rfl, rfl⟩ := h
    simp [isBlock]
  | «calc» calcs =>
    rw [elimInstr_calc] at h
    simp only [Option.some.injEq, Prod.mk.injEq] at h
    obtain ⟨_, rfl, rfl⟩ := h
    obtain ⟨ws, hws, _⟩ := calcScan_state P calcs s []
    simp [isBlock, hws]
  | loop cond shift body once =>
    obtain ⟨k, A1, body', sub, idx1, rfl, _, _, hr⟩ := elimInstr_loop_some h
    simp only [Prod.mk.injEq] at hr
    obtain ⟨_, rfl, rfl⟩ := hr
    simp [isBlock]
  | ifnz cond shift body =>
    obtain ⟨k, A1, body', sub, idx1, rfl, _, _, hr⟩ := elimInstr_ifnz_some h
    simp only [Prod.mk.injEq] at hr
    obtain ⟨_, rfl, rfl⟩ := hr
    simp [isBlock]

theorem elimInsts_meta {P : List DState} {l : List (Instr w)} {s : DState} {idx : Nat} {l' : List (Instr w)}
    {s' : DState} {idx' : Nat} (h : elimInsts P l s idx = some (l', s', idx')) :
    s'.anal = s.anal ∧ s'.shift = s.shift ∧ idx = idx' + nblocks l := by
  induction l generalizing l' s' idx' with
  | nil =>
    rw [elimInsts_nil] at h
    simp only [Option.some.injEq, Prod.mk.injEq] at h
    obtain ⟨_, rfl, rfl⟩ := h
    simp
  | cons i rest ih =>
    obtain ⟨rest', s1, idx1, i', s0, idx0, h1, h2, hr⟩ := elimInsts_cons_some h
    simp only [Prod.mk.injEq] at hr
    obtain ⟨_, rfl, rfl⟩ := hr
    obtain ⟨a1, a2, a3⟩ := ih h1
    obtain ⟨b1, b2, b3⟩ := elimInstr_meta h2
    refine ⟨b1.trans a1, b2.trans a2, ?_⟩
    rw [nblocks_cons]; omega

/-- A nested block at the head of `i :: rest` is processed with the `(nblocks rest + 1)`-th analysis from the
end. -/
theorem subAt_of_elim {P : List DState} {rest rest' : List (Instr w)} {sh : Int} {A : DAnal} {s1 : DState}
    {k : Nat} {A1 : DAnal} (h1 : elimInsts P rest (DState.new sh A) A.subs.length = some (rest', s1, k + 1))
    (hA : s1.anal.subs[k]? = some A1) : subAt A (nblocks rest + 1) = some A1 := by
  obtain ⟨a1, _, a3⟩ := elimInsts_meta h1
  have ha : s1.anal = A := a1
  rw [ha] at hA
  exact subAt_of hA (by omega)

/-! ### totality: the pass fails exactly when an analysis node is missing -/

mutual
theorem elimInstr_total : ∀ (i : Instr w) (P : List DState) (s : DState) (k idx : Nat),
    shapeOkI s.anal i k = true → (isBlock i = true → idx + k = s.anal.subs.length + 1) →
    ∃ r, elimInstr P i s idx = some r
  | .output src, P, s, k, idx, _, _ => ⟨_, elimInstr_output P src s idx⟩
  | .input dst, P, s, k, idx, _, _ => ⟨_, elimInstr_input P dst s idx⟩
  | .calc calcs, P, s, k, idx, _, _ => ⟨_, elimInstr_calc P calcs s idx⟩
  | .loop cond shift body once, P, s, k, idx, h, hk => by
    rw [shapeOkI] at h
    cases hs : subAt s.anal k with
    | none => rw [hs] at h; exact absurd h (by simp)
    | some A1 =>
      rw [hs] at h
      obtain ⟨k1, k2, k3⟩ := subAt_some hs
      have hidx : idx = (s.anal.subs.length - k) + 1 := by have := hk rfl; omega
      obtain ⟨⟨body', sub, idx1⟩, hb⟩ :=
        elimInsts_total body (s.read cond :: P) (DState.new shift A1) h
      subst hidx
      exact ⟨_, elimInstr_loop_of k3 hb⟩
  | .ifnz cond shift body, P, s, k, idx, h, hk => by
    rw [shapeOkI] at h
    cases hs : subAt s.anal k with
    | none => rw [hs] at h; exact absurd h (by simp)
    | some A1 =>
      rw [hs] at h
      obtain ⟨k1, k2, k3⟩ := subAt_some hs
      have hidx : idx = (s.anal.subs.length - k) + 1 := by have := hk rfl; omega
      obtain ⟨⟨body', sub, idx1⟩, hb⟩ :=
        elimInsts_total body (s.read cond :: P) (DState.new shift A1) h
      subst hidx
      exact ⟨_, elimInstr_ifnz_of k3 hb⟩
theorem elimInsts_total : ∀ (l : List (Instr w)) (P : List DState) (s : DState),
    shapeOkL s.anal l = true → ∃ r, elimInsts P l s s.anal.subs.length = some r
  | [], P, s, _ => ⟨_, elimInsts_nil P s _⟩
  | i :: rest, P, s, h => by
    rw [shapeOkL, Bool.and_eq_true] at h
    obtain ⟨⟨rest', s1, idx1⟩, h1⟩ := elimInsts_total rest P s h.2
    obtain ⟨a1, _, a3⟩ := elimInsts_meta h1
    have hi : shapeOkI s1.anal i (nblocks rest + 1) = true := by rw [a1]; exact h.1
    obtain ⟨⟨i', s0, idx0⟩, h2⟩ := elimInstr_total i P s1 (nblocks rest + 1) idx1 hi (by
      intro hb
      cases i with
      | loop cond shift body once =>
        rw [shapeOkI] at hi
        cases hs : subAt s1.anal (nblocks rest + 1) with
        | none => rw [hs] at hi; exact absurd hi (by simp)
        | some A1 =>
          obtain ⟨k1, k2, _⟩ := subAt_some hs
          rw [a1] at k2 ⊢; omega
      | ifnz cond shift body =>
        rw [shapeOkI] at hi
        cases hs : subAt s1.anal (nblocks rest + 1) with
        | none => rw [hs] at hi; exact absurd hi (by simp)
        | some A1 =>
          obtain ⟨k1, k2, _⟩ := subAt_some hs
          rw [a1] at k2 ⊢; omega
      | output _ => simp [isBlock] at hb
      | input _ => simp [isBlock] at hb
      | «calc» _ => simp [isBlock] at hb)
    exact ⟨_, elimInsts_cons_of h1 h2⟩
end

mutual
theorem shape_of_elimInstr : ∀ (i : Instr w) (P : List DState) (s : DState) (k idx : Nat)
    (r : Instr w × DState × Nat), elimInstr P i s idx = some r → idx + k = s.anal.subs.length + 1 →
    shapeOkI s.anal i k = true
  | .output _, _, _, _, _, _, _, _ => by simp [shapeOkI]
  | .input _, _, _, _, _, _, _, _ => by simp [shapeOkI]
  | .calc _, _, _, _, _, _, _, _ => by simp [shapeOkI]
  | .loop cond shift body once, P, s, k, idx, r, h, hk => by
    obtain ⟨j, A1, body', sub, idx1, rfl, hA, hb, _⟩ := elimInstr_loop_some h
    have hs : subAt s.anal k = some A1 := subAt_of hA (by omega)
    rw [shapeOkI, hs]
    exact shape_of_elimInsts body _ (DState.new shift A1) _ hb
  | .ifnz cond shift body, P, s, k, idx, r, h, hk => by
    obtain ⟨j, A1, body', sub, idx1, rfl, hA, hb, _⟩ := elimInstr_ifnz_some h
    have hs : subAt s.anal k = some A1 := subAt_of hA (by omega)
    rw [shapeOkI, hs]
    exact shape_of_elimInsts body _ (DState.new shift A1) _ hb
theorem shape_of_elimInsts : ∀ (l : List (Instr w)) (P : List DState) (s : DState)
    (r : List (Instr w) × DState × Nat), elimInsts P l s s.anal.subs.length = some r →
    shapeOkL s.anal l = true
  | [], _, _, _, _ => by rw [shapeOkL]
  | i :: rest, P, s, r, h => by
    obtain ⟨rest', s1, idx1, i', s0, idx0, h1, h2, _⟩ := elimInsts_cons_some h
    obtain ⟨a1, _, a3⟩ := elimInsts_meta h1
    obtain ⟨_, _, b3⟩ := elimInstr_meta h2
    rw [shapeOkL, Bool.and_eq_true]
    refine ⟨?_, shape_of_elimInsts rest P s _ h1⟩
    by_cases hb : isBlock i = true
    · have := shape_of_elimInstr i P s1 (nblocks rest + 1) idx1 _ h2 (by rw [a1]; rw [if_pos hb] at b3; omega)
      rw [a1] at this; exact this
    · cases i with
      | loop _ _ _ _ => simp [isBlock] at hb
      | ifnz _ _ _ => simp [isBlock] at hb
      | output _ => simp [shapeOkI]
      | input _ => simp [shapeOkI]
      | «calc» _ => simp [shapeOkI]
end

/-! ### the result is the input with some assignments deleted -/

mutual
/-- `SubI i i'`: `i'` is `i` with some assignments deleted from its `calc`s (recursively). -/
inductive SubI : Instr w → Instr w → Prop
  | output (src : Int) : SubI (.output src) (.output src)
  | input (dst : Int) : SubI (.input dst) (.input dst)
  | calc {calcs calcs' : List (Int × Expr w)} : calcs'.Sublist calcs → SubI (.calc calcs) (.calc calcs')
  | loop (cond shift : Int) {body body' : List (Instr w)} (once : Bool) :
      SubL body body' → SubI (.loop cond shift body once) (.loop cond shift body' once)
  | ifnz (cond shift : Int) {body body' : List (Instr w)} :
      SubL body body' → SubI (.ifnz cond shift body) (.ifnz cond shift body')
inductive SubL : List (Instr w) → List (Instr w) → Prop
  | nil : SubL [] []
  | cons {i i' : Instr w} {l l' : List (Instr w)} : SubI i i' → SubL l l' → SubL (i :: l) (i' :: l')
end

mutual
theorem subI_of_elimInstr : ∀ (i : Instr w) (P : List DState) (s : DState) (idx : Nat)
    (i' : Instr w) (s' : DState) (idx' : Nat), elimInstr P i s idx = some (i', s', idx') → SubI i i'
  | .output src, P, s, idx, i', s', idx', h => by
    rw [elimInstr_output] at h
    simp only [Option.some.injEq, Prod.mk.injEq] at h
    rw [← h.1]; exact SubI.output src
  | .input dst, P, s, idx, i', s', idx', h => by
    rw [elimInstr_input] at h
    simp only [Option.some.injEq, Prod.mk.injEq] at h
    rw [← h.1]; exact SubI.input dst
  | .calc calcs, P, s, idx, i', s', idx', h => by
    rw [elimInstr_calc] at h
    simp only [Option.some.injEq, Prod.mk.injEq] at h
    rw [← h.1]; exact SubI.calc List.filter_sublist
  | .loop cond shift body once, P, s, idx, i', s', idx', h => by
    obtain ⟨j, A1, body', sub, idx1, rfl, hA, hb, hr⟩ := elimInstr_loop_some h
    simp only [Prod.mk.injEq] at hr
    rw [hr.1]; exact SubI.loop cond shift once (subL_of_elimInsts body _ _ _ _ _ _ hb)
  | .ifnz cond shift body, P, s, idx, i', s', idx', h => by
    obtain ⟨j, A1, body', sub, idx1, rfl, hA, hb, hr⟩ := elimInstr_ifnz_some h
    simp only [Prod.mk.injEq] at hr
    rw [hr.1]; exact SubI.ifnz cond shift (subL_of_elimInsts body _ _ _ _ _ _ hb)
theorem subL_of_elimInsts : ∀ (l : List (Instr w)) (P : List DState) (s : DState) (idx : Nat)
    (l' : List (Instr w)) (s' : DState) (idx' : Nat), elimInsts P l s idx = some (l', s', idx') → SubL l l'
  | [], P, s, idx, l', s', idx', h => by
    rw [elimInsts_nil] at h
    simp only [Option.some.injEq, Prod.mk.injEq] at h
    rw [← h.1]; exact SubL.nil
  | i :: rest, P, s, idx, l', s', idx', h => by
    obtain ⟨rest', s1, idx1, i', s0, idx0, h1, h2, hr⟩ := elimInsts_cons_some h
    simp only [Prod.mk.injEq] at hr
    rw [hr.1]
    exact SubL.cons (subI_of_elimInstr i _ _ _ _ _ _ h2) (subL_of_elimInsts rest _ _ _ _ _ _ h1)
end

/-! ### `hadShift` -/

theorem elimInsts_hadShift {P : List DState} {l : List (Instr w)} {s : DState} {idx : Nat}
    {l' : List (Instr w)} {s' : DState} {idx' : Nat} (h : elimInsts P l s idx = some (l', s', idx'))
    (hsub : ∀ j A, idx' ≤ j → j < idx → s.anal.subs[j]? = some A → A.hasShift = false) :
    s'.hadShift = s.hadShift := by
  induction l generalizing l' s' idx' with
  | nil =>
    rw [elimInsts_nil] at h
    simp only [Option.some.injEq, Prod.mk.injEq] at h
    rw [← h.2.1]
  | cons i rest ih =>
    obtain ⟨rest', s1, idx1, i', s0, idx0, h1, h2, hr⟩ := elimInsts_cons_some h
    simp only [Prod.mk.injEq] at hr
    obtain ⟨_, rfl, rfl⟩ := hr
    obtain ⟨a1, _, a3⟩ := elimInsts_meta h1
    obtain ⟨_, _, b3⟩ := elimInstr_meta h2
    have hs1 : s1.hadShift = s.hadShift := ih h1 (fun j A hj1 hj2 => hsub j A (by omega) hj2)
    rw [← hs1]
    cases i with
    | output src =>
      rw [elimInstr_output] at h2
      simp only [Option.some.injEq, Prod.mk.injEq] at h2
      rw [← h2.2.1]; rfl
    | input dst =>
      rw [elimInstr_input] at h2
      simp only [Option.some.injEq, Prod.mk.injEq] at h2
      rw [← h2.2.1]; rfl
    | «calc» calcs =>
      rw [elimInstr_calc] at h2
      simp only [Option.some.injEq, Prod.mk.injEq] at h2
      obtain ⟨ws, hws, _⟩ := calcScan_state P calcs s1 []
      rw [← h2.2.1, readAll_hadShift, hws, writeAll_hadShift]
    | loop cond shift body once =>
      obtain ⟨k, A1, body', sub, idx1', hk, hA, _, hr⟩ := elimInstr_loop_some h2
      simp only [Prod.mk.injEq] at hr
      obtain ⟨_, hs0, hk0⟩ := hr
      rw [a1] at hA
      have := hsub k A1 (by omega) (by omega) hA
      rw [hs0, absorb_hadShift, this]; simp
    | ifnz cond shift body =>
      obtain ⟨k, A1, body', sub, idx1', hk, hA, _, hr⟩ := elimInstr_ifnz_some h2
      simp only [Prod.mk.injEq] at hr
      obtain ⟨_, hs0, hk0⟩ := hr
      rw [a1] at hA
      have := hsub k A1 (by omega) (by omega) hA
      rw [hs0, absorb_hadShift, this]; simp

theorem usedSubs_spec {A : DAnal} {n : Nat} (h : (usedSubs A n).all (fun a => !a.hasShift) = true)
    {j : Nat} {A1 : DAnal} (hj : A.subs.length - n ≤ j) (hA : A.subs[j]? = some A1) : A1.hasShift = false := by
  rw [List.all_eq_true] at h
  have hm : A1 ∈ usedSubs A n := by
    unfold usedSubs
    rw [List.mem_iff_getElem?]
    refine ⟨j - (A.subs.length - n), ?_⟩
    rw [List.getElem?_drop]
    have : A.subs.length - n + (j - (A.subs.length - n)) = j := by omega
    rw [this, hA]
  simpa using h A1 hm

/-- The state at the start of a body whose nested blocks are all marked `has_shift = false`. -/
theorem bodyStart_hadShift {P : List DState} {body body' : List (Instr w)} {shift : Int} {A1 : DAnal}
    {sub : DState} {idx1 : Nat}
    (hb : elimInsts P body (DState.new shift A1) A1.subs.length = some (body', sub, idx1))
    (hu : (usedSubs A1 (nblocks body)).all (fun a => !a.hasShift) = true) : sub.hadShift = false := by
  obtain ⟨_, _, a3⟩ := elimInsts_meta hb
  have := elimInsts_hadShift hb (fun j A hj1 _ hA => usedSubs_spec hu (by
    have : (DState.new shift A1).anal = A1 := rfl
    omega) hA)
  rw [this]; rfl

/-! ### no pointer movement -/

mutual
def noShiftI : Instr w → Bool
  | .loop _ shift body _ => shift == 0 && noShiftL body
  | .ifnz _ shift body => shift == 0 && noShiftL body
  | _ => true
def noShiftL : List (Instr w) → Bool
  | [] => true
  | i :: rest => noShiftI i && noShiftL rest
end

def noShiftK : Cont w → Bool
  | .loopEnd _ shift body rest => shift == 0 && noShiftL body && noShiftL rest
  | .ifEnd shift rest => shift == 0 && noShiftL rest

theorem subAt_used {A A1 : DAnal} {k n : Nat} (h : subAt A k = some A1) (hk : k ≤ n)
    (hu : (usedSubs A n).all (fun a => !a.hasShift) = true) : A1.hasShift = false := by
  obtain ⟨k1, k2, k3⟩ := subAt_some h
  exact usedSubs_spec hu (by omega) k3

mutual
theorem noShiftI_of : ∀ (i : Instr w) (A : DAnal) (k : Nat), shapeOkI A i k = true → shiftOkI A i k = true →
    (∀ A1, subAt A k = some A1 → A1.hasShift = false) → noShiftI i = true
  | .output _, _, _, _, _, _ => by simp [noShiftI]
  | .input _, _, _, _, _, _ => by simp [noShiftI]
  | .calc _, _, _, _, _, _ => by simp [noShiftI]
  | .loop cond shift body once, A, k, h1, h2, h3 => by
    rw [shapeOkI] at h1
    rw [shiftOkI] at h2
    cases hs : subAt A k with
    | none => rw [hs] at h1; exact absurd h1 (by simp)
    | some A1 =>
      rw [hs] at h1 h2
      simp only [Bool.and_eq_true, Bool.or_eq_true, h3 A1 hs, Bool.false_eq_true, false_or] at h2
      rw [noShiftI, Bool.and_eq_true]
      refine ⟨h2.1.1, noShiftL_of body A1 (nblocks body) h1 h2.2 (Nat.le_refl _) h2.1.2⟩
  | .ifnz cond shift body, A, k, h1, h2, h3 => by
    rw [shapeOkI] at h1
    rw [shiftOkI] at h2
    cases hs : subAt A k with
    | none => rw [hs] at h1; exact absurd h1 (by simp)
    | some A1 =>
      rw [hs] at h1 h2
      simp only [Bool.and_eq_true, Bool.or_eq_true, h3 A1 hs, Bool.false_eq_true, false_or] at h2
      rw [noShiftI, Bool.and_eq_true]
      refine ⟨h2.1.1, noShiftL_of body A1 (nblocks body) h1 h2.2 (Nat.le_refl _) h2.1.2⟩
theorem noShiftL_of : ∀ (l : List (Instr w)) (A : DAnal) (n : Nat), shapeOkL A l = true → shiftOkL A l = true →
    nblocks l ≤ n → (usedSubs A n).all (fun a => !a.hasShift) = true → noShiftL l = true
  | [], _, _, _, _, _, _ => by rw [noShiftL]
  | i :: rest, A, n, h1, h2, hn, hu => by
    rw [shapeOkL, Bool.and_eq_true] at h1
    rw [shiftOkL, Bool.and_eq_true] at h2
    rw [nblocks_cons] at hn
    rw [noShiftL, Bool.and_eq_true]
    refine ⟨?_, noShiftL_of rest A n h1.2 h2.2 (by omega) hu⟩
    by_cases hb : isBlock i = true
    · rw [if_pos hb] at hn
      exact noShiftI_of i A (nblocks rest + 1) h1.1 h2.1 (fun A1 hA1 => subAt_used hA1 (by omega) hu)
    · cases i with
      | loop _ _ _ _ => simp [isBlock] at hb
      | ifnz _ _ _ => simp [isBlock] at hb
      | output _ => simp [noShiftI]
      | input _ => simp [noShiftI]
      | «calc» _ => simp [noShiftI]
end

end C01Dse
end Hpbf
