/-
Offsets of optimized IR, part 2: the parser establishes the bound — `reach (parse src) ≤ moves src`.

Accounting: every `<`/`>` is charged to the frame of the parser's stack that is open when it is read
(`m`, per frame). A frame's `shift` and the keys of its buffer with a non-zero pending addition differ from
the frame's base (the parent's `shift` when the frame was opened) by at most `m`; when a frame is closed its
block's `|shift| ≤ m` becomes drift of the parent. Hence at every moment
  (drift emitted so far in all open frames) + (sum of the `m` of all open frames) ≤ number of moves so far,
and a new mention in the top frame is bounded by the sum of the `m`s.
-/
import Hpbf.Proofs.OptOffsDefs

namespace Hpbf.OptOffs
open Hpbf Ir

variable {w : Nat}

/-- The invariant of one frame: `G` = drift before the frame's first instruction, `b` = base of the frame,
`Mb` bounds `|b|`, `m` = moves charged to the frame, `n` = moves so far. -/
structure FOk (n G Mb : Nat) (b : Int) (m : Nat) (f : Frame w) : Prop where
  shift : (f.shift - b).natAbs ≤ m
  keys : ∀ kv ∈ f.buff, kv.2 ≠ 0#w → (kv.1 - b).natAbs ≤ m
  insts : OkL n G f.rinsts.reverse
  base : b.natAbs ≤ Mb
  acct : G + driftL f.rinsts + Mb + m ≤ n

theorem FOk.mono {n n' G Mb : Nat} {b : Int} {m : Nat} {f : Frame w} (h : FOk n G Mb b m f) (hn : n ≤ n') :
    FOk n' G Mb b m f :=
  ⟨h.shift, h.keys, h.insts.mono hn, h.base, Nat.le_trans h.acct hn⟩

/-- A name within `m` of the base is bounded at the frame's current drift. -/
theorem FOk.nb {n G Mb : Nat} {b : Int} {m : Nat} {f : Frame w} (h : FOk n G Mb b m f) {k : Int}
    (hk : (k - b).natAbs ≤ m) : NB n (G + driftL f.rinsts.reverse) k := by
  have := h.base; have := h.acct
  rw [driftL_reverse]
  unfold NB; omega

/-- Push an instruction without drift. -/
theorem FOk.push {n G Mb : Nat} {b : Int} {m : Nat} {f : Frame w} (h : FOk n G Mb b m f) {i : Instr w}
    (hi : OkI n (G + driftL f.rinsts.reverse) i) (hd : driftI i = 0) (buff : List (Int × BitVec w))
    (hb : ∀ kv ∈ buff, kv.2 ≠ 0#w → (kv.1 - b).natAbs ≤ m) (moved : Bool) :
    FOk n G Mb b m { shift := f.shift, moved := moved, rinsts := i :: f.rinsts, buff := buff } := by
  refine ⟨h.shift, hb, ?_, h.base, ?_⟩
  · show OkL n G (i :: f.rinsts).reverse
    rw [List.reverse_cons, okL_snoc]; exact ⟨h.insts, hi⟩
  · show G + driftL (i :: f.rinsts) + Mb + m ≤ n
    simp only [driftL, hd]; have := h.acct; omega

theorem mem_bset {b : List (Int × BitVec w)} {k : Int} {v : BitVec w} {kv : Int × BitVec w}
    (h : kv ∈ bset b k v) : kv = (k, v) ∨ kv ∈ b := by
  induction b with
  | nil => simp only [bset, List.mem_singleton] at h; exact Or.inl h
  | cons x rest ih =>
    obtain ⟨k', v'⟩ := x
    simp only [bset] at h
    split at h
    · rename_i e
      rcases List.mem_cons.1 h with e1 | e1
      · left; rw [e1, e]
      · exact Or.inr (List.mem_cons_of_mem _ e1)
    · rcases List.mem_cons.1 h with e1 | e1
      · exact Or.inr (e1 ▸ List.mem_cons_self)
      · rcases ih e1 with e2 | e2
        · exact Or.inl e2
        · exact Or.inr (List.mem_cons_of_mem _ e2)

theorem bget_mem {b : List (Int × BitVec w)} {k : Int} {v : BitVec w} (h : bget b k = some v) :
    (k, v) ∈ b := by
  induction b with
  | nil => simp [bget] at h
  | cons x rest ih =>
    obtain ⟨k', v'⟩ := x
    simp only [bget] at h
    split at h
    · rename_i e
      simp only [Option.some.injEq] at h
      rw [← e, ← h]; exact List.mem_cons_self
    · exact List.mem_cons_of_mem _ (ih h)

theorem keys_bset {b : List (Int × BitVec w)} {base : Int} {m : Nat} {k : Int} {v : BitVec w}
    (hb : ∀ kv ∈ b, kv.2 ≠ 0#w → (kv.1 - base).natAbs ≤ m) (hk : v ≠ 0#w → (k - base).natAbs ≤ m) :
    ∀ kv ∈ bset b k v, kv.2 ≠ 0#w → (kv.1 - base).natAbs ≤ m := by
  intro kv hkv hne
  rcases mem_bset hkv with e | e
  · subst e; exact hk hne
  · exact hb kv e hne

theorem okI_add {R g : Nat} {k : Int} (v : BitVec w) (hk : NB R g k) : OkI R g (Instr.add k v : Instr w) := by
  unfold Instr.add
  rw [okI_calc]
  intro ve hve
  simp only [List.mem_singleton] at hve
  subst hve
  refine ⟨hk, ?_⟩
  intro x hx
  simp [Expr.variables] at hx
  subst hx; exact hk

theorem okI_load {R g : Nat} {k : Int} (c : BitVec w) (hk : NB R g k) :
    OkI R g (Instr.load k c : Instr w) := by
  unfold Instr.load
  rw [okI_calc]
  intro ve hve
  simp only [List.mem_singleton] at hve
  subst hve
  refine ⟨hk, ?_⟩
  intro x hx
  simp only [Expr.val, Expr.variables] at hx
  split at hx <;> simp at hx

theorem driftI_add (k : Int) (v : BitVec w) : driftI (Instr.add k v : Instr w) = 0 := rfl
theorem driftI_load (k : Int) (v : BitVec w) : driftI (Instr.load k v : Instr w) = 0 := rfl

theorem flushOne_ok {n G Mb : Nat} {b : Int} {m : Nat} {f : Frame w} (h : FOk n G Mb b m f) (k : Int) :
    FOk n G Mb b m (flushOne f k) ∧ (flushOne f k).shift = f.shift ∧
      driftL (flushOne f k).rinsts = driftL f.rinsts := by
  unfold flushOne
  split
  · exact ⟨⟨h.shift, keys_bset h.keys (fun hne => absurd rfl hne), h.insts, h.base, h.acct⟩, rfl, rfl⟩
  · rename_i v hv
    split
    · rename_i hne
      have hne' : v ≠ 0#w := by simpa using hne
      have hk := h.keys _ (bget_mem hv) hne'
      refine ⟨h.push (okI_add v (h.nb hk)) (driftI_add k v) _
        (keys_bset h.keys (fun hne => absurd rfl hne)) _, rfl, ?_⟩
      simp [driftL, driftI_add]
    · exact ⟨h, rfl, rfl⟩

theorem flushMany_ok {n G Mb : Nat} {b : Int} {m : Nat} (vars : List (Int × BitVec w)) :
    ∀ (f : Frame w), FOk n G Mb b m f →
      FOk n G Mb b m (vars.foldl (fun p kv => flushOne p kv.1) f) ∧
      (vars.foldl (fun p kv => flushOne p kv.1) f).shift = f.shift ∧
      driftL (vars.foldl (fun p kv => flushOne p kv.1) f).rinsts = driftL f.rinsts := by
  induction vars with
  | nil => intro f hf; exact ⟨hf, rfl, rfl⟩
  | cons kv rest ih =>
    intro f hf
    simp only [List.foldl_cons]
    obtain ⟨h1, h2, h3⟩ := flushOne_ok hf kv.1
    obtain ⟨g1, g2, g3⟩ := ih _ h1
    exact ⟨g1, g2.trans h2, g3.trans h3⟩

/-- `pushAdds`: the new instructions are additions at keys with a non-zero value. -/
theorem pushAdds_ok {n G : Nat} (vars : List (Int × BitVec w)) :
    ∀ (r : List (Instr w)), OkL n G r.reverse →
      (∀ kv ∈ vars, kv.2 ≠ 0#w → NB n (G + driftL r) kv.1) →
      OkL n G (pushAdds r vars).reverse ∧ driftL (pushAdds r vars) = driftL r := by
  induction vars with
  | nil => intro r hr _; exact ⟨hr, rfl⟩
  | cons kv rest ih =>
    intro r hr hv
    simp only [pushAdds, List.foldl_cons]
    have hrest : ∀ x ∈ rest, x.2 ≠ 0#w → NB n (G + driftL r) x.1 :=
      fun x hx => hv x (List.mem_cons_of_mem _ hx)
    split
    · rename_i hne
      have hne' : kv.2 ≠ 0#w := by simpa using hne
      have hk := hv kv List.mem_cons_self hne'
      have hd : driftL (Instr.add kv.1 kv.2 :: r) = driftL r := by simp [driftL, driftI_add]
      obtain ⟨h1, h2⟩ := ih (Instr.add kv.1 kv.2 :: r)
        (by rw [List.reverse_cons, okL_snoc, driftL_reverse]; exact ⟨hr, okI_add _ hk⟩)
        (by rw [hd]; exact hrest)
      exact ⟨h1, h2.trans hd⟩
    · exact ih r hr hrest

theorem mem_bsorted {b : List (Int × BitVec w)} {kv : Int × BitVec w} (h : kv ∈ bsorted b) : kv ∈ b :=
  C10.mem_stableSort _ kv b h

theorem pushAdds_frame {n G Mb : Nat} {b : Int} {m : Nat} {f : Frame w} (h : FOk n G Mb b m f) :
    OkL n G (pushAdds f.rinsts (bsorted f.buff)).reverse ∧
      driftL (pushAdds f.rinsts (bsorted f.buff)) = driftL f.rinsts := by
  apply pushAdds_ok _ _ h.insts
  intro kv hkv hne
  have := h.nb (h.keys kv (mem_bsorted hkv) hne)
  rwa [driftL_reverse] at this

theorem closeLoop_ok {n G Mb : Nat} {b : Int} {m ms : Nat} {sub par : Frame w}
    (hp : FOk n G Mb b m par)
    (hs : FOk n (G + driftL par.rinsts) (Mb + m) par.shift ms sub) :
    FOk n G Mb b m (closeLoop sub par) ∧ (closeLoop sub par).shift = par.shift := by
  obtain ⟨hbody, hbd⟩ := pushAdds_frame hs
  unfold closeLoop
  simp only
  split
  · refine ⟨?_, rfl⟩
    have hk : (par.shift - b).natAbs ≤ m := hp.shift
    exact hp.push (okI_load _ (hp.nb hk)) (driftI_load _ _) _
      (keys_bset hp.keys (fun hne => absurd rfl hne)) _
  · obtain ⟨h1, s1, d1⟩ := flushMany_ok (bsorted sub.buff) par hp
    generalize (bsorted sub.buff).foldl (fun p kv => flushOne p kv.1) par = p1 at h1 s1 d1 ⊢
    -- the unbalanced case: flush everything
    have h2 : ∀ c : Bool,
        FOk n G Mb b m (if c then
          { p1 with rinsts := pushAdds p1.rinsts (bsorted p1.buff)
                    buff := p1.buff.map (fun kv => (kv.1, 0#w))
                    moved := true } else p1) ∧
        (if c then
          { p1 with rinsts := pushAdds p1.rinsts (bsorted p1.buff)
                    buff := p1.buff.map (fun kv => (kv.1, 0#w))
                    moved := true } else p1).shift = p1.shift ∧
        driftL (if c then
          { p1 with rinsts := pushAdds p1.rinsts (bsorted p1.buff)
                    buff := p1.buff.map (fun kv => (kv.1, 0#w))
                    moved := true } else p1).rinsts = driftL p1.rinsts := by
      intro c
      cases c with
      | false => exact ⟨h1, rfl, rfl⟩
      | true =>
        obtain ⟨g1, g2⟩ := pushAdds_frame h1
        refine ⟨⟨h1.shift, ?_, g1, h1.base, ?_⟩, rfl, g2⟩
        · intro kv hkv hne
          simp only [if_true, List.mem_map] at hkv
          obtain ⟨x, _, e⟩ := hkv
          subst e; exact absurd rfl hne
        · simp only [if_true]; rw [g2]; exact h1.acct
    obtain ⟨h2', s2, d2⟩ := h2 (sub.moved || sub.shift != p1.shift)
    generalize (if (sub.moved || sub.shift != p1.shift) = true then
          ({ p1 with rinsts := pushAdds p1.rinsts (bsorted p1.buff)
                     buff := p1.buff.map (fun kv => (kv.1, 0#w))
                     moved := true } : Frame w) else p1) = p2 at h2' s2 d2 ⊢
    obtain ⟨h3, s3, d3⟩ := flushOne_ok h2' p2.shift
    generalize flushOne p2 p2.shift = p3 at h3 s3 d3 ⊢
    have hsh : p3.shift = par.shift := by rw [s3, s2, s1]
    have hdr : driftL p3.rinsts = driftL par.rinsts := by rw [d3, d2, d1]
    refine ⟨⟨h3.shift, h3.keys, ?_, h3.base, ?_⟩, hsh⟩
    · show OkL n G (Instr.loop p3.shift (sub.shift - p3.shift) _ false :: p3.rinsts).reverse
      rw [List.reverse_cons, okL_snoc, okI_loop]
      refine ⟨h3.insts, h3.nb h3.shift, ?_⟩
      rw [driftL_reverse, hdr]; exact hbody
    · show G + driftL (Instr.loop p3.shift (sub.shift - p3.shift) _ false :: p3.rinsts) + Mb + m ≤ n
      simp only [driftL, driftI, driftL_reverse, hbd, hdr, hsh]
      have := hs.acct; have := hs.shift
      omega

/-- The frames below the top one: `Stk n f rest G Mb b` — the frame `f` on top of `rest` starts at drift
`G` and has base `b` with `|b| ≤ Mb`. -/
inductive Stk (n : Nat) : Frame w → List (Frame w) → Nat → Nat → Int → Prop
  | bottom (f : Frame w) : Stk n f [] 0 0 0
  | push {f par : Frame w} {rest : List (Frame w)} {G Mb : Nat} {b : Int} {m : Nat} :
      Stk n par rest G Mb b → FOk n G Mb b m par →
      Stk n f (par :: rest) (G + driftL par.rinsts) (Mb + m) par.shift

theorem Stk.mono {n n' : Nat} (hn : n ≤ n') {f : Frame w} {rest : List (Frame w)} {G Mb : Nat} {b : Int}
    (h : Stk n f rest G Mb b) : Stk n' f rest G Mb b := by
  induction h with
  | bottom f => exact .bottom f
  | push _ hp ih => exact .push ih (hp.mono hn)

/-- `Stk` does not look at the top frame. -/
theorem Stk.top {n : Nat} {f f' : Frame w} {rest : List (Frame w)} {G Mb : Nat} {b : Int}
    (h : Stk n f rest G Mb b) : Stk n f' rest G Mb b := by
  cases h with
  | bottom => exact .bottom f'
  | push h1 h2 => exact .push h1 h2

def StateOk (n : Nat) (ps : PState w) : Prop :=
  ∃ (G Mb : Nat) (b : Int) (m : Nat), Stk n ps.top ps.rest G Mb b ∧ FOk n G Mb b m ps.top

theorem parseStep_ok {n : Nat} {ps ps' : PState w} {i : Nat} {k : Kind} (hs : StateOk n ps)
    (h : parseStep ps i k = .ok ps') : StateOk (n + C10.moveCount k) ps' := by
  obtain ⟨G, Mb, b, m, hst, ht⟩ := hs
  cases k with
  | right =>
    simp only [parseStep, Except.ok.injEq] at h
    subst h
    refine ⟨G, Mb, b, m + 1, (hst.mono (Nat.le_succ n)).top, ?_⟩
    have h1 := ht.shift; have h2 := ht.acct
    exact ⟨by simp only; omega, fun kv hkv hne => Nat.le_succ_of_le (ht.keys kv hkv hne),
      ht.insts.mono (Nat.le_succ n), ht.base,
      by show G + driftL ps.top.rinsts + Mb + (m + 1) ≤ n + 1; omega⟩
  | left =>
    simp only [parseStep, Except.ok.injEq] at h
    subst h
    refine ⟨G, Mb, b, m + 1, (hst.mono (Nat.le_succ n)).top, ?_⟩
    have h1 := ht.shift; have h2 := ht.acct
    exact ⟨by simp only; omega, fun kv hkv hne => Nat.le_succ_of_le (ht.keys kv hkv hne),
      ht.insts.mono (Nat.le_succ n), ht.base,
      by show G + driftL ps.top.rinsts + Mb + (m + 1) ≤ n + 1; omega⟩
  | inc =>
    simp only [parseStep, Except.ok.injEq] at h
    subst h
    exact ⟨G, Mb, b, m, hst.top,
      ⟨ht.shift, keys_bset ht.keys (fun _ => ht.shift), ht.insts, ht.base, ht.acct⟩⟩
  | dec =>
    simp only [parseStep, Except.ok.injEq] at h
    subst h
    exact ⟨G, Mb, b, m, hst.top,
      ⟨ht.shift, keys_bset ht.keys (fun _ => ht.shift), ht.insts, ht.base, ht.acct⟩⟩
  | out =>
    simp only [parseStep, Except.ok.injEq] at h
    subst h
    obtain ⟨hf, hsft, _⟩ := flushOne_ok ht ps.top.shift
    refine ⟨G, Mb, b, m, hst.top, ?_⟩
    exact hf.push (okI_output.2 (hf.nb hf.shift)) rfl _ hf.keys _
  | inp =>
    simp only [parseStep, Except.ok.injEq] at h
    subst h
    refine ⟨G, Mb, b, m, hst.top, ?_⟩
    exact ht.push (okI_input.2 (ht.nb ht.shift)) rfl _
      (keys_bset ht.keys (fun hne => absurd rfl hne)) _
  | «open» =>
    simp only [parseStep, Except.ok.injEq] at h
    subst h
    refine ⟨G + driftL ps.top.rinsts, Mb + m, ps.top.shift, 0, .push hst ht, ?_⟩
    have h1 := ht.shift; have h2 := ht.acct; have h3 := ht.base
    exact ⟨by simp, fun kv hkv => (by cases hkv), okL_nil _ _, by omega, (by simp [driftL]; omega)⟩
  | close =>
    simp only [parseStep] at h
    split at h
    · cases h
    · cases h
    · rename_i poss par rest hpos hrest
      simp only [Except.ok.injEq] at h
      subst h
      rw [hrest] at hst
      cases hst with
      | push hst' hp =>
        obtain ⟨hc, _⟩ := closeLoop_ok hp ht
        exact ⟨_, _, _, _, hst'.top, hc⟩
  | comment =>
    simp only [parseStep, Except.ok.injEq] at h
    subst h
    exact ⟨G, Mb, b, m, hst, ht⟩

theorem parseLoop_ok (ks : List Kind) :
    ∀ {n i : Nat} {ps ps' : PState w}, StateOk n ps → parseLoop ks i ps = .ok ps' →
      StateOk (n + moves ks) ps' := by
  induction ks with
  | nil =>
    intro n i ps ps' hs h
    simp only [parseLoop, Except.ok.injEq] at h
    subst h
    exact hs
  | cons k ks ih =>
    intro n i ps ps' hs h
    simp only [parseLoop] at h
    split at h
    · cases h
    · rename_i ps1 h1
      have := ih (parseStep_ok hs h1) h
      rw [C10.moves_cons]
      rw [Nat.add_assoc] at this
      exact this

/-- **The parser's output respects the bound "number of `<`/`>`".** -/
theorem parse_reach_le_moves {src : List Kind} {blk : Block w} (h : parse (w := w) src = .ok blk) :
    reach blk ≤ moves src := by
  unfold parse at h
  split at h
  · cases h
  · rename_i ps hps
    have h0 : StateOk 0
        ({ top := { shift := 0, moved := false, rinsts := [], buff := [] }, rest := [], positions := [] } :
          PState w) :=
      ⟨0, 0, 0, 0, .bottom _, ⟨by simp, fun kv hkv => (by cases hkv), okL_nil _ _, by simp, (by simp [driftL])⟩⟩
    have hs := parseLoop_ok src h0 hps
    rw [Nat.zero_add] at hs
    obtain ⟨G, Mb, b, m, hst, ht⟩ := hs
    split at h
    · rename_i hrest
      simp only [Except.ok.injEq] at h
      subst h
      rw [hrest] at hst
      cases hst
      exact okL_iff_reach.1 (pushAdds_frame ht).1
    · cases h
    · cases h

theorem parse_reach_le_length {src : List Kind} {blk : Block w} (h : parse (w := w) src = .ok blk) :
    reach blk ≤ src.length :=
  Nat.le_trans (parse_reach_le_moves h) (C10.moves_le_length src)

end Hpbf.OptOffs
