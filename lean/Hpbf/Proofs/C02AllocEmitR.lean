/-
C02 (`allocate_temps`), part 19: the component `region` of `EmitRest` for generator output.

Between the instructions of the IR program every computed value has been read (`RInv.unread`): a value created by
`getValue (.add a b)` is an operand of the next value or the result of its `calc` entry, and all results are
stored before the `calc` ends.  Hence the code between a computation and its first use lies inside one `calc`:
it is straight-line and contains no branch target.
-/
import Hpbf.Proofs.C02AllocEmitI
set_option linter.unusedSimpArgs false

namespace Hpbf
namespace C02
namespace AEmit

open Bc BcWf BcGen C11 C02Emit

variable {w : Nat}

/-! ### value flow through the expression code generator -/

section flow
variable {K : St w → Prop} {Un : St w → Nat → Prop}
  (hg : ∀ (e : GvnExpr w) (s : St w) (v : Nat) (s' : St w), K s → (∀ a ∈ opsOf e, a < s.ranges.size) →
    getValue e s = .ok (v, s') →
    K s' ∧ v < s'.ranges.size ∧ ∀ t, Un s' t → (Un s t ∧ t ∉ opsOf e) ∨ t = v)
  (hm : ∀ (var : Int) (x : Nat) (s s' : St w) (u : Unit), K s → x < s.ranges.size →
    memWrite var x s = .ok (u, s') → K s' ∧ ∀ t, Un s' t → Un s t ∧ t ≠ x)
include hg

theorem gvf {e : GvnExpr w} {s s' : St w} {v : Nat} (hk : K s) (ho : ∀ a ∈ opsOf e, a < s.ranges.size)
    (h : getValue e s = .ok (v, s')) :
    K s' ∧ v < s'.ranges.size ∧ s.ranges.size ≤ s'.ranges.size ∧
      ∀ t, Un s' t → (Un s t ∧ t ∉ opsOf e) ∨ t = v :=
  ⟨(hg e s v s' hk ho h).1, (hg e s v s' hk ho h).2.1, getValue_size h, (hg e s v s' hk ho h).2.2⟩

theorem codegenVars_flow : ∀ (vs : List Int) (result : Nat) {s s' : St w} {r : Nat},
    codegenVars result vs s = .ok (r, s') → K s → result < s.ranges.size →
    K s' ∧ r < s'.ranges.size ∧ s.ranges.size ≤ s'.ranges.size ∧
      ∀ t, Un s' t → (Un s t ∧ t ≠ result) ∨ t = r
  | [], result, s, s', r, h, hk, hr => by
    simp only [codegenVars, pure_ok] at h
    rw [h.1, h.2]
    refine ⟨hk, hr, Nat.le_refl _, ?_⟩
    intro t ht
    by_cases e : t = result
    · exact Or.inr e
    · exact Or.inl ⟨ht, e⟩
  | v :: vs, result, s, s', r, h, hk, hr => by
    simp only [codegenVars, bind_ok] at h
    obtain ⟨m, s1, h1, r1, s2, h2, h3⟩ := h
    obtain ⟨k1, v1, z1, f1⟩ := gvf hg hk (by simp [opsOf]) h1
    obtain ⟨k2, v2, z2, f2⟩ := gvf hg k1 (by
      intro a ha
      simp only [opsOf, List.mem_cons, List.not_mem_nil, or_false] at ha
      rcases ha with rfl | rfl
      · omega
      · exact v1) h2
    obtain ⟨k3, v3, z3, f3⟩ := codegenVars_flow vs r1 h3 k2 v2
    refine ⟨k3, v3, by omega, ?_⟩
    intro t ht
    rcases f3 t ht with ⟨g1, g2⟩ | g
    · rcases f2 t g1 with ⟨q1, q2⟩ | q
      · simp only [opsOf, List.mem_cons, List.not_mem_nil, or_false, not_or] at q2
        rcases f1 t q1 with ⟨p1, _⟩ | p
        · exact Or.inl ⟨p1, q2.1⟩
        · exact absurd p q2.2
      · exact absurd q g2
    · exact Or.inr g

theorem codegenPart_flow (var : Int) (p : Part w) {s s' : St w} {r : Nat}
    (h : codegenPart var p s = .ok (r, s')) (hk : K s) :
    K s' ∧ r < s'.ranges.size ∧ s.ranges.size ≤ s'.ranges.size ∧ ∀ t, Un s' t → Un s t ∨ t = r := by
  unfold codegenPart at h
  generalize Expr.stableSort (fun a b => decide (ordering var a ≤ ordering var b)) p.vars = sorted at h
  cases sorted with
  | nil =>
    obtain ⟨k1, v1, z1, f1⟩ := gvf hg hk (by simp [opsOf]) h
    exact ⟨k1, v1, z1, fun t ht => (f1 t ht).imp (fun g => g.1) id⟩
  | cons v0 vs =>
    simp only [bind_ok] at h
    obtain ⟨r0, s1, h1, r1, s2, h2, h3⟩ := h
    obtain ⟨k1, v1, z1, f1⟩ := gvf hg hk (by simp [opsOf]) h1
    obtain ⟨k2, v2, z2, f2⟩ := codegenVars_flow hg _ _ h2 k1 v1
    have f12 : ∀ t, Un s2 t → Un s t ∨ t = r1 := by
      intro t ht
      rcases f2 t ht with ⟨g1, g2⟩ | g
      · rcases f1 t g1 with ⟨q1, _⟩ | q
        · exact Or.inl q1
        · exact absurd q g2
      · exact Or.inr g
    split at h3
    · rw [pure_ok] at h3; rw [h3.1, h3.2]; exact ⟨k2, v2, by omega, f12⟩
    · simp only [bind_ok] at h3
      obtain ⟨i, s3, h4, h5⟩ := h3
      obtain ⟨k3, v3, z3, f3⟩ := gvf hg k2 (by simp [opsOf]) h4
      obtain ⟨k4, v4, z4, f4⟩ := gvf hg k3 (by
        intro a ha
        simp only [opsOf, List.mem_cons, List.not_mem_nil, or_false] at ha
        rcases ha with rfl | rfl
        · omega
        · exact v3) h5
      refine ⟨k4, v4, by omega, ?_⟩
      intro t ht
      rcases f4 t ht with ⟨g1, g2⟩ | g
      · simp only [opsOf, List.mem_cons, List.not_mem_nil, or_false, not_or] at g2
        rcases f3 t g1 with ⟨q1, _⟩ | q
        · rcases f12 t q1 with p | p
          · exact Or.inl p
          · exact absurd p g2.1
        · exact absurd q g2.2
      · exact Or.inr g

theorem codegenRest_flow (var : Int) : ∀ (ps : List (Part w)) (result : Nat) {s s' : St w} {r : Nat},
    codegenRest var result ps s = .ok (r, s') → K s → result < s.ranges.size →
    K s' ∧ r < s'.ranges.size ∧ s.ranges.size ≤ s'.ranges.size ∧
      ∀ t, Un s' t → (Un s t ∧ t ≠ result) ∨ t = r
  | [], result, s, s', r, h, hk, hr => by
    simp only [codegenRest, pure_ok] at h
    rw [h.1, h.2]
    refine ⟨hk, hr, Nat.le_refl _, ?_⟩
    intro t ht
    by_cases e : t = result
    · exact Or.inr e
    · exact Or.inl ⟨ht, e⟩
  | p :: ps, result, s, s', r, h, hk, hr => by
    simp only [codegenRest, bind_ok] at h
    obtain ⟨pr, s1, h1, h⟩ := h
    obtain ⟨k1, v1, z1, f1⟩ := codegenPart_flow hg var p h1 hk
    have hops : ∀ a, (a = result ∨ a = pr) → a < s1.ranges.size := by
      rintro a (rfl | rfl)
      · omega
      · exact v1
    have key : ∀ (e : GvnExpr w) (r1 : Nat) (s2 : St w), opsOf e = [result, pr] →
        getValue e s1 = .ok (r1, s2) → codegenRest var r1 ps s2 = .ok (r, s') →
        K s' ∧ r < s'.ranges.size ∧ s.ranges.size ≤ s'.ranges.size ∧
          ∀ t, Un s' t → (Un s t ∧ t ≠ result) ∨ t = r := by
      intro e r1 s2 he h2 h3
      obtain ⟨k2, v2, z2, f2⟩ := gvf hg k1 (by
        intro a ha; rw [he] at ha
        simp only [List.mem_cons, List.not_mem_nil, or_false] at ha; exact hops a ha) h2
      obtain ⟨k3, v3, z3, f3⟩ := codegenRest_flow var ps r1 h3 k2 v2
      refine ⟨k3, v3, by omega, ?_⟩
      intro t ht
      rcases f3 t ht with ⟨g1, g2⟩ | g
      · rcases f2 t g1 with ⟨q1, q2⟩ | q
        · rw [he] at q2
          simp only [List.mem_cons, List.not_mem_nil, or_false, not_or] at q2
          rcases f1 t q1 with p' | p'
          · exact Or.inl ⟨p', q2.1⟩
          · exact absurd p' q2.2
        · exact absurd q g2
      · exact Or.inr g
    cases hn : isNegVar p with
    | true =>
      simp only [hn, if_true, bind_ok] at h
      obtain ⟨r1, s2, h2, h3⟩ := h
      exact key _ r1 s2 rfl h2 h3
    | false =>
      simp only [hn, Bool.false_eq_true, if_false, bind_ok] at h
      obtain ⟨r1, s2, h2, h3⟩ := h
      exact key _ r1 s2 rfl h2 h3

theorem getExprValue_flow (e : Expr w) (var : Int) {s s' : St w} {r : Nat}
    (h : getExprValue e var s = .ok (r, s')) (hk : K s) :
    K s' ∧ r < s'.ranges.size ∧ s.ranges.size ≤ s'.ranges.size ∧ ∀ t, Un s' t → Un s t ∨ t = r := by
  unfold getExprValue at h
  generalize orderParts var e = parts at h
  cases parts with
  | nil =>
    obtain ⟨k1, v1, z1, f1⟩ := gvf hg hk (by simp [opsOf]) h
    exact ⟨k1, v1, z1, fun t ht => (f1 t ht).imp (fun g => g.1) id⟩
  | cons p0 ps =>
    simp only [bind_ok] at h
    obtain ⟨r0, s1, h1, h⟩ := h
    obtain ⟨k1, v1, z1, f1⟩ := codegenPart_flow hg var p0 h1 hk
    cases hn : isNegVar p0 with
    | true =>
      simp only [hn, if_true, bind_ok] at h
      obtain ⟨z, s3, h4, r1, s2, h5, h3⟩ := h
      obtain ⟨k2, v2, z2, f2⟩ := gvf hg k1 (by simp [opsOf]) h4
      obtain ⟨k3, v3, z3, f3⟩ := gvf hg k2 (by
        intro a ha
        simp only [opsOf, List.mem_cons, List.not_mem_nil, or_false] at ha
        rcases ha with rfl | rfl
        · exact v2
        · omega) h5
      obtain ⟨k4, v4, z4, f4⟩ := codegenRest_flow hg var ps r1 h3 k3 v3
      refine ⟨k4, v4, by omega, ?_⟩
      intro t ht
      rcases f4 t ht with ⟨g1, g2⟩ | g
      · rcases f3 t g1 with ⟨q1, q2⟩ | q
        · simp only [opsOf, List.mem_cons, List.not_mem_nil, or_false, not_or] at q2
          rcases f2 t q1 with ⟨p1, _⟩ | p
          · rcases f1 t p1 with o | o
            · exact Or.inl o
            · exact absurd o q2.2
          · exact absurd p q2.1
        · exact absurd q g2
      · exact Or.inr g
    | false =>
      simp only [hn, Bool.false_eq_true, if_false, pure_bind'] at h
      obtain ⟨k4, v4, z4, f4⟩ := codegenRest_flow hg var ps r0 h k1 v1
      refine ⟨k4, v4, by omega, ?_⟩
      intro t ht
      rcases f4 t ht with ⟨g1, g2⟩ | g
      · rcases f1 t g1 with o | o
        · exact Or.inl o
        · exact absurd o g2
      · exact Or.inr g

theorem calcValues_flow : ∀ (calcs : List (Int × Expr w)) {s s' : St w} {vals : List (Int × Nat)},
    calcValues calcs s = .ok (vals, s') → K s →
    K s' ∧ (∀ p ∈ vals, p.2 < s'.ranges.size) ∧ s.ranges.size ≤ s'.ranges.size ∧
      ∀ t, Un s' t → Un s t ∨ ∃ p ∈ vals, p.2 = t
  | [], s, s', vals, h, hk => by
    simp only [calcValues, pure_ok] at h
    rw [h.1, h.2]; exact ⟨hk, (fun p hp => by cases hp), Nat.le_refl _, fun t ht => Or.inl ht⟩
  | (v, e) :: rest, s, s', vals, h, hk => by
    simp only [calcValues, bind_ok, pure_ok] at h
    obtain ⟨x, s1, h1, r, s2, h2, rfl, rfl⟩ := h
    obtain ⟨k1, v1, z1, f1⟩ := getExprValue_flow hg e v h1 hk
    obtain ⟨k2, v2, z2, f2⟩ := calcValues_flow rest h2 k1
    refine ⟨k2, ?_, by omega, ?_⟩
    · intro p hp
      simp only [List.mem_cons] at hp
      rcases hp with rfl | hp
      · simp only; omega
      · exact v2 p hp
    · intro t ht
      rcases f2 t ht with g | ⟨p, hp, e'⟩
      · rcases f1 t g with q | q
        · exact Or.inl q
        · exact Or.inr ⟨(v, x), List.mem_cons_self, q.symm⟩
      · exact Or.inr ⟨p, List.mem_cons_of_mem _ hp, e'⟩

omit hg in
include hm in
theorem memWrites_flow : ∀ (vals : List (Int × Nat)) {s s' : St w} {u : Unit},
    memWrites vals s = .ok (u, s') → K s → (∀ p ∈ vals, p.2 < s.ranges.size) →
    K s' ∧ ∀ t, Un s' t → Un s t ∧ ∀ p ∈ vals, p.2 ≠ t
  | [], s, s', u, h, hk, _ => by
    simp only [memWrites, pure_ok] at h
    rw [h.2]; exact ⟨hk, fun t ht => ⟨ht, fun p hp => by cases hp⟩⟩
  | (v, x) :: rest, s, s', u, h, hk, hv => by
    simp only [memWrites, bind_ok] at h
    obtain ⟨_, s1, h1, h2⟩ := h
    obtain ⟨k1, f1⟩ := hm _ _ _ _ _ hk (hv (v, x) List.mem_cons_self) h1
    obtain ⟨k2, f2⟩ := memWrites_flow rest h2 k1 (by
      intro p hp
      rw [memWrite_size h1]
      exact hv p (List.mem_cons_of_mem _ hp))
    refine ⟨k2, ?_⟩
    intro t ht
    obtain ⟨g1, g2⟩ := f2 t ht
    obtain ⟨q1, q2⟩ := f1 t g1
    refine ⟨q1, ?_⟩
    intro p hp
    simp only [List.mem_cons] at hp
    rcases hp with rfl | hp
    · exact fun e => q2 e.symm
    · exact g2 p hp

end flow

/-! ### reads followed by a push, packaged -/

/-- `s'` is `s` after the operands `ops` have been read at position `s.insts.size`, possibly a new value `nv`
has been created there, and `inst` has been appended. -/
structure PushStep (s s' : St w) (ops : List Nat) (inst : Instr w) (nv : Option Nat) : Prop where
  hops : ∀ a ∈ ops, a < s.ranges.size
  hinsts : s'.insts = s.insts.push inst
  hlive : s'.live = s.live
  huses : ∀ t, t ∈ BcWf.uses inst ↔ t ∈ ops
  hdefs : ∀ t, t ∈ BcWf.defs inst → nv = some t
  hz : NoMemZero inst
  hhit : ∀ t ∈ ops, ∃ r r', s.ranges[t]? = some r ∧ s'.ranges[t]? = some r' ∧ Bumped s.insts.size r r'
  hmiss : ∀ t, t ∉ ops → t < s.ranges.size → s'.ranges[t]? = s.ranges[t]?
  hsize : s'.ranges.size = s.ranges.size + (if nv.isSome then 1 else 0)
  hnew : ∀ v, nv = some v → v = s.ranges.size ∧
    s'.ranges[v]? = some { created := s.insts.size, firstUse := none, lastUse := none, numUses := 0 }
  houter : ∀ v ∈ s'.outerAccessed.toList, v ∈ s.outerAccessed.toList ∨ v ∈ ops
  hwrites : ∀ m ws, alGet s.writes m = some ws → ∃ ws', alGet s'.writes m = some ws' ∧ ∀ j ∈ ws, j ∈ ws'
  hwnew : ∀ m ∈ memDefs inst, ∃ ws, alGet s'.writes m = some ws ∧ s.insts.size ∈ ws

theorem PushStep.linv {s s' : St w} {ops : List Nat} {inst : Instr w} {nv : Option Nat}
    (P : PushStep s s' ops inst nv) (h : LInv s) (hvals : ∀ p ∈ s'.values, p ∈ s.values ∨ p.2 < s'.ranges.size) :
    LInv s' :=
  linv_after h P.hops P.hinsts P.hlive P.huses P.hdefs P.hz P.hhit P.hmiss P.hsize P.hnew P.houter hvals
    P.hwrites P.hwnew

theorem pushStep_getValue {e : GvnExpr w} {s s' : St w} (hops : ∀ a ∈ opsOf e, a < s.ranges.size)
    (N : NewSpec e s s') :
    PushStep s s' (opsOf e) (instOf e s.ranges.size) (some s.ranges.size) ∧
      s'.values = alSet s.values e s.ranges.size := by
  obtain ⟨s2, h2, rfl⟩ := N.reads
  have F := readsFacts _ h2
  have hsz2 : s2.ranges.size = s.ranges.size + 1 := by rw [F.size]; simp
  have hpush : ∀ t, t < s.ranges.size → ∀ (x : RangeInfo), (s.ranges.push x)[t]? = s.ranges[t]? :=
    fun t ht x => getElem?_push_lt' _ _ ht
  refine ⟨⟨hops, (by simp only; rw [F.insts]), (by simp only; rw [F.live]), uses_instOf e _,
    (fun t ht => by rw [defs_instOf] at ht; simp at ht; rw [ht]), noZero_instOf e _, ?_, ?_,
    (by simp only [Option.isSome_some, if_true]; exact hsz2), ?_, (fun v hv => F.outer v hv), ?_, ?_⟩,
    by simp only; rw [F.values]⟩
  · intro t ht
    obtain ⟨r, r', g1, g2, g3⟩ := F.hit t ht
    simp only at g1 g3
    rw [hpush t (hops t ht)] at g1
    exact ⟨r, r', g1, g2, g3⟩
  · intro t ht hlt
    have := F.miss t ht
    simp only at this ⊢
    rw [this, hpush t hlt]
  · intro v hv
    cases hv
    refine ⟨rfl, ?_⟩
    have hno : s.ranges.size ∉ opsOf e := fun hm => Nat.lt_irrefl _ (hops _ hm)
    have := F.miss _ hno
    simp only at this ⊢
    rw [this]
    simp
  · intro m ws hw
    exact ⟨ws, by simp only; rw [F.writes]; exact hw, fun j hj => hj⟩
  · intro m hm
    rw [memDefs_instOf] at hm; cases hm

theorem pushStep_memWrite {var : Int} {x : Nat} {s s' : St w} {u : Unit} (hx : x < s.ranges.size)
    (hm : memWrite var x s = .ok (u, s')) :
    PushStep s s' [x] (.copy (.mem var) (.tmp x)) none ∧ s'.values = alSet s.values (.mem var) x := by
  obtain ⟨s1, h1, rfl⟩ := memWrite_spec hm
  have F : ReadsFacts [x] s s1 := readsFacts [x] ⟨s1, h1, rfl⟩
  refine ⟨⟨(fun a ha => by simp at ha; rw [ha]; exact hx), (by simp only; rw [F.insts]), (by simp only; rw [F.live]),
    (fun t => by simp [BcWf.uses, locTmp]), (fun t ht => by simp [BcWf.defs, locTmp] at ht), rfl, F.hit,
    (fun t ht _ => F.miss t ht), (by simp only [Option.isSome_none, Bool.false_eq_true, if_false]; exact F.size),
    (fun v hv => by cases hv), F.outer, ?_, ?_⟩, by simp only; rw [F.values]⟩
  · intro m ws hw
    simp only
    rw [F.writes]
    exact addWrite_mono _ _ _ hw
  · intro m hm'
    simp only [memDefs, locMem, List.mem_singleton] at hm'
    subst hm'
    simp only
    rw [F.insts]
    exact addWrite_self _ _ _

theorem PushStep.ent {s s' : St w} {ops : List Nat} {inst : Instr w} {nv : Option Nat}
    (P : PushStep s s' ops inst nv) {t : Nat} {r' : RangeInfo} (hr' : s'.ranges[t]? = some r') :
    (t ∈ ops ∧ ∃ r, s.ranges[t]? = some r ∧ Bumped s.insts.size r r') ∨
    (t ∉ ops ∧ t < s.ranges.size ∧ s.ranges[t]? = some r') ∨
    (nv = some t ∧ t = s.ranges.size ∧
      r' = { created := s.insts.size, firstUse := none, lastUse := none, numUses := 0 }) := by
  by_cases hto : t ∈ ops
  · obtain ⟨r, q, g1, g2, g3⟩ := P.hhit t hto
    rw [hr'] at g2; cases g2
    exact Or.inl ⟨hto, r, g1, g3⟩
  · by_cases hlt : t < s.ranges.size
    · exact Or.inr (Or.inl ⟨hto, hlt, by rw [← P.hmiss t hto hlt]; exact hr'⟩)
    · have hlt' : t < s'.ranges.size := Alloc.lt_of_getElem? hr'
      cases hnv : nv with
      | none => rw [P.hsize, hnv] at hlt'; simp at hlt'; omega
      | some v =>
        obtain ⟨e1, e2⟩ := P.hnew v hnv
        have : t = v := by rw [P.hsize, hnv] at hlt'; simp at hlt'; omega
        subst this
        rw [hr'] at e2
        exact Or.inr (Or.inr ⟨rfl, e1, Option.some.inj e2⟩)

/-! ### the invariant inside a `calc` and between IR instructions -/

/-- Computational instructions (what `getValue` and `memWrite` emit). -/
def isComp : Instr w → Bool
  | .add _ _ _ => true
  | .sub _ _ _ => true
  | .mul _ _ _ => true
  | .copy _ _ => true
  | _ => false

/-- `t` is computed by an `add`/`sub`/`mul` at its `created` position. -/
def ArithAt (s : St w) (t : Nat) (r : RangeInfo) : Prop :=
  ∃ op a b, s.insts[r.created]? = some (mkArith op (.tmp t) a b)

/-- `t` is a computed value that has not been read yet. -/
def Un (s : St w) (t : Nat) : Prop :=
  ∃ r : RangeInfo, s.ranges[t]? = some r ∧ r.firstUse = none ∧ ArithAt s t r

/-- `n0` = position at which the current `calc` started; `bs` = starts of the enclosing loops. -/
structure CInv (n0 : Nat) (bs : List Nat) (s : St w) : Prop where
  linv : LInv s
  kv : ∀ p ∈ s.values, ∀ o ∈ opsOf p.1, ∃ (r : RangeInfo) (f : Nat), s.ranges[o]? = some r ∧ r.firstUse = some f
  n0le : n0 ≤ s.insts.size
  compNew : ∀ (j : Nat) (x : Instr w), n0 ≤ j → s.insts[j]? = some x → isComp x = true
  unNew : ∀ (t : Nat) (r : RangeInfo), s.ranges[t]? = some r → r.firstUse = none → ArithAt s t r → n0 ≤ r.created
  comp : ∀ (t : Nat) (r : RangeInfo) (f : Nat), s.ranges[t]? = some r → r.firstUse = some f → ArithAt s t r →
    ∀ (j : Nat) (x : Instr w), r.created < j → j < f → s.insts[j]? = some x → isComp x = true
  nojump : ∀ (t : Nat) (r : RangeInfo) (f : Nat), s.ranges[t]? = some r → r.firstUse = some f → ArithAt s t r →
    ∀ (j : Nat) (x : Instr w) (off : Int), s.insts[j]? = some x → branchOff? x = some off →
      ¬ ((r.created : Int) < (j : Int) + off ∧ (j : Int) + off ≤ (f : Int))
  tgt : ∀ (j : Nat) (x : Instr w) (off : Int), s.insts[j]? = some x → branchOff? x = some off →
    (j : Int) + off ≤ (n0 : Int)
  starts : ∀ b ∈ bs, b ≤ n0 ∧ ∀ (t : Nat) (r : RangeInfo), s.ranges[t]? = some r → ArithAt s t r →
    r.created < b → ∃ f, r.firstUse = some f ∧ f < b

theorem cinv_advance {n0 : Nat} {bs : List Nat} {s : St w} (h : CInv n0 bs s) (hu : ∀ t, ¬ Un s t) :
    CInv s.insts.size bs s := by
  refine ⟨h.linv, h.kv, Nat.le_refl _, ?_, ?_, h.comp, h.nojump, ?_, ?_⟩
  · intro j x hj hx
    have := Alloc.lt_of_getElem? hx
    omega
  · intro t r hr hf ha
    exact absurd ⟨r, hr, hf, ha⟩ (hu t)
  · intro j x off hx ho
    have := h.tgt j x off hx ho
    have := h.n0le
    omega
  · intro b hb
    obtain ⟨g1, g2⟩ := h.starts b hb
    exact ⟨Nat.le_trans g1 h.n0le, g2⟩

/-- Between IR instructions nothing is unread. -/
theorem cinv_no_un {bs : List Nat} {s : St w} (h : CInv s.insts.size bs s) (t : Nat) : ¬ Un s t := by
  rintro ⟨r, hr, hf, ha⟩
  have := h.unNew t r hr hf ha
  have := (h.linv.rwf t r hr).1
  omega

theorem cinv_pushStep {n0 : Nat} {bs : List Nat} {s s' : St w} {ops : List Nat} {inst : Instr w} {nv : Option Nat}
    (P : PushStep s s' ops inst nv) (h : CInv n0 bs s)
    (hvals : ∀ p ∈ s'.values, p ∈ s.values ∨ (p.2 < s'.ranges.size ∧ ∀ o ∈ opsOf p.1, o ∈ ops))
    (hcomp : isComp inst = true) (hbr : branchOff? inst = none) :
    CInv n0 bs s' ∧ ∀ t, Un s' t → (Un s t ∧ t ∉ ops) ∨ nv = some t := by
  have hl' : LInv s' := P.linv h.linv (fun p hp => (hvals p hp).imp id (fun g => g.1))
  have hn : s'.insts.size = s.insts.size + 1 := by rw [P.hinsts]; simp
  have hget : ∀ j x, s'.insts[j]? = some x → (j < s.insts.size ∧ s.insts[j]? = some x) ∨ (j = s.insts.size ∧ x = inst) := by
    intro j x hx; rw [P.hinsts] at hx; exact getElem?_push_cases hx
  have hgetlt : ∀ j, j < s.insts.size → s'.insts[j]? = s.insts[j]? := by
    intro j hj; rw [P.hinsts]; exact getElem?_push_lt' _ _ hj
  -- a value that was present before and is computed
  have harith : ∀ (t : Nat) (r r' : RangeInfo), s.ranges[t]? = some r → r'.created = r.created →
      ArithAt s' t r' → ArithAt s t r := by
    intro t r r' hr hc ⟨op, a, b, hx⟩
    rw [hc] at hx
    have hlt := (h.linv.rwf t r hr).1
    rw [hgetlt _ hlt] at hx
    exact ⟨op, a, b, hx⟩
  have hfirstSome : ∀ (t : Nat) (r : RangeInfo), s.ranges[t]? = some r → ∀ f, r.firstUse = some f →
      ∃ r' : RangeInfo, s'.ranges[t]? = some r' ∧ r'.firstUse = some f := by
    intro t r hr f hf
    by_cases hto : t ∈ ops
    · obtain ⟨r0, r', g1, g2, g3⟩ := P.hhit t hto
      rw [hr] at g1; cases g1
      exact ⟨r', g2, g3.firstSome f hf⟩
    · exact ⟨r, by rw [P.hmiss t hto (Alloc.lt_of_getElem? hr)]; exact hr, hf⟩
  refine ⟨⟨hl', ?_, by have := h.n0le; omega, ?_, ?_, ?_, ?_, ?_, ?_⟩, ?_⟩
  · -- kv
    intro p hp o ho
    rcases hvals p hp with e | ⟨_, e⟩
    · obtain ⟨r, f, g1, g2⟩ := h.kv p e o ho
      obtain ⟨r', q1, q2⟩ := hfirstSome o r g1 f g2
      exact ⟨r', f, q1, q2⟩
    · obtain ⟨r, r', g1, g2, g3⟩ := P.hhit o (e o ho)
      cases hfo : r.firstUse with
      | none => exact ⟨r', _, g2, g3.firstNone hfo⟩
      | some f0 => exact ⟨r', f0, g2, g3.firstSome f0 hfo⟩
  · -- compNew
    intro j x hj hx
    rcases hget j x hx with ⟨_, e⟩ | ⟨_, rfl⟩
    · exact h.compNew j x hj e
    · exact hcomp
  · -- unNew
    intro t r' hr' hf ha
    rcases P.ent hr' with ⟨_, r, g1, g2⟩ | ⟨_, _, g1⟩ | ⟨_, _, rfl⟩
    · cases hfo : r.firstUse with
      | none => rw [g2.firstNone hfo] at hf; cases hf
      | some f0 => rw [g2.firstSome f0 hfo] at hf; cases hf
    · exact h.unNew t r' g1 hf (harith t r' r' g1 rfl ha)
    · exact h.n0le
  · -- comp
    intro t r' f hr' hf ha j x hij hjf hx
    have hflt : f < s'.insts.size := by
      obtain ⟨_, y, hy, _⟩ := (hl'.rwf t r' hr').2.2 f hf
      exact Alloc.lt_of_getElem? hy
    have hxs : s.insts[j]? = some x := by rw [← hgetlt j (by omega)]; exact hx
    rcases P.ent hr' with ⟨_, r, g1, g2⟩ | ⟨_, _, g1⟩ | ⟨_, _, rfl⟩
    · have ha' := harith t r r' g1 g2.created ha
      cases hfo : r.firstUse with
      | none =>
        rw [g2.firstNone hfo] at hf; cases hf
        have := h.unNew t r g1 hfo ha'
        rw [g2.created] at hij
        exact h.compNew j x (by omega) hxs
      | some f0 =>
        rw [g2.firstSome f0 hfo] at hf; cases hf
        rw [g2.created] at hij
        exact h.comp t r f g1 hfo ha' j x hij hjf hxs
    · exact h.comp t r' f g1 hf (harith t r' r' g1 rfl ha) j x hij hjf hxs
    · cases hf
  · -- nojump
    intro t r' f hr' hf ha j x off hx ho
    have hxs : s.insts[j]? = some x := by
      rcases hget j x hx with ⟨_, e⟩ | ⟨_, rfl⟩
      · exact e
      · rw [hbr] at ho; cases ho
    rcases P.ent hr' with ⟨_, r, g1, g2⟩ | ⟨_, _, g1⟩ | ⟨_, _, rfl⟩
    · have ha' := harith t r r' g1 g2.created ha
      cases hfo : r.firstUse with
      | none =>
        have := h.unNew t r g1 hfo ha'
        have := h.tgt j x off hxs ho
        rw [g2.created]
        omega
      | some f0 =>
        rw [g2.firstSome f0 hfo] at hf; cases hf
        rw [g2.created]
        exact h.nojump t r f g1 hfo ha' j x off hxs ho
    · exact h.nojump t r' f g1 hf (harith t r' r' g1 rfl ha) j x off hxs ho
    · cases hf
  · -- tgt
    intro j x off hx ho
    rcases hget j x hx with ⟨_, e⟩ | ⟨_, rfl⟩
    · exact h.tgt j x off e ho
    · rw [hbr] at ho; cases ho
  · -- starts
    intro b hb
    obtain ⟨g1, g2⟩ := h.starts b hb
    refine ⟨g1, ?_⟩
    intro t r' hr' ha hc
    rcases P.ent hr' with ⟨_, r, q1, q2⟩ | ⟨_, _, q1⟩ | ⟨_, _, rfl⟩
    · obtain ⟨f, p1, p2⟩ := g2 t r q1 (harith t r r' q1 q2.created ha) (by rw [← q2.created]; exact hc)
      exact ⟨f, q2.firstSome f p1, p2⟩
    · exact g2 t r' q1 (harith t r' r' q1 rfl ha) hc
    · simp only at hc
      have := h.n0le
      omega
  · -- the unread values
    intro t ⟨r', hr', hf, ha⟩
    rcases P.ent hr' with ⟨_, r, g1, g2⟩ | ⟨hto, _, g1⟩ | ⟨e, _, _⟩
    · cases hfo : r.firstUse with
      | none => rw [g2.firstNone hfo] at hf; cases hf
      | some f0 => rw [g2.firstSome f0 hfo] at hf; cases hf
    · exact Or.inl ⟨⟨r', g1, hf, harith t r' r' g1 rfl ha⟩, hto⟩
    · exact Or.inr e

theorem isComp_instOf (e : GvnExpr w) (v : Nat) : isComp (instOf e v) = true := by cases e <;> rfl
theorem branchOff?_instOf (e : GvnExpr w) (v : Nat) : branchOff? (instOf e v) = none := by cases e <;> rfl

theorem cinv_getValue {n0 : Nat} {bs : List Nat} {e : GvnExpr w} {s s' : St w} {v : Nat} (h : CInv n0 bs s)
    (hops : ∀ a ∈ opsOf e, a < s.ranges.size) (hg : getValue e s = .ok (v, s')) :
    CInv n0 bs s' ∧ v < s'.ranges.size ∧ ∀ t, Un s' t → (Un s t ∧ t ∉ opsOf e) ∨ t = v := by
  rcases getValue_spec hg with ⟨hv, rfl⟩ | ⟨rfl, N⟩
  · refine ⟨h, h.linv.vals _ (mem_of_alGet hv), ?_⟩
    intro t ht
    refine Or.inl ⟨ht, ?_⟩
    intro hto
    obtain ⟨r, f, g1, g2⟩ := h.kv _ (mem_of_alGet hv) t hto
    obtain ⟨r', q1, q2, _⟩ := ht
    rw [g1] at q1; cases q1
    rw [g2] at q2; cases q2
  · obtain ⟨P, hvals⟩ := pushStep_getValue hops N
    obtain ⟨c1, c2⟩ := cinv_pushStep P h (by
      intro p hp
      rw [hvals] at hp
      rcases mem_alSet hp with rfl | hp
      · exact Or.inr ⟨by rw [P.hsize]; simp, fun o ho => ho⟩
      · exact Or.inl hp) (isComp_instOf _ _) (branchOff?_instOf _ _)
    refine ⟨c1, by rw [P.hsize]; simp, ?_⟩
    intro t ht
    rcases c2 t ht with g | g
    · exact Or.inl g
    · exact Or.inr (Option.some.inj g).symm

theorem cinv_memWrite {n0 : Nat} {bs : List Nat} {var : Int} {x : Nat} {s s' : St w} {u : Unit}
    (h : CInv n0 bs s) (hx : x < s.ranges.size) (hm : memWrite var x s = .ok (u, s')) :
    CInv n0 bs s' ∧ ∀ t, Un s' t → Un s t ∧ t ≠ x := by
  obtain ⟨P, hvals⟩ := pushStep_memWrite hx hm
  obtain ⟨c1, c2⟩ := cinv_pushStep P h (by
    intro p hp
    rw [hvals] at hp
    rcases mem_alSet hp with rfl | hp
    · exact Or.inr ⟨by rw [P.hsize]; simpa using hx, fun o ho => by simp [opsOf] at ho⟩
    · exact Or.inl hp) rfl rfl
  refine ⟨c1, ?_⟩
  intro t ht
  rcases c2 t ht with ⟨g1, g2⟩ | g
  · exact ⟨g1, by simpa using g2⟩
  · cases g

/-- A whole `calc`: afterwards nothing is unread again. -/
theorem cinv_calc {bs : List Nat} {calcs : List (Int × Expr w)} {s s1 s' : St w} {vals : List (Int × Nat)}
    {u : Unit} (h : CInv s.insts.size bs s) (hc : calcValues calcs s = .ok (vals, s1))
    (hm : memWrites vals s1 = .ok (u, s')) : CInv s'.insts.size bs s' := by
  have hg : ∀ (e : GvnExpr w) (a : St w) (v : Nat) (a' : St w), CInv s.insts.size bs a →
      (∀ o ∈ opsOf e, o < a.ranges.size) → getValue e a = .ok (v, a') →
      CInv s.insts.size bs a' ∧ v < a'.ranges.size ∧ ∀ t, Un a' t → (Un a t ∧ t ∉ opsOf e) ∨ t = v :=
    fun e a v a' hk ho hh => cinv_getValue hk ho hh
  have hm' : ∀ (var : Int) (x : Nat) (a a' : St w) (u : Unit), CInv s.insts.size bs a → x < a.ranges.size →
      memWrite var x a = .ok (u, a') → CInv s.insts.size bs a' ∧ ∀ t, Un a' t → Un a t ∧ t ≠ x :=
    fun var x a a' u hk hx hh => cinv_memWrite hk hx hh
  obtain ⟨k1, v1, _, f1⟩ := calcValues_flow (Un := Un) hg calcs hc h
  obtain ⟨k2, f2⟩ := memWrites_flow (Un := Un) hm' vals hm k1 v1
  refine cinv_advance k2 ?_
  intro t ht
  obtain ⟨g1, g2⟩ := f2 t ht
  rcases f1 t g1 with q | ⟨p, hp, e⟩
  · exact cinv_no_un h t q
  · exact g2 p hp e

/-! ### control instructions -/

theorem arithAt_frame {s s' : St w} {t : Nat} {r : RangeInfo}
    (hi : ∀ j, j < s.insts.size → s'.insts[j]? = s.insts[j]?) (hc : r.created < s.insts.size) :
    ArithAt s' t r ↔ ArithAt s t r := by
  unfold ArithAt; rw [hi _ hc]

theorem first_lt {s : St w} (h : LInv s) {t : Nat} {r : RangeInfo} {f : Nat} (hr : s.ranges[t]? = some r)
    (hf : r.firstUse = some f) : f < s.insts.size := by
  obtain ⟨_, y, hy, _⟩ := (h.rwf t r hr).2.2 f hf
  exact Alloc.lt_of_getElem? hy

/-- Appending an instruction between two IR instructions (the range table is unchanged); a branch jumps to a
recorded loop start. -/
theorem cinv_append {bs : List Nat} {s s' : St w} (h : CInv s.insts.size bs s) {x : Instr w} (hl' : LInv s')
    (e1 : s'.insts = s.insts.push x) (e2 : s'.ranges = s.ranges) (e3 : ∀ p ∈ s'.values, p ∈ s.values)
    (hbr : ∀ off, branchOff? x = some off → ∃ b ∈ bs, (s.insts.size : Int) + off = (b : Int)) :
    CInv s'.insts.size bs s' := by
  have hsz : s'.insts.size = s.insts.size + 1 := by rw [e1]; simp
  have hget : ∀ j y, s'.insts[j]? = some y →
      (j < s.insts.size ∧ s.insts[j]? = some y) ∨ (j = s.insts.size ∧ y = x) :=
    fun j y hy => getElem?_push_cases (by rw [← e1]; exact hy)
  have hlt : ∀ j, j < s.insts.size → s'.insts[j]? = s.insts[j]? :=
    fun j hj => by rw [e1]; exact getElem?_push_lt' _ _ hj
  have har : ∀ (t : Nat) (r : RangeInfo), s.ranges[t]? = some r → (ArithAt s' t r ↔ ArithAt s t r) :=
    fun t r hr => arithAt_frame hlt (h.linv.rwf t r hr).1
  refine ⟨hl', ?_, Nat.le_refl _, ?_, ?_, ?_, ?_, ?_, ?_⟩
  · intro p hp o ho; rw [e2]; exact h.kv p (e3 p hp) o ho
  · intro j y hj hy
    have := Alloc.lt_of_getElem? hy
    omega
  · intro t r hr hf ha
    rw [e2] at hr
    exact absurd ⟨r, hr, hf, (har t r hr).1 ha⟩ (cinv_no_un h t)
  · intro t r f hr hf ha j y hij hjf hy
    rw [e2] at hr
    have := first_lt h.linv hr hf
    exact h.comp t r f hr hf ((har t r hr).1 ha) j y hij hjf (by rw [← hlt j (by omega)]; exact hy)
  · intro t r f hr hf ha j y off hy ho
    rw [e2] at hr
    rcases hget j y hy with ⟨_, e⟩ | ⟨rfl, rfl⟩
    · exact h.nojump t r f hr hf ((har t r hr).1 ha) j y off e ho
    · obtain ⟨b, hb, hbe⟩ := hbr off ho
      obtain ⟨_, g2⟩ := h.starts b hb
      intro hcon
      rw [hbe] at hcon
      obtain ⟨f', p1, p2⟩ := g2 t r hr ((har t r hr).1 ha) (by omega)
      rw [hf] at p1; cases p1
      omega
  · intro j y off hy ho
    rcases hget j y hy with ⟨_, e⟩ | ⟨rfl, rfl⟩
    · have := h.tgt j y off e ho
      omega
    · obtain ⟨b, hb, hbe⟩ := hbr off ho
      have := (h.starts b hb).1
      omega
  · intro b hb
    obtain ⟨g1, g2⟩ := h.starts b hb
    exact ⟨by omega, fun t r hr ha hc => by
      rw [e2] at hr; exact g2 t r hr ((har t r hr).1 ha) hc⟩

theorem cinv_ctl {bs : List Nat} {s : St w} (h : CInv s.insts.size bs s) {x : Instr w} (hx : isCtl x = true)
    (hbr : ∀ off, branchOff? x = some off → ∃ b ∈ bs, (s.insts.size : Int) + off = (b : Int)) :
    CInv (s.insts.push x).size bs { s with insts := s.insts.push x } :=
  cinv_append (s' := { s with insts := s.insts.push x }) h (linv_push h.linv hx) rfl rfl
    (fun p hp => hp) hbr

/-- Changes of the table of values (to a sub-table), of `currentStart` and of `outerAccessed`. -/
theorem cinv_frame {n0 : Nat} {bs : List Nat} {s s' : St w} (h : CInv n0 bs s) (hl' : LInv s')
    (e1 : s'.ranges = s.ranges) (e2 : s'.insts = s.insts) (e3 : ∀ p ∈ s'.values, p ∈ s.values) :
    CInv n0 bs s' := by
  have har : ∀ t r, ArithAt s' t r ↔ ArithAt s t r := fun t r => by unfold ArithAt; rw [e2]
  refine ⟨hl', ?_, by rw [e2]; exact h.n0le, by rw [e2]; exact h.compNew, ?_, ?_, ?_, by rw [e2]; exact h.tgt, ?_⟩
  · intro p hp o ho; rw [e1]; exact h.kv p (e3 p hp) o ho
  · intro t r hr hf ha; rw [e1] at hr; exact h.unNew t r hr hf ((har t r).1 ha)
  · intro t r f hr hf ha; rw [e1] at hr; rw [e2]; exact h.comp t r f hr hf ((har t r).1 ha)
  · intro t r f hr hf ha; rw [e1] at hr; rw [e2]; exact h.nojump t r f hr hf ((har t r).1 ha)
  · intro b hb
    obtain ⟨g1, g2⟩ := h.starts b hb
    exact ⟨g1, fun t r hr ha hc => g2 t r (by rw [← e1]; exact hr) ((har t r).1 ha) hc⟩

theorem cinv_patch {bs : List Nat} {s : St w} (h : CInv s.insts.size bs s) {i : Nat} (c off : Int)
    (hi : s.insts[i]? = some .noop) (ht : (i : Int) + off = (s.insts.size : Int)) :
    CInv s.insts.size bs { s with insts := s.insts.setIfInBounds i (.brz c off) } := by
  have hl' := linv_patch h.linv c off hi
  have hlt : i < s.insts.size := Alloc.lt_of_getElem? hi
  have hget : ∀ j x, (s.insts.setIfInBounds i (.brz c off))[j]? = some x →
      (j = i ∧ x = .brz c off) ∨ (j ≠ i ∧ s.insts[j]? = some x) := by
    intro j x hx
    rw [Array.getElem?_setIfInBounds] at hx
    by_cases e : i = j
    · subst e
      simp only [hlt, and_self, if_true, Option.some.injEq] at hx
      exact Or.inl ⟨rfl, hx.symm⟩
    · simp only [e, false_and, if_false] at hx
      exact Or.inr ⟨fun e' => e e'.symm, hx⟩
  have har : ∀ t r, ArithAt { s with insts := s.insts.setIfInBounds i (.brz c off) } t r → ArithAt s t r := by
    intro t r ⟨op, a, b, hx⟩
    rcases hget _ _ hx with ⟨_, e⟩ | ⟨_, e⟩
    · cases op <;> cases e
    · exact ⟨op, a, b, e⟩
  refine ⟨hl', h.kv, by simp, ?_, ?_, ?_, ?_, ?_, ?_⟩
  · intro j y hj hy
    have := Alloc.lt_of_getElem? hy
    simp at this; omega
  · intro t r hr hf ha
    exact h.unNew t r hr hf (har t r ha)
  · intro t r f hr hf ha j y hij hjf hy
    rcases hget j y hy with ⟨rfl, _⟩ | ⟨_, e⟩
    · have := h.comp t r f hr hf (har t r ha) j .noop hij hjf hi
      cases this
    · exact h.comp t r f hr hf (har t r ha) j y hij hjf e
  · intro t r f hr hf ha j y off' hy ho
    rcases hget j y hy with ⟨rfl, rfl⟩ | ⟨_, e⟩
    · simp only [branchOff?, Option.some.injEq] at ho
      subst ho
      have := first_lt h.linv hr hf
      omega
    · exact h.nojump t r f hr hf (har t r ha) j y off' e ho
  · intro j y off' hy ho
    rcases hget j y hy with ⟨rfl, rfl⟩ | ⟨_, e⟩
    · simp only [branchOff?, Option.some.injEq] at ho
      subst ho
      omega
    · exact h.tgt j y off' e ho
  · intro b hb
    obtain ⟨g1, g2⟩ := h.starts b hb
    exact ⟨g1, fun t r hr ha hc => g2 t r hr (har t r ha) hc⟩

/-! ### extending ranges at the end of a loop -/

/-- Changes of the range table that keep `created` and `firstUse`. -/
theorem cinv_ranges {n0 : Nat} {bs : List Nat} {s s' : St w} (h : CInv n0 bs s) (hl' : LInv s')
    (e2 : s'.insts = s.insts) (e3 : ∀ p ∈ s'.values, p ∈ s.values)
    (hb : ∀ (t : Nat) (r' : RangeInfo), s'.ranges[t]? = some r' →
      ∃ r : RangeInfo, s.ranges[t]? = some r ∧ r'.created = r.created ∧ r'.firstUse = r.firstUse)
    (hf : ∀ (t : Nat) (r : RangeInfo), s.ranges[t]? = some r →
      ∃ r' : RangeInfo, s'.ranges[t]? = some r' ∧ r'.created = r.created ∧ r'.firstUse = r.firstUse) :
    CInv n0 bs s' := by
  have har : ∀ (t : Nat) (r r' : RangeInfo), r'.created = r.created → (ArithAt s' t r' ↔ ArithAt s t r) := by
    intro t r r' hc; unfold ArithAt; rw [e2, hc]
  refine ⟨hl', ?_, by rw [e2]; exact h.n0le, by rw [e2]; exact h.compNew, ?_, ?_, ?_, by rw [e2]; exact h.tgt, ?_⟩
  · intro p hp o ho
    obtain ⟨r, f, g1, g2⟩ := h.kv p (e3 p hp) o ho
    obtain ⟨r', q1, _, q3⟩ := hf o r g1
    exact ⟨r', f, q1, by rw [q3]; exact g2⟩
  · intro t r' hr' hfn ha
    obtain ⟨r, g1, g2, g3⟩ := hb t r' hr'
    rw [g2]
    exact h.unNew t r g1 (by rw [← g3]; exact hfn) ((har t r r' g2).1 ha)
  · intro t r' f hr' hfs ha
    obtain ⟨r, g1, g2, g3⟩ := hb t r' hr'
    rw [g2, e2]
    exact h.comp t r f g1 (by rw [← g3]; exact hfs) ((har t r r' g2).1 ha)
  · intro t r' f hr' hfs ha
    obtain ⟨r, g1, g2, g3⟩ := hb t r' hr'
    rw [g2, e2]
    exact h.nojump t r f g1 (by rw [← g3]; exact hfs) ((har t r r' g2).1 ha)
  · intro b hbm
    obtain ⟨q1, q2⟩ := h.starts b hbm
    refine ⟨q1, ?_⟩
    intro t r' hr' ha hc
    obtain ⟨r, g1, g2, g3⟩ := hb t r' hr'
    obtain ⟨f, p1, p2⟩ := q2 t r g1 ((har t r r' g2).1 ha) (by rw [← g2]; exact hc)
    exact ⟨f, by rw [g3]; exact p1, p2⟩

theorem cinv_extend {n0 : Nat} {bs : List Nat} {s s' : St w} (h : CInv n0 bs s) {v : Nat} (E : ExtSpec v 0 s s')
    (hf : ∃ (r : RangeInfo) (f : Nat), s.ranges[v]? = some r ∧ r.firstUse = some f) : CInv n0 bs s' := by
  obtain ⟨⟨r, hr, hr'⟩, hother⟩ := ext_ranges E
  obtain ⟨r0, f, hr0, hf0⟩ := hf
  rw [hr] at hr0; cases hr0
  have hb : bump r s.insts.size 0 = { r with lastUse := some s.insts.size } := by
    simp [bump, hf0]
  refine cinv_ranges h (linv_extend h.linv E ⟨r, f, hr, hf0⟩) E.insts (by rw [E.values]; exact fun p hp => hp) ?_ ?_
  · intro t q hq
    by_cases e : t = v
    · subst e
      rw [hr', hb] at hq
      cases hq
      exact ⟨r, hr, rfl, rfl⟩
    · rw [hother t e] at hq; exact ⟨q, hq, rfl, rfl⟩
  · intro t q hq
    by_cases e : t = v
    · subst e
      rw [hr] at hq; cases hq
      exact ⟨_, hr', by rw [hb], by rw [hb]⟩
    · exact ⟨q, by rw [hother t e]; exact hq, rfl, rfl⟩

theorem cinv_outer {n0 : Nat} {bs : List Nat} (ps : Nat) : ∀ (fuel i : Nat) {s s' : St w} {u : Unit},
    outerLoop ps fuel i s = .ok (u, s') → CInv n0 bs s → CInv n0 bs s' := by
  intro fuel
  induction fuel with
  | zero => intro i s s' u h; simp only [outerLoop, throw_ok] at h
  | succ fuel ih =>
    intro i s s' u h hJ
    simp only [outerLoop, get_bind] at h
    split at h
    · cases ho : s.outerAccessed[i]? with
      | none => simp only [ho, throw_ok] at h
      | some var =>
        simp only [ho] at h
        cases hr : s.ranges[var]? with
        | none => simp only [hr, throw_ok] at h
        | some r =>
          simp only [hr] at h
          split at h
          · exact ih _ h hJ
          · simp only [bind_ok, modify_ok] at h
            obtain ⟨_, s2, h2, _, s3, rfl, h⟩ := h
            have hmem : var ∈ s.outerAccessed.toList :=
              Array.mem_toList_iff.2 (Array.mem_of_getElem? ho)
            have j2 := cinv_extend hJ (rangeExtend_spec h2) (hJ.linv.oa var hmem)
            refine ih _ h ?_
            cases hb : s2.outerAccessed.back? with
            | none => simp only [hb]; exact j2
            | some last =>
              simp only [hb]
              exact cinv_frame j2
                (linv_frame j2.linv rfl rfl rfl rfl (fun p hp => hp) (fun v hv => mem_swapRemove hb hv))
                rfl rfl (fun p hp => hp)
    · simp only [pure_ok] at h
      rw [h.2]; exact hJ

/-! ### the invariant between IR instructions, and the rules of the induction -/

/-- `c` = starts of the enclosing loops, `ps` = start of the innermost one. -/
def RInv (c : List Nat) (ps : Nat) (_a : Analysis) (_l : List (Ir.Instr w)) (s : St w) : Prop :=
  s.currentStart = ps ∧ CInv s.insts.size (ps :: c) s

theorem cinv_sub {n0 : Nat} {bs bs' : List Nat} {s : St w} (h : CInv n0 bs s) (hs : ∀ b ∈ bs', b ∈ bs) :
    CInv n0 bs' s :=
  ⟨h.linv, h.kv, h.n0le, h.compNew, h.unNew, h.comp, h.nojump, h.tgt, fun b hb => h.starts b (hs b hb)⟩

/-- Entering a loop: its start is a position at which everything has been read. -/
theorem cinv_enter {bs : List Nat} {s : St w} (h : CInv s.insts.size bs s) :
    CInv s.insts.size (s.insts.size :: bs) s := by
  refine ⟨h.linv, h.kv, h.n0le, h.compNew, h.unNew, h.comp, h.nojump, h.tgt, ?_⟩
  intro b hb
  rcases List.mem_cons.1 hb with rfl | hb
  · refine ⟨Nat.le_refl _, ?_⟩
    intro t r hr ha _
    cases hf : r.firstUse with
    | none => exact absurd ⟨r, hr, hf, ha⟩ (cinv_no_un h t)
    | some f => exact ⟨f, rfl, first_lt h.linv hr hf⟩
  · exact h.starts b hb

theorem lhExit_cinv {n0 : Nat} {bs : List Nat} (once : Bool) (sub : Analysis) (pe : Nat) {s : St w}
    (h : CInv n0 bs s) : CInv n0 bs (lhExit once sub pe s) := by
  have hl := lhExit_J closed_linv once sub pe h.linv
  unfold lhExit at hl ⊢
  split
  · rename_i hs; simp only [hs, if_true] at hl
    exact cinv_frame h hl rfl rfl (fun p hp => by cases hp)
  · rename_i hs; simp only [hs, Bool.false_eq_true, if_false] at hl
    split
    · exact h
    · rename_i ho; simp only [ho, Bool.false_eq_true, if_false] at hl
      exact cinv_frame h hl rfl rfl (fun p hp => mem_removeMems (mem_foldl_alErase hp))

theorem lhHead_cinv {n0 : Nat} {bs : List Nat} (isLoop : Bool) (sub : Analysis) {s : St w}
    (h : CInv n0 bs s) : CInv n0 bs (lhHead isLoop sub s) := by
  have hl := lhHead_J closed_linv isLoop sub h.linv
  unfold lhHead at hl ⊢
  split
  · rename_i hi; simp only [hi, if_true] at hl
    split
    · rename_i hs; simp only [hs, if_true] at hl
      exact cinv_frame h hl rfl rfl (fun p hp => by cases hp)
    · rename_i hs; simp only [hs, Bool.false_eq_true, if_false] at hl
      exact cinv_frame h hl rfl rfl (fun p hp => mem_removeMems hp)
  · exact h

theorem readsSpec_currentStart : ∀ (l : List Nat) {s s' : St w}, ReadsSpec l s s' →
    s'.currentStart = s.currentStart
  | [], s, s', h => by rw [h]
  | a :: rest, s, s', ⟨s1, h1, h2⟩ => by rw [readsSpec_currentStart rest h2, h1.currentStart]

theorem lhExit_currentStart (once : Bool) (sub : Analysis) (pe : Nat) (s : St w) :
    (lhExit once sub pe s).currentStart = s.currentStart := by
  unfold lhExit; split <;> (try split) <;> rfl
theorem lhHead_currentStart (isLoop : Bool) (sub : Analysis) (s : St w) :
    (lhHead isLoop sub s).currentStart = s.currentStart := by
  unfold lhHead; split <;> (try split) <;> rfl

theorem closedI_rinv (fuse : Bool) : ClosedI fuse (RInv (w := w)) where
  out := fun c ps a src rest s h =>
    ⟨h.1, cinv_ctl (x := .out src) h.2 rfl (fun off ho => by cases ho)⟩
  inp := fun c ps a dst rest s h =>
    ⟨h.1, cinv_append (x := .inp dst) h.2
      (closed_linv.values _ _ (linv_inp (CInv.linv h.2) dst) (fun p hp => mem_alErase hp)) rfl rfl
      (fun p hp => mem_alErase hp) (fun off ho => by cases ho)⟩
  calcR := fun c ps a calcs rest s vals s1 s' u h hc hm => by
    refine ⟨?_, cinv_calc h.2 hc hm⟩
    have h1 : s1.currentStart = s.currentStart :=
      calcValues_pres0 (K := fun x => x.currentStart = s.currentStart)
        (fun e x v x' hk hh => by
          rcases getValue_spec hh with ⟨_, rfl⟩ | ⟨_, N⟩
          · exact hk
          · obtain ⟨s2, h2, rfl⟩ := N.reads
            have := readsSpec_currentStart _ h2
            simp only at this ⊢
            rw [this]; exact hk) calcs hc rfl
    have h2 : s'.currentStart = s1.currentStart :=
      memWrites_pres0 (K := fun x => x.currentStart = s1.currentStart)
        (fun var y x x' u hk hh => by
          obtain ⟨s2, h2, rfl⟩ := memWrite_spec hh
          simp only
          rw [h2.currentStart]; exact hk) vals hm rfl
    rw [h2, h1]; exact h.1
  scan := fun c ps a cond shift once rest s _ h => by
    have h0 := lhHead_cinv true (subOf shift ([] : List (Ir.Instr w))) h.2
    rw [← lhHead_insts true (subOf shift ([] : List (Ir.Instr w))) s] at h0
    have h1 := cinv_ctl (x := .scan cond shift) h0 rfl (fun off ho => by cases ho)
    have h2 := lhExit_cinv once (subOf shift ([] : List (Ir.Instr w))) s.exprs.size h1
    refine ⟨?_, ?_⟩
    · rw [lhExit_currentStart]
      show (lhHead true _ s).currentStart = ps
      rw [lhHead_currentStart]; exact h.1
    · rw [lhExit_insts]
      exact h2
  loop := fun c ps a cond shift body once rest s _ h => by
    have h0 := lhHead_cinv true (subOf shift body) h.2
    rw [← lhHead_insts true (subOf shift body) s] at h0
    -- the state in which the body is emitted
    have h1 : CInv (lhPro true once (lhHead true (subOf shift body) s)).insts.size
        ((lhPro true once (lhHead true (subOf shift body) s)).insts.size :: ps :: c)
        (lhPro true once (lhHead true (subOf shift body) s)) := by
      unfold lhPro
      cases once with
      | false =>
        simp only [Bool.false_eq_true, if_false, if_true]
        have := cinv_ctl (x := .noop) h0 rfl (fun off ho => by cases ho)
        have h2 := cinv_enter (s := { lhHead true (subOf shift body) s with
          insts := (lhHead true (subOf shift body) s).insts.push .noop }) this
        exact cinv_frame h2 (closed_linv.start _ _ h2.linv) rfl rfl (fun p hp => hp)
      | true =>
        simp only [if_true]
        have h2 := cinv_enter h0
        exact cinv_frame h2 (closed_linv.start _ _ h2.linv) rfl rfl (fun p hp => hp)
    have hcs : (lhPro true once (lhHead true (subOf shift body) s)).currentStart =
        (lhPro true once (lhHead true (subOf shift body) s)).insts.size := by
      unfold lhPro; cases once <;> rfl
    refine ⟨ps :: c, ⟨rfl, by rw [hcs]; exact h1⟩, ?_⟩
    intro sb so u1 u2 fuel _ hb hpre ho
    have hb := hb.2
    rw [hcs] at hb
    -- after the body: `mov`, `outerLoop`, `brnz`, the patch
    have hm : CInv (lhMov shift sb).insts.size
        ((lhPro true once (lhHead true (subOf shift body) s)).insts.size :: ps :: c) (lhMov shift sb) := by
      unfold lhMov
      split
      · exact hb
      · exact cinv_ctl (x := .mov shift) hb rfl (fun off ho => by cases ho)
    have hoI : so.insts = (lhMov shift sb).insts := by
      have := (outerLoop_core _ _ _ ho).1
      exact congrArg G.insts this
    have hso := cinv_outer ps fuel _ ho hm
    rw [← hoI] at hso
    have hz : CInv (lhBrnz cond (lhPro true once (lhHead true (subOf shift body) s)).insts.size so).insts.size
        ((lhPro true once (lhHead true (subOf shift body) s)).insts.size :: ps :: c)
        (lhBrnz cond (lhPro true once (lhHead true (subOf shift body) s)).insts.size so) := by
      have := cinv_ctl (x := .brnz cond (((lhPro true once (lhHead true (subOf shift body) s)).insts.size : Int) -
        (so.insts.size : Int))) hso rfl (fun off ho' => by
          simp only [branchOff?, Option.some.injEq] at ho'
          exact ⟨_, List.mem_cons_self, by omega⟩)
      exact this
    unfold RInv loopEnd
    refine ⟨by rw [lhExit_currentStart], ?_⟩
    rw [lhExit_insts]
    refine lhExit_cinv _ _ _ ?_
    cases once with
    | true =>
      simp only [if_true]
      exact cinv_frame (cinv_sub hz (fun b hb' => List.mem_cons_of_mem _ hb'))
        (closed_linv.start _ _ hz.linv) rfl rfl (fun p hp => hp)
    | false =>
      simp only [Bool.false_eq_true, if_false]
      have hsz : (lhPro true false (lhHead true (subOf shift body) s)).insts.size = s.insts.size + 1 := by
        simp [lhPro, lhHead_insts]
      have hnoop : (lhBrnz cond (lhPro true false (lhHead true (subOf shift body) s)).insts.size so).insts[
          (lhPro true false (lhHead true (subOf shift body) s)).insts.size - 1]? = some .noop := by
        have pm : Pre sb.insts (lhMov shift sb).insts := by
          unfold lhMov; split
          · exact Pre.refl _
          · exact Pre.push _ _
        have pp : Pre (lhPro true false (lhHead true (subOf shift body) s)).insts
            (lhBrnz cond (lhPro true false (lhHead true (subOf shift body) s)).insts.size so).insts := by
          refine (hpre.trans pm).trans ?_
          show Pre _ (so.insts.push _)
          rw [hoI]; exact Pre.push _ _
        rw [pp.2 _ (by omega)]
        simp [lhPro, lhHead_insts]
      have hp := cinv_patch hz cond
        (((lhBrnz cond (lhPro true false (lhHead true (subOf shift body) s)).insts.size so).insts.size : Int) -
          (((lhPro true false (lhHead true (subOf shift body) s)).insts.size - 1 : Nat) : Int)) hnoop (by omega)
      have hp' : CInv (lhPatch cond (lhPro true false (lhHead true (subOf shift body) s)).insts.size
          (lhBrnz cond (lhPro true false (lhHead true (subOf shift body) s)).insts.size so)).insts.size
          ((lhPro true false (lhHead true (subOf shift body) s)).insts.size :: ps :: c)
          (lhPatch cond (lhPro true false (lhHead true (subOf shift body) s)).insts.size
            (lhBrnz cond (lhPro true false (lhHead true (subOf shift body) s)).insts.size so)) := by
        simpa [lhPatch] using hp
      exact cinv_frame (cinv_sub hp' (fun b hb' => List.mem_cons_of_mem _ hb'))
        (closed_linv.start _ _ hp'.linv) rfl rfl (fun p hp => hp)
  ifz := fun c ps a cond shift body rest s h => by
    have h1 : CInv (lhPro false false s).insts.size (ps :: c) (lhPro false false s) := by
      unfold lhPro
      simp only [Bool.false_eq_true, if_false]
      exact cinv_ctl (x := .noop) h.2 rfl (fun off ho => by cases ho)
    have hcs : (lhPro false false s).currentStart = ps := h.1
    refine ⟨c, ⟨rfl, by rw [hcs]; exact h1⟩, ?_⟩
    intro sb u1 _ hb hpre
    have hb := hb.2
    rw [hcs] at hb
    have hm : CInv (lhMov shift sb).insts.size (ps :: c) (lhMov shift sb) := by
      unfold lhMov
      split
      · exact hb
      · exact cinv_ctl (x := .mov shift) hb rfl (fun off ho => by cases ho)
    unfold RInv ifEnd
    refine ⟨by rw [lhExit_currentStart], ?_⟩
    rw [lhExit_insts]
    refine lhExit_cinv _ _ _ ?_
    have hsz : (lhPro false false s).insts.size = s.insts.size + 1 := by simp [lhPro]
    have pm : Pre sb.insts (lhMov shift sb).insts := by
      unfold lhMov; split
      · exact Pre.refl _
      · exact Pre.push _ _
    have hnoop : (lhMov shift sb).insts[(lhPro false false s).insts.size - 1]? = some .noop := by
      rw [(hpre.trans pm).2 _ (by omega)]
      simp [lhPro]
    have hle : (lhPro false false s).insts.size ≤ (lhMov shift sb).insts.size := (hpre.trans pm).1
    have hp := cinv_patch hm cond
      (((lhMov shift sb).insts.size : Int) - (((lhPro false false s).insts.size - 1 : Nat) : Int)) hnoop (by omega)
    have hp' : CInv (lhPatch cond (lhPro false false s).insts.size (lhMov shift sb)).insts.size (ps :: c)
        (lhPatch cond (lhPro false false s).insts.size (lhMov shift sb)) := by
      simpa [lhPatch] using hp
    exact cinv_frame hp' (closed_linv.start _ _ hp'.linv) rfl rfl (fun p hp => hp)

/-- **Between a computation and its recorded first use the emitted code is straight-line.** -/
theorem region_of_emit {prog : Ir.Block w} {fuse : Bool} {s : St w} (h : emitState prog fuse = .ok s)
    (i : Nat) (op : BcGen.Op) (t : Nat) (s0 s1 : Loc w) (f : Nat) (m : Int) (src : Loc w)
    (hc : Cand s i op t s0 s1 f m src) :
    (∀ (j : Nat) (x : Instr w), i < j → j < f → s.insts[j]? = some x → plain x = true) ∧
    (∀ (j : Nat) (x : Instr w) (off : Int), s.insts[j]? = some x → branchOff? x = some off →
      ¬ ((i : Int) < (j : Int) + off ∧ (j : Int) + off ≤ (f : Int))) := by
  have h0 : RInv ([] : List Nat) 0 Analysis.empty prog.insts ({} : St w) := by
    refine ⟨rfl, linv_init, ?_, Nat.le_refl _, ?_, ?_, ?_, ?_, ?_, ?_⟩
    · intro p hp; cases hp
    · intro j x _ hx; simp at hx
    · intro t r hr; simp at hr
    · intro t r f hr; simp at hr
    · intro t r f hr; simp at hr
    · intro j x off hx; simp at hx
    · intro b hb
      simp only [List.mem_singleton] at hb
      subst hb
      exact ⟨Nat.le_refl _, fun t r hr => by simp at hr⟩
  have hR := (closedI_emitState (closedI_rinv fuse) h [] h0).2
  obtain ⟨c1, ⟨r, L, c2, c3, c4⟩, c5⟩ := hc
  obtain ⟨r0, g1, g2⟩ := hR.linv.defs i _ t c1 (by rw [Alloc.defs_mkArith]; simp [locTmp])
  rw [c2] at g1; cases g1
  have ha : ArithAt s t r := ⟨op, s0, s1, by rw [g2]; exact c1⟩
  constructor
  · intro j x hij hjf hx
    have := hR.comp t r f c2 c3 ha j x (by omega) hjf hx
    cases x <;> simp [isComp] at this <;> rfl
  · intro j x off hx ho
    have := hR.nojump t r f c2 c3 ha j x off hx ho
    rw [g2] at this
    exact this

end AEmit
end C02
end Hpbf
