/-
Rebuild-round proofs, stage 3: the top-level theorems at level 1: one optimizer round started without previous
analysis (`topAnalysis [] []`, what `Program::optimize` does first) preserves the observable behaviour, and the
`once` marks it puts on loops are justified.
-/
import Hpbf.Proofs.OptRbMain
import Hpbf.Proofs.OptRbTop

namespace Hpbf
namespace OptProof
open Opt OptSem Ir

variable {w : Nat}

/-- The top-level state of the first round. -/
theorem inv1_top :
    Inv1 (reverseSubBlocks (Rebuild.new 0 none .zero (some (topAnalysis [] [])) : Rebuild w)) := by
  have hch : Child (reverseSubBlocks (Rebuild.new 0 none .zero (some (topAnalysis [] [])) : Rebuild w)) :=
    (child_new _ _ _ _).reverseSubBlocks
  refine ⟨hch.wf, hch.canon, Or.inr ⟨_, rfl, rfl, ?_⟩, ?_, ?_⟩
  · exact atMostOnceOf_amo true
  · intro _ v e hv
    have : (reverseSubBlocks (Rebuild.new 0 none .zero (some (topAnalysis [] [])) : Rebuild w)).written = [] :=
      rfl
    rw [this] at hv; simp [mGet] at hv
  · show OptLoop.SAsc ([] : List Int)
    exact List.Pairwise.nil

/-- The simulation behind the two top-level theorems. -/
theorem optimizeOnce_sim_l1 (hw : 0 < w) {b : Block w} (hcl : CanonL b.insts)
    {os os' : Orders} {b' : Block w} {anal' : OptAnalysis w}
    (hr : (optimizeOnce b (topAnalysis [] [])).run os = .ok ((b', anal'), os')) (env : Env) :
    (∃ Q : State w → State w → Prop, (∀ x y, Q x y → y.trace = x.trace ∧ y.env = x.env) ∧
      Sim Q b.insts b'.insts (State.init env) (State.init env)) ∧
    ¬ Bad b'.insts (State.init env) := by
  unfold optimizeOnce at hr
  rw [run_bind_ok] at hr
  obtain ⟨st, os1, h1, h2⟩ := hr
  rw [run_pure] at h2
  cases h2
  unfold rebuildBlock at h1
  rw [run_bind_ok] at h1
  obtain ⟨⟨s', done⟩, os2, h3, h4⟩ := h1
  rw [run_pure] at h4
  cases h4
  obtain ⟨f1, f2, f3, f4, f5, f6, f7, f8, f9, f10, f11⟩ :=
    reverseSubBlocks_fields (Rebuild.new 0 none .zero (some (topAnalysis [] [])) : Rebuild w)
  obtain ⟨_, shE, new, hall, _⟩ := rebuildInsts_all hw b.insts [] _ os _ s' done h3 inv1_top hcl
    (by rw [f5]; rfl)
  have hrel := rel_init (w := w)
    (s := reverseSubBlocks (Rebuild.new 0 none .zero (some (topAnalysis [] [])))) []
    (by rw [f1]; rfl) (by rw [f3]; rfl) (by rw [f2]; rfl) (by rw [f8]; rfl) (by rw [f7]; rfl)
    (by rw [f5]; rfl) env
  obtain ⟨hS, hB⟩ := hall.step.2 _ _ _ hrel trivial
  have hinsts : (if done = true then { s' with shift := s'.shift + b.shift } else s').insts = new := by
    have : s'.insts = new := by rw [hall.insts, f10]; rfl
    split <;> exact this
  refine ⟨⟨StepQ shE [] s' (fun _ => 0#w) (State.init env), ?_, ?_⟩, ?_⟩
  · rintro x y ⟨M0', h, _⟩
    exact ⟨h.tr.symm, h.env.symm⟩
  · show Sim _ b.insts (if done = true then { s' with shift := s'.shift + b.shift } else s').insts _ _
    rw [hinsts]; exact hS
  · show ¬ Bad (if done = true then { s' with shift := s'.shift + b.shift } else s').insts _
    rw [hinsts]; exact hB

/-- **One round without previous analysis preserves the observable behaviour** (every oracle, every
environment), for blocks whose right-hand sides are in normal form (what the parser and the optimizer emit). -/
theorem optimizeOnce_preserves_l1 (hw : 0 < w) {b : Block w} (hcl : CanonL b.insts)
    {os os' : Orders} {b' : Block w} {anal' : OptAnalysis w}
    (hr : (optimizeOnce b (topAnalysis [] [])).run os = .ok ((b', anal'), os')) (env : Env) :
    BehEq b b' env := by
  obtain ⟨⟨Q, hQ, hs⟩, _⟩ := optimizeOnce_sim_l1 hw hcl hr env
  exact behEq_of_sim hQ hs

/-- **The `once` marks of the emitted block are justified**: no run reaches a loop marked `once` with a zero
condition cell. -/
theorem optimizeOnce_onceOk_l1 (hw : 0 < w) {b : Block w} (hcl : CanonL b.insts)
    {os os' : Orders} {b' : Block w} {anal' : OptAnalysis w}
    (hr : (optimizeOnce b (topAnalysis [] [])).run os = .ok ((b', anal'), os')) (env : Env) :
    C02Emit.OnceOk b' env :=
  (onceOk_iff_not_bad b' env).2 (optimizeOnce_sim_l1 hw hcl hr env).2

/-- `Program::optimize` at level 1. -/
theorem optimize_preserves_level1 (hw : 0 < w) {b b' : Block w} (hcl : CanonL b.insts) {orders : Orders}
    (h : Opt.optimize b 1 orders = .ok b') (env : Env) : BehEq b b' env := by
  rw [optimize_ok_iff, optimizeM_one_ok] at h
  obtain ⟨anal, h⟩ := h
  exact optimizeOnce_preserves_l1 hw hcl h env

theorem optimize_onceOk_level1 (hw : 0 < w) {b b' : Block w} (hcl : CanonL b.insts) {orders : Orders}
    (h : Opt.optimize b 1 orders = .ok b') (env : Env) : C02Emit.OnceOk b' env := by
  rw [optimize_ok_iff, optimizeM_one_ok] at h
  obtain ⟨anal, h⟩ := h
  exact optimizeOnce_onceOk_l1 hw hcl h env

end OptProof
end Hpbf

#print axioms Hpbf.OptProof.optimize_preserves_level1
#print axioms Hpbf.OptProof.optimize_onceOk_level1
