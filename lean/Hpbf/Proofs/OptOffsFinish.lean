/-
Offsets of optimized IR, part 9: `loopInsideIf` and `finishLoop` (the `Loop`/`If` arm of `rebuild_block` after
the body has been rebuilt).

`FinRes R g0 s sub s'`: `Inv` holds for the result `s'`, and
  drift(s') + |s'.shift - s.shift|  ≤  drift(s) + drift(sub) + |sub.shift - s.shift|
— whatever the optimizer does with the block (drop it, inline it, replace it by an assignment, emit it as a
loop, wrap it into an `if`), the emitted drift plus the shift absorbed into later names is paid for by the
drift of the body plus the shift of the block.
-/
import Hpbf.Proofs.OptOffsBlock

namespace Hpbf.OptOffs
open Hpbf Opt Ir
open Hpbf.OptLoop (VarsIn varsIn_iff)

variable {w : Nat}
set_option linter.unusedSimpArgs false

structure FinRes (R g0 : Nat) (s sub s' : Rebuild w) : Prop where
  inv : Inv R g0 s'
  slack : driftL s'.insts + (s'.shift - s.shift).natAbs
    ≤ driftL s.insts + driftL sub.insts + (sub.shift - s.shift).natAbs

/-! ### `loopInsideIf` -/

def liiHead (s : Rebuild w) (ps : List (Rebuild w)) (sub : Rebuild w) (cond : Int) (loopAnal : OptLoop w)
    (constant : List Int) : M (Rebuild w) :=
  if loopAnal.atMostOnce then Opt.inline s ps sub
  else if loopAnal.finite && sub.shift == s.shift && sub.insts.isEmpty && sub.pending.length == 1
      && mHas sub.pending cond then
    performAll s ps 0 [(cond, Expr.val 0#w)]
  else loopOrIf s ps sub cond true loopAnal constant

theorem loopInsideIf_eq (s : Rebuild w) (ps : List (Rebuild w)) (sub : Rebuild w) (cond : Int)
    (loopAnal : OptLoop w) (after : Calcs w) (constant : List Int) :
    loopInsideIf s ps sub cond loopAnal after constant =
      (liiHead s ps sub cond loopAnal constant >>= fun s1 => performAll s1 ps 0 after) := by
  unfold loopInsideIf liiHead
  by_cases h1 : loopAnal.atMostOnce = true
  · simp only [h1, if_true]
  · simp only [h1, if_false, Bool.false_eq_true]
    split <;> rfl

theorem loopInsideIf_step {R g0 : Nat} {s sub : Rebuild w} (ps : List (Rebuild w)) {cond : Int}
    (loopAnal : OptLoop w) {after : Calcs w} (constant : List Int) (hi : Inv R g0 s)
    (hsub : Inv R (g0 + driftL s.insts) sub) (hc : NB R (g0 + driftL s.insts) cond)
    (hafter : CalcsOk R (g0 + driftL s.insts + driftL sub.insts) after)
    (hcase : after = [] ∨ sub.shift = s.shift)
    {os os' : Orders} {s' : Rebuild w}
    (h : (loopInsideIf s ps sub cond loopAnal after constant).run os = .ok (s', os')) :
    FinRes R g0 s sub s' := by
  rw [loopInsideIf_eq, run_bind_ok] at h
  obtain ⟨s1, os1, h1, h2⟩ := h
  have key : Inv R g0 s1 ∧ CalcsOk R (g0 + driftL s1.insts) after ∧
      driftL s1.insts + (s1.shift - s.shift).natAbs
        ≤ driftL s.insts + driftL sub.insts + (sub.shift - s.shift).natAbs := by
    unfold liiHead at h1
    split at h1
    · obtain ⟨a, b, c⟩ := inline_step ps hi hsub h1
      refine ⟨a, by rw [b, ← Nat.add_assoc]; exact hafter, ?_⟩
      rcases c with c | c
      · rw [b, c]
      · rw [b, c]; omega
    · split at h1
      · rename_i hcond
        simp only [Bool.and_eq_true, List.isEmpty_iff] at hcond
        have hd : driftL sub.insts = 0 := by rw [hcond.1.1.2]; rfl
        have hp := performAll_step ps hi (shift := 0) (calcs := [(cond, Expr.val 0#w)]) (calcsOk_shift0 (by
          intro ve hve
          simp only [List.mem_singleton] at hve
          subst hve
          exact ⟨hc, varsIn_val (0#w)⟩)) h1
        refine ⟨hp.inv, ?_, ?_⟩
        · rw [hp.keep.drift]
          rw [hd, Nat.add_zero] at hafter; exact hafter
        · rw [hp.keep.drift, hp.keep.shift]; omega
      · obtain ⟨a, b, c⟩ := loopOrIf_step ps true loopAnal constant hi hsub hc h1
        refine ⟨a, ?_, by rw [b, c]; omega⟩
        rcases hcase with e | e
        · rw [e]; exact fun ve hve => by cases hve
        · rw [b, e]
          simp only [Int.sub_self, Int.natAbs_zero, Nat.add_zero]
          rw [← Nat.add_assoc]; exact hafter
  obtain ⟨k1, k2, k3⟩ := key
  have hp := performAll_step ps k1 (shift := 0) (calcsOk_shift0 k2) h2
  exact ⟨hp.inv, by rw [hp.keep.drift, hp.keep.shift]; exact k3⟩

/-! ### the loop-motion phase of `finishLoop` -/

def motionStep (s : Rebuild w) (ps : List (Rebuild w)) (possibleReads constant : List Int)
    (linear : List (Int × Expr w)) (pendingSet : List Int) (loopAnal : OptLoop w)
    (acc : Rebuild w × Calcs w × Calcs w × Calcs w) (var : Int) : M (Rebuild w × Calcs w × Calcs w × Calcs w) := do
  let (sub, before, toPerform, after) := acc
  let hasWritten := mHas sub.written var
  match removePending sub var with
  | (_, none) => throw "panic: rebuild_block: remove_pending(var).unwrap()"
  | (sub, some p) =>
    let (b, d, a) ← (loopMotion s ps var p (!hasWritten) possibleReads constant linear pendingSet loopAnal :
      Except String (Option (Expr w) × Option (Expr w) × Option (Expr w)))
    let before := match b with | some b => before ++ [(var, b)] | none => before
    let toPerform := match d with | some d => toPerform ++ [(var, d)] | none => toPerform
    let after :=
      if !loopAnal.noEffect then (match a with | some a => after ++ [(var, a)] | none => after)
      else after
    pure (sub, before, toPerform, after)

def flMotion (s : Rebuild w) (ps : List (Rebuild w)) (sub : Rebuild w) (cond : Int) (loopAnal : OptLoop w) :
    M (Rebuild w × Calcs w × Calcs w × List Int) := do
  let pending := pendingSorted sub sub
  let possibleReads := sIns (possibleReads sub) cond
  let constant ← (constantsAmong s ps sub
    (possibleReads ++ pending.filter (fun x => !possibleReads.contains x)) : Except String (List Int))
  let linear := linearAmong s ps sub constant (possibleReads ++ pending)
  let pendingSet := pending.filter (fun x => !constant.contains x)
  let init : Rebuild w × Calcs w × Calcs w × Calcs w := (sub, [], [], [])
  let (sub, before, toPerform, after) ←
    pending.foldlM (motionStep s ps possibleReads constant linear pendingSet loopAnal) init
  let sub ← performAll sub (s :: ps) 0 toPerform
  pure (sub, before, after, constant)

def flTail (s : Rebuild w) (ps : List (Rebuild w)) (cond : Int) (loopAnal : OptLoop w)
    (r : Rebuild w × Calcs w × Calcs w × List Int) : M (Rebuild w) :=
  performAll s ps 0 r.2.1 >>= fun s1 =>
  if loopAnal.atLeastOnce || (!loopAnal.atMostOnce && r.2.2.1.isEmpty) then
    loopInsideIf s1 ps (forgetParent r.1) cond loopAnal r.2.2.1 r.2.2.2
  else
    loopInsideIf (Rebuild.new s1.shift (some cond) .unknown none) [] (forgetParent r.1) cond
      loopAnal.toAtLeastOnce r.2.2.1 r.2.2.2 >>= fun ifState =>
    loopOrIf s1 ps ifState cond false loopAnal.toAtMostOnce r.2.2.2

theorem finishLoop_eq (s : Rebuild w) (ps : List (Rebuild w)) (sub : Rebuild w) (cond : Int) (isLoop : Bool) :
    finishLoop s ps sub cond isLoop =
      if (analyzeLoop s ps sub cond isLoop).never then pure s
      else
        (if sub.subShift || sub.shift != s.shift then
            (pure (sub, ([] : Calcs w), ([] : Calcs w), ([] : List Int)) :
              M (Rebuild w × Calcs w × Calcs w × List Int))
          else flMotion s ps sub cond (analyzeLoop s ps sub cond isLoop)) >>=
        flTail s ps cond (analyzeLoop s ps sub cond isLoop) := by
  unfold finishLoop flTail
  by_cases h1 : (analyzeLoop s ps sub cond isLoop).never = true
  · simp only [h1, if_true]
  · simp only [h1, if_false, Bool.false_eq_true]
    by_cases h2 : (sub.subShift || sub.shift != s.shift) = true
    · simp only [h2, if_true, pure_bind, bind_assoc]
    · simp only [h2, if_false, Bool.false_eq_true]
      unfold flMotion motionStep
      simp only [bind_assoc, pure_bind]
      rfl

/-- The accumulator of the motion loop: the sub-block state has only lost pending entries, and the three lists
of moved calculations respect the bound. -/
structure MAcc (R g : Nat) (sub : Rebuild w) (acc : Rebuild w × Calcs w × Calcs w × Calcs w) : Prop where
  step : PStep sub acc.1
  before : CalcsOk R g acc.2.1
  perform : CalcsOk R g acc.2.2.1
  after : CalcsOk R g acc.2.2.2

theorem calcsOk_snoc {R g : Nat} {calcs : Calcs w} {var : Int} {e : Expr w} (h : CalcsOk R g calcs)
    (hv : NB R g var) (he : VarsIn (NB R g) e) : CalcsOk R g (calcs ++ [(var, e)]) := by
  intro ve hve
  rcases List.mem_append.1 hve with h1 | h1
  · exact h ve h1
  · simp only [List.mem_singleton] at h1
    subst h1; exact ⟨hv, he⟩

theorem motionStep_spec {R g : Nat} {s : Rebuild w} {ps : List (Rebuild w)} {sub : Rebuild w}
    {possibleReads constant : List Int} {linear : List (Int × Expr w)} {pendingSet : List Int}
    {loopAnal : OptLoop w} (hp : PendOk R g sub.pending) (hl : LinOk (NB R g) linear)
    (hL : ExprOk (NB R g) loopAnal)
    {acc acc' : Rebuild w × Calcs w × Calcs w × Calcs w} {var : Int} {os os' : Orders}
    (ha : MAcc R g sub acc)
    (h : (motionStep s ps possibleReads constant linear pendingSet loopAnal acc var).run os = .ok (acc', os')) :
    MAcc R g sub acc' := by
  obtain ⟨sb, before, toPerform, after⟩ := acc
  unfold motionStep at h
  simp only at h
  have hps := removePending_pstep sb var
  have hsnd := removePending_snd sb var
  split at h
  · rw [run_throw] at h; cases h
  · rename_i sb2 p heq
    rw [heq] at hps hsnd
    rw [run_bind_ok] at h
    obtain ⟨⟨b, d, a⟩, os1, h1, h2⟩ := h
    rw [run_liftM_ok] at h1
    simp only [run_pure, Except.ok.injEq, Prod.mk.injEq] at h2
    obtain ⟨rfl, _⟩ := h2
    have hmem : (var, p) ∈ sub.pending := ha.step.sub.subset (mem_of_mGet hsnd.symm)
    obtain ⟨hv, hpv⟩ := hp _ hmem
    obtain ⟨r1, r2, r3⟩ := loopMotion_ok (S := NB R g) hv hpv hl hL h1.1
    refine ⟨ha.step.trans hps, ?_, ?_, ?_⟩
    · simp only
      cases b with
      | none => exact ha.before
      | some e => exact calcsOk_snoc ha.before hv (r1 e rfl)
    · simp only
      cases d with
      | none => exact ha.perform
      | some e => exact calcsOk_snoc ha.perform hv (r2 e rfl)
    · simp only
      split
      · cases a with
        | none => exact ha.after
        | some e => exact calcsOk_snoc ha.after hv (r3 e rfl)
      · exact ha.after

theorem flMotion_spec {R gs : Nat} {s : Rebuild w} (ps : List (Rebuild w)) {sub : Rebuild w} {cond : Int}
    {loopAnal : OptLoop w} (hsub : Inv R gs sub) (hL : ExprOk (NB R (gs + driftL sub.insts)) loopAnal)
    {os os' : Orders} {r : Rebuild w × Calcs w × Calcs w × List Int}
    (h : (flMotion s ps sub cond loopAnal).run os = .ok (r, os')) :
    KStep R gs sub r.1 ∧ CalcsOk R (gs + driftL sub.insts) r.2.1 ∧
      CalcsOk R (gs + driftL sub.insts) r.2.2.1 := by
  unfold flMotion at h
  simp only at h
  rw [run_bind_ok] at h
  obtain ⟨constant, os1, _, h2⟩ := h
  rw [run_bind_ok] at h2
  obtain ⟨acc, os2, h3, h4⟩ := h2
  rw [run_bind_ok] at h4
  obtain ⟨sub2, os3, h5, h6⟩ := h4
  simp only [run_pure, Except.ok.injEq, Prod.mk.injEq] at h6
  obtain ⟨rfl, _⟩ := h6
  have hl := linearAmong_ok (S := NB R (gs + driftL sub.insts)) s ps sub constant
    (sIns (possibleReads sub) cond ++ pendingSorted sub sub)
    (fun kv hkv => (hsub.pend kv hkv).2) hsub.writ
  have hacc : MAcc R (gs + driftL sub.insts) sub acc := by
    refine foldlM_inv (MAcc R (gs + driftL sub.insts) sub) _ _ ?_
      ⟨PStep.refl _, fun _ h => (by cases h), fun _ h => (by cases h), fun _ h => (by cases h)⟩ h3
    intro a v osa b osb _ ha hstep
    exact motionStep_spec hsub.pend hl hL ha hstep
  have hi2 := hacc.step.inv hsub
  have hp := performAll_step (s :: ps) hi2 (shift := 0) (calcs := acc.2.2.1)
    (calcsOk_shift0 (by rw [hacc.step.insts]; exact hacc.perform)) h5
  exact ⟨⟨hp.inv, hacc.step.keep.trans hp.keep⟩, hacc.before, hacc.after⟩

/-! ### `finishLoop` -/

theorem finRes_of {R g0 : Nat} {s s1 sub sub1 s' : Rebuild w} (h : FinRes R g0 s1 sub1 s')
    (hd : driftL s1.insts = driftL s.insts) (hs : s1.shift = s.shift)
    (hd' : driftL sub1.insts = driftL sub.insts) (hs' : sub1.shift = sub.shift) : FinRes R g0 s sub s' :=
  ⟨h.inv, by have := h.slack; rw [hd, hs, hd', hs'] at this; exact this⟩

theorem flTail_spec {R g0 : Nat} {s sub : Rebuild w} (ps : List (Rebuild w)) {cond : Int}
    (loopAnal : OptLoop w) {r : Rebuild w × Calcs w × Calcs w × List Int} (hi : Inv R g0 s)
    (_hsub : Inv R (g0 + driftL s.insts) sub) (hc : NB R (g0 + driftL s.insts) cond)
    (hr : KStep R (g0 + driftL s.insts) sub r.1)
    (hbefore : CalcsOk R (g0 + driftL s.insts + driftL sub.insts) r.2.1)
    (hafter : CalcsOk R (g0 + driftL s.insts + driftL sub.insts) r.2.2.1)
    (hcase : r.2.2.1 = [] ∨ sub.shift = s.shift)
    {os os' : Orders} {s' : Rebuild w}
    (h : (flTail s ps cond loopAnal r).run os = .ok (s', os')) : FinRes R g0 s sub s' := by
  unfold flTail at h
  rw [run_bind_ok] at h
  obtain ⟨s1, os1, h1, h2⟩ := h
  have hp := performAll_step ps hi (shift := 0) (calcs := r.2.1)
    (calcsOk_shift0 (hbefore.anti (Nat.le_add_right _ _))) h1
  have hd1 : driftL s1.insts = driftL s.insts := hp.keep.drift
  have hs1 : s1.shift = s.shift := hp.keep.shift
  -- the sub-block state handed on
  have hf : Inv R (g0 + driftL s1.insts) (forgetParent r.1) := by
    rw [hd1]; exact hr.inv.of_eq rfl rfl rfl rfl
  have hfd : driftL (forgetParent r.1).insts = driftL sub.insts := hr.keep.drift
  have hfs : (forgetParent r.1).shift = sub.shift := hr.keep.shift
  have hc1 : NB R (g0 + driftL s1.insts) cond := by rw [hd1]; exact hc
  have hafter1 : CalcsOk R (g0 + driftL s1.insts + driftL (forgetParent r.1).insts) r.2.2.1 := by
    rw [hd1, hfd]; exact hafter
  have hcase1 : r.2.2.1 = [] ∨ (forgetParent r.1).shift = s1.shift := by
    rw [hfs, hs1]; exact hcase
  split at h2
  · exact finRes_of (loopInsideIf_step ps loopAnal r.2.2.2 hp.inv hf hc1 hafter1 hcase1 h2) hd1 hs1 hfd hfs
  · rw [run_bind_ok] at h2
    obtain ⟨ifState, os2, h3, h4⟩ := h2
    have hnew : Inv R (g0 + driftL s1.insts) (Rebuild.new s1.shift (some cond) .unknown none : Rebuild w) :=
      inv_new _ _ _ _ _ _
    have hnd : driftL (Rebuild.new s1.shift (some cond) OptParent.unknown none : Rebuild w).insts = 0 := rfl
    have hif := loopInsideIf_step (s := Rebuild.new s1.shift (some cond) .unknown none) []
      loopAnal.toAtLeastOnce r.2.2.2 hnew (by rw [hnd, Nat.add_zero]; exact hf)
      (by rw [hnd, Nat.add_zero]; exact hc1) (by rw [hnd, Nat.add_zero]; exact hafter1) hcase1 h3
    obtain ⟨a, b, c⟩ := loopOrIf_step ps false loopAnal.toAtMostOnce r.2.2.2 hp.inv hif.inv hc1 h4
    refine ⟨a, ?_⟩
    have hsl := hif.slack
    rw [hnd, hfd, hfs] at hsl
    have e1 : (Rebuild.new s1.shift (some cond) OptParent.unknown none : Rebuild w).shift = s1.shift := rfl
    rw [e1, hs1] at hsl
    rw [b, c, hd1, hs1]
    omega

theorem finishLoop_step {R g0 : Nat} {s sub : Rebuild w} (ps : List (Rebuild w)) {cond : Int} (isLoop : Bool)
    (hi : Inv R g0 s) (hsub : Inv R (g0 + driftL s.insts) sub) (hc : NB R (g0 + driftL s.insts) cond)
    {os os' : Orders} {s' : Rebuild w}
    (h : (finishLoop s ps sub cond isLoop).run os = .ok (s', os')) : FinRes R g0 s sub s' := by
  rw [finishLoop_eq] at h
  split at h
  · simp only [run_pure, Except.ok.injEq, Prod.mk.injEq] at h
    rw [← h.1]
    exact ⟨hi, by omega⟩
  · rw [run_bind_ok] at h
    obtain ⟨r, os1, h1, h2⟩ := h
    split at h1
    · simp only [run_pure, Except.ok.injEq, Prod.mk.injEq] at h1
      obtain ⟨rfl, _⟩ := h1
      exact flTail_spec ps _ hi hsub hc (KStep.refl hsub) (fun _ h => (by cases h)) (fun _ h => (by cases h))
        (Or.inl rfl) h2
    · rename_i hns
      simp only [Bool.or_eq_true, bne_iff_ne, ne_eq, not_or, Bool.not_eq_true, Decidable.not_not] at hns
      have hflat : driftL sub.insts = 0 := hsub.flat hns.1
      have hL : ExprOk (NB R (g0 + driftL s.insts + driftL sub.insts))
          (analyzeLoop s ps sub cond isLoop) :=
        analyzeLoop_exprOk s ps sub isLoop (by rw [hflat, Nat.add_zero]; exact hc)
      obtain ⟨a, b, c⟩ := flMotion_spec ps hsub hL h1
      exact flTail_spec ps _ hi hsub hc a b c (Or.inr hns.2) h2

end Hpbf.OptOffs
