/-
C02, part 5: trampolined (debug builds) versus tail-called (release builds) dispatch.

`src/exec/bcint/mod.rs::execute_in` runs
    `while !ip.is_null() { if limited && budget == 0 { finished = false; break }; ip = enter_ops(cxt, ip) }`.
* With debug assertions every threaded op ends in the `noop` that RETURNS the next `ip` to this loop, so the
  `budget == 0` test is executed before every op (`runCfgDebug`).
* In release builds every op tail-calls the next one; the loop body runs once on entry and once more after an
  op returned a non-null `ip`, which only `limit` does, after setting `budget = 0` (`Bc.run`: the model's
  `.interrupted` result).
Both profiles execute the same `Bc.step`.  They agree because the budget is 0 only initially or together with
`.interrupted`: `limit cost` interrupts when `budget ≤ cost` and otherwise leaves `budget - cost ≥ 1`
(`charge_pos`), and nothing else changes the budget.  (The debug loop also tests between the `limit` op and the
branch op it guards, and between the `brz`-skip and the `limit usize::MAX` of a stationary scan: the same
invariant covers these sub-instruction tests – after a successful `charge` the budget is positive, and the skip
does not change it.)
-/
import Hpbf.Proofs.C02Base

namespace Hpbf
namespace C02

open Bc BcWf BcGen C11

variable {w : Nat}

/-- A successful `limit` leaves a positive budget. -/
theorem charge_pos {c c' : Cfg w} {cost : Option Nat} (h : charge c cost = some c') : c'.budget ≠ 0 := by
  unfold charge at h
  split at h
  · split at h
    · cases h
    · cases h; simp only; omega
  · cases h

theorem copyCfg_budget (c : Cfg w) (d s : Loc w) : (copyCfg c d s).budget = c.budget := by
  simp [copyCfg, wrCfg_budget]

/-- Budget after one instruction: an `.interrupted` result has budget 0 (limited mode only); every other
result keeps the budget or (a charged branch, limited mode, budget > 1) decrements it. -/
theorem stepI_budget (p : Program w) (limited : Bool) (c : Cfg w) (ins : Instr w) :
    ((stepI p limited c ins).tag = 3 ∧ (stepI p limited c ins).cfg.budget = 0 ∧ limited = true) ∨
    ((stepI p limited c ins).tag ≠ 3 ∧
      ((stepI p limited c ins).cfg.budget = c.budget ∨
        (limited = true ∧ 1 < c.budget ∧ (stepI p limited c ins).cfg.budget = c.budget - 1))) := by
  have hbr : ∀ taken off,
      ((branch p limited c taken off).tag = 3 ∧ (branch p limited c taken off).cfg.budget = 0 ∧ limited = true) ∨
      ((branch p limited c taken off).tag ≠ 3 ∧
        ((branch p limited c taken off).cfg.budget = c.budget ∨
          (limited = true ∧ 1 < c.budget ∧ (branch p limited c taken off).cfg.budget = c.budget - 1))) := by
    intro taken off
    unfold branch
    by_cases h : limited = true ∧ c.budget ≤ 1
    · simp only [h, and_self, if_true]
      exact Or.inl ⟨rfl, rfl, trivial⟩
    · simp only [h, if_false]
      refine Or.inr ?_
      have hb : (if limited = true then c.budget - 1 else c.budget) = c.budget ∨
          (limited = true ∧ 1 < c.budget ∧ (if limited = true then c.budget - 1 else c.budget) = c.budget - 1) := by
        by_cases hl : limited = true
        · simp only [hl, if_true]
          right
          exact ⟨trivial, by have := h; simp only [hl, true_and] at this; omega, trivial⟩
        · simp only [hl]; left; trivial
      split
      · split
        · exact ⟨by simp [StepRes.tag], hb⟩
        · exact ⟨by simp [StepRes.tag], hb⟩
      · exact ⟨by simp [StepRes.tag], hb⟩
  cases ins with
  | noop => exact Or.inr ⟨by simp [stepI, StepRes.tag], Or.inl rfl⟩
  | mov sh => exact Or.inr ⟨by simp [stepI, StepRes.tag], Or.inl rfl⟩
  | scan cond sh =>
    simp only [stepI]
    split
    · exact Or.inr ⟨by simp [StepRes.tag], Or.inl rfl⟩
    · split
      · split
        · rename_i hl; exact Or.inl ⟨rfl, rfl, hl⟩
        · exact Or.inr ⟨by simp [StepRes.tag], Or.inl rfl⟩
      · exact Or.inr ⟨by simp [StepRes.tag], Or.inl rfl⟩
  | inp dst =>
    simp only [stepI]
    split <;> exact Or.inr ⟨by simp [StepRes.tag], Or.inl rfl⟩
  | out src =>
    simp only [stepI]
    split <;> exact Or.inr ⟨by simp [StepRes.tag], Or.inl rfl⟩
  | brz cond off => exact hbr _ _
  | brnz cond off => exact hbr _ _
  | add d a b =>
    simp only [stepI, arith]
    split
    · exact Or.inr ⟨by simp [StepRes.tag], Or.inl (binopCfg_budget _ _ _ _ _)⟩
    · exact Or.inr ⟨by simp [StepRes.tag], Or.inl rfl⟩
  | sub d a b =>
    simp only [stepI, arith]
    split
    · exact Or.inr ⟨by simp [StepRes.tag], Or.inl (binopCfg_budget _ _ _ _ _)⟩
    · exact Or.inr ⟨by simp [StepRes.tag], Or.inl rfl⟩
  | mul d a b =>
    simp only [stepI, arith]
    split
    · exact Or.inr ⟨by simp [StepRes.tag], Or.inl (binopCfg_budget _ _ _ _ _)⟩
    · exact Or.inr ⟨by simp [StepRes.tag], Or.inl rfl⟩
  | copy d s =>
    simp only [stepI]
    split
    · exact Or.inr ⟨by simp [StepRes.tag], Or.inl (copyCfg_budget _ _ _)⟩
    · exact Or.inr ⟨by simp [StepRes.tag], Or.inl rfl⟩

theorem step_budget (p : Program w) (limited : Bool) (c : Cfg w) :
    ((step p limited c).tag = 3 ∧ (step p limited c).cfg.budget = 0 ∧ limited = true) ∨
    ((step p limited c).tag ≠ 3 ∧
      ((step p limited c).cfg.budget = c.budget ∨
        (limited = true ∧ 1 < c.budget ∧ (step p limited c).cfg.budget = c.budget - 1))) := by
  cases hi : p.insts[c.pc]? with
  | some ins => rw [step_eq hi]; exact stepI_budget p limited c ins
  | none =>
    unfold step
    simp only [hi]
    split <;> exact Or.inr ⟨by simp [StepRes.tag], Or.inl rfl⟩

/-- A step from a non-zero budget never ends in a zero budget, unless it is `.interrupted`. -/
theorem step_budget_ne_zero {p : Program w} {limited : Bool} {c : Cfg w} (h0 : c.budget ≠ 0) :
    (step p limited c).tag ≠ 3 → (step p limited c).cfg.budget ≠ 0 := by
  intro ht
  rcases step_budget p limited c with h | ⟨_, h | ⟨_, h1, h⟩⟩
  · exact absurd h.1 ht
  · rw [h]; exact h0
  · rw [h]; omega

theorem step_next_budget_ne_zero {p : Program w} {limited : Bool} {c c' : Cfg w} (h0 : c.budget ≠ 0)
    (hs : step p limited c = .next c') : c'.budget ≠ 0 := by
  have := step_budget_ne_zero (p := p) (limited := limited) h0
  rw [hs] at this
  exact this (by simp [StepRes.tag])

theorem step_interrupted_budget {p : Program w} {limited : Bool} {c c' : Cfg w}
    (hs : step p limited c = .interrupted c') : c'.budget = 0 ∧ limited = true := by
  rcases step_budget p limited c with h | h
  · rw [hs] at h; exact ⟨h.2.1, h.2.2⟩
  · rw [hs] at h; exact absurd rfl h.1

/-- Required theorem 5a.  In a run started with a non-zero budget (which `Bc.run` guarantees in limited mode),
the budget of the resulting configuration is 0 exactly when the run was interrupted; in particular every
configuration reached by `.next` steps (`outOfFuel` for all smaller fuels) has a non-zero budget. -/
theorem budget_zero_only_initially (p : Program w) (limited : Bool) (fuel : Nat) (c : Cfg w)
    (h0 : c.budget ≠ 0) :
    ((runCfg p limited fuel c).tag = 2 ∧ (runCfg p limited fuel c).cfg.budget = 0 ∧ limited = true) ∨
    ((runCfg p limited fuel c).tag ≠ 2 ∧ (runCfg p limited fuel c).cfg.budget ≠ 0) := by
  induction fuel generalizing c with
  | zero => exact Or.inr ⟨by simp [runCfg, Outcome.tag], h0⟩
  | succ n ih =>
    simp only [runCfg]
    have hne := step_budget_ne_zero (p := p) (limited := limited) h0
    cases hs : step p limited c with
    | next c' => exact ih c' (step_next_budget_ne_zero h0 hs)
    | interrupted c' =>
      have := step_interrupted_budget hs
      exact Or.inl ⟨rfl, this.1, this.2⟩
    | halt c' => rw [hs] at hne; exact Or.inr ⟨by simp [Outcome.tag], hne (by simp [StepRes.tag])⟩
    | stop c' => rw [hs] at hne; exact Or.inr ⟨by simp [Outcome.tag], hne (by simp [StepRes.tag])⟩
    | bad c' => rw [hs] at hne; exact Or.inr ⟨by simp [Outcome.tag], hne (by simp [StepRes.tag])⟩

/-- The same for whole runs: the final budget is 0 iff the run is `.interrupted`. -/
theorem run_budget_zero_iff (p : Program w) (b fuel : Nat) (env : Env) :
    (Bc.run p true b fuel env).cfg.budget = 0 ↔ (Bc.run p true b fuel env).tag = 2 := by
  unfold Bc.run
  by_cases hb : b = 0
  · subst hb; simp [Outcome.tag, Outcome.cfg]
  · have hb' : (true && b == 0) = false := by simp [hb]
    simp only [hb']
    rcases budget_zero_only_initially p true fuel
      ({ pc := 0, temps := [], budget := b, st := State.init env } : Cfg w) hb with h | h
    · simp [h.1, h.2.1]
    · simp [h.1, h.2]

/-! ### the debug-build loop -/

/-- Trampolined dispatch: the `budget == 0` test of `execute_in` runs before EVERY instruction. -/
def runCfgDebug (p : Program w) (limited : Bool) : Nat → Cfg w → Outcome w
  | fuel, c =>
    if limited && c.budget == 0 then .interrupted c
    else
      match fuel with
      | 0 => .outOfFuel c
      | fuel + 1 =>
        match step p limited c with
        | .next c' => runCfgDebug p limited fuel c'
        | .halt c' => .done c'
        | .stop c' => .stopped c'
        | .interrupted c' => .interrupted c'
        | .bad c' => .bad c'

/-- `execute_in` of a debug build. -/
def runDebug (p : Program w) (limited : Bool) (budget fuel : Nat) (env : Env) : Outcome w :=
  runCfgDebug p limited fuel { pc := 0, temps := [], budget := budget, st := State.init env }

theorem runCfgDebug_eq (p : Program w) (limited : Bool) (fuel : Nat) (c : Cfg w)
    (h0 : (limited && c.budget == 0) = false) : runCfgDebug p limited fuel c = runCfg p limited fuel c := by
  induction fuel generalizing c with
  | zero => unfold runCfgDebug; simp only [h0]; rfl
  | succ n ih =>
    unfold runCfgDebug
    simp only [h0, runCfg]
    cases hs : step p limited c with
    | next c' =>
      simp only
      apply ih
      cases limited with
      | false => rfl
      | true =>
        have hc : c.budget ≠ 0 := by simpa using h0
        simpa using step_next_budget_ne_zero hc hs
    | halt c' => rfl
    | stop c' => rfl
    | interrupted c' => rfl
    | bad c' => rfl

/-- Required theorem 5b: debug and release dispatch produce the same outcome. -/
theorem runDebug_eq_run (p : Program w) (limited : Bool) (b fuel : Nat) (env : Env) :
    runDebug p limited b fuel env = Bc.run p limited b fuel env := by
  unfold runDebug Bc.run
  by_cases hb : (limited && b == 0) = true
  · simp only [hb, if_true]
    unfold runCfgDebug
    simp only [hb, if_true]
  · simp only [hb]
    exact runCfgDebug_eq p limited fuel _ (by simpa using hb)

/-- Non-vacuity: a limited run that is interrupted inside a loop, in both profiles. -/
def exLoop : Program 8 :=
  { temps := 0, minAcc := 0, maxAcc := 0, live := #[0, 0, 0, 0],
    insts := #[.copy (.mem 0) (.imm 5#8), .brz 0 3, .add (.mem 0) (.mem 0) (.imm 255#8), .brnz 0 (-1)] }

example : (runDebug exLoop true 3 100 default).tag = 2 ∧ (Bc.run exLoop true 3 100 default).tag = 2 ∧
    (runDebug exLoop true 30 100 default).tag = 0 ∧ (runDebug exLoop true 0 100 default).tag = 2 := by
  decide +kernel

end C02
end Hpbf
