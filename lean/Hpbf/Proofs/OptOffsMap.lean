/-
Offsets of optimized IR, part 5: the oracle monad, the sorted-list maps, the invariant `Inv` on `Rebuild`
states and the primitives that do not emit.

`Inv R g0 s` (`g0` = drift before the first instruction of the block that `s` is building, `R` = the bound):
* `s.insts` respects the bound from `g0`;
* at the CURRENT drift `g0 + driftL s.insts`: every key of `pending`, every variable of a pending
  expression, every variable of a `known` entry of `written` respects the bound;
* `pending` is strictly sorted by key (so that removing a key really removes it);
* while `subShift = false` nothing with a shift has been emitted (`driftL s.insts = 0`).
Neither `reads`, `reverse`, the keys of `written`, `cond`, the analyses nor the parent chain are constrained:
they never become names in the emitted code.
-/
import Hpbf.Opt
import Hpbf.Proofs.OptOffsDefs
import Hpbf.Proofs.OptOffsExpr

namespace Hpbf.OptOffs
open Hpbf Opt Ir
open Hpbf.OptLoop (VarsIn varsIn_iff)

variable {w : Nat}

/-! ### the oracle monad -/

section monad
variable {α β : Type}

theorem run_pure (a : α) (os : Orders) : (pure a : M α).run os = .ok (a, os) := rfl

theorem run_bind (x : M α) (f : α → M β) (os : Orders) :
    (x >>= f).run os = (match x.run os with
      | .ok (a, os1) => (f a).run os1
      | .error e => .error e) := by
  show (x >>= f) os = _
  simp only [bind, StateT.bind, Except.bind, StateT.run]
  cases x os with
  | error e => rfl
  | ok v => obtain ⟨a, os1⟩ := v; rfl

theorem run_bind_ok {x : M α} {f : α → M β} {os : Orders} {r : β × Orders} :
    (x >>= f).run os = .ok r ↔ ∃ a os1, x.run os = .ok (a, os1) ∧ (f a).run os1 = .ok r := by
  rw [run_bind]
  cases hx : x.run os with
  | error e => simp
  | ok v =>
    obtain ⟨a, os1⟩ := v
    simp only [Except.ok.injEq, Prod.mk.injEq]
    constructor
    · intro h; exact ⟨a, os1, ⟨rfl, rfl⟩, h⟩
    · rintro ⟨a', os', ⟨rfl, rfl⟩, h⟩; exact h

theorem run_monadLift (e : Except String α) (os : Orders) :
    ((monadLift e : M α)).run os = (match e with | .ok a => .ok (a, os) | .error m => .error m) := by
  cases e <;> rfl

theorem run_monadLift_ok {e : Except String α} {os : Orders} {r : α × Orders} :
    ((monadLift e : M α)).run os = .ok r ↔ e = .ok r.1 ∧ r.2 = os := by
  rw [run_monadLift]
  cases e with
  | error m => simp
  | ok a =>
    obtain ⟨r1, r2⟩ := r
    simp only [Except.ok.injEq, Prod.mk.injEq]
    constructor
    · rintro ⟨rfl, rfl⟩; exact ⟨rfl, rfl⟩
    · rintro ⟨h1, h2⟩; exact ⟨h1, h2.symm⟩

theorem run_throw (m : String) (os : Orders) : ((throw m : M α)).run os = .error m := rfl

/-- Invariant rule for `foldlM` in `M` (the invariant does not look at the oracle). -/
theorem foldlM_inv {γ : Type} (I : β → Prop) (f : β → γ → M β) (l : List γ)
    (hstep : ∀ b x os b' os', x ∈ l → I b → (f b x).run os = .ok (b', os') → I b')
    {b : β} {os : Orders} {b' : β} {os' : Orders}
    (h0 : I b) (hr : (l.foldlM f b).run os = .ok (b', os')) : I b' := by
  induction l generalizing b os with
  | nil =>
    rw [List.foldlM_nil, run_pure] at hr
    cases hr; exact h0
  | cons x l ih =>
    rw [List.foldlM_cons, run_bind_ok] at hr
    obtain ⟨b1, os1, h1, h2⟩ := hr
    exact ih (fun b x os b' os' hx => hstep b x os b' os' (List.mem_cons_of_mem _ hx))
      (hstep b x os b1 os1 (by simp) h0 h1) h2

/-- Invariant rule for `foldlM` in `Except`. -/
theorem foldlM_inv_except {γ ε : Type} (I : β → Prop) (f : β → γ → Except ε β) (l : List γ)
    (hstep : ∀ b x b', x ∈ l → I b → f b x = .ok b' → I b')
    {b b' : β} (h0 : I b) (hr : l.foldlM f b = .ok b') : I b' := by
  induction l generalizing b with
  | nil =>
    rw [List.foldlM_nil] at hr
    cases hr; exact h0
  | cons x l ih =>
    rw [List.foldlM_cons] at hr
    cases h1 : f b x with
    | error e => rw [h1] at hr; cases hr
    | ok b1 =>
      rw [h1] at hr
      exact ih (fun b x b' hx => hstep b x b' (List.mem_cons_of_mem _ hx)) (hstep b x b1 (by simp) h0 h1) hr

theorem foldl_inv {γ : Type} (I : β → Prop) (f : β → γ → β) (l : List γ)
    (hstep : ∀ b x, x ∈ l → I b → I (f b x)) {b : β} (h0 : I b) : I (l.foldl f b) := by
  induction l generalizing b with
  | nil => exact h0
  | cons x l ih =>
    rw [List.foldl_cons]
    exact ih (fun b x hx => hstep b x (List.mem_cons_of_mem _ hx)) (hstep b x (by simp) h0)

end monad

/-! ### maps -/

section maps
variable {ν : Type}

theorem mem_of_mGet {m : List (Int × ν)} {k : Int} {v : ν} (h : mGet m k = some v) : (k, v) ∈ m := by
  induction m with
  | nil => simp [mGet] at h
  | cons x rest ih =>
    obtain ⟨k', v'⟩ := x
    simp only [mGet] at h
    split at h
    · rename_i e
      simp only [Option.some.injEq] at h
      rw [← e, ← h]; exact List.mem_cons_self
    · exact List.mem_cons_of_mem _ (ih h)

theorem mGet_eq_none_iff {m : List (Int × ν)} {k : Int} : mGet m k = none ↔ ∀ kv ∈ m, kv.1 ≠ k := by
  induction m with
  | nil => simp [mGet]
  | cons x rest ih =>
    obtain ⟨k', v'⟩ := x
    simp only [mGet, List.mem_cons, forall_eq_or_imp]
    split
    · rename_i e; simp [e]
    · rename_i e; rw [ih]; simp [e]

theorem mem_mSet {m : List (Int × ν)} {k : Int} {v : ν} {kv : Int × ν} (h : kv ∈ mSet m k v) :
    kv = (k, v) ∨ kv ∈ m := by
  induction m with
  | nil => simp only [mSet, List.mem_singleton] at h; exact Or.inl h
  | cons x rest ih =>
    obtain ⟨k', v'⟩ := x
    simp only [mSet] at h
    split at h
    · rcases List.mem_cons.1 h with e | e
      · exact Or.inl e
      · exact Or.inr (List.mem_cons_of_mem _ e)
    · split at h
      · rcases List.mem_cons.1 h with e | e
        · exact Or.inl e
        · exact Or.inr e
      · rcases List.mem_cons.1 h with e | e
        · exact Or.inr (e ▸ List.mem_cons_self)
        · rcases ih e with e' | e'
          · exact Or.inl e'
          · exact Or.inr (List.mem_cons_of_mem _ e')

theorem mErase_sublist (m : List (Int × ν)) (k : Int) : (mErase m k).Sublist m := by
  induction m with
  | nil => exact List.Sublist.refl _
  | cons x rest ih =>
    obtain ⟨k', v'⟩ := x
    simp only [mErase]
    split
    · exact List.sublist_cons_self _ _
    · exact List.Sublist.cons_cons _ ih

/-- Strictly ascending keys. -/
def SortedK (m : List (Int × ν)) : Prop := m.Pairwise (fun a b => a.1 < b.1)

theorem SortedK.sublist {m m' : List (Int × ν)} (h : SortedK m) (hs : m'.Sublist m) : SortedK m' :=
  List.Pairwise.sublist hs h

theorem sortedK_nil : SortedK ([] : List (Int × ν)) := List.Pairwise.nil

theorem sortedK_mSet {m : List (Int × ν)} (h : SortedK m) (k : Int) (v : ν) : SortedK (mSet m k v) := by
  induction m with
  | nil => simp [mSet, SortedK]
  | cons x rest ih =>
    obtain ⟨k', v'⟩ := x
    have hx : ∀ y ∈ rest, k' < y.1 := (List.pairwise_cons.1 h).1
    have hr : SortedK rest := (List.pairwise_cons.1 h).2
    simp only [mSet]
    split
    · rename_i e
      subst e
      exact List.pairwise_cons.2 ⟨hx, hr⟩
    · split
      · rename_i hlt
        refine List.pairwise_cons.2 ⟨?_, h⟩
        intro y hy
        rcases List.mem_cons.1 hy with e | e
        · rw [e]; exact hlt
        · exact Int.lt_trans hlt (hx y e)
      · rename_i hne hlt
        refine List.pairwise_cons.2 ⟨?_, ih hr⟩
        intro y hy
        rcases mem_mSet hy with e | e
        · rw [e]; simp only; omega
        · exact hx y e

theorem mGet_mErase_self {m : List (Int × ν)} (h : SortedK m) (k : Int) : mGet (mErase m k) k = none := by
  induction m with
  | nil => rfl
  | cons x rest ih =>
    obtain ⟨k', v'⟩ := x
    have hx : ∀ y ∈ rest, k' < y.1 := (List.pairwise_cons.1 h).1
    have hr : SortedK rest := (List.pairwise_cons.1 h).2
    simp only [mErase]
    split
    · rename_i e
      subst e
      rw [mGet_eq_none_iff]
      intro kv hkv
      have := hx kv hkv
      omega
    · rename_i e
      simp only [mGet, e, if_false]
      exact ih hr

theorem mGet_none_of_sublist {m m' : List (Int × ν)} (hs : m'.Sublist m) {k : Int} (h : mGet m k = none) :
    mGet m' k = none := by
  rw [mGet_eq_none_iff] at *
  exact fun kv hkv => h kv (hs.subset hkv)

theorem eq_nil_of_mGet_none {m : List (Int × ν)} (h : ∀ k ∈ mKeys m, mGet m k = none) : m = [] := by
  cases m with
  | nil => rfl
  | cons x rest =>
    obtain ⟨k, v⟩ := x
    have := h k (by simp [mKeys])
    simp [mGet] at this

theorem mHas_iff {m : List (Int × ν)} {k : Int} : mHas m k = true ↔ ∃ v, mGet m k = some v := by
  unfold mHas
  cases mGet m k <;> simp

end maps

theorem mem_stableSort {α : Type} {le : α → α → Bool} {y : α} {l : List α}
    (h : y ∈ Expr.stableSort le l) : y ∈ l := C10.mem_stableSort le y l h

/-! ### the invariant -/

/-- What `s'` has in common with `s` as far as the accounting is concerned. -/
structure Keep (s s' : Rebuild w) : Prop where
  drift : driftL s'.insts = driftL s.insts
  shift : s'.shift = s.shift
  subShift : s'.subShift = s.subShift

theorem Keep.refl (s : Rebuild w) : Keep s s := ⟨rfl, rfl, rfl⟩
theorem Keep.trans {a b c : Rebuild w} (h1 : Keep a b) (h2 : Keep b c) : Keep a c :=
  ⟨h2.drift.trans h1.drift, h2.shift.trans h1.shift, h2.subShift.trans h1.subShift⟩

/-- Entries of `pending` respect the bound at drift `g`. -/
def PendOk (R g : Nat) (pending : List (Int × Expr w)) : Prop :=
  ∀ kv ∈ pending, NB R g kv.1 ∧ VarsIn (NB R g) kv.2

/-- The `known` entries of `written` respect the bound at drift `g`. -/
def WritOk (R g : Nat) (written : List (Int × OptWrite w)) : Prop :=
  ∀ kv ∈ written, ∀ e, kv.2 = .known e → VarsIn (NB R g) e

structure Inv (R g0 : Nat) (s : Rebuild w) : Prop where
  insts : OkL R g0 s.insts
  pend : PendOk R (g0 + driftL s.insts) s.pending
  writ : WritOk R (g0 + driftL s.insts) s.written
  sorted : SortedK s.pending
  flat : s.subShift = false → driftL s.insts = 0

/-- Only `pending` (and the unconstrained fields) changed, and only by deletion. -/
structure PStep (s s' : Rebuild w) : Prop where
  insts : s'.insts = s.insts
  written : s'.written = s.written
  subShift : s'.subShift = s.subShift
  shift : s'.shift = s.shift
  sub : s'.pending.Sublist s.pending

theorem PStep.refl (s : Rebuild w) : PStep s s := ⟨rfl, rfl, rfl, rfl, List.Sublist.refl _⟩
theorem PStep.trans {a b c : Rebuild w} (h1 : PStep a b) (h2 : PStep b c) : PStep a c :=
  ⟨h2.insts.trans h1.insts, h2.written.trans h1.written, h2.subShift.trans h1.subShift,
   h2.shift.trans h1.shift, h2.sub.trans h1.sub⟩

theorem PStep.keep {s s' : Rebuild w} (h : PStep s s') : Keep s s' :=
  ⟨by rw [h.insts], h.shift, h.subShift⟩

theorem PStep.inv {R g0 : Nat} {s s' : Rebuild w} (h : PStep s s') (hi : Inv R g0 s) : Inv R g0 s' := by
  refine ⟨by rw [h.insts]; exact hi.insts, ?_, ?_, hi.sorted.sublist h.sub, ?_⟩
  · rw [h.insts]; exact fun kv hkv => hi.pend kv (h.sub.subset hkv)
  · rw [h.insts, h.written]; exact hi.writ
  · rw [h.insts, h.subShift]; exact hi.flat

theorem inv_new (R g0 : Nat) (shift : Int) (cond : Option Int) (par : OptParent)
    (anal : Option (OptAnalysis w)) : Inv R g0 (Rebuild.new shift cond par anal) :=
  ⟨okL_nil _ _, fun kv h => (by cases h), fun kv h => (by cases h), sortedK_nil, fun _ => rfl⟩

/-! ### `removePending` -/

theorem removePending_pstep (s : Rebuild w) (var : Int) : PStep s (removePending s var).1 := by
  unfold removePending
  split
  · exact PStep.refl s
  · exact ⟨rfl, rfl, rfl, rfl, mErase_sublist _ _⟩

theorem removePending_snd (s : Rebuild w) (var : Int) : (removePending s var).2 = mGet s.pending var := by
  unfold removePending
  split
  · rename_i h; rw [h]
  · rename_i e h; rw [h]

theorem removePending_gone {s : Rebuild w} (hs : SortedK s.pending) (var : Int) :
    mGet (removePending s var).1.pending var = none := by
  unfold removePending
  split
  · rename_i h; exact h
  · exact mGet_mErase_self hs var

/-! ### `insertWritten` -/

theorem insertWritten_inv {R g0 : Nat} {s : Rebuild w} (hi : Inv R g0 s) (var : Int) (val : OptWrite w)
    (hv : ∀ e, val = .known e → VarsIn (NB R (g0 + driftL s.insts)) e) :
    Inv R g0 (insertWritten s var val) ∧ Keep s (insertWritten s var val) ∧
      (insertWritten s var val).pending = s.pending := by
  unfold insertWritten
  split
  · rename_i e
    refine ⟨⟨hi.insts, hi.pend, ?_, hi.sorted, hi.flat⟩, ⟨rfl, rfl, rfl⟩, rfl⟩
    intro kv hkv e' he'
    rcases mem_mSet hkv with h | h
    · subst h
      simp only [OptWrite.known.injEq] at he'
      subst he'
      exact varsIn_normalize (hv e rfl)
    · exact hi.writ kv h e' he'
  · rename_i hne
    refine ⟨⟨hi.insts, hi.pend, ?_, hi.sorted, hi.flat⟩, ⟨rfl, rfl, rfl⟩, rfl⟩
    intro kv hkv e' he'
    rcases mem_mSet hkv with h | h
    · subst h
      exact hv e' he'
    · exact hi.writ kv h e' he'

/-! ### reading the maps -/

theorem getWritten_varsIn {S : Int → Prop} {s : Rebuild w} (ps : List (Rebuild w)) {var : Int} {e : Expr w}
    (hw : ∀ kv ∈ s.written, ∀ e, kv.2 = .known e → VarsIn S e) (hv : S var)
    (h : getWritten s ps var = some e) : VarsIn S e := by
  unfold getWritten at h
  split at h
  · rename_i expr hg
    simp only [Option.some.injEq] at h
    subst h
    exact hw _ (mem_of_mGet hg) _ rfl
  · cases h
  · split at h
    · simp only [Option.some.injEq] at h; subst h; exact varsIn_val _
    · simp only [Option.some.injEq] at h; subst h; exact varsIn_var hv

theorem getPending_varsIn {S : Int → Prop} {s : Rebuild w} (ps : List (Rebuild w)) {var : Int}
    (hp : ∀ kv ∈ s.pending, VarsIn S kv.2) (hv : S var) : VarsIn S (getPending s ps var) := by
  unfold getPending
  split
  · rename_i expr hg
    exact hp _ (mem_of_mGet hg)
  · split
    · exact varsIn_val _
    · exact varsIn_var hv

theorem evalWritten_varsIn {S : Int → Prop} {s : Rebuild w} (ps : List (Rebuild w)) {expr e : Expr w}
    (hw : ∀ kv ∈ s.written, ∀ e, kv.2 = .known e → VarsIn S e) (he : VarsIn S expr)
    (h : evalWritten s ps expr = some e) : VarsIn S e := by
  unfold evalWritten at h
  split at h
  · refine OptLoop.symbEvaluate_varsIn _ expr e ?_ h
    intro v hv e' he'
    exact getWritten_varsIn ps hw (varsIn_iff.1 he v hv) he'
  · simp only [Option.some.injEq] at h; subst h; exact he

theorem getBoth_varsIn {S : Int → Prop} {s : Rebuild w} (ps : List (Rebuild w)) {var : Int} {e : Expr w}
    (hp : ∀ kv ∈ s.pending, VarsIn S kv.2)
    (hw : ∀ kv ∈ s.written, ∀ e, kv.2 = .known e → VarsIn S e) (hv : S var)
    (h : getBoth s ps var = some e) : VarsIn S e := by
  unfold getBoth at h
  split at h
  · rename_i expr hg
    exact evalWritten_varsIn ps hw (hp _ (mem_of_mGet hg)) h
  · exact getWritten_varsIn ps hw hv h

theorem evalPending_varsIn {S : Int → Prop} {s : Rebuild w} (ps : List (Rebuild w)) {shift : Int}
    {expr e : Expr w} (hp : ∀ kv ∈ s.pending, VarsIn S kv.2) (he : VarsIn (fun x => S (x + shift)) expr)
    (h : evalPending s ps shift expr = .ok e) : VarsIn S e := by
  unfold evalPending at h
  split at h
  · split at h
    · rename_i r hr
      simp only [pure, Except.pure, Except.ok.injEq] at h
      subst h
      refine OptLoop.symbEvaluate_varsIn _ expr r ?_ hr
      intro v hv e' he'
      simp only [Option.some.injEq] at he'
      subst he'
      exact getPending_varsIn ps hp (varsIn_iff.1 he v hv)
    · cases h
  · split at h
    · simp only [pure, Except.pure, Except.ok.injEq] at h
      subst h
      exact varsIn_shiftVars he
    · rename_i hz
      simp only [pure, Except.pure, Except.ok.injEq] at h
      subst h
      have hz' : shift = 0 := by simpa using hz
      subst hz'
      exact VarsIn.imp he (fun x hx => by simpa using hx)

/-! ### `insertPending` -/

theorem insertPending_inv {R g0 : Nat} {s : Rebuild w} (ps : List (Rebuild w)) (hi : Inv R g0 s) {var : Int}
    {expr : Expr w} (hv : NB R (g0 + driftL s.insts) var) (he : VarsIn (NB R (g0 + driftL s.insts)) expr) :
    Inv R g0 (insertPending s ps var expr) ∧ Keep s (insertPending s ps var expr) := by
  have hp := removePending_pstep s var
  have hi1 := hp.inv hi
  unfold insertPending
  simp only
  split
  · refine ⟨⟨by simpa using hi1.insts, ?_, by simpa using hi1.writ, sortedK_mSet hi1.sorted _ _,
      by simpa using hi1.flat⟩, ⟨by simp [hp.insts], by simp [hp.shift], by simp [hp.subShift]⟩⟩
    intro kv hkv
    simp only at hkv
    rcases mem_mSet hkv with h | h
    · subst h
      simp only [hp.insts]
      exact ⟨hv, varsIn_normalize he⟩
    · exact hi1.pend kv h
  · exact ⟨hi1, hp.keep⟩

/-! ### `uncertainShift`, `read`, `forgetParent` -/

theorem read_pstep (s : Rebuild w) (var : Int) : PStep s (Opt.read s var) := by
  unfold Opt.read
  split <;> exact ⟨rfl, rfl, rfl, rfl, List.Sublist.refl _⟩

theorem read_pending (s : Rebuild w) (var : Int) : (Opt.read s var).pending = s.pending := by
  unfold Opt.read
  split <;> rfl

end Hpbf.OptOffs
