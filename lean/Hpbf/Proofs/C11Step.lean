/-
C11, part 2: per-instruction analysis of `Bc.step`.

* `step_eq` rewrites `Bc.step` on an in-range pc into the normal form `stepI` (operand reads/writes as the
  total functions `rdVal` / `rdSt` / `wrCfg`, branches as `branch`).
* `stepI_pc`     – control flow: the next pc is one of `succs`, or the instruction is a `scan` that stays.
* `stepI_not_bad`– a `dstOk` instruction with in-range branch target never yields `.bad`.
* `stepI_frame`  – tape cells other than `ptr + o`, `o ∈ memOps ins`, are unchanged.
* `stepI_sim`    – noninterference: configurations that differ only in temporaries not read by the
  instruction step to results with the same constructor that again differ only in such temporaries
  (the written temporary becomes equal).
-/
import Hpbf.Proofs.C11Basic

namespace Hpbf
namespace C11

open Bc BcWf

variable {w : Nat}

/-! ### operands -/

/-- Value obtained by reading an operand. -/
def rdVal (c : Cfg w) : Loc w → BitVec w
  | .mem off => c.st.rd off
  | .memZero off => c.st.rd off
  | .tmp i => tget c.temps i
  | .imm v => v

/-- State after reading an operand (`memZero` clears the cell). -/
def rdSt (s : State w) : Loc w → State w
  | .memZero off => s.wr off 0#w
  | _ => s

theorem readLoc_eq (c : Cfg w) (l : Loc w) : readLoc c l = (rdVal c l, { c with st := rdSt c.st l }) := by
  cases l <;> rfl

def isDst : Loc w → Bool
  | .mem _ => true
  | .tmp _ => true
  | _ => false

/-- Configuration after writing a destination operand. -/
def wrCfg (c : Cfg w) (v : BitVec w) : Loc w → Cfg w
  | .mem off => { c with st := c.st.wr off v }
  | .tmp i => { c with temps := tset c.temps i v }
  | _ => c

theorem writeLoc_eq (c : Cfg w) (v : BitVec w) (l : Loc w) :
    writeLoc c v l = if isDst l then some (wrCfg c v l) else none := by
  cases l <;> rfl

theorem sameDst_eq {d a : Loc w} (h : sameDst d a = true) : d = a := by
  cases d <;> cases a <;> simp_all [sameDst]

/-- Configuration after an `add`/`sub`/`mul` (before the pc is advanced), destination assumed valid. -/
def binopCfg (f : BitVec w → BitVec w → BitVec w) (c : Cfg w) (d a b : Loc w) : Cfg w :=
  if sameDst d a then
    wrCfg { c with st := rdSt (rdSt c.st b) d }
      (f (rdVal { c with st := rdSt c.st b } d) (rdVal c b)) d
  else
    wrCfg { c with st := rdSt (rdSt c.st a) b }
      (f (rdVal c a) (rdVal { c with st := rdSt c.st a } b)) d

theorem binop_eq (f : BitVec w → BitVec w → BitVec w) (c : Cfg w) (d a b : Loc w) :
    binop f c d a b = if isDst d then some (binopCfg f c d a b) else none := by
  unfold binop binopCfg
  by_cases h : sameDst d a = true
  · simp only [h, if_true, readLoc_eq, writeLoc_eq]
  · simp only [h, readLoc_eq, writeLoc_eq]
    rfl

/-- Configuration after a `copy` (before the pc is advanced). -/
def copyCfg (c : Cfg w) (d s : Loc w) : Cfg w :=
  wrCfg { c with st := rdSt c.st s } (rdVal c s) d

/-! ### normal form of `step` -/

/-- Conditional branch: budget charge (limited mode), then the jump. -/
def branch (p : Program w) (limited : Bool) (c : Cfg w) (taken : Bool) (off : Int) : StepRes w :=
  if limited = true ∧ c.budget ≤ 1 then .interrupted { c with budget := 0 }
  else
    let c0 : Cfg w := { c with budget := if limited then c.budget - 1 else c.budget }
    if taken then
      match branchTarget c.pc off p.insts.size with
      | some t => .next { c0 with pc := t }
      | none => .bad c0
    else .next { c0 with pc := c.pc + 1 }

def arith (c : Cfg w) (f : BitVec w → BitVec w → BitVec w) (d a b : Loc w) : StepRes w :=
  if isDst d then .next { binopCfg f c d a b with pc := c.pc + 1 } else .bad c

def stepI (p : Program w) (limited : Bool) (c : Cfg w) : Instr w → StepRes w
  | .noop => .next { c with pc := c.pc + 1 }
  | .mov sh => .next { c with pc := c.pc + 1, st := c.st.mov sh }
  | .scan cond sh =>
    if c.st.rd cond = 0#w then .next { c with pc := c.pc + 1 }
    else if sh = 0 then
      if limited then .interrupted { c with budget := 0 } else .next c
    else .next { c with st := c.st.mov sh }
  | .inp dst =>
    if (c.st.input dst).1 then .next { c with pc := c.pc + 1, st := (c.st.input dst).2 }
    else .stop { c with st := (c.st.input dst).2 }
  | .out src =>
    if (c.st.output src).1 then .next { c with pc := c.pc + 1, st := (c.st.output src).2 }
    else .stop { c with st := (c.st.output src).2 }
  | .brz cond off => branch p limited c (c.st.rd cond == 0#w) off
  | .brnz cond off => branch p limited c (c.st.rd cond != 0#w) off
  | .add d a b => arith c (· + ·) d a b
  | .sub d a b => arith c (fun x y => x + (-y)) d a b
  | .mul d a b => arith c (· * ·) d a b
  | .copy d s => if isDst d then .next { copyCfg c d s with pc := c.pc + 1 } else .bad c

theorem wrCfg_pc (c : Cfg w) (v : BitVec w) (l : Loc w) : (wrCfg c v l).pc = c.pc := by
  cases l <;> rfl
theorem wrCfg_budget (c : Cfg w) (v : BitVec w) (l : Loc w) : (wrCfg c v l).budget = c.budget := by
  cases l <;> rfl

theorem binopCfg_pc (f : BitVec w → BitVec w → BitVec w) (c : Cfg w) (d a b : Loc w) :
    (binopCfg f c d a b).pc = c.pc := by
  unfold binopCfg; split <;> simp [wrCfg_pc]
theorem binopCfg_budget (f : BitVec w → BitVec w → BitVec w) (c : Cfg w) (d a b : Loc w) :
    (binopCfg f c d a b).budget = c.budget := by
  unfold binopCfg; split <;> simp [wrCfg_budget]

theorem step_eq {p : Program w} {limited : Bool} {c : Cfg w} {ins : Instr w}
    (hi : p.insts[c.pc]? = some ins) : step p limited c = stepI p limited c ins := by
  unfold step
  simp only [hi]
  cases ins with
  | noop => rfl
  | mov sh => rfl
  | scan cond sh => rfl
  | inp dst =>
    simp only [stepI]
    rcases h : c.st.input dst with ⟨b, s⟩
    cases b <;> simp
  | out src =>
    simp only [stepI]
    rcases h : c.st.output src with ⟨b, s⟩
    cases b <;> simp
  | brz cond off =>
    simp only [stepI, branch]
    cases limited
    · simp only [Bool.false_eq_true, if_false, false_and, beq_iff_eq]
      split
      · cases branchTarget c.pc off p.insts.size <;> rfl
      · rfl
    · by_cases hb : c.budget ≤ 1
      · simp [charge, hb]
      · simp only [charge, hb, if_true, if_false, true_and, beq_iff_eq]
        split
        · cases branchTarget c.pc off p.insts.size <;> rfl
        · rfl
  | brnz cond off =>
    simp only [stepI, branch]
    cases limited
    · simp only [Bool.false_eq_true, if_false, false_and, bne_iff_ne]
      split
      · cases branchTarget c.pc off p.insts.size <;> rfl
      · rfl
    · by_cases hb : c.budget ≤ 1
      · simp [charge, hb]
      · simp only [charge, hb, if_true, if_false, true_and, bne_iff_ne]
        split
        · cases branchTarget c.pc off p.insts.size <;> rfl
        · rfl
  | add d a b =>
    simp only [stepI, arith, binop_eq]
    cases isDst d <;> simp [binopCfg_pc]
  | sub d a b =>
    simp only [stepI, arith, binop_eq]
    cases isDst d <;> simp [binopCfg_pc]
  | mul d a b =>
    simp only [stepI, arith, binop_eq]
    cases isDst d <;> simp [binopCfg_pc]
  | copy d s =>
    simp only [stepI, copyCfg, readLoc_eq, writeLoc_eq]
    cases isDst d <;> simp [wrCfg_pc]

/-! ### results -/

/-- Configuration carried by a step result. -/
def _root_.Hpbf.Bc.StepRes.cfg : StepRes w → Cfg w
  | .next c => c
  | .halt c => c
  | .stop c => c
  | .interrupted c => c
  | .bad c => c

/-- Constructor of a step result. -/
def _root_.Hpbf.Bc.StepRes.tag : StepRes w → Nat
  | .next _ => 0
  | .halt _ => 1
  | .stop _ => 2
  | .interrupted _ => 3
  | .bad _ => 4

/-! ### control flow -/

theorem branch_pc {p : Program w} {limited : Bool} {c c' : Cfg w} {taken : Bool} {off : Int} {t : Nat}
    (ht : branchTarget c.pc off p.insts.size = some t)
    (hs : branch p limited c taken off = .next c') : c'.pc = c.pc + 1 ∨ c'.pc = t := by
  unfold branch at hs
  split at hs
  · cases hs
  · simp only [ht] at hs
    split at hs
    · cases hs; exact Or.inr rfl
    · cases hs; exact Or.inl rfl

theorem stepI_pc {p : Program w} {limited : Bool} {c c' : Cfg w} {ins : Instr w} {ss : List Nat}
    (hss : succs p.insts.size c.pc ins = some ss) (hs : stepI p limited c ins = .next c') :
    c'.pc ∈ ss ∨ (c'.pc = c.pc ∧ c'.temps = c.temps ∧ uses ins = [] ∧ defs ins = []) := by
  cases ins with
  | noop => simp only [stepI] at hs; cases hs; simp only [succs, Option.some.injEq] at hss; subst hss; simp
  | mov sh => simp only [stepI] at hs; cases hs; simp only [succs, Option.some.injEq] at hss; subst hss; simp
  | scan cond sh =>
    simp only [stepI] at hs
    simp only [succs, Option.some.injEq] at hss
    subst hss
    split at hs
    · cases hs; simp
    · split at hs
      · split at hs
        · cases hs
        · cases hs; simp [uses, defs]
      · cases hs; simp [uses, defs]
  | inp dst =>
    simp only [stepI] at hs
    split at hs
    · cases hs; simp only [succs, Option.some.injEq] at hss; subst hss; simp
    · cases hs
  | out src =>
    simp only [stepI] at hs
    split at hs
    · cases hs; simp only [succs, Option.some.injEq] at hss; subst hss; simp
    · cases hs
  | brz cond off =>
    simp only [stepI] at hs
    simp only [succs, Option.map_eq_some_iff] at hss
    obtain ⟨t, ht, rfl⟩ := hss
    rcases branch_pc ht hs with h | h <;> simp [h]
  | brnz cond off =>
    simp only [stepI] at hs
    simp only [succs, Option.map_eq_some_iff] at hss
    obtain ⟨t, ht, rfl⟩ := hss
    rcases branch_pc ht hs with h | h <;> simp [h]
  | add d a b =>
    simp only [stepI, arith] at hs
    split at hs
    · cases hs; simp only [succs, Option.some.injEq] at hss; subst hss; simp
    · cases hs
  | sub d a b =>
    simp only [stepI, arith] at hs
    split at hs
    · cases hs; simp only [succs, Option.some.injEq] at hss; subst hss; simp
    · cases hs
  | mul d a b =>
    simp only [stepI, arith] at hs
    split at hs
    · cases hs; simp only [succs, Option.some.injEq] at hss; subst hss; simp
    · cases hs
  | copy d s =>
    simp only [stepI] at hs
    split at hs
    · cases hs; simp only [succs, Option.some.injEq] at hss; subst hss; simp
    · cases hs

theorem succs_le {n i : Nat} {ins : Instr w} {ss : List Nat} (hi : i < n)
    (hss : succs n i ins = some ss) : ∀ j ∈ ss, j ≤ n := by
  have hbt : ∀ off t, branchTarget i off n = some t → t ≤ n := by
    intro off t h
    simp only [branchTarget] at h
    split at h
    · cases h; omega
    · cases h
  intro j hj
  cases ins <;> simp only [succs, Option.some.injEq, Option.map_eq_some_iff] at hss
  case brz cond off =>
    obtain ⟨t, ht, rfl⟩ := hss
    have := hbt _ _ ht
    simp at hj; omega
  case brnz cond off =>
    obtain ⟨t, ht, rfl⟩ := hss
    have := hbt _ _ ht
    simp at hj; omega
  all_goals (subst hss; simp at hj; omega)

/-! ### no `.bad` -/

theorem stepI_not_bad {p : Program w} {limited : Bool} {c : Cfg w} {ins : Instr w}
    (hd : dstOk ins = true) (hss : (succs p.insts.size c.pc ins).isSome = true) (c' : Cfg w) :
    stepI p limited c ins ≠ .bad c' := by
  have hbr : ∀ taken off, (branchTarget c.pc off p.insts.size).isSome = true →
      branch p limited c taken off ≠ .bad c' := by
    intro taken off h
    obtain ⟨t, ht⟩ := Option.isSome_iff_exists.mp h
    unfold branch
    simp only [ht]
    split
    · simp
    · split <;> simp
  have hdst : ∀ d : Loc w, (match d with | .mem _ => true | .tmp _ => true | _ => false) = true →
      isDst d = true := by
    intro d h; cases d <;> simp_all [isDst]
  cases ins with
  | noop => simp [stepI]
  | mov sh => simp [stepI]
  | scan cond sh =>
    simp only [stepI]
    repeat' split
    all_goals simp
  | inp dst => simp only [stepI]; split <;> simp
  | out src => simp only [stepI]; split <;> simp
  | brz cond off => exact hbr _ _ (by simpa [succs] using hss)
  | brnz cond off => exact hbr _ _ (by simpa [succs] using hss)
  | add d a b => simp [stepI, arith, hdst d hd]
  | sub d a b => simp [stepI, arith, hdst d hd]
  | mul d a b => simp [stepI, arith, hdst d hd]
  | copy d s => simp [stepI, hdst d hd]

/-! ### tape frame -/

theorem wr_get (s : State w) (off : Int) (v : BitVec w) {x : Int} (h : x ≠ s.ptr + off) :
    (s.wr off v).tape.get x = s.tape.get x := Tape.get_set_ne _ _ _ _ h

theorem input_get (s : State w) (off : Int) {x : Int} (h : x ≠ s.ptr + off) :
    (s.input off).2.tape.get x = s.tape.get x := by
  unfold State.input
  split <;> simp [wr_get _ _ _ h]

theorem input_ptr (s : State w) (off : Int) : (s.input off).2.ptr = s.ptr := by
  unfold State.input
  split <;> simp [State.wr]

theorem output_tape (s : State w) (off : Int) : (s.output off).2.tape = s.tape := by
  unfold State.output
  split
  · split <;> rfl
  · rfl

theorem output_ptr (s : State w) (off : Int) : (s.output off).2.ptr = s.ptr := by
  unfold State.output
  split
  · split <;> rfl
  · rfl

theorem rdSt_ptr (s : State w) (l : Loc w) : (rdSt s l).ptr = s.ptr := by
  cases l <;> rfl

theorem rdSt_get (s : State w) (l : Loc w) {x : Int} (h : ∀ o ∈ locMem l, x ≠ s.ptr + o) :
    (rdSt s l).tape.get x = s.tape.get x := by
  cases l <;> simp only [rdSt]
  exact wr_get _ _ _ (h _ (by simp [locMem]))

theorem wrCfg_ptr (c : Cfg w) (v : BitVec w) (l : Loc w) : (wrCfg c v l).st.ptr = c.st.ptr := by
  cases l <;> rfl

theorem wrCfg_get (c : Cfg w) (v : BitVec w) (l : Loc w) {x : Int}
    (h : ∀ o ∈ locMem l, x ≠ c.st.ptr + o) : (wrCfg c v l).st.tape.get x = c.st.tape.get x := by
  cases l <;> simp only [wrCfg]
  exact wr_get _ _ _ (h _ (by simp [locMem]))

theorem binopCfg_ptr (f : BitVec w → BitVec w → BitVec w) (c : Cfg w) (d a b : Loc w) :
    (binopCfg f c d a b).st.ptr = c.st.ptr := by
  unfold binopCfg; split <;> simp [wrCfg_ptr, rdSt_ptr]

theorem binopCfg_get (f : BitVec w → BitVec w → BitVec w) (c : Cfg w) (d a b : Loc w) {x : Int}
    (h : ∀ o ∈ locMem d ++ locMem a ++ locMem b, x ≠ c.st.ptr + o) :
    (binopCfg f c d a b).st.tape.get x = c.st.tape.get x := by
  have hd : ∀ o ∈ locMem d, x ≠ c.st.ptr + o := fun o ho => h o (by simp [ho])
  have ha : ∀ o ∈ locMem a, x ≠ c.st.ptr + o := fun o ho => h o (by simp [ho])
  have hb : ∀ o ∈ locMem b, x ≠ c.st.ptr + o := fun o ho => h o (by simp [ho])
  unfold binopCfg
  split
  · rw [wrCfg_get _ _ _ (by simpa [rdSt_ptr] using hd)]
    simp only
    rw [rdSt_get _ _ (by simpa [rdSt_ptr] using hd), rdSt_get _ _ hb]
  · rw [wrCfg_get _ _ _ (by simpa [rdSt_ptr] using hd)]
    simp only
    rw [rdSt_get _ _ (by simpa [rdSt_ptr] using hb), rdSt_get _ _ ha]

theorem copyCfg_ptr (c : Cfg w) (d s : Loc w) : (copyCfg c d s).st.ptr = c.st.ptr := by
  simp [copyCfg, wrCfg_ptr, rdSt_ptr]

theorem copyCfg_get (c : Cfg w) (d s : Loc w) {x : Int}
    (h : ∀ o ∈ locMem d ++ locMem s, x ≠ c.st.ptr + o) :
    (copyCfg c d s).st.tape.get x = c.st.tape.get x := by
  have hd : ∀ o ∈ locMem d, x ≠ c.st.ptr + o := fun o ho => h o (by simp [ho])
  have hs : ∀ o ∈ locMem s, x ≠ c.st.ptr + o := fun o ho => h o (by simp [ho])
  unfold copyCfg
  rw [wrCfg_get _ _ _ (by simpa [rdSt_ptr] using hd)]
  simp only
  rw [rdSt_get _ _ hs]

theorem branch_st (p : Program w) (limited : Bool) (c : Cfg w) (taken : Bool) (off : Int) :
    (branch p limited c taken off).cfg.st = c.st ∧ (branch p limited c taken off).cfg.temps = c.temps := by
  unfold branch
  split
  · exact ⟨rfl, rfl⟩
  · simp only
    split
    · split <;> exact ⟨rfl, rfl⟩
    · exact ⟨rfl, rfl⟩

/-- Frame: a step changes no tape cell other than `ptr + o`, `o ∈ memOps ins`. -/
theorem stepI_frame (p : Program w) (limited : Bool) (c : Cfg w) (ins : Instr w) {x : Int}
    (h : ∀ o ∈ memOps ins, x ≠ c.st.ptr + o) :
    (stepI p limited c ins).cfg.st.tape.get x = c.st.tape.get x := by
  cases ins with
  | noop => rfl
  | mov sh => rfl
  | scan cond sh =>
    simp only [stepI]
    repeat' split
    all_goals rfl
  | inp dst =>
    have := input_get c.st dst (h dst (by simp [memOps]))
    simp only [stepI]
    split <;> exact this
  | out src =>
    have := output_tape c.st src
    simp only [stepI]
    split <;> simp [StepRes.cfg, this]
  | brz cond off => simp only [stepI, (branch_st _ _ _ _ _).1]
  | brnz cond off => simp only [stepI, (branch_st _ _ _ _ _).1]
  | add d a b =>
    simp only [stepI, arith]
    split
    · exact binopCfg_get _ _ _ _ _ h
    · rfl
  | sub d a b =>
    simp only [stepI, arith]
    split
    · exact binopCfg_get _ _ _ _ _ h
    · rfl
  | mul d a b =>
    simp only [stepI, arith]
    split
    · exact binopCfg_get _ _ _ _ _ h
    · rfl
  | copy d s =>
    simp only [stepI]
    split
    · exact copyCfg_get _ _ _ h
    · rfl

/-- Only `mov` and `scan` move the pointer (by their shift). -/
theorem stepI_ptr (p : Program w) (limited : Bool) (c : Cfg w) (ins : Instr w) :
    (stepI p limited c ins).cfg.st.ptr = c.st.ptr ∨
    (∃ sh, ins = .mov sh ∧ (stepI p limited c ins).cfg.st.ptr = c.st.ptr + sh) ∨
    (∃ cond sh, ins = .scan cond sh ∧ (stepI p limited c ins).cfg.st.ptr = c.st.ptr + sh) := by
  cases ins with
  | noop => exact Or.inl rfl
  | mov sh => exact Or.inr (Or.inl ⟨sh, rfl, rfl⟩)
  | scan cond sh =>
    simp only [stepI]
    split
    · exact Or.inl rfl
    · split
      · split <;> exact Or.inl rfl
      · exact Or.inr (Or.inr ⟨cond, sh, rfl, rfl⟩)
  | inp dst =>
    have := input_ptr c.st dst
    simp only [stepI]
    split <;> exact Or.inl this
  | out src =>
    have := output_ptr c.st src
    simp only [stepI]
    split <;> exact Or.inl this
  | brz cond off => exact Or.inl (by simp only [stepI, (branch_st _ _ _ _ _).1])
  | brnz cond off => exact Or.inl (by simp only [stepI, (branch_st _ _ _ _ _).1])
  | add d a b =>
    simp only [stepI, arith]
    split
    · exact Or.inl (binopCfg_ptr _ _ _ _ _)
    · exact Or.inl rfl
  | sub d a b =>
    simp only [stepI, arith]
    split
    · exact Or.inl (binopCfg_ptr _ _ _ _ _)
    · exact Or.inl rfl
  | mul d a b =>
    simp only [stepI, arith]
    split
    · exact Or.inl (binopCfg_ptr _ _ _ _ _)
    · exact Or.inl rfl
  | copy d s =>
    simp only [stepI]
    split
    · exact Or.inl (copyCfg_ptr _ _ _)
    · exact Or.inl rfl

/-! ### noninterference in the temporaries -/

/-- Two configurations that differ at most in the temporaries outside `A`. -/
structure Sim (A : Nat → Prop) (c1 c2 : Cfg w) : Prop where
  pc : c1.pc = c2.pc
  st : c1.st = c2.st
  budget : c1.budget = c2.budget
  temps : ∀ t, A t → tget c1.temps t = tget c2.temps t

theorem Sim.mono {A B : Nat → Prop} {c1 c2 : Cfg w} (h : Sim A c1 c2) (hab : ∀ t, B t → A t) :
    Sim B c1 c2 := ⟨h.pc, h.st, h.budget, fun t ht => h.temps t (hab t ht)⟩

theorem rdVal_congr {c1 c2 : Cfg w} (l : Loc w) (hst : c1.st = c2.st)
    (ht : ∀ t ∈ locTmp l, tget c1.temps t = tget c2.temps t) : rdVal c1 l = rdVal c2 l := by
  cases l <;> simp only [rdVal, hst]
  exact ht _ (by simp [locTmp])

theorem wrCfg_sim {A : Nat → Prop} {c1 c2 : Cfg w} (h : Sim A c1 c2) (v : BitVec w) (l : Loc w) :
    Sim (fun t => A t ∨ t ∈ locTmp l) (wrCfg c1 v l) (wrCfg c2 v l) := by
  obtain ⟨h1, h2, h3, h4⟩ := h
  cases l with
  | mem off => exact ⟨h1, by simp [wrCfg, h2], h3, fun t ht => h4 t (by simpa [locTmp] using ht)⟩
  | memZero off => exact ⟨h1, h2, h3, fun t ht => h4 t (by simpa [locTmp] using ht)⟩
  | imm k => exact ⟨h1, h2, h3, fun t ht => h4 t (by simpa [locTmp] using ht)⟩
  | tmp i =>
    refine ⟨h1, h2, h3, fun t ht => ?_⟩
    simp only [wrCfg, tget_tset]
    by_cases hti : t = i
    · simp [hti]
    · simp only [hti, if_false]
      exact h4 t (by simpa [locTmp, hti] using ht)

theorem binopCfg_sim {A : Nat → Prop} {c1 c2 : Cfg w} (h : Sim A c1 c2)
    (f : BitVec w → BitVec w → BitVec w) (d a b : Loc w) (hu : ∀ t ∈ locTmp a ++ locTmp b, A t) :
    Sim (fun t => A t ∨ t ∈ locTmp d) (binopCfg f c1 d a b) (binopCfg f c2 d a b) := by
  obtain ⟨pc1, t1, b1, s1⟩ := c1
  obtain ⟨pc2, t2, b2, s2⟩ := c2
  obtain ⟨h1, h2, h3, h4⟩ := h
  simp only at h1 h2 h3 h4
  subst h1 h2 h3
  have ha : ∀ s : State w, rdVal ⟨pc1, t1, b1, s⟩ a = rdVal ⟨pc1, t2, b1, s⟩ a := fun s =>
    rdVal_congr a rfl (fun t ht => h4 t (hu t (by simp [ht])))
  have hb : ∀ s : State w, rdVal ⟨pc1, t1, b1, s⟩ b = rdVal ⟨pc1, t2, b1, s⟩ b := fun s =>
    rdVal_congr b rfl (fun t ht => h4 t (hu t (by simp [ht])))
  unfold binopCfg
  split
  · rename_i hsd
    have := sameDst_eq hsd
    subst this
    simp only [ha, hb]
    apply wrCfg_sim
    exact ⟨rfl, rfl, rfl, h4⟩
  · simp only [ha, hb]
    apply wrCfg_sim
    exact ⟨rfl, rfl, rfl, h4⟩

theorem copyCfg_sim {A : Nat → Prop} {c1 c2 : Cfg w} (h : Sim A c1 c2)
    (d s : Loc w) (hu : ∀ t ∈ locTmp s, A t) :
    Sim (fun t => A t ∨ t ∈ locTmp d) (copyCfg c1 d s) (copyCfg c2 d s) := by
  obtain ⟨pc1, t1, b1, s1⟩ := c1
  obtain ⟨pc2, t2, b2, s2⟩ := c2
  obtain ⟨h1, h2, h3, h4⟩ := h
  simp only at h1 h2 h3 h4
  subst h1 h2 h3
  have hs : rdVal ⟨pc1, t1, b1, s1⟩ s = rdVal ⟨pc1, t2, b1, s1⟩ s :=
    rdVal_congr s rfl (fun t ht => h4 t (hu t ht))
  unfold copyCfg
  simp only [hs]
  apply wrCfg_sim
  exact ⟨rfl, rfl, rfl, h4⟩

theorem Sim.setPc {A : Nat → Prop} {c1 c2 : Cfg w} (h : Sim A c1 c2) (k : Nat) :
    Sim A { c1 with pc := k } { c2 with pc := k } := ⟨rfl, h.st, h.budget, h.temps⟩

theorem branch_sim {A : Nat → Prop} {c1 c2 : Cfg w} (h : Sim A c1 c2) (p : Program w)
    (limited : Bool) (taken : Bool) (off : Int) :
    (branch p limited c1 taken off).tag = (branch p limited c2 taken off).tag ∧
    Sim A (branch p limited c1 taken off).cfg (branch p limited c2 taken off).cfg := by
  obtain ⟨pc1, t1, b1, s1⟩ := c1
  obtain ⟨pc2, t2, b2, s2⟩ := c2
  obtain ⟨h1, h2, h3, h4⟩ := h
  simp only at h1 h2 h3 h4
  subst h1 h2 h3
  unfold branch
  simp only
  split
  · exact ⟨rfl, rfl, rfl, rfl, h4⟩
  · split
    · split <;> exact ⟨rfl, rfl, rfl, rfl, h4⟩
    · exact ⟨rfl, rfl, rfl, rfl, h4⟩

/-- Noninterference of one step: if the two configurations agree on `A` and `A` contains every temporary
the instruction reads, the results have the same constructor and agree on `A ∪ defs ins`. -/
theorem stepI_sim {A : Nat → Prop} {c1 c2 : Cfg w} (h : Sim A c1 c2) (p : Program w) (limited : Bool)
    (ins : Instr w) (hd : dstOk ins = true) (hu : ∀ t ∈ uses ins, A t) :
    (stepI p limited c1 ins).tag = (stepI p limited c2 ins).tag ∧
    Sim (fun t => A t ∨ t ∈ defs ins) (stepI p limited c1 ins).cfg (stepI p limited c2 ins).cfg := by
  obtain ⟨pc1, t1, b1, s1⟩ := c1
  obtain ⟨pc2, t2, b2, s2⟩ := c2
  have H := h
  obtain ⟨h1, h2, h3, h4⟩ := h
  simp only at h1 h2 h3 h4
  subst h1 h2 h3
  have hw : ∀ {B : Nat → Prop} {x y : Cfg w}, Sim B x y → Sim (fun t => B t ∨ t ∈ ([] : List Nat)) x y :=
    fun hxy => hxy.mono (fun t ht => by simpa using ht)
  have hdst : ∀ d : Loc w, (match d with | .mem _ => true | .tmp _ => true | _ => false) = true →
      isDst d = true := by
    intro d h; cases d <;> simp_all [isDst]
  have hk : ∀ (k : Nat) (s : State w), Sim A ⟨k, t1, b1, s⟩ ⟨k, t2, b1, s⟩ := fun k s => ⟨rfl, rfl, rfl, h4⟩
  cases ins with
  | noop => exact ⟨rfl, hw (hk _ _)⟩
  | mov sh => exact ⟨rfl, hw (hk _ _)⟩
  | scan cond sh =>
    simp only [stepI]
    repeat' split
    all_goals first | exact ⟨rfl, hw (hk _ _)⟩ | exact ⟨rfl, hw ⟨rfl, rfl, rfl, h4⟩⟩
  | inp dst =>
    simp only [stepI]
    split <;> exact ⟨rfl, hw (hk _ _)⟩
  | out src =>
    simp only [stepI]
    split <;> exact ⟨rfl, hw (hk _ _)⟩
  | brz cond off =>
    have := branch_sim H p limited (s1.rd cond == 0#w) off
    exact ⟨this.1, hw this.2⟩
  | brnz cond off =>
    have := branch_sim H p limited (s1.rd cond != 0#w) off
    exact ⟨this.1, hw this.2⟩
  | add d a b =>
    simp only [stepI, arith]
    split
    · exact ⟨rfl, (binopCfg_sim H _ d a b hu).setPc _⟩
    · rename_i hnd; exact absurd (hdst d hd) hnd
  | sub d a b =>
    simp only [stepI, arith]
    split
    · exact ⟨rfl, (binopCfg_sim H _ d a b hu).setPc _⟩
    · rename_i hnd; exact absurd (hdst d hd) hnd
  | mul d a b =>
    simp only [stepI, arith]
    split
    · exact ⟨rfl, (binopCfg_sim H _ d a b hu).setPc _⟩
    · rename_i hnd; exact absurd (hdst d hd) hnd
  | copy d s =>
    simp only [stepI]
    split
    · exact ⟨rfl, (copyCfg_sim H d s hu).setPc _⟩
    · rename_i hnd; exact absurd (hdst d hd) hnd

end C11
end Hpbf
