/-
C02 (`allocate_temps`), part 15: the first phase (`emit_block`) seen from the range table.

* exact descriptions of what `rangeExtend`, `read`, `getValue`, `memWrite` do to the generator state
  (`ExtSpec`, `NewSpec`, `memWrite_spec`) – the existing emission proofs ignore `ranges`, `writes`,
  `outerAccessed`;
* `emitLoopIf` as a sequence of state updates around the body (`emitLoop_ok`, `emitIf_ok`, `emitScan_ok`);
* the induction principle `closed_emitInsts`: a predicate on generator states that is preserved by every
  primitive (`Closed`) holds after `emitInsts`, and the instructions present before are unchanged.
-/
import Hpbf.Proofs.C02EmitGen
import Hpbf.Proofs.C02AllocDse
set_option linter.unusedSimpArgs false
namespace Hpbf
namespace C02
namespace AEmit
open Bc BcWf BcGen C11 C02Emit
variable {w : Nat}

/-- The range entry after a use at position `to` (`inc` = 1 for a counted read). -/
def bump (r : RangeInfo) (to inc : Nat) : RangeInfo :=
  { created := r.created, firstUse := (if r.firstUse.isNone then some to else r.firstUse),
    lastUse := some to, numUses := r.numUses + inc }

theorem extendTo_ok {rs rs' : Array RangeInfo} {v to : Nat} (h : extendTo rs v to = .ok rs') :
    ∃ r, rs[v]? = some r ∧ rs' = rs.setIfInBounds v (bump r to 0) := by
  unfold extendTo at h
  cases hr : rs[v]? with
  | none => simp [hr] at h
  | some r =>
    simp only [hr, Except.ok.injEq] at h
    refine ⟨r, rfl, ?_⟩
    rw [← h]
    congr 1
    unfold bump
    split <;> simp_all

/-- `rangeExtend` / `read`: the entry of `v` is bumped, `v` may be appended to `outerAccessed`. -/
structure ExtSpec (v inc : Nat) (s s' : St w) : Prop where
  entry : ∃ r, s.ranges[v]? = some r ∧ s'.ranges = s.ranges.setIfInBounds v (bump r s.insts.size inc)
  outer : (s'.outerAccessed = s.outerAccessed ∧
      ∃ r, s.ranges[v]? = some r ∧ (s.currentStart ≤ r.created ∨ ∃ L, r.lastUse = some L ∧ s.currentStart ≤ L)) ∨
    (s'.outerAccessed = s.outerAccessed.push v ∧
      ∃ r, s.ranges[v]? = some r ∧ r.created < s.currentStart ∧
        ∀ L, r.lastUse = some L → L < s.currentStart)
  writes : s'.writes = s.writes
  exprs : s'.exprs = s.exprs
  values : s'.values = s.values
  insts : s'.insts = s.insts
  live : s'.live = s.live
  isTarget : s'.isTarget = s.isTarget
  currentStart : s'.currentStart = s.currentStart

theorem rangeExtend_spec {v : Nat} {s s' : St w} {u : Unit} (h : rangeExtend v s = .ok (u, s')) :
    ExtSpec v 0 s s' := by
  unfold rangeExtend at h
  simp only [get_bind] at h
  cases hr : s.ranges[v]? with
  | none => simp only [hr, throw_ok] at h
  | some r =>
    simp only [hr] at h
    have key : ∀ s1 : St w, s1.ranges = s.ranges → s1.insts = s.insts → rangeExtendTo v s.insts.size s1 = .ok (u, s') →
        s'.ranges = s.ranges.setIfInBounds v (bump r s.insts.size 0) ∧ s'.outerAccessed = s1.outerAccessed ∧
        s'.writes = s1.writes ∧ s'.exprs = s1.exprs ∧ s'.values = s1.values ∧ s'.insts = s1.insts ∧
        s'.live = s1.live ∧ s'.isTarget = s1.isTarget ∧ s'.currentStart = s1.currentStart := by
      intro s1 e1 e2 h1
      unfold rangeExtendTo at h1
      cases he : extendTo s1.ranges v s.insts.size with
      | error e => simp [he] at h1
      | ok rs =>
        simp only [he, Except.ok.injEq, Prod.mk.injEq] at h1
        obtain ⟨r', g1, g2⟩ := extendTo_ok he
        rw [e1, hr] at g1; cases g1
        rw [← h1.2]
        exact ⟨by rw [g2, e1], rfl, rfl, rfl, rfl, rfl, rfl, rfl, rfl⟩
    simp only [ite_run, modify_bind] at h
    generalize hcond : (decide (r.created < s.currentStart) &&
      (match r.lastUse with | none => true | some l => decide (l < s.currentStart))) = cond at h
    cases cond with
    | true =>
      simp only [if_true] at h
      obtain ⟨k1, k2, k3, k4, k5, k6, k7, k8, k9⟩ :=
        key { s with outerAccessed := s.outerAccessed.push v } rfl rfl h
      refine ⟨⟨r, hr, k1⟩, Or.inr ⟨k2, r, hr, ?_⟩, k3, k4, k5, k6, k7, k8, k9⟩
      simp only [Bool.and_eq_true, decide_eq_true_eq] at hcond
      refine ⟨hcond.1, ?_⟩
      intro L hL
      have := hcond.2
      rw [hL] at this
      simpa using this
    | false =>
      simp only [Bool.false_eq_true, if_false] at h
      obtain ⟨k1, k2, k3, k4, k5, k6, k7, k8, k9⟩ := key s rfl rfl h
      refine ⟨⟨r, hr, k1⟩, Or.inl ⟨k2, r, hr, ?_⟩, k3, k4, k5, k6, k7, k8, k9⟩
      simp only [Bool.and_eq_false_iff, decide_eq_false_iff_not, Nat.not_lt] at hcond
      rcases hcond with hc | hc
      · exact Or.inl hc
      · cases hL : r.lastUse with
        | none => rw [hL] at hc; cases hc
        | some L =>
          rw [hL] at hc
          simp only [decide_eq_false_iff_not, Nat.not_lt] at hc
          exact Or.inr ⟨L, rfl, hc⟩


theorem read_spec {v : Nat} {s s' : St w} {u : Unit} (h : BcGen.read v s = .ok (u, s')) : ExtSpec v 1 s s' := by
  unfold BcGen.read at h
  simp only [bind_ok, modify_ok] at h
  obtain ⟨_, s1, h1, rfl⟩ := h
  have E := rangeExtend_spec h1
  obtain ⟨r, hr, hrs⟩ := E.entry
  have hlt : v < s.ranges.size := Alloc.lt_of_getElem? hr
  have h1v : s1.ranges[v]? = some (bump r s.insts.size 0) := by
    rw [hrs, Array.getElem?_setIfInBounds]; simp [hlt]
  simp only [h1v]
  refine ⟨⟨r, hr, ?_⟩, E.outer, E.writes, E.exprs, E.values, E.insts, E.live, E.isTarget, E.currentStart⟩
  show s1.ranges.setIfInBounds v _ = _
  rw [hrs, Array.setIfInBounds_setIfInBounds]
  rfl

/-- The instruction that defines value `v` of expression `e`. -/
def instOf (e : GvnExpr w) (v : Nat) : Instr w :=
  match e with
  | .imm c => .copy (.tmp v) (.imm c)
  | .mem m => .copy (.tmp v) (.mem m)
  | .add a b => .add (.tmp v) (.tmp a) (.tmp b)
  | .sub a b => .sub (.tmp v) (.tmp a) (.tmp b)
  | .mul a b => .mul (.tmp v) (.tmp a) (.tmp b)

/-- The operands of an expression. -/
def opsOf : GvnExpr w → List Nat
  | .add a b => [a, b]
  | .sub a b => [a, b]
  | .mul a b => [a, b]
  | _ => []

/-- The reads performed for the operands. -/
def ReadsSpec : List Nat → St w → St w → Prop
  | [], s, s' => s' = s
  | a :: rest, s, s' => ∃ s1, ExtSpec a 1 s s1 ∧ ReadsSpec rest s1 s'

/-- A new value number: fresh range entry, reads of the operands, the defining instruction. -/
structure NewSpec (e : GvnExpr w) (s : St w) (s' : St w) : Prop where
  miss : alGet s.values e = none
  reads : ∃ s2, ReadsSpec (opsOf e)
      { s with ranges := s.ranges.push { created := s.insts.size, firstUse := none, lastUse := none, numUses := 0 },
               exprs := s.exprs.push e } s2 ∧
    s' = { s2 with insts := s2.insts.push (instOf e s.ranges.size), values := alSet s2.values e s.ranges.size }

theorem getValue_spec {e : GvnExpr w} {s s' : St w} {v : Nat} (h : getValue e s = .ok (v, s')) :
    (alGet s.values e = some v ∧ s' = s) ∨ (v = s.ranges.size ∧ NewSpec e s s') := by
  unfold getValue at h
  simp only [get_bind] at h
  cases hg : alGet s.values e with
  | some v0 =>
    simp only [hg, pure_ok] at h
    exact Or.inl ⟨by rw [h.1], h.2⟩
  | none =>
    simp only [hg, set_bind] at h
    right
    cases e with
    | imm c =>
      simp only [pure_bind', modify_bind, pure_ok] at h
      obtain ⟨rfl, rfl⟩ := h
      exact ⟨rfl, hg, _, rfl, rfl⟩
    | mem m =>
      simp only [pure_bind', modify_bind, pure_ok] at h
      obtain ⟨rfl, rfl⟩ := h
      exact ⟨rfl, hg, _, rfl, rfl⟩
    | add a b =>
      rw [bind_ok] at h
      obtain ⟨_, s1, h1, h⟩ := h
      rw [bind_ok] at h
      obtain ⟨_, s2, h2, h⟩ := h
      simp only [modify_bind, pure_ok] at h
      obtain ⟨rfl, rfl⟩ := h
      exact ⟨rfl, hg, s2, ⟨s1, read_spec h1, s2, read_spec h2, rfl⟩, rfl⟩
    | sub a b =>
      rw [bind_ok] at h
      obtain ⟨_, s1, h1, h⟩ := h
      rw [bind_ok] at h
      obtain ⟨_, s2, h2, h⟩ := h
      simp only [modify_bind, pure_ok] at h
      obtain ⟨rfl, rfl⟩ := h
      exact ⟨rfl, hg, s2, ⟨s1, read_spec h1, s2, read_spec h2, rfl⟩, rfl⟩
    | mul a b =>
      rw [bind_ok] at h
      obtain ⟨_, s1, h1, h⟩ := h
      rw [bind_ok] at h
      obtain ⟨_, s2, h2, h⟩ := h
      simp only [modify_bind, pure_ok] at h
      obtain ⟨rfl, rfl⟩ := h
      exact ⟨rfl, hg, s2, ⟨s1, read_spec h1, s2, read_spec h2, rfl⟩, rfl⟩

theorem memWrite_spec {var : Int} {value : Nat} {s s' : St w} {u : Unit}
    (h : memWrite var value s = .ok (u, s')) :
    ∃ s1, ExtSpec value 1 s s1 ∧
      s' = { s1 with writes := addWrite s1.writes var s1.insts.size,
                     values := alSet s1.values (.mem var) value,
                     insts := s1.insts.push (.copy (.mem var) (.tmp value)) } := by
  unfold memWrite at h
  simp only [bind_ok, modify_ok] at h
  obtain ⟨_, s1, h1, rfl⟩ := h
  exact ⟨s1, read_spec h1, rfl⟩



/-! ### `emitLoopIf` as a sequence of state updates -/

def lhHead (isLoop : Bool) (sub : Analysis) (s : St w) : St w :=
  if isLoop then
    (if sub.hasShift then { s with values := [] } else { s with values := removeMems s.values sub.writes })
  else s

def lhPro (isLoop once : Bool) (s : St w) : St w :=
  let s1 : St w := if once then s else { s with insts := s.insts.push .noop }
  if isLoop then { s1 with currentStart := s1.insts.size } else s1

def lhMov (shift : Int) (s : St w) : St w :=
  if shift = 0 then s else { s with insts := s.insts.push (.mov shift) }

def lhBrnz (cond : Int) (start : Nat) (s : St w) : St w :=
  { s with insts := s.insts.push (.brnz cond ((start : Int) - (s.insts.size : Int))) }

def lhPatch (cond : Int) (start : Nat) (s : St w) : St w :=
  { s with insts := s.insts.setIfInBounds (start - 1) (.brz cond ((s.insts.size : Int) - ((start - 1 : Nat) : Int))) }

def lhExit (once : Bool) (sub : Analysis) (prevExprs : Nat) (s : St w) : St w :=
  if sub.hasShift then { s with values := [] }
  else if once then s
  else { s with values := (s.exprs.toList.drop prevExprs).foldl (fun vs e => alErase vs e)
                            (removeMems s.values sub.writes) }


theorem emitLoop_ok {fuse : Bool} {ps : Nat} {once : Bool} {cond shift : Int} {be : Bool}
    {sub : Analysis} {eb : Nat → M w Unit} {s s' : St w} {u : Unit}
    (hf : (!fuse || false || !be) = true)
    (h : emitLoopIf fuse ps true once cond shift be sub eb s = .ok (u, s')) :
    ∃ (sb so : St w) (u1 u2 : Unit) (fuel : Nat),
      eb (lhPro true once (lhHead true sub s)).currentStart (lhPro true once (lhHead true sub s)) = .ok (u1, sb) ∧
      outerLoop ps fuel s.outerAccessed.size (lhMov shift sb) = .ok (u2, so) ∧
      (once = false → (lhPro true once (lhHead true sub s)).insts.size ≠ 0 ∧
        (lhPro true once (lhHead true sub s)).insts.size - 1 < so.insts.size + 1) ∧
      s' = lhExit once sub s.exprs.size
        { (if once then lhBrnz cond (lhPro true once (lhHead true sub s)).insts.size so
            else lhPatch cond (lhPro true once (lhHead true sub s)).insts.size
              (lhBrnz cond (lhPro true once (lhHead true sub s)).insts.size so))
          with currentStart := ps } := by
  unfold emitLoopIf at h
  cases once <;> cases hsh : sub.hasShift <;> by_cases hs0 : shift = 0
  all_goals
    first
      | have hs0' : (shift != 0) = false := by simp [hs0]
      | have hs0' : (shift != 0) = true := by simp [hs0]
    simp only [hsh, hs0', Bool.not_true, Bool.not_false, hf, ↓reduceIte, Bool.false_eq_true] at h
    simp only [get_bind, modify_bind, pushInst_bind] at h
    rw [bind_ok] at h
    obtain ⟨u1, sb, hb, h⟩ := h
    try simp only [get_bind, modify_bind, pushInst_bind] at h
    rw [bind_ok] at h
    obtain ⟨u2, so, ho, h⟩ := h
    simp only [get_bind, modify_bind, pushInst_bind, ite_run, throw_bind, ite_error_ok, set_bind,
      modify_ok] at h
    refine ⟨sb, so, u1, u2, sb.outerAccessed.size + sb.ranges.size + 1, ?_, ?_, ?_, ?_⟩
    · simpa [lhPro, lhHead, hsh] using hb
    · simpa [lhMov, hs0, lhHead, hsh] using ho
    · intro hc
      first
        | (exact absurd hc (by decide))
        | (simp only [lhPro, lhHead, hsh, Array.size_push, ite_true, ite_false, Bool.false_eq_true] at h ⊢
           exact ⟨by omega, by omega⟩)
    · first
        | (obtain ⟨-, -, rfl⟩ := h
           simp [lhExit, lhPatch, lhBrnz, lhPro, lhHead, hsh])
        | (subst h
           simp [lhExit, lhPatch, lhBrnz, lhPro, lhHead, hsh])


theorem emitIf_ok {fuse : Bool} {ps : Nat} {cond shift : Int} {be : Bool}
    {sub : Analysis} {eb : Nat → M w Unit} {s s' : St w} {u : Unit}
    (h : emitLoopIf fuse ps false false cond shift be sub eb s = .ok (u, s')) :
    ∃ (sb : St w) (u1 : Unit),
      eb (lhPro false false s).currentStart (lhPro false false s) = .ok (u1, sb) ∧
      ((lhPro false false s).insts.size ≠ 0 ∧ (lhPro false false s).insts.size - 1 < (lhMov shift sb).insts.size) ∧
      s' = lhExit false sub s.exprs.size
        { lhPatch cond (lhPro false false s).insts.size (lhMov shift sb) with currentStart := ps } := by
  unfold emitLoopIf at h
  have hf : (!fuse || true || !be) = true := by cases fuse <;> cases be <;> rfl
  cases hsh : sub.hasShift <;> by_cases hs0 : shift = 0
  all_goals
    first
      | have hs0' : (shift != 0) = false := by simp [hs0]
      | have hs0' : (shift != 0) = true := by simp [hs0]
    simp only [hsh, hs0', Bool.not_true, Bool.not_false, hf, ↓reduceIte, Bool.false_eq_true] at h
    simp only [get_bind, modify_bind, pushInst_bind] at h
    rw [bind_ok] at h
    obtain ⟨u1, sb, hb, h⟩ := h
    try simp only [get_bind, modify_bind, pushInst_bind] at h
    simp only [get_bind, modify_bind, pushInst_bind, ite_run, throw_bind, ite_error_ok, set_bind,
      modify_ok] at h
    refine ⟨sb, u1, ?_, ?_, ?_⟩
    · simpa [lhPro] using hb
    · simp only [lhPro, lhMov, hs0, Array.size_push, ite_true, ite_false, Bool.false_eq_true] at h ⊢
      exact ⟨by omega, by omega⟩
    · obtain ⟨-, -, rfl⟩ := h
      simp [lhExit, lhPatch, lhMov, lhPro, hsh, hs0]

theorem emitScan_ok {fuse : Bool} {ps : Nat} {once : Bool} {cond shift : Int} {be : Bool}
    {sub : Analysis} {eb : Nat → M w Unit} {s s' : St w} {u : Unit}
    (hf : (!fuse || false || !be) = false)
    (h : emitLoopIf fuse ps true once cond shift be sub eb s = .ok (u, s')) :
    s' = lhExit once sub s.exprs.size
      { lhHead true sub s with insts := (lhHead true sub s).insts.push (.scan cond shift) } := by
  unfold emitLoopIf at h
  cases once <;> cases hsh : sub.hasShift
  all_goals
    simp only [hsh, Bool.not_true, Bool.not_false, hf, ↓reduceIte, Bool.false_eq_true] at h
    simp only [get_bind, modify_bind, pushInst_bind, modify_ok, pure_ok] at h
    first
      | (subst h; simp [lhExit, lhHead, hsh])
      | (obtain ⟨-, rfl⟩ := h; simp [lhExit, lhHead, hsh])


/-! ### the size of the range table -/

theorem extSpec_size {v inc : Nat} {s s' : St w} (E : ExtSpec v inc s s') : s'.ranges.size = s.ranges.size := by
  obtain ⟨r, _, h⟩ := E.entry
  rw [h]; simp

theorem readsSpec_size : ∀ (l : List Nat) {s s' : St w}, ReadsSpec l s s' → s'.ranges.size = s.ranges.size
  | [], s, s', h => by rw [h]
  | a :: rest, s, s', ⟨s1, h1, h2⟩ => by rw [readsSpec_size rest h2, extSpec_size h1]

theorem getValue_size {e : GvnExpr w} {s s' : St w} {v : Nat} (h : getValue e s = .ok (v, s')) :
    s.ranges.size ≤ s'.ranges.size := by
  rcases getValue_spec h with ⟨_, rfl⟩ | ⟨_, N⟩
  · exact Nat.le_refl _
  · obtain ⟨s2, h2, rfl⟩ := N.reads
    have := readsSpec_size _ h2
    simp only [Array.size_push] at this ⊢
    omega

theorem memWrite_size {var : Int} {x : Nat} {s s' : St w} {u : Unit} (h : memWrite var x s = .ok (u, s')) :
    s'.ranges.size = s.ranges.size := by
  obtain ⟨s1, h1, rfl⟩ := memWrite_spec h
  show s1.ranges.size = _
  exact extSpec_size h1

/-! ### predicates preserved by `getValue` and `memWrite` are preserved by the expression code generator

`getValue` is only called with operands that are value numbers (`< ranges.size`), and returns one. -/

section codegen
variable {K : St w → Prop}
  (hg : ∀ (e : GvnExpr w) (s : St w) (v : Nat) (s' : St w), K s → (∀ a ∈ opsOf e, a < s.ranges.size) →
    getValue e s = .ok (v, s') → K s' ∧ v < s'.ranges.size)
  (hm : ∀ (var : Int) (x : Nat) (s s' : St w) (u : Unit), K s → x < s.ranges.size →
    memWrite var x s = .ok (u, s') → K s')
include hg

theorem gv_step {e : GvnExpr w} {s s' : St w} {v : Nat} (hk : K s) (ho : ∀ a ∈ opsOf e, a < s.ranges.size)
    (h : getValue e s = .ok (v, s')) : K s' ∧ v < s'.ranges.size ∧ s.ranges.size ≤ s'.ranges.size :=
  ⟨(hg e s v s' hk ho h).1, (hg e s v s' hk ho h).2, getValue_size h⟩

theorem codegenVars_pres : ∀ (vs : List Int) (result : Nat) {s s' : St w} {r : Nat},
    codegenVars result vs s = .ok (r, s') → K s → result < s.ranges.size →
    K s' ∧ r < s'.ranges.size ∧ s.ranges.size ≤ s'.ranges.size
  | [], result, s, s', r, h, hk, hr => by
    simp only [codegenVars, pure_ok] at h
    rw [h.1, h.2]; exact ⟨hk, hr, Nat.le_refl _⟩
  | v :: vs, result, s, s', r, h, hk, hr => by
    simp only [codegenVars, bind_ok] at h
    obtain ⟨m, s1, h1, r1, s2, h2, h3⟩ := h
    obtain ⟨k1, v1, z1⟩ := gv_step hg hk (by simp [opsOf]) h1
    obtain ⟨k2, v2, z2⟩ := gv_step hg k1 (by
      intro a ha
      simp only [opsOf, List.mem_cons, List.not_mem_nil, or_false] at ha
      rcases ha with rfl | rfl
      · omega
      · exact v1) h2
    obtain ⟨k3, v3, z3⟩ := codegenVars_pres vs r1 h3 k2 v2
    exact ⟨k3, v3, by omega⟩

theorem codegenPart_pres (var : Int) (p : Part w) {s s' : St w} {r : Nat}
    (h : codegenPart var p s = .ok (r, s')) (hk : K s) :
    K s' ∧ r < s'.ranges.size ∧ s.ranges.size ≤ s'.ranges.size := by
  unfold codegenPart at h
  generalize Expr.stableSort (fun a b => decide (ordering var a ≤ ordering var b)) p.vars = sorted at h
  cases sorted with
  | nil => exact gv_step hg hk (by simp [opsOf]) h
  | cons v0 vs =>
    simp only [bind_ok] at h
    obtain ⟨r0, s1, h1, r1, s2, h2, h3⟩ := h
    obtain ⟨k1, v1, z1⟩ := gv_step hg hk (by simp [opsOf]) h1
    obtain ⟨k2, v2, z2⟩ := codegenVars_pres hg _ _ h2 k1 v1
    split at h3
    · rw [pure_ok] at h3; rw [h3.1, h3.2]; exact ⟨k2, v2, by omega⟩
    · simp only [bind_ok] at h3
      obtain ⟨i, s3, h4, h5⟩ := h3
      obtain ⟨k3, v3, z3⟩ := gv_step hg k2 (by simp [opsOf]) h4
      obtain ⟨k4, v4, z4⟩ := gv_step hg k3 (by
        intro a ha
        simp only [opsOf, List.mem_cons, List.not_mem_nil, or_false] at ha
        rcases ha with rfl | rfl
        · omega
        · exact v3) h5
      exact ⟨k4, v4, by omega⟩

theorem codegenRest_pres (var : Int) : ∀ (ps : List (Part w)) (result : Nat) {s s' : St w} {r : Nat},
    codegenRest var result ps s = .ok (r, s') → K s → result < s.ranges.size →
    K s' ∧ r < s'.ranges.size ∧ s.ranges.size ≤ s'.ranges.size
  | [], result, s, s', r, h, hk, hr => by
    simp only [codegenRest, pure_ok] at h
    rw [h.1, h.2]; exact ⟨hk, hr, Nat.le_refl _⟩
  | p :: ps, result, s, s', r, h, hk, hr => by
    simp only [codegenRest, bind_ok] at h
    obtain ⟨pr, s1, h1, h⟩ := h
    obtain ⟨k1, v1, z1⟩ := codegenPart_pres hg var p h1 hk
    have hops : ∀ a, (a = result ∨ a = pr) → a < s1.ranges.size := by
      rintro a (rfl | rfl)
      · omega
      · exact v1
    cases hn : isNegVar p with
    | true =>
      simp only [hn, if_true, bind_ok] at h
      obtain ⟨r1, s2, h2, h3⟩ := h
      obtain ⟨k2, v2, z2⟩ := gv_step hg k1 (by
        intro a ha; simp only [opsOf, List.mem_cons, List.not_mem_nil, or_false] at ha; exact hops a ha) h2
      obtain ⟨k3, v3, z3⟩ := codegenRest_pres var ps r1 h3 k2 v2
      exact ⟨k3, v3, by omega⟩
    | false =>
      simp only [hn, Bool.false_eq_true, if_false, bind_ok] at h
      obtain ⟨r1, s2, h2, h3⟩ := h
      obtain ⟨k2, v2, z2⟩ := gv_step hg k1 (by
        intro a ha; simp only [opsOf, List.mem_cons, List.not_mem_nil, or_false] at ha; exact hops a ha) h2
      obtain ⟨k3, v3, z3⟩ := codegenRest_pres var ps r1 h3 k2 v2
      exact ⟨k3, v3, by omega⟩

theorem getExprValue_pres (e : Expr w) (var : Int) {s s' : St w} {r : Nat}
    (h : getExprValue e var s = .ok (r, s')) (hk : K s) :
    K s' ∧ r < s'.ranges.size ∧ s.ranges.size ≤ s'.ranges.size := by
  unfold getExprValue at h
  generalize orderParts var e = parts at h
  cases parts with
  | nil => exact gv_step hg hk (by simp [opsOf]) h
  | cons p0 ps =>
    simp only [bind_ok] at h
    obtain ⟨r0, s1, h1, h⟩ := h
    obtain ⟨k1, v1, z1⟩ := codegenPart_pres hg var p0 h1 hk
    cases hn : isNegVar p0 with
    | true =>
      simp only [hn, if_true, bind_ok] at h
      obtain ⟨z, s3, h4, r1, s2, h5, h3⟩ := h
      obtain ⟨k2, v2, z2⟩ := gv_step hg k1 (by simp [opsOf]) h4
      obtain ⟨k3, v3, z3⟩ := gv_step hg k2 (by
        intro a ha
        simp only [opsOf, List.mem_cons, List.not_mem_nil, or_false] at ha
        rcases ha with rfl | rfl
        · exact v2
        · omega) h5
      obtain ⟨k4, v4, z4⟩ := codegenRest_pres hg var ps r1 h3 k3 v3
      exact ⟨k4, v4, by omega⟩
    | false =>
      simp only [hn, Bool.false_eq_true, if_false, pure_bind'] at h
      obtain ⟨k4, v4, z4⟩ := codegenRest_pres hg var ps r0 h k1 v1
      exact ⟨k4, v4, by omega⟩

theorem calcValues_pres : ∀ (calcs : List (Int × Expr w)) {s s' : St w} {vals : List (Int × Nat)},
    calcValues calcs s = .ok (vals, s') → K s →
    K s' ∧ (∀ p ∈ vals, p.2 < s'.ranges.size) ∧ s.ranges.size ≤ s'.ranges.size
  | [], s, s', vals, h, hk => by
    simp only [calcValues, pure_ok] at h
    rw [h.1, h.2]; exact ⟨hk, (fun p hp => by cases hp), Nat.le_refl _⟩
  | (v, e) :: rest, s, s', vals, h, hk => by
    simp only [calcValues, bind_ok, pure_ok] at h
    obtain ⟨x, s1, h1, r, s2, h2, rfl, rfl⟩ := h
    obtain ⟨k1, v1, z1⟩ := getExprValue_pres hg e v h1 hk
    obtain ⟨k2, v2, z2⟩ := calcValues_pres rest h2 k1
    refine ⟨k2, ?_, by omega⟩
    intro p hp
    simp only [List.mem_cons] at hp
    rcases hp with rfl | hp
    · simp only; omega
    · exact v2 p hp

omit hg in
include hm in
theorem memWrites_pres : ∀ (vals : List (Int × Nat)) {s s' : St w} {u : Unit},
    memWrites vals s = .ok (u, s') → K s → (∀ p ∈ vals, p.2 < s.ranges.size) → K s'
  | [], s, s', u, h, hk, _ => by
    simp only [memWrites, pure_ok] at h
    rw [h.2]; exact hk
  | (v, x) :: rest, s, s', u, h, hk, hv => by
    simp only [memWrites, bind_ok] at h
    obtain ⟨_, s1, h1, h2⟩ := h
    have k1 := hm _ _ _ _ _ hk (hv (v, x) List.mem_cons_self) h1
    refine memWrites_pres rest h2 k1 ?_
    intro p hp
    rw [memWrite_size h1]
    exact hv p (List.mem_cons_of_mem _ hp)

end codegen

/-! ### predicates preserved by all primitives of `emit_block` -/

/-- Control instructions pushed by `emit_block` itself (no temporaries, no stores). -/
def isCtl : Instr w → Bool
  | .noop => true
  | .mov _ => true
  | .brnz _ _ => true
  | .scan _ _ => true
  | .out _ => true
  | _ => false

structure Closed (J : St w → Prop) : Prop where
  values : ∀ (s : St w) (vs : List (GvnExpr w × Nat)), J s → (∀ p ∈ vs, p ∈ s.values) → J { s with values := vs }
  start : ∀ (s : St w) (c : Nat), J s → J { s with currentStart := c }
  push : ∀ (s : St w) (x : Instr w), J s → isCtl x = true → J { s with insts := s.insts.push x }
  inp : ∀ (s : St w) (d : Int), J s →
    J { s with writes := addWrite s.writes d s.insts.size, insts := s.insts.push (.inp d) }
  patch : ∀ (s : St w) (i : Nat) (c off : Int), J s → s.insts[i]? = some .noop →
    J { s with insts := s.insts.setIfInBounds i (.brz c off) }
  outer : ∀ (ps fuel i : Nat) (s s' : St w) (u : Unit), J s → outerLoop ps fuel i s = .ok (u, s') → J s'
  getValue : ∀ (e : GvnExpr w) (s : St w) (v : Nat) (s' : St w), J s → (∀ a ∈ opsOf e, a < s.ranges.size) →
    getValue e s = .ok (v, s') → J s' ∧ v < s'.ranges.size
  memWrite : ∀ (var : Int) (x : Nat) (s s' : St w) (u : Unit), J s → x < s.ranges.size →
    memWrite var x s = .ok (u, s') → J s'

theorem readsSpec_insts : ∀ (l : List Nat) {s s' : St w}, ReadsSpec l s s' → s'.insts = s.insts
  | [], s, s', h => by rw [h]
  | a :: rest, s, s', ⟨s1, h1, h2⟩ => by rw [readsSpec_insts rest h2, h1.insts]

theorem getValue_pre {e : GvnExpr w} {s s' : St w} {v : Nat} (h : getValue e s = .ok (v, s')) :
    Pre s.insts s'.insts := by
  rcases getValue_spec h with ⟨_, rfl⟩ | ⟨_, N⟩
  · exact Pre.refl _
  · obtain ⟨s2, h2, rfl⟩ := N.reads
    have := readsSpec_insts _ h2
    simp only at this ⊢
    rw [this]
    exact Pre.push _ _

theorem memWrite_pre {var : Int} {x : Nat} {s s' : St w} {u : Unit} (h : memWrite var x s = .ok (u, s')) :
    Pre s.insts s'.insts := by
  obtain ⟨s1, h1, rfl⟩ := memWrite_spec h
  simp only
  rw [h1.insts]
  exact Pre.push _ _

theorem mem_alErase {κ ν : Type} [DecidableEq κ] {l : List (κ × ν)} {k : κ} {p : κ × ν}
    (h : p ∈ alErase l k) : p ∈ l := by
  induction l with
  | nil => exact h
  | cons q rest ih =>
    obtain ⟨k0, v0⟩ := q
    simp only [alErase] at h
    split at h
    · exact List.mem_cons_of_mem _ h
    · rcases List.mem_cons.1 h with e | e
      · rw [e]; exact List.mem_cons_self
      · exact List.mem_cons_of_mem _ (ih e)

theorem mem_removeMems {V : List (GvnExpr w × Nat)} {vars : List Int} {p : GvnExpr w × Nat}
    (h : p ∈ removeMems V vars) : p ∈ V := by
  unfold removeMems at h
  induction vars generalizing V with
  | nil => exact h
  | cons v vs ih => exact mem_alErase (ih h)

theorem mem_foldl_alErase {V : List (GvnExpr w × Nat)} {es : List (GvnExpr w)} {p : GvnExpr w × Nat}
    (h : p ∈ es.foldl (fun vs e => alErase vs e) V) : p ∈ V := by
  induction es generalizing V with
  | nil => exact h
  | cons e es ih => exact mem_alErase (ih h)

theorem lhHead_J {J : St w → Prop} (C : Closed J) (isLoop : Bool) (sub : Analysis) {s : St w} (h : J s) :
    J (lhHead isLoop sub s) := by
  unfold lhHead
  split
  · split
    · exact C.values _ _ h (fun p hp => by cases hp)
    · exact C.values _ _ h (fun p hp => mem_removeMems hp)
  · exact h

theorem lhExit_J {J : St w → Prop} (C : Closed J) (once : Bool) (sub : Analysis) (pe : Nat) {s : St w} (h : J s) :
    J (lhExit once sub pe s) := by
  unfold lhExit
  split
  · exact C.values _ _ h (fun p hp => by cases hp)
  · split
    · exact h
    · exact C.values _ _ h (fun p hp => mem_removeMems (mem_foldl_alErase hp))

theorem lhHead_insts (isLoop : Bool) (sub : Analysis) (s : St w) : (lhHead isLoop sub s).insts = s.insts := by
  unfold lhHead; split <;> (try split) <;> rfl
theorem lhExit_insts (once : Bool) (sub : Analysis) (pe : Nat) (s : St w) :
    (lhExit once sub pe s).insts = s.insts := by
  unfold lhExit; split <;> (try split) <;> rfl

theorem pre_setIfInBounds {α : Type} {a b : Array α} (h : Pre a b) {i : Nat} (hi : a.size ≤ i) (x : α) :
    Pre a (b.setIfInBounds i x) := by
  refine ⟨by simpa using h.1, ?_⟩
  intro j hj
  rw [Array.getElem?_setIfInBounds]
  have : ¬ i = j := fun e => by omega
  simp only [this, false_and, if_false]
  exact h.2 j hj

theorem closed_emitInsts {J : St w → Prop} (C : Closed J) (fuse : Bool) : ∀ (n : Nat) (l : List (Ir.Instr w)),
    iszL l ≤ n → ∀ (ps : Nat) (s s' : St w) (u : Unit),
    emitInsts fuse ps l (subsOf l) s = .ok (u, s') → J s → J s' ∧ Pre s.insts s'.insts := by
  intro n
  induction n with
  | zero =>
    intro l hl ps s s' u h hJ
    cases l with
    | nil =>
      simp only [emitInsts, pure_ok] at h
      rw [h.2]; exact ⟨hJ, Pre.refl _⟩
    | cons i rest => cases i <;> simp [iszL, isz] at hl <;> omega
  | succ n ih =>
    intro l hl ps s s' u h hJ
    cases l with
    | nil =>
      simp only [emitInsts, pure_ok] at h
      rw [h.2]; exact ⟨hJ, Pre.refl _⟩
    | cons i rest =>
      rw [emitInsts, bind_ok] at h
      obtain ⟨an', s1, h1, h2⟩ := h
      -- it suffices to treat the first instruction
      suffices hfirst : (J s1 ∧ Pre s.insts s1.insts) ∧ an' = subsOf rest ∧ iszL rest ≤ n by
        obtain ⟨⟨k1, p1⟩, rfl, hle⟩ := hfirst
        obtain ⟨k2, p2⟩ := ih rest hle ps _ _ _ h2 k1
        exact ⟨k2, p1.trans p2⟩
      cases i with
      | output src =>
        simp only [emitInstr, bind_ok, pushInst_ok, pure_ok] at h1
        obtain ⟨_, s2, rfl, rfl, rfl⟩ := h1
        simp only [iszL, isz] at hl
        exact ⟨⟨C.push _ _ hJ rfl, Pre.push _ _⟩, rfl, by omega⟩
      | input dst =>
        simp only [emitInstr, bind_ok, modify_ok, pure_ok] at h1
        obtain ⟨_, s2, rfl, rfl, rfl⟩ := h1
        simp only [iszL, isz] at hl
        exact ⟨⟨C.values _ _ (C.inp _ dst hJ) (fun p hp => mem_alErase hp), Pre.push _ _⟩, rfl, by omega⟩
      | «calc» calcs =>
        simp only [emitInstr, bind_ok, pure_ok] at h1
        obtain ⟨vals, s2, hc, _, s3, hm, rfl, rfl⟩ := h1
        simp only [iszL, isz] at hl
        have hg : ∀ (e : GvnExpr w) (a : St w) (v : Nat) (a' : St w), (J a ∧ Pre s.insts a.insts) →
            (∀ o ∈ opsOf e, o < a.ranges.size) →
            getValue e a = .ok (v, a') → (J a' ∧ Pre s.insts a'.insts) ∧ v < a'.ranges.size :=
          fun e a v a' hk ho hh => ⟨⟨(C.getValue e a v a' hk.1 ho hh).1, hk.2.trans (getValue_pre hh)⟩,
            (C.getValue e a v a' hk.1 ho hh).2⟩
        have hm' : ∀ (var : Int) (x : Nat) (a a' : St w) (u : Unit), (J a ∧ Pre s.insts a.insts) →
            x < a.ranges.size → memWrite var x a = .ok (u, a') → (J a' ∧ Pre s.insts a'.insts) :=
          fun var x a a' u hk hx hh => ⟨C.memWrite var x a a' u hk.1 hx hh, hk.2.trans (memWrite_pre hh)⟩
        obtain ⟨k2, v2, _⟩ := calcValues_pres hg calcs hc ⟨hJ, Pre.refl _⟩
        exact ⟨memWrites_pres hm' vals hm k2 v2, rfl, by omega⟩
      | loop cond shift body once =>
        simp only [subsOf, emitInstr, bind_ok, pure_ok] at h1
        obtain ⟨_, s2, hl1, rfl, rfl⟩ := h1
        simp only [iszL, isz] at hl
        rw [subOf_subAnal] at hl1
        refine ⟨?_, rfl, by omega⟩
        cases hf : (fuse && body.isEmpty) with
        | false =>
          have hf' : (!fuse || false || !body.isEmpty) = true := by
            cases fuse <;> cases hb : body.isEmpty <;> simp_all
          obtain ⟨sb, so, u1, u2, fuel, e1, e2, e3, e4⟩ := emitLoop_ok hf' hl1
          have j0 := lhHead_J C true (subOf shift body) hJ
          have j1 : J (lhPro true once (lhHead true (subOf shift body) s)) := by
            unfold lhPro
            cases once
            · exact C.start _ _ (C.push _ _ j0 rfl)
            · exact C.start _ _ j0
          have p1 : Pre s.insts (lhPro true once (lhHead true (subOf shift body) s)).insts := by
            unfold lhPro
            cases once
            · simp only [Bool.false_eq_true, if_false, if_true, lhHead_insts]; exact Pre.push _ _
            · simp only [if_true, lhHead_insts]; exact Pre.refl _
          obtain ⟨jb, pb⟩ := ih body (by omega) _ _ _ _ e1 j1
          have jm : J (lhMov shift sb) := by
            unfold lhMov; split
            · exact jb
            · exact C.push _ _ jb rfl
          have pm : Pre sb.insts (lhMov shift sb).insts := by
            unfold lhMov; split
            · exact Pre.refl _
            · exact Pre.push _ _
          have jo := C.outer _ _ _ _ _ _ jm e2
          have po : so.insts = (lhMov shift sb).insts := by
            have := (outerLoop_core _ _ _ e2).1
            exact congrArg G.insts this
          have jz : J (lhBrnz cond (lhPro true once (lhHead true (subOf shift body) s)).insts.size so) :=
            C.push _ _ jo rfl
          have pz : Pre s.insts (lhBrnz cond (lhPro true once (lhHead true (subOf shift body) s)).insts.size so).insts := by
            refine ((p1.trans pb).trans pm).trans ?_
            show Pre _ (so.insts.push _)
            rw [po]; exact Pre.push _ _
          rw [e4]
          cases once with
          | true =>
            simp only [if_true]
            exact ⟨lhExit_J C _ _ _ (C.start _ _ jz), by rw [lhExit_insts]; exact pz⟩
          | false =>
            simp only [Bool.false_eq_true, if_false]
            obtain ⟨g1, g2⟩ := e3 rfl
            -- the placeholder is still there
            have hnoop : (lhBrnz cond (lhPro true false (lhHead true (subOf shift body) s)).insts.size so).insts[
                (lhPro true false (lhHead true (subOf shift body) s)).insts.size - 1]? = some .noop := by
              have pp : Pre (lhPro true false (lhHead true (subOf shift body) s)).insts
                  (lhBrnz cond (lhPro true false (lhHead true (subOf shift body) s)).insts.size so).insts := by
                refine (pb.trans pm).trans ?_
                show Pre _ (so.insts.push _)
                rw [po]; exact Pre.push _ _
              rw [pp.2 _ (by omega)]
              simp [lhPro, lhHead_insts]
            refine ⟨lhExit_J C _ _ _ (C.start _ _ (C.patch _ _ _ _ jz hnoop)), ?_⟩
            rw [lhExit_insts]
            show Pre s.insts (Array.setIfInBounds _ _ _)
            refine pre_setIfInBounds pz ?_ _
            simp [lhPro, lhHead_insts]
        | true =>
          have hfu : fuse = true := by cases fuse <;> simp_all
          have hbe : body = [] := by
            cases body with
            | nil => rfl
            | cons _ _ => simp [hfu] at hf
          subst hbe
          have hf' : (!fuse || false || !([] : List (Ir.Instr w)).isEmpty) = false := by simp [hfu]
          have hc := emitScan_ok hf' hl1
          rw [hc]
          refine ⟨lhExit_J C _ _ _ (C.push _ _ (lhHead_J C true _ hJ) rfl), ?_⟩
          rw [lhExit_insts]
          show Pre s.insts (Array.push _ _)
          rw [lhHead_insts]; exact Pre.push _ _
      | ifnz cond shift body =>
        simp only [subsOf, emitInstr, bind_ok, pure_ok] at h1
        obtain ⟨_, s2, hl1, rfl, rfl⟩ := h1
        simp only [iszL, isz] at hl
        rw [subOf_subAnal] at hl1
        refine ⟨?_, rfl, by omega⟩
        obtain ⟨sb, u1, e1, ⟨g1, g2⟩, e4⟩ := emitIf_ok hl1
        have j1 : J (lhPro false false s) := by
          unfold lhPro
          exact C.push _ _ hJ rfl
        have p1 : Pre s.insts (lhPro false false s).insts := by
          unfold lhPro
          exact Pre.push _ _
        obtain ⟨jb, pb⟩ := ih body (by omega) _ _ _ _ e1 j1
        have jm : J (lhMov shift sb) := by
          unfold lhMov; split
          · exact jb
          · exact C.push _ _ jb rfl
        have pm : Pre sb.insts (lhMov shift sb).insts := by
          unfold lhMov; split
          · exact Pre.refl _
          · exact Pre.push _ _
        have hnoop : (lhMov shift sb).insts[(lhPro false false s).insts.size - 1]? = some .noop := by
          rw [(pb.trans pm).2 _ (by omega)]
          simp [lhPro]
        rw [e4]
        refine ⟨lhExit_J C _ _ _ (C.start _ _ (C.patch _ _ _ _ jm hnoop)), ?_⟩
        rw [lhExit_insts]
        show Pre s.insts (Array.setIfInBounds _ _ _)
        refine pre_setIfInBounds ((p1.trans pb).trans pm) ?_ _
        simp [lhPro]

theorem closed_emitState {J : St w → Prop} (C : Closed J) {prog : Ir.Block w} {fuse : Bool} {s : St w}
    (h : emitState prog fuse = .ok s) (h0 : J ({} : St w)) : J s := by
  unfold emitState at h
  rw [analyze_subAnal] at h
  cases hr : (emitInsts fuse 0 prog.insts (subsOf prog.insts)).run ({} : St w) with
  | error e => rw [hr] at h; cases h
  | ok p =>
    obtain ⟨u, s1⟩ := p
    rw [hr] at h
    cases h
    exact (closed_emitInsts C fuse _ prog.insts (Nat.le_refl _) 0 {} s u hr h0).1

end AEmit
end C02
end Hpbf
