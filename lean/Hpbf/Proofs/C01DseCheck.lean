/-
A boolean test for the facts of `AnalSound` on runs that end within `N` steps, so that concrete instances
(satisfiability of the hypotheses, necessity witnesses) are proved by `decide`.
-/
import Hpbf.Proofs.C01DseMain

namespace Hpbf
namespace C01Dse
open Ir OptDse

variable {w : Nat}

/-- The configurations of the first `n` steps. -/
def trail (lim : Bool) : Nat → Cfg w → List (Cfg w)
  | 0, _ => []
  | n + 1, c =>
    c :: (match step lim c with
      | .next c' => trail lim n c'
      | _ => [])

def endsWithin (lim : Bool) (N : Nat) (c : Cfg w) : Bool := (cfgAt lim N c).isNone

theorem mem_trail_of_cfgAt {lim : Bool} {N f : Nat} {c0 c : Cfg w} (hN : cfgAt lim N c0 = none)
    (hf : cfgAt lim f c0 = some c) : c ∈ trail lim N c0 := by
  induction N generalizing c0 f with
  | zero => simp [cfgAt] at hN
  | succ N ih =>
    cases f with
    | zero =>
      simp only [cfgAt, Option.some.injEq] at hf
      subst hf
      simp [trail]
    | succ f =>
      rw [cfgAt] at hf hN
      rw [trail]
      cases hs : step lim c0 with
      | next c1 =>
        rw [hs] at hf hN
        exact List.mem_cons_of_mem _ (ih hN hf)
      | halt _ => rw [hs] at hf; exact absurd hf (by simp)
      | stop _ => rw [hs] at hf; exact absurd hf (by simp)
      | interrupted _ => rw [hs] at hf; exact absurd hf (by simp)

/-! ### `unexposedN` for all `n` from one `n` -/

theorem unexposed_of_noread {lim : Bool} {d : Nat} {a : Int} (n : Nat) (c : Cfg w)
    (h : ∀ c' ∈ trail lim n c, a ∉ stepReads c') : unexposedN lim d a n c = true := by
  induction n generalizing c with
  | zero => rfl
  | succ n ih =>
    rw [unexposedN]
    split
    · rfl
    · have h0 : a ∉ stepReads c := h c (by simp [trail])
      simp only [Bool.and_eq_true, Bool.not_eq_true', Bool.or_eq_true]
      refine ⟨by simpa using h0, Or.inr ?_⟩
      cases hs : step lim c with
      | next c1 =>
        exact ih c1 (fun c' hc' => h c' (by rw [trail, hs]; exact List.mem_cons_of_mem _ hc'))
      | halt _ => rfl
      | stop _ => rfl
      | interrupted _ => rfl

theorem unexposed_pred {lim : Bool} {d : Nat} {a : Int} (n : Nat) (c : Cfg w)
    (h : unexposedN lim d a (n + 1) c = true) : unexposedN lim d a n c = true := by
  induction n generalizing c with
  | zero => rfl
  | succ n ih =>
    rw [unexposedN] at h ⊢
    split
    · rfl
    · rename_i hstop
      rw [if_neg hstop] at h
      simp only [Bool.and_eq_true, Bool.or_eq_true] at h ⊢
      refine ⟨h.1, ?_⟩
      rcases h.2 with h2 | h2
      · exact Or.inl h2
      · right
        cases hs : step lim c with
        | next c1 => rw [hs] at h2; exact ih c1 h2
        | halt _ => rfl
        | stop _ => rfl
        | interrupted _ => rfl

theorem unexposed_le {lim : Bool} {d : Nat} {a : Int} {n N : Nat} {c : Cfg w} (hle : n ≤ N)
    (h : unexposedN lim d a N c = true) : unexposedN lim d a n c = true := by
  induction N with
  | zero =>
    have : n = 0 := by omega
    subst this; exact h
  | succ N ih =>
    by_cases hn : n = N + 1
    · subst hn; exact h
    · exact ih (by omega) (unexposed_pred N c h)

theorem unexposed_ext {lim : Bool} {d : Nat} {a : Int} {N : Nat} (k : Nat) {c : Cfg w}
    (hN : cfgAt lim N c = none) (h : unexposedN lim d a N c = true) :
    unexposedN lim d a (N + k) c = true := by
  induction N generalizing c with
  | zero => simp [cfgAt] at hN
  | succ N ih =>
    have e : N + 1 + k = (N + k) + 1 := by omega
    rw [e]
    rw [unexposedN] at h ⊢
    split
    · rfl
    · rename_i hstop
      rw [if_neg hstop] at h
      simp only [Bool.and_eq_true, Bool.or_eq_true] at h ⊢
      refine ⟨h.1, ?_⟩
      rcases h.2 with h2 | h2
      · exact Or.inl h2
      · right
        rw [cfgAt] at hN
        cases hs : step lim c with
        | next c1 => rw [hs] at h2 hN; exact ih hN h2
        | halt _ => rfl
        | stop _ => rfl
        | interrupted _ => rfl

theorem unexposed_all {lim : Bool} {d : Nat} {a : Int} {N : Nat} {c : Cfg w}
    (hN : cfgAt lim N c = none) (h : unexposedN lim d a N c = true) (n : Nat) :
    unexposedN lim d a n c = true := by
  by_cases hle : n ≤ N
  · exact unexposed_le hle h
  · have : n = N + (n - N) := by omega
    rw [this]
    exact unexposed_ext _ hN h

/-! ### the per-configuration tests -/

def chkAtLeast (anal : DAnal) (c : Cfg w) : Bool :=
  match c.cur with
  | i :: rest =>
    match blockParts i, analOf anal c.conts with
    | some (cond, _, _), some A0 =>
      match subAt A0 (nblocks rest + 1) with
      | some A1 => !A1.atLeastOnce || c.st.rd cond != 0#w
      | none => true
    | _, _ => true
  | [] => true

def chkAtMost (anal : DAnal) (c : Cfg w) : Bool :=
  match c.cur, c.conts with
  | [], .loopEnd cond shift _ _ :: _ =>
    match analOf anal c.conts with
    | some A0 => !A0.atMostOnce || (c.st.mov shift).rd cond == 0#w
    | none => true
  | _, _ => true

def chkReads (lim : Bool) (anal : DAnal) (N : Nat) (c : Cfg w) : Bool :=
  match c.cur, c.conts with
  | [], .loopEnd cond shift _ _ :: _ =>
    match analOf anal c.conts, step lim c with
    | some A0, .next c1 =>
      A0.hasShift || (c.st.mov shift).rd cond == 0#w ||
        (endsWithin lim N c1 &&
          ((trail lim N c1).flatMap stepReads).all (fun a =>
            A0.reads.contains (a - c1.st.ptr) || unexposedN lim c.conts.length a N c1))
    | _, _ => true
  | _, _ => true

theorem atLeastFact_of_check {lim : Bool} {bud : Nat} {b : Block w} {anal : DAnal} {env : Env} (N : Nat)
    (hN : endsWithin lim N (initCfg b bud env) = true)
    (h : (trail lim N (initCfg b bud env)).all (chkAtLeast anal) = true) : AtLeastFact lim bud b anal env := by
  rintro c ⟨f, hf⟩ i rest cond shift body A0 A1 h1 h2 h3 h4 h5
  have hm := mem_trail_of_cfgAt (by simpa [endsWithin] using hN) hf
  have := List.all_eq_true.1 h c hm
  unfold chkAtLeast at this
  rw [h1] at this
  simp only [h2, h3, h4, h5, Bool.not_true, Bool.false_or, bne_iff_ne] at this
  exact this

theorem atMostFact_of_check {lim : Bool} {bud : Nat} {b : Block w} {anal : DAnal} {env : Env} (N : Nat)
    (hN : endsWithin lim N (initCfg b bud env) = true)
    (h : (trail lim N (initCfg b bud env)).all (chkAtMost anal) = true) : AtMostFact lim bud b anal env := by
  rintro c ⟨f, hf⟩ cond shift body rest ks A0 h1 h2 h3 h4
  have hm := mem_trail_of_cfgAt (by simpa [endsWithin] using hN) hf
  have := List.all_eq_true.1 h c hm
  unfold chkAtMost at this
  rw [h1, h2] at this
  simp only at this
  rw [← h2, h3] at this
  simpa [h4] using this

theorem readsFact_of_check {lim : Bool} {bud : Nat} {b : Block w} {anal : DAnal} {env : Env} (N : Nat)
    (hN : endsWithin lim N (initCfg b bud env) = true)
    (h : (trail lim N (initCfg b bud env)).all (chkReads lim anal N) = true) : ReadsFact lim bud b anal env := by
  rintro c ⟨f, hf⟩ cond shift body rest ks A0 c1 h1 h2 h3 h4 h5 h6 v n hv
  have hm := mem_trail_of_cfgAt (by simpa [endsWithin] using hN) hf
  have := List.all_eq_true.1 h c hm
  unfold chkReads at this
  rw [h1, h2] at this
  simp only at this
  rw [← h2, h3, h6] at this
  simp only [h4, Bool.false_or, Bool.or_eq_true, beq_iff_eq, Bool.and_eq_true, List.all_eq_true] at this
  rcases this with hz | ⟨hend, hall⟩
  · exact absurd hz h5
  · have hend' : cfgAt lim N c1 = none := by simpa [endsWithin] using hend
    by_cases hr : (c1.st.ptr + v) ∈ (trail lim N c1).flatMap stepReads
    · rcases hall _ hr with h' | h'
      · exfalso
        apply hv
        have : c1.st.ptr + v - c1.st.ptr = v := by omega
        rw [this] at h'
        simpa using h'
      · exact unexposed_all hend' h' n
    · refine unexposed_all hend' (unexposed_of_noread N c1 (fun c' hc' hmem => hr ?_)) n
      exact List.mem_flatMap.2 ⟨c', hc', hmem⟩

/-- All the facts at once. -/
def checkSound (lim : Bool) (bud : Nat) (b : Block w) (anal : DAnal) (env : Env) (N : Nat) : Bool :=
  endsWithin lim N (initCfg b bud env) && shiftOkL anal b.insts &&
    (trail lim N (initCfg b bud env)).all (fun c => chkAtLeast anal c && chkAtMost anal c && chkReads lim anal N c)

theorem analSoundAt_of_check {lim : Bool} {bud : Nat} {b : Block w} {anal : DAnal} {env : Env} (N : Nat)
    (h : checkSound lim bud b anal env N = true) : AnalSoundAt lim bud b anal env := by
  unfold checkSound at h
  simp only [Bool.and_eq_true, List.all_eq_true] at h
  obtain ⟨⟨h1, h2⟩, h3⟩ := h
  refine ⟨h2, atLeastFact_of_check N h1 ?_, atMostFact_of_check N h1 ?_, readsFact_of_check N h1 ?_⟩
  · exact List.all_eq_true.2 (fun c hc => (h3 c hc).1.1)
  · exact List.all_eq_true.2 (fun c hc => (h3 c hc).1.2)
  · exact List.all_eq_true.2 (fun c hc => (h3 c hc).2)

end C01Dse
end Hpbf
