/-
Rebuild-round proofs: the FOOTPRINT invariants, part 2: `clobber`, the three non-loop arms of `rebuildInstr`
(`output`, `input`, `calc`) and instruction lists without `loop` / `ifnz`.
-/
import Hpbf.Proofs.OptRbFoot

namespace Hpbf
namespace OptProof
open Opt OptSem Ir

variable {w : Nat}

/-! ### `clobber` -/

/-- The cell `var` is recorded as written BEFORE the instruction that writes it runs: after the emitted groups,
agreement on `var` cannot be claimed yet (`K v ∧ v = var`). -/
theorem clobber_foot {s : Rebuild w} {ps : List (Rebuild w)} {var : Int} {maybe : Bool} {os os' : Orders}
    {s' : Rebuild w} (hr : (clobber s ps var maybe).run os = .ok (s', os')) (hwf : Wf s) :
    ∃ comps, s'.insts = s.insts ++ comps.map Instr.calc ∧ (∀ g ∈ comps, (g.map (·.1)).Nodup) ∧
      ReadsMono s s' ∧ CalcFrame s s' comps ∧
      (s'.subShift = false → ∀ (K : Int → Prop), (∀ v, K v → v ∉ s'.reads) → ∀ σ1 σ2 : State w,
        AgreeOff (Rest K s) σ1 σ2 →
        AgreeOff (fun v => Rest K s' v ∨ (K v ∧ v = var)) (comps.foldl doCalc σ1) (comps.foldl doCalc σ2)) ∧
      (maybe = false → DefW s' var) ∧
      (∀ v, v ≠ var → (DefW s' v ↔ DefW s v ∨ ∃ g ∈ comps, v ∈ g.map (·.1))) := by
  unfold clobber at hr
  rw [run_bind_ok] at hr
  obtain ⟨⟨s2, toEmit⟩, os1, h1, h2⟩ := hr
  rw [run_pure] at h2
  cases h2
  -- the state handed to `gatherForEmit`
  have hs0 : ∃ s0, s0 = (if !maybe then (removePending s var).1 else s) := ⟨_, rfl⟩
  obtain ⟨s0, hs0e⟩ := hs0
  rw [← hs0e] at h1
  have hwf0 : Wf s0 := by
    rw [hs0e]; split
    · exact removePending_wf hwf var
    · exact hwf
  have hsame0 : SameButPend s s0 := by
    rw [hs0e]; split
    · exact removePending_same s var
    · exact SameButPend.refl s
  obtain ⟨r, _, _⟩ := gatherEmit_res ps hwf0 var h1
  obtain ⟨g1, g2, _, _, _, g6, _⟩ := gatherForEmit_spec hwf0 var h1
  have hnd : ∀ g ∈ toEmit, (g.map (·.1)).Nodup := fun g hg => (g6 g hg).1
  have hf : EmitFoot s (emitStructured s2 ps toEmit) toEmit :=
    (gatherEmit_foot ps hwf0 var h1).of_sameButPend_left hsame0
  have hdefE : ∀ v, DefW (emitStructured s2 ps toEmit) v ↔ DefW s v ∨ ∃ g ∈ toEmit, v ∈ g.map (·.1) := by
    intro v
    rw [emitStructured_defW g1 ps toEmit hnd v, DefW.congr g2.2.2.2.2.2.2.2.1, DefW.congr hsame0.2.2.2.2.2.2.2.1]
  have hk : ∀ e, (if maybe then OptWrite.maybe else OptWrite.unknown : OptWrite w) ≠ .known e := by
    intro e; split <;> simp
  obtain ⟨i1, i2, i3, i4, i5, i6, i7, i8, i9, i10, i11⟩ :=
    insertWritten_same (emitStructured s2 ps toEmit) var (if maybe then .maybe else .unknown)
  have hwr : ∀ v, mGet (insertWritten (emitStructured s2 ps toEmit) var
      (if maybe then .maybe else .unknown)).written v =
      if var = v then some (if maybe then OptWrite.maybe else OptWrite.unknown)
      else mGet (emitStructured s2 ps toEmit).written v := by
    intro v
    rw [insertWritten_written', normW_nonknown _ hk, mGet_mSet]
  have hdef' : ∀ v, v ≠ var → (DefW (insertWritten (emitStructured s2 ps toEmit) var
      (if maybe then .maybe else .unknown)) v ↔ DefW (emitStructured s2 ps toEmit) v) := by
    intro v hv
    apply DefW.of_get_eq
    rw [hwr, if_neg (fun e => hv e.symm)]
  refine ⟨toEmit, ?_, hnd, ?_, ?_, ?_, ?_, ?_⟩
  · rw [i10, r.insts, hsame0.2.2.2.2.2.2.2.2.1]
  · exact ⟨fun v hv => by rw [i7]; exact hf.mono.1 v hv, fun h => hf.mono.2 (by rw [← i5]; exact h)⟩
  · intro hss
    obtain ⟨a, b⟩ := hf.frame (by rw [← i5]; exact hss)
    have key : ∀ v, mGet (insertWritten (emitStructured s2 ps toEmit) var
        (if maybe then .maybe else .unknown)).written v = none →
        mGet (emitStructured s2 ps toEmit).written v = none := by
      intro v hv
      rw [hwr] at hv
      split at hv
      · cases hv
      · exact hv
    exact ⟨fun v hv => a v (key v hv), fun v hv => b v (key v hv)⟩
  · intro hss K hK σ1 σ2 hag
    have := hf.foot (by rw [← i5]; exact hss) K (fun v hv hr' => hK v hv (by rw [i7]; exact hr')) σ1 σ2 hag
    refine this.mono ?_
    rintro v ⟨hkv, hnv⟩
    by_cases hv : v = var
    · exact Or.inr ⟨hkv, hv⟩
    · exact Or.inl ⟨hkv, fun hd => hnv ((hdef' v hv).1 hd)⟩
  · intro hm
    subst hm
    refine ⟨OptWrite.unknown, ?_, rfl⟩
    rw [hwr, if_pos rfl]; rfl
  · intro v hv
    rw [hdef' v hv, hdefE v]

/-! ### `output` -/

theorem exec_output_fin {x : Int} {σ σ' : State w} (h : Exec [(.output x : Instr w)] σ (.fin σ')) :
    σ' = (σ.output x).2 := by
  rcases (atomic_output x σ _).1 h with h | ⟨_, h | h⟩ | ⟨_, h⟩
  · cases h
  · cases h; rfl
  · cases h
  · cases h

theorem exec_input_fin {x : Int} {σ σ' : State w} (h : Exec [(.input x : Instr w)] σ (.fin σ')) :
    σ' = (σ.input x).2 ∧ (σ.input x).1 = true := by
  rcases (atomic_input x σ _).1 h with h | ⟨h1, h | h⟩ | ⟨_, h⟩
  · cases h
  · cases h; exact ⟨rfl, h1⟩
  · cases h
  · cases h

/-- `read x` followed by the instruction `output x`. -/
theorem output_foot (s : Rebuild w) (x : Int) :
    FootStep s ({ Opt.read s x with insts := (Opt.read s x).insts ++ [Instr.output x] } : Rebuild w)
      [.output x] ∧
    FrameStep s ({ Opt.read s x with insts := (Opt.read s x).insts ++ [Instr.output x] } : Rebuild w)
      [.output x] ∧
    ReadsMono s ({ Opt.read s x with insts := (Opt.read s x).insts ++ [Instr.output x] } : Rebuild w) := by
  have hsame := read_same s x
  have hw : (Opt.read s x).written = s.written := hsame.2.2.2.2.2.2.1
  refine ⟨?_, ?_, ?_⟩
  · intro _ K hK σ1 σ2 hag
    have hx : ¬ Rest K s x := by
      rintro ⟨hkx, hnx⟩
      exact hK x hkx ((mem_reads_read s x x).2 (Or.inr ⟨rfl, hnx⟩))
    have hb : σ1.rd x = σ2.rd x := hag.2.2.2 x hx
    obtain ⟨o1, o2, o3⟩ := output_rel hb hag.2.1 hag.2.2.1
    refine Sim.of_atomic (atomic_output x) (atomic_output x) hag.2.2.1.symm o1 o2 o3 ?_
    intro _
    obtain ⟨p1, t1⟩ := output_fields σ1 x
    obtain ⟨p2, t2⟩ := output_fields σ2 x
    refine ⟨by rw [p1, p2]; exact hag.1, o3.symm, o2.symm, ?_⟩
    intro v hv
    show memE (σ1.output x).2 v = memE (σ2.output x).2 v
    rw [memE_of_tape_ptr t1 p1, memE_of_tape_ptr t2 p2]
    apply hag.2.2.2 v
    intro hr
    exact hv ((Rest.congr (s' := { Opt.read s x with insts := (Opt.read s x).insts ++ [Instr.output x] })
      (s := s) hw K v).2 hr)
  · intro _
    refine ⟨fun v hv => by rw [← hw]; exact hv, ?_⟩
    intro σ σ' hex
    rw [exec_output_fin hex]
    obtain ⟨p1, t1⟩ := output_fields σ x
    refine ⟨p1, fun v _ => ?_⟩
    rw [memE_of_tape_ptr t1 p1]
  · exact read_readsMono s x

theorem step_output_foot {ps : List (Rebuild w)} {s : Rebuild w} (hwf : Wf s) (src : Int) {os os' : Orders}
    {s' : Rebuild w} (hr : (rebuildInstr ps s (.output src)).run os = .ok (s', os')) :
    ∃ new, s'.insts = s.insts ++ new ∧ FootStep s s' new ∧ FrameStep s s' new ∧ ReadsMono s s' := by
  rw [rebuildInstr] at hr
  split at hr
  · rename_i x hx
    rw [run_pure] at hr
    cases hr
    obtain ⟨a, b, c⟩ := output_foot s x
    refine ⟨[.output x], ?_, a, b, c⟩
    show (Opt.read s x).insts ++ _ = _
    rw [(read_same s x).2.2.2.2.2.2.2.2.2.1]
  · rw [run_bind_ok] at hr
    obtain ⟨s1, os1, h1, h2⟩ := hr
    rw [run_pure] at h2
    cases h2
    obtain ⟨comps, res, ft⟩ := emit_foot ps hwf (src + s.shift) h1
    obtain ⟨a, b, c⟩ := output_foot s1 (src + s.shift)
    refine ⟨comps.map Instr.calc ++ [.output (src + s.shift)], ?_, ft.foot.footStep.trans a c,
      (ft.frame.frameStep res.nodup).trans b c, ft.mono.trans c⟩
    show (Opt.read s1 (src + s.shift)).insts ++ _ = _
    rw [(read_same s1 (src + s.shift)).2.2.2.2.2.2.2.2.2.1, res.insts, List.append_assoc]

/-! ### `input` -/

theorem step_input_foot {ps : List (Rebuild w)} {s : Rebuild w} (hwf : Wf s) (dst : Int) {os os' : Orders}
    {s' : Rebuild w} (hr : (rebuildInstr ps s (.input dst)).run os = .ok (s', os')) :
    ∃ new, s'.insts = s.insts ++ new ∧ FootStep s s' new ∧ FrameStep s s' new ∧ ReadsMono s s' := by
  rw [rebuildInstr, run_bind_ok] at hr
  obtain ⟨s1, os1, h1, h2⟩ := hr
  rw [run_pure] at h2
  cases h2
  obtain ⟨comps, c1, c2, c3, c4, c5, c6, _⟩ := clobber_foot h1 hwf
  have hdef : DefW s1 (dst + s.shift) := c6 rfl
  refine ⟨comps.map Instr.calc ++ [.input (dst + s.shift)], ?_, ?_, ?_, c3⟩
  · show s1.insts ++ _ = _
    rw [c1, List.append_assoc]
  · -- read footprint: the groups, then `input` writes the same byte in both runs
    intro hss K hK σ1 σ2 hag
    have hag' := c5 hss K hK σ1 σ2 hag
    obtain ⟨m1, m2, m3⟩ := foldl_doCalc_meta comps σ1
    obtain ⟨n1, n2, n3⟩ := foldl_doCalc_meta comps σ2
    obtain ⟨o1, o2, o3⟩ := input_rel (σS := comps.foldl doCalc σ1) (σE := comps.foldl doCalc σ2)
      (dst + s.shift) (dst + s.shift) hag'.2.1 hag'.2.2.1
    refine Sim.of_atomic (atomic_calcs_then comps (atomic_input (dst + s.shift)))
      (atomic_calcs_then comps (atomic_input (dst + s.shift))) hag.2.2.1.symm o1 o2 o3 ?_
    intro hok
    obtain ⟨x, hS, hE, pS, pE⟩ := input_ok_mem (σS := comps.foldl doCalc σ1) (σE := comps.foldl doCalc σ2)
      (dst + s.shift) (dst + s.shift) hag'.2.1 hok
    refine ⟨by rw [pS, pE]; exact hag'.1, o3.symm, o2.symm, ?_⟩
    intro v hv
    show memOf ((comps.foldl doCalc σ1).input (dst + s.shift)).2
        ((comps.foldl doCalc σ1).input (dst + s.shift)).2.ptr v =
      memOf ((comps.foldl doCalc σ2).input (dst + s.shift)).2
        ((comps.foldl doCalc σ2).input (dst + s.shift)).2.ptr v
    rw [pS, pE, hS, hE]
    have e1 : (comps.foldl doCalc σ1).ptr - (comps.foldl doCalc σ1).ptr + (dst + s.shift) = dst + s.shift := by
      omega
    have e2 : (comps.foldl doCalc σ2).ptr - (comps.foldl doCalc σ2).ptr + (dst + s.shift) = dst + s.shift := by
      omega
    rw [e1, e2]
    by_cases hvd : v = dst + s.shift
    · rw [hvd, upd_same, upd_same]
    · rw [upd_ne _ _ _ _ hvd, upd_ne _ _ _ _ hvd]
      apply hag'.2.2.2 v
      rintro (h | ⟨_, h⟩)
      · exact hv h
      · exact hvd h
  · -- write footprint
    have hfr1 : FrameStep s s1 (comps.map Instr.calc) := c4.frameStep c2
    have hfr2 : FrameStep s1 ({ s1 with insts := s1.insts ++ [Instr.input (dst + s.shift)] } : Rebuild w)
        [.input (dst + s.shift)] := by
      intro _
      refine ⟨fun _ h => h, ?_⟩
      intro σ σ' hex
      obtain ⟨e, hok⟩ := exec_input_fin hex
      obtain ⟨x, hS, _, pS, _⟩ := input_ok_mem (σS := σ) (σE := σ) (dst + s.shift) (dst + s.shift) rfl hok
      rw [e]
      refine ⟨pS, ?_⟩
      intro v hv
      have hvd : v ≠ dst + s.shift := by
        rintro rfl
        exact not_defW_of_none hv hdef
      show memOf (σ.input (dst + s.shift)).2 (σ.input (dst + s.shift)).2.ptr v = memOf σ σ.ptr v
      rw [pS, hS]
      have e1 : σ.ptr - σ.ptr + (dst + s.shift) = dst + s.shift := by omega
      rw [e1, upd_ne _ _ _ _ hvd]
    exact hfr1.trans hfr2 ⟨fun _ h => h, fun h => h⟩

/-! ### `calc` -/

theorem step_calc_foot {ps : List (Rebuild w)} {s : Rebuild w} (hwf : Wf s) (calcs : List (Int × Expr w))
    {os os' : Orders} {s' : Rebuild w} (hr : (rebuildInstr ps s (.calc calcs)).run os = .ok (s', os')) :
    ∃ new, s'.insts = s.insts ++ new ∧ FootStep s s' new ∧ FrameStep s s' new ∧ ReadsMono s s' := by
  rw [rebuildInstr] at hr
  obtain ⟨comps, _, _, _, _, hi, hnd, hf⟩ := performAll_foot' hr hwf
  exact ⟨comps.map Instr.calc, hi, hf.foot.footStep, hf.frame.frameStep hnd, hf.mono⟩

/-! ### straight-line instruction lists -/

theorem rebuildInstr_straight_foot {ps : List (Rebuild w)} {s : Rebuild w} (hwf : Wf s) {i : Instr w}
    (hi : C01Dse.isBlock i = false) {os os' : Orders} {s' : Rebuild w}
    (hr : (rebuildInstr ps s i).run os = .ok (s', os')) :
    ∃ new, s'.insts = s.insts ++ new ∧ FootStep s s' new ∧ FrameStep s s' new ∧ ReadsMono s s' := by
  cases i with
  | output src => exact step_output_foot hwf src hr
  | input dst => exact step_input_foot hwf dst hr
  | «calc» calcs => exact step_calc_foot hwf calcs hr
  | loop c sh b o => simp [C01Dse.isBlock] at hi
  | ifnz c sh b => simp [C01Dse.isBlock] at hi

theorem rebuildInsts_straight_foot {ps : List (Rebuild w)} (l : List (Instr w)) (hl : StraightL l)
    {s : Rebuild w} {os os' : Orders} {s' : Rebuild w} {done : Bool} (hwf : Wf s) (hnr : s.noReturn = false)
    (hr : (rebuildInsts ps s l).run os = .ok ((s', done), os')) :
    ∃ new, s'.insts = s.insts ++ new ∧ FootStep s s' new ∧ FrameStep s s' new ∧ ReadsMono s s' := by
  induction l generalizing s os with
  | nil =>
    rw [rebuildInsts, run_pure] at hr
    cases hr
    exact ⟨[], by simp, FootStep.refl _, FrameStep.refl _, ReadsMono.refl _⟩
  | cons i rest ih =>
    rw [rebuildInsts, hnr] at hr
    simp only [Bool.false_eq_true, if_false] at hr
    rw [run_bind_ok] at hr
    obtain ⟨s1, os1, h1, h2⟩ := hr
    obtain ⟨a1, a2, _, _, _⟩ := rebuildInstr_straight hwf (hl i (by simp)) h1
    obtain ⟨n1, e1, f1, r1, m1⟩ := rebuildInstr_straight_foot hwf (hl i (by simp)) h1
    obtain ⟨n2, e2, f2, r2, m2⟩ := ih (fun j hj => hl j (by simp [hj])) a1 (by rw [a2, hnr]) h2
    exact ⟨n1 ++ n2, by rw [e2, e1, List.append_assoc], f1.trans f2 m2, r1.trans r2 m2, m1.trans m2⟩

end OptProof
end Hpbf

#print axioms Hpbf.OptProof.step_input_foot
#print axioms Hpbf.OptProof.rebuildInsts_straight_foot
#print axioms Hpbf.OptProof.clobber_foot
