/-
Chain, part 3: `Program::parse` never marks a loop `once` (`parse_noOnce`), so the precondition `OnceOk` of the
emission phase holds for every level-0 program and every environment.
-/
import Hpbf.Proofs.C02EmitRun

namespace Hpbf
namespace Chain

open Ir C02Emit

variable {w : Nat}

theorem noOnceL_cons (i : Ir.Instr w) (l : List (Ir.Instr w)) :
    noOnceL (i :: l) = (noOnceI i && noOnceL l) := by simp [noOnceL]

theorem noOnceL_append (a b : List (Ir.Instr w)) : noOnceL (a ++ b) = (noOnceL a && noOnceL b) := by
  induction a with
  | nil => simp [noOnceL]
  | cons i a ih => simp [noOnceL_cons, ih, Bool.and_assoc]

theorem noOnceL_reverse (a : List (Ir.Instr w)) : noOnceL a.reverse = noOnceL a := by
  induction a with
  | nil => rfl
  | cons i a ih =>
    rw [List.reverse_cons, noOnceL_append, ih, noOnceL_cons]
    simp [noOnceL, Bool.and_comm]

theorem noOnceI_add (k : Int) (v : BitVec w) : noOnceI (Instr.add k v) = true := by
  simp [Instr.add, noOnceI]

theorem noOnceI_load (k : Int) (v : BitVec w) : noOnceI (Instr.load k v) = true := by
  simp [Instr.load, noOnceI]

theorem pushAdds_noOnce (vars : List (Int × BitVec w)) (r : List (Ir.Instr w)) (h : noOnceL r = true) :
    noOnceL (pushAdds r vars) = true := by
  unfold pushAdds
  induction vars generalizing r with
  | nil => exact h
  | cons kv vars ih =>
    simp only [List.foldl_cons]
    apply ih
    split
    · rw [noOnceL_cons, noOnceI_add, h]; rfl
    · exact h

theorem flushOne_noOnce (f : Frame w) (k : Int) (h : noOnceL f.rinsts = true) :
    noOnceL (flushOne f k).rinsts = true := by
  unfold flushOne
  split
  · exact h
  · split
    · show noOnceL (_ :: _) = true
      rw [noOnceL_cons, noOnceI_add, h]; rfl
    · exact h

theorem foldl_flushOne_noOnce (vars : List (Int × BitVec w)) (f : Frame w) (h : noOnceL f.rinsts = true) :
    noOnceL (vars.foldl (fun p kv => flushOne p kv.1) f).rinsts = true := by
  induction vars generalizing f with
  | nil => exact h
  | cons kv vars ih =>
    simp only [List.foldl_cons]
    exact ih _ (flushOne_noOnce f kv.1 h)

theorem closeLoop_noOnce (sub par : Frame w) (hs : noOnceL sub.rinsts = true) (hp : noOnceL par.rinsts = true) :
    noOnceL (closeLoop sub par).rinsts = true := by
  unfold closeLoop
  dsimp only
  split
  · show noOnceL (_ :: _) = true
    rw [noOnceL_cons, noOnceI_load, hp]; rfl
  · have h1 := foldl_flushOne_noOnce (bsorted sub.buff) par hp
    generalize (bsorted sub.buff).foldl (fun p kv => flushOne p kv.1) par = par1 at h1 ⊢
    have hsub : noOnceL (pushAdds sub.rinsts (bsorted sub.buff)).reverse = true := by
      rw [noOnceL_reverse]; exact pushAdds_noOnce _ _ hs
    split
    · have h2 : noOnceL (pushAdds par1.rinsts (bsorted par1.buff)) = true := pushAdds_noOnce _ _ h1
      have h3 := flushOne_noOnce
        { par1 with rinsts := pushAdds par1.rinsts (bsorted par1.buff),
                    buff := par1.buff.map (fun kv => (kv.1, 0#w)), moved := true }
        par1.shift h2
      show noOnceL (_ :: _) = true
      rw [noOnceL_cons]
      simp only [noOnceI, Bool.not_false, Bool.true_and, hsub]
      exact h3
    · have h3 := flushOne_noOnce par1 par1.shift h1
      show noOnceL (_ :: _) = true
      rw [noOnceL_cons]
      simp only [noOnceI, Bool.not_false, Bool.true_and, hsub]
      exact h3

/-- Every frame of the parser state holds `once`-free instructions. -/
def PsOk (ps : PState w) : Prop :=
  noOnceL ps.top.rinsts = true ∧ ∀ f ∈ ps.rest, noOnceL f.rinsts = true

theorem parseStep_noOnce {ps ps' : PState w} {i : Nat} {k : Kind} (h : PsOk ps)
    (hs : parseStep ps i k = .ok ps') : PsOk ps' := by
  obtain ⟨ht, hr⟩ := h
  cases k with
  | right => simp only [parseStep, Except.ok.injEq] at hs; subst hs; exact ⟨ht, hr⟩
  | left => simp only [parseStep, Except.ok.injEq] at hs; subst hs; exact ⟨ht, hr⟩
  | inc => simp only [parseStep, Except.ok.injEq] at hs; subst hs; exact ⟨ht, hr⟩
  | dec => simp only [parseStep, Except.ok.injEq] at hs; subst hs; exact ⟨ht, hr⟩
  | comment => simp only [parseStep, Except.ok.injEq] at hs; subst hs; exact ⟨ht, hr⟩
  | out =>
    simp only [parseStep, Except.ok.injEq] at hs; subst hs
    refine ⟨?_, hr⟩
    show noOnceL (_ :: _) = true
    rw [noOnceL_cons, flushOne_noOnce _ _ ht]; rfl
  | inp =>
    simp only [parseStep, Except.ok.injEq] at hs; subst hs
    refine ⟨?_, hr⟩
    show noOnceL (_ :: _) = true
    rw [noOnceL_cons, ht]; rfl
  | «open» =>
    simp only [parseStep, Except.ok.injEq] at hs; subst hs
    refine ⟨rfl, ?_⟩
    intro f hf
    simp only [List.mem_cons] at hf
    rcases hf with rfl | hf
    · exact ht
    · exact hr f hf
  | close =>
    simp only [parseStep] at hs
    split at hs
    · cases hs
    · cases hs
    · rename_i poss par rest hpos hrest
      simp only [Except.ok.injEq] at hs; subst hs
      have hpar : noOnceL par.rinsts = true := hr par (by rw [hrest]; exact List.mem_cons_self)
      refine ⟨closeLoop_noOnce _ _ ht hpar, ?_⟩
      intro f hf
      exact hr f (by rw [hrest]; exact List.mem_cons_of_mem _ hf)

theorem parseLoop_noOnce : ∀ (src : List Kind) (i : Nat) (ps ps' : PState w), PsOk ps →
    parseLoop src i ps = .ok ps' → PsOk ps'
  | [], _, ps, ps', h, hs => by
    simp only [parseLoop, Except.ok.injEq] at hs; subst hs; exact h
  | k :: ks, i, ps, ps', h, hs => by
    simp only [parseLoop] at hs
    cases hst : parseStep ps i k with
    | error e => rw [hst] at hs; cases hs
    | ok ps1 =>
      rw [hst] at hs
      exact parseLoop_noOnce ks (i + 1) ps1 ps' (parseStep_noOnce h hst) hs

/-- **`Program::parse` never sets `once`.** -/
theorem parse_noOnce {src : List Kind} {blk : Ir.Block w} (h : Ir.parse (w := w) src = .ok blk) :
    NoOnce blk := by
  unfold Ir.parse at h
  cases hl : parseLoop (w := w) src 0
      { top := { shift := 0, moved := false, rinsts := [], buff := [] }, rest := [], positions := [] } with
  | error e => rw [hl] at h; cases h
  | ok ps =>
    rw [hl] at h
    have hok : PsOk ps := parseLoop_noOnce src 0 _ ps ⟨rfl, fun f hf => by cases hf⟩ hl
    simp only at h
    split at h
    · simp only [Except.ok.injEq] at h
      subst h
      show noOnceL _ = true
      rw [noOnceL_reverse]
      exact pushAdds_noOnce _ _ hok.1
    · cases h
    · cases h

/-- Hence the precondition of the emission phase holds at level 0, for every environment. -/
theorem parse_onceOk {src : List Kind} {blk : Ir.Block w} (h : Ir.parse (w := w) src = .ok blk) (env : Env) :
    OnceOk blk env := onceOk_of_noOnce (parse_noOnce h) env

end Chain
end Hpbf
