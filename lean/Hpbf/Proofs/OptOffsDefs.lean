/-
Offsets of optimized IR, part 1: the measure.

IR offsets are relative to the CURRENT pointer; the pointer only moves when a nested block ends (by the
block's `shift`). The bound that the parser establishes and the optimizer preserves is therefore not
"every offset is small" but

    (sum of |shift| of all nested blocks that END textually before the mention) + |offset|  ≤  R

(`drift` + `|offset|`): when the optimizer inlines an at-most-once block it absorbs the block's shift into
every later offset (`offset + shift`), so an offset may GROW, but only by what the absorbed block's shift
contributed to the drift before.

* `driftI` / `driftL`: total `|shift|` of all blocks nested anywhere in an instruction (list);
* `tagI g` / `tagL g`: every mention of a tape offset (as in `Ir.offsets`), tagged with the drift
  accumulated before it, starting from `g`;
* `OkL R g l`: every tag `(d, o)` has `d + |o| ≤ R`; `reach b`: the least such `R` for `g = 0`.
-/
import Hpbf.Ir
import Hpbf.Proofs.C10Parse

namespace Hpbf.OptOffs
open Hpbf Ir

variable {w : Nat}

mutual
/-- `|shift|` of the block plus the drift inside. -/
def driftI : Instr w → Nat
  | .output _ => 0
  | .input _ => 0
  | .calc _ => 0
  | .loop _ sh body _ => driftL body + sh.natAbs
  | .ifnz _ sh body => driftL body + sh.natAbs
/-- Sum of `|shift|` over all blocks nested anywhere in the list. -/
def driftL : List (Instr w) → Nat
  | [] => 0
  | i :: r => driftI i + driftL r
end

mutual
/-- The mentions of an instruction, tagged with the drift before them. -/
def tagI (g : Nat) : Instr w → List (Nat × Int)
  | .output o => [(g, o)]
  | .input o => [(g, o)]
  | .calc cs => cs.flatMap (fun ve => (g, ve.1) :: (Expr.variables ve.2).map (fun x => (g, x)))
  | .loop c _ body _ => (g, c) :: tagL g body
  | .ifnz c _ body => (g, c) :: tagL g body
/-- All mentions of a list, each tagged with `g` + the `|shift|`s of the blocks that end before it. -/
def tagL (g : Nat) : List (Instr w) → List (Nat × Int)
  | [] => []
  | i :: r => tagI g i ++ tagL (g + driftI i) r
end

/-- A name `x` mentioned at drift `g` respects the bound `R`. -/
def NB (R g : Nat) (x : Int) : Prop := g + x.natAbs ≤ R

def OkI (R g : Nat) (i : Instr w) : Prop := ∀ p ∈ tagI g i, NB R p.1 p.2
def OkL (R g : Nat) (l : List (Instr w)) : Prop := ∀ p ∈ tagL g l, NB R p.1 p.2

def maxL : List Nat → Nat
  | [] => 0
  | x :: xs => max x (maxL xs)

/-- The largest `drift + |offset|` over all mentions. -/
def reachL (l : List (Instr w)) : Nat := maxL ((tagL 0 l).map (fun p => p.1 + p.2.natAbs))

/-- The bound of a block. -/
def reach (b : Block w) : Nat := reachL b.insts

/-! ### basic facts -/

theorem NB.mono {R R' g : Nat} {x : Int} (h : NB R g x) (hR : R ≤ R') : NB R' g x := by
  unfold NB at *; omega

theorem NB.anti {R g g' : Nat} {x : Int} (h : NB R g' x) (hg : g ≤ g') : NB R g x := by
  unfold NB at *; omega

theorem maxL_le {l : List Nat} {R : Nat} : maxL l ≤ R ↔ ∀ x ∈ l, x ≤ R := by
  induction l with
  | nil => simp [maxL]
  | cons x xs ih =>
    simp only [maxL, List.mem_cons, forall_eq_or_imp]
    rw [← ih]; omega

theorem okL_iff_reach {R : Nat} {l : List (Instr w)} : OkL R 0 l ↔ reachL l ≤ R := by
  unfold reachL OkL NB
  rw [maxL_le]
  simp only [List.mem_map, forall_exists_index, and_imp]
  constructor
  · intro h x p hp e; subst e; exact h p hp
  · intro h p hp; exact h _ p hp rfl

theorem okL_reach (b : Block w) : OkL (reach b) 0 b.insts := okL_iff_reach.2 (Nat.le_refl _)

@[simp] theorem okL_nil (R g : Nat) : OkL R g ([] : List (Instr w)) := by
  intro p hp; simp [tagL] at hp

theorem okL_cons {R g : Nat} {i : Instr w} {r : List (Instr w)} :
    OkL R g (i :: r) ↔ OkI R g i ∧ OkL R (g + driftI i) r := by
  unfold OkL OkI
  simp only [tagL, List.mem_append]
  constructor
  · intro h; exact ⟨fun p hp => h p (Or.inl hp), fun p hp => h p (Or.inr hp)⟩
  · rintro ⟨h1, h2⟩ p (hp | hp)
    · exact h1 p hp
    · exact h2 p hp

theorem okI_output {R g : Nat} {o : Int} : OkI R g (.output o : Instr w) ↔ NB R g o := by
  simp [OkI, tagI]

theorem okI_input {R g : Nat} {o : Int} : OkI R g (.input o : Instr w) ↔ NB R g o := by
  simp [OkI, tagI]

theorem okI_calc {R g : Nat} {cs : List (Int × Expr w)} :
    OkI R g (.calc cs) ↔ ∀ ve ∈ cs, NB R g ve.1 ∧ ∀ x ∈ Expr.variables ve.2, NB R g x := by
  unfold OkI
  simp only [tagI, List.mem_flatMap, List.mem_cons, List.mem_map]
  constructor
  · intro h ve hve
    refine ⟨h (g, ve.1) ⟨ve, hve, Or.inl rfl⟩, fun x hx => h (g, x) ⟨ve, hve, Or.inr ⟨x, hx, rfl⟩⟩⟩
  · rintro h p ⟨ve, hve, hp | ⟨x, hx, hp⟩⟩
    · subst hp; exact (h ve hve).1
    · subst hp; exact (h ve hve).2 x hx

theorem okI_loop {R g : Nat} {c sh : Int} {body : List (Instr w)} {once : Bool} :
    OkI R g (.loop c sh body once) ↔ NB R g c ∧ OkL R g body := by
  unfold OkI OkL
  simp only [tagI, List.mem_cons, forall_eq_or_imp]

theorem okI_ifnz {R g : Nat} {c sh : Int} {body : List (Instr w)} :
    OkI R g (.ifnz c sh body) ↔ NB R g c ∧ OkL R g body := by
  unfold OkI OkL
  simp only [tagI, List.mem_cons, forall_eq_or_imp]

theorem driftL_append (a b : List (Instr w)) : driftL (a ++ b) = driftL a + driftL b := by
  induction a with
  | nil => simp [driftL]
  | cons i a ih => simp only [List.cons_append, driftL, ih]; omega

theorem okL_append {R g : Nat} {a b : List (Instr w)} :
    OkL R g (a ++ b) ↔ OkL R g a ∧ OkL R (g + driftL a) b := by
  induction a generalizing g with
  | nil => simp [driftL]
  | cons i a ih =>
    simp only [List.cons_append, okL_cons, ih, driftL, Nat.add_assoc, and_assoc]

theorem okL_snoc {R g : Nat} {a : List (Instr w)} {i : Instr w} :
    OkL R g (a ++ [i]) ↔ OkL R g a ∧ OkI R (g + driftL a) i := by
  rw [okL_append, okL_cons]
  simp

theorem driftL_snoc (a : List (Instr w)) (i : Instr w) : driftL (a ++ [i]) = driftL a + driftI i := by
  rw [driftL_append]; simp [driftL]

theorem driftL_reverse (a : List (Instr w)) : driftL a.reverse = driftL a := by
  induction a with
  | nil => rfl
  | cons i a ih => rw [List.reverse_cons, driftL_snoc, ih, driftL]; omega

theorem OkL.mono {R R' g : Nat} {l : List (Instr w)} (h : OkL R g l) (hR : R ≤ R') : OkL R' g l :=
  fun p hp => (h p hp).mono hR

theorem OkI.mono {R R' g : Nat} {i : Instr w} (h : OkI R g i) (hR : R ≤ R') : OkI R' g i :=
  fun p hp => (h p hp).mono hR

/-! ### starting later is harder: `OkL R (g + k) l → OkL R g l` -/

mutual
theorem okI_anti : ∀ (i : Instr w) (R g k : Nat), OkI R (g + k) i → OkI R g i
  | .output o, R, g, k, h => by rw [okI_output] at *; exact h.anti (Nat.le_add_right _ _)
  | .input o, R, g, k, h => by rw [okI_input] at *; exact h.anti (Nat.le_add_right _ _)
  | .calc cs, R, g, k, h => by
    rw [okI_calc] at *
    exact fun ve hve => ⟨(h ve hve).1.anti (Nat.le_add_right _ _),
      fun x hx => ((h ve hve).2 x hx).anti (Nat.le_add_right _ _)⟩
  | .loop c sh body once, R, g, k, h => by
    rw [okI_loop] at *
    exact ⟨h.1.anti (Nat.le_add_right _ _), okL_anti body R g k h.2⟩
  | .ifnz c sh body, R, g, k, h => by
    rw [okI_ifnz] at *
    exact ⟨h.1.anti (Nat.le_add_right _ _), okL_anti body R g k h.2⟩
theorem okL_anti : ∀ (l : List (Instr w)) (R g k : Nat), OkL R (g + k) l → OkL R g l
  | [], _, _, _, _ => okL_nil _ _
  | i :: r, R, g, k, h => by
    rw [okL_cons] at *
    refine ⟨okI_anti i R g k h.1, okL_anti r R (g + driftI i) k ?_⟩
    have : g + driftI i + k = g + k + driftI i := by omega
    rw [this]; exact h.2
end

theorem OkL.anti {R g g' : Nat} {l : List (Instr w)} (h : OkL R g' l) (hg : g ≤ g') : OkL R g l := by
  obtain ⟨k, rfl⟩ := Nat.exists_eq_add_of_le hg
  exact okL_anti l R g k h

/-! ### every offset of `Ir.offsets` is tagged -/

mutual
theorem offsI_tagged : ∀ (i : Instr w) (g : Nat) (o : Int), o ∈ i.offsets → ∃ d, (d, o) ∈ tagI g i
  | .output s, g, o, h => by
    simp only [Instr.offsets, List.mem_singleton] at h; subst h; exact ⟨g, by simp [tagI]⟩
  | .input s, g, o, h => by
    simp only [Instr.offsets, List.mem_singleton] at h; subst h; exact ⟨g, by simp [tagI]⟩
  | .calc cs, g, o, h => by
    simp only [Instr.offsets, List.mem_flatMap, List.mem_cons] at h
    obtain ⟨ve, hve, h⟩ := h
    refine ⟨g, ?_⟩
    simp only [tagI, List.mem_flatMap, List.mem_cons, List.mem_map]
    rcases h with h | h
    · exact ⟨ve, hve, Or.inl (by rw [h])⟩
    · exact ⟨ve, hve, Or.inr ⟨o, h, rfl⟩⟩
  | .loop c sh body once, g, o, h => by
    simp only [Instr.offsets, List.mem_cons] at h
    rcases h with h | h
    · subst h; exact ⟨g, by simp [tagI]⟩
    · obtain ⟨d, hd⟩ := offsL_tagged body g o h
      exact ⟨d, by simp [tagI, hd]⟩
  | .ifnz c sh body, g, o, h => by
    simp only [Instr.offsets, List.mem_cons] at h
    rcases h with h | h
    · subst h; exact ⟨g, by simp [tagI]⟩
    · obtain ⟨d, hd⟩ := offsL_tagged body g o h
      exact ⟨d, by simp [tagI, hd]⟩
theorem offsL_tagged : ∀ (l : List (Instr w)) (g : Nat) (o : Int), o ∈ offsets l → ∃ d, (d, o) ∈ tagL g l
  | [], _, _, h => by simp [offsets] at h
  | i :: r, g, o, h => by
    simp only [offsets, List.mem_append] at h
    rcases h with h | h
    · obtain ⟨d, hd⟩ := offsI_tagged i g o h
      exact ⟨d, by simp [tagL, hd]⟩
    · obtain ⟨d, hd⟩ := offsL_tagged r (g + driftI i) o h
      exact ⟨d, by simp [tagL, hd]⟩
end

/-- Every offset mentioned anywhere is bounded by the bound. -/
theorem okL_offsets {R g : Nat} {l : List (Instr w)} (h : OkL R g l) :
    ∀ o ∈ offsets l, o.natAbs ≤ R := by
  intro o ho
  obtain ⟨d, hd⟩ := offsL_tagged l g o ho
  have := h _ hd
  unfold NB at this
  simp only at this
  omega

theorem offsets_le_reach (b : Block w) : ∀ o ∈ offsets b.insts, o.natAbs ≤ reach b :=
  okL_offsets (okL_reach b)

end Hpbf.OptOffs
