/-
Loop optimisations of `Hpbf/Opt.lean`, part B (continued): `analyzeLoop` is sound, given what the queries it
makes (`getConstant`, `isNonZero` on the parent; `getConstant`, `getBoth` on the body state) mean.
-/
import Hpbf.Proofs.OptLoopTrip

namespace Hpbf.OptLoop
open Hpbf Opt OptSem Expr

variable {w : Nat}

/-- What the queries of `analyzeLoop` mean for the sequence `cv` of values of the condition cell at the
successive tests (owned by the main prover: soundness of `getConstant`, `isNonZero`, `getBoth`).
`cond' = cond + sub.shift - s.shift` is where the next test finds the condition cell, in the coordinates
of the body. -/
structure CondFacts (s : Rebuild w) (ps : List (Rebuild w)) (sub : Rebuild w) (cond : Int) (isLoop : Bool)
    (cv : Nat → BitVec w) : Prop where
  /-- the parent knows the initial value -/
  init : ∀ c, getConstant s ps cond = some c → cv 0 = c
  /-- the parent knows that the initial value is not zero -/
  nz : isNonZero s ps cond = true → cv 0 ≠ 0#w
  /-- an `if` block is a loop whose second test fails -/
  ifOnce : isLoop = false → cv 0 ≠ 0#w → cv 1 = 0#w
  /-- the body leaves a known constant in the condition cell -/
  stored : ∀ c, getConstant sub (s :: ps) (cond + sub.shift - s.shift) = some c →
    ∀ k, Live cv k → cv (k + 1) = c
  /-- the body leaves the value of `e` (over the memory at the start of the round) in the condition cell -/
  both : ∀ e, getBoth sub (s :: ps) (cond + sub.shift - s.shift) = some e →
    ∀ k, Live cv k → ∃ f : Mem w, f cond = cv k ∧ cv (k + 1) = ev e f

theorem analyzeLoop_sound (hw : 0 < w) (s : Rebuild w) (ps : List (Rebuild w)) (sub : Rebuild w)
    (cond : Int) (isLoop : Bool) (cv : Nat → BitVec w) (hf : CondFacts s ps sub cond isLoop cv)
    (hnr : sub.noReturn = false) :
    LoopMeaning (analyzeLoop s ps sub cond isLoop) cv cond := by
  have hnz : isNonZero s ps cond = true → cv 0 ≠ 0#w := hf.nz
  unfold analyzeLoop
  simp only
  split
  · -- initial value known to be zero
    rename_i h0
    have h0' : getConstant s ps cond = some 0#w := by simpa using h0
    have hz : cv 0 = 0#w := hf.init _ h0'
    apply ofExpr_val_meaning
    refine ⟨fun k hk => ?_, ?_⟩
    · simp at hk
    · simpa using hz
  · split
    · rename_i h; rw [hnr] at h; cases h
    · split
      · -- an `if`
        rename_i hl
        have hl' : isLoop = false := by simpa using hl
        exact atMostOnceOf_meaning hw cv cond _ hnz (hf.ifOnce hl')
      · split
        · -- constant stored
          rename_i storedCond hst
          split
          · rename_i hz
            have hz' : storedCond = 0#w := by simpa using hz
            subst hz'
            refine atMostOnceOf_meaning hw cv cond _ hnz (fun h0 => ?_)
            refine hf.stored _ hst 0 (fun j hj => ?_)
            have : j = 0 := by omega
            subst this; exact h0
          · rename_i hz
            have hz' : storedCond ≠ 0#w := by simpa using hz
            exact infinite_meaning cv cond _ hnz
              (fun h0 => stored_diverges cv storedCond hz' (hf.stored _ hst) h0)
        · split
          · exact unknown_meaning cv cond _ hnz
          · split
            · rename_i expr hgb
              split
              · -- constant step
                rename_i inc hinc
                have hrec : ∀ k, Live cv k → cv (k + 1) = cv k + inc := by
                  intro k hk
                  obtain ⟨f, hfc, hfe⟩ := hf.both expr hgb k hk
                  rw [hfe]
                  show evaluate expr f = _
                  rw [C15.constIncOf_recompose expr cond inc f hinc, hfc, BitVec.add_comm]
                split
                · rename_i m hm
                  have hm0 : cv 0 = m := hf.init m hm
                  split
                  · rename_i n hn
                    rw [← hm0] at hn
                    exact ofExpr_val_meaning cv cond n (tripCount_runs hw cv inc n hrec hn)
                  · rename_i hn
                    rw [← hm0] at hn
                    exact infinite_meaning cv cond _ hnz
                      (fun _ => tripCount_diverges hw cv inc hrec hn)
                · split
                  · rename_i inv hinv
                    exact ofExpr_invvar_meaning hw cv cond inv (C01Opt.tripInv_some_odd inc inv hinv)
                      (tripInv_runs hw cv inc inv hrec hinv)
                  · split
                    · rename_i hz
                      have hz' : inc = 0#w := by simpa using hz
                      subst hz'
                      refine infinite_meaning cv cond _ hnz (fun h0 => ?_)
                      exact const_diverges cv (fun k hk => by rw [hrec k hk]; simp) h0
                    · exact unknown_meaning cv cond _ hnz
              · split
                · rename_i hid
                  have hid' : Expr.identity expr = some cond := by simpa using hid
                  refine infinite_meaning cv cond _ hnz (fun h0 => ?_)
                  refine const_diverges cv (fun k hk => ?_) h0
                  obtain ⟨f, hfc, hfe⟩ := hf.both expr hgb k hk
                  rw [hfe]
                  show evaluate expr f = _
                  rw [C15.identity_recompose expr cond f hid', hfc]
                · exact unknown_meaning cv cond _ hnz
            · exact unknown_meaning cv cond _ hnz

/-- The body does not return (`sub.noReturn`): the result is `OptLoop::no_return`, or the loop is known never
to be entered. -/
theorem analyzeLoop_noReturn (s : Rebuild w) (ps : List (Rebuild w)) (sub : Rebuild w)
    (cond : Int) (isLoop : Bool) (hnr : sub.noReturn = true) :
    (getConstant s ps cond = some 0#w ∧ analyzeLoop s ps sub cond isLoop = OptLoop.ofExpr (Expr.val 0#w)) ∨
    (getConstant s ps cond ≠ some 0#w ∧
      analyzeLoop s ps sub cond isLoop = OptLoop.noReturn (isNonZero s ps cond)) := by
  unfold analyzeLoop
  simp only
  split
  · rename_i h0
    exact Or.inl ⟨by simpa using h0, rfl⟩
  · rename_i h0
    right
    refine ⟨by simpa using h0, ?_⟩
    rfl

/-- In every case: `never` means the initial value is zero, `atLeastOnce` that it is not. -/
theorem analyzeLoop_entry (s : Rebuild w) (ps : List (Rebuild w)) (sub : Rebuild w)
    (cond : Int) (isLoop : Bool) (c0 : BitVec w)
    (hinit : ∀ c, getConstant s ps cond = some c → c0 = c)
    (hnz : isNonZero s ps cond = true → c0 ≠ 0#w)
    (hsound : sub.noReturn = false →
      ((analyzeLoop s ps sub cond isLoop).never = true → c0 = 0#w) ∧
      ((analyzeLoop s ps sub cond isLoop).atLeastOnce = true → c0 ≠ 0#w)) :
    ((analyzeLoop s ps sub cond isLoop).never = true → c0 = 0#w) ∧
    ((analyzeLoop s ps sub cond isLoop).atLeastOnce = true → c0 ≠ 0#w) := by
  cases hnr : sub.noReturn with
  | false => exact hsound hnr
  | true =>
    rcases analyzeLoop_noReturn s ps sub cond isLoop hnr with ⟨hc, heq⟩ | ⟨_, heq⟩
    · rw [heq]
      refine ⟨fun _ => hinit _ hc, fun h => ?_⟩
      simp [OptLoop.ofExpr, constant_val] at h
    · rw [heq]
      refine ⟨fun h => ?_, fun h => hnz ?_⟩
      · simp [OptLoop.noReturn] at h
      · simpa [OptLoop.noReturn] using h

end Hpbf.OptLoop
