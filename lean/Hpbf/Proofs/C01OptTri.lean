/-
C01 (OptArith section), triangular sums: the three halving alternatives of `triStep`
(`loop_motion`, `for (initial, increment) in linears`).  Lemmas for `Hpbf/Props/C01Opt.lean`.
-/
import Hpbf.Proofs.C01OptArith

namespace Hpbf.C01Opt
namespace Lemmas
open Hpbf

variable {w : Nat}

/-! ### `N * (N - 1) / 2` -/

theorem half_succ (N : Nat) : (N + 1) * (N + 1 - 1) / 2 = N * (N - 1) / 2 + N := by
  cases N with
  | zero => rfl
  | succ M =>
    have : (M + 1 + 1) * (M + 1 + 1 - 1) = (M + 1) * (M + 1 - 1) + 2 * (M + 1) := by
      simp only [Nat.add_sub_cancel]; ring
    rw [this, Nat.add_mul_div_left _ _ (by decide : 0 < 2)]

theorem two_mul_half (N : Nat) : 2 * (N * (N - 1) / 2) = N * (N - 1) := by
  induction N with
  | zero => rfl
  | succ N ih =>
    rw [half_succ, Nat.mul_add, ih, Nat.add_sub_cancel]
    cases N with
    | zero => rfl
    | succ M => simp only [Nat.add_sub_cancel]; ring

theorem half_even (q : Nat) : (q * 2) * (q * 2 - 1) / 2 = q * (q * 2 - 1) := by
  rw [Nat.mul_comm q 2, Nat.mul_assoc, Nat.mul_div_cancel_left _ (by decide : 0 < 2)]

theorem half_odd (q : Nat) : (q * 2 + 1) * (q * 2 + 1 - 1) / 2 = (q * 2 + 1) * q := by
  have : (q * 2 + 1) * (q * 2 + 1 - 1) = 2 * ((q * 2 + 1) * q) := by
    simp only [Nat.add_sub_cancel]; ring
  rw [this, Nat.mul_div_cancel_left _ (by decide : 0 < 2)]

/-! ### `tri` -/

@[simp] theorem tri_zero (I D : BitVec w) : tri I D 0 = 0#w := rfl
theorem tri_succ (I D : BitVec w) (k : Nat) :
    tri I D (k + 1) = tri I D k + (I + BitVec.ofNat w k * D) := rfl

/-- Closed form of the triangular sum. -/
theorem tri_closed (I D : BitVec w) (N : Nat) :
    tri I D N = BitVec.ofNat w N * I + BitVec.ofNat w (N * (N - 1) / 2) * D := by
  induction N with
  | zero =>
    show 0#w = BitVec.ofNat w 0 * I + BitVec.ofNat w 0 * D
    bvring
  | succ N ih => rw [tri_succ, ih, half_succ]; bvring

/-- `tri` as the accumulator of the loop it replaces: after `k` rounds of
`(acc, add) ↦ (acc + add, add + D)` from `(B, I)`. -/
theorem tri_loop (B I D : BitVec w) (k : Nat) :
    (fun s : BitVec w × BitVec w => (s.1 + s.2, s.2 + D))^[k] (B, I)
      = (B + tri I D k, I + BitVec.ofNat w k * D) := by
  induction k with
  | zero => rw [Function.iterate_zero_apply, tri_zero]; refine Prod.ext ?_ ?_ <;> (simp only; bvring)
  | succ k ih =>
    rw [Function.iterate_succ_apply', ih, tri_succ]
    refine Prod.ext ?_ ?_ <;> (simp only; bvring)

theorem double_tri (N : Nat) (h : BitVec w) :
    BitVec.ofNat w (N * (N - 1) / 2) * (h + h)
      = BitVec.ofNat w N * (BitVec.ofNat w N + -1#w) * h := by
  have : BitVec.ofNat w (N * (N - 1) / 2) * (h + h)
      = BitVec.ofNat w (2 * (N * (N - 1) / 2)) * h := by bvring
  rw [this, two_mul_half]
  cases N with
  | zero => bvring
  | succ M => simp only [Nat.add_sub_cancel]; bvring

/-- Alternative 1: the increment is even (`D = h + h`); any representative `N` of the trip count. -/
theorem core1 (B I D h E : BitVec w) (N : Nat) (hE : E = BitVec.ofNat w N) (hD : D = h + h) :
    E * I + (B + E * ((E + -1#w) * h)) = B + tri I D N := by
  rw [tri_closed, hD, double_tri, ← hE]; bvring

/-- Alternative 2: the trip count is `N = 2 * H` with no wrap-around. -/
theorem core2 (B I D H E : BitVec w) (N : Nat) (hq : H.toNat * 2 = N) (hE : E = H + H) :
    E * I + (B + (E + -1#w) * (D * H)) = B + tri I D N := by
  have hH : H = BitVec.ofNat w H.toNat := by rw [BitVec.ofNat_toNat, BitVec.setWidth_eq]
  generalize H.toNat = q at hq hH
  subst hq hE hH
  rw [tri_closed, half_even]
  cases q with
  | zero => bvring
  | succ r =>
    have : (r + 1) * 2 - 1 = 2 * r + 1 := by omega
    rw [this]; bvring

/-- Alternative 3: the trip count is `N = 2 * H + 1` with no wrap-around. -/
theorem core3 (B I D H E : BitVec w) (N : Nat) (hq : H.toNat * 2 + 1 = N)
    (hE : E + -1#w = H + H) :
    E * I + (B + E * (D * H)) = B + tri I D N := by
  have hE' : E = H + H + 1#w := by
    calc E = (E + -1#w) + 1#w := by bvring
      _ = H + H + 1#w := by rw [hE]
  have hH : H = BitVec.ofNat w H.toNat := by rw [BitVec.ofNat_toNat, BitVec.setWidth_eq]
  generalize H.toNat = q at hq hH
  subst hq hE' hH
  rw [tri_closed, half_odd]; bvring

/-! ### expression side -/

/-- What `triStep` returns, alternative by alternative. -/
theorem triStep_cases (expr initial increment before r : Expr w) (b : Nat)
    (h : OptArith.triStep expr initial increment before = (b, r)) :
    (b = 1 ∧ ∃ hi, Expr.half increment = some hi ∧
      r = Expr.add (Expr.mul expr initial) (Expr.add before
            (Expr.mul expr (Expr.mul (Expr.add expr (Expr.val (-1#w))) hi)))) ∨
    (b = 2 ∧ Expr.half increment = none ∧ ∃ hx, Expr.half expr = some hx ∧
      r = Expr.add (Expr.mul expr initial) (Expr.add before
            (Expr.mul (Expr.add expr (Expr.val (-1#w))) (Expr.mul increment hx)))) ∨
    (b = 3 ∧ Expr.half increment = none ∧ Expr.half expr = none ∧
      ∃ hx, Expr.half (Expr.add expr (Expr.val (-1#w))) = some hx ∧
      r = Expr.add (Expr.mul expr initial) (Expr.add before
            (Expr.mul expr (Expr.mul increment hx)))) ∨
    (b = 0 ∧ Expr.half increment = none ∧ Expr.half expr = none ∧
      Expr.half (Expr.add expr (Expr.val (-1#w))) = none ∧ r = before) := by
  unfold OptArith.triStep at h
  cases h1 : Expr.half increment with
  | some hi =>
    simp only [h1, Prod.mk.injEq] at h
    obtain ⟨rfl, rfl⟩ := h
    exact Or.inl ⟨rfl, hi, rfl, rfl⟩
  | none =>
    cases h2 : Expr.half expr with
    | some hx =>
      simp only [h1, h2, Prod.mk.injEq] at h
      obtain ⟨rfl, rfl⟩ := h
      exact Or.inr (Or.inl ⟨rfl, rfl, hx, rfl, rfl⟩)
    | none =>
      cases h3 : Expr.half (Expr.add expr (Expr.val (-1#w))) with
      | some hx =>
        simp only [h1, h2, h3, Prod.mk.injEq] at h
        obtain ⟨rfl, rfl⟩ := h
        exact Or.inr (Or.inr (Or.inl ⟨rfl, rfl, rfl, hx, rfl, rfl⟩))
      | none =>
        simp only [h1, h2, h3, Prod.mk.injEq] at h
        obtain ⟨rfl, rfl⟩ := h
        exact Or.inr (Or.inr (Or.inr ⟨rfl, rfl, rfl, rfl, rfl⟩))

theorem triStep_branch0 (expr initial increment before r : Expr w) (b : Nat)
    (h : OptArith.triStep expr initial increment before = (b, r)) (hb : b = 0) : r = before := by
  rcases triStep_cases expr initial increment before r b h with
    ⟨h1, _⟩ | ⟨h2, _⟩ | ⟨h3, _⟩ | ⟨_, _, _, _, hr⟩
  · omega
  · omega
  · omega
  · exact hr

theorem triStep_branch1 (expr initial increment before r : Expr w) (b : Nat)
    (h : OptArith.triStep expr initial increment before = (b, r)) (hb : b = 1)
    (f : Int → BitVec w) (N : Nat) (hN : Expr.evaluate expr f = BitVec.ofNat w N) :
    Expr.evaluate r f = Expr.evaluate before f
      + tri (Expr.evaluate initial f) (Expr.evaluate increment f) N := by
  rcases triStep_cases expr initial increment before r b h with
    ⟨_, hi, h1, rfl⟩ | ⟨h2, _⟩ | ⟨h3, _⟩ | ⟨h0, _⟩
  · simp only [C15.value_add, C15.value_mul, C15.value_val]
    exact core1 _ _ _ _ _ N hN (C15.value_half increment hi f h1)
  · omega
  · omega
  · omega

theorem triStep_branch2 (expr initial increment before r : Expr w) (b : Nat)
    (h : OptArith.triStep expr initial increment before = (b, r)) (hb : b = 2)
    (f : Int → BitVec w) (N : Nat) (hx : Expr w) (hh : Expr.half expr = some hx)
    (hq : (Expr.evaluate hx f).toNat * 2 = N) :
    Expr.evaluate r f = Expr.evaluate before f
      + tri (Expr.evaluate initial f) (Expr.evaluate increment f) N := by
  rcases triStep_cases expr initial increment before r b h with
    ⟨h1, _⟩ | ⟨_, _, hx', h2, rfl⟩ | ⟨h3, _⟩ | ⟨h0, _⟩
  · omega
  · rw [hh] at h2
    obtain rfl : hx = hx' := Option.some.inj h2
    simp only [C15.value_add, C15.value_mul, C15.value_val]
    exact core2 _ _ _ _ _ N hq (C15.value_half expr hx f hh)
  · omega
  · omega

theorem triStep_branch3 (expr initial increment before r : Expr w) (b : Nat)
    (h : OptArith.triStep expr initial increment before = (b, r)) (hb : b = 3)
    (f : Int → BitVec w) (N : Nat) (hx : Expr w)
    (hh : Expr.half (Expr.add expr (Expr.val (-1#w))) = some hx)
    (hq : (Expr.evaluate hx f).toNat * 2 + 1 = N) :
    Expr.evaluate r f = Expr.evaluate before f
      + tri (Expr.evaluate initial f) (Expr.evaluate increment f) N := by
  rcases triStep_cases expr initial increment before r b h with
    ⟨h1, _⟩ | ⟨h2, _⟩ | ⟨_, _, _, hx', h3, rfl⟩ | ⟨h0, _⟩
  · omega
  · omega
  · rw [hh] at h3
    obtain rfl : hx = hx' := Option.some.inj h3
    simp only [C15.value_add, C15.value_mul]
    refine core3 _ _ _ _ _ N hq ?_
    have := C15.value_half _ hx f hh
    rw [C15.value_add, C15.value_val] at this
    exact this
  · omega

/-! ### constant trip counts -/

theorem add_nil_right (a : Expr w) : Expr.add a [] = a := by
  cases a with
  | nil => rw [Expr.add]
  | cons p ps => rw [Expr.add]; exact List.cons_ne_nil _ _

theorem add_val_val (c d : BitVec w) :
    Expr.add (Expr.val c) (Expr.val d) = Expr.val (c + d) := by
  unfold Expr.val
  by_cases hc : c = 0#w
  · subst hc
    rw [if_pos rfl, BitVec.zero_add, Expr.add]
  · by_cases hd : d = 0#w
    · subst hd
      rw [if_pos rfl, BitVec.add_zero, add_nil_right]
    · rw [if_neg hc, if_neg hd, Expr.add]
      simp only [Expr.cmpVars]
      by_cases hs : c + d = 0#w
      · simp [hs, add_nil_right]
      · simp [hs, add_nil_right]

theorem evaluate_const (x : BitVec w) (f : Int → BitVec w) :
    Expr.evaluate [({ coef := x, vars := [] } : Part w)] f = x := by
  simp [Expr.evaluate, Expr.evalPart]

/-- Halving an even cell value by `wrapping_shr(1)` does not wrap. -/
theorem wshr_one_toNat (c : BitVec w) (h : Cell.isOdd c = false) :
    (Cell.wshr c 1).toNat * 2 = c.toNat := by
  unfold Cell.wshr
  have hc := c.isLt
  by_cases h1 : 1 < w
  · have he : ¬ c.toNat % 2 = 1 := by
      rw [← C14.isOdd_iff (by omega), h]; simp
    rw [if_pos h1, BitVec.toNat_ushiftRight, Nat.shiftRight_eq_div_pow]
    omega
  · rw [if_neg h1]
    have hw' : w = 0 ∨ w = 1 := by omega
    rcases hw' with rfl | rfl
    · simp at hc ⊢; omega
    · have he : ¬ c.toNat % 2 = 1 := by
        rw [← C14.isOdd_iff (by omega), h]; simp
      simp at hc ⊢; omega

theorem half_val_toNat (c : BitVec w) (hx : Expr w) (f : Int → BitVec w)
    (h : Expr.half (Expr.val c) = some hx) : (Expr.evaluate hx f).toNat * 2 = c.toNat := by
  unfold Expr.val at h
  by_cases hc : c = 0#w
  · subst hc
    rw [if_pos rfl] at h
    simp [Expr.half] at h
    subst h
    simp
  · rw [if_neg hc] at h
    simp [Expr.half] at h
    obtain ⟨hodd, rfl⟩ := h
    rw [evaluate_const]
    exact wshr_one_toNat c hodd

theorem toNat_pred (c : BitVec w) (hc : c ≠ 0#w) : (c + -1#w).toNat + 1 = c.toNat := by
  have hw : 0 < w := by
    rcases Nat.eq_zero_or_pos w with rfl | hw
    · exact absurd (Subsingleton.elim _ _) hc
    · exact hw
  have h1 : (c + -1#w) + 1#w = c := by bvring
  have h2 := congrArg BitVec.toNat h1
  rw [BitVec.toNat_add, BitVec.toNat_one hw] at h2
  have hd := (c + -1#w).isLt
  have hc0 : c.toNat ≠ 0 := fun e => hc (BitVec.eq_of_toNat_eq (by simpa using e))
  generalize (c + -1#w).toNat = d at h2 hd ⊢
  by_cases hlt : d + 1 < 2 ^ w
  · rw [Nat.mod_eq_of_lt hlt] at h2; exact h2
  · have : d + 1 = 2 ^ w := by omega
    rw [this, Nat.mod_self] at h2
    exact absurd h2.symm hc0

/-- A constant trip count: the side conditions of alternatives 2 and 3 hold. -/
theorem triStep_val_sound (c : BitVec w) (initial increment before r : Expr w) (b : Nat)
    (h : OptArith.triStep (Expr.val c) initial increment before = (b, r)) (hb : b ≠ 0)
    (f : Int → BitVec w) :
    Expr.evaluate r f = Expr.evaluate before f
      + tri (Expr.evaluate initial f) (Expr.evaluate increment f) c.toNat := by
  rcases triStep_cases _ initial increment before r b h with
    ⟨b1, _⟩ | ⟨b2, _, hx, h2, _⟩ | ⟨b3, _, hnone, hx, h3, _⟩ | ⟨h0, _⟩
  · refine triStep_branch1 _ initial increment before r b h b1 f c.toNat ?_
    rw [C15.value_val, BitVec.ofNat_toNat, BitVec.setWidth_eq]
  · exact triStep_branch2 _ initial increment before r b h b2 f c.toNat hx h2
      (half_val_toNat c hx f h2)
  · have hc : c ≠ 0#w := by
      rintro rfl
      simp [Expr.val, Expr.half] at hnone
    refine triStep_branch3 _ initial increment before r b h b3 f c.toNat hx h3 ?_
    rw [add_val_val] at h3
    rw [half_val_toNat _ hx f h3]
    exact toNat_pred c hc
  · exact absurd h0 hb

/-! ### trip counts with an odd coefficient on a variable -/

theorem half_none_of_odd (e : Expr w) (p : Part w) (hp : p ∈ e) (ho : Cell.isOdd p.coef = true) :
    Expr.half e = none := by
  unfold Expr.half
  rw [if_neg]
  intro hall
  have := List.all_eq_true.1 hall p hp
  simp [ho] at this

/-- Adding a constant keeps every non-constant part. -/
theorem mem_add_val (e : Expr w) (d : BitVec w) (p : Part w) (hp : p ∈ e) (hv : p.vars ≠ []) :
    p ∈ Expr.add e (Expr.val d) := by
  unfold Expr.val
  by_cases hd : d = 0#w
  · rw [if_pos hd, add_nil_right]; exact hp
  · rw [if_neg hd]
    cases e with
    | nil => cases hp
    | cons p0 ps =>
      rw [Expr.add]
      cases hv0 : p0.vars with
      | nil =>
        have hne : p ≠ p0 := fun e => hv (e ▸ hv0)
        have hps : p ∈ ps := by
          rcases List.mem_cons.1 hp with h | h
          · exact absurd h hne
          · exact h
        simp only [Expr.cmpVars, add_nil_right]
        split
        · exact List.mem_cons_of_mem _ hps
        · exact hps
      | cons v vs =>
        simp only [Expr.cmpVars, add_nil_right]
        exact List.mem_cons_of_mem _ hp

/-- If some non-constant part of the trip count has an odd coefficient, neither the trip count
nor the trip count minus one can be halved. -/
theorem triStep_oddpart_no_half (expr initial increment before r : Expr w) (b : Nat)
    (h : OptArith.triStep expr initial increment before = (b, r))
    (p : Part w) (hp : p ∈ expr) (hv : p.vars ≠ []) (ho : Cell.isOdd p.coef = true) :
    b = 0 ∨ b = 1 := by
  have e2 : Expr.half expr = none := half_none_of_odd expr p hp ho
  have e3 : Expr.half (Expr.add expr (Expr.val (-1#w))) = none :=
    half_none_of_odd _ p (mem_add_val expr _ p hp hv) ho
  rcases triStep_cases expr initial increment before r b h with
    ⟨b1, _⟩ | ⟨_, _, hx, h2, _⟩ | ⟨_, _, _, hx, h3, _⟩ | ⟨b0, _⟩
  · exact Or.inr b1
  · rw [e2] at h2; cases h2
  · rw [e3] at h3; cases h3
  · exact Or.inl b0

/-- The optimiser's trip-count shape for an unknown initial value: `inv * x_v`, one part. -/
theorem invvar_eq (hw : 0 < w) (inv : BitVec w) (v : Int) (ho : Cell.isOdd inv = true) :
    Expr.mul (Expr.val inv) (Expr.var v) = [({ coef := inv, vars := [v] } : Part w)] := by
  have hne : inv ≠ 0#w := by
    rintro rfl
    have := (C14.isOdd_iff hw (0#w)).1 ho
    simp at this
  simp [Expr.val, Expr.var, hne, Expr.mul, Expr.scaleAppend, Expr.stableSort, Expr.insertSorted,
    Expr.sortVars]

theorem triStep_invvar_no_half (hw : 0 < w) (inv : BitVec w) (v : Int)
    (ho : Cell.isOdd inv = true) (initial increment before r : Expr w) (b : Nat)
    (h : OptArith.triStep (Expr.mul (Expr.val inv) (Expr.var v)) initial increment before = (b, r)) :
    b = 0 ∨ b = 1 := by
  refine triStep_oddpart_no_half _ initial increment before r b h
    { coef := inv, vars := [v] } ?_ (by simp) ho
  rw [invvar_eq hw inv v ho]
  exact List.mem_singleton.2 rfl

theorem triStep_invvar_sound (hw : 0 < w) (inv : BitVec w) (v : Int)
    (ho : Cell.isOdd inv = true) (initial increment before r : Expr w) (b : Nat)
    (h : OptArith.triStep (Expr.mul (Expr.val inv) (Expr.var v)) initial increment before = (b, r))
    (hb : b ≠ 0) (f : Int → BitVec w) (N : Nat) (hN : inv * f v = BitVec.ofNat w N) :
    Expr.evaluate r f = Expr.evaluate before f
      + tri (Expr.evaluate initial f) (Expr.evaluate increment f) N := by
  rcases triStep_invvar_no_half hw inv v ho initial increment before r b h with b0 | b1
  · exact absurd b0 hb
  · refine triStep_branch1 _ initial increment before r b h b1 f N ?_
    rw [C15.value_mul, C15.value_val, C15.value_var, hN]

end Lemmas
end Hpbf.C01Opt
