/-
C02 / C13 (`allocate_temps` is total), part 5: the whole loop and the final assertion.
`allocateTemps_total_of_pre`: on every state satisfying `TotalPre` the pass returns a state, for every `numRegs`.
-/
import Hpbf.Proofs.C02AllocTotalStep
set_option linter.unusedSimpArgs false

namespace Hpbf
namespace C02

open Bc BcWf BcGen C11 Alloc

variable {w : Nat} {s : St w}

namespace Alloc

theorem allocLoop_total (hp : TotalPre s) (numRegs : Nat) : ∀ (j : Nat), j ≤ s.insts.size → ∀ a : ASt w,
    PassInv s (s.insts.size - j) a → TInv s numRegs (s.insts.size - j) a →
    ∃ u a', allocLoop numRegs s.insts.size j a = .ok (u, a') ∧ TInv s numRegs s.insts.size a' := by
  intro j
  induction j with
  | zero =>
    intro _ a _ hT
    exact ⟨(), a, rfl, by simpa using hT⟩
  | succ j ih =>
    intro hj a hI hT
    have hk : s.insts.size - (j + 1) < s.insts.size := by omega
    obtain ⟨u1, a1, h1⟩ := alloc_step_total hp numRegs hk hI hT
    have hI1 := (alloc_step hp.pre hI h1).inv
    have hT1 := tinv_step hp hk hI hT h1
    have e : s.insts.size - (j + 1) + 1 = s.insts.size - j := by omega
    rw [e] at hI1 hT1
    obtain ⟨u2, a2, h2, hT2⟩ := ih (by omega) a1 hI1 hT1
    refine ⟨u2, a2, ?_, hT2⟩
    simp only [allocLoop]
    exact (bind_ok _ _ _ _ _).2 ⟨u1, a1, h1, h2⟩

end Alloc

/-- **`allocate_temps` is total on `TotalPre`**, for every number of registers. -/
theorem allocateTemps_total_of_pre (hp : TotalPre s) (numRegs : Nat) : ∃ s', allocateTemps numRegs s = .ok s' := by
  obtain ⟨u, a, h, hT⟩ := allocLoop_total hp numRegs s.insts.size (Nat.le_refl _) (initASt numRegs s)
    (by rw [Nat.sub_self]; exact passInv_init hp.pre numRegs)
    (by rw [Nat.sub_self]; exact tinv_init hp numRegs)
  have hempty : a.repl.isEmpty = true := by
    cases hr : a.repl with
    | nil => rfl
    | cons p rest =>
      exfalso
      obtain ⟨t, l⟩ := p
      have hg : alGet a.repl t = some l := by rw [hr]; simp [alGet]
      obtain ⟨e, he⟩ := hT.replHeap t l hg
      have := hT.heapBound e t he
      omega
  refine ⟨a.st, ?_⟩
  unfold allocateTemps
  have h' : (allocLoop numRegs s.insts.size s.insts.size).run
      { st := s, nextFresh := numRegs, freeRegs := List.range numRegs, freeTemps := [], nre := [], repl := [] }
      = .ok (u, a) := h
  simp only [h', hempty, if_true]

end C02
end Hpbf
