/-
Rebuild-round proofs, stage 5: the analysis a round RECORDS is sound (`AnalInL`) for the block it EMITS, on that
block's own run from the initial state — for the first round and for rounds that use a previous analysis.
-/
import Hpbf.Proofs.OptRbAnMain1
import Hpbf.Proofs.OptRbTopG

namespace Hpbf
namespace OptProof
open Opt OptSem Ir

variable {w : Nat}

/-- From the `AStep` of the whole block (started in the top-level state `top`) to the recorded analysis. -/
theorem analIn_of_astep {top s' : Rebuild w} {G : State w → Prop} {new : List (Instr w)} {env : Env}
    (hi0 : top.insts = []) (ha0 : top.subAnal = []) (hi : s'.insts = top.insts ++ new)
    (hA : AStep (ValidG G top.shift top []) top s' new)
    (hV : ValidG G top.shift top [] (State.init env)) :
    AnalInL (fun σ => σ = State.init env) s'.insts s'.subAnal := by
  obtain ⟨newA, e1, _, e3⟩ := hA.ext
  rw [hi, hi0, e1, ha0, List.nil_append, List.nil_append]
  refine analInL_mono ?_ e3
  rintro σ rfl
  exact MirV.self hV

/-- **First round.** -/
theorem optimizeOnce_analIn_l1 (hw : 0 < w) {b : Block w} (hcl : CanonL b.insts)
    {os os' : Orders} {b' : Block w} {anal' : OptAnalysis w}
    (hr : (optimizeOnce b (topAnalysis [] [])).run os = .ok ((b', anal'), os')) (env : Env) :
    AnalInL (fun σ => σ = State.init env) b'.insts anal'.subBlocks := by
  unfold optimizeOnce at hr
  rw [run_bind_ok] at hr
  obtain ⟨st, os1, h1, h2⟩ := hr
  rw [run_pure] at h2
  cases h2
  unfold rebuildBlock at h1
  rw [run_bind_ok] at h1
  obtain ⟨⟨s', done⟩, os2, h3, h4⟩ := h1
  rw [run_pure] at h4
  cases h4
  obtain ⟨f1, f2, f3, f4, f5, f6, f7, f8, f9, f10, f11⟩ :=
    reverseSubBlocks_fields (Rebuild.new 0 none .zero (some (topAnalysis [] [])) : Rebuild w)
  obtain ⟨_, new, hi, hA⟩ := rebuildInsts_an_all1 hw b.insts [] _ os _ s' done h3 inv1_top hcl
    (by rw [f5]; rfl)
  have hrel := rel_init (w := w)
    (s := reverseSubBlocks (Rebuild.new 0 none .zero (some (topAnalysis [] [])))) []
    (by rw [f1]; rfl) (by rw [f3]; rfl) (by rw [f2]; rfl) (by rw [f8]; rfl) (by rw [f7]; rfl)
    (by rw [f5]; rfl) env
  have key := analIn_of_astep (env := env) (by rw [f10]; rfl) (by rw [f11]; rfl) hi hA ⟨_, _, hrel, trivial⟩
  have e1 : (if done = true then { s' with shift := s'.shift + b.shift } else s').insts = s'.insts := by
    split <;> rfl
  have e2 : (if done = true then { s' with shift := s'.shift + b.shift } else s').subAnal = s'.subAnal := by
    split <;> rfl
  show AnalInL _ (if done = true then { s' with shift := s'.shift + b.shift } else s').insts
    (if done = true then { s' with shift := s'.shift + b.shift } else s').subAnal
  rw [e1, e2]; exact key

/-- **A round that uses a fitting and sound previous analysis.** -/
theorem optimizeOnce_analIn_g (hw : 0 < w) {b : Block w} (hcl : CanonL b.insts) {prevAnal : OptAnalysis w}
    (hamo : prevAnal.loopAnal.atMostOnce = true) {env : Env} (hs : ShapeL b.insts prevAnal.subBlocks)
    (ha : AnalInL (fun σ => σ = State.init env) b.insts prevAnal.subBlocks)
    {os os' : Orders} {b' : Block w} {anal' : OptAnalysis w}
    (hr : (optimizeOnce b prevAnal).run os = .ok ((b', anal'), os')) :
    AnalInL (fun σ => σ = State.init env) b'.insts anal'.subBlocks := by
  unfold optimizeOnce at hr
  rw [run_bind_ok] at hr
  obtain ⟨st, os1, h1, h2⟩ := hr
  rw [run_pure] at h2
  cases h2
  unfold rebuildBlock at h1
  rw [run_bind_ok] at h1
  obtain ⟨⟨s', done⟩, os2, h3, h4⟩ := h1
  rw [run_pure] at h4
  cases h4
  obtain ⟨f1, f2, f3, f4, f5, f6, f7, f8, f9, f10, f11⟩ :=
    reverseSubBlocks_fields (Rebuild.new 0 none .zero (some prevAnal) : Rebuild w)
  have hsubs : subsOf (reverseSubBlocks (Rebuild.new 0 none .zero (some prevAnal)) : Rebuild w) =
      prevAnal.subBlocks := subsOf_child _ _ _ _
  have hind : ShiftIndep (reverseSubBlocks (Rebuild.new 0 none .zero (some prevAnal)) : Rebuild w) := by
    unfold ShiftIndep
    rw [acore_child]
    exact Or.inl hamo
  obtain ⟨new, hi, hA⟩ := rebuildInsts_an_all_g hw b.insts (fun σ => σ = State.init env) [] _ os _ s'
    done h3 (invA_top prevAnal) hcl (by rw [f5]; rfl) (by rw [hsubs]; exact hs) (by rw [hsubs]; exact ha)
    (Or.inl hind) (pvClean_child _ _ _ _ _)
  have hrel := rel_init (w := w)
    (s := reverseSubBlocks (Rebuild.new 0 none .zero (some prevAnal))) []
    (by rw [f1]; rfl) (by rw [f3]; rfl) (by rw [f2]; rfl) (by rw [f8]; rfl) (by rw [f7]; rfl)
    (by rw [f5]; rfl) env
  have key := analIn_of_astep (env := env) (by rw [f10]; rfl) (by rw [f11]; rfl) hi hA ⟨_, _, hrel, rfl⟩
  have e1 : (if done = true then { s' with shift := s'.shift + b.shift } else s').insts = s'.insts := by
    split <;> rfl
  have e2 : (if done = true then { s' with shift := s'.shift + b.shift } else s').subAnal = s'.subAnal := by
    split <;> rfl
  show AnalInL _ (if done = true then { s' with shift := s'.shift + b.shift } else s').insts
    (if done = true then { s' with shift := s'.shift + b.shift } else s').subAnal
  rw [e1, e2]; exact key

#print axioms rebuildInsts_an_all_g
#print axioms rebuildInsts_an_all1
#print axioms optimizeOnce_analIn_l1
#print axioms optimizeOnce_analIn_g

end OptProof
end Hpbf
