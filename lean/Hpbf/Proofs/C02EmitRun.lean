/-
C02 (first phase), part 7: from the simulation to statements about `Ir.run` and `Bc.run`.

* `OnceOk` / `NoOnce`   – the precondition on loops marked `once`;
* `R_init`              – the initial configurations are related;
* `forward_state`       – terminating IR runs are matched with equal final STATE (not only trace);
* `bcM_run`             – `Sim.run (BcM p)` against `Bc.runCfg p false`;
* forward / backward / prefix for whole runs.
-/
import Hpbf.Proofs.C02EmitSim

namespace Hpbf
namespace C02Emit
open BcGen Bc Sim Expr

variable {w : Nat}

/-! ### unlimited bytecode steps -/

theorem step_unlimited (p : Bc.Program w) (c : Bc.Cfg w) :
    (∀ c', Bc.step p false c ≠ .interrupted c') ∧ (∀ c', Bc.step p false c = .bad c' → c' = c) := by
  cases hi : p.insts[c.pc]? with
  | none =>
    simp only [Bc.step, hi]
    split <;> simp
  | some ins =>
    rw [C11.step_eq hi]
    cases ins <;> simp only [C11.stepI, C11.branch, C11.arith]
    all_goals (repeat' split) <;> simp_all

/-- Observation of a bytecode outcome in unlimited mode. -/
def obsBc : Bc.Outcome w → Sim.Out
  | .done c => .fin true c.st.trace
  | .stopped c => .fin false c.st.trace
  | .interrupted c => .fuel c.st.trace
  | .bad c => .fuel c.st.trace
  | .outOfFuel c => .fuel c.st.trace

theorem run_self_loop {M : Mach} {c : M.C} (h : M.step c = .next c) : ∀ f, Sim.run M f c = .fuel (M.tr c) := by
  intro f
  induction f with
  | zero => rfl
  | succ f ih => rw [Sim.run, h]; exact ih

theorem bcM_run (p : Bc.Program w) : ∀ (f : Nat) (c : Bc.Cfg w),
    Sim.run (BcM p) f c = obsBc (Bc.runCfg p false f c) := by
  intro f
  induction f with
  | zero => intro c; rfl
  | succ f ih =>
    intro c
    obtain ⟨hni, hbad⟩ := step_unlimited p c
    cases hs : Bc.step p false c with
    | next c1 =>
      have : (BcM p).step c = .next c1 := by simp only [BcM, hs]
      simp only [Sim.run, this, Bc.runCfg, hs]
      exact ih c1
    | halt c1 =>
      have : (BcM p).step c = .fin true c1.st.trace := by simp only [BcM, hs]
      simp only [Sim.run, this, Bc.runCfg, hs]; rfl
    | stop c1 =>
      have : (BcM p).step c = .fin false c1.st.trace := by simp only [BcM, hs]
      simp only [Sim.run, this, Bc.runCfg, hs]; rfl
    | interrupted c1 => exact absurd hs (hni c1)
    | bad c1 =>
      have e := hbad c1 hs
      subst e
      have : (BcM p).step c1 = .next c1 := by simp only [BcM, hs]
      rw [run_self_loop this, Bc.runCfg, hs]; rfl

theorem obsBc_fin_true {o : Bc.Outcome w} {t : List Ev} (h : obsBc o = .fin true t) :
    ∃ c, o = .done c ∧ c.st.trace = t := by
  cases o <;> simp [obsBc] at h
  exact ⟨_, rfl, h⟩

theorem obsBc_fin_false {o : Bc.Outcome w} {t : List Ev} (h : obsBc o = .fin false t) :
    ∃ c, o = .stopped c ∧ c.st.trace = t := by
  cases o <;> simp [obsBc] at h
  exact ⟨_, rfl, h⟩

theorem trace_obsBc (o : Bc.Outcome w) : (obsBc o).trace = C07.traceOfBc o := by cases o <;> rfl

/-! ### runs through chunks -/

theorem irM_step_next {c c' : Ir.Cfg w} (h : (IrM w).step c = .next c') : Ir.step false c = .next c' := by
  change (match Ir.step false c with
    | .next c' => Sim.Res.next c'
    | .halt c' => .fin true c'.st.trace
    | .stop c' => .fin false c'.st.trace
    | .interrupted c' => .fin true c'.st.trace) = _ at h
  cases hs : Ir.step false c with
  | next c1 => rw [hs] at h; cases h; rfl
  | halt c1 => rw [hs] at h; cases h
  | stop c1 => rw [hs] at h; cases h
  | interrupted c1 => rw [hs] at h; cases h

theorem ir_steps_run {n : Nat} {a a' : (IrM w).C} (h : Steps (IrM w) n a a') (f : Nat) :
    Ir.runCfg false (n + f) a = Ir.runCfg false f a' := by
  induction h with
  | refl _ => simp
  | @cons k x y z hs _ ih =>
    have e : k + 1 + f = (k + f) + 1 := by omega
    rw [e, C07.ir_run_next (irM_step_next hs)]; exact ih

theorem ir_steps_fuel {n : Nat} {a a' : Ir.Cfg w} (h : Steps (IrM w) n a a') :
    Ir.runCfg false n a = .outOfFuel a' := by
  have := ir_steps_run h 0
  simpa [Ir.runCfg] using this

/-- A run that has terminated with fuel `f` passes every chunk boundary. -/
theorem ir_run_done_steps {n f : Nat} {a a' : Ir.Cfg w} {o : Ir.Outcome w}
    (h : Steps (IrM w) n a a') (hr : Ir.runCfg false f a = o) (hfin : ∀ c, o ≠ .outOfFuel c) :
    n < f ∧ Ir.runCfg false (f - n) a' = o := by
  by_cases hle : f ≤ n
  · exfalso
    -- cut the chunk short: the run is out of fuel
    have : ∀ (n : Nat) (a a' : (IrM w).C), Steps (IrM w) n a a' → ∀ f, f ≤ n →
        ∃ c, Ir.runCfg false f a = .outOfFuel c := by
      intro n a a' h
      induction h with
      | refl c => intro f hf; have : f = 0 := by omega
                  subst this; exact ⟨_, rfl⟩
      | @cons k x y z hs _ ih =>
        intro f hf
        cases f with
        | zero => exact ⟨_, rfl⟩
        | succ f =>
          obtain ⟨c, hc⟩ := ih f (by omega)
          exact ⟨c, by rw [C07.ir_run_next (irM_step_next hs)]; exact hc⟩
    obtain ⟨c, hc⟩ := this n a a' h f hle
    rw [hc] at hr
    exact hfin c hr.symm
  · have e : f = n + (f - n) := by omega
    rw [e, ir_steps_run h] at hr
    exact ⟨by omega, hr⟩

theorem bc_steps_run {p : Bc.Program w} {n : Nat} {b b' : (BcM p).C} (h : Steps (BcM p) n b b') :
    ∃ m, ∀ f, Bc.runCfg p false (m + f) b = Bc.runCfg p false f b' := by
  induction h with
  | refl _ => exact ⟨0, fun f => by simp⟩
  | @cons k x y z hs _ ih =>
    obtain ⟨m, hm⟩ := ih
    obtain ⟨hni, hbad⟩ := step_unlimited p x
    cases hst : Bc.step p false x with
    | next c1 =>
      have : y = c1 := by
        have h' : (BcM p).step x = .next c1 := by simp only [BcM, hst]
        rw [h'] at hs; cases hs; rfl
      subst this
      refine ⟨m + 1, fun f => ?_⟩
      have e : m + 1 + f = (m + f) + 1 := by omega
      rw [e, C07.bc_run_next hst]; exact hm f
    | halt c1 => simp only [BcM, hst] at hs; cases hs
    | stop c1 => simp only [BcM, hst] at hs; cases hs
    | interrupted c1 => exact absurd hst (hni c1)
    | bad c1 =>
      -- self loop of `BcM`: `y = x`
      have : y = x := by
        have h' : (BcM p).step x = .next x := by simp only [BcM, hst]
        rw [h'] at hs; cases hs; rfl
      subst this
      exact ⟨m, hm⟩

/-- Terminating IR runs are matched by the bytecode with the same final state. -/
theorem forward_state (P : Bc.Program w) (fuse : Bool) :
    ∀ (f : Nat) (a : Ir.Cfg w) (b : Bc.Cfg w), R P fuse a b →
    (∀ c, Ir.runCfg false f a = .done c → ∃ f' c', Bc.runCfg P false f' b = .done c' ∧ c'.st = c.st) ∧
    (∀ c, Ir.runCfg false f a = .stopped c → ∃ f' c', Bc.runCfg P false f' b = .stopped c' ∧ c'.st = c.st) := by
  intro f
  induction f using Nat.strongRecOn with
  | _ f ih =>
    intro a b hR
    cases chunk hR with
    | silent a' hs hR' _ _ =>
      cases f with
      | zero => constructor <;> intro c hc <;> simp [Ir.runCfg] at hc
      | succ f =>
        have := ih f (by omega) a' b hR'
        simp only [Ir.runCfg, irM_step_next hs]
        exact this
    | sync m n a' b' hA hB hR' _ =>
      obtain ⟨k, hk⟩ := bc_steps_run hB
      constructor
      · intro c hc
        obtain ⟨hlt, hc'⟩ := ir_run_done_steps hA hc (by intro c'; simp)
        obtain ⟨f', c', h1, h2⟩ := (ih (f - (m + 1)) (by omega) a' b' hR').1 c hc'
        exact ⟨k + f', c', by rw [hk]; exact h1, h2⟩
      · intro c hc
        obtain ⟨hlt, hc'⟩ := ir_run_done_steps hA hc (by intro c'; simp)
        obtain ⟨f', c', h1, h2⟩ := (ih (f - (m + 1)) (by omega) a' b' hR').2 c hc'
        exact ⟨k + f', c', by rw [hk]; exact h1, h2⟩
    | halt ca cb h1 h2 h3 _ =>
      cases f with
      | zero => constructor <;> intro c hc <;> simp [Ir.runCfg] at hc
      | succ f =>
        simp only [Ir.runCfg, h1]
        constructor
        · intro c hc
          cases hc
          exact ⟨1, cb, by simp [Bc.runCfg, h2], h3⟩
        · intro c hc; cases hc
    | stop ca cb h1 h2 h3 _ =>
      cases f with
      | zero => constructor <;> intro c hc <;> simp [Ir.runCfg] at hc
      | succ f =>
        simp only [Ir.runCfg, h1]
        constructor
        · intro c hc; cases hc
        · intro c hc
          cases hc
          exact ⟨1, cb, by simp [Bc.runCfg, h2], h3⟩

/-! ### the precondition on `once` loops -/

/-- Initial configuration of the IR interpreter. -/
def irInit (blk : Ir.Block w) (env : Env) : Ir.Cfg w := ⟨blk.insts, [], 0, State.init env⟩

/-- Whenever the (unlimited) IR interpreter reaches a loop marked `once`, its condition cell is
non-zero. -/
def OnceOk (blk : Ir.Block w) (env : Env) : Prop :=
  ∀ (f : Nat) (c : Ir.Cfg w), Ir.runCfg false f (irInit blk env) = .outOfFuel c →
    ∀ cond shift body rest, c.cur = .loop cond shift body true :: rest → c.st.rd cond ≠ 0#w

theorem onceSafe_of_onceOk {blk : Ir.Block w} {env : Env} (h : OnceOk blk env) :
    OnceSafe (irInit blk env) := by
  intro n c' hst cond shift body rest hc
  exact h n c' (ir_steps_fuel hst) cond shift body rest hc

mutual
def noOnceI : Ir.Instr w → Bool
  | .loop _ _ body once => !once && noOnceL body
  | .ifnz _ _ body => noOnceL body
  | .output _ => true
  | .input _ => true
  | .calc _ => true
def noOnceL : List (Ir.Instr w) → Bool
  | [] => true
  | i :: is => noOnceI i && noOnceL is
end

/-- No loop of the block (at any depth) is marked `once`: everything `Program::parse` produces. -/
def NoOnce (blk : Ir.Block w) : Prop := noOnceL blk.insts = true

def noOnceK : List (Ir.Cont w) → Bool
  | [] => true
  | .loopEnd _ _ body rest :: ks => noOnceL body && noOnceL rest && noOnceK ks
  | .ifEnd _ rest :: ks => noOnceL rest && noOnceK ks

def NoOnceCfg (c : Ir.Cfg w) : Prop := noOnceL c.cur = true ∧ noOnceK c.conts = true

theorem noOnce_step {c c' : Ir.Cfg w} (h : NoOnceCfg c) (hs : Ir.step false c = .next c') : NoOnceCfg c' := by
  obtain ⟨cur, conts, bud, st⟩ := c
  obtain ⟨h1, h2⟩ := h
  simp only at h1 h2
  cases cur with
  | nil =>
    cases conts with
    | nil => simp [Ir.step] at hs
    | cons k ks =>
      cases k with
      | loopEnd cond shift body rest =>
        simp only [noOnceK, Bool.and_eq_true] at h2
        simp only [Ir.step, Bool.false_and, Bool.false_eq_true, if_false] at hs
        split at hs <;> cases hs
        · exact ⟨h2.1.1, by simp [noOnceK, h2.1.1, h2.1.2, h2.2]⟩
        · exact ⟨h2.1.2, h2.2⟩
      | ifEnd shift rest =>
        simp only [noOnceK, Bool.and_eq_true] at h2
        simp only [Ir.step, Bool.false_and, Bool.false_eq_true, if_false] at hs
        cases hs
        exact ⟨h2.1, h2.2⟩
  | cons i rest =>
    simp only [noOnceL, Bool.and_eq_true] at h1
    cases i with
    | output src =>
      simp only [Ir.step] at hs
      split at hs <;> cases hs
      exact ⟨h1.2, h2⟩
    | input dst =>
      simp only [Ir.step] at hs
      split at hs <;> cases hs
      exact ⟨h1.2, h2⟩
    | «calc» calcs =>
      simp only [Ir.step] at hs
      cases hs
      exact ⟨h1.2, h2⟩
    | loop cond shift body once =>
      simp only [noOnceI, Bool.and_eq_true] at h1
      simp only [Ir.step] at hs
      split at hs <;> cases hs
      · exact ⟨h1.1.2, by simp [noOnceK, h1.1.2, h1.2, h2]⟩
      · exact ⟨h1.2, h2⟩
    | ifnz cond shift body =>
      simp only [noOnceI] at h1
      simp only [Ir.step] at hs
      split at hs <;> cases hs
      · exact ⟨h1.1, by simp [noOnceK, h1.2, h2]⟩
      · exact ⟨h1.2, h2⟩

theorem onceOk_of_noOnce {blk : Ir.Block w} (h : NoOnce blk) (env : Env) : OnceOk blk env := by
  have key : ∀ (f : Nat) (a c : Ir.Cfg w), NoOnceCfg a → Ir.runCfg false f a = .outOfFuel c → NoOnceCfg c := by
    intro f
    induction f with
    | zero => intro a c ha hr; simp [Ir.runCfg] at hr; subst hr; exact ha
    | succ f ih =>
      intro a c ha hr
      simp only [Ir.runCfg] at hr
      cases hs : Ir.step false a with
      | next a1 => rw [hs] at hr; exact ih a1 c (noOnce_step ha hs) hr
      | halt a1 => rw [hs] at hr; cases hr
      | stop a1 => rw [hs] at hr; cases hr
      | interrupted a1 => rw [hs] at hr; cases hr
  intro f c hr cond shift body rest hc
  have := (key f _ c (show NoOnceCfg (irInit blk env) from ⟨h, rfl⟩) hr).1
  rw [hc] at this
  simp [noOnceL, noOnceI] at this

/-! ### the initial configurations -/

theorem R_init {blk : Ir.Block w} {fuse : Bool} {p : Bc.Program w} (hp : emitOnly blk fuse = .ok p)
    (env : Env) (ho : OnceOk blk env) :
    R p fuse (irInit blk env) ⟨0, [], 0, State.init env⟩ := by
  obtain ⟨s, hs, hi⟩ := emitOnly_insts hp
  have hem := em_of_emitState hs
  refine R.run hem rfl ?_ ⟨by simp [keys], fun e t h => by simp [alGet] at h⟩ (sound_nil _)
    (K.nil (by rw [hi]; rfl)) (onceSafe_of_onceOk ho)
  intro i _ _
  rw [hi]; rfl

end C02Emit
end Hpbf
