/-
C02 / C13 (`allocate_temps` is total), part 6: use counts.  In the code produced by the emission, and after
`dead_store_elim`, the recorded use count of a temporary is at least the number of its occurrences as a source
operand (`CountInv`), and every range entry has its defining instruction at the `created` position (`DefAtP`).
Hence a temporary with use count `0` is not read, and a temporary that is read is still defined.
-/
import Hpbf.Proofs.C02AllocEmitL
set_option linter.unusedSimpArgs false

namespace Hpbf
namespace C02
namespace AEmit

open Bc BcWf BcGen C11 C02Emit

variable {w : Nat}

/-! ### occurrences -/

/-- Number of source operands `tmp t` in the code. -/
def occ (t : Nat) (insts : Array (Instr w)) : Nat := (insts.toList.map (fun x => (BcWf.uses x).count t)).sum

theorem occ_push (t : Nat) (insts : Array (Instr w)) (x : Instr w) :
    occ t (insts.push x) = occ t insts + (BcWf.uses x).count t := by
  simp [occ]

theorem sum_set_g {α : Type} (g : α → Nat) (l : List α) : ∀ (j : Nat) (v : α) (h : j < l.length),
    ((l.set j v).map g).sum + g (l[j]) = (l.map g).sum + g v := by
  induction l with
  | nil => intro j v h; simp at h
  | cons a t ih =>
    intro j v h
    cases j with
    | zero => simp; omega
    | succ j =>
      have := ih j v (by simpa using h)
      simp only [List.set_cons_succ, List.map_cons, List.sum_cons, List.getElem_cons_succ]
      omega

theorem occ_set (t : Nat) {insts : Array (Instr w)} {i : Nat} {x : Instr w} (hi : insts[i]? = some x)
    (y : Instr w) :
    occ t (insts.setIfInBounds i y) + (BcWf.uses x).count t = occ t insts + (BcWf.uses y).count t := by
  have hlt : i < insts.size := Alloc.lt_of_getElem? hi
  unfold occ
  rw [Array.toList_setIfInBounds]
  have := sum_set_g (fun x : Instr w => (BcWf.uses x).count t) insts.toList i y (by simpa using hlt)
  rw [Array.getElem_toList] at this
  have hx : insts[i] = x := by
    have := Array.getElem?_eq_getElem hlt
    rw [hi] at this
    exact (Option.some.inj this).symm
  rw [hx] at this
  exact this

theorem sum_zero_of : ∀ (l : List Nat), (∀ n ∈ l, n = 0) → l.sum = 0
  | [], _ => rfl
  | a :: t, h => by
    have h1 := h a List.mem_cons_self
    have h2 := sum_zero_of t (fun n hn => h n (List.mem_cons_of_mem _ hn))
    simp [h1, h2]

theorem le_sum_of_mem' : ∀ (l : List Nat) {n : Nat}, n ∈ l → n ≤ l.sum
  | a :: t, n, h => by
    rcases List.mem_cons.1 h with rfl | h
    · simp
    · have := le_sum_of_mem' t h
      simp only [List.sum_cons]; omega

theorem occ_eq_zero {t : Nat} {insts : Array (Instr w)}
    (h : ∀ (j : Nat) (x : Instr w), insts[j]? = some x → t ∉ BcWf.uses x) : occ t insts = 0 := by
  unfold occ
  apply sum_zero_of
  intro n hn
  obtain ⟨x, hx, rfl⟩ := List.mem_map.1 hn
  obtain ⟨j, hj, rfl⟩ := List.getElem_of_mem hx
  apply List.count_eq_zero_of_not_mem
  apply h j
  rw [← Array.getElem?_toList]
  exact List.getElem?_eq_getElem hj

theorem not_mem_of_occ_zero {t : Nat} {insts : Array (Instr w)} (h : occ t insts = 0) {j : Nat} {x : Instr w}
    (hx : insts[j]? = some x) : t ∉ BcWf.uses x := by
  intro hm
  unfold occ at h
  have hmem : (BcWf.uses x).count t ∈ insts.toList.map (fun x => (BcWf.uses x).count t) := by
    apply List.mem_map.2
    refine ⟨x, ?_, rfl⟩
    rw [Array.mem_toList_iff]
    exact Array.mem_of_getElem? hx
  have hpos : 0 < (BcWf.uses x).count t := List.count_pos_iff.2 hm
  have : (BcWf.uses x).count t ≤ (insts.toList.map (fun x => (BcWf.uses x).count t)).sum :=
    le_sum_of_mem' _ hmem
  omega

/-! ### the invariants -/

/-- The recorded use count covers the occurrences. -/
def CountInv (s : St w) : Prop :=
  ∀ (t : Nat) (r : RangeInfo), s.ranges[t]? = some r → occ t s.insts ≤ r.numUses

/-- Every range entry has its defining instruction. -/
def DefAtP (s : St w) : Prop :=
  ∀ (t : Nat) (r : RangeInfo), s.ranges[t]? = some r →
    ∃ y, s.insts[r.created]? = some y ∧ dstTmp? y = some t

/-- First and last use are recorded together, in this order. -/
def FL (s : St w) : Prop :=
  ∀ (t : Nat) (r : RangeInfo), s.ranges[t]? = some r →
    (∀ f, r.firstUse = some f → ∃ L, r.lastUse = some L ∧ f ≤ L) ∧
    (∀ L, r.lastUse = some L → ∃ f, r.firstUse = some f)

structure XInv (s : St w) : Prop where
  count : CountInv s
  defAt : DefAtP s
  fl : FL s

theorem xinv_frame {s s' : St w} (h : XInv s) (e1 : s'.ranges = s.ranges) (e2 : s'.insts = s.insts) : XInv s' :=
  ⟨by unfold CountInv; rw [e1, e2]; exact h.count, by unfold DefAtP; rw [e1, e2]; exact h.defAt,
    by unfold FL; rw [e1]; exact h.fl⟩

/-- Appending an instruction that reads no temporary. -/
theorem xinv_push0 {s : St w} (h : XInv s) {x : Instr w} (hu : BcWf.uses x = []) :
    XInv { s with insts := s.insts.push x } := by
  refine ⟨?_, ?_, h.fl⟩
  · intro t r hr
    show occ t (s.insts.push x) ≤ _
    rw [occ_push, hu]
    simpa using h.count t r hr
  · intro t r hr
    obtain ⟨y, hy, hd⟩ := h.defAt t r hr
    refine ⟨y, ?_, hd⟩
    show (s.insts.push x)[r.created]? = some y
    rw [getElem?_push_lt' _ _ (Alloc.lt_of_getElem? hy)]; exact hy

/-- What a sequence of reads does to the range table. -/
theorem reads_ranges : ∀ (l : List Nat) {s s' : St w}, ReadsSpec l s s' →
    s'.insts = s.insts ∧ ∀ t : Nat, (s'.ranges[t]? = none ∧ s.ranges[t]? = none) ∨
      ∃ r r' : RangeInfo, s.ranges[t]? = some r ∧ s'.ranges[t]? = some r' ∧ r'.created = r.created ∧
        r'.numUses = r.numUses + l.count t ∧ (t ∉ l → r' = r) ∧
        (t ∈ l → r'.lastUse = some s.insts.size ∧ (r.firstUse = none → r'.firstUse = some s.insts.size) ∧
          ∀ f, r.firstUse = some f → r'.firstUse = some f)
  | [], s, s', h => by
    rw [h]
    refine ⟨rfl, fun t => ?_⟩
    cases hr : s.ranges[t]? with
    | none => exact Or.inl ⟨rfl, rfl⟩
    | some r => exact Or.inr ⟨r, r, rfl, rfl, rfl, by simp, fun _ => rfl, fun h => by cases h⟩
  | a :: rest, s, s', ⟨s1, h1, h2⟩ => by
    obtain ⟨i2, k2⟩ := reads_ranges rest h2
    obtain ⟨⟨ra, hra, hra'⟩, hother⟩ := ext_ranges h1
    refine ⟨i2.trans h1.insts, fun t => ?_⟩
    by_cases e : t = a
    · subst e
      rcases k2 t with ⟨_, g⟩ | ⟨r1, r', g1, g2, g3, g4, g5, g6⟩
      · rw [hra'] at g; cases g
      · rw [hra'] at g1; cases g1
        refine Or.inr ⟨ra, r', hra, g2, g3, ?_, fun hn => absurd List.mem_cons_self hn, fun _ => ?_⟩
        · rw [g4]; simp [bump]; omega
        · by_cases hm : t ∈ rest
          · obtain ⟨q1, q2, q3⟩ := g6 hm
            rw [h1.insts] at q1 q2
            refine ⟨q1, ?_, ?_⟩
            · intro hn
              exact q3 _ (by simp [bump, hn])
            · intro f hf
              exact q3 f (by simp [bump, hf])
          · rw [g5 hm]
            refine ⟨rfl, ?_, ?_⟩
            · intro hn; simp [bump, hn]
            · intro f hf; simp [bump, hf]
    · rcases k2 t with ⟨g1, g2⟩ | ⟨r1, r', g1, g2, g3, g4, g5, g6⟩
      · exact Or.inl ⟨g1, by rw [← hother t e]; exact g2⟩
      · rw [hother t e] at g1
        refine Or.inr ⟨r1, r', g1, g2, g3, ?_, ?_, ?_⟩
        · rw [g4, List.count_cons_of_ne (fun h => e h.symm)]
        · intro hn
          exact g5 (fun hm => hn (List.mem_cons_of_mem _ hm))
        · intro hm
          rcases List.mem_cons.1 hm with h | h
          · exact absurd h e
          · rw [h1.insts] at g6; exact g6 h

/-- Reads of the operands `l`, then the instruction `inst` (which reads exactly `l`) is appended.  `s0` may have
one range entry (created at the current position) whose defining instruction is `inst`. -/
theorem xinv_reads_push {s0 s2 : St w} {l : List Nat} {inst : Instr w} (hR : ReadsSpec l s0 s2)
    (C0 : CountInv s0) (F0 : FL s0)
    (D0 : ∀ (t : Nat) (r : RangeInfo), s0.ranges[t]? = some r →
      (∃ y, s0.insts[r.created]? = some y ∧ dstTmp? y = some t) ∨
      (r.created = s0.insts.size ∧ dstTmp? inst = some t))
    (hf : ∀ (t : Nat) (r : RangeInfo) (f : Nat), s0.ranges[t]? = some r → r.firstUse = some f → f < s0.insts.size)
    (hu : BcWf.uses inst = l) {s' : St w} (e1 : s'.ranges = s2.ranges) (e2 : s'.insts = s0.insts.push inst) :
    XInv s' := by
  obtain ⟨hi, hk⟩ := reads_ranges l hR
  refine ⟨?_, ?_, ?_⟩
  · intro t r' hr'
    rw [e1] at hr'
    rw [e2, occ_push, hu]
    rcases hk t with ⟨g, _⟩ | ⟨r, r2, g1, g2, g3, g4, _⟩
    · rw [g] at hr'; cases hr'
    · rw [g2] at hr'; cases hr'
      rw [g4]
      have := C0 t r g1
      omega
  · intro t r' hr'
    rw [e1] at hr'
    rcases hk t with ⟨g, _⟩ | ⟨r, r2, g1, g2, g3, _⟩
    · rw [g] at hr'; cases hr'
    · rw [g2] at hr'; cases hr'
      rw [g3, e2]
      rcases D0 t r g1 with ⟨y, hy, hd⟩ | ⟨hc, hd⟩
      · exact ⟨y, by rw [getElem?_push_lt' _ _ (Alloc.lt_of_getElem? hy)]; exact hy, hd⟩
      · exact ⟨inst, by rw [hc]; simp, hd⟩
  · intro t r' hr'
    rw [e1] at hr'
    rcases hk t with ⟨g, _⟩ | ⟨r, r2, g1, g2, g3, g4, g5, g6⟩
    · rw [g] at hr'; cases hr'
    · rw [g2] at hr'; cases hr'
      by_cases hm : t ∈ l
      · obtain ⟨q1, q2, q3⟩ := g6 hm
        refine ⟨?_, fun L _ => ?_⟩
        · intro f hf'
          refine ⟨_, q1, ?_⟩
          cases hfo : r.firstUse with
          | none => rw [q2 hfo] at hf'; cases hf'; exact Nat.le_refl _
          | some f0 =>
            rw [q3 f0 hfo] at hf'; cases hf'
            exact Nat.le_of_lt (hf t r f g1 hfo)
        · cases hfo : r.firstUse with
          | none => exact ⟨_, q2 hfo⟩
          | some f0 => exact ⟨_, q3 f0 hfo⟩
      · rw [g5 hm]; exact F0 t r g1

/-! ### the steps of the emission -/

theorem uses_instOf_eq (e : GvnExpr w) (v : Nat) : BcWf.uses (instOf e v) = opsOf e := by
  cases e <;> rfl
theorem dstTmp?_instOf (e : GvnExpr w) (v : Nat) : dstTmp? (instOf e v) = some v := by
  cases e <;> rfl

theorem first_lt_size {s : St w} (h : LInv s) {t : Nat} {r : RangeInfo} {f : Nat}
    (hr : s.ranges[t]? = some r) (hf : r.firstUse = some f) : f < s.insts.size := by
  obtain ⟨_, _, g⟩ := h.rwf t r hr
  obtain ⟨_, x, hx, _⟩ := g f hf
  exact Alloc.lt_of_getElem? hx

theorem xinv_getValue {e : GvnExpr w} {s s' : St w} {v : Nat} (hl : LInv s) (h : XInv s)
    (hops : ∀ a ∈ opsOf e, a < s.ranges.size) (hg : getValue e s = .ok (v, s')) : XInv s' := by
  rcases getValue_spec hg with ⟨_, rfl⟩ | ⟨rfl, N⟩
  · exact h
  · obtain ⟨s2, h2, rfl⟩ := N.reads
    have hpush : ∀ (t : Nat) (r : RangeInfo) (x : RangeInfo), (s.ranges.push x)[t]? = some r →
        (t < s.ranges.size ∧ s.ranges[t]? = some r) ∨ (t = s.ranges.size ∧ r = x) := by
      intro t r x hr
      rcases getElem?_push_cases hr with ⟨g1, g2⟩ | ⟨g1, g2⟩
      · exact Or.inl ⟨g1, g2⟩
      · exact Or.inr ⟨g1, g2⟩
    refine xinv_reads_push (inst := instOf e s.ranges.size) h2 ?_ ?_ ?_ ?_ (uses_instOf_eq _ _) rfl
      (by show s2.insts.push _ = _; rw [readsSpec_insts _ h2])
    · intro t r hr
      rcases hpush t r _ hr with ⟨_, g⟩ | ⟨g1, g2⟩
      · exact h.count t r g
      · subst g1
        have : occ s.ranges.size s.insts = 0 := by
          apply occ_eq_zero
          intro j x hx hm
          obtain ⟨r0, _, _, q, _⟩ := hl.uses j x _ hx hm
          have := Alloc.lt_of_getElem? q
          omega
        show occ s.ranges.size s.insts ≤ _
        omega
    · intro t r hr
      rcases hpush t r _ hr with ⟨_, g⟩ | ⟨_, g2⟩
      · exact h.fl t r g
      · subst g2
        exact ⟨(fun f hf => by cases hf), (fun L hL => by cases hL)⟩
    · intro t r hr
      rcases hpush t r _ hr with ⟨_, g⟩ | ⟨g1, g2⟩
      · exact Or.inl (h.defAt t r g)
      · subst g1; subst g2
        exact Or.inr ⟨rfl, dstTmp?_instOf _ _⟩
    · intro t r f hr hf
      rcases hpush t r _ hr with ⟨_, g⟩ | ⟨_, g2⟩
      · exact first_lt_size hl g hf
      · subst g2; cases hf

theorem xinv_memWrite {var : Int} {x : Nat} {s s' : St w} {u : Unit} (hl : LInv s) (h : XInv s)
    (hm : memWrite var x s = .ok (u, s')) : XInv s' := by
  obtain ⟨s1, h1, rfl⟩ := memWrite_spec hm
  refine xinv_reads_push (l := [x]) (inst := .copy (.mem var) (.tmp x)) ⟨s1, h1, rfl⟩ h.count h.fl
    (fun t r hr => Or.inl (h.defAt t r hr)) (fun t r f hr hf => first_lt_size hl hr hf) rfl rfl ?_
  show s1.insts.push _ = s.insts.push _
  rw [h1.insts]

/-- An extension without a read (`range_extend`). -/
theorem xinv_ext0 {s s' : St w} {v : Nat} (hl : LInv s) (h : XInv s) (E : ExtSpec v 0 s s') : XInv s' := by
  obtain ⟨⟨r, hr, hr'⟩, hother⟩ := ext_ranges E
  have hent : ∀ t q, s'.ranges[t]? = some q →
      (t = v ∧ q = bump r s.insts.size 0) ∨ (t ≠ v ∧ s.ranges[t]? = some q) := by
    intro t q hq
    by_cases e : t = v
    · subst e; rw [hr'] at hq; exact Or.inl ⟨rfl, (Option.some.inj hq).symm⟩
    · rw [hother t e] at hq; exact Or.inr ⟨e, hq⟩
  refine ⟨?_, ?_, ?_⟩
  · intro t q hq
    rw [E.insts]
    rcases hent t q hq with ⟨rfl, rfl⟩ | ⟨_, g⟩
    · have := h.count t r hr
      simp only [bump]; omega
    · exact h.count t q g
  · intro t q hq
    rw [E.insts]
    rcases hent t q hq with ⟨rfl, rfl⟩ | ⟨_, g⟩
    · exact h.defAt t r hr
    · exact h.defAt t q g
  · intro t q hq
    rcases hent t q hq with ⟨rfl, rfl⟩ | ⟨_, g⟩
    · refine ⟨?_, fun L _ => ?_⟩
      · intro f hf
        refine ⟨s.insts.size, rfl, ?_⟩
        cases hfo : r.firstUse with
        | none => simp [bump, hfo] at hf; omega
        | some f0 =>
          simp [bump, hfo] at hf
          have := first_lt_size hl hr hfo
          omega
      · cases hfo : r.firstUse with
        | none => exact ⟨s.insts.size, by simp [bump, hfo]⟩
        | some f0 => exact ⟨f0, by simp [bump, hfo]⟩
    · exact h.fl t q g

theorem xinv_outer (ps : Nat) : ∀ (fuel i : Nat) {s s' : St w} {u : Unit},
    outerLoop ps fuel i s = .ok (u, s') → LInv s → XInv s → XInv s' := by
  intro fuel
  induction fuel with
  | zero => intro i s s' u h; simp only [outerLoop, throw_ok] at h
  | succ fuel ih =>
    intro i s s' u h hJ hX
    simp only [outerLoop, get_bind] at h
    split at h
    · cases ho : s.outerAccessed[i]? with
      | none => simp only [ho, throw_ok] at h
      | some var =>
        simp only [ho] at h
        cases hr : s.ranges[var]? with
        | none => simp only [hr, throw_ok] at h
        | some r =>
          simp only [hr] at h
          split at h
          · exact ih _ h hJ hX
          · simp only [bind_ok, modify_ok] at h
            obtain ⟨_, s2, h2, _, s3, rfl, h⟩ := h
            have hmem : var ∈ s.outerAccessed.toList :=
              Array.mem_toList_iff.2 (Array.mem_of_getElem? ho)
            have j2 := linv_extend hJ (rangeExtend_spec h2) (hJ.oa var hmem)
            have x2 := xinv_ext0 hJ hX (rangeExtend_spec h2)
            refine ih _ h ?_ ?_
            · cases hb : s2.outerAccessed.back? with
              | none => simp only [hb]; exact j2
              | some last =>
                simp only [hb]
                exact linv_frame j2 rfl rfl rfl rfl (fun p hp => hp) (fun v hv => mem_swapRemove hb hv)
            · cases hb : s2.outerAccessed.back? with
              | none => simp only [hb]; exact x2
              | some last => simp only [hb]; exact xinv_frame x2 rfl rfl
    · simp only [pure_ok] at h
      rw [h.2]; exact hX

theorem xinv_patch {s : St w} (h : XInv s) {i : Nat} (c off : Int) (hi : s.insts[i]? = some .noop) :
    XInv { s with insts := s.insts.setIfInBounds i (.brz c off) } := by
  refine ⟨?_, ?_, h.fl⟩
  · intro t r hr
    have := occ_set t hi (.brz c off)
    simp only [BcWf.uses, List.count_nil, Nat.add_zero] at this
    show occ t (s.insts.setIfInBounds i (.brz c off)) ≤ _
    rw [this]
    exact h.count t r hr
  · intro t r hr
    obtain ⟨y, hy, hd⟩ := h.defAt t r hr
    refine ⟨y, ?_, hd⟩
    show (s.insts.setIfInBounds i (.brz c off))[r.created]? = some y
    rw [Array.getElem?_setIfInBounds]
    by_cases e : i = r.created
    · rw [e, hy] at hi; cases hi; cases hd
    · simp [e, hy]

/-- `LInv` together with the counting invariants is kept by every step of the emission. -/
theorem closed_xinv : Closed (fun s : St w => LInv s ∧ XInv s) where
  values := fun s vs h hsub => ⟨closed_linv.values s vs h.1 hsub, xinv_frame h.2 rfl rfl⟩
  start := fun s c h => ⟨closed_linv.start s c h.1, xinv_frame h.2 rfl rfl⟩
  push := fun s x h hx => ⟨closed_linv.push s x h.1 hx, xinv_push0 h.2 (uses_defs_ctl hx).1⟩
  inp := fun s d h => ⟨closed_linv.inp s d h.1, xinv_frame (xinv_push0 h.2 (x := .inp d) rfl) rfl rfl⟩
  patch := fun s i c off h hi => ⟨closed_linv.patch s i c off h.1 hi, xinv_patch h.2 c off hi⟩
  outer := fun ps fuel i s s' u h ho => ⟨closed_linv.outer ps fuel i s s' u h.1 ho, xinv_outer ps fuel i ho h.1 h.2⟩
  getValue := fun e s v s' h ho hg =>
    ⟨⟨(closed_linv.getValue e s v s' h.1 ho hg).1, xinv_getValue h.1 h.2 ho hg⟩,
      (closed_linv.getValue e s v s' h.1 ho hg).2⟩
  memWrite := fun var x s s' u h hx hm => ⟨closed_linv.memWrite var x s s' u h.1 hx hm, xinv_memWrite h.1 h.2 hm⟩

theorem xinv_of_emit {prog : Ir.Block w} {fuse : Bool} {s : St w} (h : emitState prog fuse = .ok s) : XInv s :=
  (closed_emitState closed_xinv h ⟨linv_init, ⟨fun t r hr => by simp at hr, fun t r hr => by simp at hr,
    fun t r hr => by simp at hr⟩⟩).2

end AEmit
end C02
end Hpbf
