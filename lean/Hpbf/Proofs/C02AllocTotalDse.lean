/-
C02 / C13 (`allocate_temps` is total), part 7: `dead_store_elim` keeps the counting invariant and never removes
the definition of a temporary that is still read.
-/
import Hpbf.Proofs.C02AllocTotalCount
import Hpbf.Proofs.C02AllocDse
set_option linter.unusedSimpArgs false

namespace Hpbf
namespace C02
namespace AEmit

open Bc BcWf BcGen C11 Alloc

variable {w : Nat}

/-- A temporary that is read is defined by the instruction at its `created` position. -/
def DefUse (s : St w) : Prop :=
  ∀ (j : Nat) (x : Instr w) (t : Nat), s.insts[j]? = some x → t ∈ BcWf.uses x →
    ∃ (r : RangeInfo) (y : Instr w), s.ranges[t]? = some r ∧ s.insts[r.created]? = some y ∧ dstTmp? y = some t

/-- A temporary is written only at its `created` position. -/
def DefsU (s : St w) : Prop :=
  ∀ (i : Nat) (x : Instr w) (t : Nat), s.insts[i]? = some x → dstTmp? x = some t →
    ∃ r : RangeInfo, s.ranges[t]? = some r ∧ r.created = i

structure DInv (s : St w) : Prop where
  count : CountInv s
  defUse : DefUse s
  defsU : DefsU s

theorem decUse_num {rs rs' : Array RangeInfo} {l : Loc w} (h : decUse rs l = .ok rs') (t : Nat) (r' : RangeInfo)
    (hr' : rs'[t]? = some r') :
    ∃ r : RangeInfo, rs[t]? = some r ∧ r'.created = r.created ∧ r'.numUses + (locTmp l).count t = r.numUses := by
  have hsame : rs' = rs → ∃ r : RangeInfo, rs[t]? = some r ∧ r'.created = r.created ∧
      r'.numUses + ([] : List Nat).count t = r.numUses := by
    intro e; subst e; exact ⟨r', hr', rfl, by simp⟩
  cases l with
  | tmp u =>
    simp only [decUse] at h
    cases hu : rs[u]? with
    | none => simp [hu] at h
    | some ru =>
      simp only [hu] at h
      split at h
      · cases h
      · rename_i hne
        cases h
        rw [Array.getElem?_setIfInBounds] at hr'
        by_cases e : u = t
        · subst e
          have hlt : u < rs.size := lt_of_getElem? hu
          simp only [hlt, and_self, if_true, Option.some.injEq] at hr'
          subst hr'
          refine ⟨ru, hu, rfl, ?_⟩
          simp only [locTmp, List.count_singleton, beq_self_eq_true, if_true]
          omega
        · simp only [e, false_and, if_false] at hr'
          refine ⟨r', hr', rfl, ?_⟩
          have : ([u] : List Nat).count t = 0 := by
            apply List.count_eq_zero_of_not_mem
            simp; exact fun h => e h.symm
          simp only [locTmp, this]; omega
  | mem m => simp only [decUse, Except.ok.injEq] at h; exact hsame h.symm
  | memZero m => simp only [decUse, Except.ok.injEq] at h; exact hsame h.symm
  | imm c => simp only [decUse, Except.ok.injEq] at h; exact hsame h.symm

theorem foldlM_decUse_num : ∀ (srcs : List (Loc w)) {rs rs' : Array RangeInfo},
    srcs.foldlM decUse rs = .ok rs' → ∀ (t : Nat) (r' : RangeInfo), rs'[t]? = some r' →
    ∃ r : RangeInfo, rs[t]? = some r ∧ r'.created = r.created ∧
      r'.numUses + (srcs.flatMap locTmp).count t = r.numUses
  | [], rs, rs', h, t, r', hr' => by
    simp only [List.foldlM, pure, Except.pure, Except.ok.injEq] at h
    subst h
    exact ⟨r', hr', rfl, by simp⟩
  | l :: ls, rs, rs', h, t, r', hr' => by
    simp only [List.foldlM, bind, Except.bind] at h
    cases h1 : decUse rs l with
    | error e => rw [h1] at h; cases h
    | ok rs1 =>
      rw [h1] at h
      obtain ⟨r1, g1, g2, g3⟩ := foldlM_decUse_num ls h t r' hr'
      obtain ⟨r, q1, q2, q3⟩ := decUse_num h1 t r1 g1
      refine ⟨r, q1, g2.trans q2, ?_⟩
      simp only [List.flatMap_cons, List.count_append]
      omega

/-- Blanking an instruction whose sources are `srcs`. -/
theorem dinv_kill {s : St w} {i : Nat} {inst : Instr w} {srcs : List (Loc w)} {rs : Array RangeInfo}
    (h : DInv s) (hi : s.insts[i]? = some inst) (hf : srcs.foldlM decUse s.ranges = .ok rs)
    (hu : ∀ t, (BcWf.uses inst).count t = (srcs.flatMap locTmp).count t)
    (hd : ∀ t, dstTmp? inst = some t → ∃ r : RangeInfo, s.ranges[t]? = some r ∧ r.numUses = 0) :
    DInv { s with ranges := rs, insts := s.insts.setIfInBounds i .noop } := by
  have hlt : i < s.insts.size := lt_of_getElem? hi
  have hget : ∀ (j : Nat) (x : Instr w), (s.insts.setIfInBounds i .noop)[j]? = some x →
      (j = i ∧ x = .noop) ∨ (j ≠ i ∧ s.insts[j]? = some x) := by
    intro j x hx
    rw [Array.getElem?_setIfInBounds] at hx
    by_cases e : i = j
    · subst e; simp [hlt] at hx; exact Or.inl ⟨rfl, hx.symm⟩
    · simp [e] at hx; exact Or.inr ⟨fun h => e h.symm, hx⟩
  have hocc : ∀ t, occ t (s.insts.setIfInBounds i .noop) + (BcWf.uses inst).count t = occ t s.insts := by
    intro t
    have := occ_set t hi .noop
    simpa [BcWf.uses] using this
  have hsr := foldlM_decUse_sameRange srcs hf
  refine ⟨?_, ?_, ?_⟩
  · intro t r' hr'
    obtain ⟨r, g1, _, g3⟩ := foldlM_decUse_num srcs hf t r' hr'
    have := h.count t r g1
    have := hocc t
    have := hu t
    show occ t (s.insts.setIfInBounds i .noop) ≤ r'.numUses
    omega
  · intro j x t hx ht
    rcases hget j x hx with ⟨_, rfl⟩ | ⟨hji, hx'⟩
    · cases ht
    · obtain ⟨r, y, g1, g2, g3⟩ := h.defUse j x t hx' ht
      rcases hsr t with ⟨_, e⟩ | ⟨r0, r1, e1, e2, e3⟩
      · rw [g1] at e; cases e
      · rw [g1] at e1; cases e1
        refine ⟨r1, y, e2, ?_, g3⟩
        rw [e3.1]
        show (s.insts.setIfInBounds i .noop)[r.created]? = some y
        rw [Array.getElem?_setIfInBounds]
        by_cases e : i = r.created
        · exfalso
          rw [← e, hi] at g2
          cases g2
          obtain ⟨rd, q1, q2⟩ := hd t g3
          rw [g1] at q1; cases q1
          have hc := h.count t r g1
          rw [q2] at hc
          exact not_mem_of_occ_zero (Nat.le_zero.1 hc) hx' ht
        · simp [e, g2]
  · intro j x t hx hdt
    rcases hget j x hx with ⟨_, rfl⟩ | ⟨_, hx'⟩
    · cases hdt
    · obtain ⟨r, g1, g2⟩ := h.defsU j x t hx' hdt
      rcases hsr t with ⟨_, e⟩ | ⟨r0, r1, e1, e2, e3⟩
      · rw [g1] at e; cases e
      · rw [g1] at e1; cases e1
        exact ⟨r1, e2, by rw [e3.1]; exact g2⟩

theorem dseStep_dinv {i : Nat} {s s' : St w} {dead dead' : List Int} (hI : DInv s)
    (h : dseStep i s dead = .ok (s', dead')) : DInv s' := by
  unfold dseStep at h
  cases hi : s.insts[i]? with
  | none => simp [hi] at h
  | some inst =>
    simp only [hi] at h
    have hkill : ∀ (srcs : List (Loc w)),
        (∀ t, (BcWf.uses inst).count t = (srcs.flatMap locTmp).count t) →
        (∀ t, dstTmp? inst = some t → ∃ r : RangeInfo, s.ranges[t]? = some r ∧ r.numUses = 0) →
        (do
          let rs ← srcs.foldlM decUse s.ranges
          pure ({ s with ranges := rs, insts := s.insts.setIfInBounds i .noop }, dead) :
            Except String (St w × List Int)) = .ok (s', dead') → DInv s' := by
      intro srcs hu hd hk
      simp only [bind, Except.bind] at hk
      cases hf : srcs.foldlM decUse s.ranges with
      | error e => rw [hf] at hk; cases hk
      | ok rs =>
        rw [hf] at hk
        simp only [pure, Except.pure, Except.ok.injEq, Prod.mk.injEq] at hk
        obtain ⟨rfl, _⟩ := hk
        exact dinv_kill hI hi hf hu hd
    have hsame : ∀ d, (pure (s, d) : Except String (St w × List Int)) = .ok (s', dead') → DInv s' := by
      intro d hk
      simp only [pure, Except.pure, Except.ok.injEq, Prod.mk.injEq] at hk
      rw [← hk.1]; exact hI
    have harith : ∀ (op : BcGen.Op) (d a b : Loc w), inst = mkArith op d a b →
        (match (d : Loc w) with
          | .mem mem => if dead.contains mem then
              (do
                let rs ← [a, b].foldlM decUse s.ranges
                pure ({ s with ranges := rs, insts := s.insts.setIfInBounds i .noop }, dead))
              else pure (s, dseReads (setInsert dead mem) inst)
          | .tmp tmp =>
            match s.ranges[tmp]? with
            | none => .error "dead_store_elim:ranges-index"
            | some r =>
              if r.numUses = 0 then
                (do
                  let rs ← [a, b].foldlM decUse s.ranges
                  pure ({ s with ranges := rs, insts := s.insts.setIfInBounds i .noop }, dead))
              else pure (s, dseReads dead inst)
          | _ => pure (s, dseReads dead inst) : Except String (St w × List Int)) = .ok (s', dead') →
        DInv s' := by
      intro op d a b hinst hk
      have hu : ∀ t, (BcWf.uses inst).count t = (([a, b] : List (Loc w)).flatMap locTmp).count t := by
        intro t; rw [hinst, uses_mkArith]; simp
      cases d with
      | mem m =>
        simp only at hk
        split at hk
        · exact hkill _ hu (fun t ht => by rw [hinst, dstTmp?_mkArith] at ht; cases ht) hk
        · exact hsame _ hk
      | tmp t0 =>
        simp only at hk
        cases hr : s.ranges[t0]? with
        | none => simp [hr] at hk
        | some r =>
          simp only [hr] at hk
          split at hk
          · rename_i h0
            refine hkill _ hu (fun t ht => ?_) hk
            rw [hinst, dstTmp?_mkArith] at ht
            cases ht
            exact ⟨r, hr, h0⟩
          · exact hsame _ hk
      | memZero m => exact hsame _ hk
      | imm c => exact hsame _ hk
    cases inst with
    | copy d src =>
      cases d with
      | mem m =>
        simp only at h
        split at h
        · exact hkill _ (fun t => by simp [BcWf.uses]) (fun t ht => by cases ht) h
        · exact hsame _ h
      | tmp t => simp only [arith?] at h; exact hsame _ h
      | memZero m => simp only [arith?] at h; exact hsame _ h
      | imm c => simp only [arith?] at h; exact hsame _ h
    | add d a b =>
      simp only [arith?] at h
      refine harith .add d a b rfl ?_
      cases d <;> exact h
    | sub d a b =>
      simp only [arith?] at h
      refine harith .sub d a b rfl ?_
      cases d <;> exact h
    | mul d a b =>
      simp only [arith?] at h
      refine harith .mul d a b rfl ?_
      cases d <;> exact h
    | noop => simp only [arith?] at h; exact hsame _ h
    | scan c sh => simp only [arith?] at h; exact hsame _ h
    | mov sh => simp only [arith?] at h; exact hsame _ h
    | inp d => simp only [arith?] at h; exact hsame _ h
    | out d => simp only [arith?] at h; exact hsame _ h
    | brz c off => simp only [arith?] at h; exact hsame _ h
    | brnz c off => simp only [arith?] at h; exact hsame _ h

theorem dseLoop_dinv : ∀ (n : Nat) {s s' : St w} {dead : List Int}, DInv s → dseLoop n s dead = .ok s' → DInv s'
  | 0, s, s', dead, hI, h => by
    simp only [dseLoop, Except.ok.injEq] at h
    subst h; exact hI
  | n + 1, s, s', dead, hI, h => by
    simp only [dseLoop] at h
    cases hs : dseStep n s dead with
    | error e => rw [hs] at h; cases h
    | ok p =>
      obtain ⟨s1, d1⟩ := p
      rw [hs] at h
      exact dseLoop_dinv n (dseStep_dinv hI hs) h

theorem deadStoreElim_dinv {s s' : St w} (hI : DInv s) (h : deadStoreElim s = .ok s') : DInv s' :=
  dseLoop_dinv _ hI h

/-- The invariant for the output of the emission. -/
theorem dinv_of_emit {prog : Ir.Block w} {fuse : Bool} {s : St w} (h : emitState prog fuse = .ok s) : DInv s := by
  have hl := linv_of_emit h
  have hx := xinv_of_emit h
  refine ⟨hx.count, ?_, ?_⟩
  · intro j x t hj ht
    obtain ⟨r, L, f, g1, _⟩ := hl.uses j x t hj ht
    obtain ⟨y, hy, hd⟩ := hx.defAt t r g1
    exact ⟨r, y, g1, hy, hd⟩
  · intro i x t hi hd
    exact hl.defs i x t hi (mem_defs_of_dstTmp? hd)

end AEmit
end C02
end Hpbf
