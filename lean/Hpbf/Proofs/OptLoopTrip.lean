/-
Loop optimisations of `Hpbf/Opt.lean`, part B: trip counts and the meaning of `analyzeLoop`.

The loop is seen through the sequence `cv : Nat → BitVec w` of values of its condition cell at the successive
tests (`cv k` = value at the `k`-th test, i.e. after `k` rounds; only meaningful while the loop is still
running, which is why every recurrence is guarded by `Live cv k`).  This covers balanced loops
(`cv k = M k cond` for the memories `M k` at the start of round `k`) and loops that move the pointer alike.
An `if` block is a loop whose second test fails (`cv 1 = 0`).
-/
import Hpbf.Proofs.OptLoopSplit

namespace Hpbf.OptLoop
open Hpbf Opt OptSem Expr

variable {w : Nat}

/-- The loop runs exactly `n` rounds: the first `n` tests succeed, the next one fails. -/
def RunsExactly (cv : Nat → BitVec w) (n : Nat) : Prop :=
  (∀ k, k < n → cv k ≠ 0#w) ∧ cv n = 0#w

/-- The loop never leaves. -/
def Diverges (cv : Nat → BitVec w) : Prop := ∀ k, cv k ≠ 0#w

/-- Round `k` is executed: the tests `0 … k` succeed. -/
def Live (cv : Nat → BitVec w) (k : Nat) : Prop := ∀ j, j ≤ k → cv j ≠ 0#w

theorem runsExactly_unique {cv : Nat → BitVec w} {n n' : Nat} (h : RunsExactly cv n)
    (h' : RunsExactly cv n') : n = n' := by
  rcases Nat.lt_trichotomy n n' with hlt | heq | hgt
  · exact absurd h.2 (h'.1 n hlt)
  · exact heq
  · exact absurd h'.2 (h.1 n' hgt)

theorem not_diverges_of_runsExactly {cv : Nat → BitVec w} {n : Nat} (h : RunsExactly cv n) :
    ¬ Diverges cv := fun hd => hd n h.2

theorem live_of_lt {cv : Nat → BitVec w} {n k : Nat} (h : RunsExactly cv n) (hk : k < n) : Live cv k :=
  fun j hj => h.1 j (Nat.lt_of_le_of_lt hj hk)

/-! ### constant step -/

/-- While the loop runs, a counter with constant step follows `C01Opt.iter`. -/
theorem cv_eq_iter (cv : Nat → BitVec w) (inc : BitVec w)
    (hrec : ∀ k, Live cv k → cv (k + 1) = cv k + inc) (N : Nat)
    (hN : ∀ k, k < N → C01Opt.iter inc k (cv 0) ≠ 0#w) :
    ∀ k, k ≤ N → cv k = C01Opt.iter inc k (cv 0) := by
  intro k
  induction k using Nat.strong_induction_on with
  | _ k ih =>
    intro hk
    cases k with
    | zero => rfl
    | succ k =>
      have hlive : Live cv k := by
        intro j hj
        rw [ih j (Nat.lt_succ_of_le hj) (by omega)]
        exact hN j (by omega)
      rw [hrec k hlive, ih k (Nat.lt_succ_self k) (by omega), C01Opt.iter_succ]

/-- `tripCount m inc = some n`: exactly `n.toNat` rounds. -/
theorem tripCount_runs (hw : 0 < w) (cv : Nat → BitVec w) (inc n : BitVec w)
    (hrec : ∀ k, Live cv k → cv (k + 1) = cv k + inc)
    (h : OptArith.tripCount (cv 0) inc = some n) : RunsExactly cv n.toNat := by
  obtain ⟨h0, hne⟩ := C01Opt.tripCount_some hw (cv 0) inc n h
  have heq := cv_eq_iter cv inc hrec n.toNat hne
  refine ⟨fun k hk => ?_, ?_⟩
  · rw [heq k (Nat.le_of_lt hk)]; exact hne k hk
  · rw [heq _ (Nat.le_refl _)]; exact h0

/-- `tripCount m inc = none`: the loop never leaves. -/
theorem tripCount_diverges (hw : 0 < w) (cv : Nat → BitVec w) (inc : BitVec w)
    (hrec : ∀ k, Live cv k → cv (k + 1) = cv k + inc)
    (h : OptArith.tripCount (cv 0) inc = none) : Diverges cv := by
  intro k
  have hne := C01Opt.tripCount_none hw (cv 0) inc h
  rw [cv_eq_iter cv inc hrec k (fun j _ => hne j) k (Nat.le_refl _)]
  exact hne k

/-- `tripInv inc = some inv`: exactly `(inv * x).toNat` rounds from the initial value `x`. -/
theorem tripInv_runs (hw : 0 < w) (cv : Nat → BitVec w) (inc inv : BitVec w)
    (hrec : ∀ k, Live cv k → cv (k + 1) = cv k + inc)
    (h : OptArith.tripInv inc = some inv) : RunsExactly cv (inv * cv 0).toNat :=
  tripCount_runs hw cv inc (inv * cv 0) hrec (C01Opt.tripInv_tripCount hw inc inv h (cv 0))

/-- A counter that does not change: once entered the loop never leaves. -/
theorem const_diverges (cv : Nat → BitVec w) (hrec : ∀ k, Live cv k → cv (k + 1) = cv k)
    (h0 : cv 0 ≠ 0#w) : Diverges cv := by
  have : ∀ k, Live cv k ∧ cv k = cv 0 := by
    intro k
    induction k with
    | zero =>
      refine ⟨fun j hj => ?_, rfl⟩
      have : j = 0 := by omega
      subst this; exact h0
    | succ k ih =>
      have heq : cv (k + 1) = cv 0 := by rw [hrec k ih.1, ih.2]
      refine ⟨fun j hj => ?_, heq⟩
      rcases Nat.lt_or_ge j (k + 1) with hlt | hge
      · exact ih.1 j (by omega)
      · have : j = k + 1 := by omega
        subst this; rw [heq]; exact h0
  intro k
  rw [(this k).2]; exact h0

/-- A counter that is set to a non-zero constant in every round. -/
theorem stored_diverges (cv : Nat → BitVec w) (c : BitVec w) (hc : c ≠ 0#w)
    (hrec : ∀ k, Live cv k → cv (k + 1) = c) (h0 : cv 0 ≠ 0#w) : Diverges cv := by
  have : ∀ k, Live cv k := by
    intro k
    induction k with
    | zero =>
      intro j hj
      have : j = 0 := by omega
      subst this; exact h0
    | succ k ih =>
      intro j hj
      rcases Nat.lt_or_ge j (k + 1) with hlt | hge
      · exact ih j (by omega)
      · have : j = k + 1 := by omega
        subst this; rw [hrec k ih]; exact hc
  intro k
  exact this k k (Nat.le_refl k)

/-! ### the meaning of an `OptLoop` -/

/-- Meaning of a trip-count expression: it is one of the two shapes `analyzeLoop` builds, and in every
memory `m0` that holds the initial value of the condition cell it evaluates to the number of rounds. -/
def ExprMeaning (e : Expr w) (cv : Nat → BitVec w) (cond : Int) : Prop :=
  ((∃ c, e = Expr.val c) ∨ (∃ inv, Cell.isOdd inv = true ∧ e = Expr.mul (Expr.val inv) (Expr.var cond))) ∧
  ∀ m0 : Mem w, m0 cond = cv 0 →
    ∃ n, RunsExactly cv n ∧ n < 2 ^ w ∧ ev e m0 = BitVec.ofNat w n

/-- Meaning of the flags of an `OptLoop` for a loop (or `if`) whose body returns. -/
structure LoopMeaning (L : OptLoop w) (cv : Nat → BitVec w) (cond : Int) : Prop where
  never : L.never = true → cv 0 = 0#w
  atLeastOnce : L.atLeastOnce = true → cv 0 ≠ 0#w
  atMostOnce : L.atMostOnce = true → cv 0 = 0#w ∨ cv 1 = 0#w
  finite : L.finite = true → ∃ n, RunsExactly cv n
  noContinue : L.noContinue = true → Diverges cv
  noEffect : L.noEffect = true → cv 0 = 0#w ∨ Diverges cv
  expr : ∀ e, L.expr = some e → ExprMeaning e cv cond

theorem constant_val (c : BitVec w) : Expr.constant (Expr.val c) = some c := by
  unfold Expr.val
  split
  · rename_i h; subst h; rfl
  · rfl

theorem ofNat_toNat' (c : BitVec w) : BitVec.ofNat w c.toNat = c := by
  rw [BitVec.ofNat_toNat, BitVec.setWidth_eq]

/-- `OptLoop::expr` of a constant: the loop runs exactly that many rounds. -/
theorem ofExpr_val_meaning (cv : Nat → BitVec w) (cond : Int) (c : BitVec w)
    (h : RunsExactly cv c.toNat) : LoopMeaning (OptLoop.ofExpr (Expr.val c)) cv cond := by
  have hpos : c ≠ 0#w → 0 < c.toNat := by
    intro hc
    rcases Nat.eq_zero_or_pos c.toNat with h0 | h0
    · exact absurd (BitVec.eq_of_toNat_eq (by simpa using h0)) hc
    · exact h0
  constructor
  · intro hn
    simp only [OptLoop.ofExpr, constant_val, beq_iff_eq, Option.some.injEq] at hn
    subst hn; simpa using h.2
  · intro hn
    simp only [OptLoop.ofExpr, constant_val, bne_iff_ne, ne_eq] at hn
    exact h.1 0 (hpos hn)
  · intro hn
    simp only [OptLoop.ofExpr, constant_val, Bool.or_eq_true, beq_iff_eq] at hn
    rcases hn with hn | hn
    · subst hn; left; simpa using h.2
    · subst hn
      rcases Nat.eq_zero_or_pos w with hw | hw
      · subst hw; left; exact Subsingleton.elim _ _
      · right
        have : (1#w).toNat = 1 := by
          rw [BitVec.toNat_ofNat]; exact Nat.mod_eq_of_lt (Nat.one_lt_two_pow (by omega))
        rw [this] at h; exact h.2
  · intro _; exact ⟨c.toNat, h⟩
  · intro hn; simp [OptLoop.ofExpr] at hn
  · intro hn
    simp only [OptLoop.ofExpr, constant_val, beq_iff_eq, Option.some.injEq] at hn
    subst hn; left; simpa using h.2
  · intro e he
    simp only [OptLoop.ofExpr, Option.some.injEq] at he
    subst he
    exact ⟨Or.inl ⟨c, rfl⟩, fun m0 _ => ⟨c.toNat, h, c.isLt, by rw [ev_val, ofNat_toNat']⟩⟩

/-- `OptLoop::expr` of `inv * x_cond` (odd step, unknown initial value). -/
theorem ofExpr_invvar_meaning (hw : 0 < w) (cv : Nat → BitVec w) (cond : Int) (inv : BitVec w)
    (hodd : Cell.isOdd inv = true) (h : RunsExactly cv (inv * cv 0).toNat) :
    LoopMeaning (OptLoop.ofExpr (Expr.mul (Expr.val inv) (Expr.var cond))) cv cond := by
  have hshape := C01Opt.invvar_eq hw inv cond hodd
  have hconst : Expr.constant (Expr.mul (Expr.val inv) (Expr.var cond)) = none := by
    rw [hshape]; rfl
  constructor
  · intro hn; simp [OptLoop.ofExpr, hconst] at hn
  · intro hn; simp [OptLoop.ofExpr, hconst] at hn
  · intro hn; simp [OptLoop.ofExpr, hconst] at hn
  · intro _; exact ⟨_, h⟩
  · intro hn; simp [OptLoop.ofExpr] at hn
  · intro hn; simp [OptLoop.ofExpr, hconst] at hn
  · intro e he
    simp only [OptLoop.ofExpr, Option.some.injEq] at he
    subst he
    refine ⟨Or.inr ⟨inv, hodd, rfl⟩, fun m0 hm0 => ⟨(inv * cv 0).toNat, h, (inv * cv 0).isLt, ?_⟩⟩
    rw [ev_mul, ev_val, ev_var, hm0, ofNat_toNat']

/-- `OptLoop::infinite`. -/
theorem infinite_meaning (cv : Nat → BitVec w) (cond : Int) (b : Bool)
    (hb : b = true → cv 0 ≠ 0#w) (hd : cv 0 ≠ 0#w → Diverges cv) :
    LoopMeaning (OptLoop.infinite b) cv cond := by
  constructor
  · intro hn; simp [OptLoop.infinite] at hn
  · intro hn; exact hb hn
  · intro hn; simp [OptLoop.infinite] at hn
  · intro hn; simp [OptLoop.infinite] at hn
  · intro hn; exact hd (hb hn)
  · intro _
    by_cases h0 : cv 0 = 0#w
    · exact Or.inl h0
    · exact Or.inr (hd h0)
  · intro e he; simp [OptLoop.infinite] at he

/-- `OptLoop::unknown`. -/
theorem unknown_meaning (cv : Nat → BitVec w) (cond : Int) (b : Bool)
    (hb : b = true → cv 0 ≠ 0#w) : LoopMeaning (OptLoop.unknown b) cv cond := by
  constructor
  · intro hn; simp [OptLoop.unknown] at hn
  · intro hn; exact hb hn
  · intro hn; simp [OptLoop.unknown] at hn
  · intro hn; simp [OptLoop.unknown] at hn
  · intro hn; simp [OptLoop.unknown] at hn
  · intro hn; simp [OptLoop.unknown] at hn
  · intro e he; simp [OptLoop.unknown] at he

/-- `OptLoop::at_most_once`. -/
theorem atMostOnceOf_meaning (hw : 0 < w) (cv : Nat → BitVec w) (cond : Int) (b : Bool)
    (hb : b = true → cv 0 ≠ 0#w) (h1 : cv 0 ≠ 0#w → cv 1 = 0#w) :
    LoopMeaning (OptLoop.atMostOnceOf b) cv cond := by
  cases b with
  | true =>
    have h0 := hb rfl
    have hone : (1#w).toNat = 1 := by
      rw [BitVec.toNat_ofNat]; exact Nat.mod_eq_of_lt (Nat.one_lt_two_pow (by omega))
    have hr : RunsExactly cv (1#w).toNat := by
      rw [hone]
      refine ⟨fun k hk => ?_, h1 h0⟩
      have : k = 0 := by omega
      subst this; exact h0
    exact ofExpr_val_meaning cv cond 1#w hr
  | false =>
    constructor
    · intro hn; simp [OptLoop.atMostOnceOf] at hn
    · intro hn; simp [OptLoop.atMostOnceOf] at hn
    · intro _
      by_cases h0 : cv 0 = 0#w
      · exact Or.inl h0
      · exact Or.inr (h1 h0)
    · intro _
      by_cases h0 : cv 0 = 0#w
      · exact ⟨0, fun k hk => by omega, h0⟩
      · refine ⟨1, fun k hk => ?_, h1 h0⟩
        have : k = 0 := by omega
        subst this; exact h0
    · intro hn; simp [OptLoop.atMostOnceOf] at hn
    · intro hn; simp [OptLoop.atMostOnceOf] at hn
    · intro e he; simp [OptLoop.atMostOnceOf] at he

/-- `OptLoop::to_at_least_once` (used for the loop inside the `if` that `finishLoop` builds). -/
theorem toAtLeastOnce_meaning {L : OptLoop w} {cv : Nat → BitVec w} {cond : Int}
    (h : LoopMeaning L cv cond) (h0 : cv 0 ≠ 0#w) : LoopMeaning L.toAtLeastOnce cv cond :=
  ⟨h.never, fun _ => h0, h.atMostOnce, h.finite, h.noContinue, h.noEffect, h.expr⟩

end Hpbf.OptLoop
