/-
Generic part of the C01 level-0 proof: two deterministic step machines that emit events, a
simulation relation "up to chunks" (the first machine may take silent steps on its own, otherwise
both machines advance by at least one step to the next synchronisation point, or both terminate),
and the three consequences used for `Refines`: forward preservation of terminating runs,
reflection of termination, and the prefix property for runs that are cut off by the fuel.
-/
import Hpbf.Bf

namespace Hpbf
namespace Sim

/-- Result of one step of an abstract machine. -/
inductive Res (C : Type) where
  | next (c : C)
  | fin (ok : Bool) (t : List Ev)     -- `ok = true`: ran off the end; `false`: stopped at failing I/O

/-- A deterministic machine with an observable trace (most recent event first). -/
structure Mach where
  C : Type
  step : C → Res C
  tr : C → List Ev

/-- What is observable of a run with bounded fuel. -/
inductive Out where
  | fin (ok : Bool) (t : List Ev)
  | fuel (t : List Ev)
  deriving DecidableEq

def Out.trace : Out → List Ev
  | .fin _ t => t
  | .fuel t => t

def run (M : Mach) : Nat → M.C → Out
  | 0, c => .fuel (M.tr c)
  | f + 1, c =>
    match M.step c with
    | .next c' => run M f c'
    | .fin ok t => .fin ok t

/-- `n` consecutive non-final steps. -/
inductive Steps (M : Mach) : Nat → M.C → M.C → Prop
  | refl (c : M.C) : Steps M 0 c c
  | cons {n : Nat} {c c' c'' : M.C} : M.step c = .next c' → Steps M n c' c'' → Steps M (n + 1) c c''

/-- `n` non-final steps followed by the final one. -/
def Term (M : Mach) (n : Nat) (c : M.C) (ok : Bool) (t : List Ev) : Prop :=
  ∃ c', Steps M n c c' ∧ M.step c' = .fin ok t

/-- The trace only grows. -/
structure Mono (M : Mach) : Prop where
  next : ∀ {c c'}, M.step c = .next c' → M.tr c <:+ M.tr c'
  fin : ∀ {c ok t}, M.step c = .fin ok t → M.tr c <:+ t

variable {M : Mach}

theorem Steps.trans {m n : Nat} {a b c : M.C} (h1 : Steps M m a b) (h2 : Steps M n b c) :
    Steps M (m + n) a c := by
  induction h1 with
  | refl _ => simpa using h2
  | @cons k x y z hs _ ih =>
    have := Steps.cons hs (ih h2)
    have e : k + 1 + n = k + n + 1 := by omega
    rw [e]; exact this

theorem Steps.one {a b : M.C} (h : M.step a = .next b) : Steps M 1 a b :=
  Steps.cons h (Steps.refl _)

theorem Steps.snoc {n : Nat} {a b c : M.C} (h1 : Steps M n a b) (h2 : M.step b = .next c) :
    Steps M (n + 1) a c := h1.trans (Steps.one h2)

theorem Steps.mono (hM : Mono M) {n : Nat} {a b : M.C} (h : Steps M n a b) : M.tr a <:+ M.tr b := by
  induction h with
  | refl _ => exact List.suffix_refl _
  | cons hs _ ih => exact (hM.next hs).trans ih

theorem Term.mono (hM : Mono M) {n : Nat} {a : M.C} {ok : Bool} {t : List Ev}
    (h : Term M n a ok t) : M.tr a <:+ t := by
  obtain ⟨c', hs, hf⟩ := h
  exact (hs.mono hM).trans (hM.fin hf)

theorem Term.prepend {m n : Nat} {a b : M.C} {ok : Bool} {t : List Ev}
    (h1 : Steps M m a b) (h2 : Term M n b ok t) : Term M (m + n) a ok t := by
  obtain ⟨c', hs, hf⟩ := h2
  exact ⟨c', h1.trans hs, hf⟩

theorem run_steps {n : Nat} {a b : M.C} (h : Steps M n a b) (f : Nat) :
    run M (n + f) a = run M f b := by
  induction h with
  | refl _ => simp
  | @cons k x y z hs _ ih =>
    have e : k + 1 + f = (k + f) + 1 := by omega
    rw [e, run, hs]; exact ih

theorem run_term {n : Nat} {a : M.C} {ok : Bool} {t : List Ev} (h : Term M n a ok t) (f : Nat) :
    run M (n + (f + 1)) a = .fin ok t := by
  obtain ⟨c', hs, hf⟩ := h
  rw [run_steps hs, run, hf]

/-- Cutting a chunk short leaves the machine at a configuration inside the chunk. -/
theorem run_le_steps (hM : Mono M) {n : Nat} {a b : M.C} (h : Steps M n a b) :
    ∀ f, f ≤ n → ∃ t, run M f a = .fuel t ∧ M.tr a <:+ t ∧ t <:+ M.tr b := by
  induction h with
  | refl c =>
    intro f hf
    have : f = 0 := by omega
    subst this
    exact ⟨_, rfl, List.suffix_refl _, List.suffix_refl _⟩
  | @cons k x y z hs hr ih =>
    intro f hf
    cases f with
    | zero => exact ⟨_, rfl, List.suffix_refl _, (hM.next hs).trans (hr.mono hM)⟩
    | succ f =>
      obtain ⟨t, h1, h2, h3⟩ := ih f (by omega)
      refine ⟨t, ?_, (hM.next hs).trans h2, h3⟩
      rw [run, hs]; exact h1

theorem run_le_term (hM : Mono M) {n : Nat} {a : M.C} {ok : Bool} {t : List Ev}
    (h : Term M n a ok t) :
    ∀ f, f ≤ n → ∃ t', run M f a = .fuel t' ∧ M.tr a <:+ t' ∧ t' <:+ t := by
  intro f hf
  obtain ⟨c', hs, hfin⟩ := h
  obtain ⟨t', h1, h2, h3⟩ := run_le_steps hM hs f hf
  exact ⟨t', h1, h2, h3.trans (hM.fin hfin)⟩

theorem sandwich {s t' t : List Ev} (h1 : s <:+ t') (h2 : t' <:+ t) (hl : t.length ≤ s.length + 1) :
    t' = s ∨ t' = t := by
  have l1 := h1.length_le
  have l2 := h2.length_le
  by_cases h : t'.length = s.length
  · left; exact (h1.eq_of_length h.symm).symm
  · right; exact h2.eq_of_length (by omega)

/-- A finished run passes through every chunk boundary. -/
theorem run_fin_steps (hM : Mono M) {n f : Nat} {a b : M.C} {ok : Bool} {t : List Ev}
    (h : Steps M n a b) (hr : run M f a = .fin ok t) : n < f ∧ run M (f - n) b = .fin ok t := by
  by_cases hle : f ≤ n
  · obtain ⟨t', h1, _, _⟩ := run_le_steps hM h f hle
    rw [h1] at hr; cases hr
  · have e : f = n + (f - n) := by omega
    rw [e, run_steps h] at hr
    exact ⟨by omega, hr⟩

theorem run_fin_term (hM : Mono M) {n f : Nat} {a : M.C} {ok ok' : Bool} {t t' : List Ev}
    (h : Term M n a ok t) (hr : run M f a = .fin ok' t') : ok' = ok ∧ t' = t := by
  obtain ⟨c', hs, hf⟩ := h
  obtain ⟨hlt, hr'⟩ := run_fin_steps hM hs hr
  obtain ⟨g, hg⟩ : ∃ g, f - n = g + 1 := ⟨f - n - 1, by omega⟩
  rw [hg, run, hf] at hr'
  cases hr'; exact ⟨rfl, rfl⟩

/-! ### Simulation up to chunks -/

/-- What must be shown for every pair of related configurations. -/
inductive Chunk (A B : Mach) (R : A.C → B.C → Prop) (μ : A.C → Nat) (a : A.C) (b : B.C) : Prop
  | silent (a' : A.C) : A.step a = .next a' → R a' b → μ a' < μ a → A.tr a' = A.tr a →
      Chunk A B R μ a b
  | sync (m n : Nat) (a' : A.C) (b' : B.C) : Steps A (m + 1) a a' → Steps B (n + 1) b b' → R a' b' →
      (A.tr a').length ≤ (A.tr a).length + 1 → Chunk A B R μ a b
  | fin (m n : Nat) (ok : Bool) (t : List Ev) : Term A m a ok t → Term B n b ok t →
      t.length ≤ (A.tr a).length + 1 → Chunk A B R μ a b

structure Simulation (A B : Mach) (R : A.C → B.C → Prop) (μ : A.C → Nat) : Prop where
  monoA : Mono A
  monoB : Mono B
  tr_eq : ∀ {a b}, R a b → A.tr a = B.tr b
  chunk : ∀ {a b}, R a b → Chunk A B R μ a b

variable {A B : Mach} {R : A.C → B.C → Prop} {μ : A.C → Nat}

/-- Terminating runs of `A` are matched by `B`. -/
theorem Simulation.forward (S : Simulation A B R μ) :
    ∀ f a b, R a b → ∀ ok t, run A f a = .fin ok t → ∃ f', run B f' b = .fin ok t := by
  intro f
  induction f using Nat.strongRecOn with
  | _ f ih =>
    intro a b hR ok t hr
    cases S.chunk hR with
    | silent a' hs hR' _ _ =>
      cases f with
      | zero => cases hr
      | succ f =>
        rw [run, hs] at hr
        exact ih f (by omega) a' b hR' ok t hr
    | sync m n a' b' hA hB hR' _ =>
      obtain ⟨hlt, hr'⟩ := run_fin_steps S.monoA hA hr
      obtain ⟨f', hf'⟩ := ih (f - (m + 1)) (by omega) a' b' hR' ok t hr'
      exact ⟨n + 1 + f', by rw [run_steps hB]; exact hf'⟩
    | fin m n ok' t' hA hB _ =>
      obtain ⟨rfl, rfl⟩ := run_fin_term S.monoA hA hr
      exact ⟨n + (0 + 1), run_term hB 0⟩

/-- Terminating runs of `B` come from terminating runs of `A`. -/
theorem Simulation.backward (S : Simulation A B R μ) :
    ∀ f' k a b, μ a = k → R a b → ∀ ok t, run B f' b = .fin ok t → ∃ f, run A f a = .fin ok t := by
  intro f'
  induction f' using Nat.strongRecOn with
  | _ f' ih =>
    intro k
    induction k using Nat.strongRecOn with
    | _ k ihk =>
      intro a b hk hR ok t hr
      cases S.chunk hR with
      | silent a' hs hR' hμ _ =>
        obtain ⟨f, hf⟩ := ihk (μ a') (by omega) a' b rfl hR' ok t hr
        exact ⟨f + 1, by rw [run, hs]; exact hf⟩
      | sync m n a' b' hA hB hR' _ =>
        obtain ⟨hlt, hr'⟩ := run_fin_steps S.monoB hB hr
        obtain ⟨f, hf⟩ := ih (f' - (n + 1)) (by omega) (μ a') a' b' rfl hR' ok t hr'
        exact ⟨m + 1 + f, by rw [run_steps hA]; exact hf⟩
      | fin m n ok' t' hA hB _ =>
        obtain ⟨rfl, rfl⟩ := run_fin_term S.monoB hB hr
        exact ⟨m + (0 + 1), run_term hA 0⟩

/-- Whatever `B` has emitted when its fuel runs out, `A` emits with suitable fuel. -/
theorem Simulation.prefixBA (S : Simulation A B R μ) :
    ∀ f' k a b, μ a = k → R a b → ∃ f, (run A f a).trace = (run B f' b).trace := by
  intro f'
  induction f' using Nat.strongRecOn with
  | _ f' ih =>
    intro k
    induction k using Nat.strongRecOn with
    | _ k ihk =>
      intro a b hk hR
      cases S.chunk hR with
      | silent a' hs hR' hμ _ =>
        obtain ⟨f, hf⟩ := ihk (μ a') (by omega) a' b rfl hR'
        exact ⟨f + 1, by rw [run, hs]; exact hf⟩
      | sync m n a' b' hA hB hR' hl =>
        by_cases hle : f' ≤ n + 1
        · obtain ⟨t, h1, h2, h3⟩ := run_le_steps S.monoB hB f' hle
          rw [h1]
          rw [← S.tr_eq hR] at h2
          rw [← S.tr_eq hR'] at h3
          rcases sandwich h2 h3 hl with h | h
          · exact ⟨0, by simp [run, Out.trace, h]⟩
          · refine ⟨m + 1 + 0, ?_⟩
            rw [run_steps hA]; simp [run, Out.trace, h]
        · obtain ⟨f, hf⟩ := ih (f' - (n + 1)) (by omega) (μ a') a' b' rfl hR'
          refine ⟨m + 1 + f, ?_⟩
          rw [run_steps hA, hf]
          have e : f' = n + 1 + (f' - (n + 1)) := by omega
          conv => rhs; rw [e, run_steps hB]
      | fin m n ok t hA hB hl =>
        by_cases hle : f' ≤ n
        · obtain ⟨t', h1, h2, h3⟩ := run_le_term S.monoB hB f' hle
          rw [h1]
          rw [← S.tr_eq hR] at h2
          rcases sandwich h2 h3 hl with h | h
          · exact ⟨0, by simp [run, Out.trace, h]⟩
          · refine ⟨m + (0 + 1), ?_⟩
            rw [run_term hA]; simp [Out.trace, h]
        · refine ⟨m + (0 + 1), ?_⟩
          have e : f' = n + ((f' - n - 1) + 1) := by omega
          rw [run_term hA, e, run_term hB]

/-- Whatever `A` has emitted when its fuel runs out, `B` emits with suitable fuel. -/
theorem Simulation.prefixAB (S : Simulation A B R μ) :
    ∀ f a b, R a b → ∃ f', (run B f' b).trace = (run A f a).trace := by
  intro f
  induction f using Nat.strongRecOn with
  | _ f ih =>
    intro a b hR
    cases S.chunk hR with
    | silent a' hs hR' hμ htr =>
      cases f with
      | zero =>
        exact ⟨0, by simp [run, Out.trace, S.tr_eq hR]⟩
      | succ f =>
        obtain ⟨f', hf'⟩ := ih f (by omega) a' b hR'
        exact ⟨f', by rw [hf', run, hs]⟩
    | sync m n a' b' hA hB hR' hl =>
      by_cases hle : f ≤ m + 1
      · obtain ⟨t, h1, h2, h3⟩ := run_le_steps S.monoA hA f hle
        rw [h1]
        rcases sandwich h2 h3 hl with h | h
        · exact ⟨0, by simp [run, Out.trace, h, S.tr_eq hR]⟩
        · refine ⟨n + 1 + 0, ?_⟩
          rw [run_steps hB]; simp [run, Out.trace, h, S.tr_eq hR']
      · obtain ⟨f', hf'⟩ := ih (f - (m + 1)) (by omega) a' b' hR'
        refine ⟨n + 1 + f', ?_⟩
        rw [run_steps hB, hf']
        have e : f = m + 1 + (f - (m + 1)) := by omega
        conv => rhs; rw [e, run_steps hA]
    | fin m n ok t hA hB hl =>
      by_cases hle : f ≤ m
      · obtain ⟨t', h1, h2, h3⟩ := run_le_term S.monoA hA f hle
        rw [h1]
        rcases sandwich h2 h3 hl with h | h
        · exact ⟨0, by simp [run, Out.trace, h, S.tr_eq hR]⟩
        · refine ⟨n + (0 + 1), ?_⟩
          rw [run_term hB]; simp [Out.trace, h]
      · refine ⟨n + (0 + 1), ?_⟩
        have e : f = m + ((f - m - 1) + 1) := by omega
        rw [run_term hB, e, run_term hA]

end Sim
end Hpbf
