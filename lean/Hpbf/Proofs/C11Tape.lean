/-
C11, tape read set: `Bc.step` depends on the tape only through the cells `ptr + o`, `o ∈ memOps ins`.
`TapeSim X c1 c2`: the configurations are equal except that their tapes are only known to agree on the
set of addresses `X`.  If `X` contains the touched cells, the step results have the same constructor and
are again `TapeSim X` (`stepI_tape`).  Together with the frame lemma (`stepI_frame`) this says that a step
neither reads nor writes any other cell.
-/
import Hpbf.Proofs.C11Step

namespace Hpbf
namespace C11

open Bc BcWf

variable {w : Nat}

/-- States equal up to tape cells outside `X`. -/
structure StSim (X : Int → Prop) (s1 s2 : State w) : Prop where
  ptr : s1.ptr = s2.ptr
  env : s1.env = s2.env
  trace : s1.trace = s2.trace
  tape : ∀ x, X x → s1.tape.get x = s2.tape.get x

/-- Configurations equal up to tape cells outside `X`. -/
structure TapeSim (X : Int → Prop) (c1 c2 : Cfg w) : Prop where
  pc : c1.pc = c2.pc
  temps : c1.temps = c2.temps
  budget : c1.budget = c2.budget
  st : StSim X c1.st c2.st

theorem StSim.rd {X : Int → Prop} {s1 s2 : State w} (h : StSim X s1 s2) {off : Int}
    (hx : X (s1.ptr + off)) : s1.rd off = s2.rd off := by
  unfold State.rd
  rw [← h.ptr]
  exact h.tape _ hx

theorem StSim.wr {X : Int → Prop} {s1 s2 : State w} (h : StSim X s1 s2) (off : Int) (v : BitVec w) :
    StSim X (s1.wr off v) (s2.wr off v) := by
  refine ⟨h.ptr, h.env, h.trace, ?_⟩
  intro x hx
  simp only [State.wr, Tape.get_set, h.ptr]
  split
  · rfl
  · exact h.tape x hx

theorem StSim.mov {X : Int → Prop} {s1 s2 : State w} (h : StSim X s1 s2) (d : Int) :
    StSim X (s1.mov d) (s2.mov d) :=
  ⟨by simp [State.mov, h.ptr], h.env, h.trace, h.tape⟩

theorem StSim.input {X : Int → Prop} {s1 s2 : State w} (h : StSim X s1 s2) (off : Int) :
    (s1.input off).1 = (s2.input off).1 ∧ StSim X (s1.input off).2 (s2.input off).2 := by
  have hw := fun v => h.wr off v
  unfold State.input
  rw [← h.env, ← h.trace]
  split
  · rename_i b e _
    have hwb := hw (Cell.fromU8 (BitVec.ofNat 8 b.toNat))
    exact ⟨rfl, hwb.ptr, rfl, rfl, hwb.tape⟩
  · exact ⟨rfl, h.ptr, rfl, rfl, h.tape⟩
  · exact ⟨rfl, h⟩

theorem StSim.output {X : Int → Prop} {s1 s2 : State w} (h : StSim X s1 s2) {off : Int}
    (hx : X (s1.ptr + off)) :
    (s1.output off).1 = (s2.output off).1 ∧ StSim X (s1.output off).2 (s2.output off).2 := by
  unfold State.output
  rw [← h.env, ← h.trace, ← h.rd hx]
  simp only
  split
  · split
    · exact ⟨rfl, h.ptr, rfl, rfl, h.tape⟩
    · exact ⟨rfl, h.ptr, rfl, rfl, h.tape⟩
  · exact ⟨rfl, h⟩

theorem StSim.rdSt {X : Int → Prop} {s1 s2 : State w} (h : StSim X s1 s2) (l : Loc w) :
    StSim X (rdSt s1 l) (rdSt s2 l) := by
  cases l <;> simp only [C11.rdSt]
  all_goals first | exact h | exact h.wr _ _

theorem rdVal_tape {X : Int → Prop} {pc : Nat} {t : Temps w} {b : Nat} {s1 s2 : State w}
    (h : StSim X s1 s2) (l : Loc w) (hx : ∀ o ∈ locMem l, X (s1.ptr + o)) :
    rdVal ⟨pc, t, b, s1⟩ l = rdVal ⟨pc, t, b, s2⟩ l := by
  cases l <;> simp only [rdVal]
  all_goals exact h.rd (hx _ (by simp [locMem]))

theorem wrCfg_tape {X : Int → Prop} {c1 c2 : Cfg w} (h : TapeSim X c1 c2) (v : BitVec w) (l : Loc w) :
    TapeSim X (wrCfg c1 v l) (wrCfg c2 v l) := by
  obtain ⟨h1, h2, h3, h4⟩ := h
  cases l with
  | mem off => exact ⟨h1, h2, h3, h4.wr _ _⟩
  | memZero off => exact ⟨h1, h2, h3, h4⟩
  | imm k => exact ⟨h1, h2, h3, h4⟩
  | tmp i => exact ⟨h1, by simp [wrCfg, h2], h3, h4⟩

theorem binopCfg_tape {X : Int → Prop} {c1 c2 : Cfg w} (h : TapeSim X c1 c2)
    (f : BitVec w → BitVec w → BitVec w) (d a b : Loc w)
    (hx : ∀ o ∈ locMem d ++ locMem a ++ locMem b, X (c1.st.ptr + o)) :
    TapeSim X (binopCfg f c1 d a b) (binopCfg f c2 d a b) := by
  obtain ⟨pc1, t1, b1, s1⟩ := c1
  obtain ⟨pc2, t2, b2, s2⟩ := c2
  obtain ⟨h1, h2, h3, h4⟩ := h
  simp only at h1 h2 h3 h4 hx
  subst h1 h2 h3
  have hd : ∀ (l : Loc w) (o : Int), o ∈ locMem d → X ((C11.rdSt s1 l).ptr + o) := fun l o ho => by
    rw [rdSt_ptr]; exact hx o (by simp [ho])
  have ha : ∀ o ∈ locMem a, X (s1.ptr + o) := fun o ho => hx o (by simp [ho])
  have hb : ∀ o ∈ locMem b, X (s1.ptr + o) := fun o ho => hx o (by simp [ho])
  have hb' : ∀ (l : Loc w) (o : Int), o ∈ locMem b → X ((C11.rdSt s1 l).ptr + o) := fun l o ho => by
    rw [rdSt_ptr]; exact hb o ho
  unfold binopCfg
  split
  · simp only [rdVal_tape h4 b hb, rdVal_tape (h4.rdSt b) d (hd b)]
    apply wrCfg_tape
    exact ⟨rfl, rfl, rfl, (h4.rdSt b).rdSt d⟩
  · simp only [rdVal_tape h4 a ha, rdVal_tape (h4.rdSt a) b (hb' a)]
    apply wrCfg_tape
    exact ⟨rfl, rfl, rfl, (h4.rdSt a).rdSt b⟩

theorem copyCfg_tape {X : Int → Prop} {c1 c2 : Cfg w} (h : TapeSim X c1 c2) (d s : Loc w)
    (hx : ∀ o ∈ locMem d ++ locMem s, X (c1.st.ptr + o)) :
    TapeSim X (copyCfg c1 d s) (copyCfg c2 d s) := by
  obtain ⟨pc1, t1, b1, s1⟩ := c1
  obtain ⟨pc2, t2, b2, s2⟩ := c2
  obtain ⟨h1, h2, h3, h4⟩ := h
  simp only at h1 h2 h3 h4 hx
  subst h1 h2 h3
  have hs : ∀ o ∈ locMem s, X (s1.ptr + o) := fun o ho => hx o (by simp [ho])
  unfold copyCfg
  simp only [rdVal_tape h4 s hs]
  apply wrCfg_tape
  exact ⟨rfl, rfl, rfl, h4.rdSt s⟩

theorem TapeSim.setPc {X : Int → Prop} {c1 c2 : Cfg w} (h : TapeSim X c1 c2) (k : Nat) :
    TapeSim X { c1 with pc := k } { c2 with pc := k } := ⟨rfl, h.temps, h.budget, h.st⟩

theorem branch_tape {X : Int → Prop} {c1 c2 : Cfg w} (h : TapeSim X c1 c2) (p : Program w)
    (limited : Bool) (taken : Bool) (off : Int) :
    (branch p limited c1 taken off).tag = (branch p limited c2 taken off).tag ∧
    TapeSim X (branch p limited c1 taken off).cfg (branch p limited c2 taken off).cfg := by
  obtain ⟨pc1, t1, b1, s1⟩ := c1
  obtain ⟨pc2, t2, b2, s2⟩ := c2
  obtain ⟨h1, h2, h3, h4⟩ := h
  simp only at h1 h2 h3 h4
  subst h1 h2 h3
  unfold branch
  simp only
  split
  · exact ⟨rfl, rfl, rfl, rfl, h4⟩
  · split
    · split <;> exact ⟨rfl, rfl, rfl, rfl, h4⟩
    · exact ⟨rfl, rfl, rfl, rfl, h4⟩

/-- A step reads the tape only at the cells `ptr + o`, `o ∈ memOps ins`. -/
theorem stepI_tape {X : Int → Prop} {c1 c2 : Cfg w} (h : TapeSim X c1 c2) (p : Program w)
    (limited : Bool) (ins : Instr w) (hx : ∀ o ∈ memOps ins, X (c1.st.ptr + o)) :
    (stepI p limited c1 ins).tag = (stepI p limited c2 ins).tag ∧
    TapeSim X (stepI p limited c1 ins).cfg (stepI p limited c2 ins).cfg := by
  obtain ⟨pc1, t1, b1, s1⟩ := c1
  obtain ⟨pc2, t2, b2, s2⟩ := c2
  have H := h
  obtain ⟨h1, h2, h3, h4⟩ := h
  simp only at h1 h2 h3 h4 hx
  subst h1 h2 h3
  cases ins with
  | noop => exact ⟨rfl, rfl, rfl, rfl, h4⟩
  | mov sh => exact ⟨rfl, rfl, rfl, rfl, h4.mov sh⟩
  | scan cond sh =>
    have hc : s1.rd cond = s2.rd cond := h4.rd (hx cond (by simp [memOps]))
    simp only [stepI, ← hc]
    repeat' split
    all_goals first | exact ⟨by simp only [StepRes.tag], rfl, rfl, rfl, h4⟩ | exact ⟨by simp only [StepRes.tag], rfl, rfl, rfl, h4.mov sh⟩
  | inp dst =>
    obtain ⟨e1, e2⟩ := h4.input dst
    simp only [stepI, ← e1]
    split <;> exact ⟨by simp only [StepRes.tag], rfl, rfl, rfl, e2⟩
  | out src =>
    obtain ⟨e1, e2⟩ := h4.output (hx src (by simp [memOps]))
    simp only [stepI, ← e1]
    split <;> exact ⟨by simp only [StepRes.tag], rfl, rfl, rfl, e2⟩
  | brz cond off =>
    have hc : s1.rd cond = s2.rd cond := h4.rd (hx cond (by simp [memOps]))
    simp only [stepI, ← hc]
    exact branch_tape H p limited _ off
  | brnz cond off =>
    have hc : s1.rd cond = s2.rd cond := h4.rd (hx cond (by simp [memOps]))
    simp only [stepI, ← hc]
    exact branch_tape H p limited _ off
  | add d a b =>
    simp only [stepI, arith]
    split
    · exact ⟨by simp only [StepRes.tag], (binopCfg_tape H _ d a b hx).setPc _⟩
    · exact ⟨by simp only [StepRes.tag], H⟩
  | sub d a b =>
    simp only [stepI, arith]
    split
    · exact ⟨by simp only [StepRes.tag], (binopCfg_tape H _ d a b hx).setPc _⟩
    · exact ⟨by simp only [StepRes.tag], H⟩
  | mul d a b =>
    simp only [stepI, arith]
    split
    · exact ⟨by simp only [StepRes.tag], (binopCfg_tape H _ d a b hx).setPc _⟩
    · exact ⟨by simp only [StepRes.tag], H⟩
  | copy d s =>
    simp only [stepI]
    split
    · exact ⟨by simp only [StepRes.tag], (copyCfg_tape H d s hx).setPc _⟩
    · exact ⟨by simp only [StepRes.tag], H⟩

theorem step_tape {X : Int → Prop} {p : Program w} {limited : Bool} {c1 c2 : Cfg w} {ins : Instr w}
    (hi : p.insts[c1.pc]? = some ins) (h : TapeSim X c1 c2)
    (hx : ∀ o ∈ memOps ins, X (c1.st.ptr + o)) :
    (Bc.step p limited c1).tag = (Bc.step p limited c2).tag ∧
    TapeSim X (Bc.step p limited c1).cfg (Bc.step p limited c2).cfg := by
  have hi2 : p.insts[c2.pc]? = some ins := by rw [← h.pc]; exact hi
  rw [step_eq hi, step_eq hi2]
  exact stepI_tape h p limited ins hx

end C11
end Hpbf
