/-
Rebuild-round proofs, stage 5 (the analysis a round records is sound for the code it emits): `loopOrIf` when the
child moves the pointer.  The node has `hasShift = true`, so it makes no claim of its own; for the nodes below it:
the heads of the emitted loop (from a state that, after an uncertain move, IS the valid state up to the
representation of the tape) correspond to the heads of the source loop with the same memory, hence are child-valid.
-/
import Hpbf.Proofs.OptRbAnInline

namespace Hpbf
namespace OptProof
open Opt OptSem Ir

variable {w : Nat}

theorem loopOrIf_shift_an {shP shC shS cS : Int} {bodyS : List (Instr w)}
    {s : Rebuild w} {ps : List (Rebuild w)} {sub : Rebuild w} {cond : Int} {isLoop : Bool} {L : OptLoop w}
    {C : List Int} {pc : List (Rebuild w)} {sub0 : Rebuild w} {os os' : Orders} {s' : Rebuild w}
    {G Gc : State w → Prop}
    (hr : (loopOrIf s ps sub cond isLoop L C).run os = .ok (s', os'))
    (hwf : Wf s) (hwfc : Wf sub)
    (hshift : (sub.subShift || sub.shift != s.shift) = true)
    (hcond : cond = cS + shP)
    (hsh : shC + shS = (sub.shift - s.shift) + shP)
    (hrep : ChildRep Gc shP shC pc sub0 [] sub bodyS)
    (hentry : ∀ σE σS, SameMem shP σS σE → σS.rd cS ≠ 0#w → Gc σS → ∃ M0, RelAt shP sub0 pc M0 σE σS)
    (hGc : ∀ M0 σE σS, RelAt shP s ps M0 σE σS → G σS → ∀ k σk, Head cS shS bodyS σS k σk →
      (isLoop = false → k = 0) → σk.rd cS ≠ 0#w → Gc σk)
    (hshs : ShapeSt sub) (hflag : if isLoop then L.atMostOnce = false else L.atLeastOnce = false)
    (hsa0 : sub0.subAnal = [])
    (hcA : AStep (ValidG Gc shP sub0 pc) sub0 sub sub.insts) :
    ∃ new, s'.insts = s.insts ++ new ∧ AStep (ValidG G shP s ps) s s' new := by
  obtain ⟨hsub', _, _⟩ := loopOrIf_shift_foot hr hwf hwfc hshift
  obtain ⟨_, newI, newA, eI, eA, hshape, _⟩ := loopOrIf_pstep hr hwf hwfc hshs hflag
  subst hcond
  obtain ⟨sub1, os1, r, h1, h2, rfl⟩ := loopOrIf_run hr
  -- the child after its own emission
  have hsub1 : ∃ compsC, EmitRes [] sub sub1 compsC ∧ (sub.noReturn = false → sub1.pending = []) ∧
      ReadsMono sub sub1 := by
    split at h1
    · obtain ⟨c, res, hcl⟩ := emitAll_clears [] (pendingSorted sub sub) hwfc
        (fun k hk => (Hpbf.OptLoop.mem_pendingSorted sub sub k).2 hk) h1
      obtain ⟨_, _, ef⟩ := emitAll_foot [] (pendingSorted sub sub) hwfc h1
      exact ⟨c, res, fun _ => hcl, ef.mono⟩
    · rename_i hn
      rw [run_pure] at h1
      cases h1
      refine ⟨[], EmitRes.refl [] hwfc, fun h => ?_, ReadsMono.refl _⟩
      rw [h] at hn; simp at hn
  obtain ⟨compsC, resC, hclC, hmonoC⟩ := hsub1
  have hrep1 : ChildRep Gc shP shC pc sub0 [] sub1 bodyS := hrep.emit resC
  have hcA1 : AStep (ValidG Gc shP sub0 pc) sub0 sub1 sub1.insts := by
    have := hcA.append_noBlocks_right (c := sub1) (isBlock_calcs compsC) resC.subAnal hmonoC
    rw [← resC.insts] at this
    exact this
  obtain ⟨_, hAn1⟩ := hcA1.child hsa0
  have hshift1 : (sub1.subShift || sub1.shift != s.shift) = true := by
    rw [resC.hdr.2.2.2.2, resC.hdr.2.2.1]; exact hshift
  -- the parent emits everything
  unfold loopPrep at h2
  rw [if_pos hshift1, run_bind_ok] at h2
  obtain ⟨s1, os2, h3, h4⟩ := h2
  rw [run_pure] at h4
  cases h4
  obtain ⟨compsP, resP, hclP⟩ := emitAll_clears ps (pendingSorted s s) hwf
    (fun k hk => (Hpbf.OptLoop.mem_pendingSorted s s k).2 hk) h3
  obtain ⟨_, _, _, _, _, u6, _, u8, _, _⟩ := uncertainShift_fields s1
  obtain ⟨f1, f2, _⟩ := loopTail_shapeFields (uncertainShift s1) sub1 (cS + shP) isLoop L
    (sub1.subShift || sub1.shift != s.shift) []
  have hbs : sub1.shift - (uncertainShift s1).shift = sub.shift - s.shift := by
    rw [u6, resP.hdr.2.2.1, resC.hdr.2.2.1]
  rw [hbs] at f1
  -- the appended code and node
  have hnewI : newI = compsP.map Instr.calc ++
      [if isLoop then Instr.loop (cS + shP) (sub.shift - s.shift) sub1.insts L.atLeastOnce
        else Instr.ifnz (cS + shP) (sub.shift - s.shift) sub1.insts] := by
    apply List.append_cancel_left (as := s.insts)
    rw [← eI, f1, u8, resP.insts, List.append_assoc]
  have hnewA : newA = [OptAnalysis.mk L (sub1.subShift || sub1.shift != s.shift) sub1.reads [] sub1.subAnal] := by
    apply List.append_cancel_left (as := s.subAnal)
    rw [← eA, f2]
    show s1.subAnal ++ _ = _
    rw [resP.subAnal]
  subst hnewI
  subst hnewA
  refine ⟨_, eI, ⟨_, eA, hshape, ?_⟩⟩
  -- the emitted heads are child-valid (up to `StEq`)
  have hcondrd : ∀ (σS' σE' : State w), SameMem shP σS' σE' → σS'.rd cS = σE'.rd (cS + shP) :=
    fun σS' σE' hm => sameMem_rd hm
  have hheads : ∀ M0 (σ1 σS : State w), RelAt shP s ps M0 σ1 σS → G σS → ∀ k h,
      Head (cS + shP) (sub.shift - s.shift) sub1.insts (compsP.foldl doCalc σ1) k h →
      (isLoop = false → k = 0) → ∃ σk, Head cS shS bodyS σS k σk ∧ SameMem shP σk h := by
    intro M0 σ1 σS hrel hg k h hhd
    induction hhd with
    | zero => exact fun _ => ⟨σS, Head.zero, (resP.relAt hrel).sameMem hclP⟩
    | @succ k hk a' hprev hne hex ih =>
      intro hk0
      have hil : isLoop = false → k = 0 := fun h' => by have := hk0 h'; omega
      obtain ⟨σk, hh, hm⟩ := ih hil
      have hneS : σk.rd cS ≠ 0#w := by rw [hcondrd σk hk hm]; exact hne
      have hgc : Gc σk := hGc M0 σ1 σS hrel hg k σk hh hil hneS
      obtain ⟨M0c, hre⟩ := hentry hk σk hm hneS hgc
      obtain ⟨hs1, _⟩ := hrep1 M0c hk σk hre hgc
      obtain ⟨a, hexS, M0', hr', _⟩ := hs1.finR a' hex
      have hp1 : sub1.pending = [] := hclC (by
        have := hr'.nr
        rw [resC.noRet] at this; exact this)
      exact ⟨a.mov shS, Head.succ hh hneS hexS, (hr'.sameMem hp1).mov hsh⟩
  have hmir : ∀ head, HeadG (AfterG (MirV (ValidG G shP s ps) s
      (loopTail (uncertainShift s1) sub1 (cS + shP) isLoop L (sub1.subShift || sub1.shift != s.shift) []))
        (compsP.map Instr.calc)) isLoop (cS + shP) (sub.shift - s.shift) sub1.insts head →
      MirV (ValidG Gc shP sub0 pc) sub0 sub1 head := by
    rintro head ⟨hnz, τ2, ⟨σ2, ⟨σ1, K, hv1, _, hKs, hag⟩, hex⟩, hk⟩
    rw [exec_calcs_fin hex] at hk
    obtain ⟨M0, σS, hrel, hg⟩ := hv1
    have he : StEq σ1 σ2 := hag.stEq_of_empty (fun v hv' => hKs hsub' v hv'.1)
    have heτ : StEq (compsP.foldl doCalc σ2) (compsP.foldl doCalc σ1) := (he.foldl_doCalc compsP).symm
    -- the corresponding head of the run from the valid state
    have hcor : ∃ k h1, Head (cS + shP) (sub.shift - s.shift) sub1.insts (compsP.foldl doCalc σ1) k h1 ∧
        StEq head h1 ∧ (isLoop = false → k = 0) := by
      cases isLoop with
      | true =>
        simp only [if_true] at hk
        obtain ⟨k, hh2⟩ := hk
        obtain ⟨h1, hh1, heq⟩ := head_ext hh2 heτ
        exact ⟨k, h1, hh1, heq, fun h' => by cases h'⟩
      | false =>
        simp only [Bool.false_eq_true, if_false] at hk
        exact ⟨0, _, Head.zero, by rw [hk]; exact heτ, fun _ => rfl⟩
    obtain ⟨k, h1, hh1, heq, hk0⟩ := hcor
    obtain ⟨σk, hh, hm⟩ := hheads M0 σ1 σS hrel hg k h1 hh1 hk0
    have hneS : σk.rd cS ≠ 0#w := by rw [hcondrd σk h1 hm, ← heq.rd]; exact hnz
    have hgc : Gc σk := hGc M0 σ1 σS hrel hg k σk hh hk0 hneS
    obtain ⟨M0c, hre⟩ := hentry h1 σk hm hneS hgc
    exact ⟨h1, fun _ => False, ⟨M0c, σk, hre, hgc⟩, fun _ h => h.elim, fun _ _ h => h,
      AgreeOff.of_stEq heq.symm⟩
  have hbody := analInL_mono hmir hAn1
  have e : [OptAnalysis.mk L (sub1.subShift || sub1.shift != s.shift) sub1.reads [] sub1.subAnal] =
      [] ++ [OptAnalysis.mk L (sub1.subShift || sub1.shift != s.shift) sub1.reads [] sub1.subAnal] := rfl
  rw [e]
  refine (analInL_append (shapeL_nonblocks (isBlock_calcs compsP))).2 ⟨analInL_noBlocks (isBlock_calcs compsP), ?_⟩
  cases isLoop with
  | true =>
    simp only [if_true] at hbody ⊢
    rw [analInL_single rfl, analInI_loop]
    have hamo : L.atMostOnce = false := by simpa using hflag
    refine ⟨blockIn_loop_of (show L.atMostOnce = false from hamo) ?_, hbody⟩
    intro h
    have h' : (sub1.subShift || sub1.shift != s.shift) = false := h
    rw [hshift1] at h'
    cases h'
  | false =>
    simp only [Bool.false_eq_true, if_false] at hbody ⊢
    rw [analInL_single rfl]
    exact analInI_ifnz_of hbody

end OptProof
end Hpbf

#print axioms Hpbf.OptProof.loopOrIf_shift_an
