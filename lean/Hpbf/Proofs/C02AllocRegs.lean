/-
C02 (`allocate_temps`), part 5: the register part of the invariant (`RegsInv`) under the elementary updates of
the pass: releasing a range (`freeOne`), forwarding, choosing a location (`pickTemp`).
-/
import Hpbf.Proofs.C02AllocLemmas
set_option linter.unusedSimpArgs false

namespace Hpbf
namespace C02
namespace Alloc

open Bc BcWf BcGen C11

variable {w : Nat}

theorem regsInv_congr {a b : ASt w} (h : RegsInv a) (h1 : b.repl = a.repl) (h2 : b.freeRegs = a.freeRegs)
    (h3 : b.freeTemps = a.freeTemps) (h4 : b.nextFresh = a.nextFresh) : RegsInv b := by
  obtain ⟨k1, k2, k3, k4, k5, k6, k7⟩ := h
  constructor
  · rw [h1]; exact k1
  · rw [h1]; exact k2
  · rw [h1, h2, h3, h4]; exact k3
  · rw [h2]; exact k4
  · rw [h3]; exact k5
  · rw [h2, h3]; exact k6
  · rw [h2, h3, h4]; exact k7

/-! ### `freeOne` -/

theorem freeOne_st (numRegs : Nat) (a : ASt w) (t : Nat) : (freeOne numRegs a t).st = a.st := by
  unfold freeOne; split <;> (try split) <;> rfl
theorem freeOne_nre (numRegs : Nat) (a : ASt w) (t : Nat) : (freeOne numRegs a t).nre = a.nre := by
  unfold freeOne; split <;> (try split) <;> rfl
theorem freeOne_nextFresh (numRegs : Nat) (a : ASt w) (t : Nat) :
    (freeOne numRegs a t).nextFresh = a.nextFresh := by
  unfold freeOne; split <;> (try split) <;> rfl
theorem freeOne_repl (numRegs : Nat) (a : ASt w) (t : Nat) :
    (freeOne numRegs a t).repl = alErase a.repl t := by
  unfold freeOne; split <;> (try split) <;> rfl

theorem regs_freeOne (numRegs : Nat) {a : ASt w} (h : RegsInv a) (t : Nat) : RegsInv (freeOne numRegs a t) := by
  have hk := nodup_keys_alErase a.repl t h.replKeys
  have hget : ∀ t' l, alGet (alErase a.repl t) t' = some l → alGet a.repl t' = some l ∧ t' ≠ t := by
    intro t' l hl
    rw [alGet_alErase _ _ _ h.replKeys] at hl
    split at hl
    · cases hl
    · rename_i hne; exact ⟨hl, fun e => hne e.symm⟩
  have hinj : ∀ (t1 t2 r : Nat), alGet (alErase a.repl t) t1 = some (.tmp r) →
      alGet (alErase a.repl t) t2 = some (.tmp r) → t1 = t2 :=
    fun t1 t2 r h1 h2 => h.inj t1 t2 r (hget _ _ h1).1 (hget _ _ h2).1
  unfold freeOne
  cases hg : alGet a.repl t with
  | none =>
    exact ⟨hk, hinj, fun t' r hr => h.notFree t' r (hget _ _ hr).1, h.freeRegsNodup, h.freeTempsNodup,
      h.freeDisj, h.freeLt⟩
  | some l =>
    cases l with
    | tmp r =>
      have hr := h.notFree t r hg
      simp only
      by_cases hlt : r < numRegs
      · simp only [hlt, if_true]
        refine ⟨hk, hinj, ?_, nodup_minPush hr.1 h.freeRegsNodup, h.freeTempsNodup, ?_, ?_⟩
        · intro t' r' hr'
          obtain ⟨g1, g2⟩ := hget _ _ hr'
          have := h.notFree t' r' g1
          refine ⟨?_, this.2.1, this.2.2⟩
          simp only [mem_minPush, not_or]
          refine ⟨?_, this.1⟩
          intro e; subst e
          exact g2 (h.inj _ _ _ g1 hg)
        · intro x hx
          simp only [mem_minPush] at hx
          rcases hx with rfl | hx
          · exact hr.2.1
          · exact h.freeDisj x hx
        · intro x hx
          simp only [mem_minPush] at hx
          rcases hx with (rfl | hx) | hx
          · exact hr.2.2
          · exact h.freeLt x (Or.inl hx)
          · exact h.freeLt x (Or.inr hx)
      · simp only [hlt, if_false]
        refine ⟨hk, hinj, ?_, h.freeRegsNodup, nodup_minPush hr.2.1 h.freeTempsNodup, ?_, ?_⟩
        · intro t' r' hr'
          obtain ⟨g1, g2⟩ := hget _ _ hr'
          have := h.notFree t' r' g1
          refine ⟨this.1, ?_, this.2.2⟩
          simp only [mem_minPush, not_or]
          refine ⟨?_, this.2.1⟩
          intro e; subst e
          exact g2 (h.inj _ _ _ g1 hg)
        · intro x hx
          simp only [mem_minPush, not_or]
          refine ⟨?_, h.freeDisj x hx⟩
          intro e; subst e; exact hr.1 hx
        · intro x hx
          simp only [mem_minPush] at hx
          rcases hx with hx | rfl | hx
          · exact h.freeLt x (Or.inl hx)
          · exact hr.2.2
          · exact h.freeLt x (Or.inr hx)
    | mem m =>
      exact ⟨hk, hinj, fun t' r hr => h.notFree t' r (hget _ _ hr).1, h.freeRegsNodup, h.freeTempsNodup,
        h.freeDisj, h.freeLt⟩
    | memZero m =>
      exact ⟨hk, hinj, fun t' r hr => h.notFree t' r (hget _ _ hr).1, h.freeRegsNodup, h.freeTempsNodup,
        h.freeDisj, h.freeLt⟩
    | imm c =>
      exact ⟨hk, hinj, fun t' r hr => h.notFree t' r (hget _ _ hr).1, h.freeRegsNodup, h.freeTempsNodup,
        h.freeDisj, h.freeLt⟩

/-- Releasing the ranges in `ts`. -/
def freeList (numRegs : Nat) (ts : List Nat) (a : ASt w) : ASt w := ts.foldl (freeOne numRegs) a

theorem freeList_st (numRegs : Nat) (ts : List Nat) (a : ASt w) : (freeList numRegs ts a).st = a.st := by
  induction ts generalizing a with
  | nil => rfl
  | cons t ts ih => simp only [freeList, List.foldl_cons] at ih ⊢; rw [ih, freeOne_st]
theorem freeList_nre (numRegs : Nat) (ts : List Nat) (a : ASt w) : (freeList numRegs ts a).nre = a.nre := by
  induction ts generalizing a with
  | nil => rfl
  | cons t ts ih => simp only [freeList, List.foldl_cons] at ih ⊢; rw [ih, freeOne_nre]
theorem freeList_nextFresh (numRegs : Nat) (ts : List Nat) (a : ASt w) :
    (freeList numRegs ts a).nextFresh = a.nextFresh := by
  induction ts generalizing a with
  | nil => rfl
  | cons t ts ih => simp only [freeList, List.foldl_cons] at ih ⊢; rw [ih, freeOne_nextFresh]

theorem regs_freeList (numRegs : Nat) (ts : List Nat) {a : ASt w} (h : RegsInv a) :
    RegsInv (freeList numRegs ts a) := by
  induction ts generalizing a with
  | nil => exact h
  | cons t ts ih => simp only [freeList, List.foldl_cons] at ih ⊢; exact ih (regs_freeOne numRegs h t)

theorem alGet_freeList (numRegs : Nat) (ts : List Nat) {a : ASt w} (h : RegsInv a) (t' : Nat) :
    alGet (freeList numRegs ts a).repl t' = if t' ∈ ts then none else alGet a.repl t' := by
  induction ts generalizing a with
  | nil => simp [freeList]
  | cons t ts ih =>
    simp only [freeList, List.foldl_cons] at ih ⊢
    rw [ih (regs_freeOne numRegs h t), freeOne_repl, alGet_alErase _ _ _ h.replKeys]
    by_cases h1 : t' ∈ ts
    · simp [h1]
    · by_cases h2 : t = t'
      · subst h2; simp [h1]
      · have : ¬ t' = t := fun e => h2 e.symm
        simp [h1, h2, this]

/-! ### new entries -/

theorem regs_setRepl_nontmp {a : ASt w} (h : RegsInv a) (t : Nat) (l : Loc w) (hl : ∀ r, l ≠ .tmp r) :
    RegsInv ({ a with repl := alSet a.repl t l } : ASt w) := by
  have hget : ∀ t' r, alGet (alSet a.repl t l) t' = some (.tmp r) → alGet a.repl t' = some (.tmp r) := by
    intro t' r hr
    rw [alGet_alSet] at hr
    split at hr
    · cases hr; exact absurd rfl (hl r)
    · exact hr
  exact ⟨nodup_keys_alSet _ _ _ h.replKeys, fun t1 t2 r h1 h2 => h.inj t1 t2 r (hget _ _ h1) (hget _ _ h2),
    fun t' r hr => h.notFree t' r (hget _ _ hr), h.freeRegsNodup, h.freeTempsNodup, h.freeDisj, h.freeLt⟩

/-- The location chosen by `alloc_temp` is unused, and the remaining free lists are what is left. -/
theorem regs_pick {a : ASt w} (h : RegsInv a) (live old : Nat) :
    RegsInv ({ a with
      freeRegs := (pickTemp a live).2.1, freeTemps := (pickTemp a live).2.2.1,
      nextFresh := (pickTemp a live).2.2.2,
      repl := alSet a.repl old (.tmp (pickTemp a live).1) } : ASt w) := by
  -- the generic argument: `r` unused, the new free lists are sublists, `nextFresh` grows
  have key : ∀ (r : Nat) (fr ft : List Nat) (nf : Nat),
      (∀ x, x ∈ fr → x ∈ a.freeRegs) → (∀ x, x ∈ ft → x ∈ a.freeTemps) → fr.Nodup → ft.Nodup →
      a.nextFresh ≤ nf → r ∉ fr → r ∉ ft → r < nf →
      (∀ t' r', alGet a.repl t' = some (.tmp r') → r' ≠ r) →
      RegsInv ({ a with freeRegs := fr, freeTemps := ft, nextFresh := nf,
                        repl := alSet a.repl old (.tmp r) } : ASt w) := by
    intro r fr ft nf h1 h2 h3 h4 h5 h6 h7 h8 h9
    have hget : ∀ t' r', alGet (alSet a.repl old (.tmp r)) t' = some (.tmp r') →
        (t' = old ∧ r' = r) ∨ (t' ≠ old ∧ alGet a.repl t' = some (.tmp r')) := by
      intro t' r' hr
      rw [alGet_alSet] at hr
      split at hr
      · rename_i e; cases hr; exact Or.inl ⟨e.symm, rfl⟩
      · rename_i e; exact Or.inr ⟨fun e' => e e'.symm, hr⟩
    refine ⟨nodup_keys_alSet _ _ _ h.replKeys, ?_, ?_, h3, h4, ?_, ?_⟩
    · intro t1 t2 r' g1 g2
      rcases hget _ _ g1 with ⟨e1, e1'⟩ | ⟨n1, q1⟩ <;> rcases hget _ _ g2 with ⟨e2, e2'⟩ | ⟨n2, q2⟩
      · rw [e1, e2]
      · subst e1'; exact absurd rfl (h9 _ _ q2)
      · subst e2'; exact absurd rfl (h9 _ _ q1)
      · exact h.inj _ _ _ q1 q2
    · intro t' r' g
      rcases hget _ _ g with ⟨_, e⟩ | ⟨_, g⟩
      · subst e; exact ⟨h6, h7, h8⟩
      · have := h.notFree t' r' g
        exact ⟨fun hx => this.1 (h1 _ hx), fun hx => this.2.1 (h2 _ hx), Nat.lt_of_lt_of_le this.2.2 h5⟩
    · intro x hx hx'
      exact h.freeDisj x (h1 _ hx) (h2 _ hx')
    · intro x hx
      rcases hx with hx | hx
      · exact Nat.lt_of_lt_of_le (h.freeLt x (Or.inl (h1 _ hx))) h5
      · exact Nat.lt_of_lt_of_le (h.freeLt x (Or.inr (h2 _ hx))) h5
  have hfresh : ∀ t' r', alGet a.repl t' = some (.tmp r') → r' ≠ a.nextFresh :=
    fun t' r' g => Nat.ne_of_lt (h.notFree t' r' g).2.2
  have hfr : ∀ r rs, a.freeRegs = r :: rs →
      (∀ x, x ∈ rs → x ∈ a.freeRegs) ∧ rs.Nodup ∧ r ∉ rs ∧ r ∉ a.freeTemps ∧ r < a.nextFresh ∧
      (∀ t' r', alGet a.repl t' = some (.tmp r') → r' ≠ r) := by
    intro r rs e
    have hn := h.freeRegsNodup
    rw [e, List.nodup_cons] at hn
    have hm : r ∈ a.freeRegs := by rw [e]; exact List.mem_cons_self
    refine ⟨fun x hx => by rw [e]; exact List.mem_cons_of_mem _ hx, hn.2, hn.1, h.freeDisj r hm,
      h.freeLt r (Or.inl hm), ?_⟩
    intro t' r' g e'
    subst e'
    exact (h.notFree t' r' g).1 hm
  have hft : ∀ r rs, a.freeTemps = r :: rs →
      (∀ x, x ∈ rs → x ∈ a.freeTemps) ∧ rs.Nodup ∧ r ∉ rs ∧ r ∉ a.freeRegs ∧ r < a.nextFresh ∧
      (∀ t' r', alGet a.repl t' = some (.tmp r') → r' ≠ r) := by
    intro r rs e
    have hn := h.freeTempsNodup
    rw [e, List.nodup_cons] at hn
    have hm : r ∈ a.freeTemps := by rw [e]; exact List.mem_cons_self
    refine ⟨fun x hx => by rw [e]; exact List.mem_cons_of_mem _ hx, hn.2, hn.1,
      fun hx => h.freeDisj r hx hm, h.freeLt r (Or.inr hm), ?_⟩
    intro t' r' g e'
    subst e'
    exact (h.notFree t' r' g).2.1 hm
  have hnfR : a.nextFresh ∉ a.freeRegs := fun hx => Nat.lt_irrefl _ (h.freeLt _ (Or.inl hx))
  have hnfT : a.nextFresh ∉ a.freeTemps := fun hx => Nat.lt_irrefl _ (h.freeLt _ (Or.inr hx))
  unfold pickTemp
  split
  · cases hR : a.freeRegs with
    | cons r rs =>
      obtain ⟨g1, g2, g3, g4, g5, g6⟩ := hfr r rs hR
      exact key r rs a.freeTemps a.nextFresh g1 (fun x hx => hx) g2 h.freeTempsNodup (Nat.le_refl _) g3 g4 g5 g6
    | nil =>
      cases hT : a.freeTemps with
      | cons r rs =>
        obtain ⟨g1, g2, g3, g4, g5, g6⟩ := hft r rs hT
        exact key r [] rs a.nextFresh (fun x hx => by cases hx) g1 List.nodup_nil g2 (Nat.le_refl _)
          (by simp) g3 g5 g6
      | nil =>
        exact key a.nextFresh [] [] (a.nextFresh + 1) (fun x hx => by cases hx) (fun x hx => by cases hx)
          List.nodup_nil List.nodup_nil (Nat.le_succ _) (by simp) (by simp) (Nat.lt_succ_self _) hfresh
  · cases hT : a.freeTemps with
    | cons r rs =>
      obtain ⟨g1, g2, g3, g4, g5, g6⟩ := hft r rs hT
      exact key r a.freeRegs rs a.nextFresh (fun x hx => hx) g1 h.freeRegsNodup g2 (Nat.le_refl _) g4 g3 g5 g6
    | nil =>
      exact key a.nextFresh a.freeRegs [] (a.nextFresh + 1) (fun x hx => hx) (fun x hx => by cases hx)
        h.freeRegsNodup List.nodup_nil (Nat.le_succ _) hnfR (by simp) (Nat.lt_succ_self _) hfresh

end Alloc
end C02
end Hpbf
