/-
Corollary for programs without loops / ifs: no analysis fact is needed (pure backward liveness with
"nothing runs after the end of the program").
-/
import Hpbf.Proofs.C01DseMain

namespace Hpbf
namespace C01Dse
open Ir OptDse

variable {w : Nat}

theorem cfgAt_inv {lim : Bool} (P : Cfg w → Prop) (hstep : ∀ c c1, P c → step lim c = .next c1 → P c1)
    {f : Nat} {c0 c : Cfg w} (h0 : P c0) (h : cfgAt lim f c0 = some c) : P c := by
  induction f generalizing c0 with
  | zero =>
    simp only [cfgAt, Option.some.injEq] at h
    subst h; exact h0
  | succ f ih =>
    rw [cfgAt] at h
    cases hs : step lim c0 with
    | next c1 => rw [hs] at h; exact ih (hstep c0 c1 h0 hs) h
    | halt _ => rw [hs] at h; exact absurd h (by simp)
    | stop _ => rw [hs] at h; exact absurd h (by simp)
    | interrupted _ => rw [hs] at h; exact absurd h (by simp)

/-- No loop, no `if`. -/
def StraightLine (b : Block w) : Prop := ∀ i ∈ b.insts, isBlock i = false

theorem straight_step {lim : Bool} (c c1 : Cfg w)
    (h : c.conts = [] ∧ ∀ i ∈ c.cur, isBlock i = false) (hs : step lim c = .next c1) :
    c1.conts = [] ∧ ∀ i ∈ c1.cur, isBlock i = false := by
  obtain ⟨cur, conts, budget, st⟩ := c
  obtain ⟨hk, hc⟩ := h
  simp only at hk hc
  subst hk
  cases cur with
  | nil => simp [step] at hs
  | cons i rest =>
    have hrest : ∀ j ∈ rest, isBlock j = false := fun j hj => hc j (List.mem_cons_of_mem _ hj)
    cases i with
    | output src =>
      simp only [step] at hs
      split at hs
      · cases hs; exact ⟨rfl, hrest⟩
      · exact absurd hs (by simp)
    | input dst =>
      simp only [step] at hs
      split at hs
      · cases hs; exact ⟨rfl, hrest⟩
      · exact absurd hs (by simp)
    | «calc» calcs =>
      simp only [step] at hs
      cases hs; exact ⟨rfl, hrest⟩
    | loop cond shift body once => exact absurd (hc _ (List.mem_cons_self ..)) (by simp [isBlock])
    | ifnz cond shift body => exact absurd (hc _ (List.mem_cons_self ..)) (by simp [isBlock])

theorem shiftOkL_straight (A : DAnal) (l : List (Instr w)) (h : ∀ i ∈ l, isBlock i = false) :
    shiftOkL A l = true := by
  induction l with
  | nil => rw [shiftOkL]
  | cons i rest ih =>
    rw [shiftOkL, ih (fun j hj => h j (List.mem_cons_of_mem _ hj)), Bool.and_true]
    have hi := h i (List.mem_cons_self ..)
    cases i with
    | loop _ _ _ _ => simp [isBlock] at hi
    | ifnz _ _ _ => simp [isBlock] at hi
    | output _ => simp [shiftOkI]
    | input _ => simp [shiftOkI]
    | «calc» _ => simp [shiftOkI]

theorem shapeOkL_straight (A : DAnal) (l : List (Instr w)) (h : ∀ i ∈ l, isBlock i = false) :
    shapeOkL A l = true := by
  induction l with
  | nil => rw [shapeOkL]
  | cons i rest ih =>
    rw [shapeOkL, ih (fun j hj => h j (List.mem_cons_of_mem _ hj)), Bool.and_true]
    have hi := h i (List.mem_cons_self ..)
    cases i with
    | loop _ _ _ _ => simp [isBlock] at hi
    | ifnz _ _ _ => simp [isBlock] at hi
    | output _ => simp [shapeOkI]
    | input _ => simp [shapeOkI]
    | «calc» _ => simp [shapeOkI]

/-- For a straight-line program every analysis is sound. -/
theorem analSound_straight (lim : Bool) (bud : Nat) {b : Block w} (anal : DAnal) (env : Env)
    (hb : StraightLine b) : AnalSoundAt lim bud b anal env := by
  have hinv : ∀ c, Reach lim bud b env c → c.conts = [] ∧ ∀ i ∈ c.cur, isBlock i = false := by
    rintro c ⟨f, hf⟩
    have h0 : (initCfg b bud env).conts = [] ∧ ∀ i ∈ (initCfg b bud env).cur, isBlock i = false := ⟨rfl, hb⟩
    exact cfgAt_inv (fun c => c.conts = [] ∧ ∀ i ∈ c.cur, isBlock i = false) straight_step h0 hf
  refine ⟨shiftOkL_straight anal b.insts hb, ?_, ?_, ?_⟩
  · intro c hc i rest cond shift body A0 A1 h1 h2 _ _ _
    have := (hinv c hc).2 i (by rw [h1]; exact List.mem_cons_self ..)
    cases i <;> simp [blockParts] at h2 <;> simp [isBlock] at this
  · intro c hc cond shift body rest ks A0 _ h2 _ _
    rw [(hinv c hc).1] at h2; exact absurd h2 (by simp)
  · intro c hc cond shift body rest ks A0 c1 _ h2
    rw [(hinv c hc).1] at h2; exact absurd h2 (by simp)

end C01Dse
end Hpbf
