/-
C03 / C13 (the JIT's instruction selector is total on generator output), part 3: `parameter_reordering` maps
every shape to a form with a selector arm (`reorderInst_jitForm`), `strip_noops` keeps the forms, and hence
every instruction of a program translated WITHOUT fusion (the JIT's setting) has a selector arm, every live
bitmap is below `2^numRegs`, and every branch stays inside the program (`translate_jitForm'`).
-/
import Hpbf.Proofs.C03TotalShape
import Hpbf.Proofs.C02AllocDse
import Hpbf.Proofs.C11AllocStrip
import Hpbf.Proofs.ChainPhases
set_option linter.unusedSimpArgs false
namespace Hpbf
namespace C03
open Bc BcWf BcGen C11 C02 C02Emit C02.AEmit C02.Alloc Chain
variable {w : Nat}

/-- `shape` admits everything the emission phase produces. -/
theorem emitClosed_shape : EmitClosed (fun x : Instr w => shape x = true) :=
  ⟨rfl, fun _ => rfl, fun _ => rfl, fun _ => rfl, fun _ _ => rfl, fun _ _ => rfl, fun _ _ => rfl, fun _ _ => rfl,
   fun _ _ _ => rfl, fun _ _ _ => rfl, fun _ _ _ => rfl, fun _ _ => rfl⟩

/-- The last step of `reorderComm`. -/
theorem commForm_swap (d x y : Loc w) (h1 : commForm d x y = true)
    (h2 : d = y → commForm d y x = true) :
    commForm d (if d = y then (y, x) else (x, y)).1 (if d = y then (y, x) else (x, y)).2 = true := by
  by_cases e : d = y
  · simp only [e, if_true]; rw [← e]; exact e ▸ h2 e
  · simp only [e, if_false]; exact h1

theorem reorderComm_eq (d a b : Loc w) :
    reorderComm d a b =
      (let p : Loc w × Loc w :=
        match a, b with
        | .tmp t0, .tmp t1 => if t1 < t0 then (b, a) else (a, b)
        | .tmp _, _ => (b, a)
        | _, _ => (a, b)
       let q : Loc w × Loc w := if isImm p.1 then (p.2, p.1) else p
       if d = q.2 then (q.2, q.1) else q) := by
  unfold reorderComm
  cases a <;> cases b <;> simp only <;> (repeat' split) <;> rfl

theorem commForm_reorderComm' (d a b a' b' : Loc w) (hd : isMT d = true) (ha : isMTI a = true)
    (hb : isMTI b = true) (hn : ¬ (isImm a = true ∧ isImm b = true)) (h : reorderComm d a b = (a', b')) :
    commForm d a' b' = true := by
  rw [reorderComm_eq] at h
  have key : ∀ x y : Loc w, commForm d x y = true → (d = y → commForm d y x = true) →
      (if d = y then (y, x) else (x, y)) = (a', b') → commForm d a' b' = true := by
    intro x y h1 h2 he
    by_cases e : d = y
    · simp only [e, if_true, Prod.mk.injEq] at he; obtain ⟨rfl, rfl⟩ := he; exact e ▸ h2 e
    · simp only [e, if_false, Prod.mk.injEq] at he; obtain ⟨rfl, rfl⟩ := he; exact h1
  cases a with
  | memZero m => cases ha
  | mem m =>
    cases b with
    | memZero m' => cases hb
    | mem m' => 
        simp only [isImm, Bool.false_eq_true, if_false, if_true] at h
        refine key _ _ ?_ ?_ h
        · cases d <;> simp_all [commForm, isMT, isMTI]
        · intro e; cases d <;> simp_all [commForm, isMT, isMTI]
    | tmp t => 
        simp only [isImm, Bool.false_eq_true, if_false, if_true] at h
        refine key _ _ ?_ ?_ h
        · cases d <;> simp_all [commForm, isMT, isMTI]
        · intro e; subst e; simp [commForm]
    | imm c => 
        simp only [isImm, Bool.false_eq_true, if_false, if_true] at h
        refine key _ _ ?_ ?_ h
        · cases d <;> simp_all [commForm, isMT, isMTI]
        · intro e; subst e; cases hd
  | tmp t =>
    cases b with
    | memZero m' => cases hb
    | mem m' => 
        simp only [isImm, Bool.false_eq_true, if_false, if_true] at h
        refine key _ _ ?_ ?_ h
        · cases d <;> simp_all [commForm, isMT, isMTI]
        · intro e; subst e; simp [commForm]
    | tmp t' =>
      simp only at h
      by_cases hlt : t' < t
      · simp only [hlt, if_true, isImm] at h
        
        simp only [isImm, Bool.false_eq_true, if_false, if_true] at h
        refine key _ _ ?_ ?_ h
        · cases d <;> simp_all [commForm, isMT, isMTI]
        · intro e; cases d <;> simp_all [commForm, isMT, isMTI]
      · simp only [hlt, if_false, isImm] at h
        
        simp only [isImm, Bool.false_eq_true, if_false, if_true] at h
        refine key _ _ ?_ ?_ h
        · cases d <;> simp_all [commForm, isMT, isMTI]
        · intro e; cases d <;> simp_all [commForm, isMT, isMTI]
    | imm c => 
        simp only [isImm, Bool.false_eq_true, if_false, if_true] at h
        refine key _ _ ?_ ?_ h
        · cases d <;> simp_all [commForm, isMT, isMTI]
        · intro e; subst e; cases hd
  | imm c =>
    cases b with
    | memZero m' => cases hb
    | mem m' => 
        simp only [isImm, Bool.false_eq_true, if_false, if_true] at h
        refine key _ _ ?_ ?_ h
        · cases d <;> simp_all [commForm, isMT, isMTI]
        · intro e; subst e; cases hd
    | tmp t => 
        simp only [isImm, Bool.false_eq_true, if_false, if_true] at h
        refine key _ _ ?_ ?_ h
        · cases d <;> simp_all [commForm, isMT, isMTI]
        · intro e; subst e; cases hd
    | imm c' => exact absurd ⟨rfl, rfl⟩ hn

theorem commForm_reorderComm (d a b : Loc w) (hd : isMT d = true) (ha : isMTI a = true) (hb : isMTI b = true)
    (hn : ¬ (isImm a = true ∧ isImm b = true)) :
    commForm d (reorderComm d a b).1 (reorderComm d a b).2 = true :=
  commForm_reorderComm' d a b _ _ hd ha hb hn rfl

/-- `parameter_reordering` turns every shape into a form the selector has an arm for. -/
theorem reorderInst_jitForm {x : Instr w} (h : shape x = true) : JitForm (reorderInst x) = true := by
  cases x with
  | noop => rfl
  | scan c s => cases h
  | mov s => rfl
  | inp d => rfl
  | out s => rfl
  | brz c o => rfl
  | brnz c o => rfl
  | copy d s => simpa [reorderInst, JitForm, shape] using h
  | sub d a b =>
    simp only [shape, Bool.and_eq_true] at h
    obtain ⟨⟨hd, ha⟩, hb⟩ := h
    cases b with
    | imm cb =>
      cases a with
      | imm ca => simp [reorderInst, JitForm, hd, isMTI]
      | mem m =>
        have := commForm_reorderComm d (.mem m) (.imm (-cb)) hd rfl rfl (by simp [isImm])
        simpa [reorderInst, JitForm] using this
      | tmp t =>
        have := commForm_reorderComm d (.tmp t) (.imm (-cb)) hd rfl rfl (by simp [isImm])
        simpa [reorderInst, JitForm] using this
      | memZero m => cases ha
    | mem m => cases a <;> simp_all [reorderInst, JitForm, subForm, isMT, isMTI]
    | tmp t => cases a <;> simp_all [reorderInst, JitForm, subForm, isMT, isMTI]
    | memZero m => cases hb
  | add d a b =>
    simp only [shape, Bool.and_eq_true] at h
    obtain ⟨⟨hd, ha⟩, hb⟩ := h
    by_cases hi : isImm a = true ∧ isImm b = true
    · cases a <;> cases b <;> simp [isImm] at hi
      simp [reorderInst, JitForm, hd, isMTI]
    · have := commForm_reorderComm d a b hd ha hb hi
      cases a <;> cases b <;> simp_all [reorderInst, JitForm, isImm]
  | mul d a b =>
    simp only [shape, Bool.and_eq_true] at h
    obtain ⟨⟨hd, ha⟩, hb⟩ := h
    by_cases hi : isImm a = true ∧ isImm b = true
    · cases a <;> cases b <;> simp [isImm] at hi
      simp [reorderInst, JitForm, hd, isMTI]
    · have := commForm_reorderComm d a b hd ha hb hi
      cases a <;> cases b <;> simp_all [reorderInst, JitForm, isImm]

theorem fixInst_jitForm (B : Array (Instr w)) (i : Nat) (x : Instr w) : JitForm (fixInst B i x) = JitForm x := by
  cases x <;> rfl

/-- `strip_noops` keeps every live bitmap that it keeps. -/
theorem stripNoops_live_mem {s s' : St w} (h : stripNoops s = .ok s') : ∀ l ∈ s'.live.toList, l ∈ s.live.toList := by
  unfold stripNoops at h
  split at h
  · cases h
  · split at h
    · cases h
    · simp only [Except.ok.injEq] at h
      subst h
      intro l hl
      simp only [List.mem_map, List.mem_filter] at hl
      obtain ⟨p, ⟨hp, _⟩, rfl⟩ := hl
      exact (List.of_mem_zip hp).1

/-- **Every instruction of a program translated without fusion has a selector arm, every live bitmap is below
`2^numRegs` (for `numRegs < 16`), and every branch lands in `[0, n]`.** -/
theorem translate_jitForm' {blk : Ir.Block w} {numRegs : Nat} {p : Program w}
    (h : translateE blk numRegs false = .ok p) :
    (∀ (i : Nat) (ins : Instr w), p.insts[i]? = some ins → JitForm ins = true) ∧
    (∀ (j l : Nat), p.live[j]? = some l → l < liveBound numRegs) ∧
    C02.TargetsOk p.insts := by
  obtain ⟨s1, s2, s3, s4, h1, h2, h3, h4, rfl⟩ := translateE_phases h
  obtain ⟨hlate, _, _, _⟩ := passes_behEqIO h1 h2 h3 h4
  -- shapes up to the allocation
  have hS1 : AllS s1.insts := emit_allQ emitClosed_shape h1
  have hD := C02.Alloc.deadStoreElim_dseLike h2
  have hS2 : AllS s2.insts := by
    intro j x hx
    rcases hD.insts j with e | ⟨e, _⟩
    · rw [e] at hx; exact hS1 j x hx
    · rw [e] at hx; cases hx; rfl
  have hl2 : s2.live.size = 0 := by rw [hD.live]; exact emit_live0 h1
  obtain ⟨hS3, hL3⟩ := allocateTemps_shape h3 hS2 hl2
  -- the late passes without fusion
  have h4' : stripNoops (parameterReordering s3) = .ok s4 := by
    simpa [latePasses] using h4
  have hT : C02.TargetsOk (parameterReordering s3).insts := parameterReordering_targetsOk s3 hlate.targets
  have hlv : (parameterReordering s3).live.size = (parameterReordering s3).insts.size := by
    rw [parameterReordering_live, parameterReordering_size]; exact hlate.live
  have R := C02.Alloc.stripNoops_rel _ _ hlv hT h4' 0 0 0 0 0 0
  refine ⟨?_, ?_, ?_⟩
  · intro i ins hi
    obtain ⟨k, x, hx, _, _, rfl⟩ := C02.Alloc.stripRel_inst R (m := i) (y := ins) hi
    rw [fixInst_jitForm]
    have hx' : (s3.insts.map reorderInst)[k]? = some x := hx
    rw [Array.getElem?_map] at hx'
    cases hy : s3.insts[k]? with
    | none => rw [hy] at hx'; cases hx'
    | some y =>
      rw [hy] at hx'; simp only [Option.map_some, Option.some.injEq] at hx'
      subst hx'
      exact reorderInst_jitForm (hS3 k y hy)
  · intro j l hj
    have hm : l ∈ s4.live.toList := by
      have hj' : s4.live[j]? = some l := hj
      have : s4.live.toList[j]? = some l := by simpa using hj'
      exact List.mem_of_getElem? this
    have := stripNoops_live_mem h4' l hm
    rw [parameterReordering_live] at this
    obtain ⟨j', hj'⟩ := List.getElem?_of_mem this
    exact hL3 j' l (by simpa using hj')
  · apply C02.targetsOk_of_succs
    intro i ins hi
    obtain ⟨k, x, hx, hk, hpos, rfl⟩ := C02.Alloc.stripRel_inst R (m := i) (y := ins) hi
    obtain ⟨ss, _, hss⟩ := C02.Alloc.succs_fixInst hT hx hk
    have hsz : (package blk s4).insts.size = pos (parameterReordering s3).insts (parameterReordering s3).insts.size :=
      R.stripped.size
    rw [hsz, ← hpos]
    show (succs _ (pos (parameterReordering s3).insts k) (fixInst (parameterReordering s3).insts k x)).isSome = true
    rw [hss]; rfl


end C03
end Hpbf
