/-
Rebuild-round proofs, stage 5: **the fixed optimizer (`Hpbf/OptFix.lean`) preserves the observable behaviour at
every level, without any hypothesis on the run**.

With the fix the analysis handed to a later round is `fixClob prog a0`: every non-moving loop node records as
`clobbered` all store/input targets of its body.  That analysis is `AnalInL`-sound for the dead-store-eliminated
program for SYNTACTIC reasons (`TgtOkL`: `tgtOkL_fixSubs`, `tgtOkL_sub`, `analInL_of_tgtOk`), dead store elimination
itself does not see the change (`dse_fixClob`), and everything else is `Hpbf/Props/C01Rounds.lean`.
-/
import Hpbf.Proofs.OptRbFix1
import Hpbf.Proofs.OptRbFix2
import Hpbf.Proofs.OptRbRounds3

namespace Hpbf
namespace OptProof
open Opt OptSem Ir

variable {w : Nat}

/-- The state of the loop of `optimizeF` after a round. -/
def AfterRoundF (env : Env) (prog : Block w) (anal : OptAnalysis w) : Prop :=
  C02Emit.OnceOk prog env ∧
  ∃ (b : Block w) (prev a0 : OptAnalysis w) (os os' : Orders), CanonL b.insts ∧
    (optimizeOnce b prev).run os = .ok ((prog, a0), os') ∧ anal = OptFix.fixClob prog a0

/-- One iteration of the loop of `optimizeF`: dead store elimination, then a round with the fixed analysis. -/
theorem laterRoundF_ok (hw : 0 < w) {env : Env} {prog prog1 prog2 : Block w} {anal anal2 : OptAnalysis w}
    {os os2 : Orders} (hp : AfterRoundF env prog anal)
    (hd : deadStoreElimination prog anal = .ok prog1)
    (hr : (OptFix.optimizeOnceF prog1 anal).run os = .ok ((prog2, anal2), os2)) :
    BehEq prog prog2 env ∧ AfterRoundF env prog2 anal2 := by
  obtain ⟨ho, b0, prev, a0, os0, os0', hcl0, hr0, rfl⟩ := hp
  have hs0 : ShapeL prog.insts a0.subBlocks := optimizeOnce_shape hr0 hcl0
  have hd0 : deadStoreElimination prog a0 = .ok prog1 := by rw [← dse_fixClob]; exact hd
  have e1 : BehEq prog prog1 env := round_dse_behEq hr0 hcl0 ho hd0
  obtain ⟨htg, hs1, hcl1⟩ := tgtOkL_dse hs0 (optimizeOnce_canonL hr0 hcl0) hd
  have hamo : (OptFix.fixClob prog a0).loopAnal.atMostOnce = true := by
    rw [fixClob_loopAnal]; exact optimizeOnce_anal_amo hr0
  have ha : AnalInL (fun σ => σ = State.init env) prog1.insts (OptFix.fixClob prog a0).subBlocks :=
    analInL_of_tgtOk _ _ _ htg
  obtain ⟨a2, hr2, rfl⟩ := optimizeOnceF_ok.1 hr
  have e2 := optimizeOnce_preserves_g hw hcl1 hamo hs1 ha hr2
  have ho2 := optimizeOnce_onceOk_g hw hcl1 hamo hs1 ha hr2
  exact ⟨e1.trans e2, ho2, prog1, _, a2, os, os2, hcl1, hr2, rfl⟩

theorem optimizeRoundsF_ok (hw : 0 < w) {env : Env} (n : Nat) :
    ∀ (prog b' : Block w) (anal : OptAnalysis w) (os os' : Orders), AfterRoundF env prog anal →
      (OptFix.optimizeRoundsF n prog anal).run os = .ok (b', os') →
      BehEq prog b' env ∧ C02Emit.OnceOk b' env := by
  induction n with
  | zero =>
    intro prog b' anal os os' hp h
    obtain ⟨rfl, _⟩ := optimizeRoundsF_zero_ok.1 h
    exact ⟨BehEq.refl _ _, hp.1⟩
  | succ n ih =>
    intro prog b' anal os os' hp h
    obtain ⟨prog1, prog2, anal2, os2, hd, h3, h4⟩ := optimizeRoundsF_succ_ok.1 h
    obtain ⟨e1, hp2⟩ := laterRoundF_ok hw hp hd h3
    obtain ⟨e2, ho⟩ := ih prog2 b' anal2 os2 os' hp2 h4
    exact ⟨e1.trans e2, ho⟩

/-- **The fixed `Program::optimize` preserves the observable behaviour at every level** (every oracle, every
environment, no hypothesis on the run). -/
theorem optimizeF_preserves_all_levels (hw : 0 < w) {b b' : Block w} (hcl : CanonL b.insts) {level : Nat}
    {orders : Orders} (h : OptFix.optimizeF b level orders = .ok b') (env : Env) : BehEq b b' env := by
  rw [optimizeF_ok_iff] at h
  cases level with
  | zero =>
    rw [optimizeMF_zero, run_pure] at h
    cases h
    exact BehEq.refl _ _
  | succ n =>
    rw [optimizeMF_succ, run_bind_ok] at h
    obtain ⟨⟨prog, anal⟩, os1, h1, h2⟩ := h
    obtain ⟨a0, h1', rfl⟩ := optimizeOnceF_ok.1 h1
    have e1 := optimizeOnce_preserves_l1 hw hcl h1' env
    exact e1.trans (optimizeRoundsF_ok hw _ prog b' _ os1 []
      ⟨optimizeOnce_onceOk_l1 hw hcl h1' env, b, _, a0, orders, os1, hcl, h1', rfl⟩ h2).1

/-- **The `once` marks of the result of the fixed `Program::optimize` are justified** (levels ≥ 1). -/
theorem optimizeF_onceOk_all_levels (hw : 0 < w) {b b' : Block w} (hcl : CanonL b.insts) {level : Nat}
    (hl : level ≠ 0) {orders : Orders} (h : OptFix.optimizeF b level orders = .ok b') (env : Env) :
    C02Emit.OnceOk b' env := by
  rw [optimizeF_ok_iff] at h
  cases level with
  | zero => exact absurd rfl hl
  | succ n =>
    rw [optimizeMF_succ, run_bind_ok] at h
    obtain ⟨⟨prog, anal⟩, os1, h1, h2⟩ := h
    obtain ⟨a0, h1', rfl⟩ := optimizeOnceF_ok.1 h1
    exact (optimizeRoundsF_ok hw _ prog b' _ os1 []
      ⟨optimizeOnce_onceOk_l1 hw hcl h1' env, b, _, a0, orders, os1, hcl, h1', rfl⟩ h2).2

end OptProof
end Hpbf

#print axioms Hpbf.OptProof.laterRoundF_ok
#print axioms Hpbf.OptProof.optimizeF_preserves_all_levels
#print axioms Hpbf.OptProof.optimizeF_onceOk_all_levels
