/-
C02 (`allocate_temps`), part 23: `VInv` through loops, ifs and scans; `flowFwd_of_emit`, `ptr_of_emit`.
-/
import Hpbf.Proofs.C02AllocEmitW
import Hpbf.Proofs.C02EmitInv
set_option linter.unusedSimpArgs false

namespace Hpbf
namespace C02
namespace AEmit

open Bc BcWf BcGen C11 C02Emit

variable {w : Nat}

/-! ### the part of the state the existing emission proofs talk about -/

theorem core_lhHead (isLoop : Bool) (sub : Analysis) (s : St w) :
    core (lhHead isLoop sub s) = headG isLoop sub (core s) := by
  unfold lhHead headG headVals
  cases isLoop <;> cases hs : sub.hasShift <;> simp [core, hs]

theorem core_lhPro (isLoop once : Bool) (s : St w) :
    core (lhPro isLoop once s) = blockStart once (core s) := by
  unfold lhPro blockStart
  cases isLoop <;> cases once <;> simp [core, G.push]

theorem core_lhMov (shift : Int) (s : St w) :
    core (lhMov shift s) = if shift = 0 then core s else (core s).push (.mov shift) := by
  unfold lhMov
  split <;> simp [core, G.push]

theorem core_loopEnd {once : Bool} {cond shift : Int} {sub : Analysis} {ps : Nat} {s sb so : St w}
    (hso : core so = core (lhMov shift sb)) :
    core (loopEnd once cond sub ps s (lhPro true once (lhHead true sub s)) so) =
      blockEnd true once cond shift sub (headG true sub (core s)) (core sb) := by
  have h1 : so.insts = (core (lhMov shift sb)).insts := by rw [← hso]; rfl
  have h2 : so.values = (core (lhMov shift sb)).values := by rw [← hso]; rfl
  have h3 : so.exprs = (core (lhMov shift sb)).exprs := by rw [← hso]; rfl
  have h4 : so.ranges.size = (core (lhMov shift sb)).n := by rw [← hso]; rfl
  rw [core_lhMov] at h1 h2 h3 h4
  have hsz : (lhPro true once (lhHead true sub s)).insts.size =
      (blockStart once (headG true sub (core s))).insts.size := by
    rw [← core_lhHead, ← core_lhPro true once]; rfl
  unfold loopEnd blockEnd lhExit exitVals lhPatch lhBrnz
  rw [hsz]
  cases once <;> cases hs : sub.hasShift <;> by_cases h0 : shift = 0 <;>
    simp [core, hs, h0, G.push, h1, h2, h3, h4, headG, headVals] at * <;> simp [*]

theorem core_ifEnd {cond shift : Int} {sub : Analysis} {ps : Nat} {s sb : St w} :
    core (ifEnd cond shift sub ps s (lhPro false false s) sb) =
      blockEnd false false cond shift sub (core s) (core sb) := by
  have hsz : (lhPro false false s).insts.size = (blockStart false (core s)).insts.size := by
    rw [← core_lhPro false false]; rfl
  unfold ifEnd blockEnd lhExit exitVals lhPatch lhMov
  rw [hsz]
  cases hs : sub.hasShift <;> by_cases h0 : shift = 0 <;> simp [core, hs, h0, G.push]

theorem core_scanEnd {cond shift : Int} {sub : Analysis} {once : Bool} {s : St w} :
    core (lhExit once sub s.exprs.size
      { lhHead true sub s with insts := (lhHead true sub s).insts.push (.scan cond shift) }) =
      scanEnd cond shift sub once (core s) := by
  unfold scanEnd lhExit exitVals lhHead headG headVals
  cases once <;> cases hs : sub.hasShift <;> simp [core, hs, G.push]

/-! ### helper lemmas -/

/-- Appending an instruction that is neither `brz`, `brnz` nor a pointer move; the table may shrink. -/
theorem vk_append {fs : List VFrame} {ps : Nat} {s s' : St w} (h : VK fs ps s) {x : Instr w}
    (hl' : LInv s') (e1 : s'.insts = s.insts.push x) (e2 : s'.ranges = s.ranges)
    (e3 : s'.outerAccessed = s.outerAccessed) (e4 : s'.currentStart = s.currentStart)
    (hx0 : ∀ cnd off, x ≠ .brnz cnd off) (hx1 : ∀ cnd off, x ≠ .brz cnd off) (hx2 : ptrStable x = true)
    (hv : ∀ e t, alGet s'.values e = some t → alGet s.values e = some t) : VK fs ps s' := by
  have hva : ∀ i, VisAt fs s i → VisAt fs s' i := fun i hi => visAt_push hi e1 hx1 hx2
  refine ⟨finv_append h.finv hl' e1 e2 e3 e4 hx0, ?_, ?_⟩
  · refine vg_frame h.vg e3 e4 (by rw [e1]; simp) ?_ ?_ (fun t r g => by rw [e2]; exact g)
      (fun t r L g _ => by rw [← e2]; exact g)
    · intro b cnd off hb
      rw [e1] at hb
      rcases getElem?_push_cases hb with ⟨_, g⟩ | ⟨_, g⟩
      · exact g
      · exact absurd g.symm (hx1 cnd off)
    · intro p y hy hm
      rw [e1] at hy
      rcases getElem?_push_cases hy with ⟨_, g⟩ | ⟨_, g⟩
      · exact ⟨y, g, hm⟩
      · rw [g, hx2] at hm; cases hm
  · intro e t ht
    exact vis_congr (h.tv e t (hv e t ht)) (fun r g => ⟨r, by rw [e2]; exact g, rfl⟩) hva

/-- The table shrinks. -/
theorem vk_values {fs : List VFrame} {ps : Nat} {s : St w} (h : VK fs ps s) (vs : List (GvnExpr w × Nat))
    (hsub : ∀ p ∈ vs, p ∈ s.values) (hv : ∀ e t, alGet vs e = some t → alGet s.values e = some t) :
    VK fs ps { s with values := vs } := by
  refine ⟨finv_values h.finv vs hsub, ?_, fun e t ht => vis_congr (h.tv e t (hv e t ht)) (fun r g => ⟨r, g, rfl⟩)
    (fun i hi => hi)⟩
  exact vg_frame h.vg rfl rfl (Nat.le_refl _) (fun _ _ _ g => g) (fun p x g m => ⟨x, g, m⟩) (fun _ _ g => g)
    (fun _ _ _ g _ => g)

theorem valSub_mem {V V' : List (GvnExpr w × Nat)} (h : ∀ p ∈ V', p ∈ V) : ∀ p ∈ V', p ∈ V := h

/-- The table after the head of a loop. -/
theorem vk_lhHead {fs : List VFrame} {ps : Nat} {s : St w} (h : VK fs ps s) (hw : WfV (core s)) (isLoop : Bool)
    (sub : Analysis) : VK fs ps (lhHead isLoop sub s) := by
  have hc := core_lhHead isLoop sub s
  have hvals : (lhHead isLoop sub s).values = (headG isLoop sub (core s)).values := by rw [← hc]; rfl
  have hsub : ∀ e t, alGet (lhHead isLoop sub s).values e = some t → alGet s.values e = some t := by
    intro e t ht
    rw [hvals] at ht
    unfold headG at ht
    cases isLoop with
    | false => exact ht
    | true => simp only [if_true] at ht; exact headVals_sub hw.nodup sub e t ht
  have hmem : ∀ p ∈ (lhHead isLoop sub s).values, p ∈ s.values := by
    unfold lhHead
    split
    · split
      · intro p hp; cases hp
      · intro p hp; exact mem_removeMems hp
    · exact fun p hp => hp
  have : lhHead isLoop sub s = { s with values := (lhHead isLoop sub s).values } := by
    unfold lhHead; split <;> (try split) <;> rfl
  rw [this]
  exact vk_values h _ hmem hsub

theorem child_noShift_loop {a : Analysis} {cond shift : Int} {body : List (Ir.Instr w)} {once : Bool}
    {rest : List (Ir.Instr w)} (h : (analyzeInsts (.loop cond shift body once :: rest) a).hasShift = false) :
    (subOf shift body).hasShift = false := by
  rw [analyzeInsts] at h
  obtain ⟨h1, _⟩ := analyzeInsts_noShift rest h
  simp only [analyzeInstr] at h1
  exact (absorb_noShift h1).2.1

theorem child_noShift_if {a : Analysis} {cond shift : Int} {body : List (Ir.Instr w)}
    {rest : List (Ir.Instr w)} (h : (analyzeInsts (.ifnz cond shift body :: rest) a).hasShift = false) :
    (subOf shift body).hasShift = false := by
  rw [analyzeInsts] at h
  obtain ⟨h1, _⟩ := analyzeInsts_noShift rest h
  simp only [analyzeInstr] at h1
  exact (absorb_noShift h1).2.1

theorem array_empty_of_noInOA {oa : Array Nat} (h : ∀ v, ¬ InOA oa 0 v) : oa = #[] := by
  apply Array.eq_empty_of_size_eq_zero
  cases hsz : oa.size with
  | zero => rfl
  | succ n =>
    exfalso
    have hlt : 0 < oa.size := by omega
    exact h oa[0] ⟨0, Nat.le_refl _, Array.getElem?_eq_getElem hlt⟩

/-- Appending a pointer move when `outerAccessed` is empty (the table is cleared afterwards). -/
theorem vg_move {fs : List VFrame} {s s' : St w} {x : Instr w} (h : VG fs s)
    (hlt : ∀ (t : Nat) (r : RangeInfo) (L : Nat), s.ranges[t]? = some r → r.lastUse = some L → L < s.insts.size)
    (hoa : s.outerAccessed = #[]) (e1 : s'.insts = s.insts.push x) (e2 : s'.ranges = s.ranges)
    (e3 : s'.outerAccessed = s.outerAccessed) (hx1 : ∀ cnd off, x ≠ .brz cnd off) : VG fs s' := by
  refine ⟨by rw [e3]; exact h.numLe, by rw [e1]; simp; exact Nat.le_succ_of_le h.cple, ?_,
    fun _ => by rw [e3]; exact hoa, ?_, ?_, ?_⟩
  · intro v hv; rw [e3, hoa] at hv; simp at hv
  · intro b cnd off hb
    rw [e1] at hb
    rcases getElem?_push_cases hb with ⟨_, g⟩ | ⟨_, g⟩
    · obtain ⟨g1, g2, g3⟩ := h.fw b cnd off g
      refine ⟨g1, by rw [e1]; simp; omega, ?_⟩
      intro t r L hr hL
      rw [e2] at hr
      exact g3 t r L hr hL
    · exact absurd g.symm (hx1 cnd off)
  · intro p y hy hm t r L hr hL hc
    rw [e2] at hr
    rw [e1] at hy
    rcases getElem?_push_cases hy with ⟨_, g⟩ | ⟨g, _⟩
    · exact h.pt p y g hm t r L hr hL hc
    · have := hlt t r L hr hL; omega
  · have hoab : ∀ (l : List VFrame), OAB s l → OAB s' l := by
      intro l
      induction l with
      | nil => intro _; trivial
      | cons f0 tl ih =>
        intro ho
        cases tl with
        | nil => trivial
        | cons f1 rest =>
          obtain ⟨o1, o2⟩ := ho
          refine ⟨?_, ih o2⟩
          intro idx u hidx hu
          rw [e3] at hu
          obtain ⟨q, p1, p2⟩ := o1 idx u hidx hu
          exact ⟨q, by rw [e2]; exact p1, p2⟩
    exact hoab fs h.oab

/-! ### what every step keeps -/

/-- `created` of existing entries is kept, no `brz` and no pointer move appears. -/
structure Keep (s s' : St w) : Prop where
  cr : ∀ (t : Nat) (q : RangeInfo), s.ranges[t]? = some q →
    ∃ q' : RangeInfo, s'.ranges[t]? = some q' ∧ q'.created = q.created
  brz : ∀ (b : Nat) (cnd off : Int), s'.insts[b]? = some (.brz cnd off) → s.insts[b]? = some (.brz cnd off)
  mv : ∀ (p : Nat) (x : Instr w), s'.insts[p]? = some x → ptrStable x = false →
    ∃ y, s.insts[p]? = some y ∧ ptrStable y = false

theorem keep_refl (s : St w) : Keep s s :=
  ⟨fun _ q h => ⟨q, h, rfl⟩, fun _ _ _ h => h, fun _ x h m => ⟨x, h, m⟩⟩

theorem keep_trans {s1 s2 s3 : St w} (h1 : Keep s1 s2) (h2 : Keep s2 s3) : Keep s1 s3 := by
  refine ⟨?_, fun b cnd off h => h1.brz b cnd off (h2.brz b cnd off h), ?_⟩
  · intro t q hq
    obtain ⟨q', g1, g2⟩ := h1.cr t q hq
    obtain ⟨q'', g3, g4⟩ := h2.cr t q' g1
    exact ⟨q'', g3, g4.trans g2⟩
  · intro p x hx hm
    obtain ⟨y, g1, g2⟩ := h2.mv p x hx hm
    exact h1.mv p y g1 g2

theorem keep_ext {v inc : Nat} {s s' : St w} (E : ExtSpec v inc s s') : Keep s s' := by
  obtain ⟨⟨r, hr, hr'⟩, hother⟩ := ext_ranges E
  refine ⟨?_, by rw [E.insts]; exact fun _ _ _ g => g, by rw [E.insts]; exact fun p x g m => ⟨x, g, m⟩⟩
  intro t q hq
  by_cases e : t = v
  · subst e; rw [hr] at hq; cases hq; exact ⟨_, hr', rfl⟩
  · exact ⟨q, by rw [hother t e]; exact hq, rfl⟩

theorem keep_reads : ∀ (l : List Nat) {s s' : St w}, ReadsSpec l s s' → Keep s s'
  | [], s, s', h => by rw [h]; exact keep_refl _
  | _ :: rest, _, _, ⟨_, h1, h2⟩ => keep_trans (keep_ext h1) (keep_reads rest h2)

/-- Appending an instruction that is neither a `brz` nor a pointer move. -/
theorem keep_push {s s' : St w} {x : Instr w} (e1 : s'.insts = s.insts.push x) (e2 : s'.ranges = s.ranges)
    (hx1 : ∀ cnd off, x ≠ .brz cnd off) (hx2 : ptrStable x = true) : Keep s s' := by
  refine ⟨fun t q h => ⟨q, by rw [e2]; exact h, rfl⟩, ?_, ?_⟩
  · intro b cnd off hb
    rw [e1] at hb
    rcases getElem?_push_cases hb with ⟨_, g⟩ | ⟨_, g⟩
    · exact g
    · exact absurd g.symm (hx1 cnd off)
  · intro p y hy hm
    rw [e1] at hy
    rcases getElem?_push_cases hy with ⟨_, g⟩ | ⟨_, g⟩
    · exact ⟨y, g, hm⟩
    · rw [g, hx2] at hm; cases hm

theorem keep_same {s s' : St w} (e1 : s'.insts = s.insts) (e2 : s'.ranges = s.ranges) : Keep s s' :=
  ⟨fun t q h => ⟨q, by rw [e2]; exact h, rfl⟩, by rw [e1]; exact fun _ _ _ g => g,
    by rw [e1]; exact fun p x g m => ⟨x, g, m⟩⟩

theorem keep_getValue {e : GvnExpr w} {s s' : St w} {v : Nat} (hg : getValue e s = .ok (v, s')) : Keep s s' := by
  rcases getValue_spec hg with ⟨_, rfl⟩ | ⟨_, N⟩
  · exact keep_refl _
  · obtain ⟨s2, h2, rfl⟩ := N.reads
    have k0 : Keep s (gvS0 s e) := by
      refine ⟨?_, fun _ _ _ g => g, fun p x g m => ⟨x, g, m⟩⟩
      intro t q hq
      exact ⟨q, by show (s.ranges.push _)[t]? = some q
                   rw [getElem?_push_lt' _ _ (Alloc.lt_of_getElem? hq)]; exact hq, rfl⟩
    have k1 : Keep (gvS0 s e) s2 := keep_reads _ h2
    have k2 : Keep s2 (gvS1 s2 e s.ranges.size) :=
      keep_push rfl rfl (instOf_ne_brz _ _) (ptrStable_instOf _ _)
    exact keep_trans k0 (keep_trans k1 k2)

theorem keep_memWrite {var : Int} {x : Nat} {s s' : St w} {u : Unit} (hm : memWrite var x s = .ok (u, s')) :
    Keep s s' := by
  obtain ⟨s1, h1, rfl⟩ := memWrite_spec hm
  exact keep_trans (keep_ext h1) (keep_push (s' := mwS1 s1 var x) rfl rfl (by intro cnd off; simp) rfl)

theorem keep_calc {calcs : List (Int × Expr w)} {s s1 s' : St w} {vals : List (Int × Nat)} {u : Unit}
    (hc : calcValues calcs s = .ok (vals, s1)) (hm : memWrites vals s1 = .ok (u, s')) : Keep s s' := by
  have k1 : Keep s s1 :=
    calcValues_pres0 (K := fun a => Keep s a)
      (fun e a v a' hk hh => keep_trans hk (keep_getValue hh)) calcs hc (keep_refl _)
  exact memWrites_pres0 (K := fun a => Keep s a)
    (fun var x a a' u hk hh => keep_trans hk (keep_memWrite hh)) vals hm k1

theorem keep_outer {ps i : Nat} {s s' : St w} (R : OLRes ps i s s') : Keep s s' := by
  refine ⟨?_, by rw [R.insts]; exact fun _ _ _ g => g, by rw [R.insts]; exact fun p x g m => ⟨x, g, m⟩⟩
  intro t q hq
  obtain ⟨q', g1, g2, _⟩ := R.fwd t q hq
  exact ⟨q', g1, g2⟩

theorem keep_visAt {fs : List VFrame} {s s' : St w} (k : Keep s s') {i : Nat} (h : VisAt fs s i) : VisAt fs s' i :=
  visAt_congr h k.brz k.mv

theorem keep_vis {fs : List VFrame} {s s' : St w} (k : Keep s s') {t : Nat} (h : Vis fs s t) : Vis fs s' t :=
  vis_congr h (k.cr t) (fun _ hi => keep_visAt k hi)

/-- A value of the table of an enclosing block: created before `B`, visible. -/
def SV (fs : List VFrame) (s : St w) (t B : Nat) : Prop :=
  ∃ r : RangeInfo, s.ranges[t]? = some r ∧ r.created < B ∧ VisAt fs s r.created

theorem sv_keep {fs : List VFrame} {s s' : St w} {t B : Nat} (h : SV fs s t B) (k : Keep s s') : SV fs s' t B := by
  obtain ⟨r, g1, g2, g3⟩ := h
  obtain ⟨r', q1, q2⟩ := k.cr t r g1
  exact ⟨r', q1, by rw [q2]; exact g2, by rw [q2]; exact keep_visAt k g3⟩

/-- No pointer move from position `B` on. -/
def NoMove (B : Nat) (s : St w) : Prop :=
  ∀ (p : Nat) (x : Instr w), B ≤ p → s.insts[p]? = some x → ptrStable x = true

theorem noMove_keep {B : Nat} {s s' : St w} (h : NoMove B s) (k : Keep s s') : NoMove B s' := by
  intro p x hp hx
  cases hm : ptrStable x with
  | true => rfl
  | false =>
    obtain ⟨y, g1, g2⟩ := k.mv p x hx hm
    rw [h p y hp g1] at g2; cases g2

/-! ### the invariant -/

structure VCtx where
  /-- enclosing loops, innermost first; the last element stands for the top level -/
  frames : List VFrame
  /-- `has_shift` of the analysis of the current block -/
  flag : Bool
  /-- position at which the current block started -/
  bstart : Nat
  /-- values (with a bound on their creation) in the tables at the heads of the enclosing blocks without
  pointer moves -/
  saved : Nat → Nat → Prop

structure VInv (c : VCtx) (ps : Nat) (a : Analysis) (l : List (Ir.Instr w)) (s : St w) : Prop where
  vk : VK c.frames ps s
  wfv : WfV (core s)
  ns : c.flag = false → (analyzeInsts l a).hasShift = false
  mf : c.flag = true → ∀ f ∈ c.frames, f.2.2 = true
  bs : c.bstart ≤ s.insts.size
  nm : c.flag = false → NoMove c.bstart s
  se : c.flag = true → ∀ t B, ¬ c.saved t B
  sb : ∀ t B, c.saved t B → B ≤ c.bstart
  sv : ∀ t B, c.saved t B → SV c.frames s t B

theorem ns_tail {c : VCtx} {a : Analysis} {i : Ir.Instr w} {rest : List (Ir.Instr w)}
    (h : c.flag = false → (analyzeInsts (i :: rest) a).hasShift = false) :
    c.flag = false → (analyzeInsts rest (analyzeInstr i a)).hasShift = false := by
  intro hf
  have := h hf
  rw [analyzeInsts] at this
  exact this

/-- A step that keeps everything but appends stable instructions. -/
theorem vinv_step {c : VCtx} {ps : Nat} {a : Analysis} {i : Ir.Instr w} {rest : List (Ir.Instr w)} {s s' : St w}
    (h : VInv c ps a (i :: rest) s) (hvk : VK c.frames ps s') (hw : WfV (core s')) (k : Keep s s')
    (hsz : s.insts.size ≤ s'.insts.size) : VInv c ps (analyzeInstr i a) rest s' :=
  ⟨hvk, hw, ns_tail h.ns, h.mf, Nat.le_trans h.bs hsz, fun hf => noMove_keep (h.nm hf) k, h.se, h.sb,
    fun t B ht => sv_keep (h.sv t B ht) k⟩

theorem vinv_out {c : VCtx} {ps : Nat} {a : Analysis} {src : Int} {rest : List (Ir.Instr w)} {s : St w}
    (h : VInv c ps a (.output src :: rest) s) :
    VInv c ps (analyzeInstr (.output src : Ir.Instr w) a) rest { s with insts := s.insts.push (.out src) } := by
  refine vinv_step h ?_ (h.wfv.push _) (keep_push rfl rfl (by intro cnd off; simp) rfl) (by simp)
  exact vk_append (x := .out src) h.vk (linv_push h.vk.finv.linv rfl) rfl rfl rfl rfl (by intro cnd off; simp)
    (by intro cnd off; simp) rfl (fun _ _ g => g)

theorem vinv_inp {c : VCtx} {ps : Nat} {a : Analysis} {dst : Int} {rest : List (Ir.Instr w)} {s : St w}
    (h : VInv c ps a (.input dst :: rest) s) :
    VInv c ps (analyzeInstr (.input dst : Ir.Instr w) a) rest
      { s with values := alErase s.values (.mem dst), writes := addWrite s.writes dst s.insts.size,
               insts := s.insts.push (.inp dst) } := by
  refine vinv_step h ?_ (h.wfv.input dst) (keep_push rfl rfl (by intro cnd off; simp) rfl) (by simp)
  refine vk_append (x := .inp dst) h.vk
    (closed_linv.values _ _ (linv_inp h.vk.finv.linv dst) (fun p hp => mem_alErase hp)) rfl rfl rfl rfl
    (by intro cnd off; simp) (by intro cnd off; simp) rfl ?_
  intro e t ht
  change alGet (alErase s.values (.mem dst)) e = some t at ht
  have hn : (keys s.values).Nodup := h.wfv.nodup
  rw [alGet_alErase _ _ _ hn] at ht
  split at ht
  · cases ht
  · exact ht

theorem vinv_calc {c : VCtx} {ps : Nat} {a : Analysis} {calcs : List (Int × Expr w)} {rest : List (Ir.Instr w)}
    {s s1 s' : St w} {vals : List (Int × Nat)} {u : Unit}
    (h : VInv c ps a (.calc calcs :: rest) s) (hc : calcValues calcs s = .ok (vals, s1))
    (hm : memWrites vals s1 = .ok (u, s')) :
    VInv c ps (analyzeInstr (.calc calcs : Ir.Instr w) a) rest s' :=
  vinv_step h (vk_calc h.vk hc hm) ((calc_seg hc hm h.wfv).wf h.wfv) (keep_calc hc hm) (calc_pre hc hm).1

/-! ### scans -/

theorem vg_congr {fs : List VFrame} {s s' : St w} (h : VG fs s) (e1 : s'.insts = s.insts) (e2 : s'.ranges = s.ranges)
    (e3 : s'.outerAccessed = s.outerAccessed) (e4 : s'.currentStart = s.currentStart) : VG fs s' :=
  vg_frame h e3 e4 (by rw [e1]; exact Nat.le_refl _) (by rw [e1]; exact fun _ _ _ g => g)
    (by rw [e1]; exact fun p x g m => ⟨x, g, m⟩) (by rw [e2]; exact fun _ _ g => g)
    (by rw [e2]; exact fun _ _ _ g _ => g)

theorem lhExit_values (once : Bool) (sub : Analysis) (pe : Nat) (s : St w) :
    (lhExit once sub pe s).values = exitVals sub once pe s.exprs s.values := by
  unfold lhExit exitVals
  split <;> (try split) <;> rfl

theorem lhExit_eq (once : Bool) (sub : Analysis) (pe : Nat) (s : St w) :
    lhExit once sub pe s = { s with values := (lhExit once sub pe s).values } := by
  unfold lhExit
  split <;> (try split) <;> rfl

theorem mem_lhExit {once : Bool} {sub : Analysis} {pe : Nat} {s : St w} :
    ∀ p ∈ (lhExit once sub pe s).values, p ∈ s.values := by
  unfold lhExit
  split
  · intro p hp; cases hp
  · split
    · exact fun p hp => hp
    · exact fun p hp => mem_removeMems (mem_foldl_alErase hp)

theorem vk_lhExit {fs : List VFrame} {ps : Nat} {s : St w} (h : VK fs ps s) (hw : WfV (core s)) (once : Bool)
    (sub : Analysis) (pe : Nat) : VK fs ps (lhExit once sub pe s) := by
  rw [lhExit_eq]
  refine vk_values h _ mem_lhExit ?_
  rw [lhExit_values]
  exact exitVals_sub hw.nodup sub once pe s.exprs

theorem lhHead_eq (isLoop : Bool) (sub : Analysis) (s : St w) :
    lhHead isLoop sub s = { s with values := (lhHead isLoop sub s).values } := by
  unfold lhHead; split <;> (try split) <;> rfl

theorem flag_of_shift {c : VCtx} {a : Analysis} {cond shift : Int} {body : List (Ir.Instr w)} {once : Bool}
    {rest : List (Ir.Instr w)}
    (hns : c.flag = false → (analyzeInsts (.loop cond shift body once :: rest) a).hasShift = false)
    (hs : (subOf shift body).hasShift = true) : c.flag = true := by
  cases hf : c.flag with
  | true => rfl
  | false => rw [child_noShift_loop (hns hf)] at hs; cases hs

theorem flag_of_shift_if {c : VCtx} {a : Analysis} {cond shift : Int} {body : List (Ir.Instr w)}
    {rest : List (Ir.Instr w)}
    (hns : c.flag = false → (analyzeInsts (.ifnz cond shift body :: rest) a).hasShift = false)
    (hs : (subOf shift body).hasShift = true) : c.flag = true := by
  cases hf : c.flag with
  | true => rfl
  | false => rw [child_noShift_if (hns hf)] at hs; cases hs

theorem vinv_scan {fuse : Bool} {c : VCtx} {ps : Nat} {a : Analysis} {cond shift : Int} {once : Bool}
    {rest : List (Ir.Instr w)} {s : St w} (hfu : fuse = true)
    (h : VInv c ps a (.loop cond shift [] once :: rest) s) :
    VInv c ps (analyzeInstr (.loop cond shift [] once : Ir.Instr w) a) rest
      (lhExit once (subOf shift ([] : List (Ir.Instr w))) s.exprs.size
        { lhHead true (subOf shift ([] : List (Ir.Instr w))) s with
          insts := (lhHead true (subOf shift ([] : List (Ir.Instr w))) s).insts.push (.scan cond shift) }) := by
  have hF := (closedI_finv fuse).scan (toFrames c.frames) ps a cond shift once rest s hfu h.vk.finv
  unfold FJ at hF
  have hW : WfV (core (lhExit once (subOf shift ([] : List (Ir.Instr w))) s.exprs.size
        { lhHead true (subOf shift ([] : List (Ir.Instr w))) s with
          insts := (lhHead true (subOf shift ([] : List (Ir.Instr w))) s).insts.push (.scan cond shift) })) := by
    rw [core_scanEnd]; exact h.wfv.scanEnd _ _ _ _
  generalize hsub : subOf shift ([] : List (Ir.Instr w)) = sub at hF hW ⊢
  have h0 : VK c.frames ps (lhHead true sub s) := vk_lhHead h.vk h.wfv true sub
  have hins0 : (lhHead true sub s).insts = s.insts := by rw [lhHead_eq]
  have hrng0 : (lhHead true sub s).ranges = s.ranges := by rw [lhHead_eq]
  have hoa0 : (lhHead true sub s).outerAccessed = s.outerAccessed := by rw [lhHead_eq]
  cases hs : sub.hasShift with
  | true =>
    have hfl : c.flag = true := flag_of_shift h.ns (by rw [hsub]; exact hs)
    have hoa : s.outerAccessed = #[] := h.vk.vg.em (h.mf hfl)
    have hvals : (lhExit once sub s.exprs.size
        { lhHead true sub s with insts := (lhHead true sub s).insts.push (.scan cond shift) }).values = [] := by
      rw [lhExit_values, exitVals_shift hs]
    have hg1 : VG c.frames { lhHead true sub s with insts := (lhHead true sub s).insts.push (.scan cond shift) } :=
      vg_move (x := .scan cond shift) h0.vg h0.finv.lastLt (by rw [hoa0]; exact hoa) rfl rfl rfl
        (by intro cnd off; simp)
    refine ⟨⟨hF, ?_, ?_⟩, hW, ns_tail h.ns, h.mf, ?_, ?_, h.se, h.sb, ?_⟩
    · rw [lhExit_eq]; exact vg_congr hg1 rfl rfl rfl rfl
    · intro e t ht; rw [hvals] at ht; cases ht
    · rw [lhExit_eq]; show c.bstart ≤ ((lhHead true sub s).insts.push _).size
      rw [hins0]; simp; exact Nat.le_succ_of_le h.bs
    · intro hf; rw [hfl] at hf; cases hf
    · intro t B ht; exact absurd ht (h.se hfl t B)
  | false =>
    have hsh : shift = 0 := (subOf_noShift (by rw [hsub]; exact hs)).1
    subst hsh
    have h1 : VK c.frames ps { lhHead true sub s with insts := (lhHead true sub s).insts.push (.scan cond 0) } :=
      vk_append (x := .scan cond 0) h0 (linv_push h0.finv.linv rfl) rfl rfl rfl rfl (by intro cnd off; simp)
        (by intro cnd off; simp) rfl (fun _ _ g => g)
    have hw1 : WfV (core { lhHead true sub s with insts := (lhHead true sub s).insts.push (.scan cond 0) }) := by
      have : core { lhHead true sub s with insts := (lhHead true sub s).insts.push (.scan cond 0) } =
          (core (lhHead true sub s)).push (.scan cond 0) := rfl
      rw [this, core_lhHead]
      exact (h.wfv.headG true sub).push _
    have k : Keep s (lhExit once sub s.exprs.size
        { lhHead true sub s with insts := (lhHead true sub s).insts.push (.scan cond 0) }) := by
      refine keep_trans (keep_same hins0 hrng0) (keep_trans (keep_push (x := .scan cond 0)
        (s' := { lhHead true sub s with insts := (lhHead true sub s).insts.push (.scan cond 0) }) rfl rfl
        (by intro cnd off; simp) rfl) ?_)
      rw [lhExit_eq]; exact keep_same rfl rfl
    refine vinv_step h (vk_lhExit h1 hw1 once sub _) hW k ?_
    rw [lhExit_eq]; show s.insts.size ≤ ((lhHead true sub s).insts.push _).size
    rw [hins0]; simp

/-! ### entering a loop -/

theorem visAt_cons_false {fs : List VFrame} {S N : Nat} {s : St w} {i : Nat} :
    VisAt ((S, N, false) :: fs) s i ↔ VisAt fs s i := Iff.rfl

theorem oab_congr {s s' : St w} (e1 : s'.outerAccessed = s.outerAccessed) (e2 : s'.ranges = s.ranges) :
    ∀ (l : List VFrame), OAB s l → OAB s' l := by
  intro l
  induction l with
  | nil => intro _; trivial
  | cons f0 tl ih =>
    intro ho
    cases tl with
    | nil => trivial
    | cons f1 rest =>
      obtain ⟨o1, o2⟩ := ho
      refine ⟨?_, ih o2⟩
      intro idx u hidx hu
      rw [e1] at hu
      obtain ⟨q, p1, p2⟩ := o1 idx u hidx hu
      exact ⟨q, by rw [e2]; exact p1, p2⟩

theorem vg_enter {fs : List VFrame} {sP : St w} {fl : Bool} (hg : VG fs sP) (hl : LInv sP)
    (hfl : fl = true → sP.outerAccessed = #[])
    (hd : ∃ N1 fl1 rest, fs = (sP.currentStart, N1, fl1) :: rest) :
    VG ((sP.insts.size, sP.outerAccessed.size, fl) :: fs) { sP with currentStart := sP.insts.size } := by
  have hvis : ∀ v ∈ sP.outerAccessed.toList, Vis fs sP v →
      Vis ((sP.insts.size, sP.outerAccessed.size, fl) :: fs) { sP with currentStart := sP.insts.size } v := by
    intro v hv ⟨r, g1, g2⟩
    cases fl with
    | true => rw [hfl rfl] at hv; simp at hv
    | false => exact ⟨r, g1, g2⟩
  refine ⟨?_, ?_, ?_, ?_, hg.fw, hg.pt, ?_⟩
  · intro f hf
    rcases List.mem_cons.1 hf with rfl | hf
    · exact Nat.le_refl _
    · exact hg.numLe f hf
  · cases fl with
    | true => exact Nat.le_refl _
    | false => exact hg.cple
  · intro v hv
    obtain ⟨g1, r, g2, _⟩ := hg.ov v hv
    exact ⟨hvis v hv g1, r, g2, (hl.rwf v r g2).1⟩
  · intro hall
    exact hg.em (fun f hf => hall f (List.mem_cons_of_mem _ hf))
  · obtain ⟨N1, fl1, rest, hfs⟩ := hd
    subst hfs
    refine ⟨?_, oab_congr (s := sP) (s' := { sP with currentStart := sP.insts.size }) rfl rfl _ hg.oab⟩
    intro idx v _ hv
    obtain ⟨_, r, g2, g3⟩ := hg.ov v (Array.mem_toList_iff.2 (Array.mem_of_getElem? hv))
    exact ⟨r, g2, g3⟩

/-- The values remembered while a block without pointer moves is emitted. -/
def childSaved (c : VCtx) (fl : Bool) (s : St w) : Nat → Nat → Prop :=
  fun t B => fl = false ∧ (c.saved t B ∨ (B = s.insts.size ∧ ∃ e, alGet s.values e = some t))

def loopCtx (c : VCtx) (fl : Bool) (s s1 : St w) : VCtx :=
  ⟨(s1.insts.size, s.outerAccessed.size, fl) :: c.frames, fl, s1.insts.size, childSaved c fl s⟩

def ifCtx (c : VCtx) (fl : Bool) (s s1 : St w) : VCtx :=
  ⟨c.frames, fl, s1.insts.size, childSaved c fl s⟩

theorem lhPro_true_eq (once : Bool) (s : St w) : ∃ sP : St w,
    lhPro true once s = { sP with currentStart := sP.insts.size } ∧
    sP.ranges = s.ranges ∧ sP.outerAccessed = s.outerAccessed ∧ sP.currentStart = s.currentStart ∧
    sP.values = s.values ∧ sP.exprs = s.exprs ∧
    sP.insts = (if once then s.insts else s.insts.push .noop) ∧
    (once = true → sP = s) ∧ (once = false → sP = { s with insts := s.insts.push .noop }) := by
  cases once with
  | true => exact ⟨s, rfl, rfl, rfl, rfl, rfl, rfl, rfl, (fun _ => rfl), (fun h => by cases h)⟩
  | false =>
    exact ⟨{ s with insts := s.insts.push .noop }, rfl, rfl, rfl, rfl, rfl, rfl, rfl, (fun h => by cases h), (fun _ => rfl)⟩

theorem vinv_loop_enter {c : VCtx} {ps : Nat} {a : Analysis} {cond shift : Int} {body : List (Ir.Instr w)}
    {once : Bool} {rest : List (Ir.Instr w)} {s : St w}
    (h : VInv c ps a (.loop cond shift body once :: rest) s) :
    VInv (loopCtx c (subOf shift body).hasShift s (lhPro true once (lhHead true (subOf shift body) s)))
      (lhPro true once (lhHead true (subOf shift body) s)).currentStart Analysis.empty body
      (lhPro true once (lhHead true (subOf shift body) s)) := by
  obtain ⟨e1, e2, _⟩ := finv_loop_enter h.vk.finv once (subOf shift body)
  have hW : WfV (core (lhPro true once (lhHead true (subOf shift body) s))) := by
    rw [core_lhPro, core_lhHead]; exact (h.wfv.headG true _).blockStart _
  generalize hsub : subOf shift body = sub at e1 e2 hW ⊢
  have h0 : VK c.frames ps (lhHead true sub s) := vk_lhHead h.vk h.wfv true sub
  have hins0 : (lhHead true sub s).insts = s.insts := by rw [lhHead_eq]
  have hrng0 : (lhHead true sub s).ranges = s.ranges := by rw [lhHead_eq]
  have hoa0 : (lhHead true sub s).outerAccessed = s.outerAccessed := by rw [lhHead_eq]
  have hcs0 : (lhHead true sub s).currentStart = s.currentStart := by rw [lhHead_eq]
  obtain ⟨sP, hpro, p1, p2, p3, p4, p5, p6, p7, p8⟩ := lhPro_true_eq once (lhHead true sub s)
  have hP : VK c.frames ps sP := by
    cases once with
    | true => rw [p7 rfl]; exact h0
    | false =>
      rw [p8 rfl]
      exact vk_append (x := .noop) h0 (linv_push h0.finv.linv rfl) rfl rfl rfl rfl (by intro cnd off; simp)
        (by intro cnd off; simp) rfl (fun _ _ g => g)
  have kP : Keep s sP := by
    refine keep_trans (keep_same hins0 hrng0) ?_
    cases once with
    | true => rw [p7 rfl]; exact keep_refl _
    | false => rw [p8 rfl]; exact keep_push (x := .noop) rfl rfl (by intro cnd off; simp) rfl
  have hszP : s.insts.size ≤ sP.insts.size := by
    rw [p6, hins0]; split <;> simp
  have k1 : Keep s (lhPro true once (lhHead true sub s)) := by
    rw [hpro]; exact keep_trans kP (keep_same rfl rfl)
  have hsz1 : (lhPro true once (lhHead true sub s)).insts.size = sP.insts.size := by rw [hpro]
  have hoaP : sP.outerAccessed.size = s.outerAccessed.size := by rw [p2, hoa0]
  have hflag : sub.hasShift = true → c.flag = true := fun hs => flag_of_shift h.ns (by rw [hsub]; exact hs)
  have hvg : VG ((sP.insts.size, sP.outerAccessed.size, sub.hasShift) :: c.frames)
      { sP with currentStart := sP.insts.size } := by
    refine vg_enter hP.vg hP.finv.linv ?_ (vk_hd hP)
    intro hs
    exact hP.vg.em (h.mf (hflag hs))
  unfold loopCtx
  rw [e2]
  refine ⟨⟨?_, ?_, ?_⟩, hW, ?_, ?_, Nat.le_refl _, ?_, ?_, ?_, ?_⟩
  · exact e1
  · show VG ((_, s.outerAccessed.size, sub.hasShift) :: c.frames) _
    rw [hsz1, ← hoaP, hpro]; exact hvg
  · intro e t ht
    cases hs : sub.hasShift with
    | true =>
      have : (lhPro true once (lhHead true sub s)).values = [] := by
        rw [hpro]; show sP.values = []
        rw [p4]; unfold lhHead; simp [hs]
      rw [this] at ht; cases ht
    | false =>
      have ht' : alGet sP.values e = some t := by rw [hpro] at ht; exact ht
      obtain ⟨r, g1, g2⟩ := hP.tv e t ht'
      rw [hpro]
      exact ⟨r, g1, g2⟩
  · intro hs
    exact (subOf_noShift (by rw [hsub]; exact hs)).2.1
  · intro hs f hf
    rcases List.mem_cons.1 hf with rfl | hf
    · exact hs
    · exact h.mf (hflag hs) f hf
  · intro _ p x hp hx
    have hp' : (lhPro true once (lhHead true sub s)).insts.size ≤ p := hp
    have := Alloc.lt_of_getElem? hx
    omega
  · intro hs t B ht
    have hs' : sub.hasShift = true := hs
    rw [ht.1] at hs'; cases hs'
  · intro t B ht
    show B ≤ (lhPro true once (lhHead true sub s)).insts.size
    rw [hsz1]
    rcases ht.2 with g | ⟨g, _⟩
    · exact Nat.le_trans (h.sb t B g) (Nat.le_trans h.bs hszP)
    · rw [g]; exact hszP
  · intro t B ht
    obtain ⟨hs, ht2⟩ := ht
    have hsv : SV c.frames s t B := by
      rcases ht2 with g | ⟨g, e, he⟩
      · exact h.sv t B g
      · obtain ⟨r, g1, g2⟩ := h.vk.tv e t he
        exact ⟨r, g1, by rw [g]; exact (h.vk.finv.linv.rwf t r g1).1, g2⟩
    obtain ⟨r, g1, g2, g3⟩ := sv_keep hsv k1
    rw [hs]
    exact ⟨r, g1, g2, g3⟩

/-! ### leaving a loop -/

theorem olres_rng {ps N : Nat} {sm so : St w} (R : OLRes ps N sm so) :
    ∀ (t : Nat) (r' : RangeInfo), so.ranges[t]? = some r' → ∃ r : RangeInfo, sm.ranges[t]? = some r ∧
      r'.created = r.created ∧
      ((InOA sm.outerAccessed N t ∧ ps ≤ r.created ∧ r'.lastUse = some sm.insts.size) ∨ r'.lastUse = r.lastUse) := by
  intro t r' hr'
  obtain ⟨r, hr⟩ := R.bwd t r' hr'
  obtain ⟨r'', g1, g2, _, g4⟩ := R.fwd t r hr
  rw [hr'] at g1; cases g1
  exact ⟨r, hr, g2, g4⟩

theorem olres_size {ps N : Nat} {sm so : St w} (R : OLRes ps N sm so) : so.ranges.size = sm.ranges.size := by
  apply Nat.le_antisymm
  · apply Nat.le_of_not_lt
    intro hlt
    obtain ⟨r, hr⟩ := R.bwd sm.ranges.size so.ranges[sm.ranges.size] (Array.getElem?_eq_getElem hlt)
    have := Alloc.lt_of_getElem? hr
    omega
  · apply Nat.le_of_not_lt
    intro hlt
    obtain ⟨r', hr', _⟩ := R.fwd so.ranges.size sm.ranges[so.ranges.size] (Array.getElem?_eq_getElem hlt)
    have := Alloc.lt_of_getElem? hr'
    omega

theorem olres_core {ps N : Nat} {sm so : St w} (R : OLRes ps N sm so) : core so = core sm := by
  unfold core
  rw [R.insts, R.values, R.exprs, olres_size R]

theorem olres_lastLt {ps N : Nat} {sm so : St w} (R : OLRes ps N sm so)
    (hl : ∀ (t : Nat) (r : RangeInfo) (L : Nat), sm.ranges[t]? = some r → r.lastUse = some L → L < sm.insts.size) :
    ∀ (t : Nat) (r : RangeInfo) (L : Nat), so.ranges[t]? = some r → r.lastUse = some L → L < sm.insts.size + 1 := by
  intro t r' L' hr' hL'
  obtain ⟨r, hr, _, g⟩ := olres_rng R t r' hr'
  rcases g with ⟨_, _, g⟩ | g
  · rw [g] at hL'; cases hL'; omega
  · rw [g] at hL'
    have := hl t r L' hr hL'; omega

theorem vg_leave {fs : List VFrame} {ps b1 N : Nat} {fl : Bool} {sm so : St w} {cond : Int}
    (hg : VG ((b1, N, fl) :: fs) sm) (R : OLRes ps N sm so)
    (hc : ∃ N1 fl1 rest, fs = (ps, N1, fl1) :: rest) (hN : ∀ f ∈ fs, f.2.1 ≤ N) (hpb : ps ≤ b1)
    (hcp : cpOf fs ≤ b1) (hb1 : b1 ≤ sm.insts.size) (hN0 : (∀ f ∈ fs, f.2.2 = true) → N = 0) :
    VG fs { lhBrnz cond b1 so with currentStart := ps } := by
  have hfr : ((b1, N, fl) : VFrame) ∈ (b1, N, fl) :: fs := List.mem_cons_self
  have hNsm : N ≤ sm.outerAccessed.size := hg.numLe _ hfr
  have hNso : N ≤ so.outerAccessed.size := by
    by_cases h0 : N = 0
    · omega
    · have h1 := R.pre (N - 1) (by omega)
      have h2 : (N - 1) < sm.outerAccessed.size := by omega
      rw [Array.getElem?_eq_getElem h2] at h1
      have := Alloc.lt_of_getElem? h1
      omega
  have hrng := olres_rng R
  have hinsX : ({ lhBrnz cond b1 so with currentStart := ps } : St w).insts =
      sm.insts.push (.brnz cond ((b1 : Int) - (so.insts.size : Int))) := by
    show so.insts.push _ = _
    rw [R.insts]
  have hva : ∀ i, VisAt ((b1, N, fl) :: fs) sm i → VisAt fs { lhBrnz cond b1 so with currentStart := ps } i := by
    intro i hi
    have h1 : VisAt fs sm i := by
      refine ⟨?_, hi.2.1, hi.2.2⟩
      cases fl with
      | true => have : b1 ≤ i := hi.1; omega
      | false => exact hi.1
    exact visAt_push h1 hinsX (by intro cnd off; simp) rfl
  have hvis : ∀ t, Vis ((b1, N, fl) :: fs) sm t → Vis fs { lhBrnz cond b1 so with currentStart := ps } t := by
    intro t ⟨r, g1, g2⟩
    obtain ⟨r', q1, q2, _⟩ := R.fwd t r g1
    exact ⟨r', q1, by rw [q2]; exact hva _ g2⟩
  obtain ⟨N1, fl1, rest, hfs⟩ := hc
  -- entries of the new list
  have hent : ∀ (idx v : Nat), so.outerAccessed[idx]? = some v →
      v ∈ sm.outerAccessed.toList ∧ ∃ r : RangeInfo, sm.ranges[v]? = some r ∧ r.created < ps := by
    intro idx v hv
    by_cases hi : idx < N
    · have hv' : sm.outerAccessed[idx]? = some v := by rw [← R.pre idx hi]; exact hv
      refine ⟨Array.mem_toList_iff.2 (Array.mem_of_getElem? hv'), ?_⟩
      have ho := hg.oab
      rw [hfs] at ho
      exact ho.1 idx v hi hv'
    · obtain ⟨g1, g2⟩ := R.kept v ⟨idx, by omega, hv⟩
      exact ⟨mem_toList_of_inOA g1, g2⟩
  refine ⟨fun f hf => Nat.le_trans (hN f hf) hNso, ?_, ?_, ?_, ?_, ?_, ?_⟩
  · rw [hinsX]; simp; omega
  · intro v hv
    have hv0 : v ∈ so.outerAccessed := Array.mem_toList_iff.1 hv
    obtain ⟨idx, hidx, hget⟩ := Array.getElem_of_mem hv0
    have hv' : so.outerAccessed[idx]? = some v := by rw [Array.getElem?_eq_getElem hidx, hget]
    obtain ⟨g1, r, g2, g3⟩ := hent idx v hv'
    obtain ⟨r', q1, q2, _⟩ := R.fwd v r g2
    exact ⟨hvis v (hg.ov v g1).1, r', q1, by rw [q2]; exact g3⟩
  · intro hall
    apply array_empty_of_noInOA
    rintro v ⟨idx, _, hv⟩
    obtain ⟨g1, r, g2, g3⟩ := hent idx v hv
    obtain ⟨⟨r0, q1, q2⟩, _⟩ := hg.ov v g1
    rw [g2] at q1; cases q1
    have hcp1 : cpOf fs = ps := cpOf_all_true hfs hall
    have : cpOf ((b1, N, fl) :: fs) ≤ r.created := q2.1
    cases fl with
    | true => have : b1 ≤ r.created := this; omega
    | false => have : cpOf fs ≤ r.created := this; omega
  · intro b cnd off hb
    rw [hinsX] at hb
    rcases getElem?_push_cases hb with ⟨_, g⟩ | ⟨_, g⟩
    · obtain ⟨g1, g2, g3⟩ := hg.fw b cnd off g
      refine ⟨g1, by rw [hinsX]; simp; omega, ?_⟩
      intro t r' L' hr' hL' h1 h2
      obtain ⟨r, hr, e, q⟩ := hrng t r' hr'
      rw [e] at h1 h2
      rcases q with ⟨q1, _, _⟩ | q
      · obtain ⟨⟨r0, p1, p2⟩, _⟩ := hg.ov t (mem_toList_of_inOA q1)
        rw [hr] at p1; cases p1
        exact absurd ⟨h1, h2⟩ (p2.2.1 b cnd off g)
      · rw [q] at hL'
        exact g3 t r L' hr hL' h1 h2
    · cases g
  · intro p x hx hm t r' L' hr' hL' h1
    rw [hinsX] at hx
    rcases getElem?_push_cases hx with ⟨_, g⟩ | ⟨_, g⟩
    · obtain ⟨r, hr, e, q⟩ := hrng t r' hr'
      rw [e] at h1
      rcases q with ⟨q1, _, _⟩ | q
      · obtain ⟨⟨r0, p1, p2⟩, _⟩ := hg.ov t (mem_toList_of_inOA q1)
        rw [hr] at p1; cases p1
        have := p2.2.2 p x g hm
        omega
      · rw [q] at hL'
        exact hg.pt p x g hm t r L' hr hL' h1
    · rw [g] at hm; cases hm
  · have ho := hg.oab
    rw [hfs] at ho
    rw [hfs]
    have hoab : ∀ (l : List VFrame), (∀ f ∈ l, f.2.1 ≤ N) → OAB sm l →
        OAB { lhBrnz cond b1 so with currentStart := ps } l := by
      intro l
      induction l with
      | nil => intro _ _; trivial
      | cons f0 tl ih =>
        intro hn ho
        cases tl with
        | nil => trivial
        | cons f1 rest =>
          obtain ⟨o1, o2⟩ := ho
          refine ⟨?_, ih (fun f hf => hn f (List.mem_cons_of_mem _ hf)) o2⟩
          intro idx u hidx hu
          have hlt : idx < N := Nat.lt_of_lt_of_le hidx (hn f0 List.mem_cons_self)
          have hu0 : so.outerAccessed[idx]? = some u := hu
          have hu' : sm.outerAccessed[idx]? = some u := by rw [← R.pre idx hlt]; exact hu0
          obtain ⟨q, p1, p2⟩ := o1 idx u hidx hu'
          obtain ⟨q', p3, p4, _⟩ := R.fwd u q p1
          exact ⟨q', p3, by rw [p4]; exact p2⟩
    exact hoab _ (by rw [← hfs]; exact hN) ho.2

/-- The placeholder becomes the `brz` that jumps to the current end. -/
theorem vg_patch {fs : List VFrame} {s : St w} {i : Nat} {cnd : Int} (hg : VG fs s)
    (hi : s.insts[i]? = some .noop) (hcs : s.currentStart ≤ i)
    (hl : ∀ (t : Nat) (r : RangeInfo) (L : Nat), s.ranges[t]? = some r → r.lastUse = some L → L < s.insts.size) :
    VG fs { s with insts := s.insts.setIfInBounds i (.brz cnd ((s.insts.size : Int) - (i : Int))) } := by
  have hlt : i < s.insts.size := Alloc.lt_of_getElem? hi
  have hget : ∀ (p : Nat) (x : Instr w),
      (s.insts.setIfInBounds i (.brz cnd ((s.insts.size : Int) - (i : Int))))[p]? = some x →
      (p = i ∧ x = .brz cnd ((s.insts.size : Int) - (i : Int))) ∨ (p ≠ i ∧ s.insts[p]? = some x) := by
    intro p x hx
    rw [Array.getElem?_setIfInBounds] at hx
    by_cases e : i = p
    · subst e; simp [hlt] at hx; exact Or.inl ⟨rfl, hx.symm⟩
    · simp [e] at hx; exact Or.inr ⟨fun h => e h.symm, hx⟩
  have hmv : ∀ (p : Nat) (x : Instr w),
      (s.insts.setIfInBounds i (.brz cnd ((s.insts.size : Int) - (i : Int))))[p]? = some x →
      ptrStable x = false → s.insts[p]? = some x := by
    intro p x hx hm
    rcases hget p x hx with ⟨_, rfl⟩ | ⟨_, g⟩
    · cases hm
    · exact g
  have hva : ∀ j, j < i → VisAt fs s j →
      VisAt fs { s with insts := s.insts.setIfInBounds i (.brz cnd ((s.insts.size : Int) - (i : Int))) } j := by
    intro j hj h
    refine ⟨h.1, ?_, fun p x hx hm => h.2.2 p x (hmv p x hx hm) hm⟩
    intro b c' o' hb hcon
    rcases hget b _ hb with ⟨rfl, _⟩ | ⟨_, g⟩
    · omega
    · exact h.2.1 b c' o' g hcon
  refine ⟨hg.numLe, by simpa using hg.cple, ?_, hg.em, ?_, ?_, oab_congr (s := s) (by rfl) (by rfl) _ hg.oab⟩
  · intro v hv
    obtain ⟨⟨r, g1, g2⟩, r', g3, g4⟩ := hg.ov v hv
    rw [g1] at g3; cases g3
    exact ⟨⟨r, g1, hva _ (by omega) g2⟩, r, g1, g4⟩
  · intro b c' o' hb
    rcases hget b _ hb with ⟨rfl, e⟩ | ⟨_, g⟩
    · simp only [Instr.brz.injEq] at e
      obtain ⟨_, rfl⟩ := e
      refine ⟨by omega, by simp only [Array.size_setIfInBounds]; omega, ?_⟩
      intro t r L hr hL _ _
      have := hl t r L hr hL
      omega
    · obtain ⟨g1, g2, g3⟩ := hg.fw b c' o' g
      exact ⟨g1, by simpa using g2, g3⟩
  · intro p x hx hm
    exact hg.pt p x (hmv p x hx hm) hm

/-! ### the table after a block that may be skipped -/

theorem mem_drop_of_newFrom {n0 : Nat} {ex : Array (GvnExpr w)} {e : GvnExpr w} (h : NewFrom n0 ex e) :
    e ∈ ex.toList.drop n0 := by
  obtain ⟨i, hi, hg⟩ := h
  have h1 : (ex.toList.drop n0)[i - n0]? = some e := by
    rw [List.getElem?_drop]
    have : n0 + (i - n0) = i := by omega
    rw [this]
    simpa using hg
  exact List.mem_of_getElem? h1

theorem exit_table {fuse : Bool} {body : List (Ir.Instr w)} {ps' : Nat} {s1 sb : St w} {u1 : Unit}
    (hrun : emitInsts fuse ps' body (subsOf body) s1 = .ok (u1, sb)) (hw : WfV (core s1)) (hwb : WfV (core sb))
    {shift : Int} (hs : (subOf shift body).hasShift = false) :
    ∀ e t, alGet (exitVals (subOf shift body) false s1.exprs.size sb.exprs sb.values) e = some t →
      alGet s1.values e = some t := by
  obtain ⟨_, hns, hwr⟩ := subOf_noShift hs
  have hEm := em_of_emitInsts fuse _ body (Nat.le_refl _) ps' s1 sb u1 hrun
  have hIB : IB s1.values s1.exprs.size (analyzeInsts body Analysis.empty).writes (core sb) :=
    (em_vinv (V := s1.values) (n0 := s1.exprs.size) (W := (analyzeInsts body Analysis.empty).writes) hEm
      Analysis.empty hns (fun v hv => hv) hw (Nat.le_refl _)).2 (fun e t h => Or.inl h)
  have hnd : (keys sb.values).Nodup := hwb.nodup
  intro e t ht
  rw [exitVals_erase hs, (eraseKeys_spec _ _ hnd).2 e] at ht
  split at ht
  · cases ht
  · rename_i hnot
    rcases hIB e t ht with g | g | ⟨v, hv, rfl⟩
    · exact g
    · exact absurd (List.mem_append_right _ (mem_drop_of_newFrom g)) hnot
    · refine absurd (List.mem_append_left _ ?_) hnot
      simp only [headKeys, List.mem_map]
      exact ⟨v, by rw [hwr]; exact hv, rfl⟩

/-! ### leaving a block: the common part -/

theorem vinv_exit {c : VCtx} {ps : Nat} {a : Analysis} {i : Ir.Instr w} {rest : List (Ir.Instr w)}
    {s s1 sb sf : St w} {fl once : Bool} {fs' : List VFrame}
    (h : VInv c ps a (i :: rest) s)
    (hflag : c.flag = false → fl = false)
    (hfs : fl = false → ∀ (st : St w) (j : Nat), VisAt fs' st j → VisAt c.frames st j)
    (hFin : FInv (toFrames c.frames) ps sf) (hVG : VG c.frames sf) (hW : WfV (core sf))
    (hs1p : Pre s.insts s1.insts)
    (hs1 : ∀ (p : Nat) (x : Instr w), s.insts.size ≤ p → s1.insts[p]? = some x → ptrStable x = true)
    (hpre : Pre s1.insts sb.insts) (hszf : sb.insts.size ≤ sf.insts.size)
    (hbnm : fl = false → NoMove s1.insts.size sb)
    (hbtv : TV fs' sb)
    (hbsv : ∀ t B, childSaved c fl s t B → SV fs' sb t B)
    (htab1 : fl = true → sf.values = [])
    (htab2 : fl = false → ∀ e t, alGet sf.values e = some t →
      (once = true ∧ alGet sb.values e = some t) ∨ alGet s.values e = some t)
    (hrng : fl = false → ∀ (t : Nat) (r : RangeInfo), sb.ranges[t]? = some r →
      ∃ r' : RangeInfo, sf.ranges[t]? = some r' ∧ r'.created = r.created)
    (hmv : fl = false → ∀ (p : Nat) (x : Instr w), sf.insts[p]? = some x → ptrStable x = false →
      ∃ y, sb.insts[p]? = some y ∧ ptrStable y = false)
    (hbrz : fl = false → ∀ (b : Nat) (cnd off : Int), sf.insts[b]? = some (.brz cnd off) →
      sb.insts[b]? = some (.brz cnd off) ∨ (once = false ∧ s.insts.size ≤ b)) :
    VInv c ps (analyzeInstr i a) rest sf := by
  have hsz : s.insts.size ≤ sf.insts.size := Nat.le_trans hs1p.1 (Nat.le_trans hpre.1 hszf)
  -- visibility at the end, for positions below the start of the block
  have hva : fl = false → ∀ j, (once = false → j < s.insts.size) → VisAt fs' sb j → VisAt c.frames sf j := by
    intro hf j hj hv
    have h1 := hfs hf sb j hv
    refine ⟨h1.1, ?_, ?_⟩
    · intro b cnd off hb hcon
      rcases hbrz hf b cnd off hb with g | ⟨g1, g2⟩
      · exact h1.2.1 b cnd off g hcon
      · have := hj g1; omega
    · intro p x hx hm
      obtain ⟨y, g1, g2⟩ := hmv hf p x hx hm
      exact h1.2.2 p y g1 g2
  have hsvf : fl = false → ∀ t B, B ≤ s.insts.size → SV fs' sb t B → SV c.frames sf t B := by
    intro hf t B hB ⟨r, g1, g2, g3⟩
    obtain ⟨r', q1, q2⟩ := hrng hf t r g1
    exact ⟨r', q1, by rw [q2]; exact g2, by rw [q2]; exact hva hf _ (fun _ => by omega) g3⟩
  refine ⟨⟨hFin, hVG, ?_⟩, hW, ns_tail h.ns, h.mf, Nat.le_trans h.bs hsz, ?_, h.se, h.sb, ?_⟩
  · intro e t ht
    cases hf : fl with
    | true => rw [htab1 hf] at ht; cases ht
    | false =>
      rcases htab2 hf e t ht with ⟨g1, g2⟩ | g
      · obtain ⟨r, q1, q2⟩ := hbtv e t g2
        obtain ⟨r', p1, p2⟩ := hrng hf t r q1
        exact ⟨r', p1, by rw [p2]; exact hva hf _ (fun h0 => by rw [g1] at h0; cases h0) q2⟩
      · obtain ⟨r, q1, _, q3⟩ := hsvf hf t s.insts.size (Nat.le_refl _) (hbsv t _ ⟨hf, Or.inr ⟨rfl, e, g⟩⟩)
        exact ⟨r, q1, q3⟩
  · intro hc p x hp hx
    have hf := hflag hc
    cases hm : ptrStable x with
    | true => rfl
    | false =>
      exfalso
      obtain ⟨y, g1, g2⟩ := hmv hf p x hx hm
      by_cases h1 : s1.insts.size ≤ p
      · rw [hbnm hf p y h1 g1] at g2; cases g2
      · have g3 : s1.insts[p]? = some y := by rw [← hpre.2 p (by omega)]; exact g1
        by_cases h2 : s.insts.size ≤ p
        · rw [hs1 p y h2 g3] at g2; cases g2
        · have g4 : s.insts[p]? = some y := by rw [← hs1p.2 p (by omega)]; exact g3
          rw [h.nm hc p y hp g4] at g2; cases g2
  · intro t B ht
    cases hc : c.flag with
    | true => exact absurd ht (h.se hc t B)
    | false =>
      have hf := hflag hc
      exact hsvf hf t B (Nat.le_trans (h.sb t B ht) h.bs) (hbsv t B ⟨hf, Or.inl ht⟩)

/-! ### leaving a loop: the rule -/

theorem lhPro_true_insts (once : Bool) (sub : Analysis) (s : St w) :
    (lhPro true once (lhHead true sub s)).insts = (if once then s.insts else s.insts.push .noop) ∧
    (lhPro true once (lhHead true sub s)).exprs = s.exprs ∧
    (lhPro true once (lhHead true sub s)).values = (lhHead true sub s).values := by
  have hins0 : (lhHead true sub s).insts = s.insts := by rw [lhHead_eq]
  have hex0 : (lhHead true sub s).exprs = s.exprs := by rw [lhHead_eq]
  cases once with
  | true => exact ⟨hins0, hex0, rfl⟩
  | false =>
    refine ⟨?_, hex0, rfl⟩
    show (lhHead true sub s).insts.push .noop = _
    rw [hins0]; rfl

theorem loopEnd_fields (once : Bool) (cond : Int) (sub : Analysis) (ps : Nat) (s s1 so : St w) :
    (loopEnd once cond sub ps s s1 so).ranges = so.ranges ∧
    (loopEnd once cond sub ps s s1 so).outerAccessed = so.outerAccessed ∧
    (loopEnd once cond sub ps s s1 so).currentStart = ps ∧
    ∃ o1 o2 : Int, (loopEnd once cond sub ps s s1 so).insts =
      (if once then so.insts.push (.brnz cond o1)
       else (so.insts.push (.brnz cond o1)).setIfInBounds (s1.insts.size - 1) (.brz cond o2)) := by
  rw [loopEnd, lhExit_eq]
  cases once
  · exact ⟨rfl, rfl, rfl, _, _, rfl⟩
  · exact ⟨rfl, rfl, rfl, _, 0, rfl⟩

theorem vinv_loop_exit {fuse : Bool} {c : VCtx} {ps : Nat} {a : Analysis} {cond shift : Int}
    {body : List (Ir.Instr w)} {once : Bool} {rest : List (Ir.Instr w)} {s sb so : St w} {u1 u2 : Unit} {fuel : Nat}
    (h : VInv c ps a (.loop cond shift body once :: rest) s)
    (hrun : emitInsts fuse (lhPro true once (lhHead true (subOf shift body) s)).currentStart body (subsOf body)
      (lhPro true once (lhHead true (subOf shift body) s)) = .ok (u1, sb))
    (hb : VInv (loopCtx c (subOf shift body).hasShift s (lhPro true once (lhHead true (subOf shift body) s)))
      (lhPro true once (lhHead true (subOf shift body) s)).currentStart (analyzeInsts body Analysis.empty) [] sb)
    (hpre : Pre (lhPro true once (lhHead true (subOf shift body) s)).insts sb.insts)
    (ho : outerLoop ps fuel s.outerAccessed.size (lhMov shift sb) = .ok (u2, so)) :
    VInv c ps (analyzeInstr (.loop cond shift body once : Ir.Instr w) a) rest
      (loopEnd once cond (subOf shift body) ps s (lhPro true once (lhHead true (subOf shift body) s)) so) := by
  obtain ⟨e1, e2, hpb⟩ := finv_loop_enter h.vk.finv once (subOf shift body)
  have hbF : FInv (((lhPro true once (lhHead true (subOf shift body) s)).insts.size, s.outerAccessed.size) ::
      toFrames c.frames) (lhPro true once (lhHead true (subOf shift body) s)).insts.size sb := by
    have := hb.vk.finv; rw [e2] at this; exact this
  obtain ⟨hFin, R, hmF⟩ := finv_loop_exit (cond := cond) h.vk.finv hbF hpre ho
  have hcore : core so = core (lhMov shift sb) := olres_core R
  have hW : WfV (core (loopEnd once cond (subOf shift body) ps s
      (lhPro true once (lhHead true (subOf shift body) s)) so)) := by
    rw [core_loopEnd hcore]; exact hb.wfv.blockEnd _ _ _ _ _ _
  have hval : (loopEnd once cond (subOf shift body) ps s
      (lhPro true once (lhHead true (subOf shift body) s)) so).values =
      exitVals (subOf shift body) once s.exprs.size sb.exprs sb.values := by
    have := congrArg G.values (core_loopEnd (once := once) (cond := cond) (sub := subOf shift body) (ps := ps)
      (s := s) hcore)
    rw [blockEnd_values] at this
    exact this
  have hs1W : WfV (core (lhPro true once (lhHead true (subOf shift body) s))) := by
    rw [core_lhPro, core_lhHead]; exact (h.wfv.headG true _).blockStart _
  obtain ⟨hs1i, hs1e, hs1v⟩ := lhPro_true_insts once (subOf shift body) s
  have hhv : ∀ e t, alGet (lhHead true (subOf shift body) s).values e = some t → alGet s.values e = some t := by
    intro e t ht
    have hc := core_lhHead true (subOf shift body) s
    have : (lhHead true (subOf shift body) s).values = headVals (subOf shift body) s.values := by
      have := congrArg G.values hc
      exact this
    rw [this] at ht
    exact headVals_sub h.wfv.nodup _ e t ht
  obtain ⟨hfr, hfo, hfc, o1, o2, hfi⟩ := loopEnd_fields once cond (subOf shift body) ps s
    (lhPro true once (lhHead true (subOf shift body) s)) so
  have hbnm := hb.nm
  have hbtv := hb.vk.tv
  have hbsv := hb.sv
  have hbmf := hb.mf
  have hbvg := hb.vk.vg
  unfold loopCtx at hbnm hbtv hbsv hbmf hbvg
  simp only at hbnm hbtv hbsv hbmf hbvg
  generalize hs1 : lhPro true once (lhHead true (subOf shift body) s) = s1 at *
  generalize hsf : loopEnd once cond (subOf shift body) ps s s1 so = sf at *
  -- the position of the first instruction of the body
  have hb1 : s1.insts.size = s.insts.size + (if once then 0 else 1) := by
    rw [hs1i]; cases once <;> simp
  have hps : ps ≤ s.insts.size := by
    obtain ⟨N0, rest0, hc0⟩ := h.vk.finv.hd
    exact h.vk.finv.core.startLe (ps, N0) (by rw [hc0]; exact List.mem_cons_self)
  have hshift : (subOf shift body).hasShift = false → shift = 0 := fun hf => (subOf_noShift hf).1
  have hsm0 : shift = 0 → lhMov shift sb = sb := by intro h0; unfold lhMov; simp [h0]
  -- the state after the pointer move
  have hgm : VG ((s1.insts.size, s.outerAccessed.size, (subOf shift body).hasShift) :: c.frames) (lhMov shift sb) := by
    by_cases h0 : shift = 0
    · rw [hsm0 h0]; exact hbvg
    · have hfl : (subOf shift body).hasShift = true := subOf_shift body h0
      have hoa : sb.outerAccessed = #[] := hbvg.em (hbmf hfl)
      have : lhMov shift sb = { sb with insts := sb.insts.push (.mov shift) } := by unfold lhMov; simp [h0]
      rw [this]
      exact vg_move (x := .mov shift) hbvg hbF.lastLt hoa rfl rfl rfl (by intro cnd off; simp)
  have hb1m : s1.insts.size ≤ (lhMov shift sb).insts.size :=
    hmF.core.startLe (s1.insts.size, s.outerAccessed.size) List.mem_cons_self
  have hXb : VG c.frames { lhBrnz cond s1.insts.size so with currentStart := ps } := by
    refine vg_leave (cond := cond) hgm R ?_ h.vk.vg.numLe hpb ?_ hb1m ?_
    · have := vk_hd h.vk; rw [h.vk.finv.cs] at this; exact this
    · have := h.vk.vg.cple; omega
    · intro hall; rw [h.vk.vg.em hall]; rfl
  have hlast := olres_lastLt R hmF.lastLt
  have hszf : sf.insts.size = (lhMov shift sb).insts.size + 1 := by
    rw [hfi, ← R.insts]; cases once <;> simp
  have hsbm : sb.insts.size ≤ (lhMov shift sb).insts.size := by
    unfold lhMov; split <;> simp
  have hVG : VG c.frames sf := by
    rw [← hsf]
    unfold loopEnd
    rw [lhExit_eq]
    cases once with
    | true => exact vg_congr hXb rfl rfl rfl rfl
    | false =>
      have hnoop : ({ lhBrnz cond s1.insts.size so with currentStart := ps } : St w).insts[s1.insts.size - 1]? =
          some .noop := by
        have pm : Pre sb.insts (lhMov shift sb).insts := by
          unfold lhMov; split
          · exact Pre.refl _
          · exact Pre.push _ _
        have pp : Pre s1.insts (lhBrnz cond s1.insts.size so).insts := by
          refine (hpre.trans pm).trans ?_
          show Pre _ (so.insts.push _)
          rw [R.insts]; exact Pre.push _ _
        show (lhBrnz cond s1.insts.size so).insts[s1.insts.size - 1]? = some .noop
        rw [pp.2 _ (by simp at hb1; omega), hs1i]
        simp at hb1
        simp [hb1]
      have hp := vg_patch (cnd := cond) hXb hnoop (by show ps ≤ _; simp at hb1; omega) (by
        intro t r L hr hL
        show L < (so.insts.push _).size
        rw [R.insts]; simp
        have := hlast t r L hr hL; omega)
      exact vg_congr hp rfl rfl rfl rfl
  refine vinv_exit (s1 := s1) (sb := sb) (once := once) (fl := (subOf shift body).hasShift)
    (fs' := (s1.insts.size, s.outerAccessed.size, (subOf shift body).hasShift) :: c.frames)
    h (fun hc => child_noShift_loop (h.ns hc)) ?_ hFin hVG hW ?_ ?_ hpre (by omega) hbnm hbtv hbsv ?_ ?_ ?_ ?_ ?_
  · intro hf st j hv; rw [hf] at hv; exact hv
  · rw [hs1i]; cases once
    · exact Pre.push _ _
    · exact Pre.refl _
  · intro p x hp hx
    rw [hs1i] at hx
    cases once with
    | true =>
      have := Alloc.lt_of_getElem? hx
      simp at this; omega
    | false =>
      simp only [Bool.false_eq_true, if_false] at hx
      rcases getElem?_push_cases hx with ⟨g, _⟩ | ⟨_, g⟩
      · omega
      · rw [g]; rfl
  · intro hf; rw [hval, exitVals_shift hf]
  · intro hf e t ht
    rw [hval] at ht
    cases once with
    | true => rw [exitVals_once hf] at ht; exact Or.inl ⟨rfl, ht⟩
    | false =>
      right
      rw [← hs1e] at ht
      have := exit_table hrun hs1W hb.wfv hf e t ht
      rw [hs1v] at this
      exact hhv e t this
  · intro hf t r hr
    rw [hfr]
    have hr' : (lhMov shift sb).ranges[t]? = some r := by rw [hsm0 (hshift hf)]; exact hr
    obtain ⟨r', g1, g2, _⟩ := R.fwd t r hr'
    exact ⟨r', g1, g2⟩
  · intro hf p x hx hm
    rw [hfi, R.insts, hsm0 (hshift hf)] at hx
    cases once with
    | true =>
      simp only [if_true] at hx
      rcases getElem?_push_cases hx with ⟨_, g⟩ | ⟨_, g⟩
      · exact ⟨x, g, hm⟩
      · rw [g] at hm; cases hm
    | false =>
      simp only [Bool.false_eq_true, if_false] at hx
      rw [Array.getElem?_setIfInBounds] at hx
      split at hx
      · split at hx
        · cases hx; cases hm
        · cases hx
      · rcases getElem?_push_cases hx with ⟨_, g⟩ | ⟨_, g⟩
        · exact ⟨x, g, hm⟩
        · rw [g] at hm; cases hm
  · intro hf b cnd off hx
    rw [hfi, R.insts, hsm0 (hshift hf)] at hx
    cases once with
    | true =>
      simp only [if_true] at hx
      rcases getElem?_push_cases hx with ⟨_, g⟩ | ⟨_, g⟩
      · exact Or.inl g
      · cases g
    | false =>
      simp only [Bool.false_eq_true, if_false] at hx
      rw [Array.getElem?_setIfInBounds] at hx
      split at hx
      · rename_i heq
        right
        simp at hb1
        exact ⟨rfl, by omega⟩
      · rcases getElem?_push_cases hx with ⟨_, g⟩ | ⟨_, g⟩
        · exact Or.inl g
        · cases g

/-! ### `if` blocks -/

theorem vinv_if_enter {c : VCtx} {ps : Nat} {a : Analysis} {cond shift : Int} {body : List (Ir.Instr w)}
    {rest : List (Ir.Instr w)} {s : St w} (h : VInv c ps a (.ifnz cond shift body :: rest) s) :
    VInv (ifCtx c (subOf shift body).hasShift s (lhPro false false s)) (lhPro false false s).currentStart
      Analysis.empty body (lhPro false false s) := by
  have hcs : (lhPro false false s).currentStart = ps := h.vk.finv.cs
  have hW : WfV (core (lhPro false false s)) := by rw [core_lhPro]; exact h.wfv.blockStart _
  have heq : lhPro false false s = { s with insts := s.insts.push .noop } := rfl
  have hvk : VK c.frames ps (lhPro false false s) := by
    rw [heq]
    exact vk_append (x := .noop) h.vk (linv_push h.vk.finv.linv rfl) rfl rfl rfl rfl (by intro cnd off; simp)
      (by intro cnd off; simp) rfl (fun _ _ g => g)
  have k1 : Keep s (lhPro false false s) := by
    rw [heq]; exact keep_push (x := .noop) rfl rfl (by intro cnd off; simp) rfl
  have hsz : (lhPro false false s).insts.size = s.insts.size + 1 := by rw [heq]; simp
  rw [hcs]
  unfold ifCtx
  refine ⟨hvk, hW, ?_, ?_, Nat.le_refl _, ?_, ?_, ?_, ?_⟩
  · intro hs
    exact (subOf_noShift hs).2.1
  · intro hs
    exact h.mf (flag_of_shift_if h.ns hs)
  · intro _ p x hp hx
    have hp' : (lhPro false false s).insts.size ≤ p := hp
    have := Alloc.lt_of_getElem? hx
    omega
  · intro hs t B ht
    have hs' : (subOf shift body).hasShift = true := hs
    rw [ht.1] at hs'; cases hs'
  · intro t B ht
    show B ≤ (lhPro false false s).insts.size
    rcases ht.2 with g | ⟨g, _⟩
    · have := h.sb t B g; have := h.bs; omega
    · omega
  · intro t B ht
    obtain ⟨_, ht2⟩ := ht
    have hsv : SV c.frames s t B := by
      rcases ht2 with g | ⟨g, e, he⟩
      · exact h.sv t B g
      · obtain ⟨r, g1, g2⟩ := h.vk.tv e t he
        exact ⟨r, g1, by rw [g]; exact (h.vk.finv.linv.rwf t r g1).1, g2⟩
    exact sv_keep hsv k1

theorem ifEnd_fields (cond shift : Int) (sub : Analysis) (ps : Nat) (s s1 sb : St w) :
    (ifEnd cond shift sub ps s s1 sb).ranges = (lhMov shift sb).ranges ∧
    ∃ o2 : Int, (ifEnd cond shift sub ps s s1 sb).insts =
      (lhMov shift sb).insts.setIfInBounds (s1.insts.size - 1) (.brz cond o2) := by
  rw [ifEnd, lhExit_eq]
  exact ⟨rfl, _, rfl⟩

theorem vinv_if_exit {fuse : Bool} {c : VCtx} {ps : Nat} {a : Analysis} {cond shift : Int}
    {body : List (Ir.Instr w)} {rest : List (Ir.Instr w)} {s sb : St w} {u1 : Unit}
    (h : VInv c ps a (.ifnz cond shift body :: rest) s)
    (hrun : emitInsts fuse (lhPro false false s).currentStart body (subsOf body) (lhPro false false s) = .ok (u1, sb))
    (hb : VInv (ifCtx c (subOf shift body).hasShift s (lhPro false false s)) (lhPro false false s).currentStart
      (analyzeInsts body Analysis.empty) [] sb)
    (hpre : Pre (lhPro false false s).insts sb.insts) :
    VInv c ps (analyzeInstr (.ifnz cond shift body : Ir.Instr w) a) rest
      (ifEnd cond shift (subOf shift body) ps s (lhPro false false s) sb) := by
  have hcs : (lhPro false false s).currentStart = ps := h.vk.finv.cs
  have hbF : FInv (toFrames c.frames) ps sb := by
    have := hb.vk.finv; rw [hcs] at this; exact this
  obtain ⟨hFin, hmF⟩ := finv_if_exit (sub := subOf shift body) (cond := cond) (shift := shift) hbF hpre
  have hW : WfV (core (ifEnd cond shift (subOf shift body) ps s (lhPro false false s) sb)) := by
    rw [core_ifEnd]; exact hb.wfv.blockEnd _ _ _ _ _ _
  have hval : (ifEnd cond shift (subOf shift body) ps s (lhPro false false s) sb).values =
      exitVals (subOf shift body) false s.exprs.size sb.exprs sb.values := by
    have := congrArg G.values (core_ifEnd (cond := cond) (shift := shift) (sub := subOf shift body) (ps := ps)
      (s := s) (sb := sb))
    rw [blockEnd_values] at this
    exact this
  have hs1W : WfV (core (lhPro false false s)) := by rw [core_lhPro]; exact h.wfv.blockStart _
  have hs1i : (lhPro false false s).insts = s.insts.push .noop := rfl
  have hs1e : (lhPro false false s).exprs = s.exprs := rfl
  have hs1v : (lhPro false false s).values = s.values := rfl
  obtain ⟨hfr, o2, hfi⟩ := ifEnd_fields cond shift (subOf shift body) ps s (lhPro false false s) sb
  have hbnm := hb.nm
  have hbtv := hb.vk.tv
  have hbsv := hb.sv
  have hbmf := hb.mf
  have hbvg := hb.vk.vg
  unfold ifCtx at hbnm hbtv hbsv hbmf hbvg
  simp only at hbnm hbtv hbsv hbmf hbvg
  have hvgeq : VG c.frames (ifEnd cond shift (subOf shift body) ps s (lhPro false false s) sb) := by
    -- the state after the pointer move
    have hgm : VG c.frames (lhMov shift sb) := by
      by_cases h0 : shift = 0
      · have : lhMov shift sb = sb := by unfold lhMov; simp [h0]
        rw [this]; exact hbvg
      · have hfl : (subOf shift body).hasShift = true := subOf_shift body h0
        have hoa : sb.outerAccessed = #[] := hbvg.em (hbmf hfl)
        have : lhMov shift sb = { sb with insts := sb.insts.push (.mov shift) } := by unfold lhMov; simp [h0]
        rw [this]
        exact vg_move (x := .mov shift) hbvg hbF.lastLt hoa rfl rfl rfl (by intro cnd off; simp)
    have pm : Pre sb.insts (lhMov shift sb).insts := by
      unfold lhMov; split
      · exact Pre.refl _
      · exact Pre.push _ _
    have hnoop : (lhMov shift sb).insts[(lhPro false false s).insts.size - 1]? = some .noop := by
      rw [(hpre.trans pm).2 _ (by rw [hs1i]; simp)]
      simp [hs1i]
    have hps : ps ≤ s.insts.size := by
      obtain ⟨N0, rest0, hc0⟩ := h.vk.finv.hd
      exact h.vk.finv.core.startLe (ps, N0) (by rw [hc0]; exact List.mem_cons_self)
    have hp := vg_patch (cnd := cond) hgm hnoop (by rw [hmF.cs, hs1i]; simp; exact hps) hmF.lastLt
    unfold ifEnd
    rw [lhExit_eq]
    exact vg_congr hp rfl rfl rfl hmF.cs.symm
  generalize hs1 : lhPro false false s = s1 at *
  generalize hsf : ifEnd cond shift (subOf shift body) ps s s1 sb = sf at *
  have hb1 : s1.insts.size = s.insts.size + 1 := by rw [hs1i]; simp
  have hshift : (subOf shift body).hasShift = false → shift = 0 := fun hf => (subOf_noShift hf).1
  have hsm0 : shift = 0 → lhMov shift sb = sb := by intro h0; unfold lhMov; simp [h0]
  have hsbm : sb.insts.size ≤ (lhMov shift sb).insts.size := by
    unfold lhMov; split <;> simp
  refine vinv_exit (s1 := s1) (sb := sb) (once := false) (fl := (subOf shift body).hasShift)
    (fs' := c.frames) h (fun hc => child_noShift_if (h.ns hc)) (fun _ _ _ hv => hv) hFin hvgeq hW ?_ ?_ hpre
    (by rw [hfi]; simpa using hsbm) hbnm hbtv hbsv ?_ ?_ ?_ ?_ ?_
  · rw [hs1i]; exact Pre.push _ _
  · intro p x hp hx
    rw [hs1i] at hx
    rcases getElem?_push_cases hx with ⟨g, _⟩ | ⟨_, g⟩
    · omega
    · rw [g]; rfl
  · intro hf; rw [hval, exitVals_shift hf]
  · intro hf e t ht
    rw [hval] at ht
    right
    rw [← hs1e] at ht
    have := exit_table hrun hs1W hb.wfv hf e t ht
    rw [hs1v] at this
    exact this
  · intro hf t r hr
    rw [hfr, hsm0 (hshift hf)]
    exact ⟨r, hr, rfl⟩
  · intro hf p x hx hm
    rw [hfi, hsm0 (hshift hf), Array.getElem?_setIfInBounds] at hx
    split at hx
    · split at hx
      · cases hx; cases hm
      · cases hx
    · exact ⟨x, hx, hm⟩
  · intro hf b cnd off hx
    rw [hfi, hsm0 (hshift hf), Array.getElem?_setIfInBounds] at hx
    split at hx
    · right
      exact ⟨rfl, by omega⟩
    · exact Or.inl hx

/-! ### the induction -/

theorem closedI_vinv (fuse : Bool) : ClosedI fuse (VInv (w := w)) where
  out := fun _ _ _ _ _ _ h => vinv_out h
  inp := fun _ _ _ _ _ _ h => vinv_inp h
  calcR := fun _ _ _ _ _ _ _ _ _ _ h hc hm => vinv_calc h hc hm
  scan := fun _ _ _ _ _ _ _ _ hfu h => vinv_scan hfu h
  loop := fun c ps a cond shift body once rest s _ h =>
    ⟨_, vinv_loop_enter h, fun sb so u1 u2 fuel hrun hb hpre ho => vinv_loop_exit h hrun hb hpre ho⟩
  ifz := fun c ps a cond shift body rest s h =>
    ⟨_, vinv_if_enter h, fun sb u1 hrun hb hpre => vinv_if_exit h hrun hb hpre⟩

def topCtx : VCtx := ⟨[((0 : Nat), (0 : Nat), true)], true, 0, fun _ _ => False⟩

theorem vinv_init (l : List (Ir.Instr w)) : VInv topCtx 0 Analysis.empty l ({} : St w) := by
  refine ⟨⟨finv_init, ?_, ?_⟩, ⟨?_, ?_⟩, ?_, ?_, Nat.le_refl _, ?_, ?_, ?_, ?_⟩
  · refine ⟨?_, Nat.le_refl _, ?_, fun _ => rfl, ?_, ?_, trivial⟩
    · intro f hf
      simp only [topCtx, List.mem_singleton] at hf
      subst hf; exact Nat.le_refl _
    · intro v hv; simp at hv
    · intro b cnd off hb; simp at hb
    · intro p x hx; simp at hx
  · intro e t ht; cases ht
  · simp [core, keys]
  · intro e t ht; cases ht
  · intro hf; cases hf
  · intro _ f hf
    simp only [topCtx, List.mem_singleton] at hf
    subst hf; rfl
  · intro hf; cases hf
  · intro _ t B ht; exact ht
  · intro t B ht; exact ht.elim
  · intro t B ht; exact ht.elim

theorem vinv_of_emit {prog : Ir.Block w} {fuse : Bool} {s : St w} (h : emitState prog fuse = .ok s) :
    VInv topCtx 0 (analyzeInsts prog.insts Analysis.empty) [] s :=
  closedI_emitState (closedI_vinv fuse) h topCtx (vinv_init _)

/-- **Forward edges.** A value that is in range at the target of a `brz` is in range at the `brz`. -/
theorem flowFwd_of_emit {prog : Ir.Block w} {fuse : Bool} {s : St w} (h : emitState prog fuse = .ok s)
    (j : Nat) (cnd off : Int) (k' : Nat) (hj : s.insts[j]? = some (.brz cnd off))
    (hk : (j : Int) + off = (k' : Int)) (t : Nat) (ht : InRange s t k') : InRange s t j := by
  have hV := (vinv_of_emit h).vk.vg
  obtain ⟨r, L, g1, g2, g3, g4⟩ := ht
  obtain ⟨q1, _, q3⟩ := hV.fw j cnd off hj
  have hlt : r.created < j := by
    apply Nat.lt_of_not_le
    intro hle
    have := q3 t r L g1 g2 (by omega) (by omega)
    omega
  exact ⟨r, L, g1, g2, hlt, by omega⟩

/-- **Pointer moves.** No value is in range at a pointer move. -/
theorem ptr_of_emit {prog : Ir.Block w} {fuse : Bool} {s : St w} (h : emitState prog fuse = .ok s)
    (t j : Nat) (ins : Instr w) (ht : InRange s t j) (hj : s.insts[j]? = some ins) : ptrStable ins = true := by
  have hV := (vinv_of_emit h).vk.vg
  obtain ⟨r, L, g1, g2, g3, g4⟩ := ht
  cases hm : ptrStable ins with
  | true => rfl
  | false =>
    have := hV.pt j ins hj hm t r L g1 g2 g3
    omega

end AEmit
end C02
end Hpbf
