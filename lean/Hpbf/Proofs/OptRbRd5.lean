/-
Rebuild-round proofs: READ-BEFORE-WRITE footprint, part 5: `loopInsideIf`, `finishLoop`, the full induction over
`rebuildInstr` / `rebuildInsts` (mirroring `OptRbShape3.lean`), and `optimizeOnce_rdOk`: the `reads` recorded for
every non-moving loop of the result of a round bound what an iteration of its body exposes.
-/
import Hpbf.Proofs.OptRbRd4

namespace Hpbf
namespace OptProof
open Opt OptSem Ir

variable {w : Nat}

theorem RdSt.forgetParent {s : Rebuild w} (h : RdSt s) : RdSt (forgetParent s) :=
  h.of_same rfl rfl rfl (fun _ h => h) rfl

/-! ### `loopInsideIf` -/

theorem loopInsideIf_rstep {s : Rebuild w} {ps : List (Rebuild w)} {sub : Rebuild w} {cond : Int}
    {L : OptLoop w} {after : List (Int × Expr w)} {C : List Int} {os os' : Orders} {s' : Rebuild w}
    (hr : (loopInsideIf s ps sub cond L after C).run os = .ok (s', os')) (hwf : Wf s) (hc : CanonSt s)
    (hsub : Child sub) (hch : RdSt sub) : RStep s s' := by
  unfold loopInsideIf at hr
  dsimp only at hr
  split at hr
  · rw [run_bind_ok] at hr
    obtain ⟨s1, os1, h1, h2⟩ := hr
    have c1 := inline_canon h1 hwf hc hsub
    exact (inline_rstep h1 hwf hsub.wf hch).trans (performAll_rstep h2 c1.wf)
  · split at hr
    · rw [run_bind_ok] at hr
      obtain ⟨s1, os1, h1, h2⟩ := hr
      have r1 := performAll_nstep h1 hwf
      exact (performAll_rstep h1 hwf).trans (performAll_rstep h2 r1.wf)
    · rw [run_bind_ok] at hr
      obtain ⟨s1, os1, h1, h2⟩ := hr
      have c1 := loopOrIf_canon h1 hwf hc hsub
      have p1 := loopOrIf_rstep h1 hwf hsub.wf hch (fun h => Bool.noConfusion h)
      exact p1.trans (performAll_rstep h2 c1.wf)

/-! ### `finishLoop` -/

theorem finishMotionK_run_r {s : Rebuild w} {ps : List (Rebuild w)} {sub : Rebuild w} {cond : Int}
    {L : OptLoop w} {k : MidRes w → M (Rebuild w)} {os os' : Orders} {s' : Rebuild w}
    (hr : (finishMotionK s ps sub cond L k).run os = .ok (s', os')) (hsub : Child sub) (hL : LoopCanon L) :
    ∃ (r : MidRes w) (os1 : Orders), Child r.1 ∧ RStep sub r.1 ∧ CanonCalcs r.2.1 ∧ CanonCalcs r.2.2.1 ∧
      (k r).run os1 = .ok (s', os') := by
  unfold finishMotionK at hr
  dsimp only at hr
  rw [run_bind_ok] at hr
  obtain ⟨constant, os1, _, h2⟩ := hr
  rw [run_bind_ok] at h2
  obtain ⟨⟨sub1, B, D, A⟩, os2, h3, h4⟩ := h2
  dsimp only at h4
  rw [run_bind_ok] at h4
  obtain ⟨sub2, os3, h5, h6⟩ := h4
  rw [run_bind_ok] at h6
  obtain ⟨x, os4, h7, h8⟩ := h6
  rw [run_pure] at h7
  cases h7
  have hinv : MotionInv (sub1, B, D, A) ∧ RStep sub sub1 := by
    refine foldlM_inv (fun acc _ => MotionInv acc ∧ RStep sub acc.1) _ (pendingSorted sub sub) ?_
      (b := (sub, [], [], [])) (os := os1) ?_ h3
    · intro acc x os acc' os' _ hi hstep
      refine ⟨motionStepM_canon (fun v l h => linearAmong_canon_get hsub.canon _ _ h) hL hi.1 hstep, ?_⟩
      obtain ⟨sb, B0, D0, A0⟩ := acc
      obtain ⟨_, sub', p, b, d, a, hrm, _, hres⟩ :=
        OptLoop.motionStepM_ok s ps _ _ _ _ L sb B0 D0 A0 x os os' acc' hstep
      subst hres
      have e1 : sub' = (removePending sb x).1 := by rw [hrm]
      show RStep sub sub'
      rw [e1]
      have hs := removePending_same sb x
      exact hi.2.trans (RStep.of_same hs.2.2.2.2.2.2.2.2.1 hs.2.2.2.2.2.2.2.2.2 hs.2.2.2.2.2.2.2.1
        (fun v hv => by rw [hs.2.2.2.2.2.2.1]; exact hv) hs.2.2.2.2.1)
    · exact ⟨⟨hsub, canonCalcs_nil, canonCalcs_nil, canonCalcs_nil⟩, RStep.refl sub⟩
  obtain ⟨⟨hch, hB, hD, hA⟩, hk⟩ := hinv
  exact ⟨(sub2, B, A, constant), os3, hch.step (performAll_canon h5 hch.wf hch.canon hD),
    hk.trans (performAll_rstep h5 hch.wf), hB, hA, h8⟩

theorem finishEnd_rstep {s : Rebuild w} {ps : List (Rebuild w)} {cond : Int} {L : OptLoop w}
    {r : MidRes w} {os os' : Orders} {s' : Rebuild w}
    (hr : (finishEnd s ps cond L r).run os = .ok (s', os')) (hwf : Wf s) (hc : CanonSt s)
    (hsub : Child r.1) (hch : RdSt r.1) (hbefore : CanonCalcs r.2.1) (hafter : CanonCalcs r.2.2.1) :
    RStep s s' := by
  obtain ⟨sub, before, after, constant⟩ := r
  unfold finishEnd at hr
  dsimp only at hr
  rw [run_bind_ok] at hr
  obtain ⟨s1, os1, h1, h2⟩ := hr
  have c1 := performAll_canon h1 hwf hc hbefore
  have n1 := performAll_rstep h1 hwf
  split at h2
  · exact n1.trans (loopInsideIf_rstep h2 c1.wf c1.canon hsub.forgetParent hch.forgetParent)
  · rename_i hcond
    rw [run_bind_ok] at h2
    obtain ⟨ifS, os2, h3, h4⟩ := h2
    have c2 := loopInsideIf_canon h3 (wf_new _ _ _ _) (canonSt_new _ _ _ _) hsub.forgetParent hafter
    have p2 := loopInsideIf_rstep h3 (wf_new _ _ _ _) (canonSt_new _ _ _ _) hsub.forgetParent hch.forgetParent
    have hif : RdSt ifS := p2.rdSt (rdSt_new _ _ _ _)
    have hal : L.atLeastOnce = false := by
      cases h : L.atLeastOnce with
      | false => rfl
      | true => exact absurd (by rw [h]; rfl) hcond
    exact n1.trans (loopOrIf_rstep h4 c1.wf c2.wf hif (fun _ => by simpa [OptLoop.toAtMostOnce] using hal))

/-- **`finishLoop`**. -/
theorem finishLoop_rstep {s : Rebuild w} {ps : List (Rebuild w)} {sub : Rebuild w} {cond : Int}
    {isLoop : Bool} {os os' : Orders} {s' : Rebuild w}
    (hr : (finishLoop s ps sub cond isLoop).run os = .ok (s', os')) (hwf : Wf s) (hc : CanonSt s)
    (hsub : Child sub) (hch : RdSt sub) : RStep s s' := by
  rw [finishLoop_cut] at hr
  split at hr
  · rw [run_pure] at hr
    cases hr
    exact RStep.refl s
  · split at hr
    · rw [run_bind_ok] at hr
      obtain ⟨x, os1, h1, h2⟩ := hr
      rw [run_pure] at h1
      cases h1
      exact finishEnd_rstep h2 hwf hc hsub hch canonCalcs_nil canonCalcs_nil
    · obtain ⟨r, os1, a, nn, b, c, h2⟩ := finishMotionK_run_r hr hsub
        (fun e he => analyzeLoop_canon s ps sub cond isLoop he)
      exact finishEnd_rstep h2 hwf hc a (nn.rdSt hch) b c

/-! ### the full induction -/

/-- The statement for instruction lists. -/
def ListStmtR (l : List (Instr w)) : Prop :=
  ∀ (ps : List (Rebuild w)) (s : Rebuild w) (os os' : Orders) (s' : Rebuild w) (done : Bool),
    (rebuildInsts ps s l).run os = .ok ((s', done), os') → Wf s → CanonSt s → CanonL l → RStep s s'

theorem rebuildBlockArm_rstep {ps : List (Rebuild w)} {s : Rebuild w} {cond shift : Int}
    {body : List (Instr w)} (isLoop : Bool) (hbody : ListStmtR body) (hcb : CanonL body)
    {os os' : Orders} {s' : Rebuild w}
    (hr : ((do
      let cond := cond + s.shift
      let (s, subAnal) := popSubAnal s
      let sub : Rebuild w := reverseSubBlocks (Rebuild.new s.shift (some cond) .parent subAnal)
      let (sub, completed) ← rebuildInsts (s :: ps) sub body
      let sub := if completed then { sub with shift := sub.shift + shift } else sub
      finishLoop s ps sub cond isLoop) : M (Rebuild w)).run os = .ok (s', os'))
    (hwf : Wf s) (hc : CanonSt s) : RStep s s' := by
  have r0 := popSubAnal_cstep hwf hc
  have k0 : RStep s (popSubAnal s).1 := by
    unfold popSubAnal
    split
    · split
      · exact RStep.of_same rfl rfl rfl (fun _ h => h) rfl
      · exact RStep.refl s
    · exact RStep.refl s
  rcases hps : popSubAnal s with ⟨s1, sa⟩
  rw [hps] at hr r0 k0
  dsimp only at hr r0 k0
  rw [run_bind_ok] at hr
  obtain ⟨⟨sub, completed⟩, os1, h1, h2⟩ := hr
  dsimp only at h2
  have hch0 : Child (reverseSubBlocks (Rebuild.new s1.shift (some (cond + s.shift)) .parent sa)) :=
    (child_new _ _ _ _).reverseSubBlocks
  have hs0 : RdSt (reverseSubBlocks (Rebuild.new s1.shift (some (cond + s.shift)) .parent sa)) := by
    obtain ⟨_, _, _, f4, _, f6, f7, _, _, f10, f11⟩ :=
      reverseSubBlocks_fields (Rebuild.new s1.shift (some (cond + s.shift)) .parent sa : Rebuild w)
    exact (rdSt_new _ _ _ _).of_same f10 f11 f7 (fun v hv => by rw [f6]; exact hv) f4
  have hch : Child sub := hch0.step (rebuildInsts_cstep_all body h1 hch0.wf hch0.canon hcb)
  have hsh : RdSt sub := (hbody _ _ _ _ _ _ h1 hch0.wf hch0.canon hcb).rdSt hs0
  have hch' : Child (if completed = true then { sub with shift := sub.shift + shift } else sub) := by
    split
    · exact hch.of_fields rfl rfl rfl rfl
    · exact hch
  have hsh' : RdSt (if completed = true then { sub with shift := sub.shift + shift } else sub) := by
    split
    · exact hsh.of_same rfl rfl rfl (fun _ h => h) rfl
    · exact hsh
  exact k0.trans (finishLoop_rstep h2 r0.wf r0.canon hch' hsh')

theorem rebuildInstr_rstep_of_lists (n : Nat) (IH : ∀ l : List (Instr w), sizeL l ≤ n → ListStmtR l)
    (i : Instr w) (hi : sizeI i ≤ n + 1) {ps : List (Rebuild w)} {s : Rebuild w} {os os' : Orders}
    {s' : Rebuild w} (hr : (rebuildInstr ps s i).run os = .ok (s', os')) (hwf : Wf s) (hc : CanonSt s)
    (hci : CanonL [i]) : RStep s s' := by
  cases i with
  | output src => exact rebuildInstr_straight_rstep hwf rfl hr
  | input dst => exact rebuildInstr_straight_rstep hwf rfl hr
  | «calc» calcs => exact rebuildInstr_straight_rstep hwf rfl hr
  | loop c sh body o =>
    rw [sizeI] at hi
    rw [rebuildInstr] at hr
    exact rebuildBlockArm_rstep true (IH body (by omega)) (canonL_loop.1 hci) hr hwf hc
  | ifnz c sh body =>
    rw [sizeI] at hi
    rw [rebuildInstr] at hr
    exact rebuildBlockArm_rstep false (IH body (by omega)) (canonL_ifnz.1 hci) hr hwf hc

theorem rebuildInsts_rstep_size (n : Nat) : ∀ l : List (Instr w), sizeL l ≤ n → ListStmtR l := by
  induction n with
  | zero =>
    intro l hl ps s os os' s' done hr hwf hc _
    cases l with
    | nil =>
      rw [rebuildInsts, run_pure] at hr
      cases hr
      exact RStep.refl s
    | cons i rest =>
      rw [sizeL] at hl
      have := sizeI_pos i
      omega
  | succ n ih =>
    intro l hl
    induction l with
    | nil =>
      intro ps s os os' s' done hr hwf hc _
      rw [rebuildInsts, run_pure] at hr
      cases hr
      exact RStep.refl s
    | cons i rest ihl =>
      intro ps s os os' s' done hr hwf hc hcl
      rw [sizeL] at hl
      have hpos := sizeI_pos i
      rw [canonL_cons] at hcl
      rw [rebuildInsts] at hr
      split at hr
      · rw [run_pure] at hr
        cases hr
        exact RStep.refl s
      · rw [run_bind_ok] at hr
        obtain ⟨s1, os1, h1, h2⟩ := hr
        have hci : CanonL [i] := canonL_single.2 hcl.1
        have c1 := rebuildInstr_cstep_all i h1 hwf hc hci
        have r1 := rebuildInstr_rstep_of_lists n ih i (by omega) h1 hwf hc hci
        exact r1.trans (ihl (by omega) ps s1 os1 os' s' done h2 c1.wf c1.canon hcl.2)

/-- **All of `rebuildInsts`**. -/
theorem rebuildInsts_rstep_all {ps : List (Rebuild w)} (l : List (Instr w)) {s : Rebuild w}
    {os os' : Orders} {s' : Rebuild w} {done : Bool}
    (hr : (rebuildInsts ps s l).run os = .ok ((s', done), os')) (hwf : Wf s) (hc : CanonSt s)
    (hcl : CanonL l) : RStep s s' :=
  rebuildInsts_rstep_size (sizeL l) l (Nat.le_refl _) ps s os os' s' done hr hwf hc hcl

/-- **All of `rebuildInstr`**. -/
theorem rebuildInstr_rstep_all {ps : List (Rebuild w)} {s : Rebuild w} (i : Instr w) {os os' : Orders}
    {s' : Rebuild w} (hr : (rebuildInstr ps s i).run os = .ok (s', os')) (hwf : Wf s) (hc : CanonSt s)
    (hci : CanonL [i]) : RStep s s' :=
  rebuildInstr_rstep_of_lists (sizeI i) (fun l hl => rebuildInsts_rstep_size _ l hl) i (by omega) hr hwf hc hci

theorem rebuildBlock_rstep {ps : List (Rebuild w)} {s : Rebuild w} {b : Block w} {os os' : Orders}
    {s' : Rebuild w} (hr : (rebuildBlock ps s b).run os = .ok (s', os')) (hwf : Wf s) (hc : CanonSt s)
    (hcl : CanonL b.insts) : RStep s s' := by
  unfold rebuildBlock at hr
  rw [run_bind_ok] at hr
  obtain ⟨⟨s1, done⟩, os1, h1, h2⟩ := hr
  rw [run_pure] at h2
  cases h2
  have r0 := reverseSubBlocks_cstep hwf hc
  obtain ⟨_, _, _, f4, _, f6, f7, _, _, f10, f11⟩ := reverseSubBlocks_fields s
  have p0 : RStep s (reverseSubBlocks s) := RStep.of_same f10 f11 f7 (fun v hv => by rw [f6]; exact hv) f4
  have p1 := p0.trans (rebuildInsts_rstep_all b.insts h1 r0.wf r0.canon hcl)
  split
  · exact p1.trans (RStep.of_same rfl rfl rfl (fun _ h => h) rfl)
  · exact p1

/-! ### one optimizer round -/

/-- **The `reads` a round records bound what the loop bodies expose** (for every previous analysis, hence for
every round): for each emitted `loop c sh body once` whose node has `hasShift = false`, an iteration of `body`
started in a state with non-zero condition, and not reaching a `once` loop with a zero condition, does not read a
cell outside the node's `reads` before it has written it. -/
theorem optimizeOnce_rdOk {b : Block w} {prevAnal : OptAnalysis w} {os os' : Orders} {b' : Block w}
    {anal' : OptAnalysis w} (hr : (optimizeOnce b prevAnal).run os = .ok ((b', anal'), os'))
    (hcl : CanonL b.insts) : RdOkL b'.insts anal'.subBlocks := by
  unfold optimizeOnce at hr
  rw [run_bind_ok] at hr
  obtain ⟨st, os1, h1, h2⟩ := hr
  rw [run_pure] at h2
  cases h2
  have p := rebuildBlock_rstep h1 (wf_new _ _ _ _) (canonSt_new _ _ _ _) hcl
  exact (p.rdSt (rdSt_new _ _ _ _)).ok

/-- The clause for one loop, unfolded. -/
theorem rdOkI_loop {c sh : Int} {body : List (Instr w)} {once : Bool} {a : OptAnalysis w}
    (h : RdOkI (.loop c sh body once) a) :
    (a.hasShift = false → ∀ σ : State w, σ.rd c ≠ 0#w → ¬ Bad body σ →
      ∀ v, v ∉ a.reads → ¬ Exposes (σ.ptr + v) body σ) ∧ RdOkL body a.subBlocks := by
  obtain ⟨L, hs, reads, cl, subs⟩ := a
  rw [RdOkI] at h
  exact h

theorem rdOkI_ifnz {c sh : Int} {body : List (Instr w)} {a : OptAnalysis w}
    (h : RdOkI (.ifnz c sh body) a) : RdOkL body a.subBlocks := by
  obtain ⟨L, hs, reads, cl, subs⟩ := a
  rw [RdOkI] at h
  exact h

end OptProof
end Hpbf

#print axioms Hpbf.OptProof.optimizeOnce_rdOk
#print axioms Hpbf.OptProof.loopOrIf_rstep
#print axioms Hpbf.OptProof.inline_rstep
