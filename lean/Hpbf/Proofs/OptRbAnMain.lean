/-
Rebuild-round proofs, stage 5: the analysis a round RECORDS is sound for the code it EMITS — the induction over
`rebuildInstr` / `rebuildInsts`, producing the `AStep` of every instruction list (the `StepAll` facts and the static
invariants are taken from the simulation theorems).  Part 1: rounds that use a previous analysis.
-/
import Hpbf.Proofs.OptRbMainG
import Hpbf.Proofs.OptRbAnKit
import Hpbf.Proofs.OptRbAnFinishLoop

namespace Hpbf
namespace OptProof
open Opt OptSem Ir

variable {w : Nat}

/-- The statement for an instruction list. -/
def ListStmtAn (l : List (Instr w)) : Prop :=
  ∀ (G : State w → Prop) (ps : List (Rebuild w)) (s : Rebuild w) (os os' : Orders) (s' : Rebuild w)
    (done : Bool),
    (rebuildInsts ps s l).run os = .ok ((s', done), os') → InvA s → CanonL l → s.noReturn = false →
    ShapeL l (subsOf s) → AnalInL G l (subsOf s) → StableAsk s l → PVClean s ps →
    ∃ new, s'.insts = s.insts ++ new ∧ AStep (ValidG G s.shift s ps) s s' new

/-- A block-free instruction. -/
theorem astep_straight {V : State w → Prop} {ps : List (Rebuild w)} {s : Rebuild w} (hwf : Wf s)
    {i : Instr w} (hi : C01Dse.isBlock i = false) {os os' : Orders} {s' : Rebuild w}
    (hr : (rebuildInstr ps s i).run os = .ok (s', os')) :
    ∃ new, s'.insts = s.insts ++ new ∧ AStep V s s' new := by
  have n := rebuildInstr_nstep hr hwf hi
  obtain ⟨new, e, g⟩ := n.insts
  exact ⟨new, e, AStep.of_noBlocks g n.subAnal⟩

/-! ### the `Loop` / `If` arm -/

theorem blockArm_an_g (hw : 0 < w) {G : State w → Prop} {ps : List (Rebuild w)} {s : Rebuild w}
    {c shS : Int} {body : List (Instr w)} {isLoop oS : Bool} (IH : ListStmtAn body) {os os' : Orders}
    {s' : Rebuild w}
    (hr : (do
      let cond := c + s.shift
      let (s, subAnal) := popSubAnal s
      let sub : Rebuild w := reverseSubBlocks (Rebuild.new s.shift (some cond) .parent subAnal)
      let (sub, completed) ← rebuildInsts (s :: ps) sub body
      let sub := if completed then { sub with shift := sub.shift + shS } else sub
      finishLoop s ps sub cond isLoop : M (Rebuild w)).run os = .ok (s', os'))
    (hinv : InvA s) (hcb : CanonL body) {A : OptAnalysis w} {subs' : List (OptAnalysis w)}
    (hsubs : subsOf s = A :: subs') (hshape : ShapeI (blockInstr isLoop c shS body oS) A)
    (hB : BlockIn G isLoop c shS body A) (hAn : AnalInL (HeadG G isLoop c shS body) body A.subBlocks)
    (hst : StableAsk s [blockInstr isLoop c shS body oS]) :
    ∃ new, s'.insts = s.insts ++ new ∧ AStep (ValidG G s.shift s ps) s s' new := by
  -- the state after the pop
  obtain ⟨hpop2, hpop1⟩ := popSubAnal_cons hsubs
  obtain ⟨p1, p2, p3, p4, p5, p6, p7, p8, p9, p10, p11⟩ := popSubAnal_same s
  have hinv1 : InvA (popSubAnal s).1 := ⟨popSubAnal_wf.2 hinv.wf, popSubAnal_canonSt.2 hinv.canon,
    popSubAnal_knownVars.2 hinv.known, popSubAnal_sasc.2 hinv.reads⟩
  have hst1 : StableAsk (popSubAnal s).1 [blockInstr isLoop c shS body oS] :=
    stableAsk_of_core hst (acore_popSubAnal s)
  have hrelpop : ∀ (sh : Int) (M0 : Mem w) (σE σS : State w),
      RelAt sh (popSubAnal s).1 ps M0 σE σS ↔ RelAt sh s ps M0 σE σS := fun _ _ _ _ => relAt_pop
  rcases hps : popSubAnal s with ⟨s1, sa⟩
  rw [hps] at hr hpop2 hpop1 p1 p2 p3 p4 p5 p6 p7 p8 p9 p10 p11 hinv1 hst1 hrelpop
  dsimp only at hr hpop2 hpop1 p1 p2 p3 p4 p5 p6 p7 p8 p9 p10 p11 hinv1 hst1 hrelpop
  subst hpop2
  rw [← p2] at hr
  rw [run_bind_ok] at hr
  obtain ⟨⟨subR, completed⟩, os1, h1, h2⟩ := hr
  dsimp only at h2
  have hp := blockParts_blockInstr isLoop c shS body oS
  -- the child
  have hinv0 := invA_fresh (w := w) s1.shift (c + s1.shift) A
  have hfresh : (reverseSubBlocks (Rebuild.new s1.shift (some (c + s1.shift)) .parent (some A)) : Rebuild w) =
      freshChildA s1.shift (c + s1.shift) A := rfl
  obtain ⟨hpvR, hpvSub, hstC⟩ := child_pv hshape hp s1.shift (c + s1.shift) (s1 :: ps) h1 hcb
  rw [hfresh] at h1 hstC
  have hsub0 : subsOf (freshChildA s1.shift (c + s1.shift) A : Rebuild w) = A.subBlocks :=
    subsOf_child _ _ _ _
  have hnr0 : (freshChildA s1.shift (c + s1.shift) A : Rebuild w).noReturn = false := rfl
  have hAnC : AnalInL (HeadV G s1 ps isLoop c shS body) body A.subBlocks :=
    analInL_cover body A.subBlocks _ (fun σ hσ => ⟨_, hσ.headG, hAn⟩)
  obtain ⟨hcondR, shE, newC, hallR, hoffR⟩ :=
    rebuildInsts_all_g hw body (HeadV G s1 ps isLoop c shS body) (s1 :: ps) _ os os1 subR completed h1 hinv0
      hcb hnr0 (by rw [hsub0]; exact shapeI_blockInstr hshape) (by rw [hsub0]; exact hAnC) hstC
      (pvClean_child _ _ _ _ _)
  obtain ⟨newA, hiA, hAC⟩ :=
    IH (HeadV G s1 ps isLoop c shS body) (s1 :: ps) _ os os1 subR completed h1 hinv0
      hcb hnr0 (by rw [hsub0]; exact shapeI_blockInstr hshape) (by rw [hsub0]; exact hAnC) hstC
      (pvClean_child _ _ _ _ _)
  -- the static invariants of the child
  have hcstep := rebuildInsts_cstep_all body h1 hinv0.wf hinv0.canon hcb
  have hkvR : KnownVars subR := (rebuildInsts_wk_all body h1 hinv0.wf hinv0.canon hcb).known hinv0.known
  have hrdR : OptLoop.SAsc subR.reads := rebuildInsts_sasc_all body h1 hinv0.wf hinv0.canon hcb hinv0.reads
  have hcoreR : acore subR = some (A.loopAnal.atMostOnce, A.hasShift, A.clobbered) := by
    rw [rebuildInsts_acore (ps := s1 :: ps) body h1 hinv0.wf hinv0.canon hcb]
    exact acore_child _ _ _ _
  have hflag := (stableAsk_child_of_shapeI hshape s1.shift (some (c + s1.shift)) .parent hp).2
  have haskR : AskStable subR (subR.shift + shS) := by
    rcases hflag with h | h | h
    · exact askStable_of_shiftIndep (by unfold ShiftIndep; rw [hcoreR]; exact Or.inl h) _
    · exact askStable_of_shiftIndep (by unfold ShiftIndep; rw [hcoreR]; exact Or.inr h) _
    · exact AskStable.of_eq (by rw [h]; omega)
  -- the child as `finishLoop` sees it
  have hsubEq : (if completed = true then { subR with shift := subR.shift + shS } else subR) = subR ∨
      ∃ x, (if completed = true then { subR with shift := subR.shift + shS } else subR) =
        { subR with shift := x } ∧ AskStable subR x := by
    split
    · exact Or.inr ⟨_, rfl, haskR⟩
    · exact Or.inl rfl
  have hshC : ∃ shC : Int, shC = (if completed = true then { subR with shift := subR.shift + shS } else subR).shift
      - shS := ⟨_, rfl⟩
  obtain ⟨shC, hshC'⟩ := hshC
  have hall : StepAll (HeadV G s1 ps isLoop c shS body) s1.shift shC (s1 :: ps)
      (freshChildA s1.shift (c + s1.shift) A)
      (if completed = true then { subR with shift := subR.shift + shS } else subR) body newC := by
    refine hallR.retarget_g hsubEq ?_
    intro hnr
    obtain ⟨e1, e2⟩ := hoffR hnr
    rw [hshC', e2, e1]
    show subR.shift + shS - shS = subR.shift
    omega
  have hinstsC : (if completed = true then { subR with shift := subR.shift + shS } else subR).insts = newC := by
    rw [hall.insts]; rfl
  rw [← hinstsC] at hall
  have hfieldsR : ∀ (P : Rebuild w → Prop), P subR → (∀ x, P { subR with shift := x }) →
      P (if completed = true then { subR with shift := subR.shift + shS } else subR) := by
    intro P h1' h2'
    split
    · exact h2' _
    · exact h1'
  -- `ShapeSt` / `Child` of the rebuilt child
  have hch0 : Child (freshChildA s1.shift (c + s1.shift) A : Rebuild w) := (child_new _ _ _ _).reverseSubBlocks
  have hss0 : ShapeSt (freshChildA s1.shift (c + s1.shift) A : Rebuild w) := by
    obtain ⟨_, _, _, f4, _, _, _, _, _, f10, f11⟩ := reverseSubBlocks_fields (Rebuild.new s.shift (some (c + s.shift)) .parent none : Rebuild w)
    exact (shapeSt_new _ _ _ _).of_same f10 f11 f4
  have hchR : Child subR := hch0.step hcstep
  have hssR : ShapeSt subR := rebuildInsts_shapeSt body h1 hinv0.wf hinv0.canon hcb hss0
  have hchild := hfieldsR Child hchR (fun _ => hchR.of_fields rfl rfl rfl rfl)
  have hshs := hfieldsR ShapeSt hssR (fun _ => hssR.of_same rfl rfl rfl)
  -- the read footprint of the child
  obtain ⟨newF, hiF, hfF, _⟩ := rebuildInsts_footNB h1 hinv0.wf hinv0.canon hcb
  have hiF' : subR.insts = newF := by rw [hiF]; rfl
  have hfoot : FootStepV (fun σ => ¬ Bad
        (if completed = true then { subR with shift := subR.shift + shS } else subR).insts σ)
      (freshChildA s1.shift (c + s1.shift) A)
      (if completed = true then { subR with shift := subR.shift + shS } else subR)
      (if completed = true then { subR with shift := subR.shift + shS } else subR).insts := by
    refine hfieldsR (fun r => FootStepV (fun σ => ¬ Bad r.insts σ) (freshChildA s1.shift (c + s1.shift) A) r
      r.insts) ?_ ?_
    · rw [hiF']; exact hfF
    · intro x
      show FootStepV (fun σ => ¬ Bad subR.insts σ) _ _ subR.insts
      rw [hiF']
      exact hfF.congr_right rfl rfl rfl
  -- the recorded nodes of the child
  have hiA' : subR.insts = newA := by rw [hiA]; rfl
  have hcA : AStep (ValidG (HeadV G s1 ps isLoop c shS body) s1.shift (freshChildA s1.shift (c + s1.shift) A)
        (s1 :: ps)) (freshChildA s1.shift (c + s1.shift) A)
      (if completed = true then { subR with shift := subR.shift + shS } else subR)
      (if completed = true then { subR with shift := subR.shift + shS } else subR).insts := by
    refine hfieldsR (fun r => AStep (ValidG (HeadV G s1 ps isLoop c shS body) s1.shift
      (freshChildA s1.shift (c + s1.shift) A) (s1 :: ps)) (freshChildA s1.shift (c + s1.shift) A) r r.insts) ?_ ?_
    · rw [hiA']; exact hAC
    · intro x
      show AStep _ _ _ subR.insts
      rw [hiA']
      exact AStep.congr_right (s' := subR) rfl rfl rfl hAC
  -- what the parent may ask when the child's shift is installed
  have hsf : (if completed = true then { subR with shift := subR.shift + shS } else subR).subShift = false →
      AskStable s1 (if completed = true then { subR with shift := subR.shift + shS } else subR).shift := by
    intro _
    obtain ⟨a1, a2⟩ := askStable_block (s := s1) (s1 := s1) (ps := ps) hst1 hp h1 rfl hinv0.wf hinv0.canon hcb
    split
    · exact a2
    · exact a1
  obtain ⟨new, hi, hA⟩ :=
    finishLoop_an (G := G) (Gc := HeadV G s1 ps isLoop c shS body) (cS := c) (shP := s1.shift) (shC := shC)
      (shS := shS) (bodyS := body) hw h2 hinv1.wf hinv1.canon hsf rfl
      (by rw [hshC']; omega) hall rfl rfl rfl
      (fun σE σS hm _ hgc => entry_headV hinv1.canon hB hm hgc)
      (fun M0 σE σS hrel hG k σk hh hk0 hne => ⟨hne, M0, σE, σS, hrel, hG, by
        cases isLoop with
        | true => exact ⟨k, hh⟩
        | false =>
          have := hk0 rfl
          subst this
          exact head_zero_inv hh⟩)
      (hfieldsR CanonSt hcstep.canon (fun _ => hcstep.canon))
      (hfieldsR KnownVars hkvR (fun _ => hkvR))
      (hfieldsR (fun r => OptLoop.SAsc r.reads) hrdR (fun _ => hrdR))
      hfoot hpvSub
      (hfieldsR (fun r => r.cond = some (c + s1.shift)) (hcondR.trans rfl) (fun _ => hcondR.trans rfl))
      rfl hshs hchild hcA
  -- back from the popped state to `s`
  have hV : ValidG G s1.shift s1 ps = ValidG G s.shift s ps := by
    funext σ
    apply propext
    unfold ValidG
    constructor
    · rintro ⟨M0, σS, hr', hg⟩
      exact ⟨M0, σS, by rw [← p2]; exact (hrelpop _ _ _ _).1 hr', hg⟩
    · rintro ⟨M0, σS, hr', hg⟩
      exact ⟨M0, σS, (hrelpop _ _ _ _).2 (by rw [p2]; exact hr'), hg⟩
  refine ⟨new, by rw [hi, p10], ?_⟩
  rw [← hV]
  exact AStep.congr_left p11.symm p7.symm hA

/-! ### the induction -/

/-- One instruction, given the statement for the lists inside it. -/
theorem rebuildInstr_an_of_lists_g (hw : 0 < w) (n : Nat)
    (IH : ∀ l : List (Instr w), sizeL l ≤ n → ListStmtAn l) (i : Instr w) (hi : sizeI i ≤ n + 1)
    {G : State w → Prop} {ps : List (Rebuild w)} {s : Rebuild w} {os os' : Orders} {s' : Rebuild w}
    (hr : (rebuildInstr ps s i).run os = .ok (s', os')) (hinv : InvA s) (hci : CanonL [i])
    {rest : List (Instr w)} (hsh : ShapeL (i :: rest) (subsOf s)) (han : AnalInL G (i :: rest) (subsOf s))
    (hst : StableAsk s [i]) : ∃ new, s'.insts = s.insts ++ new ∧ AStep (ValidG G s.shift s ps) s s' new := by
  cases i with
  | output src => exact astep_straight hinv.wf (i := .output src) rfl hr
  | input dst => exact astep_straight hinv.wf (i := .input dst) rfl hr
  | «calc» calcs => exact astep_straight hinv.wf (i := .calc calcs) rfl hr
  | loop c sh body o =>
    have hsz : sizeL body ≤ n := by rw [sizeI] at hi; omega
    have hcb : CanonL body := canonL_loop.1 hci
    rw [shapeL_cons_block rfl] at hsh
    obtain ⟨A, subs', hsubs, hshape, _⟩ := hsh
    rw [hsubs, analInL_cons_block G rfl, analInI_loop] at han
    rw [rebuildInstr] at hr
    have hbi : blockInstr true c sh body o = Instr.loop c sh body o := by simp [blockInstr]
    exact blockArm_an_g (G := G) (isLoop := true) (oS := o) hw (IH body hsz) hr hinv hcb hsubs
      (by rw [hbi]; exact hshape) han.1.1 han.1.2 (by rw [hbi]; exact hst)
  | ifnz c sh body =>
    have hsz : sizeL body ≤ n := by rw [sizeI] at hi; omega
    have hcb : CanonL body := canonL_ifnz.1 hci
    rw [shapeL_cons_block rfl] at hsh
    obtain ⟨A, subs', hsubs, hshape, _⟩ := hsh
    rw [hsubs, analInL_cons_block G rfl, analInI_ifnz] at han
    rw [rebuildInstr] at hr
    have hbi : blockInstr false c sh body false = Instr.ifnz c sh body := by simp [blockInstr]
    exact blockArm_an_g (G := G) (isLoop := false) (oS := false) hw (IH body hsz) hr hinv hcb hsubs
      (by rw [hbi]; exact hshape) han.1.1 han.1.2 (by rw [hbi]; exact hst)

theorem rebuildInsts_an_size_g (hw : 0 < w) (n : Nat) : ∀ l : List (Instr w), sizeL l ≤ n → ListStmtAn l := by
  induction n with
  | zero =>
    intro l hl
    cases l with
    | nil =>
      intro G ps s os os' s' done hr hinv _ _ _ _ _ _
      rw [rebuildInsts, run_pure] at hr
      cases hr
      exact ⟨[], by simp, AStep.refl _ _⟩
    | cons i rest =>
      rw [sizeL] at hl
      have := sizeI_pos i
      omega
  | succ n ih =>
    intro l
    induction l with
    | nil =>
      intro _ G ps s os os' s' done hr hinv _ _ _ _ _ _
      rw [rebuildInsts, run_pure] at hr
      cases hr
      exact ⟨[], by simp, AStep.refl _ _⟩
    | cons i rest ihl =>
      intro hl G ps s os os' s' done hr hinv hcl hnr hsh han hst hpv
      rw [sizeL] at hl
      have hpos := sizeI_pos i
      rw [canonL_cons] at hcl
      have hci : CanonL [i] := canonL_single.2 hcl.1
      rw [rebuildInsts, hnr] at hr
      simp only [Bool.false_eq_true, if_false] at hr
      rw [run_bind_ok] at hr
      obtain ⟨s1, os1, h1, h2⟩ := hr
      obtain ⟨hst1, hstI⟩ := stableAsk_head hst
      -- the simulation facts of the instruction
      obtain ⟨hc1, hsubs1, shE1, new1, hstep1, hoff1⟩ :=
        rebuildInstr_of_lists_g hw (sizeI i) (fun l _ => rebuildInsts_all_g hw l) i (by omega) (G := G) h1 hinv
          hci hsh han hst1
      obtain ⟨new1', hi1', hA1⟩ :=
        rebuildInstr_an_of_lists_g hw n ih i (by omega) (G := G) h1 hinv hci hsh han hst1
      have hn1 : new1' = new1 := List.append_cancel_left (hi1'.symm.trans hstep1.insts)
      subst hn1
      have hinv1 : InvA s1 := hinv.instr i h1 hci
      cases hnr1 : s1.noReturn with
      | true =>
        have hs' : s' = s1 := by
          cases rest with
          | nil =>
            rw [rebuildInsts, run_pure] at h2
            cases h2; rfl
          | cons j rest' =>
            rw [rebuildInsts, hnr1] at h2
            simp only [if_true] at h2
            rw [run_pure] at h2
            cases h2; rfl
        subst hs'
        exact ⟨new1', hi1', hA1⟩
      | false =>
        obtain ⟨e1⟩ := hoff1 hnr1
        have hb := rebuildInstr_b_all (ps := ps) i h1 hinv.wf hinv.canon hci
        have hpv1 : PVClean s1 ps := hb.pv hstI hpv
        have hstR : StableAsk s1 rest := stableAsk_tail hst hb.core
        have hshR : ShapeL rest (subsOf s1) ∧ AnalInL (AfterG G [i]) rest (subsOf s1) := by
          rw [hsubs1]
          cases hbl : C01Dse.isBlock i with
          | false =>
            simp only [Bool.false_eq_true, if_false]
            exact ⟨(shapeL_cons_nonblock hbl).1 hsh, (analInL_cons_nonblock G hbl rest _).1 han⟩
          | true =>
            simp only [if_true]
            rw [shapeL_cons_block hbl] at hsh
            obtain ⟨A, subs', hsubs, _, hrest⟩ := hsh
            rw [hsubs, analInL_cons_block G hbl] at han
            rw [hsubs]
            exact ⟨hrest, han.2⟩
        obtain ⟨new2, hi2, hA2⟩ :=
          ihl (by omega) (AfterG G [i]) ps s1 os1 os' s' done h2 hinv1 hcl.2 hnr1 hshR.1 hshR.2 hstR hpv1
        obtain ⟨_, _, _, _, hm2, _⟩ := rebuildInsts_footNB h2 hinv1.wf hinv1.canon hcl.2
        refine ⟨new1' ++ new2, by rw [hi2, hi1', List.append_assoc], ?_⟩
        refine AStep.trans hA1 hA2 hstep1.foot ?_ hm2
        intro σ σ' hv he
        exact hstep1.step.valid (fun _ _ σS σS' _ hG hex => ⟨σS, hG, hex⟩) hv he

/-- **The nodes a round records are sound for the code it emits** (rounds that use a previous analysis). -/
theorem rebuildInsts_an_all_g (hw : 0 < w) (l : List (Instr w)) : ListStmtAn l :=
  rebuildInsts_an_size_g hw (sizeL l) l (Nat.le_refl _)

end OptProof
end Hpbf
