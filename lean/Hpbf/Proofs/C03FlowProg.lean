/-
C03 (control flow), stage 2: composition. The hypotheses on the program (`Good`), re-synchronising the shadow
bytecode configuration after an instruction that clobbered dead register temporaries (`patch_rel`), the
one-step simulation for every instruction kind (`sim_next`) and the whole-run theorems.
-/
import Hpbf.Proofs.C03FlowEntry
import Hpbf.Proofs.C03FlowMovChecked
import Hpbf.Proofs.C11
namespace Hpbf
namespace C03
open Asm JitGen X86Sem X86Prog
variable {w : Nat}

/-! ### Re-synchronising the shadow configuration -/

theorem tget_append_map (f : Nat → BitVec w) (l : List Nat) (T : Bc.Temps w) (t : Nat) :
    Bc.tget (l.map (fun t => (t, f t)) ++ T) t = if t ∈ l then f t else Bc.tget T t := by
  induction l with
  | nil => simp
  | cons a l ih =>
    simp only [List.map_cons, List.cons_append, Bc.tget, List.mem_cons]
    by_cases h : a = t
    · subst h; simp
    · have h' : ¬ t = a := fun e => h e.symm
      simp only [h, if_false, ih, h', false_or]

/-- From agreement on the register temporaries in `S` to full agreement with a configuration that differs
from `c` only in register temporaries outside `S` – which is harmless when every live one is in `S`. -/
theorem patch_rel {S A : Nat → Prop} {c : Bc.Cfg w} {m : MState w} (h : RelOn S c m)
    (hAS : ∀ t, t < 11 → A t → S t) :
    ∃ c2 : Bc.Cfg w, Rel c2 m ∧ C11.Sim A c c2 ∧ c2.pc = c.pc ∧ c2.st = c.st ∧ c2.budget = c.budget := by
  refine ⟨{ c with temps := (List.range 11).map (fun t => (t, lo (tmpVal m t))) ++ c.temps }, ?_, ?_, rfl, rfl, rfl⟩
  · refine ⟨fun t r htr => ?_, fun t ht => ?_, h.2.2⟩
    · obtain ⟨hlt, rfl⟩ := tmpReg_eq_some.1 htr
      show _ = Bc.tget (_ ++ c.temps) t
      rw [tget_append_map, if_pos (List.mem_range.2 hlt), regs_treg m hlt]
    · show _ = Bc.tget (_ ++ c.temps) t
      rw [tget_append_map, if_neg (by simp; omega)]
      exact h.2.1 t ht
  · refine ⟨rfl, rfl, rfl, fun t hA => ?_⟩
    show _ = Bc.tget (_ ++ c.temps) t
    rw [tget_append_map]
    split
    · rename_i hm
      have hlt : t < 11 := List.mem_range.1 hm
      rw [← h.1 t _ (tmpReg_lt hlt) (hAS t hlt hA), regs_treg m hlt]
    · rfl

theorem Inv.congr {K : Ctx w} {fr : Frame} {c c2 : Bc.Cfg w} {s : PState w} (h : Inv K fr c s)
    (hpc : c2.pc = c.pc) (hst : c2.st = c.st) (hb : c2.budget = c.budget) : Inv K fr c2 s :=
  ⟨by rw [hpc]; exact h.pc, h.rbx, by rw [hst]; exact h.env, by rw [hst]; exact h.trace,
   by rw [hb]; exact h.budget, h.tapeOk, h.rsp, h.align, h.len, h.saved, h.phys⟩

theorem Sim.trans' {A : Nat → Prop} {a b c : Bc.Cfg w} (h1 : C11.Sim A a b) (h2 : C11.Sim A b c) :
    C11.Sim A a c :=
  ⟨h1.pc.trans h2.pc, h1.st.trans h2.st, h1.budget.trans h2.budget,
   fun t ht => (h1.temps t ht).trans (h2.temps t ht)⟩


/-! ### Hypotheses on the program -/

/-- What the whole-program theorems assume about the bytecode program besides successful compilation. -/
structure Good (K : Ctx w) : Prop where
  /-- the contract of C11, for the eleven register temporaries of the JIT -/
  check : BcWf.check K.p 11 = true
  /-- the access window is addressable with `i32` cell offsets (`idx as i32` in `mem_param`; the lower bound
  is strict because the bounds-checked `mov` also uses `-probe as i32`) -/
  win : -2147483648 < K.p.minAcc ∧ K.p.maxAcc < 2147483648
  /-- the frame size is an `i32` (`(temps * 8) as i32` in the prologue) -/
  temps : alignedTemps K.p.temps * 8 < 2147483648
  /-- pointer moves are `i32`s (`shift as i32`) -/
  shift : ∀ (i : Nat) (sh : Int), K.p.insts[i]? = some (Bc.Instr.mov sh) → -2147483648 ≤ sh ∧ sh < 2147483648

theorem Ctx.w_range (K : Ctx w) : 8 ≤ w ∧ w ≤ 64 := by
  have := K.C.hsz
  unfold Size.ofBits? at this
  split at this <;> first | omega | cases this

theorem Good.L {K : Ctx w} (G : Good K) : C11.LocalFacts K.p := by
  have h := G.check
  simp only [BcWf.check, Bool.and_eq_true] at h
  exact C11.localOk_facts h.1.1

theorem Good.V {K : Ctx w} (G : Good K) : C11.LiveFacts K.p 11 (BcWf.liveSolve K.p) := by
  have h := G.check
  simp only [BcWf.check, Bool.and_eq_true] at h
  exact C11.liveOk_facts h.2

theorem Good.memOk {K : Ctx w} (G : Good K) {i : Nat} {ins : Bc.Instr w} (hi : K.p.insts[i]? = some ins)
    {o : Int} (ho : o ∈ BcWf.memOps ins) : -2147483648 ≤ o ∧ o < 2147483648 := by
  have := G.L.window hi o ho
  have := G.win
  omega

theorem alignedTemps_ge (t : Nat) : t ≤ alignedTemps t := by unfold alignedTemps; split <;> omega

theorem Good.tmpOk {K : Ctx w} (G : Good K) {i : Nat} {ins : Bc.Instr w} (hi : K.p.insts[i]? = some ins)
    {t : Nat} (ht : t ∈ BcWf.uses ins ++ BcWf.defs ins) : t < alignedTemps K.p.temps ∧ t < 2147483648 := by
  have := G.L.temps hi t ht
  have := alignedTemps_ge K.p.temps
  have := G.temps
  omega

theorem Good.locOk {K : Ctx w} (G : Good K) {i : Nat} {ins : Bc.Instr w} (hi : K.p.insts[i]? = some ins)
    (l : Bc.Loc w) (hm : ∀ o ∈ BcWf.locMem l, o ∈ BcWf.memOps ins)
    (ht : ∀ t ∈ BcWf.locTmp l, t ∈ BcWf.uses ins ++ BcWf.defs ins) : LocOk l := by
  cases l with
  | mem o => exact G.memOk hi (hm o (by simp [BcWf.locMem]))
  | memZero o => trivial
  | tmp t => exact (G.tmpOk hi (ht t (by simp [BcWf.locTmp]))).2
  | imm v => trivial

/-- The arithmetic / copy instructions. -/
def IsArith : Bc.Instr w → Prop
  | .copy .. | .add .. | .sub .. | .mul .. => True
  | _ => False

theorem Good.arithOk {K : Ctx w} (G : Good K) {i : Nat} {ins : Bc.Instr w} (hi : K.p.insts[i]? = some ins)
    (ha : IsArith ins) :
    ArithOk ins ∧ ∀ t ∈ insTmps ins, t < alignedTemps K.p.temps := by
  have key : ∀ l : Bc.Loc w, (∀ o ∈ BcWf.locMem l, o ∈ BcWf.memOps ins) →
      (∀ t ∈ BcWf.locTmp l, t ∈ BcWf.uses ins ++ BcWf.defs ins) →
      LocOk l ∧ ∀ t ∈ locTmps l, t < alignedTemps K.p.temps := by
    intro l h1 h2
    refine ⟨G.locOk hi l h1 h2, fun t ht => ?_⟩
    cases l <;> simp only [locTmps, List.mem_singleton, List.not_mem_nil] at ht
    subst ht
    exact (G.tmpOk hi (h2 _ (by simp [BcWf.locTmp]))).1
  cases ins <;> simp only [IsArith] at ha
  case add d a b =>
    obtain ⟨h1, t1⟩ := key d (by intro x hx; simp [BcWf.memOps, hx]) (by intro x hx; simp [BcWf.uses, BcWf.defs, hx])
    obtain ⟨h2, t2⟩ := key a (by intro x hx; simp [BcWf.memOps, hx]) (by intro x hx; simp [BcWf.uses, BcWf.defs, hx])
    obtain ⟨h3, t3⟩ := key b (by intro x hx; simp [BcWf.memOps, hx]) (by intro x hx; simp [BcWf.uses, BcWf.defs, hx])
    refine ⟨⟨h1, h2, h3⟩, fun t ht => ?_⟩
    simp only [insTmps, List.mem_append] at ht
    rcases ht with (ht | ht) | ht
    · exact t1 t ht
    · exact t2 t ht
    · exact t3 t ht
  case sub d a b =>
    obtain ⟨h1, t1⟩ := key d (by intro x hx; simp [BcWf.memOps, hx]) (by intro x hx; simp [BcWf.uses, BcWf.defs, hx])
    obtain ⟨h2, t2⟩ := key a (by intro x hx; simp [BcWf.memOps, hx]) (by intro x hx; simp [BcWf.uses, BcWf.defs, hx])
    obtain ⟨h3, t3⟩ := key b (by intro x hx; simp [BcWf.memOps, hx]) (by intro x hx; simp [BcWf.uses, BcWf.defs, hx])
    refine ⟨⟨h1, h2, h3⟩, fun t ht => ?_⟩
    simp only [insTmps, List.mem_append] at ht
    rcases ht with (ht | ht) | ht
    · exact t1 t ht
    · exact t2 t ht
    · exact t3 t ht
  case mul d a b =>
    obtain ⟨h1, t1⟩ := key d (by intro x hx; simp [BcWf.memOps, hx]) (by intro x hx; simp [BcWf.uses, BcWf.defs, hx])
    obtain ⟨h2, t2⟩ := key a (by intro x hx; simp [BcWf.memOps, hx]) (by intro x hx; simp [BcWf.uses, BcWf.defs, hx])
    obtain ⟨h3, t3⟩ := key b (by intro x hx; simp [BcWf.memOps, hx]) (by intro x hx; simp [BcWf.uses, BcWf.defs, hx])
    refine ⟨⟨h1, h2, h3⟩, fun t ht => ?_⟩
    simp only [insTmps, List.mem_append] at ht
    rcases ht with (ht | ht) | ht
    · exact t1 t ht
    · exact t2 t ht
    · exact t3 t ht
  case copy d a =>
    obtain ⟨h1, t1⟩ := key d (by intro x hx; simp [BcWf.memOps, hx]) (by intro x hx; simp [BcWf.uses, BcWf.defs, hx])
    obtain ⟨h2, t2⟩ := key a (by intro x hx; simp [BcWf.memOps, hx]) (by intro x hx; simp [BcWf.uses, BcWf.defs, hx])
    refine ⟨⟨h1, h2⟩, fun t ht => ?_⟩
    simp only [insTmps, List.mem_append] at ht
    rcases ht with ht | ht
    · exact t1 t ht
    · exact t2 t ht

abbrev Ctx.O (K : Ctx w) : Array (List Nat) := BcWf.liveSolve K.p

/-- One bytecode step that continues, from a fully related state: the machine reaches a state that is fully
related to a configuration `c2` which differs from the bytecode result `c'` only in dead register
temporaries. -/
theorem sim_next (K : Ctx w) (G : Good K) {fr : Frame} (h7 : fr.saved.length = 7) {c : Bc.Cfg w} {s : PState w}
    (hbnd : K.safe = true → Bnd s) (hinv : Inv K fr c s) (hrel : Rel c (view s)) {c' : Bc.Cfg w}
    (hstep : Bc.step K.p K.limited c = .next c') :
    ∃ n s' c2, steps K.cfg n s = some s' ∧ Inv K fr c2 s' ∧ Rel c2 (view s') ∧
      C11.Sim (C11.liveSet K.p K.O c'.pc) c' c2 := by
  have hw := K.w_range
  -- a result with full agreement needs no patching
  have full : (∃ n s', steps K.cfg n s = some s' ∧ Inv K fr c' s' ∧ Rel c' (view s')) →
      ∃ n s' c2, steps K.cfg n s = some s' ∧ Inv K fr c2 s' ∧ Rel c2 (view s') ∧
        C11.Sim (C11.liveSet K.p K.O c'.pc) c' c2 := by
    rintro ⟨n, s', h1, h2, h3⟩
    exact ⟨n, s', c', h1, h2, h3, ⟨rfl, rfl, rfl, fun _ _ => rfl⟩⟩
  -- a result with agreement on `S` is patched using the liveness contract
  have part : ∀ (ins : Bc.Instr w) (lv : Nat) (S : Nat → Prop), K.p.insts[c.pc]? = some ins →
      K.p.live[c.pc]? = some lv → BcWf.isBranch ins = false →
      (∀ t, t < 11 → (t ∈ BcWf.defs ins ∨ lv.testBit t = true) → S t) →
      (∃ n s', steps K.cfg n s = some s' ∧ Inv K fr c' s' ∧ RelOn S c' (view s')) →
      ∃ n s' c2, steps K.cfg n s = some s' ∧ Inv K fr c2 s' ∧ Rel c2 (view s') ∧
        C11.Sim (C11.liveSet K.p K.O c'.pc) c' c2 := by
    rintro ins lv S hi hlv hb hS ⟨n, s', h1, h2, h3⟩
    obtain ⟨c2, r1, r2, r3, r4, r5⟩ := patch_rel (A := C11.liveSet K.p K.O c'.pc) h3 (by
      intro t hlt hA
      apply hS t hlt
      by_cases hd : t ∈ BcWf.defs ins
      · exact Or.inl hd
      · right
        by_cases hbit : ((K.p.live[c.pc]?).getD 0).testBit t = true
        · simpa [hlv] using hbit
        · exact absurd hA (C11.not_live_after G.V hi hb hlt (by omega) hd (by simpa using hbit) hstep))
    exact ⟨n, s', c2, h1, h2.congr r3 r4 r5, r1, r2⟩
  cases hi : K.p.insts[c.pc]? with
  | none =>
    unfold Bc.step at hstep
    simp only [hi] at hstep
    split at hstep <;> cases hstep
  | some ins =>
    cases ins with
    | noop => exact full (flow_noop K hi hinv hrel hstep)
    | scan cond sh =>
      obtain ⟨lv, its, xs, hI⟩ := K.instrAt hi
      have := (emitInstr_raw hI.emit).1
      simp [emitInstrRaw] at this
    | mov sh =>
      cases hsafe : K.safe with
      | false => exact full (flow_mov_unchecked K hsafe hi (G.shift _ _ hi) hinv hrel hstep)
      | true =>
        have hz := G.L.min0
        have hz' := G.L.max0
        obtain ⟨lv, n, s', h1, h2, h3, h4⟩ := flow_mov_checked K hsafe hi (G.shift _ _ hi)
          ⟨G.win.1, by have := G.win.2; omega, by have := G.win.1; omega, G.win.2⟩ (hbnd hsafe) hinv hrel hstep
        exact part _ lv _ hi h1 rfl (by intro t _ h; simpa [BcWf.defs] using h) ⟨n, s', h2, h3, h4⟩
    | inp dst =>
      obtain ⟨lv, n, s', h1, h2, h3, h4⟩ := (flow_inp K G.temps (fr := fr) h7 hi
        (G.memOk hi (by simp [BcWf.memOps])) hw.1 hinv hrel).1 c' hstep
      exact part _ lv _ hi h1 rfl (by intro t _ h; simpa [BcWf.defs] using h) ⟨n, s', h2, h3, h4⟩
    | out src =>
      obtain ⟨lv, n, s', h1, h2, h3, h4⟩ := (flow_out K G.temps (fr := fr) h7 hi
        (G.memOk hi (by simp [BcWf.memOps])) hinv hrel).1 c' hstep
      exact part _ lv _ hi h1 rfl (by intro t _ h; simpa [BcWf.defs] using h) ⟨n, s', h2, h3, h4⟩
    | brz cond off =>
      exact full (flow_branch_next K hi (Or.inl ⟨rfl, rfl⟩) (G.memOk hi (by simp [BcWf.memOps])) hinv hrel hstep)
    | brnz cond off =>
      exact full (flow_branch_next K hi (Or.inr ⟨rfl, rfl⟩) (G.memOk hi (by simp [BcWf.memOps])) hinv hrel hstep)
    | add d a b =>
      obtain ⟨hok, htm⟩ := G.arithOk hi trivial
      obtain ⟨lv, n, s', h1, h2, h3, h4⟩ := flow_arith K hi hok htm hinv hrel hstep
      refine part _ lv _ hi h1 rfl ?_ ⟨n, s', h2, h3, h4⟩
      intro t _ h
      rcases h with h | h
      · right; cases d <;> simp_all [BcWf.defs, BcWf.locTmp, dstOf]
      · exact Or.inl h
    | sub d a b =>
      obtain ⟨hok, htm⟩ := G.arithOk hi trivial
      obtain ⟨lv, n, s', h1, h2, h3, h4⟩ := flow_arith K hi hok htm hinv hrel hstep
      refine part _ lv _ hi h1 rfl ?_ ⟨n, s', h2, h3, h4⟩
      intro t _ h
      rcases h with h | h
      · right; cases d <;> simp_all [BcWf.defs, BcWf.locTmp, dstOf]
      · exact Or.inl h
    | mul d a b =>
      obtain ⟨hok, htm⟩ := G.arithOk hi trivial
      obtain ⟨lv, n, s', h1, h2, h3, h4⟩ := flow_arith K hi hok htm hinv hrel hstep
      refine part _ lv _ hi h1 rfl ?_ ⟨n, s', h2, h3, h4⟩
      intro t _ h
      rcases h with h | h
      · right; cases d <;> simp_all [BcWf.defs, BcWf.locTmp, dstOf]
      · exact Or.inl h
    | copy d a =>
      obtain ⟨hok, htm⟩ := G.arithOk hi trivial
      obtain ⟨lv, n, s', h1, h2, h3, h4⟩ := flow_arith K hi hok htm hinv hrel hstep
      refine part _ lv _ hi h1 rfl ?_ ⟨n, s', h2, h3, h4⟩
      intro t _ h
      rcases h with h | h
      · right; cases d <;> simp_all [BcWf.defs, BcWf.locTmp, dstOf]
      · exact Or.inl h


/-- The simulation relation of the whole-program theorems: the machine state is fully related (`Inv`,
`Rel`) to a shadow configuration that agrees with `c` on everything but dead temporaries. -/
def Sh (K : Ctx w) (fr : Frame) (c : Bc.Cfg w) (s : PState w) : Prop :=
  ∃ c2, C11.Sim (C11.liveSet K.p K.O c.pc) c c2 ∧ Inv K fr c2 s ∧ Rel c2 (view s)

/-- The function returned `ret` and the final state matches the final bytecode configuration. -/
def Exits (K : Ctx w) (fr : Frame) (s : PState w) (ret : BitVec 64) (c' : Bc.Cfg w) (P : PState w → Prop) : Prop :=
  ∀ k, ∃ n s', run K.cfg (n + k) s = .ret s' ∧ s'.regs.rax = ret ∧ Final fr K.p.temps c' s' ∧ P s'

/-- Every bytecode step is matched by the machine. -/
theorem prog_step (K : Ctx w) (G : Good K) {fr : Frame} (h7 : fr.saved.length = 7) {c : Bc.Cfg w}
    {s : PState w} (hbnd : K.safe = true → Bnd s) (hsh : Sh K fr c s) :
    match Bc.step K.p K.limited c with
    | .next c' => ∃ n s', steps K.cfg n s = some s' ∧ Sh K fr c' s'
    | .halt c' => Exits K fr s 1 c' (fun s' => s'.budget.toNat = c'.budget)
    | .stop c' => Exits K fr s 0 c' (fun s' => s'.budget.toNat = c'.budget)
    | .interrupted c' => Exits K fr s 0 c' (fun s' => s'.budget.toNat < 2 ∧ c'.budget = 0)
    | .bad _ => True := by
  obtain ⟨c2, hsim, hinv, hrel⟩ := hsh
  obtain ⟨htag, hobs, hnext⟩ := C11.live_step G.L G.V (limited := K.limited) hsim
  obtain ⟨o1, o2, o3⟩ := hobs
  cases h1 : Bc.step K.p K.limited c with
  | next c' =>
    cases h2 : Bc.step K.p K.limited c2 with
    | next c2' =>
      obtain ⟨n, s', c3, g1, g2, g3, g4⟩ := sim_next K G h7 hbnd hinv hrel h2
      have hs := hnext c' c2' h1 h2
      have hpc : c2'.pc = c'.pc := by
        simp only [h1, h2, Bc.StepRes.cfg] at o1; exact o1.symm
      rw [hpc] at g4
      exact ⟨n, s', g1, c3, Sim.trans' hs g4, g2, g3⟩
    | _ => simp [h1, h2, Bc.StepRes.tag] at htag
  | halt c' =>
    cases h2 : Bc.step K.p K.limited c2 with
    | halt c2' =>
      simp only [h1, h2, Bc.StepRes.cfg] at o1 o2 o3
      have hc2 : c2' = c2 ∧ c2.pc = K.n := by
        unfold Bc.step at h2
        cases hi : K.p.insts[c2.pc]? with
        | none =>
          simp only [hi] at h2
          split at h2
          · cases h2; exact ⟨rfl, by assumption⟩
          · cases h2
        | some ins =>
          simp only [hi] at h2
          cases ins <;> simp only at h2 <;> (repeat' split at h2) <;> cases h2
      obtain ⟨rfl, hpc⟩ := hc2
      intro k
      obtain ⟨s', r1, r2, r3, r4⟩ := flow_halt K G.temps h7 hpc hinv hrel k
      refine ⟨10, s', r1, r2, ?_, ?_⟩
      · exact ⟨r3.saved, r3.rsp, r3.stk, by rw [o2]; exact r3.env, by rw [o2]; exact r3.trace,
          fun o => by rw [o2]; exact r3.tape o⟩
      · show s'.budget.toNat = c'.budget
        rw [r4, o3]; exact hinv.budget
    | _ => simp [h1, h2, Bc.StepRes.tag] at htag
  | stop c' =>
    cases h2 : Bc.step K.p K.limited c2 with
    | stop c2' =>
      simp only [h1, h2, Bc.StepRes.cfg] at o1 o2 o3
      have key : Exits K fr s 0 c2' (fun s' => s'.budget = s.budget) ∧ c2'.budget = c2.budget := by
        cases hi : K.p.insts[c2.pc]? with
        | none =>
          unfold Bc.step at h2; simp only [hi] at h2
          split at h2 <;> cases h2
        | some ins =>
          cases ins with
          | inp dst =>
            have hb : c2'.budget = c2.budget := by
              rw [stepOf_inp hi] at h2
              cases hrb : c2.st.env.readByte <;> rw [hrb] at h2 <;> cases h2 <;> rfl
            exact ⟨(flow_inp K G.temps h7 hi (G.memOk hi (by simp [BcWf.memOps])) K.w_range.1 hinv hrel).2 c2' h2,
              hb⟩
          | out src =>
            have hb : c2'.budget = c2.budget := by
              rw [stepOf_out hi] at h2
              simp only at h2
              split at h2
              · split at h2 <;> cases h2; rfl
              · cases h2
            exact ⟨(flow_out K G.temps h7 hi (G.memOk hi (by simp [BcWf.memOps])) hinv hrel).2 c2' h2, hb⟩
          | _ =>
            exfalso
            unfold Bc.step at h2
            simp only [hi] at h2
            (repeat' split at h2) <;> cases h2
      obtain ⟨key, hb⟩ := key
      intro k
      obtain ⟨n, s', r1, r2, r3, r4⟩ := key k
      refine ⟨n, s', r1, r2, ?_, ?_⟩
      · exact ⟨r3.saved, r3.rsp, r3.stk, by rw [o2]; exact r3.env, by rw [o2]; exact r3.trace,
          fun o => by rw [o2]; exact r3.tape o⟩
      · show s'.budget.toNat = c'.budget
        rw [r4, o3, hb]; exact hinv.budget
    | _ => simp [h1, h2, Bc.StepRes.tag] at htag
  | interrupted c' =>
    cases h2 : Bc.step K.p K.limited c2 with
    | interrupted c2' =>
      simp only [h1, h2, Bc.StepRes.cfg] at o1 o2 o3
      have key : ∀ k, ∃ s', run K.cfg (12 + k) s = .ret s' ∧ s'.regs.rax = 0 ∧
          Returned fr K.p.temps s s' ∧ c2.budget < 2 ∧ c2' = { c2 with budget := 0 } := by
        intro k
        cases hi : K.p.insts[c2.pc]? with
        | none =>
          unfold Bc.step at h2; simp only [hi] at h2
          split at h2 <;> cases h2
        | some ins =>
          cases ins with
          | brz cond off => exact flow_branch_interrupted K G.temps h7 hi (Or.inl ⟨rfl, rfl⟩) hinv h2 k
          | brnz cond off => exact flow_branch_interrupted K G.temps h7 hi (Or.inr ⟨rfl, rfl⟩) hinv h2 k
          | scan cond sh =>
            obtain ⟨lv, its, xs, hI⟩ := K.instrAt hi
            have := (emitInstr_raw hI.emit).1
            simp [emitInstrRaw] at this
          | _ =>
            exfalso
            unfold Bc.step at h2
            simp only [hi] at h2
            (repeat' split at h2) <;> cases h2
      intro k
      obtain ⟨s', r1, r2, r3, r4, r5⟩ := key k
      subst r5
      refine ⟨12, s', r1, r2, ?_, ?_, ?_⟩
      · refine Final.of_returned r3 ?_ ?_ ?_
        · rw [o2]; exact hinv.env
        · rw [o2]; exact hinv.trace
        · intro o; rw [o2]; exact hrel.2.2 o
      · show s'.budget.toNat < 2
        rw [r3.budget, hinv.budget]; exact r4
      · show c'.budget = 0
        rw [o3]
    | _ => simp [h1, h2, Bc.StepRes.tag] at htag
  | bad c' => trivial

/-- In bounds-checked mode: every state the machine reaches from `s` has a tape allocation far from filling
the address space (below `2^40` cells), so that the 64-bit index arithmetic of the probe does not wrap. -/
def NoOOM (K : Ctx w) (s : PState w) : Prop :=
  K.safe = true → ∀ n s', steps K.cfg n s = some s' → Bnd s'

theorem NoOOM.of_steps {K : Ctx w} {s s1 : PState w} {n : Nat} (h : NoOOM K s) (h1 : steps K.cfg n s = some s1) :
    NoOOM K s1 := fun hs m s' hm => h hs (n + m) s' (steps_trans h1 hm)

theorem Exits.of_steps {K : Ctx w} {fr : Frame} {s s1 : PState w} {ret : BitVec 64} {c' : Bc.Cfg w}
    {P : PState w → Prop} {n : Nat} (h : steps K.cfg n s = some s1) (he : Exits K fr s1 ret c' P) :
    Exits K fr s ret c' P := by
  intro k
  obtain ⟨m, s', r1, r2⟩ := he k
  exact ⟨n + m, s', by rw [Nat.add_assoc, run_of_steps h]; exact r1, r2⟩

/-- Whole runs from a related state: finished runs of the bytecode are matched by a return of the compiled
function with the corresponding result; unfinished ones by a machine state that is still related. -/
theorem prog_runCfg (K : Ctx w) (G : Good K) {fr : Frame} (h7 : fr.saved.length = 7) :
    ∀ (fuel : Nat) {c : Bc.Cfg w} {s : PState w}, NoOOM K s → Sh K fr c s →
    match Bc.runCfg K.p K.limited fuel c with
    | .done c' => Exits K fr s 1 c' (fun s' => s'.budget.toNat = c'.budget)
    | .stopped c' => Exits K fr s 0 c' (fun s' => s'.budget.toNat = c'.budget)
    | .interrupted c' => Exits K fr s 0 c' (fun s' => s'.budget.toNat < 2 ∧ c'.budget = 0)
    | .bad _ => True
    | .outOfFuel c' => ∃ n s', steps K.cfg n s = some s' ∧ Sh K fr c' s' := by
  intro fuel
  induction fuel with
  | zero => intro c s _ h; exact ⟨0, s, rfl, h⟩
  | succ fuel ih =>
    intro c s hoom h
    have hs := prog_step K G h7 (fun hsf => hoom hsf 0 s rfl) h
    simp only [Bc.runCfg]
    cases hst : Bc.step K.p K.limited c with
    | next c' =>
      rw [hst] at hs
      obtain ⟨n, s1, h1, h2⟩ := hs
      have := ih (hoom.of_steps h1) h2
      simp only
      cases hr : Bc.runCfg K.p K.limited fuel c' with
      | done c'' => rw [hr] at this; exact Exits.of_steps h1 this
      | stopped c'' => rw [hr] at this; exact Exits.of_steps h1 this
      | interrupted c'' => rw [hr] at this; exact Exits.of_steps h1 this
      | bad c'' => trivial
      | outOfFuel c'' =>
        rw [hr] at this
        obtain ⟨m, s2, h3, h4⟩ := this
        exact ⟨n + m, s2, steps_trans h1 h3, h4⟩
    | halt c' => rw [hst] at hs; exact hs
    | stop c' => rw [hst] at hs; exact hs
    | interrupted c' => rw [hst] at hs; exact hs
    | bad c' => trivial


/-! ### From the call of the compiled function to its return -/

/-- What the caller (`enter_jit_code`) and the environment observe when the function has returned. -/
structure Result (s0 s' : PState w) (c' : Bc.Cfg w) : Prop where
  rbx : s'.regs.rbx = s0.regs.rbx
  rbp : s'.regs.rbp = s0.regs.rbp
  r12 : s'.regs.r12 = s0.regs.r12
  r13 : s'.regs.r13 = s0.regs.r13
  r14 : s'.regs.r14 = s0.regs.r14
  r15 : s'.regs.r15 = s0.regs.r15
  rsp : s'.regs.rsp = s0.regs.rsp + 8
  env : s'.env = c'.st.env
  trace : s'.trace = c'.st.trace
  tape : ∀ o, s'.tape.get (s'.lptr + o) = c'.st.rd o

theorem Result.of_final {K : Ctx w} {s0 s' : PState w} {ra : BitVec 64} {c' : Bc.Cfg w}
    (h : Final (frameOf K s0 ra) K.p.temps c' s') : Result s0 s' c' := by
  obtain ⟨ra', hs⟩ := h.saved
  simp only [frameOf, List.cons.injEq, and_true] at hs
  obtain ⟨e1, e2, e3, e4, e5, e6, _⟩ := hs
  refine ⟨e5.symm, e6.symm, e4.symm, e3.symm, e2.symm, e1.symm, ?_, h.env, h.trace, h.tape⟩
  rw [h.rsp]
  simp only [frameOf]
  apply BitVec.eq_of_toNat_eq
  have := s0.regs.rsp.isLt
  have e56 : (56 : BitVec 64).toNat = 56 := rfl
  have e8 : (8 : BitVec 64).toNat = 8 := rfl
  simp only [BitVec.toNat_add, BitVec.toNat_sub, BitVec.toNat_ofNat, e56, e8]
  omega

/-- The function was called (`Entry`) and returned `ret`; `P` holds of the final state. -/
def Returns (K : Ctx w) (s0 : PState w) (ret : BitVec 64) (c' : Bc.Cfg w) (P : PState w → Prop) : Prop :=
  ∀ k, ∃ n s', run K.cfg (n + k) s0 = .ret s' ∧ s'.regs.rax = ret ∧ Result s0 s' c' ∧ P s'

theorem prog_run' (K : Ctx w) (G : Good K) {s0 : PState w} {ra : BitVec 64} (hE : Entry K s0 ra)
    {env : Env} (henv : s0.env = env) (htr : s0.trace = []) {budget : Nat} (hb : s0.budget.toNat = budget)
    (hlim : (K.limited && budget == 0) = false) (hoom : NoOOM K s0) (fuel : Nat) :
    match Bc.run K.p K.limited budget fuel env with
    | .done c' => Returns K s0 1 c' (fun s' => s'.budget.toNat = c'.budget)
    | .stopped c' => Returns K s0 0 c' (fun s' => s'.budget.toNat = c'.budget)
    | .interrupted c' => Returns K s0 0 c' (fun s' => s'.budget.toNat < 2 ∧ c'.budget = 0)
    | .bad _ => False
    | .outOfFuel c' => ∃ n s', steps K.cfg n s0 = some s' ∧ s'.trace = c'.st.trace ∧ s'.env = c'.st.env := by
  obtain ⟨s, T, hst, hinv, hrel, -⟩ := prologue_run K G.temps K.w_range hE env henv htr
  rw [hb] at hinv hrel
  have hsh : Sh K (frameOf K s0 ra) { pc := 0, temps := T, budget := budget, st := State.init env } s :=
    ⟨_, ⟨rfl, rfl, rfl, fun _ _ => rfl⟩, hinv, hrel⟩
  have hrun := prog_runCfg K G (fr := frameOf K s0 ra) rfl fuel (hoom.of_steps hst) hsh
  have hchk := G.check
  simp only [BcWf.check, Bool.and_eq_true] at hchk
  have hobs : C11.ObsEq (Bc.run K.p K.limited budget fuel env)
      (Bc.runCfg K.p K.limited fuel { pc := 0, temps := T, budget := budget, st := State.init env }) := by
    unfold Bc.run
    simp only [hlim]
    exact C11.init_independent G.L (C11.initOk_facts hchk.1.2) K.limited fuel budget _ _ _
  obtain ⟨otag, opc, ost, obud⟩ := hobs
  have lift : ∀ {ret : BitVec 64} {c1 c2 : Bc.Cfg w} {P Q : PState w → Prop},
      c1.st = c2.st → (∀ s', P s' → Q s') →
      Exits K (frameOf K s0 ra) s ret c2 P → Returns K s0 ret c1 Q := by
    intro ret c1 c2 P Q hst' hPQ he k
    obtain ⟨n, s', r1, r2, r3, r4⟩ := he k
    refine ⟨9 + n, s', by rw [Nat.add_assoc, run_of_steps hst]; exact r1, r2, ?_, hPQ s' r4⟩
    have := Result.of_final r3
    exact ⟨this.rbx, this.rbp, this.r12, this.r13, this.r14, this.r15, this.rsp, by rw [hst']; exact this.env,
      by rw [hst']; exact this.trace, fun o => by rw [hst']; exact this.tape o⟩
  cases h1 : Bc.run K.p K.limited budget fuel env with
  | done c1 =>
    cases h2 : Bc.runCfg K.p K.limited fuel { pc := 0, temps := T, budget := budget, st := State.init env } with
    | done c2 =>
      rw [h2] at hrun
      simp only [h1, h2, Bc.Outcome.cfg] at ost obud
      exact lift ost (fun s' h => by rw [obud]; exact h) hrun
    | _ => simp [h1, h2, Bc.Outcome.tag] at otag
  | stopped c1 =>
    cases h2 : Bc.runCfg K.p K.limited fuel { pc := 0, temps := T, budget := budget, st := State.init env } with
    | stopped c2 =>
      rw [h2] at hrun
      simp only [h1, h2, Bc.Outcome.cfg] at ost obud
      exact lift ost (fun s' h => by rw [obud]; exact h) hrun
    | _ => simp [h1, h2, Bc.Outcome.tag] at otag
  | interrupted c1 =>
    cases h2 : Bc.runCfg K.p K.limited fuel { pc := 0, temps := T, budget := budget, st := State.init env } with
    | interrupted c2 =>
      rw [h2] at hrun
      simp only [h1, h2, Bc.Outcome.cfg] at ost obud
      exact lift ost (fun s' h => by rw [obud]; exact h) hrun
    | _ => simp [h1, h2, Bc.Outcome.tag] at otag
  | bad c1 =>
    exact C11.run_not_bad G.L K.limited budget fuel env c1 h1
  | outOfFuel c1 =>
    cases h2 : Bc.runCfg K.p K.limited fuel { pc := 0, temps := T, budget := budget, st := State.init env } with
    | outOfFuel c2 =>
      rw [h2] at hrun
      simp only [h1, h2, Bc.Outcome.cfg] at ost
      obtain ⟨n, s', r1, c3, r2, r3, r4⟩ := hrun
      refine ⟨9 + n, s', steps_trans hst r1, ?_, ?_⟩
      · rw [r3.trace, ← r2.st, ost]
      · rw [r3.env, ← r2.st, ost]
    | _ => simp [h1, h2, Bc.Outcome.tag] at otag

/-- `make_accessible(min, max + 1)` on a fresh `Memory`. -/
theorem growth_fresh {mn mx : Int} (h0 : mn ≤ 0 ∧ 0 ≤ mx) (hr : -2147483648 ≤ mn ∧ mx < 2147483648) :
    ({ buf := #[], size := 0, offset := 0 } : Mem 8).growth mn (mx + 1) =
      ((-mn).toNat, (mx + 1).toNat, (mx - mn + 1).toNat, (-mn).toNat) := by
  have a0 : asI64 0 = 0 := by decide
  have hs : asI64 (wrapU64 (0 + mn)) = mn := by
    unfold asI64 wrapU64 two63 two64
    split <;> omega
  have he : asI64 (wrapU64 (0 + (mx + 1))) = mx + 1 := by
    unfold asI64 wrapU64 two63 two64
    split <;> omega
  have hw : wrapU64 (mx + 1 - 0) = (mx + 1).toNat := by
    unfold wrapU64 two64; omega
  unfold Mem.growth
  simp only [a0, hs, he, hw]
  by_cases hmn : mn < 0
  · simp only [hmn, if_true, show mx + 1 > 0 from by omega]
    have e1 : mn.natAbs = (-mn).toNat := by omega
    have e2 : mn.natAbs ≠ 0 := by omega
    have e3 : (mx + 1).toNat ≠ 0 := by omega
    simp only [e2, e3, if_false]
    refine Prod.ext e1 (Prod.ext rfl (Prod.ext ?_ ?_)) <;> simp only <;> omega
  · have : mn = 0 := by omega
    subst this
    simp only [hmn, if_false, show mx + 1 > 0 from by omega, if_true]
    refine Prod.ext rfl (Prod.ext rfl (Prod.ext ?_ ?_)) <;> simp only <;> omega

/-- The state `Driver7` starts the machine in satisfies the entry conditions. -/
theorem initState_entry (K : Ctx w) (h0 : K.p.minAcc ≤ 0 ∧ 0 ≤ K.p.maxAcc)
    (hr : -2147483648 ≤ K.p.minAcc ∧ K.p.maxAcc < 2147483648) (buf0 rsp0 ra : BitVec 64)
    (hrsp : rsp0.toNat % 16 = 8) (budget : Nat) (hb : budget < 2 ^ 64) (env : Env) :
    let s0 : PState w := initState K.cfg buf0 rsp0 ra K.p.minAcc K.p.maxAcc budget env
    Entry K s0 ra ∧ s0.env = env ∧ s0.trace = [] ∧ s0.budget.toNat = budget := by
  have hw := K.w_range
  have hg := growth_fresh h0 hr
  intro s0
  have hext : ∀ sA : PState w, sA.size = 0 → sA.off = 0 →
      extend K.cfg sA K.p.minAcc (K.p.maxAcc + 1) =
        { sA with buf := K.cfg.newBuf sA.buf, size := BitVec.ofNat 64 (K.p.maxAcc - K.p.minAcc + 1).toNat,
                  off := BitVec.ofNat 64 (0 + (-K.p.minAcc).toNat), base := sA.base - ((-K.p.minAcc).toNat : Int),
                  tapeOk := false } := by
    intro sA h1 h2
    unfold extend
    simp only [h1, h2, show (0 : BitVec 64).toNat = 0 from rfl, hg]
    rw [if_neg (by omega)]
  obtain ⟨sA, hsA⟩ : ∃ sA : PState w, sA =
      { regs := RegFile.ofFn K.cfg.junk, zf := none, cf := none, tape := Tape.empty, lptr := 0, tapeOk := false,
        stk := [ra], buf := buf0, size := 0, off := 0, budget := BitVec.ofNat 64 budget, base := 0,
        env := env, trace := [], pc := 0, oob := false } := ⟨_, rfl⟩
  have hs0 : s0 = (fun s1 : PState w =>
      { s1 with regs := RegFile.set ((s1.regs.set .rsp rsp0).set .rdi K.cfg.cxtAddr) .rsi
                  (s1.buf + BitVec.ofNat 64 (s1.off.toNat * (w / 8))) })
      (extend K.cfg sA K.p.minAcc (K.p.maxAcc + 1)) := by
    rw [hsA]; rfl
  rw [hext sA (by rw [hsA]) (by rw [hsA])] at hs0
  simp only at hs0
  refine ⟨⟨?_, ?_, ?_, ?_, ?_, ?_⟩, ?_, ?_, ?_⟩
  · rw [hs0, hsA]
  · rw [hs0, hsA]
  · show s0.regs.get .rdi = _
    rw [hs0]; simp
  · show (s0.regs.get .rsp).toNat % 16 = 8
    rw [hs0]; simp; exact hrsp
  · have e1 : s0.regs.rsi = s0.regs.get .rsi := rfl
    rw [e1, hs0]
    simp only [regfile_set_get, if_true]
    have hoff : (BitVec.ofNat 64 (0 + (-K.p.minAcc).toNat)).toNat = (-K.p.minAcc).toNat := by
      simp only [BitVec.toNat_ofNat]; omega
    rw [hoff]
    have ecan : ∀ a b : BitVec 64, a + b - a = b := by intro a b; bv_omega
    rw [ecan]
    have hlt : (-K.p.minAcc).toNat * (w / 8) < 2 ^ 63 := by
      have h1 : w / 8 ≤ 8 := by omega
      have h2 : (-K.p.minAcc).toNat ≤ 2147483648 := by omega
      calc (-K.p.minAcc).toNat * (w / 8) ≤ 2147483648 * 8 := Nat.mul_le_mul h2 h1
        _ < 2 ^ 63 := by decide
    have etoInt : (BitVec.ofNat 64 ((-K.p.minAcc).toNat * (w / 8))).toInt =
        (((-K.p.minAcc).toNat * (w / 8) : Nat) : Int) := by
      rw [BitVec.toInt_eq_toNat_of_lt]
      · simp only [BitVec.toNat_ofNat]; omega
      · simp only [BitVec.toNat_ofNat]; omega
    rw [etoInt]
    unfold cellBytes
    push_cast
    exact Int.mul_emod_left _ _
  · intro a
    rw [hs0, hsA]; rfl
  · rw [hs0, hsA]
  · rw [hs0, hsA]
  · rw [hs0, hsA]
    simp only [BitVec.toNat_ofNat]
    exact Nat.mod_eq_of_lt hb

end C03
end Hpbf
