/-
Rebuild-round proofs, stage 4: the clause `C01Dse.ReadsFact` of `C01Dse.AnalSound` from the big-step exposure
predicate `Exposes` (`OptRbRd1.lean`) paired with the analysis tree (`RdOkL`).

* `expC_of_unexposed` (THE CORE): if the small-step check `unexposedN` fails for a configuration inside a block
  iteration, then the "remaining program" of that configuration (current list + the continuations above depth
  `d`) exposes the address in the big-step sense (`ExpC`);
* `not_bad_of_reach`: `OnceOk` excludes `Bad` at every reachable configuration;
* `KOk.rd`: the `RdOkL` analogue of `KOk.shape`;
* `readsFact_of_rdOk`.
-/
import Hpbf.Proofs.OptRbRd1
import Hpbf.Proofs.OptRbDseFacts

namespace Hpbf
namespace OptProof
open Opt OptSem Ir

variable {w : Nat}

/-! ### `Thru` / `Exposes` ignore the `once` flag -/

theorem thru_once_irrel {a : Int} {c sh : Int} {body rest : List (Instr w)} {o o' : Bool} {σ σ' : State w}
    (h : Thru a (.loop c sh body o :: rest) σ σ') : Thru a (.loop c sh body o' :: rest) σ σ' := by
  generalize hl : Instr.loop c sh body o :: rest = l at h
  induction h with
  | loopSkip hz hp hr => cases hl; exact .loopSkip hz hp hr
  | loopIter hnz hp hb _ _ ih => cases hl; exact .loopIter hnz hp hb (ih rfl)
  | _ => cases hl

theorem exposes_once_irrel {a : Int} {c sh : Int} {body rest : List (Instr w)} {o o' : Bool} {σ : State w}
    (h : Exposes a (.loop c sh body o :: rest) σ) : Exposes a (.loop c sh body o' :: rest) σ := by
  generalize hl : Instr.loop c sh body o :: rest = l at h
  induction h with
  | loopHere hp => cases hl; exact .loopHere hp
  | loopSkip hz hr => cases hl; exact .loopSkip hz hr
  | loopIn hnz hb => cases hl; exact .loopIn hnz hb
  | loopIter hnz hb _ ih => cases hl; exact .loopIter hnz hb (ih rfl)
  | _ => cases hl

/-! ### exposure by a configuration: current list + continuations -/

/-- What the continuations `ks` (the ones above the depth of the running block iteration) do from `σ` (the state
when the current list is exhausted) exposes `a`. -/
def ExpK (a : Int) : List (Cont w) → State w → Prop
  | [], _ => False
  | .loopEnd c sh body rest :: ks, σ =>
    Exposes a (.loop c sh body false :: rest) (σ.mov sh) ∨
      ∃ σ1, Thru a (.loop c sh body false :: rest) (σ.mov sh) σ1 ∧ ExpK a ks σ1
  | .ifEnd sh rest :: ks, σ =>
    Exposes a rest (σ.mov sh) ∨ ∃ σ1, Thru a rest (σ.mov sh) σ1 ∧ ExpK a ks σ1

/-- The current list `cur` followed by the continuations `ks` exposes `a`. -/
def ExpC (a : Int) (cur : List (Instr w)) (ks : List (Cont w)) (σ : State w) : Prop :=
  Exposes a cur σ ∨ ∃ σ1, Thru a cur σ σ1 ∧ ExpK a ks σ1

theorem ExpC.map {a : Int} {l1 l2 : List (Instr w)} {ks : List (Cont w)} {σ1 σ2 : State w}
    (g : Exposes a l1 σ1 → Exposes a l2 σ2) (f : ∀ σ', Thru a l1 σ1 σ' → Thru a l2 σ2 σ')
    (h : ExpC a l1 ks σ1) : ExpC a l2 ks σ2 := by
  rcases h with h | ⟨σ', h1, h2⟩
  · exact Or.inl (g h)
  · exact Or.inr ⟨σ', f _ h1, h2⟩

theorem ExpC.of_nil {a : Int} {ks : List (Cont w)} {σ : State w} (h : ExpK a ks σ) : ExpC a [] ks σ :=
  Or.inr ⟨σ, .nil σ, h⟩

theorem ExpC.loop_enter {a : Int} {c sh : Int} {body rest : List (Instr w)} {once : Bool}
    {ks : List (Cont w)} {σ : State w} (hnz : σ.rd c ≠ 0#w) (hp : σ.ptr + c ≠ a)
    (h : ExpC a body (.loopEnd c sh body rest :: ks) σ) : ExpC a (.loop c sh body once :: rest) ks σ := by
  rcases h with h | ⟨σ1, hb, hk⟩
  · exact Or.inl (.loopIn hnz h)
  · rcases hk with hk | ⟨σ2, hl, hk⟩
    · exact Or.inl (.loopIter hnz hb (exposes_once_irrel hk))
    · exact Or.inr ⟨σ2, .loopIter hnz hp hb (thru_once_irrel hl), hk⟩

theorem ExpC.if_enter {a : Int} {c sh : Int} {body rest : List (Instr w)}
    {ks : List (Cont w)} {σ : State w} (hnz : σ.rd c ≠ 0#w) (hp : σ.ptr + c ≠ a)
    (h : ExpC a body (.ifEnd sh rest :: ks) σ) : ExpC a (.ifnz c sh body :: rest) ks σ := by
  rcases h with h | ⟨σ1, hb, hk⟩
  · exact Or.inl (.ifIn hnz h)
  · rcases hk with hk | ⟨σ2, hl, hk⟩
    · exact Or.inl (.ifIter hnz hb hk)
    · exact Or.inr ⟨σ2, .ifIter hnz hp hb hl, hk⟩

/-! ### one unfolding of `unexposedN` -/

theorem unexposedN_succ_false {lim : Bool} {d : Nat} {a : Int} {n : Nat} {c : Cfg w}
    (h : C01Dse.unexposedN lim d a (n + 1) c = false) :
    ¬ (c.cur = [] ∧ c.conts.length ≤ d) ∧
      (a ∈ C01Dse.stepReads c ∨
        (a ∉ C01Dse.stepWrites c ∧ ∃ c', Ir.step lim c = .next c' ∧ C01Dse.unexposedN lim d a n c' = false)) := by
  rw [C01Dse.unexposedN] at h
  by_cases hstop : (c.cur.isEmpty && decide (c.conts.length ≤ d)) = true
  · rw [if_pos hstop] at h; cases h
  · rw [if_neg hstop] at h
    refine ⟨?_, ?_⟩
    · rintro ⟨h1, h2⟩
      apply hstop
      simp [h1, h2]
    · by_cases hr : a ∈ C01Dse.stepReads c
      · exact Or.inl hr
      · refine Or.inr ?_
        have hr' : (C01Dse.stepReads c).contains a = false := by simpa using hr
        rw [hr'] at h
        simp only [Bool.not_false, Bool.true_and, Bool.or_eq_false_iff] at h
        obtain ⟨h1, h2⟩ := h
        refine ⟨by simpa using h1, ?_⟩
        cases hs : Ir.step lim c with
        | next c' => rw [hs] at h2; exact ⟨c', rfl, h2⟩
        | halt _ => rw [hs] at h2; cases h2
        | stop _ => rw [hs] at h2; cases h2
        | interrupted _ => rw [hs] at h2; cases h2

/-! ### the core -/

/-- If the small-step check fails for a configuration whose continuation stack is `extra ++ base` (`base`: the
`d` continuations below the running block iteration), then the current list followed by `extra` exposes `a`. -/
theorem expC_of_unexposed (a : Int) (d : Nat) : ∀ (n : Nat) (cur : List (Instr w)) (extra base : List (Cont w))
    (bud : Nat) (σ : State w), base.length = d →
    C01Dse.unexposedN false d a n ⟨cur, extra ++ base, bud, σ⟩ = false → ExpC a cur extra σ := by
  intro n
  induction n with
  | zero => intro cur extra base bud σ _ h; simp [C01Dse.unexposedN] at h
  | succ n ih =>
    intro cur extra base bud σ hbase h
    obtain ⟨hne, hrw⟩ := unexposedN_succ_false h
    simp only at hne
    cases cur with
    | nil =>
      cases extra with
      | nil => exact absurd ⟨rfl, by simp [hbase]⟩ hne
      | cons k ks =>
        cases k with
        | loopEnd c sh body rest =>
          apply ExpC.of_nil
          by_cases hp : (σ.mov sh).ptr + c = a
          · exact Or.inl (.loopHere hp)
          · have hp' : a ∉ C01Dse.stepReads ⟨[], .loopEnd c sh body rest :: ks ++ base, bud, σ⟩ := by
              simp only [C01Dse.stepReads, List.cons_append, List.mem_singleton]
              exact fun e => hp e.symm
            rcases hrw with hr | ⟨_, c', hs, hu⟩
            · exact absurd hr hp'
            · by_cases hz : (σ.mov sh).rd c = 0#w
              · simp [Ir.step, hz] at hs
                subst hs
                exact (ih rest ks base bud _ hbase hu).map (.loopSkip hz) (fun _ ht => .loopSkip hz hp ht)
              · simp [Ir.step, hz] at hs
                subst hs
                exact ExpC.loop_enter hz hp (ih body (.loopEnd c sh body rest :: ks) base bud _ hbase hu)
        | ifEnd sh rest =>
          apply ExpC.of_nil
          rcases hrw with hr | ⟨_, c', hs, hu⟩
          · simp [C01Dse.stepReads] at hr
          · simp [Ir.step] at hs
            subst hs
            exact ih rest ks base bud _ hbase hu
    | cons i cur =>
      cases i with
      | output src =>
        by_cases hp : σ.ptr + src = a
        · exact Or.inl (.outHere hp)
        · rcases hrw with hr | ⟨_, c', hs, hu⟩
          · simp only [C01Dse.stepReads, List.mem_singleton] at hr
            exact absurd hr.symm hp
          · cases ho : σ.output src with
            | mk ok σ1 =>
              cases ok with
              | false => simp [Ir.step, ho] at hs
              | true =>
                simp [Ir.step, ho] at hs
                subst hs
                exact (ih cur extra base bud σ1 hbase hu).map (.outNext ho) (fun _ ht => .outOk ho hp ht)
      | input dst =>
        rcases hrw with hr | ⟨hw, c', hs, hu⟩
        · simp [C01Dse.stepReads] at hr
        · have hp : σ.ptr + dst ≠ a := by
            simp only [C01Dse.stepWrites, List.mem_singleton] at hw
            exact fun e => hw e.symm
          cases ho : σ.input dst with
          | mk ok σ1 =>
            cases ok with
            | false => simp [Ir.step, ho] at hs
            | true =>
              simp [Ir.step, ho] at hs
              subst hs
              exact (ih cur extra base bud σ1 hbase hu).map (.inNext ho hp) (fun _ ht => .inOk ho hp ht)
      | «calc» g =>
        by_cases hrd : ∃ ve ∈ g, ∃ v ∈ Expr.variables ve.2, σ.ptr + v = a
        · exact Or.inl (.calcHere hrd)
        · have hrd' : ∀ ve ∈ g, ∀ v ∈ Expr.variables ve.2, σ.ptr + v ≠ a :=
            fun ve hve v hv hh => hrd ⟨ve, hve, v, hv, hh⟩
          rcases hrw with hr | ⟨hw, c', hs, hu⟩
          · simp only [C01Dse.stepReads, List.mem_flatMap, List.mem_map] at hr
            obtain ⟨ve, hve, v, hv, e⟩ := hr
            exact absurd e (hrd' ve hve v hv)
          · have hw' : ∀ ve ∈ g, σ.ptr + ve.1 ≠ a := by
              simp only [C01Dse.stepWrites, List.mem_map, not_exists, not_and] at hw
              exact fun ve hve e => hw ve hve e
            simp [Ir.step] at hs
            subst hs
            exact (ih cur extra base bud _ hbase hu).map (.calcNext hw') (fun _ ht => .calc hw' hrd' ht)
      | loop c sh body once =>
        by_cases hp : σ.ptr + c = a
        · exact Or.inl (.loopHere hp)
        · rcases hrw with hr | ⟨_, c', hs, hu⟩
          · simp only [C01Dse.stepReads, List.mem_singleton] at hr
            exact absurd hr.symm hp
          · by_cases hz : σ.rd c = 0#w
            · simp [Ir.step, hz] at hs
              subst hs
              exact (ih cur extra base bud σ hbase hu).map (.loopSkip hz) (fun _ ht => .loopSkip hz hp ht)
            · simp [Ir.step, hz] at hs
              subst hs
              exact ExpC.loop_enter hz hp (ih body (.loopEnd c sh body cur :: extra) base bud σ hbase hu)
      | ifnz c sh body =>
        by_cases hp : σ.ptr + c = a
        · exact Or.inl (.ifHere hp)
        · rcases hrw with hr | ⟨_, c', hs, hu⟩
          · simp only [C01Dse.stepReads, List.mem_singleton] at hr
            exact absurd hr.symm hp
          · by_cases hz : σ.rd c = 0#w
            · simp [Ir.step, hz] at hs
              subst hs
              exact (ih cur extra base bud σ hbase hu).map (.ifSkip hz) (fun _ ht => .ifSkip hz hp ht)
            · simp [Ir.step, hz] at hs
              subst hs
              exact ExpC.if_enter hz hp (ih body (.ifEnd sh cur :: extra) base bud σ hbase hu)

/-- (iii) no big-step exposure ⇒ the small-step check succeeds for the iteration starting at `body`. -/
theorem unexposed_of_not_exposes {a : Int} {body : List (Instr w)} {conts : List (Cont w)} {bud : Nat}
    {σ : State w} (h : ¬ Exposes a body σ) (n : Nat) :
    C01Dse.unexposedN false conts.length a n ⟨body, conts, bud, σ⟩ = true := by
  cases hu : C01Dse.unexposedN false conts.length a n ⟨body, conts, bud, σ⟩ with
  | true => rfl
  | false =>
    rcases expC_of_unexposed a conts.length n body [] conts bud σ rfl hu with h' | ⟨_, _, h'⟩
    · exact absurd h' h
    · exact h'.elim

/-! ### (ii) `OnceOk` excludes `Bad` at every reachable configuration -/

theorem not_bad_of_reach {b : Block w} {env : Env} (ho : C02Emit.OnceOk b env) {c : Cfg w}
    (hr : C01Dse.Reach false 0 b env c) : ¬ Bad c.cur c.st := by
  intro hbad
  obtain ⟨f, hf⟩ := hr
  obtain ⟨n, c', hn, cond, shift, body, rest, e, hz⟩ := bad_reaches hbad [] c.conts c.budget
  rw [List.append_nil] at hn
  have := cfgAt_trans hf hn
  exact ho (f + n) c' (runCfg_outOfFuel_iff.2 this) cond shift body rest e hz

/-! ### (i) the `RdOkL` analogue of `KOk.shape` -/

theorem rdOkI_loop {c sh : Int} {body : List (Instr w)} {once : Bool} {a : OptAnalysis w}
    (h : RdOkI (.loop c sh body once) a) :
    (a.hasShift = false → ∀ σ : State w, σ.rd c ≠ 0#w → ¬ Bad body σ →
      ∀ v, v ∉ a.reads → ¬ Exposes (σ.ptr + v) body σ) ∧ RdOkL body a.subBlocks := by
  cases a with
  | mk L hs r cl subs => rw [RdOkI] at h; exact h

theorem rdOkI_ifnz {c sh : Int} {body : List (Instr w)} {a : OptAnalysis w}
    (h : RdOkI (.ifnz c sh body) a) : RdOkL body a.subBlocks := by
  cases a with
  | mk L hs r cl subs => rw [RdOkI] at h; exact h

/-- The node of a nested block in the middle of a list, for both pairings at once. -/
theorem shape_rdOk_split {pre : List (Instr w)} {i : Instr w} {rest : List (Instr w)}
    {subs : List (OptAnalysis w)} (hb : C01Dse.isBlock i = true) (h : ShapeL (pre ++ i :: rest) subs)
    (hr : RdOkL (pre ++ i :: rest) subs) :
    ∃ sp a sr, subs = sp ++ a :: sr ∧ ShapeI i a ∧ RdOkI i a ∧ ShapeL rest sr := by
  induction pre generalizing subs with
  | nil =>
    rw [List.nil_append, shapeL_cons_block hb] at h
    rw [List.nil_append, rdOkL_cons_block hb] at hr
    obtain ⟨a, subs', rfl, ha, hrest⟩ := h
    obtain ⟨a', subs'', e, ha', _⟩ := hr
    cases e
    exact ⟨[], a, subs', rfl, ha, ha', hrest⟩
  | cons j pre ih =>
    rw [List.cons_append] at h hr
    cases hj : C01Dse.isBlock j with
    | false =>
      rw [shapeL_cons_nonblock hj] at h
      rw [rdOkL_cons_nonblock hj] at hr
      exact ih h hr
    | true =>
      rw [shapeL_cons_block hj] at h
      rw [rdOkL_cons_block hj] at hr
      obtain ⟨b, subs', rfl, _, h'⟩ := h
      obtain ⟨b', subs'', e, _, hr'⟩ := hr
      cases e
      obtain ⟨sp, a, sr, e, h1, h2, h3⟩ := ih h' hr'
      exact ⟨b :: sp, a, sr, by rw [e]; rfl, h1, h2, h3⟩

/-- Along the continuation stack: the body of the running block is paired (`ShapeL` and `RdOkL`) with a node list
that has the same `toDAnals` as the one recorded in `KOk`; the node of a running loop satisfies `RdOkI`. -/
theorem KOk.rd {tI : List (Instr w)} {tA : OptAnalysis w} (hs : ShapeL tI tA.subBlocks)
    (hrd : RdOkL tI tA.subBlocks) {ks : List (Cont w)} {body : List (Instr w)} {subs : List (OptAnalysis w)}
    {A0 : OptDse.DAnal} (h : KOk tI tA ks body subs A0) :
    (∃ subs', RdOkL body subs' ∧ ShapeL body subs' ∧
        OptAnalysis.toDAnals subs' = OptAnalysis.toDAnals subs) ∧
      (∀ cond shift lbody rest ks', ks = .loopEnd cond shift lbody rest :: ks' →
        ∃ a' once, RdOkI (.loop cond shift lbody once) a' ∧ a'.toDAnal = A0) := by
  induction h with
  | nil => exact ⟨⟨_, hrd, hs, rfl⟩, fun _ _ _ _ _ e => by cases e⟩
  | @loopEnd ks pbody psubs PA pre rest body cond shift once a hk hpb hi hsub ih =>
    obtain ⟨⟨psubs', r1, s1, e1⟩, _⟩ := ih
    subst hpb
    obtain ⟨sp, a', sr, rfl, hi', hri', hsr⟩ := shape_rdOk_split rfl s1 r1
    have hPA : PA.subs = OptAnalysis.toDAnals (sp ++ a' :: sr) := by rw [hk.subs_eq, e1]
    have hsub' := subAt_mid hPA
    rw [shapeL_length hsr, hsub] at hsub'
    have ea : a'.toDAnal = a.toDAnal := (Option.some.inj hsub').symm
    refine ⟨⟨a'.subBlocks, (rdOkI_loop hri').2, (shapeI_loop hi').2.2.2, ?_⟩, ?_⟩
    · rw [← toDAnal_subs, ← toDAnal_subs, ea]
    · intro _ _ _ _ _ e
      cases e
      exact ⟨a', once, hri', ea⟩
  | @ifEnd ks pbody psubs PA pre rest body cond shift a hk hpb hi hsub ih =>
    obtain ⟨⟨psubs', r1, s1, e1⟩, _⟩ := ih
    subst hpb
    obtain ⟨sp, a', sr, rfl, hi', hri', hsr⟩ := shape_rdOk_split rfl s1 r1
    have hPA : PA.subs = OptAnalysis.toDAnals (sp ++ a' :: sr) := by rw [hk.subs_eq, e1]
    have hsub' := subAt_mid hPA
    rw [shapeL_length hsr, hsub] at hsub'
    have ea : a'.toDAnal = a.toDAnal := (Option.some.inj hsub').symm
    refine ⟨⟨a'.subBlocks, rdOkI_ifnz hri', (shapeI_ifnz hi').2.2, ?_⟩, ?_⟩
    · rw [← toDAnal_subs, ← toDAnal_subs, ea]
    · intro _ _ _ _ _ e
      cases e

/-! ### the theorem -/

theorem readsFact_of_rdOk {b : Block w} {anal : OptAnalysis w} {env : Env}
    (hs : ShapeL b.insts anal.subBlocks) (hrd : RdOkL b.insts anal.subBlocks) (ho : C02Emit.OnceOk b env) :
    C01Dse.ReadsFact false 0 b anal.toDAnal env := by
  intro c hr cond shift body rest ks A0' c1 hcur hconts hanal hns hnz hstep v n hv
  obtain ⟨bodyX, subs, A0, pre, hk, _⟩ := posInv_of_reach hs hr
  rw [hk.analOf] at hanal
  cases hanal
  obtain ⟨a', once, hri, ea⟩ := (hk.rd hs hrd).2 cond shift body rest ks hconts
  subst ea
  rw [toDAnal_hasShift] at hns
  rw [toDAnal_reads] at hv
  have hr1 : C01Dse.Reach false 0 b env c1 := hr.step hstep
  have hnb := not_bad_of_reach ho hr1
  obtain ⟨cur, conts, bud, σ⟩ := c
  simp only at hcur hconts hnz
  subst hcur
  subst hconts
  simp [Ir.step, hnz] at hstep
  subst hstep
  exact unexposed_of_not_exposes ((rdOkI_loop hri).1 hns (σ.mov shift) hnz hnb v hv) n

/-- one optimizer round -/
theorem optimizeOnce_readsFact {b : Block w} {prevAnal : OptAnalysis w} {os os' : Orders} {b' : Block w}
    {anal' : OptAnalysis w} (hr : (optimizeOnce b prevAnal).run os = .ok ((b', anal'), os'))
    (hcl : CanonL b.insts) {env : Env} (hrd : RdOkL b'.insts anal'.subBlocks) (ho : C02Emit.OnceOk b' env) :
    C01Dse.ReadsFact false 0 b' anal'.toDAnal env :=
  readsFact_of_rdOk (optimizeOnce_shape hr hcl) hrd ho

/-! ### axioms -/

#print axioms expC_of_unexposed
#print axioms unexposed_of_not_exposes
#print axioms not_bad_of_reach
#print axioms KOk.rd
#print axioms readsFact_of_rdOk
#print axioms optimizeOnce_readsFact

end OptProof
end Hpbf
