/-
C03 / C13 (the JIT's instruction selector is total on generator output), part 2: the instruction SHAPES that
reach `parameter_reordering` when `translate` runs without fusion: no `scan`, no `memZero` operand, destinations
are cells or temporaries, sources cells, temporaries or immediates (`shape`).  Through the emission phase
(`emit_allQ`, an instance of the induction principle `ClosedI`), `dead_store_elim` (only blanks instructions) and
`allocate_temps` (`allocateTemps_shape`, from the phase decomposition `allocStep_ok`); the same induction bounds
the live bitmaps (`liveMask_lt`).
-/
import Hpbf.Proofs.C02AllocEmitX
import Hpbf.Proofs.C02EmitExpr
import Hpbf.Proofs.C02AllocTrace
import Hpbf.Proofs.C03TotalForm
set_option linter.unusedSimpArgs false
namespace Hpbf
namespace C03
open Bc BcWf BcGen C11 C02 C02Emit C02.AEmit C02.Alloc
variable {w : Nat}

/-! ### a predicate on every instruction of the emitted code -/

def AllQ (Q : Instr w → Prop) (insts : Array (Instr w)) : Prop :=
  ∀ (i : Nat) (x : Instr w), insts[i]? = some x → Q x

theorem allQ_push {Q : Instr w → Prop} {insts : Array (Instr w)} {x : Instr w} (h : AllQ Q insts)
    (hx : Q x) : AllQ Q (insts.push x) := by
  intro i y hy
  rcases getElem?_push_cases hy with ⟨_, g⟩ | ⟨_, g⟩
  · exact h i y g
  · rw [g]; exact hx

theorem allQ_set {Q : Instr w → Prop} {insts : Array (Instr w)} {x : Instr w} (h : AllQ Q insts)
    (hx : Q x) (j : Nat) : AllQ Q (insts.setIfInBounds j x) := by
  intro i y hy
  rw [Array.getElem?_setIfInBounds] at hy
  by_cases e : j = i
  · simp only [e, if_true] at hy
    split at hy
    · cases hy; exact hx
    · cases hy
  · simp only [e, if_false] at hy
    exact h i y hy

/-- What a predicate must admit to hold of all code `emit_block` produces without fusion. -/
structure EmitClosed (Q : Instr w → Prop) : Prop where
  noop : Q .noop
  mov : ∀ sh, Q (.mov sh)
  out : ∀ m, Q (.out m)
  inp : ∀ m, Q (.inp m)
  brz : ∀ c o, Q (.brz c o)
  brnz : ∀ c o, Q (.brnz c o)
  cimm : ∀ v c, Q (.copy (.tmp v) (.imm c))
  cmem : ∀ v m, Q (.copy (.tmp v) (.mem m))
  add : ∀ v a b, Q (.add (.tmp v) (.tmp a) (.tmp b))
  sub : ∀ v a b, Q (.sub (.tmp v) (.tmp a) (.tmp b))
  mul : ∀ v a b, Q (.mul (.tmp v) (.tmp a) (.tmp b))
  store : ∀ m v, Q (.copy (.mem m) (.tmp v))

section
variable {Q : Instr w → Prop} (E : EmitClosed Q)
include E

theorem allQ_getValue {e : GvnExpr w} {s s' : St w} {v : Nat} (h : AllQ Q s.insts)
    (hg : getValue e s = .ok (v, s')) : AllQ Q s'.insts := by
  rcases getValue_spec hg with ⟨_, rfl⟩ | ⟨_, N⟩
  · exact h
  · obtain ⟨s2, h2, rfl⟩ := N.reads
    have hi := readsSpec_insts _ h2
    simp only at hi ⊢
    rw [hi]
    apply allQ_push h
    cases e with
    | mem m => exact E.cmem _ _
    | imm c => exact E.cimm _ _
    | add a b => exact E.add _ _ _
    | sub a b => exact E.sub _ _ _
    | mul a b => exact E.mul _ _ _

theorem allQ_memWrite {var : Int} {x : Nat} {s s' : St w} {u : Unit} (h : AllQ Q s.insts)
    (hm : memWrite var x s = .ok (u, s')) : AllQ Q s'.insts := by
  obtain ⟨s0, e0, rfl⟩ := memWrite_spec hm
  simp only
  rw [e0.insts]
  exact allQ_push h (E.store _ _)

def QJ (Q : Instr w → Prop) (_c : Unit) (_ps : Nat) (_a : Analysis) (_l : List (Ir.Instr w)) (s : St w) : Prop :=
  AllQ Q s.insts

theorem closedI_allQ : ClosedI false (QJ (w := w) Q) where
  out := fun c ps a src rest s h => allQ_push h (E.out _)
  inp := fun c ps a dst rest s h => allQ_push h (E.inp _)
  calcR := fun c ps a calcs rest s vals s1 s' u h hc hm => by
    have k1 : AllQ Q s1.insts :=
      calcValues_pres0 (K := fun a => AllQ Q a.insts) (fun e a v a' hk hh => allQ_getValue E hk hh) calcs hc h
    exact memWrites_pres0 (K := fun a => AllQ Q a.insts) (fun var x a a' u hk hh => allQ_memWrite E hk hh) vals hm k1
  scan := fun c ps a cond shift once rest s hfu _ => absurd hfu (by decide)
  loop := fun c ps a cond shift body once rest s _ h => by
    obtain ⟨hs1i, _, _⟩ := lhPro_true_insts once (subOf shift body) s
    refine ⟨(), ?_, ?_⟩
    · show AllQ Q _
      rw [hs1i]
      cases once
      · exact allQ_push h E.noop
      · exact h
    · intro sb so u1 u2 fuel _ hb _ ho
      show AllQ Q _
      have hso : so.insts = (lhMov shift sb).insts := by
        have := (outerLoop_core ps fuel _ ho).1
        exact congrArg G.insts this
      have hm : AllQ Q (lhMov shift sb).insts := by
        unfold lhMov
        split
        · exact hb
        · exact allQ_push hb (E.mov shift)
      obtain ⟨_, _, _, o1, o2, hfi⟩ := loopEnd_fields once cond (subOf shift body) ps s
        (lhPro true once (lhHead true (subOf shift body) s)) so
      rw [hfi, hso]
      cases once
      · exact allQ_set (allQ_push hm (E.brnz _ _)) (E.brz _ _) _
      · exact allQ_push hm (E.brnz _ _)
  ifz := fun c ps a cond shift body rest s h => by
    refine ⟨(), allQ_push h E.noop, ?_⟩
    intro sb u1 _ hb _
    show AllQ Q _
    have hm : AllQ Q (lhMov shift sb).insts := by
      unfold lhMov
      split
      · exact hb
      · exact allQ_push hb (E.mov shift)
    obtain ⟨_, o2, hfi⟩ := ifEnd_fields cond shift (subOf shift body) ps s (lhPro false false s) sb
    rw [hfi]
    exact allQ_set hm (E.brz _ _) _

/-- Every instruction emitted without fusion satisfies `Q`. -/
theorem emit_allQ {prog : Ir.Block w} {s : St w} (h : emitState prog false = .ok s) : AllQ Q s.insts :=
  closedI_emitState (closedI_allQ E) h () (fun i x hx => by simp at hx)
end

/-- The instruction shapes present before `parameter_reordering` (without fusion): no `scan`, no `memZero`,
destinations are cells or temporaries, sources cells, temporaries or immediates. -/
def shape : Instr w → Bool
  | .scan _ _ => false
  | .copy d s => isMT d && isMTI s
  | .add d a b => isMT d && isMTI a && isMTI b
  | .sub d a b => isMT d && isMTI a && isMTI b
  | .mul d a b => isMT d && isMTI a && isMTI b
  | _ => true

def AllS (insts : Array (Instr w)) : Prop := ∀ (i : Nat) (x : Instr w), insts[i]? = some x → shape x = true

theorem allS_set {insts : Array (Instr w)} {x : Instr w} (h : AllS insts) (hx : shape x = true) (j : Nat) :
    AllS (insts.setIfInBounds j x) := by
  intro i y hy
  rw [Array.getElem?_setIfInBounds] at hy
  by_cases e : j = i
  · simp only [e, if_true] at hy
    split at hy
    · cases hy; exact hx
    · cases hy
  · simp only [e, if_false] at hy
    exact h i y hy

/-- Every replacement is a cell, a temporary or an immediate. -/
def ReplOk (repl : List (Nat × Loc w)) : Prop := ∀ p ∈ repl, isMTI p.2 = true

theorem replOk_get {repl : List (Nat × Loc w)} (h : ReplOk repl) {t : Nat} {l : Loc w}
    (hg : alGet repl t = some l) : isMTI l = true := by
  induction repl with
  | nil => simp [alGet] at hg
  | cons p rest ih =>
    obtain ⟨k, v⟩ := p
    simp only [alGet] at hg
    split at hg
    · cases hg; exact h (k, l) List.mem_cons_self
    · exact ih (fun q hq => h q (List.mem_cons_of_mem _ hq)) hg

theorem replOk_set {repl : List (Nat × Loc w)} (h : ReplOk repl) (t : Nat) {l : Loc w} (hl : isMTI l = true) :
    ReplOk (alSet repl t l) := by
  induction repl with
  | nil => intro p hp; simp only [alSet, List.mem_singleton] at hp; rw [hp]; exact hl
  | cons p rest ih =>
    obtain ⟨k, v⟩ := p
    simp only [alSet]
    split
    · intro q hq
      rcases List.mem_cons.1 hq with rfl | hq
      · exact hl
      · exact h q (List.mem_cons_of_mem _ hq)
    · intro q hq
      rcases List.mem_cons.1 hq with rfl | hq
      · exact h _ List.mem_cons_self
      · exact ih (fun q hq => h q (List.mem_cons_of_mem _ hq)) q hq

theorem replOk_erase {repl : List (Nat × Loc w)} (h : ReplOk repl) (t : Nat) : ReplOk (alErase repl t) := by
  induction repl with
  | nil => exact h
  | cons p rest ih =>
    obtain ⟨k, v⟩ := p
    simp only [alErase]
    split
    · exact fun q hq => h q (List.mem_cons_of_mem _ hq)
    · intro q hq
      rcases List.mem_cons.1 hq with rfl | hq
      · exact h _ List.mem_cons_self
      · exact ih (fun q hq => h q (List.mem_cons_of_mem _ hq)) q hq

/-- Every recorded live bitmap is below `B`. -/
def LivesLt (B : Nat) (live : Array Nat) : Prop := ∀ (j l : Nat), live[j]? = some l → l < B

structure AInv (B : Nat) (a : ASt w) : Prop where
  insts : AllS a.st.insts
  repl : ReplOk a.repl
  lives : LivesLt B a.st.live

theorem AInv.setI {B : Nat} {a : ASt w} (h : AInv B a) (i : Nat) {x : Instr w} (hx : shape x = true) :
    AInv B (a.setI i x) :=
  ⟨allS_set h.insts hx i, h.repl, h.lives⟩

theorem replSrc_ok {repl : List (Nat × Loc w)} (h : ReplOk repl) {l l' : Loc w} (hl : isMTI l = true)
    (hr : replSrc repl l = .ok l') : isMTI l' = true := by
  cases l with
  | tmp t =>
    simp only [replSrc] at hr
    cases hg : alGet repl t with
    | none => simp [hg] at hr
    | some v => simp only [hg, Except.ok.injEq] at hr; subst hr; exact replOk_get h hg
  | mem m => simp only [replSrc, Except.ok.injEq] at hr; subst hr; rfl
  | imm c => simp only [replSrc, Except.ok.injEq] at hr; subst hr; rfl
  | memZero m => cases hl

theorem rwInst_shape {repl : List (Nat × Loc w)} (h : ReplOk repl) {x y : Instr w} (hx : shape x = true)
    (hr : rwInst repl x = .ok y) : shape y = true := by
  cases x with
  | copy d s =>
    simp only [rwInst] at hr
    simp only [shape, Bool.and_eq_true] at hx
    cases h1 : replSrc repl s with
    | error e => simp [h1] at hr
    | ok s' =>
      simp only [h1, Except.ok.injEq] at hr; subst hr
      simp only [shape, Bool.and_eq_true]; exact ⟨hx.1, replSrc_ok h hx.2 h1⟩
  | add d a b =>
    simp only [rwInst, arith?] at hr
    simp only [shape, Bool.and_eq_true] at hx
    cases h1 : replSrc repl a with
    | error e => simp [h1] at hr
    | ok a' =>
      cases h2 : replSrc repl b with
      | error e => simp [h1, h2] at hr
      | ok b' =>
        simp only [h1, h2, Except.ok.injEq] at hr; subst hr
        simp only [mkArith, shape, Bool.and_eq_true]
        exact ⟨⟨hx.1.1, replSrc_ok h hx.1.2 h1⟩, replSrc_ok h hx.2 h2⟩
  | sub d a b =>
    simp only [rwInst, arith?] at hr
    simp only [shape, Bool.and_eq_true] at hx
    cases h1 : replSrc repl a with
    | error e => simp [h1] at hr
    | ok a' =>
      cases h2 : replSrc repl b with
      | error e => simp [h1, h2] at hr
      | ok b' =>
        simp only [h1, h2, Except.ok.injEq] at hr; subst hr
        simp only [mkArith, shape, Bool.and_eq_true]
        exact ⟨⟨hx.1.1, replSrc_ok h hx.1.2 h1⟩, replSrc_ok h hx.2 h2⟩
  | mul d a b =>
    simp only [rwInst, arith?] at hr
    simp only [shape, Bool.and_eq_true] at hx
    cases h1 : replSrc repl a with
    | error e => simp [h1] at hr
    | ok a' =>
      cases h2 : replSrc repl b with
      | error e => simp [h1, h2] at hr
      | ok b' =>
        simp only [h1, h2, Except.ok.injEq] at hr; subst hr
        simp only [mkArith, shape, Bool.and_eq_true]
        exact ⟨⟨hx.1.1, replSrc_ok h hx.1.2 h1⟩, replSrc_ok h hx.2 h2⟩
  | scan c s => cases hx
  | noop => simp only [rwInst, arith?, Except.ok.injEq] at hr; subst hr; rfl
  | mov s => simp only [rwInst, arith?, Except.ok.injEq] at hr; subst hr; rfl
  | inp s => simp only [rwInst, arith?, Except.ok.injEq] at hr; subst hr; rfl
  | out s => simp only [rwInst, arith?, Except.ok.injEq] at hr; subst hr; rfl
  | brz c s => simp only [rwInst, arith?, Except.ok.injEq] at hr; subst hr; rfl
  | brnz c s => simp only [rwInst, arith?, Except.ok.injEq] at hr; subst hr; rfl

theorem setDst_shape {x : Instr w} (hx : shape x = true) (t : Nat) : shape (setDst x (.tmp t)) = true := by
  cases x <;> simp_all [setDst, shape, isMT]

theorem mkArith_mem_shape {x : Instr w} (hx : shape x = true) {op : BcGen.Op} {d x0 x1 : Loc w}
    (ha : arith? x = some (op, d, x0, x1)) (m : Int) : shape (mkArith op (.mem m) x0 x1) = true := by
  cases x <;> simp only [arith?, Option.some.injEq, Prod.mk.injEq, reduceCtorEq] at ha <;>
    (obtain ⟨rfl, rfl, rfl, rfl⟩ := ha; simp_all [mkArith, shape, isMT])

theorem fuseSrcP_keep {f : Nat} {atf atf' : List Nat} {l : Loc w} {a a' : ASt w}
    (h : fuseSrcP f atf l a = .ok (atf', a')) :
    a'.st.insts = a.st.insts ∧ a'.repl = a.repl ∧ a'.st.live = a.st.live := by
  cases l with
  | tmp t =>
    simp only [fuseSrcP] at h
    cases he : extendTo a.st.ranges t f with
    | error e => simp [he] at h
    | ok rs =>
      simp only [he] at h
      split at h <;> (simp only [Except.ok.injEq, Prod.mk.injEq] at h; obtain ⟨_, rfl⟩ := h; exact ⟨rfl, rfl, rfl⟩)
  | _ => simp only [fuseSrcP, Except.ok.injEq, Prod.mk.injEq] at h; obtain ⟨_, rfl⟩ := h; exact ⟨rfl, rfl, rfl⟩

theorem freeOne_inv {B : Nat} (numRegs : Nat) {a : ASt w} (h : AInv B a) (t : Nat) :
    AInv B (freeOne numRegs a t) := by
  unfold freeOne
  split
  · split <;> exact ⟨h.insts, replOk_erase h.repl t, h.lives⟩
  · exact ⟨h.insts, replOk_erase h.repl t, h.lives⟩

/-- The bitmap starts with the `min numRegs 16` low bits set and only loses bits. -/
def liveBound (numRegs : Nat) : Nat := if numRegs < 16 then 2 ^ numRegs else 65536

theorem liveMask_lt {numRegs : Nat} {F : List Nat} {live : Nat} (h : liveMask numRegs F = .ok live) :
    live < liveBound numRegs := by
  unfold liveMask at h
  have key : ∀ (F : List Nat) (b live : Nat), F.foldlM (fun live var =>
      if var < 16 then
        if live < 2 ^ var then (Except.error "allocate_temps:live-underflow" : Except String Nat)
        else .ok (live - 2 ^ var)
      else .ok live) b = .ok live → live ≤ b := by
    intro F
    induction F with
    | nil => intro b live h; simp only [List.foldlM_nil] at h; cases h; exact Nat.le_refl _
    | cons v F ih =>
      intro b live h
      simp only [List.foldlM_cons] at h
      by_cases hv : v < 16
      · simp only [hv, if_true] at h
        by_cases hb : b < 2 ^ v
        · simp only [hb, if_true] at h; cases h
        · simp only [hb, if_false] at h
          exact Nat.le_trans (ih _ _ h) (Nat.sub_le _ _)
      · simp only [hv, if_false] at h
        exact ih _ _ h
  have := key F _ live h
  unfold liveBound
  split
  · rename_i hn
    simp only [hn, if_true] at this
    have : 0 < 2 ^ numRegs := Nat.pow_pos (by decide)
    omega
  · rename_i hn
    simp only [hn, if_false] at this
    omega

theorem freeFold_inv {B : Nat} (numRegs : Nat) : ∀ (ts : List Nat) {a : ASt w}, AInv B a →
    AInv B (ts.foldl (freeOne numRegs) a)
  | [], _, h => h
  | t :: ts, _, h => freeFold_inv numRegs ts (freeOne_inv numRegs h t)

/-- One round of `allocate_temps` keeps the shapes. -/
theorem allocStep_inv {numRegs i : Nat} {a a' : ASt w} {u : Unit} (h : allocStep numRegs i a = .ok (u, a'))
    (hI : AInv (liveBound numRegs) a) : AInv (liveBound numRegs) a' := by
  obtain ⟨atf0, a1, inst0, can, atf, aF, cur, new, live, h1, h2, h3, h4, h5, h6, h7⟩ := allocStep_ok h
  obtain ⟨n1, _, _⟩ := drainEnds_ok _ h1
  have I1 : AInv (liveBound numRegs) a1 :=
    ⟨by rw [n1.st]; exact hI.insts, by rw [n1.repl]; exact hI.repl, by rw [n1.st]; exact hI.lives⟩
  have hs0 : shape inst0 = true := I1.insts i inst0 h2
  -- fusion
  have IF : AInv (liveBound numRegs) aF := by
    rcases h3 with ⟨_, rfl⟩ | ⟨op, t, s0, s1, r, L, f, m, src, atf1, a1', a2, x, e1, e2, e3, e4, e5, e6, e7, e8, e9,
      e10, e11, e12⟩
    · exact I1
    · obtain ⟨k1, k1', k1''⟩ := fuseSrcP_keep e9
      obtain ⟨k2, k2', k2''⟩ := fuseSrcP_keep e10
      have I2 : AInv (liveBound numRegs) a2 :=
        ⟨by rw [k2, k1]; exact I1.insts, by rw [k2', k1']; exact I1.repl, by rw [k2'', k1'']; exact I1.lives⟩
      have I3 : AInv (liveBound numRegs) (fuseSt a2 i t L f m inst0) := by
        unfold fuseSt
        exact (AInv.setI (a := ({ a2 with repl := alSet a2.repl t (.mem m), nre := nrePush (L, t) a2.nre } : ASt w))
          ⟨I2.insts, replOk_set I2.repl t rfl, I2.lives⟩ f hs0).setI i rfl
      rw [e12]
      unfold retarget
      have hx : shape x = true := I3.insts f x e11
      split
      · rename_i op' d' x0 x1 ha
        exact I3.setI f (mkArith_mem_shape hx ha m)
      · exact I3
  have hcur : shape cur = true := IF.insts i cur h4
  have hnew : shape new = true := rwInst_shape IF.repl hcur h5
  have I5 : AInv (liveBound numRegs) (pushLive (atf.foldl (freeOne numRegs) (aF.setI i new)) live) := by
    have := freeFold_inv numRegs atf (IF.setI i hnew)
    refine ⟨this.insts, this.repl, ?_⟩
    intro j l hl
    simp only [pushLive] at hl
    rcases C02.AEmit.getElem?_push_cases hl with ⟨_, g⟩ | ⟨_, g⟩
    · exact this.lives j l g
    · rw [g]; exact liveMask_lt h6
  -- destination
  obtain ⟨x, hx, hd⟩ := phDst_ok h7
  have hsx : shape x = true := I5.insts i x hx
  rcases hd with ⟨_, rfl⟩ | ⟨t, _, r, _, hcase⟩
  · exact I5
  · rcases hcase with ⟨_, rfl⟩ | ⟨src, L, _, _, _, hsrc, rfl⟩ | ⟨_, u', hat⟩
    · exact I5.setI i rfl
    · refine ⟨allS_set I5.insts rfl i, replOk_set I5.repl t ?_, I5.lives⟩
      rcases hsrc with ⟨c, rfl⟩ | ⟨m, rfl, _⟩ <;> rfl
    · obtain ⟨r', L', x', _, _, _, hx', rfl⟩ := allocTemp_ok hat
      rw [hx] at hx'; cases hx'
      exact ⟨allS_set I5.insts (setDst_shape hsx _) i, replOk_set I5.repl t rfl, I5.lives⟩

/-- `allocate_temps` keeps the shapes. -/
theorem allocateTemps_shape {numRegs : Nat} {s s' : St w} (h : allocateTemps numRegs s = .ok s')
    (hs : AllS s.insts) (hl : s.live.size = 0) : AllS s'.insts ∧ LivesLt (liveBound numRegs) s'.live := by
  obtain ⟨tr, T, hs'⟩ := trace_of_allocateTemps h
  have key : ∀ k, k ≤ s.insts.size → AInv (liveBound numRegs) (tr k) := by
    intro k
    induction k with
    | zero =>
      intro _; rw [T.init]
      refine ⟨hs, fun p hp => by simp [initASt] at hp, ?_⟩
      intro j l hj
      have : j < s.live.size := by
        have := Array.getElem?_eq_some_iff.1 hj
        exact this.1
      omega
    | succ k ih =>
      intro hk
      obtain ⟨u, hstep⟩ := T.step k (by omega)
      exact allocStep_inv hstep (ih (by omega))
  rw [← hs']
  exact ⟨(key _ (Nat.le_refl _)).insts, (key _ (Nat.le_refl _)).lives⟩

end C03
end Hpbf
