/-
C11, part 3: reachability (`Reach`), history-instrumented runs (`Wr`), observational equality of
outcomes (`ObsEq`), the generic dataflow argument (`Flow`) and the run-level soundness theorems of the
checker, first for ARBITRARY solution arrays satisfying `initOk` / `liveOk` (`LocalFacts`, `InitFacts`,
`LiveFacts`), then instantiated in `Props/C11.lean` with the computed solutions tested by `BcWf.check`.
-/
import Hpbf.Proofs.C11Step

namespace Hpbf
namespace C11

open Bc BcWf

variable {w : Nat}

/-! ### definitions -/

/-- Configurations reachable by `Bc.step` from an initial configuration with ARBITRARY temporaries,
budget and state. -/
inductive Reach (p : Program w) (limited : Bool) : Cfg w → Prop
  | init (t0 : Temps w) (b : Nat) (s : State w) :
      Reach p limited { pc := 0, temps := t0, budget := b, st := s }
  | step {c c' : Cfg w} : Reach p limited c → Bc.step p limited c = .next c' → Reach p limited c'

/-- `Wr p limited c W`: `c` is reachable and `W` lists the temporaries written by the instructions
executed on the way (each executed instruction adds its `BcWf.defs`). -/
inductive Wr (p : Program w) (limited : Bool) : Cfg w → List Nat → Prop
  | init (t0 : Temps w) (b : Nat) (s : State w) :
      Wr p limited { pc := 0, temps := t0, budget := b, st := s } []
  | step {c c' : Cfg w} {W : List Nat} {ins : Instr w} :
      Wr p limited c W → p.insts[c.pc]? = some ins → Bc.step p limited c = .next c' →
      Wr p limited c' (defs ins ++ W)

/-- Tape offsets (relative to the pointer) an instruction may read or write. -/
def _root_.Hpbf.Bc.touched (ins : Instr w) : List Int := memOps ins

def _root_.Hpbf.Bc.Outcome.cfg : Outcome w → Cfg w
  | .done c => c
  | .stopped c => c
  | .interrupted c => c
  | .bad c => c
  | .outOfFuel c => c

def _root_.Hpbf.Bc.Outcome.tag : Outcome w → Nat
  | .done _ => 0
  | .stopped _ => 1
  | .interrupted _ => 2
  | .bad _ => 3
  | .outOfFuel _ => 4

/-- Same outcome constructor, same final pc, state (tape, pointer, environment, trace) and budget;
the temporaries may differ. -/
def ObsEq (o1 o2 : Outcome w) : Prop :=
  o1.tag = o2.tag ∧ o1.cfg.pc = o2.cfg.pc ∧ o1.cfg.st = o2.cfg.st ∧ o1.cfg.budget = o2.cfg.budget

theorem Wr.reach {p : Program w} {limited : Bool} {c : Cfg w} {W : List Nat}
    (h : Wr p limited c W) : Reach p limited c := by
  induction h with
  | init t0 b s => exact .init t0 b s
  | step _ _ hs ih => exact .step ih hs

theorem step_next_some {p : Program w} {limited : Bool} {c c' : Cfg w}
    (hs : Bc.step p limited c = .next c') : ∃ ins, p.insts[c.pc]? = some ins := by
  cases hi : p.insts[c.pc]? with
  | some ins => exact ⟨ins, rfl⟩
  | none =>
    unfold Bc.step at hs
    simp only [hi] at hs
    split at hs <;> cases hs

theorem Reach.wr {p : Program w} {limited : Bool} {c : Cfg w}
    (h : Reach p limited c) : ∃ W, Wr p limited c W := by
  induction h with
  | init t0 b s => exact ⟨[], .init t0 b s⟩
  | step _ hs ih =>
    obtain ⟨W, hW⟩ := ih
    obtain ⟨ins, hi⟩ := step_next_some hs
    exact ⟨_, .step hW hi hs⟩

/-! ### 1. branches stay inside the program, no `.bad` -/

theorem reach_pc_le {p : Program w} (L : LocalFacts p) {limited : Bool} {c : Cfg w}
    (h : Reach p limited c) : c.pc ≤ p.insts.size := by
  induction h with
  | init t0 b s => exact Nat.zero_le _
  | @step c c' _ hs ih =>
    obtain ⟨ins, hi⟩ := step_next_some hs
    rw [step_eq hi] at hs
    obtain ⟨ss, hss⟩ := Option.isSome_iff_exists.mp (L.succ hi)
    rcases stepI_pc hss hs with hj | ⟨hj, _⟩
    · exact succs_le (getElem?_lt hi) hss _ hj
    · omega

theorem step_not_bad_of_le {p : Program w} (L : LocalFacts p) {limited : Bool} {c : Cfg w}
    (hle : c.pc ≤ p.insts.size) (c' : Cfg w) : Bc.step p limited c ≠ .bad c' := by
  cases hi : p.insts[c.pc]? with
  | some ins =>
    rw [step_eq hi]
    exact stepI_not_bad (L.dst hi) (L.succ hi) c'
  | none =>
    have hge : p.insts.size ≤ c.pc := by
      by_cases hlt : c.pc < p.insts.size
      · simp [Array.getElem?_eq_getElem hlt] at hi
      · omega
    unfold Bc.step
    simp only [hi]
    have : c.pc = p.insts.size := by omega
    simp [this]

theorem reach_no_bad {p : Program w} (L : LocalFacts p) {limited : Bool} {c : Cfg w}
    (h : Reach p limited c) (c' : Cfg w) : Bc.step p limited c ≠ .bad c' :=
  step_not_bad_of_le L (reach_pc_le L h) c'

theorem runCfg_not_bad {p : Program w} (L : LocalFacts p) {limited : Bool} :
    ∀ (fuel : Nat) {c : Cfg w}, Reach p limited c → ∀ c', runCfg p limited fuel c ≠ .bad c' := by
  intro fuel
  induction fuel with
  | zero => intro c _ c'; simp [runCfg]
  | succ fuel ih =>
    intro c hc c'
    unfold runCfg
    cases hs : Bc.step p limited c with
    | next c1 => exact ih (.step hc hs) c'
    | halt c1 => simp
    | stop c1 => simp
    | interrupted c1 => simp
    | bad c1 => exact absurd hs (reach_no_bad L hc c1)

theorem run_not_bad {p : Program w} (L : LocalFacts p) (limited : Bool) (b fuel : Nat) (env : Env)
    (c' : Cfg w) : Bc.run p limited b fuel env ≠ .bad c' := by
  unfold Bc.run
  simp only
  split
  · simp
  · exact runCfg_not_bad L fuel (.init _ _ _) c'

/-! ### 2. tape frame at the level of `Bc.step` -/

/-- Every tape cell changed by a step is `ptr + o` for an `o ∈ touched ins` (whatever the result). -/
theorem step_frame {p : Program w} {limited : Bool} {c : Cfg w} {ins : Instr w}
    (hi : p.insts[c.pc]? = some ins) {x : Int} (hx : ∀ o ∈ Bc.touched ins, x ≠ c.st.ptr + o) :
    (Bc.step p limited c).cfg.st.tape.get x = c.st.tape.get x := by
  rw [step_eq hi]
  exact stepI_frame p limited c ins hx

theorem step_frame_none {p : Program w} {limited : Bool} {c : Cfg w}
    (hi : p.insts[c.pc]? = none) : (Bc.step p limited c).cfg = c := by
  unfold Bc.step
  simp only [hi]
  split <;> rfl

/-! ### generic forward dataflow argument -/

/-- `A i` is a set of temporaries attached to pc `i` such that an instruction only reads temporaries in
its set and the set of every successor is contained in the set of the instruction plus what it writes.
Both the definitely-initialised sets and the live-in sets have this shape. -/
structure Flow (p : Program w) (A : Nat → Nat → Prop) : Prop where
  uses : ∀ {i : Nat} {ins : Instr w}, p.insts[i]? = some ins → ∀ t ∈ uses ins, A i t
  flow : ∀ {i : Nat} {ins : Instr w}, p.insts[i]? = some ins →
    ∃ ss, succs p.insts.size i ins = some ss ∧ ∀ j ∈ ss, ∀ t, A j t → A i t ∨ t ∈ defs ins

theorem Flow.next {p : Program w} {A : Nat → Nat → Prop} (F : Flow p A) {limited : Bool}
    {c c' : Cfg w} {ins : Instr w} (hi : p.insts[c.pc]? = some ins)
    (hs : Bc.step p limited c = .next c') : ∀ t, A c'.pc t → A c.pc t ∨ t ∈ defs ins := by
  rw [step_eq hi] at hs
  obtain ⟨ss, hss, hfl⟩ := F.flow hi
  intro t ht
  rcases stepI_pc hss hs with hj | ⟨hj, _⟩
  · exact hfl _ hj t ht
  · rw [hj] at ht; exact Or.inl ht

/-- Everything in the set of the current pc has been written, if the entry set is empty. -/
theorem Flow.wr {p : Program w} {A : Nat → Nat → Prop} (F : Flow p A) (h0 : ∀ t, ¬ A 0 t)
    {limited : Bool} {c : Cfg w} {W : List Nat} (h : Wr p limited c W) : ∀ t, A c.pc t → t ∈ W := by
  induction h with
  | init t0 b s => intro t ht; exact absurd ht (h0 t)
  | step _ hi hs ih =>
    intro t ht
    rcases F.next hi hs t ht with h | h
    · exact List.mem_append_right _ (ih t h)
    · exact List.mem_append_left _ h

def CfgObs (c1 c2 : Cfg w) : Prop := c1.pc = c2.pc ∧ c1.st = c2.st ∧ c1.budget = c2.budget

/-- One step preserves agreement on the set of the current pc. -/
theorem Flow.step {p : Program w} {A : Nat → Nat → Prop} (F : Flow p A) (L : LocalFacts p)
    {limited : Bool} {c1 c2 : Cfg w} (h : Sim (A c1.pc) c1 c2) :
    (Bc.step p limited c1).tag = (Bc.step p limited c2).tag ∧
    CfgObs (Bc.step p limited c1).cfg (Bc.step p limited c2).cfg ∧
    ∀ c1' c2', Bc.step p limited c1 = .next c1' → Bc.step p limited c2 = .next c2' →
      Sim (A c1'.pc) c1' c2' := by
  cases hi : p.insts[c1.pc]? with
  | none =>
    have hi2 : p.insts[c2.pc]? = none := by rw [← h.pc]; exact hi
    have e1 : Bc.step p limited c1 = if c1.pc = p.insts.size then .halt c1 else .bad c1 := by
      unfold Bc.step; simp only [hi]
    have e2 : Bc.step p limited c2 = if c2.pc = p.insts.size then .halt c2 else .bad c2 := by
      unfold Bc.step; simp only [hi2]
    rw [e1, e2, ← h.pc]
    split
    · exact ⟨rfl, ⟨h.pc, h.st, h.budget⟩, fun _ _ h1 => by cases h1⟩
    · exact ⟨rfl, ⟨h.pc, h.st, h.budget⟩, fun _ _ h1 => by cases h1⟩
  | some ins =>
    have hi2 : p.insts[c2.pc]? = some ins := by rw [← h.pc]; exact hi
    have hsim := stepI_sim h p limited ins (L.dst hi) (F.uses hi)
    have hs1 := step_eq (limited := limited) hi
    have hs2 := step_eq (limited := limited) hi2
    rw [hs1, hs2]
    refine ⟨hsim.1, ⟨hsim.2.pc, hsim.2.st, hsim.2.budget⟩, ?_⟩
    intro c1' c2' h1 h2
    have hs := hsim.2
    rw [h1, h2] at hs
    refine hs.mono ?_
    intro t ht
    exact F.next hi (hs1.trans h1) t ht

/-- Runs from configurations that agree on the set of the current pc are observationally equal. -/
theorem Flow.run {p : Program w} {A : Nat → Nat → Prop} (F : Flow p A) (L : LocalFacts p)
    {limited : Bool} : ∀ (fuel : Nat) {c1 c2 : Cfg w}, Sim (A c1.pc) c1 c2 →
      ObsEq (runCfg p limited fuel c1) (runCfg p limited fuel c2) := by
  intro fuel
  induction fuel with
  | zero => intro c1 c2 h; exact ⟨rfl, h.pc, h.st, h.budget⟩
  | succ fuel ih =>
    intro c1 c2 h
    obtain ⟨htag, hobs, hnext⟩ := F.step L (limited := limited) h
    unfold runCfg
    cases h1 : Bc.step p limited c1 <;> cases h2 : Bc.step p limited c2 <;>
      simp only [h1, h2, StepRes.tag, reduceCtorEq, Nat.reduceEqDiff] at htag
    all_goals simp only [h1, h2, StepRes.cfg] at hobs
    · exact ih (hnext _ _ h1 h2)
    all_goals exact ⟨rfl, hobs⟩

/-! ### 4. initialisation -/

def initSet (I : Array (List Nat)) (i t : Nat) : Prop := t ∈ BcWf.getD I i

theorem initFlow {p : Program w} {I : Array (List Nat)} (N : InitFacts p I) : Flow p (initSet I) :=
  ⟨fun hi t ht => N.uses hi t ht, fun hi => N.flow hi⟩

theorem initSet_entry {p : Program w} {I : Array (List Nat)} (N : InitFacts p I) (t : Nat) :
    ¬ initSet I 0 t := by
  simp [initSet, N.entry]

theorem init_sound {p : Program w} {I : Array (List Nat)} (N : InitFacts p I) {limited : Bool}
    {c : Cfg w} {W : List Nat} (h : Wr p limited c W) {ins : Instr w}
    (hi : p.insts[c.pc]? = some ins) : ∀ t ∈ uses ins, t ∈ W :=
  fun t ht => (initFlow N).wr (initSet_entry N) h t (N.uses hi t ht)

/-- The invariant behind it: the definitely-initialised set of the current pc has been written. -/
theorem init_inv {p : Program w} {I : Array (List Nat)} (N : InitFacts p I) {limited : Bool}
    {c : Cfg w} {W : List Nat} (h : Wr p limited c W) : ∀ t ∈ BcWf.getD I c.pc, t ∈ W :=
  fun t ht => (initFlow N).wr (initSet_entry N) h t ht

theorem init_independent {p : Program w} {I : Array (List Nat)} (L : LocalFacts p) (N : InitFacts p I)
    (limited : Bool) (fuel b : Nat) (s : State w) (t0 t0' : Temps w) :
    ObsEq (runCfg p limited fuel { pc := 0, temps := t0, budget := b, st := s })
      (runCfg p limited fuel { pc := 0, temps := t0', budget := b, st := s }) :=
  (initFlow N).run L fuel ⟨rfl, rfl, rfl, fun t ht => absurd ht (initSet_entry N t)⟩

/-! ### 5. liveness -/

/-- Live-in set of pc `i` (empty at the exit). -/
def liveSet (p : Program w) (O : Array (List Nat)) (i t : Nat) : Prop :=
  ∃ ins, p.insts[i]? = some ins ∧ t ∈ liveIn ins (BcWf.getD O i)

theorem liveFlow {p : Program w} {numRegs : Nat} {O : Array (List Nat)} (V : LiveFacts p numRegs O) :
    Flow p (liveSet p O) := by
  constructor
  · intro i ins hi t ht
    exact ⟨ins, hi, mem_liveIn.mpr (Or.inl ht)⟩
  · intro i ins hi
    obtain ⟨ss, hss, hfl⟩ := V.flow hi
    refine ⟨ss, hss, ?_⟩
    intro j hj t ht
    obtain ⟨ij, hij, htj⟩ := ht
    have hO := hfl j hj ij hij t htj
    by_cases hd : t ∈ defs ins
    · exact Or.inr hd
    · exact Or.inl ⟨ins, hi, mem_liveIn.mpr (Or.inr ⟨hO, hd⟩)⟩

/-- General noninterference lemma: two configurations with equal pc/st/budget whose temporaries agree on
the live-in set of the pc step to results with the same constructor, equal pc/st/budget, and (for `.next`)
temporaries that agree on the live-in set of the new pc. -/
theorem live_step {p : Program w} {numRegs : Nat} {O : Array (List Nat)} (L : LocalFacts p)
    (V : LiveFacts p numRegs O) {limited : Bool} {c1 c2 : Cfg w} (h : Sim (liveSet p O c1.pc) c1 c2) :
    (Bc.step p limited c1).tag = (Bc.step p limited c2).tag ∧
    CfgObs (Bc.step p limited c1).cfg (Bc.step p limited c2).cfg ∧
    ∀ c1' c2', Bc.step p limited c1 = .next c1' → Bc.step p limited c2 = .next c2' →
      Sim (liveSet p O c1'.pc) c1' c2' :=
  (liveFlow V).step L h

theorem live_run {p : Program w} {numRegs : Nat} {O : Array (List Nat)} (L : LocalFacts p)
    (V : LiveFacts p numRegs O) {limited : Bool} (fuel : Nat) {c1 c2 : Cfg w}
    (h : Sim (liveSet p O c1.pc) c1 c2) :
    ObsEq (runCfg p limited fuel c1) (runCfg p limited fuel c2) :=
  (liveFlow V).run L fuel h

/-- A register temporary that is neither written by the non-branch instruction `i` nor declared live
across it is not in the live-in set of whatever is executed next. -/
theorem not_live_after {p : Program w} {numRegs : Nat} {O : Array (List Nat)}
    (V : LiveFacts p numRegs O) {limited : Bool} {c c' : Cfg w} {ins : Instr w} {t : Nat}
    (hi : p.insts[c.pc]? = some ins) (hb : isBranch ins = false) (hr : t < numRegs) (h16 : t < 16)
    (hd : t ∉ defs ins) (hbit : ((p.live[c.pc]?).getD 0).testBit t = false)
    (hs : Bc.step p limited c = .next c') : ¬ liveSet p O c'.pc t := by
  intro hl
  obtain ⟨ij, hij, hlj⟩ := hl
  have hs' := hs
  rw [step_eq hi] at hs'
  obtain ⟨ss, hss, hfl⟩ := V.flow hi
  have hO : t ∈ BcWf.getD O c.pc := by
    rcases stepI_pc hss hs' with hj | ⟨hj, _, hu, _⟩
    · exact hfl _ hj ij hij t hlj
    · rw [hj] at hij hlj
      rw [hi] at hij
      cases hij
      rcases mem_liveIn.mp hlj with h | ⟨h, _⟩
      · rw [hu] at h; cases h
      · exact h
  rcases V.declared hi hb t hO hr h16 with h | h
  · exact hd h
  · rw [hbit] at h; cases h

end C11
end Hpbf
