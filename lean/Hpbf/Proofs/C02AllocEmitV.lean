/-
C02 (`allocate_temps`), part 21: forward edges and pointer moves.

The table of values only contains values that are VISIBLE at the current position: not created inside a block
that has been closed by a `brz`, created after every pointer move, and (inside a loop whose analysis says
`has_shift`) created inside that loop.  Values are read only through the table or right after their creation,
so ranges never reach over the end of a closed block or over a pointer move.
-/
import Hpbf.Proofs.C02AllocEmitF
set_option linter.unusedSimpArgs false

namespace Hpbf
namespace C02
namespace AEmit

open Bc BcWf BcGen C11 C02Emit

variable {w : Nat}

/-! ### the expression code generator with an abstract notion of "valid operand" -/

section vis
variable {K : St w → Prop} {V : St w → Nat → Prop}
  (hg : ∀ (e : GvnExpr w) (s : St w) (v : Nat) (s' : St w), K s → (∀ a ∈ opsOf e, V s a) →
    getValue e s = .ok (v, s') → K s' ∧ V s' v ∧ ∀ a, V s a → V s' a)
  (hm : ∀ (var : Int) (x : Nat) (s s' : St w) (u : Unit), K s → V s x →
    memWrite var x s = .ok (u, s') → K s' ∧ ∀ a, V s a → V s' a)
include hg

theorem codegenVars_vis : ∀ (vs : List Int) (result : Nat) {s s' : St w} {r : Nat},
    codegenVars result vs s = .ok (r, s') → K s → V s result →
    K s' ∧ V s' r ∧ ∀ a, V s a → V s' a
  | [], result, s, s', r, h, hk, hr => by
    simp only [codegenVars, pure_ok] at h
    rw [h.1, h.2]; exact ⟨hk, hr, fun a ha => ha⟩
  | v :: vs, result, s, s', r, h, hk, hr => by
    simp only [codegenVars, bind_ok] at h
    obtain ⟨m, s1, h1, r1, s2, h2, h3⟩ := h
    obtain ⟨k1, v1, z1⟩ := hg _ _ _ _ hk (by simp [opsOf]) h1
    obtain ⟨k2, v2, z2⟩ := hg _ _ _ _ k1 (by
      intro a ha
      simp only [opsOf, List.mem_cons, List.not_mem_nil, or_false] at ha
      rcases ha with rfl | rfl
      · exact z1 _ hr
      · exact v1) h2
    obtain ⟨k3, v3, z3⟩ := codegenVars_vis vs r1 h3 k2 v2
    exact ⟨k3, v3, fun a ha => z3 a (z2 a (z1 a ha))⟩

theorem codegenPart_vis (var : Int) (p : Part w) {s s' : St w} {r : Nat}
    (h : codegenPart var p s = .ok (r, s')) (hk : K s) : K s' ∧ V s' r ∧ ∀ a, V s a → V s' a := by
  unfold codegenPart at h
  generalize Expr.stableSort (fun a b => decide (ordering var a ≤ ordering var b)) p.vars = sorted at h
  cases sorted with
  | nil => exact hg _ _ _ _ hk (by simp [opsOf]) h
  | cons v0 vs =>
    simp only [bind_ok] at h
    obtain ⟨r0, s1, h1, r1, s2, h2, h3⟩ := h
    obtain ⟨k1, v1, z1⟩ := hg _ _ _ _ hk (by simp [opsOf]) h1
    obtain ⟨k2, v2, z2⟩ := codegenVars_vis hg _ _ h2 k1 v1
    split at h3
    · rw [pure_ok] at h3; rw [h3.1, h3.2]; exact ⟨k2, v2, fun a ha => z2 a (z1 a ha)⟩
    · simp only [bind_ok] at h3
      obtain ⟨i, s3, h4, h5⟩ := h3
      obtain ⟨k3, v3, z3⟩ := hg _ _ _ _ k2 (by simp [opsOf]) h4
      obtain ⟨k4, v4, z4⟩ := hg _ _ _ _ k3 (by
        intro a ha
        simp only [opsOf, List.mem_cons, List.not_mem_nil, or_false] at ha
        rcases ha with rfl | rfl
        · exact z3 _ v2
        · exact v3) h5
      exact ⟨k4, v4, fun a ha => z4 a (z3 a (z2 a (z1 a ha)))⟩

theorem codegenRest_vis (var : Int) : ∀ (ps : List (Part w)) (result : Nat) {s s' : St w} {r : Nat},
    codegenRest var result ps s = .ok (r, s') → K s → V s result →
    K s' ∧ V s' r ∧ ∀ a, V s a → V s' a
  | [], result, s, s', r, h, hk, hr => by
    simp only [codegenRest, pure_ok] at h
    rw [h.1, h.2]; exact ⟨hk, hr, fun a ha => ha⟩
  | p :: ps, result, s, s', r, h, hk, hr => by
    simp only [codegenRest, bind_ok] at h
    obtain ⟨pr, s1, h1, h⟩ := h
    obtain ⟨k1, v1, z1⟩ := codegenPart_vis hg var p h1 hk
    have hops : ∀ a, (a = result ∨ a = pr) → V s1 a := by
      rintro a (rfl | rfl)
      · exact z1 _ hr
      · exact v1
    have key : ∀ (e : GvnExpr w) (r1 : Nat) (s2 : St w), opsOf e = [result, pr] →
        getValue e s1 = .ok (r1, s2) → codegenRest var r1 ps s2 = .ok (r, s') →
        K s' ∧ V s' r ∧ ∀ a, V s a → V s' a := by
      intro e r1 s2 he h2 h3
      obtain ⟨k2, v2, z2⟩ := hg _ _ _ _ k1 (by
        intro a ha; rw [he] at ha
        simp only [List.mem_cons, List.not_mem_nil, or_false] at ha; exact hops a ha) h2
      obtain ⟨k3, v3, z3⟩ := codegenRest_vis var ps r1 h3 k2 v2
      exact ⟨k3, v3, fun a ha => z3 a (z2 a (z1 a ha))⟩
    cases hn : isNegVar p with
    | true =>
      simp only [hn, if_true, bind_ok] at h
      obtain ⟨r1, s2, h2, h3⟩ := h
      exact key _ r1 s2 rfl h2 h3
    | false =>
      simp only [hn, Bool.false_eq_true, if_false, bind_ok] at h
      obtain ⟨r1, s2, h2, h3⟩ := h
      exact key _ r1 s2 rfl h2 h3

theorem getExprValue_vis (e : Expr w) (var : Int) {s s' : St w} {r : Nat}
    (h : getExprValue e var s = .ok (r, s')) (hk : K s) : K s' ∧ V s' r ∧ ∀ a, V s a → V s' a := by
  unfold getExprValue at h
  generalize orderParts var e = parts at h
  cases parts with
  | nil => exact hg _ _ _ _ hk (by simp [opsOf]) h
  | cons p0 ps =>
    simp only [bind_ok] at h
    obtain ⟨r0, s1, h1, h⟩ := h
    obtain ⟨k1, v1, z1⟩ := codegenPart_vis hg var p0 h1 hk
    cases hn : isNegVar p0 with
    | true =>
      simp only [hn, if_true, bind_ok] at h
      obtain ⟨z, s3, h4, r1, s2, h5, h3⟩ := h
      obtain ⟨k2, v2, z2⟩ := hg _ _ _ _ k1 (by simp [opsOf]) h4
      obtain ⟨k3, v3, z3⟩ := hg _ _ _ _ k2 (by
        intro a ha
        simp only [opsOf, List.mem_cons, List.not_mem_nil, or_false] at ha
        rcases ha with rfl | rfl
        · exact v2
        · exact z2 _ v1) h5
      obtain ⟨k4, v4, z4⟩ := codegenRest_vis hg var ps r1 h3 k3 v3
      exact ⟨k4, v4, fun a ha => z4 a (z3 a (z2 a (z1 a ha)))⟩
    | false =>
      simp only [hn, Bool.false_eq_true, if_false, pure_bind'] at h
      obtain ⟨k4, v4, z4⟩ := codegenRest_vis hg var ps r0 h k1 v1
      exact ⟨k4, v4, fun a ha => z4 a (z1 a ha)⟩

theorem calcValues_vis : ∀ (calcs : List (Int × Expr w)) {s s' : St w} {vals : List (Int × Nat)},
    calcValues calcs s = .ok (vals, s') → K s →
    K s' ∧ (∀ p ∈ vals, V s' p.2) ∧ ∀ a, V s a → V s' a
  | [], s, s', vals, h, hk => by
    simp only [calcValues, pure_ok] at h
    rw [h.1, h.2]; exact ⟨hk, (fun p hp => by cases hp), fun a ha => ha⟩
  | (v, e) :: rest, s, s', vals, h, hk => by
    simp only [calcValues, bind_ok, pure_ok] at h
    obtain ⟨x, s1, h1, r, s2, h2, rfl, rfl⟩ := h
    obtain ⟨k1, v1, z1⟩ := getExprValue_vis hg e v h1 hk
    obtain ⟨k2, v2, z2⟩ := calcValues_vis rest h2 k1
    refine ⟨k2, ?_, fun a ha => z2 a (z1 a ha)⟩
    intro p hp
    simp only [List.mem_cons] at hp
    rcases hp with rfl | hp
    · exact z2 _ v1
    · exact v2 p hp

omit hg in
include hm in
theorem memWrites_vis : ∀ (vals : List (Int × Nat)) {s s' : St w} {u : Unit},
    memWrites vals s = .ok (u, s') → K s → (∀ p ∈ vals, V s p.2) → K s' ∧ ∀ a, V s a → V s' a
  | [], s, s', u, h, hk, _ => by
    simp only [memWrites, pure_ok] at h
    rw [h.2]; exact ⟨hk, fun a ha => ha⟩
  | (v, x) :: rest, s, s', u, h, hk, hv => by
    simp only [memWrites, bind_ok] at h
    obtain ⟨_, s1, h1, h2⟩ := h
    obtain ⟨k1, z1⟩ := hm _ _ _ _ _ hk (hv (v, x) List.mem_cons_self) h1
    obtain ⟨k2, z2⟩ := memWrites_vis rest h2 k1 (fun p hp => z1 _ (hv p (List.mem_cons_of_mem _ hp)))
    exact ⟨k2, fun a ha => z2 a (z1 a ha)⟩

end vis

end AEmit
end C02
end Hpbf
