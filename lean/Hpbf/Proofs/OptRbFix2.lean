/-
Rebuild-round proofs, stage 5 (the fix for F13): the SEMANTIC half.  The syntactic property `TgtOkL l subs`
(`OptRbFixDefs.lean`: every node of a non-moving loop lists as `clobbered` all store / input targets of the loop's
body) implies `AnalInL G l subs` for EVERY guard `G`:
* `exec_frame_targets`: code that does not move the pointer changes only the cells in `OptFix.targetsL`;
* `head_frame`: the same at every head of a loop with shift `0`;
* `analInL_of_tgtOk`.
-/
import Hpbf.Proofs.OptRbFixDefs

namespace Hpbf
namespace OptProof
open Opt OptSem Ir

variable {w : Nat}

/-! ### frames -/

/-- Same pointer, and the same value in every cell whose offset is not in `T`. -/
def FrameT (T : List Int) (σ σ' : State w) : Prop :=
  σ'.ptr = σ.ptr ∧ ∀ x, x ∉ T → σ'.rd x = σ.rd x

theorem FrameT.refl (T : List Int) (σ : State w) : FrameT T σ σ := ⟨rfl, fun _ _ => rfl⟩

theorem FrameT.mono {T T' : List Int} {σ σ' : State w} (h : FrameT T σ σ') (hT : ∀ x, x ∈ T → x ∈ T') :
    FrameT T' σ σ' :=
  ⟨h.1, fun x hx => h.2 x (fun hm => hx (hT x hm))⟩

theorem FrameT.trans {T : List Int} {a b c : State w} (h1 : FrameT T a b) (h2 : FrameT T b c) : FrameT T a c :=
  ⟨h2.1.trans h1.1, fun x hx => (h2.2 x hx).trans (h1.2 x hx)⟩

theorem FrameT.mov0 {T : List Int} {a b : State w} (h : FrameT T a b) : FrameT T a (b.mov 0) := by
  rw [mov_zero]; exact h

theorem rd_eq_of_tape_ptr {σ σ' : State w} (hp : σ'.ptr = σ.ptr) (ht : σ'.tape = σ.tape) (x : Int) :
    σ'.rd x = σ.rd x := by
  show σ'.tape.get (σ'.ptr + x) = σ.tape.get (σ.ptr + x)
  rw [hp, ht]

theorem input_rd_ne (σ : State w) (dst x : Int) (h : x ≠ dst) : (σ.input dst).2.rd x = σ.rd x := by
  unfold State.input
  cases σ.env.readByte with
  | got b e =>
    show (σ.tape.set (σ.ptr + dst) _).get (σ.ptr + x) = σ.tape.get (σ.ptr + x)
    rw [Tape.get_set_ne]
    omega
  | failed e => rfl
  | absent => rfl

theorem doCalc_rd_notTarget (σ : State w) (g : List (Int × Expr w)) (x : Int)
    (h : x ∉ g.map (fun c => c.1)) : (doCalc σ g).rd x = σ.rd x := by
  show (doCalc σ g).tape.get ((doCalc σ g).ptr + x) = σ.tape.get (σ.ptr + x)
  rw [(C01Dse.doCalc_meta σ g).1]
  apply C01Dse.doCalc_get_notin
  intro ve hve e
  apply h
  have : ve.1 = x := by omega
  exact List.mem_map.2 ⟨ve, hve, this⟩

theorem targetsL_cons (i : Instr w) (rest : List (Instr w)) :
    OptFix.targetsL (i :: rest) = OptFix.targetsI i ++ OptFix.targetsL rest := by
  rw [OptFix.targetsL]

theorem noShiftI_loop {c sh : Int} {body : List (Instr w)} {o : Bool}
    (h : C01Dse.noShiftI (.loop c sh body o) = true) : sh = 0 ∧ C01Dse.noShiftL body = true := by
  simpa [C01Dse.noShiftI] using h

theorem noShiftI_ifnz {c sh : Int} {body : List (Instr w)}
    (h : C01Dse.noShiftI (.ifnz c sh body) = true) : sh = 0 ∧ C01Dse.noShiftL body = true := by
  simpa [C01Dse.noShiftI] using h

/-- (a) A list that does not move the pointer changes only its store / input targets. -/
theorem exec_frame_targets_aux {l : List (Instr w)} {σ : State w} {o : Out w} (h : Exec l σ o) :
    ∀ σ', o = .fin σ' → C01Dse.noShiftL l = true → FrameT (OptFix.targetsL l) σ σ' := by
  induction h with
  | cut => intro _ e; cases e
  | nil σ => intro _ e _; cases e; exact FrameT.refl _ _
  | @outOk src rest σ σ1 o ho _ ih =>
    intro σ' e hns
    have hm := C01Dse.output_meta σ src
    rw [ho] at hm
    have f1 : FrameT (OptFix.targetsL (.output src :: rest)) σ σ1 :=
      ⟨hm.1, fun x _ => rd_eq_of_tape_ptr hm.1 hm.2 x⟩
    refine f1.trans ((ih σ' e (C01Dse.noShiftL_cons hns).2).mono (fun x hx => ?_))
    rw [targetsL_cons]; exact List.mem_append_right _ hx
  | outFail => intro _ e; cases e
  | @inOk dst rest σ σ1 o ho _ ih =>
    intro σ' e hns
    have hp := C01Dse.input_ptr σ dst
    rw [ho] at hp
    have f1 : FrameT (OptFix.targetsL (.input dst :: rest)) σ σ1 := by
      refine ⟨hp, fun x hx => ?_⟩
      have hne : x ≠ dst := by
        intro e'; apply hx; rw [targetsL_cons, e']; simp [OptFix.targetsI]
      have := input_rd_ne σ dst x hne
      rw [ho] at this; exact this
    refine f1.trans ((ih σ' e (C01Dse.noShiftL_cons hns).2).mono (fun x hx => ?_))
    rw [targetsL_cons]; exact List.mem_append_right _ hx
  | inFail => intro _ e; cases e
  | @«calc» g rest σ o _ ih =>
    intro σ' e hns
    have f1 : FrameT (OptFix.targetsL (.calc g :: rest)) σ (doCalc σ g) := by
      refine ⟨(C01Dse.doCalc_meta σ g).1, fun x hx => doCalc_rd_notTarget σ g x (fun hm => hx ?_)⟩
      rw [targetsL_cons]; exact List.mem_append_left _ (by simpa [OptFix.targetsI] using hm)
    refine f1.trans ((ih σ' e (C01Dse.noShiftL_cons hns).2).mono (fun x hx => ?_))
    rw [targetsL_cons]; exact List.mem_append_right _ hx
  | loopSkip _ _ ih =>
    intro σ' e hns
    refine (ih σ' e (C01Dse.noShiftL_cons hns).2).mono (fun x hx => ?_)
    rw [targetsL_cons]; exact List.mem_append_right _ hx
  | @loopIter c sh body once rest σ σ1 o _ _ _ ihb ihl =>
    intro σ' e hns
    obtain ⟨hsh, hnb⟩ := noShiftI_loop (C01Dse.noShiftL_cons hns).1
    subst hsh
    have f1 : FrameT (OptFix.targetsL (.loop c 0 body once :: rest)) σ (σ1.mov 0) := by
      refine ((ihb σ1 rfl hnb).mono (fun x hx => ?_)).mov0
      rw [targetsL_cons]; exact List.mem_append_left _ (by rw [OptFix.targetsI]; exact hx)
    exact f1.trans (ihl σ' e hns)
  | loopIn _ _ hnf => intro _ e; subst e; cases hnf
  | ifSkip _ _ ih =>
    intro σ' e hns
    refine (ih σ' e (C01Dse.noShiftL_cons hns).2).mono (fun x hx => ?_)
    rw [targetsL_cons]; exact List.mem_append_right _ hx
  | @ifIter c sh body rest σ σ1 o _ _ _ ihb ihr =>
    intro σ' e hns
    obtain ⟨hsh, hnb⟩ := noShiftI_ifnz (C01Dse.noShiftL_cons hns).1
    subst hsh
    have f1 : FrameT (OptFix.targetsL (.ifnz c 0 body :: rest)) σ (σ1.mov 0) := by
      refine ((ihb σ1 rfl hnb).mono (fun x hx => ?_)).mov0
      rw [targetsL_cons]; exact List.mem_append_left _ (by rw [OptFix.targetsI]; exact hx)
    refine f1.trans ((ihr σ' e (C01Dse.noShiftL_cons hns).2).mono (fun x hx => ?_))
    rw [targetsL_cons]; exact List.mem_append_right _ hx
  | ifIn _ _ hnf => intro _ e; subst e; cases hnf

theorem exec_frame_targets {l : List (Instr w)} {σ σ' : State w} (hns : C01Dse.noShiftL l = true)
    (h : Exec l σ (.fin σ')) : σ'.ptr = σ.ptr ∧ ∀ x, x ∉ OptFix.targetsL l → σ'.rd x = σ.rd x :=
  exec_frame_targets_aux h σ' rfl hns

/-- (b) The same at every head of a loop that does not move the pointer. -/
theorem head_frame {c : Int} {body : List (Instr w)} {σ σk : State w} {k : Nat}
    (hns : C01Dse.noShiftL body = true) (h : Head c 0 body σ k σk) :
    σk.ptr = σ.ptr ∧ ∀ x, x ∉ OptFix.targetsL body → σk.rd x = σ.rd x := by
  induction h with
  | zero => exact FrameT.refl _ _
  | succ _ _ hb ih =>
    exact FrameT.trans ih (FrameT.mov0 (exec_frame_targets hns hb))

/-! ### unfolding `TgtOkL` -/

theorem tgtOkL_cons_nonblock {i : Instr w} (hb : C01Dse.isBlock i = false) (rest : List (Instr w))
    (subs : List (OptAnalysis w)) : TgtOkL (i :: rest) subs ↔ TgtOkL rest subs := by
  cases subs <;> (rw [TgtOkL, hb]; simp)

theorem tgtOkL_cons_block {i : Instr w} (hb : C01Dse.isBlock i = true) (rest : List (Instr w))
    (A : OptAnalysis w) (subs : List (OptAnalysis w)) :
    TgtOkL (i :: rest) (A :: subs) ↔ TgtOkI i A ∧ TgtOkL rest subs := by
  rw [TgtOkL, hb]; simp

theorem tgtOkI_loop {c sh : Int} {body : List (Instr w)} {o : Bool} {A : OptAnalysis w}
    (h : TgtOkI (.loop c sh body o) A) :
    A.loopAnal.atMostOnce = false ∧
      (A.hasShift = false → sh = 0 ∧ C01Dse.noShiftL body = true ∧
        ∀ x ∈ OptFix.targetsL body, A.clobbered.contains x = true) ∧
      TgtOkL body A.subBlocks := by
  cases A with
  | mk L hs r cl subs => rw [TgtOkI] at h; exact h

theorem tgtOkI_ifnz {c sh : Int} {body : List (Instr w)} {A : OptAnalysis w}
    (h : TgtOkI (.ifnz c sh body) A) : TgtOkL body A.subBlocks := by
  cases A with
  | mk L hs r cl subs => rw [TgtOkI] at h; exact h

/-! ### the semantic half -/

mutual
theorem analInI_of_tgtOk : ∀ (i : Instr w) (A : OptAnalysis w) (G : State w → Prop),
    TgtOkI i A → AnalInI G i A
  | .output _, _, _, _ => by rw [AnalInI] <;> simp
  | .input _, _, _, _ => by rw [AnalInI] <;> simp
  | .calc _, _, _, _ => by rw [AnalInI] <;> simp
  | .loop c sh body o, A, G, h => by
    obtain ⟨hamo, hcl, hsub⟩ := tgtOkI_loop h
    rw [analInI_loop]
    refine ⟨blockIn_loop_of hamo (fun hhs σ _ k σk hh => ?_), analInL_of_tgtOk body A.subBlocks _ hsub⟩
    obtain ⟨hsh, hns, hcont⟩ := hcl hhs
    subst hsh
    obtain ⟨hp, hrd⟩ := head_frame hns hh
    refine ⟨hp, fun x hx => hrd x (fun hm => ?_)⟩
    rw [hcont x hm] at hx
    cases hx
  | .ifnz c sh body, A, G, h =>
    analInI_ifnz_of (analInL_of_tgtOk body A.subBlocks _ (tgtOkI_ifnz h))
theorem analInL_of_tgtOk : ∀ (l : List (Instr w)) (subs : List (OptAnalysis w)) (G : State w → Prop),
    TgtOkL l subs → AnalInL G l subs
  | [], subs, G, _ => analInL_nil G subs
  | i :: rest, subs, G, h => by
    cases hb : C01Dse.isBlock i with
    | false =>
      rw [analInL_cons_nonblock G hb]
      exact analInL_of_tgtOk rest subs _ ((tgtOkL_cons_nonblock hb rest subs).1 h)
    | true =>
      cases subs with
      | nil => exact analInL_cons_block_nil G hb rest
      | cons A subs' =>
        rw [analInL_cons_block G hb]
        obtain ⟨h1, h2⟩ := (tgtOkL_cons_block hb rest A subs').1 h
        exact ⟨analInI_of_tgtOk i A G h1, analInL_of_tgtOk rest subs' _ h2⟩
end

/-! ### axioms -/

#print axioms exec_frame_targets
#print axioms head_frame
#print axioms analInL_of_tgtOk

end OptProof
end Hpbf
