/-
C03 (control flow), stage 2: the static context of a compiled program (`Ctx`), where the code of each
bytecode instruction sits (`InstrAt`), and the invariant that holds at instruction boundaries (`Inv`).
-/
import Hpbf.Proofs.C03FlowBase
namespace Hpbf
namespace C03
open Asm JitGen X86Sem X86Prog
variable {w : Nat}

/-! ### The static context of a compiled program -/

/-- A bytecode program, its compilation and the machine parameters it runs under. -/
structure Ctx (w : Nat) where
  p : Bc.Program w
  limited : Bool
  safe : Bool
  cfg : Cfg
  code : List X86
  C : Compiled p limited safe cfg.aE.toNat cfg.aI.toNat cfg.aO.toNat code
  hfetch : cfg.fetch = fetchList code
  hsmall : sizeAll code < 2 ^ 31
  hIO : cfg.aI ≠ cfg.aO
  hEI : cfg.aE ≠ cfg.aI
  hEO : cfg.aE ≠ cfg.aO
  hlive : p.live.size = p.insts.size

namespace Ctx
variable (K : Ctx w)

/-- Byte offset of the code of bytecode instruction `i`. -/
def loc (i : Nat) : Nat := locOf K.p K.C.body i
/-- Byte offset of the termination label. -/
def term : Nat := termOf K.p K.C.body
/-- Number of bytecode instructions. -/
def n : Nat := K.p.insts.size

theorem hszb : K.C.sz.bits = w := ofBits_eq.1 K.C.hsz

theorem body_length : K.C.body.length = K.n := emitProgram_length K.C.hbody K.hlive

end Ctx

/-- What the layout says about bytecode instruction `i`. -/
structure InstrAt (K : Ctx w) (i : Nat) (ins : Bc.Instr w) (lv : Nat) (its : List Item) (xs : List X86) :
    Prop where
  live : K.p.live[i]? = some lv
  emit : emitInstr K.C.sz K.limited K.safe K.p.minAcc K.p.maxAcc K.cfg.aE.toNat K.cfg.aI.toNat
    K.cfg.aO.toNat i lv ins = some its
  body : K.C.body[i]? = some its
  res : resolveItems (locsOf K.p K.C.body) K.term (K.loc i) its = some xs
  at_ : At K.cfg K.code (K.loc i) xs
  next : K.loc (i + 1) = K.loc i + itemsSize its
  lt : i < K.n

theorem Ctx.instrAt (K : Ctx w) {i : Nat} {ins : Bc.Instr w} (hi : K.p.insts[i]? = some ins) :
    ∃ lv its xs, InstrAt K i ins lv its xs := by
  have hlt : i < K.p.insts.size := by
    rcases Nat.lt_or_ge i K.p.insts.size with h | h
    · exact h
    · rw [Array.getElem?_eq_none h] at hi; cases hi
  have hlv : ∃ lv, K.p.live[i]? = some lv := ⟨K.p.live[i]'(by rw [K.hlive]; exact hlt), by
    rw [Array.getElem?_eq_getElem]⟩
  obtain ⟨lv, hlv⟩ := hlv
  obtain ⟨its, hb, he⟩ := emitProgram_getElem? K.C.hbody hi hlv
  obtain ⟨cpre, xs, cpost, h1, h2, h3⟩ := layout_at K.C hb
  exact ⟨lv, its, xs, hlv, he, hb, h3, ⟨K.hfetch, cpre, cpost, h1, h2⟩, offAt_succ _ _ hb, hlt⟩

/-- After the last instruction. -/
theorem Ctx.at_end (K : Ctx w) : At K.cfg K.code (K.loc K.n) (epilogueHead ++ epilogueTail K.p.temps) := by
  obtain ⟨cpre, h1, h2⟩ := layout_end K.C
  refine ⟨K.hfetch, cpre, [], by rw [h1]; simp, ?_⟩
  rw [h2, Ctx.loc, K.body_length]

theorem Ctx.term_eq (K : Ctx w) : K.term = K.loc K.n + sizeAll epilogueHead := by
  simp [Ctx.term, termOf, Ctx.loc, K.body_length]

theorem Ctx.at_term (K : Ctx w) : At K.cfg K.code K.term (epilogueTail K.p.temps) := by
  rw [K.term_eq]; exact K.at_end.drop

/-! ### The invariant at an instruction boundary -/

/-- The activation record of the compiled function: the value of `rsp` in the body and the seven slots
above the temporaries (`r15 r14 r13 r12 rbx rbp` of the caller, return address). -/
structure Frame where
  rsp : BitVec 64
  saved : List (BitVec 64)

/-- `rbp` is where the machine's bookkeeping says it is: `buffer + cell size * (lptr - base)`. -/
def Phys (s : PState w) : Prop :=
  s.regs.rbp = s.buf + BitVec.ofInt 64 (cellBytes w * (s.lptr - s.base))

theorem Phys.of_eq {s s' : PState w} (h : Phys s) (h1 : s'.regs.get .rbp = s.regs.get .rbp)
    (h2 : s'.buf = s.buf) (h3 : s'.lptr = s.lptr) (h4 : s'.base = s.base) : Phys s' := by
  unfold Phys at *
  have : s'.regs.rbp = s'.regs.get .rbp := rfl
  rw [this, h1, h2, h3, h4]; exact h

/-- Everything but the register/stack/tape agreement (`Rel`), which the theorems state separately. -/
structure Inv (K : Ctx w) (fr : Frame) (c : Bc.Cfg w) (s : PState w) : Prop where
  pc : s.pc = K.loc c.pc
  rbx : s.regs.rbx = K.cfg.cxtAddr
  env : s.env = c.st.env
  trace : s.trace = c.st.trace
  budget : s.budget.toNat = c.budget
  tapeOk : s.tapeOk = true
  rsp : s.regs.rsp = fr.rsp
  align : fr.rsp.toNat % 16 = 0
  len : s.stk.length = alignedTemps K.p.temps + fr.saved.length
  saved : s.stk.drop (alignedTemps K.p.temps) = fr.saved
  phys : Phys s


/-! ### States that differ only in program counter, flags and `oob` -/

structure SameBut (s s' : PState w) : Prop where
  regs : s'.regs = s.regs
  tape : s'.tape = s.tape
  stk : s'.stk = s.stk
  ctl : SameCtl s s'

theorem SameBut.rfl' (s : PState w) : SameBut s s := ⟨rfl, rfl, rfl, SameCtl.rfl' s⟩

theorem SameBut.trans {a b c : PState w} (h1 : SameBut a b) (h2 : SameBut b c) : SameBut a c :=
  ⟨h2.regs.trans h1.regs, h2.tape.trans h1.tape, h2.stk.trans h1.stk, h1.ctl.trans h2.ctl⟩

theorem SameBut.view_regs {s s' : PState w} (h : SameBut s s') : (view s').regs = (view s).regs := by
  simp [view, h.regs]
theorem SameBut.view_tape {s s' : PState w} (h : SameBut s s') : (view s').tape = (view s).tape := by
  simp [view, h.tape, h.ctl.lptr]
theorem SameBut.view_stack {s s' : PState w} (h : SameBut s s') : (view s').stack = (view s).stack := by
  simp [view, h.stk]

theorem relOn_of_view {S : Nat → Prop} {c : Bc.Cfg w} {m m' : MState w} (h : RelOn S c m)
    (h1 : m'.regs = m.regs) (h2 : m'.tape = m.tape) (h3 : m'.stack = m.stack) : RelOn S c m' := by
  unfold RelOn at *; rw [h1, h2, h3]; exact h

theorem rel_of_view {c : Bc.Cfg w} {m m' : MState w} (h : Rel c m)
    (h1 : m'.regs = m.regs) (h2 : m'.tape = m.tape) (h3 : m'.stack = m.stack) : Rel c m' := by
  unfold Rel at *; rw [h1, h2, h3]; exact h

theorem SameBut.rel {s s' : PState w} (h : SameBut s s') {c : Bc.Cfg w} (hr : Rel c (view s)) :
    Rel c (view s') := rel_of_view hr h.view_regs h.view_tape h.view_stack

/-- `Rel` does not look at the program counter of the bytecode configuration. -/
theorem rel_pc {c : Bc.Cfg w} {m : MState w} (h : Rel c m) (n : Nat) : Rel { c with pc := n } m := h

/-! ### Single instructions -/

theorem jumpTo_eq {s : PState w} {x : X86} {d : Int} {t : Nat} (h : (s.pc : Int) + x.size + d = t) :
    jumpTo s x d = .next { s with pc := t } := by
  unfold jumpTo
  simp only [h]
  rw [if_pos (by omega)]
  simp

/-- `cmp [cell], 0` at the cell width: ZF says whether the cell is zero; nothing else changes. -/
theorem step_cmpZero {cfg : Cfg} {code : List X86} {sz : Size} (hsz : sz.bits = w) {idx : Int}
    (hidx : -2147483648 ≤ idx ∧ idx < 2147483648) {rest : List X86} {s : PState w}
    (hat : At cfg code s.pc (cmpZero sz idx :: rest)) (hfit : (cmpZero sz idx).fits = true) :
    ∃ s', step cfg s = .next s' ∧ s'.zf = some (decide ((view s).tape idx = 0#w)) ∧
      s'.pc = s.pc + (cmpZero sz idx).size ∧ SameBut s s' := by
  rw [step_at hat]
  unfold stepInstr
  rw [if_neg (by simp [hfit])]
  simp only [cmpZero, stepCmpImm]
  rw [resolve_memParam hsz hidx.1 hidx.2]
  simp only [readPlace_cell _ hsz]
  refine ⟨_, rfl, ?_, rfl, ⟨rfl, rfl, rfl, ⟨rfl, rfl, rfl, rfl, rfl, rfl, rfl, rfl, rfl, rfl⟩⟩⟩
  simp only [PState.adv, cmpFlags, alu, immVal_zero]
  have hw : w ≤ 64 := sz_le hsz
  congr 1
  rw [hsz]
  have e : trunc w (BitVec.setWidth 64 ((view s).tape idx)) = BitVec.setWidth 64 ((view s).tape idx) := by
    unfold trunc
    rw [BitVec.setWidth_setWidth_of_le _ hw, BitVec.setWidth_eq]
  have e0 : trunc w (0#64) = 0#64 := by simp [trunc]
  rw [e, e0, BitVec.sub_zero, e]
  by_cases hz : (view s).tape idx = 0#w
  · simp [hz]
  · simp only [hz, decide_false, beq_eq_false_iff_ne, ne_eq]
    intro h0
    apply hz
    have := congrArg (BitVec.setWidth w) h0
    rw [BitVec.setWidth_setWidth_of_le _ hw, BitVec.setWidth_eq] at this
    rw [this]; simp

/-- `jcc rel32` on ZF. -/
theorem step_jcc_zf {cfg : Cfg} {code : List X86} {pr : JmpPred} {d : Int} {rest : List X86}
    {s : PState w} (hat : At cfg code s.pc (.jccRel32 pr d :: rest)) (hfit : (X86.jccRel32 pr d).fits = true)
    {z : Bool} (hz : s.zf = some z) (hpr : pr = .equal ∨ pr = .notEqual) {t : Nat}
    (ht : (s.pc : Int) + 6 + d = t) :
    step cfg s = .next { s with pc := if (z = (pr == .equal)) then t else s.pc + 6 } := by
  rw [step_at hat]
  unfold stepInstr
  rw [if_neg (by simp [hfit])]
  simp only [stepJcc]
  have hj : jumpTo s (.jccRel32 pr d) d = .next { s with pc := t } := jumpTo_eq (by simpa using ht)
  rcases hpr with rfl | rfl <;> cases z <;> simp [X86Prog.cond, hz, hj, PState.adv]


/-! ### Exact displacements, from `resolve` -/

theorem Ctx.loc_le (K : Ctx w) {i : Nat} (h : i ≤ K.n) : K.loc i ≤ K.loc K.n := by
  have := locOf_le (p := K.p) K.C.body (i := i) (by rw [K.body_length]; exact h)
  rwa [K.body_length] at this

theorem Ctx.size_eq (K : Ctx w) : sizeAll K.code = K.term + sizeAll (epilogueTail K.p.temps) := code_size K.C

theorem Ctx.resolve_jccInstr (K : Ctx w) {pos : Nat} {pr : JmpPred} {tgt : Int} {xs : List X86}
    (h : JitGen.resolve (locsOf K.p K.C.body) K.term pos (.jccInstr pr tgt) = some xs)
    (hpos : pos + 6 ≤ K.loc K.n) :
    ∃ d, xs = [.jccRel32 pr d] ∧ 0 ≤ tgt ∧ tgt.toNat ≤ K.n ∧ (pos : Int) + 6 + d = K.loc tgt.toNat ∧
      (X86.jccRel32 pr d).fits = true := by
  simp only [JitGen.resolve] at h
  split at h
  · cases h
  · rename_i hneg
    rw [locsOf_getElem?] at h
    by_cases hle : tgt.toNat ≤ K.C.body.length
    · simp only [hle, if_true, Option.some.injEq] at h
      subst h
      have hsz := K.size_eq
      have hsm := K.hsmall
      have hT := K.term_eq
      have hl := K.loc_le (i := tgt.toNat) (by rw [← K.body_length]; exact hle)
      refine ⟨_, rfl, by omega, by rw [← K.body_length]; exact hle, ?_⟩
      simp only [Ctx.loc] at *
      rw [i32_eq (by push_cast; omega) (by push_cast; omega)]
      refine ⟨by push_cast; omega, ?_⟩
      simp only [X86.fits, fitsS, Bool.and_eq_true, decide_eq_true_eq]
      constructor <;> (push_cast; omega)
    · simp [hle] at h

theorem Ctx.resolve_jccTerm (K : Ctx w) {pos : Nat} {pr : JmpPred} {xs : List X86}
    (h : JitGen.resolve (locsOf K.p K.C.body) K.term pos (.jccTerm pr) = some xs)
    (hpos : pos + 6 ≤ K.loc K.n) :
    ∃ d, xs = [.jccRel32 pr d] ∧ (pos : Int) + 6 + d = K.term ∧ (X86.jccRel32 pr d).fits = true := by
  simp only [JitGen.resolve, Option.some.injEq] at h
  subst h
  have hsz := K.size_eq
  have hsm := K.hsmall
  have hT := K.term_eq
  refine ⟨_, rfl, ?_⟩
  rw [i32_eq (by push_cast; omega) (by push_cast; omega)]
  refine ⟨by push_cast; omega, ?_⟩
  simp only [X86.fits, fitsS, Bool.and_eq_true, decide_eq_true_eq]
  constructor <;> (push_cast; omega)

theorem resolveItems_plain_cons {locs : Array Nat} {term pos : Nat} {x : X86} {its : List Item}
    {xs : List X86} (h : resolveItems locs term pos (.plain x :: its) = some xs) :
    ∃ ys, xs = x :: ys ∧ resolveItems locs term (pos + x.size) its = some ys := by
  obtain ⟨a, b, h1, h2, h3⟩ := resolveItems_cons _ _ _ h
  simp only [JitGen.resolve, Option.some.injEq] at h1
  subst h1
  exact ⟨b, by simpa using h3, h2⟩

theorem resolveItems_plains {locs : Array Nat} {term pos : Nat} {ps : List X86} {its : List Item}
    {xs : List X86} (h : resolveItems locs term pos (plains ps ++ its) = some xs) :
    ∃ ys, xs = ps ++ ys ∧ resolveItems locs term (pos + sizeAll ps) its = some ys := by
  induction ps generalizing pos xs with
  | nil => exact ⟨xs, rfl, by simpa [plains] using h⟩
  | cons p ps ih =>
    simp only [plains, List.map_cons, List.cons_append] at h
    obtain ⟨ys, h1, h2⟩ := resolveItems_plain_cons h
    obtain ⟨zs, h3, h4⟩ := ih (by simpa [plains] using h2)
    exact ⟨zs, by rw [h1, h3]; rfl, by rw [sizeAll_cons, ← Nat.add_assoc]; exact h4⟩

theorem resolveItems_nil' {locs : Array Nat} {term pos : Nat} {xs : List X86}
    (h : resolveItems locs term pos [] = some xs) : xs = [] := by
  simp [resolveItems] at h; exact h


/-! ### States that agree on everything `Rel` can see -/

/-- `s'` agrees with `s` on every register but the scratch registers `rax`, `rcx`, on tape and stack and
on the layout of the tape; flags, `pc`, `oob`, `budget` and `off` are free. -/
structure SameTmp (s s' : PState w) : Prop where
  regs : ∀ r, r ≠ .rax → r ≠ .rcx → s'.regs.get r = s.regs.get r
  tape : s'.tape = s.tape
  stk : s'.stk = s.stk
  lptr : s'.lptr = s.lptr
  tapeOk : s'.tapeOk = s.tapeOk
  buf : s'.buf = s.buf
  size : s'.size = s.size
  base : s'.base = s.base
  env : s'.env = s.env
  trace : s'.trace = s.trace

theorem SameTmp.rfl' (s : PState w) : SameTmp s s := ⟨fun _ _ _ => rfl, rfl, rfl, rfl, rfl, rfl, rfl, rfl, rfl, rfl⟩

theorem SameTmp.trans {a b c : PState w} (h1 : SameTmp a b) (h2 : SameTmp b c) : SameTmp a c :=
  ⟨fun r hr hr' => (h2.regs r hr hr').trans (h1.regs r hr hr'), h2.tape.trans h1.tape, h2.stk.trans h1.stk,
   h2.lptr.trans h1.lptr, h2.tapeOk.trans h1.tapeOk, h2.buf.trans h1.buf, h2.size.trans h1.size,
   h2.base.trans h1.base, h2.env.trans h1.env, h2.trace.trans h1.trace⟩

theorem SameBut.sameTmp {s s' : PState w} (h : SameBut s s') : SameTmp s s' :=
  ⟨fun r _ _ => by rw [h.regs], h.tape, h.stk, h.ctl.lptr, h.ctl.tapeOk, h.ctl.buf, h.ctl.size, h.ctl.base,
   h.ctl.env, h.ctl.trace⟩

theorem SameTmp.relOn {s s' : PState w} (h : SameTmp s s') {S : Nat → Prop} {c : Bc.Cfg w}
    (hr : RelOn S c (view s)) : RelOn S c (view s') := by
  refine ⟨fun t r htr hS => ?_, fun t ht => ?_, fun o => ?_⟩
  · obtain ⟨hlt, rfl⟩ := tmpReg_eq_some.1 htr
    have hne := treg_ne hlt
    have := hr.1 t _ htr hS
    simp only [view] at this ⊢
    rw [h.regs _ hne.1 hne.2.1]; exact this
  · have := hr.2.1 t ht
    simp only [view] at this ⊢
    rw [h.stk]; exact this
  · have := hr.2.2 o
    simp only [view] at this ⊢
    rw [h.tape, h.lptr]; exact this

theorem SameTmp.rel {s s' : PState w} (h : SameTmp s s') {c : Bc.Cfg w} (hr : Rel c (view s)) :
    Rel c (view s') := (rel_iff_relOn ..).2 (h.relOn ((rel_iff_relOn ..).1 hr))

/-! ### More single instructions -/

/-- Open `stepInstr` on an instruction whose operands fit. -/
macro "step_open " h:term : tactic =>
  `(tactic| (unfold stepInstr; rw [if_neg (by simp [$h:term])]))

/-- `mov r, [rbx+d]` for a field of the context. -/
theorem step_loadCxt {cfg : Cfg} {code : List X86} {r : Reg} {d : Int} {rest : List X86} {s : PState w}
    (hat : At cfg code s.pc (mov64 r (.mem (some cxt) none 1 d) :: rest))
    (hr : r ≠ .rsp ∧ r ≠ .rbp) (hrbx : s.regs.rbx = cfg.cxtAddr) {v : BitVec 64}
    (hv : cxtField s d = some v) (hd : -2147483648 ≤ d ∧ d < 2147483648) :
    step cfg s = .next ((s.setReg r v).adv (mov64 r (.mem (some cxt) none 1 d))) := by
  rw [step_at hat]
  have hfit : (mov64 r (.mem (some cxt) none 1 d)).fits = true := by
    simp [mov64, X86.fits, RegMem.fits, fitsS]; omega
  step_open hfit
  simp only [mov64, cxt]
  rw [if_neg (by simp [hr.2]), if_pos (by simp [cxtDisp])]
  simp only [stepLoadCxt, hr.1, if_false, src64]
  have : s.regs.get .rbx = cfg.cxtAddr := hrbx
  simp [this, hv]

/-- `mov [rbx+24], r`. -/
theorem step_storeBudget {cfg : Cfg} {code : List X86} {r : Reg} {rest : List X86} {s : PState w}
    (hat : At cfg code s.pc (st64 (.mem (some cxt) none 1 24) r :: rest))
    (hrbx : s.regs.rbx = cfg.cxtAddr) :
    step cfg s = .next ({ s with budget := s.regs.get r }.adv (st64 (.mem (some cxt) none 1 24) r)) := by
  rw [step_at hat]
  have hfit : (st64 (.mem (some cxt) none 1 24) r).fits = true := by
    simp [st64, X86.fits, RegMem.fits, fitsS]
  step_open hfit
  have : s.regs.get .rbx = cfg.cxtAddr := hrbx
  simp [st64, cxt, cxtDisp, stepStoreCxt, this]

/-- `cmp r, imm8` on a 64-bit register: CF = unsigned below. -/
theorem step_cmpRegImm {cfg : Cfg} {code : List X86} {r : Reg} {imm : Int} {rest : List X86} {s : PState w}
    (hat : At cfg code s.pc (.cmpRmImm8 .b64 (.reg r) imm :: rest)) (himm : -128 ≤ imm ∧ imm < 128) :
    step cfg s = .next ((cmpFlags s 64 (s.regs.get r) (immVal imm)).adv (.cmpRmImm8 .b64 (.reg r) imm)) := by
  rw [step_at hat]
  have hfit : (X86.cmpRmImm8 .b64 (.reg r) imm).fits = true := by
    simp [X86.fits, RegMem.fits, fitsS]; omega
  step_open hfit
  simp [stepCmpImm, X86Sem.resolve, readPlace, view, Size.bits]

theorem step_jcc_cf {cfg : Cfg} {code : List X86} {d : Int} {rest : List X86}
    {s : PState w} (hat : At cfg code s.pc (.jccRel32 .below d :: rest))
    (hfit : (X86.jccRel32 .below d).fits = true)
    {b : Bool} (hb : s.cf = some b) {t : Nat} (ht : (s.pc : Int) + 6 + d = t) :
    step cfg s = .next { s with pc := if b then t else s.pc + 6 } := by
  rw [step_at hat]
  step_open hfit
  simp only [stepJcc]
  have hj : jumpTo s (.jccRel32 .below d) d = .next { s with pc := t } := jumpTo_eq (by simpa using ht)
  cases b <;> simp [X86Prog.cond, hb, hj, PState.adv]

theorem trunc64 (v : BitVec 64) : trunc 64 v = v := by simp [trunc]

end C03
end Hpbf
