/-
C03 (control flow), stage 2, toolkit: the register file, decoding the program counter, the frame property
of `X86Sem.exec` (an instruction changes at most the tape cell / stack slot its operand denotes), the
refinement `stepPlain` ⊑ `exec` through `view`, and multi-step execution of the program machine.
-/
import Hpbf.Proofs.C03
import Hpbf.Proofs.C03FlowLayout
import Hpbf.X86Prog
namespace Hpbf
namespace C03
open Asm JitGen X86Sem X86Prog
variable {w : Nat}

/-! ### Register file -/

@[simp] theorem regfile_ofFn_get (g : Reg → BitVec 64) : (RegFile.ofFn g).get = g := by
  funext r; cases r <;> rfl

@[simp] theorem regfile_ofFn_get' (g : Reg → BitVec 64) (r : Reg) : (RegFile.ofFn g).get r = g r := by
  cases r <;> rfl

@[simp] theorem regfile_set_get (f : RegFile) (r r' : Reg) (v : BitVec 64) :
    (f.set r v).get r' = if r' = r then v else f.get r' := by
  simp [RegFile.set]

theorem regfile_ext {f g : RegFile} (h : f.get = g.get) : f = g := by
  have h' := fun r => congrFun h r
  cases f; cases g
  have := h' .rax; have := h' .rcx; have := h' .rdx; have := h' .rbx; have := h' .rsp; have := h' .rbp
  have := h' .rsi; have := h' .rdi; have := h' .r8; have := h' .r9; have := h' .r10; have := h' .r11
  have := h' .r12; have := h' .r13; have := h' .r14; have := h' .r15
  simp_all [RegFile.get]

@[simp] theorem regfile_ofFn_get_eq (f : RegFile) : RegFile.ofFn f.get = f := regfile_ext (by simp)

/-! ### fetch -/

theorem size_pos (x : X86) : 0 < x.size := by
  unfold X86.size
  exact List.length_pos_iff.2 (encode_ne_nil' x)

theorem fetchList_append (A : List X86) (x : X86) (B : List X86) :
    fetchList (A ++ x :: B) (sizeAll A) = some x := by
  induction A with
  | nil => simp [fetchList]
  | cons a A ih =>
    have := size_pos a
    simp only [List.cons_append, fetchList, sizeAll_cons]
    rw [if_neg (by omega), if_neg (by omega)]
    rw [show a.size + sizeAll A - a.size = sizeAll A by omega]
    exact ih

theorem fetchList_at {code A xs B : List X86} (h : code = A ++ xs ++ B) (pre : List X86) (x : X86)
    (post : List X86) (hx : xs = pre ++ x :: post) :
    fetchList code (sizeAll A + sizeAll pre) = some x := by
  subst h hx
  have : A ++ (pre ++ x :: post) ++ B = (A ++ pre) ++ x :: (post ++ B) := by simp
  rw [this, ← sizeAll_append]
  exact fetchList_append _ _ _


/-! ### Frame properties of `X86Sem.exec` -/

/-- `m'` differs from `m` in tape and stack at most at place `p`. -/
def FrameAt (p : Option Place) (m m' : MState w) : Prop :=
  (∀ j, p ≠ some (.cell j) → m'.tape j = m.tape j) ∧ (∀ k, p ≠ some (.slot k) → m'.stack k = m.stack k)

theorem frameAt_refl (p : Option Place) (m : MState w) : FrameAt p m m := ⟨fun _ _ => rfl, fun _ _ => rfl⟩

theorem frameAt_flags {p : Option Place} {m m' : MState w} (h : FrameAt p m m') (z c : Option Bool) :
    FrameAt p m (m'.setFlags z c) := h

theorem writeReg_frame {m m' : MState w} {sz : Size} {r : Reg} {v : BitVec 64} (p : Option Place)
    (h : writeReg m sz r v = some m') : FrameAt p m m' := by
  unfold writeReg at h
  split at h
  · cases h
  · cases h; exact frameAt_refl _ _

theorem writePlace_frame {m m' : MState w} {sz : Size} {v : BitVec 64} {pl : Place}
    (h : writePlace m sz v pl = some m') : FrameAt (some pl) m m' := by
  cases pl with
  | reg r =>
    simp only [writePlace] at h
    split at h
    · exact writeReg_frame _ h
    · cases h
  | cell i =>
    simp only [writePlace] at h
    split at h
    · cases h
      refine ⟨fun j hj => ?_, fun _ _ => rfl⟩
      have : j ≠ i := fun e => hj (by rw [e])
      simp [MState.setCell, this]
    · cases h
  | slot k =>
    simp only [writePlace] at h
    split at h
    · cases h
      refine ⟨fun _ _ => rfl, fun j hj => ?_⟩
      have : j ≠ k := fun e => hj (by rw [e])
      simp [MState.setSlot, this]
    · cases h

theorem aluRm_frame {m m' : MState w} {op : Alu} {sz : Size} {rm : RegMem} {src : BitVec 64} {k : Bool}
    (h : aluRm m op sz rm src k = some m') : FrameAt (resolve w rm) m m' := by
  unfold aluRm at h
  cases hp : resolve w rm with
  | none => simp [hp] at h
  | some p =>
    cases ha : readPlace m sz p with
    | none => simp [hp, ha] at h
    | some a =>
      simp only [hp, ha, Option.bind_eq_bind, Option.bind_some] at h
      cases hw : writePlace m sz (alu op sz.bits a src).1 p with
      | none => simp [hw] at h
      | some m1 =>
        simp only [hw, Option.bind_some, Option.some.injEq] at h
        subst h
        exact frameAt_flags (writePlace_frame hw) _ _

theorem aluR_frame {m m' : MState w} {op : Alu} {sz : Size} {r : Reg} {rm : RegMem} (p : Option Place)
    (h : aluR m op sz r rm = some m') : FrameAt p m m' := by
  unfold aluR at h
  cases hp : resolve w rm with
  | none => simp [hp] at h
  | some pl =>
    cases hb : readPlace m sz pl with
    | none => simp [hp, hb] at h
    | some b =>
      simp only [hp, hb, Option.bind_eq_bind, Option.bind_some] at h
      cases hw : writeReg m sz r (alu op sz.bits (m.regs r) b).1 with
      | none => simp [hw] at h
      | some m1 =>
        simp only [hw, Option.bind_some, Option.some.injEq] at h
        subst h
        exact frameAt_flags (writeReg_frame _ hw) _ _

theorem exec_frame {x : X86} {m m' : MState w} (h : exec x m = some m') : FrameAt (placeOf w x) m m' := by
  unfold exec at h
  by_cases hf : x.fits = true
  case neg => simp [hf] at h
  simp only [hf, if_true] at h
  unfold execCore at h
  cases x <;> simp only [placeOf, rmOf, Option.bind_some, Option.bind_none] <;> try (cases h; done)
  case addRmImm sz rm imm => exact aluRm_frame h
  case addRmR sz rm r => exact aluRm_frame h
  case addRRm sz r rm => exact aluR_frame _ h
  case subRmImm rm imm => exact aluRm_frame h
  case subRmR sz rm r => exact aluRm_frame h
  case subRRm sz r rm => exact aluR_frame _ h
  case incRm sz rm => exact aluRm_frame h
  case decRm sz rm => exact aluRm_frame h
  case movRImm64 r imm => exact writeReg_frame _ h
  case lea r a =>
    cases ha : leaAddr m a with
    | none => simp [ha] at h
    | some v => simp only [ha, Option.bind_eq_bind, Option.bind_some] at h; exact writeReg_frame _ h
  case movRRm sz r rm =>
    cases hp : resolve w rm with
    | none => simp [hp] at h
    | some pl =>
      cases hv : readPlace m sz pl with
      | none => simp [hp, hv] at h
      | some v => simp only [hp, hv, Option.bind_eq_bind, Option.bind_some] at h; exact writeReg_frame _ h
  case movRmR sz rm r =>
    cases hp : resolve w rm with
    | none => simp [hp] at h
    | some pl => simp only [hp, Option.bind_eq_bind, Option.bind_some] at h; exact writePlace_frame h
  case movRmImm sz rm imm =>
    cases hp : resolve w rm with
    | none => simp [hp] at h
    | some pl => simp only [hp, Option.bind_eq_bind, Option.bind_some] at h; exact writePlace_frame h
  case imulRRm r rm =>
    cases hp : resolve w rm with
    | none => simp [hp] at h
    | some pl =>
      cases hv : readPlace m .b64 pl with
      | none => simp [hp, hv] at h
      | some v =>
        simp only [hp, hv, Option.bind_eq_bind, Option.bind_some] at h
        cases hw : writeReg m .b64 r (m.regs r * v) with
        | none => simp [hw] at h
        | some m1 =>
          simp only [hw, Option.bind_some, Option.some.injEq] at h; subst h
          exact frameAt_flags (writeReg_frame _ hw) _ _
  case imulRRmImm r rm imm =>
    cases hp : resolve w rm with
    | none => simp [hp] at h
    | some pl =>
      cases hv : readPlace m .b64 pl with
      | none => simp [hp, hv] at h
      | some v =>
        simp only [hp, hv, Option.bind_eq_bind, Option.bind_some] at h
        cases hw : writeReg m .b64 r (v * immVal imm) with
        | none => simp [hw] at h
        | some m1 =>
          simp only [hw, Option.bind_some, Option.some.injEq] at h; subst h
          exact frameAt_flags (writeReg_frame _ hw) _ _


/-! ### `stepPlain` refines `exec` -/

theorem mstate_ext {m m' : MState w} (h1 : m.regs = m'.regs) (h2 : m.tape = m'.tape)
    (h3 : m.stack = m'.stack) (h4 : m.zf = m'.zf) (h5 : m.cf = m'.cf) : m = m' := by
  cases m; cases m'; simp_all

/-- Everything of the state that is neither visible through `view` nor the program counter / `oob`. -/
structure SameCtl (s s' : PState w) : Prop where
  lptr : s'.lptr = s.lptr
  tapeOk : s'.tapeOk = s.tapeOk
  buf : s'.buf = s.buf
  size : s'.size = s.size
  off : s'.off = s.off
  budget : s'.budget = s.budget
  base : s'.base = s.base
  env : s'.env = s.env
  trace : s'.trace = s.trace
  len : s'.stk.length = s.stk.length

theorem SameCtl.rfl' (s : PState w) : SameCtl s s := ⟨rfl, rfl, rfl, rfl, rfl, rfl, rfl, rfl, rfl, rfl⟩

theorem SameCtl.trans {a b c : PState w} (h1 : SameCtl a b) (h2 : SameCtl b c) : SameCtl a c :=
  ⟨h2.lptr.trans h1.lptr, h2.tapeOk.trans h1.tapeOk, h2.buf.trans h1.buf, h2.size.trans h1.size,
   h2.off.trans h1.off, h2.budget.trans h1.budget, h2.base.trans h1.base, h2.env.trans h1.env,
   h2.trace.trans h1.trace, h2.len.trans h1.len⟩

/-- The slot the operand of `x` denotes, if any, belongs to the activation. -/
def SlotOk (w n : Nat) (x : X86) : Prop := ∀ k, placeOf w x = some (.slot k) → k < n

theorem stepPlain_spec {x : X86} {s : PState w} {m' : MState w} (h : exec x (view s) = some m')
    {n : Nat} (hn : n ≤ s.stk.length) (hslot' : SlotOk w n x) :
    ∃ s', stepPlain x s = .next s' ∧ view s' = m' ∧ s'.pc = s.pc + x.size ∧ SameCtl s s' ∧
      s'.stk.drop n = s.stk.drop n := by
  have hslot : SlotOk w s.stk.length x := fun k hk => Nat.lt_of_lt_of_le (hslot' k hk) hn
  have hfr := exec_frame h
  unfold stepPlain
  simp only [h]
  cases hp : placeOf w x with
  | none =>
    refine ⟨_, rfl, ?_, rfl, ⟨rfl, rfl, rfl, rfl, rfl, rfl, rfl, rfl, rfl, rfl⟩, rfl⟩
    rw [hp] at hfr
    apply mstate_ext
    · simp [view]
    · funext o; exact (hfr.1 o (by simp)).symm
    · funext k; exact (hfr.2 k (by simp)).symm
    · rfl
    · rfl
  | some pl =>
    rw [hp] at hfr
    cases pl with
    | reg r =>
      refine ⟨_, rfl, ?_, rfl, ⟨rfl, rfl, rfl, rfl, rfl, rfl, rfl, rfl, rfl, rfl⟩, rfl⟩
      apply mstate_ext
      · simp [view]
      · funext o; exact (hfr.1 o (by simp)).symm
      · funext k; exact (hfr.2 k (by simp)).symm
      · rfl
      · rfl
    | cell i =>
      refine ⟨_, rfl, ?_, rfl, ⟨rfl, rfl, rfl, rfl, rfl, rfl, rfl, rfl, rfl, rfl⟩, rfl⟩
      apply mstate_ext
      · simp [view]
      · funext o
        simp only [view]
        by_cases hsame : m'.tape i = s.tape.get (s.lptr + i)
        · rw [if_pos hsame]
          by_cases ho : o = i
          · subst ho; exact hsame.symm
          · exact (hfr.1 o (by simpa using fun e => ho e.symm)).symm
        · rw [if_neg hsame]
          simp only [Tape.get_set]
          by_cases ho : o = i
          · subst ho; simp
          · have : ¬ s.lptr + o = s.lptr + i := by omega
            rw [if_neg this]
            exact (hfr.1 o (by simpa using fun e => ho e.symm)).symm
      · funext k; exact (hfr.2 k (by simp)).symm
      · rfl
      · rfl
    | slot k =>
      have hk := hslot k hp
      simp only [hk, if_true]
      refine ⟨_, rfl, ?_, rfl, ⟨rfl, rfl, rfl, rfl, rfl, rfl, rfl, rfl, rfl, by simp⟩,
        List.drop_set_of_lt (hslot' k hp)⟩
      apply mstate_ext
      · simp [view]
      · funext o; exact (hfr.1 o (by simp)).symm
      · funext j
        simp only [view]
        by_cases hj : j = k
        · subst hj; simp [List.getD_eq_getElem?_getD, hk]
        · have := hfr.2 j (by simpa using fun e => hj e.symm)
          simp only [view] at this
          rw [this]
          simp [List.getD_eq_getElem?_getD, Ne.symm hj]
      · rfl
      · rfl

/-- An instruction `X86Sem` accepts is none of the forms the program machine treats itself. -/
theorem stepInstr_of_exec (cfg : Cfg) {x : X86} {s : PState w} {m' : MState w}
    (h : exec x (view s) = some m') : stepInstr cfg x s = stepPlain x s := by
  have hf : x.fits = true := by
    unfold exec at h; by_cases hf : x.fits = true
    · exact hf
    · simp [hf] at h
  have hc : execCore x (view s) = some m' := by simpa [exec, hf] using h
  unfold stepInstr
  simp only [hf, Bool.not_true, Bool.false_eq_true, if_false]
  cases x <;> try rfl
  all_goals (try (simp [execCore] at hc; done))
  case addRmImm sz rm imm =>
    simp only
    by_cases h1 : sz = .b64 ∧ rm = .reg .rsp
    · obtain ⟨rfl, rfl⟩ := h1
      simp [execCore, aluRm, X86Sem.resolve, readPlace, writePlace, writeReg] at hc
    · by_cases h2 : sz = .b64 ∧ rm = .reg .rbp
      · obtain ⟨rfl, rfl⟩ := h2
        simp [execCore, aluRm, X86Sem.resolve, readPlace, writePlace, writeReg] at hc
      · simp [h1, h2]
  case subRmImm rm imm =>
    simp only
    by_cases h1 : rm = .reg .rsp
    · subst h1
      simp [execCore, aluRm, X86Sem.resolve, readPlace, writePlace, writeReg] at hc
    · simp [h1]
  case movRRm sz r rm =>
    simp only
    by_cases h1 : sz = .b64 ∧ r = .rbp
    · obtain ⟨rfl, rfl⟩ := h1
      simp only [execCore] at hc
      cases hp : X86Sem.resolve w rm with
      | none => simp [hp] at hc
      | some pl =>
        cases hv : readPlace (view s) .b64 pl with
        | none => simp [hp, hv] at hc
        | some v => simp [hp, writeReg] at hc
    · by_cases h2 : sz = .b64 ∧ (cxtDisp rm).isSome = true
      · obtain ⟨rfl, h2⟩ := h2
        have : X86Sem.resolve w rm = none := by
          unfold cxtDisp at h2
          split at h2
          · rfl
          · cases h2
        simp [execCore, this] at hc
      · simp [h1, h2]
  case lea r a =>
    simp only
    by_cases h1 : r = .rbp
    · subst h1
      simp only [execCore] at hc
      cases ha : leaAddr (view s) a with
      | none => simp [ha] at hc
      | some v => simp [ha, writeReg] at hc
    · simp [h1]
  case movRmR sz rm r =>
    simp only
    cases hd : cxtDisp rm with
    | none => rfl
    | some d =>
      have : X86Sem.resolve w rm = none := by
        unfold cxtDisp at hd
        split at hd
        · rfl
        · cases hd
      simp [execCore, this] at hc
  case subRRm sz r rm =>
    simp only
    by_cases h2 : sz = .b64 ∧ (cxtDisp rm).isSome = true
    · obtain ⟨rfl, h2⟩ := h2
      have : X86Sem.resolve w rm = none := by
        unfold cxtDisp at h2
        split at h2
        · rfl
        · cases h2
      simp [execCore, aluR, this] at hc
    · simp [h2]


/-! ### Multi-step execution -/

/-- `n` steps, all of them `.next`. -/
def steps (cfg : Cfg) : Nat → PState w → Option (PState w)
  | 0, s => some s
  | n + 1, s =>
    match step cfg s with
    | .next s' => steps cfg n s'
    | _ => none

theorem steps_add (cfg : Cfg) (n k : Nat) (s : PState w) :
    steps cfg (n + k) s = (steps cfg n s).bind (steps cfg k) := by
  induction n generalizing s with
  | zero => simp [steps]
  | succ n ih =>
    rw [Nat.add_right_comm]
    simp only [steps]
    cases step cfg s with
    | next s' => exact ih s'
    | ret s' => rfl
    | fault f s' => rfl

theorem steps_trans {cfg : Cfg} {n k : Nat} {s s' s'' : PState w} (h1 : steps cfg n s = some s')
    (h2 : steps cfg k s' = some s'') : steps cfg (n + k) s = some s'' := by
  rw [steps_add, h1]; exact h2

theorem steps_one {cfg : Cfg} {s s' : PState w} (h : step cfg s = .next s') : steps cfg 1 s = some s' := by
  simp [steps, h]

theorem run_of_steps {cfg : Cfg} {n : Nat} {s s' : PState w} (h : steps cfg n s = some s') (k : Nat) :
    run cfg (n + k) s = run cfg k s' := by
  induction n generalizing s with
  | zero => simp [steps] at h; subst h; simp
  | succ n ih =>
    rw [Nat.add_right_comm]
    simp only [steps] at h
    simp only [run]
    cases hs : step cfg s with
    | next s1 => rw [hs] at h; exact ih h
    | ret s1 => rw [hs] at h; cases h
    | fault f s1 => rw [hs] at h; cases h

/-- The machine is at byte offset `pos` of `code` and the instructions `xs` follow. -/
structure At (cfg : Cfg) (code : List X86) (pos : Nat) (xs : List X86) : Prop where
  fetch : cfg.fetch = fetchList code
  split : ∃ A B, code = A ++ xs ++ B ∧ sizeAll A = pos

theorem At.head {cfg : Cfg} {code : List X86} {pos : Nat} {x : X86} {xs : List X86}
    (h : At cfg code pos (x :: xs)) : cfg.fetch pos = some x := by
  obtain ⟨A, B, h1, h2⟩ := h.split
  rw [h.fetch, ← h2]
  have := fetchList_at h1 [] x xs rfl
  simpa using this

theorem At.tail {cfg : Cfg} {code : List X86} {pos : Nat} {x : X86} {xs : List X86}
    (h : At cfg code pos (x :: xs)) : At cfg code (pos + x.size) xs := by
  obtain ⟨A, B, h1, h2⟩ := h.split
  exact ⟨h.fetch, A ++ [x], B, by rw [h1]; simp, by simp [h2]⟩

theorem At.drop {cfg : Cfg} {code : List X86} {pos : Nat} {xs ys : List X86}
    (h : At cfg code pos (xs ++ ys)) : At cfg code (pos + sizeAll xs) ys := by
  obtain ⟨A, B, h1, h2⟩ := h.split
  exact ⟨h.fetch, A ++ xs, B, by rw [h1]; simp, by simp [h2]⟩

theorem At.take {cfg : Cfg} {code : List X86} {pos : Nat} {xs ys : List X86}
    (h : At cfg code pos (xs ++ ys)) : At cfg code pos xs := by
  obtain ⟨A, B, h1, h2⟩ := h.split
  exact ⟨h.fetch, A, ys ++ B, by rw [h1]; simp, h2⟩

theorem step_at {cfg : Cfg} {code : List X86} {x : X86} {xs : List X86} {s : PState w}
    (h : At cfg code s.pc (x :: xs)) : step cfg s = stepInstr cfg x s := by
  simp [step, h.head]

/-- Straight-line code inside `X86Sem`'s subset runs on the program machine as `execAll` says. -/
theorem plain_block {cfg : Cfg} {code : List X86} {xs : List X86} {s : PState w}
    (hat : At cfg code s.pc xs) {m' : MState w} (hx : execAll xs (view s) = some m')
    {n : Nat} (hn : n ≤ s.stk.length) (hslots : ∀ x ∈ xs, SlotOk w n x) :
    ∃ s', steps cfg xs.length s = some s' ∧ view s' = m' ∧ s'.pc = s.pc + sizeAll xs ∧ SameCtl s s' ∧
      s'.stk.drop n = s.stk.drop n := by
  induction xs generalizing s with
  | nil =>
    simp only [execAll, Option.some.injEq] at hx
    exact ⟨s, rfl, hx, by simp, SameCtl.rfl' s, rfl⟩
  | cons x xs ih =>
    simp only [execAll] at hx
    cases hx1 : exec x (view s) with
    | none => simp [hx1] at hx
    | some m1 =>
      simp only [hx1] at hx
      obtain ⟨s1, h1, h2, h3, h4, h4'⟩ := stepPlain_spec hx1 hn (hslots x (List.mem_cons_self))
      have hstep : step cfg s = .next s1 := by
        rw [step_at hat, stepInstr_of_exec cfg hx1, h1]
      have hat1 : At cfg code s1.pc xs := by rw [h3]; exact hat.tail
      obtain ⟨s', h5, h6, h7, h8, h8'⟩ := ih hat1 (by rw [h2]; exact hx) (by rw [h4.len]; exact hn)
        (fun y hy => hslots y (List.mem_cons_of_mem _ hy))
      refine ⟨s', ?_, h6, ?_, h4.trans h8, h8'.trans h4'⟩
      · simp only [List.length_cons, steps, hstep]; exact h5
      · rw [h7, h3]; simp; omega

end C03
end Hpbf
