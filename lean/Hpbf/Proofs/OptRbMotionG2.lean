/-
Rebuild-round proofs: copies of `MotionData.prefix_at` / `MotionData.full_at` (`OptRbMotion2.lean`) with the weaker
head-guard hypothesis (`am := L.atMostOnce`).  No changed hypotheses (both already take `hamo`).
-/
import Hpbf.Proofs.OptRbMotionG1

namespace Hpbf
namespace OptProof
open Opt OptSem Ir

variable {w : Nat}

/-! ### the pack at a real head -/

section At
variable {Gc : State w → Prop} {shP shC shS cS : Int} {bodyS : List (Instr w)}
  {s : Rebuild w} {ps : List (Rebuild w)} {sub0 sub sub1 : Rebuild w} {σS σE : State w} {M0 : Mem w}
  {L : OptLoop w} {C : List Int} {B D A : List (Int × Expr w)} {os os' : Orders}
  (τ0 : State w)

/-- The prefix theorem of the loop-motion pack at a real head `N`. -/
theorem MotionData.prefix_at_g (md : MotionData s ps sub sub1 (cS + shP) L C B D A os os')
    (hc : BalChild Gc shP shC shS cS bodyS s ps sub0 sub)
    (hGcH : ∀ k σk, Head cS shS bodyS σS k σk → (L.atMostOnce = true → k = 0) → σk.rd cS ≠ 0#w → Gc σk)
    (hrel : RelAt shP s ps M0 σE σS) {N : Nat} {σN : State w} (hN : Head cS shS bodyS σS N σN)
    (hamo : L.atMostOnce = true → N ≤ 1) :
    (∀ k, k ≤ N → ∀ v, ¬ OptLoop.Differ' C B D sub.pending v →
      OptLoop.run (MCtx.mk cS shS shP bodyS σS sub D τ0).absBody D
        (Mem.par B (memE (σS.mov (-shP)))) k v =
      OptLoop.run (MCtx.mk cS shS shP bodyS σS sub D τ0).absBody sub.pending (memE (σS.mov (-shP))) k v) ∧
    (∀ k, k ≤ N → ∀ c, C.contains c = true →
      OptLoop.run (MCtx.mk cS shS shP bodyS σS sub D τ0).absBody sub.pending (memE (σS.mov (-shP))) k c =
      memE (σS.mov (-shP)) c) := by
  obtain ⟨hb, hgb, hNI, hfr⟩ := motion_hyps_g D τ0 hc md.canon hGcH hN hamo
  have hm0 : memE (σS.mov (-shP)) = memS σE σS := memE_movNeg hrel
  have hcmp : ∀ v e, Expr.Canon e → Opt.compare s ps (Expr.var v) e = .ok true →
      ev e (memE (σS.mov (-shP))) = memE (σS.mov (-shP)) v := by
    intro v e he hcm
    rw [hm0]
    have := compare_sound hrel.inv md.canonP (Expr.canon_var v) he hcm
    rw [← this]
    exact Expr.eval_var v _
  have hknown : ∀ i c, getConstant s ps i = some c → memE (σS.mov (-shP)) i = c := by
    intro i c hi
    rw [hm0]; exact getConstant_sound hrel.inv hi
  obtain ⟨_, _, _, h2, _⟩ := OptLoop.finishLoop_prefix_sound_c s ps sub sub1 (cS + shP) L C B D A os os'
    (memE (σS.mov (-shP))) (MCtx.mk cS shS shP bodyS σS sub D τ0).absBody N N md.hC md.hfold md.reads
    md.wf.pend md.canon.1 md.canon.2 hcmp hknown hb hgb (fun k hk m' Z _ h => hNI k hk m' Z h) hfr
    (Nat.le_refl N) hamo
  have ctx := OptLoop.finishLoop_ctx_c s ps sub (cS + shP) C (memE (σS.mov (-shP)))
    (MCtx.mk cS shS shP bodyS σS sub D τ0).absBody N md.hC md.reads md.wf.pend md.canon.1 md.canon.2 hcmp
    hknown hb hgb
  exact ⟨h2, ctx.constRun⟩

/-- The full theorem of the loop-motion pack at the exit head `n`. -/
theorem MotionData.full_at_g (hw : 0 < w) (md : MotionData s ps sub sub1 (cS + shP) L C B D A os os')
    (hc : BalChild Gc shP shC shS cS bodyS s ps sub0 sub)
    (hGcH : ∀ k σk, Head cS shS bodyS σS k σk → (L.atMostOnce = true → k = 0) → σk.rd cS ≠ 0#w → Gc σk)
    (hrel : RelAt shP s ps M0 σE σS) {n : Nat} {σn : State w} (hn : Head cS shS bodyS σS n σn)
    (htrip : OptLoop.TripFacts L n (memE (σS.mov (-shP)))) (hamo : L.atMostOnce = true → n ≤ 1)
    (hne : L.noEffect = true → n = 0) :
    (0 < n → Mem.par A (OptLoop.run (MCtx.mk cS shS shP bodyS σS sub D τ0).absBody D
        (Mem.par B (memE (σS.mov (-shP)))) n) =
      OptLoop.run (MCtx.mk cS shS shP bodyS σS sub D τ0).absBody sub.pending (memE (σS.mov (-shP))) n) ∧
    (n = 0 → Mem.par B (memE (σS.mov (-shP))) = memE (σS.mov (-shP))) := by
  obtain ⟨hb, hgb, hNI, hfr⟩ := motion_hyps_g D τ0 hc md.canon hGcH hn hamo
  have hm0 : memE (σS.mov (-shP)) = memS σE σS := memE_movNeg hrel
  have hcmp : ∀ v e, Expr.Canon e → Opt.compare s ps (Expr.var v) e = .ok true →
      ev e (memE (σS.mov (-shP))) = memE (σS.mov (-shP)) v := by
    intro v e he hcm
    rw [hm0]
    have := compare_sound hrel.inv md.canonP (Expr.canon_var v) he hcm
    rw [← this]
    exact Expr.eval_var v _
  have hknown : ∀ i c, getConstant s ps i = some c → memE (σS.mov (-shP)) i = c := by
    intro i c hi
    rw [hm0]; exact getConstant_sound hrel.inv hi
  obtain ⟨_, _, _, _, _, h5, h6⟩ := OptLoop.finishLoop_motion_sound_c hw s ps sub sub1 (cS + shP) L C B D A
    os os' (memE (σS.mov (-shP))) (MCtx.mk cS shS shP bodyS σS sub D τ0).absBody n n md.hC md.hfold md.reads
    md.wf.pend md.canon.1 md.canon.2 hcmp hknown hb hgb (fun k hk m' Z _ h => hNI k hk m' Z h) hfr
    (Nat.le_refl n) htrip hamo hne
  exact ⟨h5, h6⟩

end At

end OptProof
end Hpbf
