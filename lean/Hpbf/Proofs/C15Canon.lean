/-
C15, part 5: the normal form `Canon` (every variable list ascending, parts strictly increasing in the
slice order `cmpVars`) and its preservation by every public operation that returns an expression:
`val var add mul neg half normalize symbEvaluate prodOf incOf prodIncOf`.
`Canon` depends only on the list of variable lists, so coefficient changes and sublists are free.
-/
import Hpbf.Proofs.C15Decomp
import Hpbf.Proofs.C15Norm

namespace Hpbf
namespace Expr
variable {w : Nat}

/-! ### Definitions -/

/-- A variable list sorted ascending (what `vars.sort()` produces). -/
def SortedVars (vs : List Int) : Prop := vs.Pairwise (· ≤ ·)

instance (vs : List Int) : Decidable (SortedVars vs) := by unfold SortedVars; infer_instance

/-- Normal form of the list of variable lists of an expression. -/
def CanonV (V : List (List Int)) : Prop :=
  (∀ vs ∈ V, SortedVars vs) ∧ V.Pairwise (fun a b => cmpVars a b = .lt)

instance (V : List (List Int)) : Decidable (CanonV V) := by unfold CanonV; infer_instance

/-- Normal form of an expression: every `vars` ascending and the parts strictly increasing by `vars`
(hence pairwise distinct monomials, the constant part first). -/
def Canon (e : Expr w) : Prop := CanonV (e.map (·.vars))

instance (e : Expr w) : Decidable (Canon e) := by unfold Canon; infer_instance

/-- Only the inner condition: every `vars` ascending. -/
def InnerSorted (e : Expr w) : Prop := ∀ p ∈ e, SortedVars p.vars

theorem Canon.inner {e : Expr w} (h : Canon e) : InnerSorted e := by
  intro p hp
  exact h.1 p.vars (List.mem_map.2 ⟨p, hp, rfl⟩)

theorem canonV_cons {a : List Int} {V : List (List Int)} :
    CanonV (a :: V) ↔ SortedVars a ∧ (∀ b ∈ V, cmpVars a b = .lt) ∧ CanonV V := by
  unfold CanonV
  simp only [List.mem_cons, forall_eq_or_imp, List.pairwise_cons]
  constructor
  · rintro ⟨⟨h1, h2⟩, h3, h4⟩; exact ⟨h1, h3, h2, h4⟩
  · rintro ⟨h1, h3, h2, h4⟩; exact ⟨⟨h1, h2⟩, h3, h4⟩

theorem canon_cons {p : Part w} {e : Expr w} :
    Canon (p :: e) ↔ SortedVars p.vars ∧ (∀ q ∈ e, cmpVars p.vars q.vars = .lt) ∧ Canon e := by
  unfold Canon
  rw [List.map_cons, canonV_cons]
  simp

theorem CanonV.sublist {V V' : List (List Int)} (hs : V'.Sublist V) (h : CanonV V) : CanonV V' :=
  ⟨fun vs hv => h.1 vs (hs.subset hv), h.2.sublist hs⟩

theorem Canon.sublist {e e' : Expr w} (hs : e'.Sublist e) (h : Canon e) : Canon e' :=
  CanonV.sublist (hs.map _) h

theorem Canon.filter {e : Expr w} (P : Part w → Bool) (h : Canon e) : Canon (e.filter P) :=
  h.sublist List.filter_sublist

theorem Canon.of_vars_eq {e e' : Expr w} (hv : e'.map (·.vars) = e.map (·.vars)) (h : Canon e) :
    Canon e' := by
  unfold Canon; rw [hv]; exact h

theorem Canon.map_coef {e : Expr w} (g : Part w → Part w) (hg : ∀ p, (g p).vars = p.vars)
    (h : Canon e) : Canon (e.map g) := by
  apply h.of_vars_eq
  rw [List.map_map]
  exact List.map_congr_left (fun p _ => hg p)

theorem Canon.pairwise {e : Expr w} (h : Canon e) :
    e.Pairwise (fun p q => cmpVars p.vars q.vars = .lt) :=
  List.pairwise_map.1 h.2

/-- The normal form implies what the decompositions need. -/
theorem Canon.weak {e : Expr w} (h : Canon e) : WeakCanon e := by
  unfold WeakCanon
  refine h.pairwise.imp ?_
  intro p q hlt
  refine ⟨?_, fun _ => cmpVars_lt_ne hlt⟩
  intro hq
  rw [hq] at hlt
  exact cmpVars_nil_right hlt

/-! ### Sorting by a unique key gives the normal form -/

theorem leVars_antisymm {a b : List Int} (h1 : leVars a b = true) (h2 : leVars b a = true) : a = b := by
  rcases leVars_iff.1 h1 with h | h
  · rcases leVars_iff.1 h2 with h' | h'
    · have := cmpVars_swap.1 h
      rw [h'] at this; cases this
    · exact h'.symm
  · exact h

theorem canonV_of_sorted_nodup {V : List (List Int)} (hin : ∀ vs ∈ V, SortedVars vs)
    (hle : V.Pairwise (fun a b => leVars a b = true)) (hnd : V.Nodup) : CanonV V := by
  refine ⟨hin, (hle.and hnd).imp ?_⟩
  rintro a b ⟨h1, h2⟩
  rcases leVars_iff.1 h1 with h | h
  · exact h
  · exact absurd h h2

theorem canon_stableSort (l : Expr w) (hin : InnerSorted l) (hnd : (l.map (·.vars)).Nodup) :
    Canon (stableSort (fun a b => leVars a.vars b.vars) l) := by
  have hperm := stableSort_perm (fun a b : Part w => leVars a.vars b.vars) l
  apply canonV_of_sorted_nodup
  · intro vs hvs
    obtain ⟨p, hp, rfl⟩ := List.mem_map.1 hvs
    exact hin p (hperm.mem_iff.1 hp)
  · rw [List.pairwise_map]
    exact stableSort_sorted (fun a b : Part w => leVars a.vars b.vars)
      (fun a b => leVars_total a.vars b.vars) (fun a b c => leVars_trans) l
  · exact (hperm.map _).nodup_iff.2 hnd

theorem sortVars_sorted (vs : List Int) : SortedVars (sortVars vs) := by
  unfold SortedVars sortVars
  refine (stableSort_sorted (fun a b : Int => decide (a ≤ b)) ?_ ?_ vs).imp ?_
  · intro a b h
    simp only [decide_eq_false_iff_not, decide_eq_true_eq] at h ⊢
    omega
  · intro a b c h1 h2
    simp only [decide_eq_true_eq] at h1 h2 ⊢
    omega
  · intro a b h
    simpa using h

theorem sortedVars_sublist {a b : List Int} (hs : a.Sublist b) (h : SortedVars b) : SortedVars a :=
  List.Pairwise.sublist hs h

theorem sortedVars_perm_eq {a b : List Int} (ha : SortedVars a) (hb : SortedVars b) (h : a.Perm b) :
    a = b :=
  List.Perm.eq_of_pairwise (le := (· ≤ ·)) (fun _ _ _ _ h1 h2 => Int.le_antisymm h1 h2) ha hb h

/-! ### Tables -/

/-- Keys ascending and pairwise distinct. -/
def TableOK (m : List (List Int × BitVec w)) : Prop :=
  (∀ k ∈ m.map Prod.fst, SortedVars k) ∧ (m.map Prod.fst).Nodup

theorem tableOK_nil : TableOK ([] : List (List Int × BitVec w)) := by
  simp [TableOK]

theorem mem_keys_accum (m : List (List Int × BitVec w)) (k x : List Int) (c : BitVec w) :
    x ∈ (accum m k c).map Prod.fst ↔ x ∈ m.map Prod.fst ∨ x = k := by
  induction m with
  | nil => simp [accum]
  | cons kc m ih =>
    obtain ⟨k', c'⟩ := kc
    simp only [accum]
    split
    · rename_i h
      subst h
      simp only [List.map_cons, List.mem_cons]
      constructor
      · intro h; exact Or.inl h
      · rintro (h | h)
        · exact h
        · exact Or.inl h
    · simp only [List.map_cons, List.mem_cons, ih]
      constructor
      · rintro (h | h | h)
        · exact Or.inl (Or.inl h)
        · exact Or.inl (Or.inr h)
        · exact Or.inr h
      · rintro ((h | h) | h)
        · exact Or.inl h
        · exact Or.inr (Or.inl h)
        · exact Or.inr (Or.inr h)

theorem nodup_keys_accum (m : List (List Int × BitVec w)) (k : List Int) (c : BitVec w)
    (h : (m.map Prod.fst).Nodup) : ((accum m k c).map Prod.fst).Nodup := by
  induction m with
  | nil => simp [accum]
  | cons kc m ih =>
    obtain ⟨k', c'⟩ := kc
    simp only [List.map_cons, List.nodup_cons] at h
    simp only [accum]
    split
    · simpa using h
    · rename_i hne
      simp only [List.map_cons, List.nodup_cons]
      refine ⟨?_, ih h.2⟩
      rw [mem_keys_accum]
      rintro (h' | h')
      · exact h.1 h'
      · exact hne h'

theorem tableOK_accum {m : List (List Int × BitVec w)} (h : TableOK m) (k : List Int) (c : BitVec w)
    (hk : SortedVars k) : TableOK (accum m k c) := by
  refine ⟨?_, nodup_keys_accum m k c h.2⟩
  intro x hx
  rcases (mem_keys_accum m k x c).1 hx with hx | rfl
  · exact h.1 x hx
  · exact hk

theorem tableOK_foldl {α : Type} (K : α → List Int) (C : α → BitVec w) (l : List α)
    (hK : ∀ x ∈ l, SortedVars (K x)) (m : List (List Int × BitVec w)) (h : TableOK m) :
    TableOK (l.foldl (fun m x => accum m (K x) (C x)) m) := by
  induction l generalizing m with
  | nil => exact h
  | cons x l ih =>
    simp only [List.foldl_cons]
    exact ih (fun y hy => hK y (List.mem_cons_of_mem _ hy)) _
      (tableOK_accum h _ _ (hK x List.mem_cons_self))

theorem tableOK_foldl2 {α β : Type} (K : α → β → List Int) (C : α → β → BitVec w)
    (hK : ∀ x y, SortedVars (K x y)) (A : List α) (B : List β)
    (m : List (List Int × BitVec w)) (h : TableOK m) :
    TableOK (A.foldl (fun m x => B.foldl (fun m y => accum m (K x y) (C x y)) m) m) := by
  induction A generalizing m with
  | nil => exact h
  | cons x A ih =>
    simp only [List.foldl_cons]
    exact ih _ (tableOK_foldl (K x) (C x) B (fun y _ => hK x y) m h)

theorem innerSorted_ofTable {m : List (List Int × BitVec w)} (h : TableOK m) :
    InnerSorted ((m.filter (fun kc => kc.2 != 0#w)).map (fun kc => ({ coef := kc.2, vars := kc.1 } : Part w))) := by
  intro p hp
  obtain ⟨kc, hkc, rfl⟩ := List.mem_map.1 hp
  exact h.1 kc.1 (List.mem_map.2 ⟨kc, (List.mem_filter.1 hkc).1, rfl⟩)

theorem canon_finish {m : List (List Int × BitVec w)} (h : TableOK m) : Canon (finish m) := by
  unfold finish
  apply canon_stableSort
  · exact innerSorted_ofTable h
  · rw [List.map_map]
    have : ((fun p : Part w => p.vars) ∘ fun kc : List Int × BitVec w => ({ coef := kc.2, vars := kc.1 } : Part w))
        = Prod.fst := rfl
    rw [this]
    exact h.2.sublist (List.filter_sublist.map _)

/-! ### `val`, `var`, `add`, `neg`, `half` -/

theorem canon_nil : Canon ([] : Expr w) := by simp [Canon, CanonV]

theorem canon_val (c : BitVec w) : Canon (val c) := by
  unfold val; split <;> simp [Canon, CanonV, SortedVars]

theorem canon_var (v : Int) : Canon (var v : Expr w) := by
  simp [var, Canon, CanonV, SortedVars]

theorem mem_add_vars {a b : Expr w} {r : Part w} (h : r ∈ add a b) :
    (∃ s ∈ a, r.vars = s.vars) ∨ (∃ s ∈ b, r.vars = s.vars) := by
  fun_induction add a b with
  | case1 b => exact Or.inr ⟨r, h, rfl⟩
  | case2 a _ => exact Or.inl ⟨r, h, rfl⟩
  | case3 p ps q qs hc ih =>
    rcases List.mem_cons.1 h with rfl | h
    · exact Or.inl ⟨r, List.mem_cons_self, rfl⟩
    · rcases ih h with ⟨s, hs, e⟩ | ⟨s, hs, e⟩
      · exact Or.inl ⟨s, List.mem_cons_of_mem _ hs, e⟩
      · exact Or.inr ⟨s, hs, e⟩
  | case4 p ps q qs hc ih =>
    rcases List.mem_cons.1 h with rfl | h
    · exact Or.inr ⟨r, List.mem_cons_self, rfl⟩
    · rcases ih h with ⟨s, hs, e⟩ | ⟨s, hs, e⟩
      · exact Or.inl ⟨s, hs, e⟩
      · exact Or.inr ⟨s, List.mem_cons_of_mem _ hs, e⟩
  | case5 p ps q qs hc c hne ih =>
    rcases List.mem_cons.1 h with rfl | h
    · exact Or.inl ⟨p, List.mem_cons_self, rfl⟩
    · rcases ih h with ⟨s, hs, e⟩ | ⟨s, hs, e⟩
      · exact Or.inl ⟨s, List.mem_cons_of_mem _ hs, e⟩
      · exact Or.inr ⟨s, List.mem_cons_of_mem _ hs, e⟩
  | case6 p ps q qs hc c hne ih =>
    rcases ih h with ⟨s, hs, e⟩ | ⟨s, hs, e⟩
    · exact Or.inl ⟨s, List.mem_cons_of_mem _ hs, e⟩
    · exact Or.inr ⟨s, List.mem_cons_of_mem _ hs, e⟩

theorem canon_add {a b : Expr w} (ha : Canon a) (hb : Canon b) : Canon (add a b) := by
  fun_induction add a b with
  | case1 b => exact hb
  | case2 a _ => exact ha
  | case3 p ps q qs hc ih =>
    obtain ⟨ha1, ha2, ha3⟩ := canon_cons.1 ha
    obtain ⟨hb1, hb2, hb3⟩ := canon_cons.1 hb
    refine canon_cons.2 ⟨ha1, ?_, ih ha3 hb⟩
    intro r hr
    rcases mem_add_vars hr with ⟨s, hs, e⟩ | ⟨s, hs, e⟩
    · rw [e]; exact ha2 s hs
    · rw [e]
      rcases List.mem_cons.1 hs with rfl | hs
      · exact hc
      · exact cmpVars_lt_trans hc (hb2 s hs)
  | case4 p ps q qs hc ih =>
    obtain ⟨ha1, ha2, ha3⟩ := canon_cons.1 ha
    obtain ⟨hb1, hb2, hb3⟩ := canon_cons.1 hb
    have hqp : cmpVars q.vars p.vars = .lt := cmpVars_swap.2 hc
    refine canon_cons.2 ⟨hb1, ?_, ih ha hb3⟩
    intro r hr
    rcases mem_add_vars hr with ⟨s, hs, e⟩ | ⟨s, hs, e⟩
    · rw [e]
      rcases List.mem_cons.1 hs with rfl | hs
      · exact hqp
      · exact cmpVars_lt_trans hqp (ha2 s hs)
    · rw [e]; exact hb2 s hs
  | case5 p ps q qs hc c hne ih =>
    obtain ⟨ha1, ha2, ha3⟩ := canon_cons.1 ha
    obtain ⟨hb1, hb2, hb3⟩ := canon_cons.1 hb
    have hv : p.vars = q.vars := cmpVars_eq_iff.1 hc
    refine canon_cons.2 ⟨ha1, ?_, ih ha3 hb3⟩
    intro r hr
    show cmpVars p.vars r.vars = .lt
    rcases mem_add_vars hr with ⟨s, hs, e⟩ | ⟨s, hs, e⟩
    · rw [e]; exact ha2 s hs
    · rw [e, hv]; exact hb2 s hs
  | case6 p ps q qs hc c hne ih =>
    exact ih (canon_cons.1 ha).2.2 (canon_cons.1 hb).2.2

theorem canon_neg {a : Expr w} (h : Canon a) : Canon (neg a) :=
  h.map_coef _ (fun _ => rfl)

theorem canon_half {a r : Expr w} (h : Canon a) (hh : half a = some r) : Canon r := by
  unfold half at hh
  split at hh
  · simp only [Option.some.injEq] at hh
    subst hh
    exact h.map_coef _ (fun _ => rfl)
  · cases hh

/-! ### `mul` -/

theorem sortVars_append_inj {a b p : List Int} (ha : SortedVars a) (hb : SortedVars b)
    (h : sortVars (a ++ p) = sortVars (b ++ p)) : a = b := by
  have h1 : (a ++ p).Perm (b ++ p) :=
    (sortVars_perm (a ++ p)).symm.trans (h ▸ sortVars_perm (b ++ p))
  exact sortedVars_perm_eq ha hb ((List.perm_append_right_iff p).1 h1)

theorem canon_scaleAppend {e : Expr w} (p : Part w) (h : Canon e) : Canon (scaleAppend e p) := by
  unfold scaleAppend
  apply canon_stableSort
  · intro q hq
    obtain ⟨q0, _, rfl⟩ := List.mem_map.1 (List.mem_filter.1 hq).1
    exact sortVars_sorted _
  · refine List.Nodup.sublist (List.filter_sublist.map _) ?_
    rw [List.map_map]
    have : ((fun q : Part w => q.vars) ∘ fun q : Part w =>
        ({ coef := q.coef * p.coef, vars := sortVars (q.vars ++ p.vars) } : Part w))
        = (fun vs => sortVars (vs ++ p.vars)) ∘ (fun q : Part w => q.vars) := rfl
    rw [this, ← List.map_map]
    unfold List.Nodup
    rw [List.pairwise_map]
    refine h.2.imp_of_mem ?_
    intro a b hma hmb hlt heq
    exact cmpVars_lt_ne hlt (sortVars_append_inj (h.1 a hma) (h.1 b hmb) heq)

theorem canon_mul {a b : Expr w} (ha : Canon a) (hb : Canon b) : Canon (mul a b) := by
  unfold mul
  split
  · exact canon_val _
  · exact canon_val _
  · exact canon_scaleAppend _ hb
  · exact canon_scaleAppend _ ha
  · exact canon_finish (tableOK_foldl2 (fun sp op : Part w => sortVars (sp.vars ++ op.vars))
      (fun sp op => sp.coef * op.coef) (fun _ _ => sortVars_sorted _) a b [] tableOK_nil)

/-! ### `normalize` -/

theorem mergeChunks_vars (l : List (Part w)) : (mergeChunks l).map (·.vars) = l.map (·.vars) := by
  fun_induction mergeChunks l with
  | case1 => rfl
  | case2 p => rfl
  | case3 p q rest h hnil ih => exact absurd hnil (mergeChunks_ne_nil _ _)
  | case4 p q rest h hd tl heq ih =>
    rw [heq] at ih
    simp only [List.map_cons, List.cons.injEq] at ih ⊢
    exact ⟨ih.1, trivial, ih.2⟩
  | case5 p q rest h ih =>
    simp only [List.map_cons, List.cons.injEq] at ih ⊢
    exact ⟨trivial, ih⟩

/-- After merging, a part that repeats the variables of an earlier part has coefficient zero. -/
theorem mergeChunks_pairwise (l : List (Part w))
    (hs : (l.map (·.vars)).Pairwise (fun a b => leVars a b = true)) :
    (mergeChunks l).Pairwise (fun p q => p.vars = q.vars → q.coef = 0#w) := by
  fun_induction mergeChunks l with
  | case1 => exact List.Pairwise.nil
  | case2 p => simp
  | case3 p q rest h hnil ih => exact absurd hnil (mergeChunks_ne_nil _ _)
  | case4 p q rest h hd tl heq ih =>
    have hv := mergeChunks_vars ({ p with coef := p.coef + q.coef } :: rest)
    rw [heq] at ih hv
    simp only [List.map_cons, List.cons.injEq] at hv
    have hs' : (({ p with coef := p.coef + q.coef } :: rest).map (·.vars)).Pairwise
        (fun a b => leVars a b = true) := by
      simp only [List.map_cons] at hs ⊢
      exact hs.sublist (List.Sublist.cons_cons _ (List.Sublist.cons _ (List.Sublist.refl _)))
    have ih' := List.pairwise_cons.1 (ih hs')
    refine List.pairwise_cons.2 ⟨?_, List.pairwise_cons.2 ⟨?_, ih'.2⟩⟩
    · intro x hx
      rcases List.mem_cons.1 hx with rfl | hx
      · intro _; rfl
      · exact ih'.1 x hx
    · intro x hx hqx
      exact ih'.1 x hx (by rw [hv.1, h]; exact hqx)
  | case5 p q rest h ih =>
    have hs' : ((q :: rest).map (·.vars)).Pairwise (fun a b => leVars a b = true) := by
      simp only [List.map_cons] at hs ⊢
      exact (List.pairwise_cons.1 hs).2
    refine List.pairwise_cons.2 ⟨?_, ih hs'⟩
    intro x hx hpx
    exfalso
    have hxv : x.vars ∈ (mergeChunks (q :: rest)).map (·.vars) := List.mem_map.2 ⟨x, hx, rfl⟩
    rw [mergeChunks_vars] at hxv
    simp only [List.map_cons, List.pairwise_cons] at hs
    have hpq : leVars p.vars q.vars = true := hs.1 _ List.mem_cons_self
    simp only [List.map_cons, List.mem_cons] at hxv
    rcases hxv with hxq | hxr
    · exact h (hpx.trans hxq)
    · have hqx : leVars q.vars x.vars = true := hs.2.1 _ hxr
      rw [← hpx] at hqx
      exact h (leVars_antisymm hpq hqx)

theorem zip_map_any_false {α β : Type} (g : α → β) (Q : α × β → Bool) (e : List α)
    (h : (e.zip (e.map g)).any Q = false) : ∀ p ∈ e, Q (p, g p) = false := by
  induction e with
  | nil => intro p hp; cases hp
  | cons x e ih =>
    simp only [List.map_cons, List.zip_cons_cons, List.any_cons, Bool.or_eq_false_iff] at h
    intro p hp
    rcases List.mem_cons.1 hp with rfl | hp
    · exact h.1
    · exact ih h.2 p hp

/-- Phase 1 without `need_elim`: deduplication changed nothing. -/
theorem dedupMap_eq_self (e : Expr w)
    (hne : ¬ ((e.zip (e.map (fun p => if p.coef = halfMod w then { p with vars := dedupVars p.vars } else p))).any
          (fun pq => pq.1.coef = halfMod w && pq.1.vars.length != pq.2.vars.length) = true)) :
    e.map (fun p => if p.coef = halfMod w then { p with vars := dedupVars p.vars } else p) = e := by
  have hne' : (e.zip (e.map (fun p => if p.coef = halfMod w then { p with vars := dedupVars p.vars } else p))).any
      (fun pq => pq.1.coef = halfMod w && pq.1.vars.length != pq.2.vars.length) = false := by
    simpa using hne
  have hz := zip_map_any_false _ _ e hne'
  conv => rhs; rw [← List.map_id e]
  apply List.map_congr_left
  intro p hp
  have hq := hz p hp
  split
  · rename_i hc
    simp only [hc, decide_true, Bool.true_and, bne_eq_false_iff_eq] at hq
    have := dedupVars_eq_of_length p.vars hq.symm
    simp [this]
  · rfl

/-- Phase 1 with `need_elim` (sort, merge equal neighbours, drop zeros): the parts come out strictly
increasing, whatever the input, and every part keeps the variables of some input part. -/
theorem strict_mergeSorted (e' : Expr w) :
    (((mergeChunks (stableSort (fun a b => leVars a.vars b.vars) e')).filter (fun p => p.coef != 0#w)).map
        (·.vars)).Pairwise (fun a b => cmpVars a b = .lt) ∧
    ∀ p ∈ (mergeChunks (stableSort (fun a b => leVars a.vars b.vars) e')).filter (fun p => p.coef != 0#w),
      ∃ p1 ∈ e', p.vars = p1.vars := by
  have hperm := stableSort_perm (fun a b : Part w => leVars a.vars b.vars) e'
  have hsorted := stableSort_sorted (fun a b : Part w => leVars a.vars b.vars)
    (fun a b => leVars_total a.vars b.vars) (fun a b c => leVars_trans) e'
  generalize stableSort (fun a b : Part w => leVars a.vars b.vars) e' = s at hperm hsorted
  have hsv : (s.map (·.vars)).Pairwise (fun a b => leVars a b = true) := List.pairwise_map.2 hsorted
  have hmv := mergeChunks_vars s
  have hmp := mergeChunks_pairwise s hsv
  have hmle : (mergeChunks s).Pairwise (fun p q => leVars p.vars q.vars = true) := by
    have : ((mergeChunks s).map (·.vars)).Pairwise (fun a b => leVars a b = true) := by
      rw [hmv]; exact hsv
    exact List.pairwise_map.1 this
  constructor
  · rw [List.pairwise_map]
    refine ((hmle.and hmp).filter _).imp_of_mem ?_
    rintro p q _ hq ⟨h1, h2⟩
    rcases leVars_iff.1 h1 with hlt | heq
    · exact hlt
    · have := h2 heq
      have hq0 := (List.mem_filter.1 hq).2
      simp [this] at hq0
  · intro p hp
    have hp' : p.vars ∈ (mergeChunks s).map (·.vars) := List.mem_map.2 ⟨p, (List.mem_filter.1 hp).1, rfl⟩
    rw [hmv] at hp'
    obtain ⟨p1, hp1, e1⟩ := List.mem_map.1 hp'
    exact ⟨p1, hperm.mem_iff.1 hp1, e1.symm⟩

theorem canon_normPhase1 {e : Expr w} (h : Canon e) : Canon (normPhase1 e) := by
  unfold normPhase1
  split
  · simp only []
    have hin' : InnerSorted (e.map (fun p => if p.coef = halfMod w then { p with vars := dedupVars p.vars } else p)) := by
      intro p hp
      obtain ⟨p0, hp0, rfl⟩ := List.mem_map.1 hp
      split
      · exact sortedVars_sublist (dedupVars_sublist _) (h.inner p0 hp0)
      · exact h.inner p0 hp0
    split
    · obtain ⟨h1, h2⟩ := strict_mergeSorted
        (e.map (fun p => if p.coef = halfMod w then { p with vars := dedupVars p.vars } else p))
      refine ⟨?_, h1⟩
      intro vs hvs
      obtain ⟨p, hp, rfl⟩ := List.mem_map.1 hvs
      obtain ⟨p1, hp1, e1⟩ := h2 p hp
      rw [e1]; exact hin' p1 hp1
    · rename_i hne
      rw [dedupMap_eq_self e hne]; exact h
  · exact h

theorem canon_normPhase2' {e1 : Expr w} (h : Canon e1) : Canon (normPhase2' e1) := by
  unfold normPhase2'
  split
  · obtain ⟨s1, _⟩ := normPhase2_spec (fun _ => 0#w) (halfMod w + 1#w) (halfMod w + (-1#w))
      (e1.map (·.vars)) e1.length 0 e1.toArray [] false (by simp) (IdxOK_nil _)
    generalize normPhase2 (halfMod w) (halfMod w + 1#w) (halfMod w + (-1#w)) e1.length 0 e1.toArray [] false
      = st at s1
    obtain ⟨parts, need⟩ := st
    simp only at s1 ⊢
    have hc : Canon parts.toList := h.of_vars_eq s1
    split
    · exact hc.filter _
    · exact hc
  · exact h

theorem canon_normalize {e : Expr w} (h : Canon e) : Canon (normalize e) := by
  rw [normalize_eq]
  split
  · exact canon_normPhase2' (canon_normPhase1 h)
  · exact h

/-! ### `symbEvaluate` -/

theorem innerSorted_mulParts (l r : Expr w) : InnerSorted (mulParts l r) := by
  unfold mulParts
  split
  · intro p hp; cases hp
  · intro p hp; cases hp
  · intro p hp
    obtain ⟨q0, _, rfl⟩ := List.mem_map.1 (List.mem_filter.1 hp).1
    exact sortVars_sorted _
  · intro p hp
    obtain ⟨q0, _, rfl⟩ := List.mem_map.1 (List.mem_filter.1 hp).1
    exact sortVars_sorted _
  · exact innerSorted_ofTable (tableOK_foldl2 (fun rp lp : Part w => sortVars (rp.vars ++ lp.vars))
      (fun rp lp => rp.coef * lp.coef) (fun _ _ => sortVars_sorted _) r l [] tableOK_nil)

theorem innerSorted_substProd (g : Int → Option (Expr w)) (vs : List Int) (part pr : Expr w)
    (hp : InnerSorted part) (h : substProd g part vs = some pr) : InnerSorted pr := by
  induction vs generalizing part with
  | nil =>
    simp only [substProd, Option.some.injEq] at h
    subst h; exact hp
  | cons v vs ih =>
    simp only [substProd] at h
    cases hg : g v with
    | none => simp [hg] at h
    | some e =>
      simp only [hg] at h
      exact ih _ (innerSorted_mulParts _ _) h

theorem tableOK_symbLoop (g : Int → Option (Expr w))
    (hg : ∀ v e, g v = some e → InnerSorted e) (ps : List (Part w))
    (m m' : List (List Int × BitVec w)) (hm : TableOK m) (h : symbLoop g ps m = some m') :
    TableOK m' := by
  induction ps generalizing m with
  | nil =>
    simp only [symbLoop, Option.some.injEq] at h
    subst h; exact hm
  | cons p ps ih =>
    rw [symbLoop] at h
    split at h
    · exact ih _ (tableOK_accum hm _ _ (by simp [SortedVars])) h
    · rename_i v hv
      cases hgv : g v with
      | none => simp [hgv] at h
      | some e =>
        simp only [hgv] at h
        exact ih _ (tableOK_foldl (fun vp : Part w => vp.vars) (fun vp => p.coef * vp.coef) e
          (hg v e hgv) m hm) h
    · rename_i v vs hne hv
      cases hgv : g v with
      | none => simp [hgv] at h
      | some e0 =>
        simp only [hgv] at h
        cases hs : substProd g e0 vs with
        | none => simp [hs] at h
        | some pr =>
          simp only [hs] at h
          exact ih _ (tableOK_foldl (fun vp : Part w => vp.vars) (fun vp => p.coef * vp.coef) pr
            (innerSorted_substProd g vs e0 pr (hg v e0 hgv) hs) m hm) h

theorem canon_symbEvaluate {e r : Expr w} (g : Int → Option (Expr w))
    (hg : ∀ v e', g v = some e' → Canon e') (h : symbEvaluate e g = some r) : Canon r := by
  unfold symbEvaluate at h
  split at h
  · rename_i v hid
    exact hg v r h
  · split at h
    · simp only [Option.some.injEq] at h
      subst h; exact canon_val _
    · split at h
      · cases h
      · rename_i m hm
        simp only [Option.some.injEq] at h
        subst h
        exact canon_finish (tableOK_symbLoop g (fun v e' hv => (hg v e' hv).inner) e [] m tableOK_nil hm)

/-! ### `prodOf`, `incOf`, `prodIncOf` -/

theorem perm_of_count_one (v : Int) (vs : List Int) (h : (vs.filter (· == v)).length = 1) :
    vs.Perm (v :: vs.filter (· != v)) := by
  have h1 : vs.filter (· == v) = [v] := by
    obtain ⟨x, hx⟩ := List.length_eq_one_iff.1 h
    have : x ∈ vs.filter (· == v) := by rw [hx]; exact List.mem_singleton_self x
    have := (List.mem_filter.1 this).2
    simp only [beq_iff_eq] at this
    rw [hx, this]
  have h2 := List.filter_append_perm (· == v) vs
  rw [h1] at h2
  exact h2.symm

theorem filter_ne_inj {v : Int} {a b : List Int} (ha : SortedVars a) (hb : SortedVars b)
    (ca : (a.filter (· == v)).length = 1) (cb : (b.filter (· == v)).length = 1)
    (h : a.filter (· != v) = b.filter (· != v)) : a = b := by
  apply sortedVars_perm_eq ha hb
  exact (perm_of_count_one v a ca).trans (h ▸ (perm_of_count_one v b cb).symm)

theorem canon_prodOf {e r : Expr w} {v : Int} (h : Canon e) (hp : prodOf e v = some r) : Canon r := by
  unfold prodOf at hp
  split at hp
  · rename_i hall
    simp only [Option.some.injEq] at hp
    subst hp
    have hall' := List.all_eq_true.1 hall
    apply canon_stableSort
    · intro q hq
      obtain ⟨q0, hq0, rfl⟩ := List.mem_map.1 hq
      exact sortedVars_sublist List.filter_sublist (h.inner q0 hq0)
    · rw [List.map_map]
      unfold List.Nodup
      rw [List.pairwise_map]
      refine h.pairwise.imp_of_mem ?_
      intro a b hma hmb hlt heq
      simp only [Function.comp] at heq
      have ca := hall' a hma
      have cb := hall' b hmb
      simp only [beq_iff_eq] at ca cb
      exact cmpVars_lt_ne hlt (filter_ne_inj (h.inner a hma) (h.inner b hmb) ca cb heq)
  · cases hp

theorem canon_incOf {e r : Expr w} {v : Int} (h : Canon e) (hi : incOf e v = some r) : Canon r := by
  unfold incOf at hi
  split at hi
  · simp only [Option.some.injEq] at hi
    subst hi; exact h.filter _
  · cases hi

theorem canon_prodIncOf {e r : Expr w} {v : Int} {m : BitVec w} (h : Canon e)
    (hi : prodIncOf e v = some (r, m)) : Canon r := by
  unfold prodIncOf at hi
  split at hi
  · simp only [Option.some.injEq, Prod.mk.injEq] at hi
    obtain ⟨rfl, _⟩ := hi
    exact h.filter _
  · cases hi

end Expr
end Hpbf
