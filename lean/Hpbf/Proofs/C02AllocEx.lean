/-
C02 (`allocate_temps`), part 13: concrete generator states (all facts by `decide`).

* `exFlowGood`, `exWritesGood`, `exFuseGood` satisfy `AllocPre` (non-vacuity; the pass allocates, forwards and
  moves a computation on them).
* `exFlowBad`, `exPtrBad`, `exWritesBad`, `exFuseBad`, `exJumpBad`, `exFirstBad` violate exactly one component of
  `AllocPre`; on each the pass succeeds and the output program behaves differently: the components `flow`, `ptr`,
  `writes`, `fuse` (both parts) and `firstLt` are necessary.
* `exMonoBad`: overlapping fusion candidates in the wrong order make the pass fail (modelled panic
  `replacements.get.unwrap`), they do not make it produce wrong code.
-/
import Hpbf.Proofs.C02AllocCheck
set_option linter.unusedSimpArgs false

namespace Hpbf
namespace C02
namespace Alloc

open Bc BcWf BcGen C11

def ri (c : Nat) (f l : Option Nat) (n : Nat) : RangeInfo :=
  { created := c, firstUse := f, lastUse := l, numUses := n }

/-- Events (most recent first) of a program run without budget. -/
def traceOf (insts : Array (Instr 8)) : List Ev :=
  (Bc.run ({ temps := 0, minAcc := 0, maxAcc := 0, live := #[], insts := insts } : Program 8) false 0 40
    envSink).cfg.st.trace

/-- Instructions produced by the pass (`none` = modelled panic). -/
def allocInsts (numRegs : Nat) (s : St 8) : Option (Array (Instr 8)) :=
  (allocateTemps numRegs s).toOption.map (·.insts)

/-- The components of `AllocPre` as checked by `allocPreB`. -/
def comps (s : St 8) : List Bool :=
  [s.live.size == 0, chkNoZero s, chkDefs s, chkUses s, chkFlow s, chkPtr s, chkWrites s, chkFirstLt s, chkFuse s]

/-! ### `flow`: a value created before a loop and used inside must stay allocated to the end of the loop -/

/-- `m0 = 2; t0 = m1 + 5; while m0 { m2 += t0; t1 = m0 - 1; m0 = t1 + 0 }; out m2`, `t0` recorded as dead after
its use inside the loop. -/
def exFlowBad : St 8 :=
  { insts := #[.copy (.mem 0) (.imm 2), .add (.tmp 0) (.mem 1) (.imm 5), .brz 0 5,
               .add (.mem 2) (.mem 2) (.tmp 0), .add (.tmp 1) (.mem 0) (.imm 255), .add (.mem 0) (.tmp 1) (.imm 0),
               .brnz 0 (-3), .out 2],
    ranges := #[ri 1 (some 3) (some 3) 1, ri 4 (some 5) (some 5) 1],
    writes := [(0, [5, 0]), (2, [3])] }

/-- The same with the range of `t0` extended to the `brnz`. -/
def exFlowGood : St 8 := { exFlowBad with ranges := #[ri 1 (some 3) (some 6) 1, ri 4 (some 5) (some 5) 1] }

theorem exFlowGood_pre : AllocPre exFlowGood := allocPreB_sound (by decide)

/-- With one register the pass gives `t1` the register of `t0` inside the loop. -/
def exFlowBadOut : Array (Instr 8) :=
  #[.copy (.mem 0) (.imm 2), .add (.tmp 0) (.mem 1) (.imm 5), .brz 0 5,
    .add (.mem 2) (.mem 2) (.tmp 0), .add (.tmp 0) (.mem 0) (.imm 255), .add (.mem 0) (.tmp 0) (.imm 0),
    .brnz 0 (-3), .out 2]
/-- With the extended range `t1` gets a spill slot. -/
def exFlowGoodOut : Array (Instr 8) :=
  #[.copy (.mem 0) (.imm 2), .add (.tmp 0) (.mem 1) (.imm 5), .brz 0 5,
    .add (.mem 2) (.mem 2) (.tmp 0), .add (.tmp 1) (.mem 0) (.imm 255), .add (.mem 0) (.tmp 1) (.imm 0),
    .brnz 0 (-3), .out 2]

theorem exFlowBad_comps : comps exFlowBad = [true, true, true, true, false, true, true, true, true] := by decide
theorem exFlowBad_alloc : allocInsts 1 exFlowBad = some exFlowBadOut := by decide +kernel
theorem exFlowGood_alloc : allocInsts 1 exFlowGood = some exFlowGoodOut := by decide +kernel
theorem exFlow_traces : traceOf exFlowBad.insts = [Ev.out 10] ∧ traceOf exFlowBadOut = [Ev.out 6] ∧
    traceOf exFlowGoodOut = [Ev.out 10] := by decide

theorem alloc_flow_necessary :
    comps exFlowBad = [true, true, true, true, false, true, true, true, true] ∧
    traceOf exFlowBad.insts = [Ev.out 10] ∧
    (allocInsts 1 exFlowBad).map traceOf = some [Ev.out 6] ∧
    (allocInsts 1 exFlowGood).map traceOf = some [Ev.out 10] := by
  rw [exFlowBad_alloc, exFlowGood_alloc]
  exact ⟨exFlowBad_comps, exFlow_traces.1, congrArg some exFlow_traces.2.1, congrArg some exFlow_traces.2.2⟩

/-! ### `ptr`: no pointer move inside a range -/

def exPtrBad : St 8 :=
  { insts := #[.copy (.mem 1) (.imm 7), .copy (.tmp 0) (.mem 1), .mov 1, .copy (.mem 0) (.tmp 0), .out 0],
    ranges := #[ri 1 (some 3) (some 3) 1],
    writes := [(1, [0]), (0, [3])] }

theorem alloc_ptr_necessary :
    comps exPtrBad = [true, true, true, true, true, false, true, true, true] ∧
    allocInsts 2 exPtrBad = some #[.copy (.mem 1) (.imm 7), .noop, .mov 1, .copy (.mem 0) (.mem 1), .out 0] ∧
    traceOf exPtrBad.insts = [Ev.out 7] ∧ (allocInsts 2 exPtrBad).map traceOf = some [Ev.out 0] := by decide

/-! ### `writes`: the table of write positions is complete -/

def exWritesBad : St 8 :=
  { insts := #[.copy (.mem 1) (.imm 7), .copy (.tmp 0) (.mem 1), .copy (.mem 1) (.imm 9), .copy (.mem 0) (.tmp 0),
               .out 0],
    ranges := #[ri 1 (some 3) (some 3) 1],
    writes := [(1, [0]), (0, [3])] }
def exWritesGood : St 8 := { exWritesBad with writes := [(1, [2, 0]), (0, [3])] }

theorem exWritesGood_pre : AllocPre exWritesGood := allocPreB_sound (by decide)

theorem alloc_writes_necessary :
    comps exWritesBad = [true, true, true, true, true, true, false, true, true] ∧
    traceOf exWritesBad.insts = [Ev.out 7] ∧ (allocInsts 2 exWritesBad).map traceOf = some [Ev.out 9] ∧
    (allocInsts 2 exWritesGood).map traceOf = some [Ev.out 7] := by decide

/-! ### `fuse`: the recorded first use is the first use; no branch into the region -/

/-- `t0` is read at 1, its recorded first use is the store at 2. -/
def exFuseBad : St 8 :=
  { insts := #[.add (.tmp 0) (.mem 1) (.imm 5), .add (.mem 2) (.tmp 0) (.imm 1), .copy (.mem 0) (.tmp 0), .out 2,
               .out 0],
    ranges := #[ri 0 (some 2) (some 2) 2],
    writes := [(2, [1]), (0, [2])] }

theorem alloc_fuse_first_use_necessary :
    comps exFuseBad = [true, true, true, true, true, true, true, true, false] ∧
    allocInsts 0 exFuseBad = some #[.noop, .add (.mem 2) (.mem 0) (.imm 1), .add (.mem 0) (.mem 1) (.imm 5), .out 2,
      .out 0] ∧
    traceOf exFuseBad.insts = [Ev.out 5, Ev.out 6] ∧
    (allocInsts 0 exFuseBad).map traceOf = some [Ev.out 5, Ev.out 1] := by decide

/-- A loop whose head lies between the computation (1) and the store it is moved to (2). -/
def exJumpBad : St 8 :=
  { insts := #[.copy (.mem 3) (.imm 2), .add (.tmp 0) (.mem 1) (.imm 5), .copy (.mem 0) (.tmp 0),
               .add (.mem 1) (.mem 1) (.imm 1), .add (.mem 3) (.mem 3) (.imm 255), .brnz 3 (-3), .out 0],
    ranges := #[ri 1 (some 2) (some 5) 1],
    writes := [(3, [4, 0]), (0, [2]), (1, [3])] }

theorem alloc_fuse_nojump_necessary :
    comps exJumpBad = [true, true, true, true, true, true, true, true, false] ∧
    traceOf exJumpBad.insts = [Ev.out 5] ∧ (allocInsts 2 exJumpBad).map traceOf = some [Ev.out 6] := by decide

/-! ### `firstLt`: the recorded first use lies after the computation -/

def exFirstBad : St 8 :=
  { insts := #[.copy (.mem 0) (.imm 3), .add (.tmp 0) (.mem 1) (.imm 5), .copy (.mem 2) (.tmp 0), .out 0, .out 2],
    ranges := #[ri 1 (some 0) (some 2) 1],
    writes := [(0, [0]), (2, [2])] }

theorem alloc_firstLt_necessary :
    chkFirstLt exFirstBad = false ∧
    allocInsts 2 exFirstBad = some #[.add (.mem 0) (.mem 1) (.imm 5), .noop, .copy (.mem 2) (.mem 0), .out 0, .out 2] ∧
    traceOf exFirstBad.insts = [Ev.out 5, Ev.out 3] ∧
    (allocInsts 2 exFirstBad).map traceOf = some [Ev.out 5, Ev.out 5] := by decide

/-! ### a performed fusion; overlapping candidates in the wrong order -/

/-- `t0 = m1; t1 = t0 + 5; m0 = t1; t2 = t1 + t0; m2 = t2`. -/
def exFuseGood : St 8 :=
  { insts := #[.copy (.tmp 0) (.mem 1), .add (.tmp 1) (.tmp 0) (.imm 5), .copy (.mem 0) (.tmp 1),
               .add (.tmp 2) (.tmp 1) (.tmp 0), .copy (.mem 2) (.tmp 2), .out 0, .out 2],
    ranges := #[ri 0 (some 1) (some 3) 2, ri 1 (some 2) (some 3) 2, ri 3 (some 4) (some 4) 1],
    writes := [(0, [2]), (2, [4])] }

theorem exFuseGood_pre : AllocPre exFuseGood := allocPreB_sound (by decide)

/-- Without registers everything is forwarded or moved to the stores. -/
theorem exFuseGood_out0 :
    allocInsts 0 exFuseGood = some #[.noop, .noop, .add (.mem 0) (.mem 1) (.imm 5), .noop,
      .add (.mem 2) (.mem 0) (.mem 1), .out 0, .out 2] := by decide +kernel
/-- With two registers `t0`, `t1` are allocated and `t2 = t1 + t0` is moved to its store. -/
theorem exFuseGood_out2 :
    allocInsts 2 exFuseGood = some #[.copy (.tmp 0) (.mem 1), .add (.tmp 1) (.tmp 0) (.imm 5),
      .copy (.mem 0) (.tmp 1), .noop, .add (.mem 2) (.tmp 1) (.tmp 0), .out 0, .out 2] := by decide +kernel
theorem exFuseGood_live :
    (allocateTemps 2 exFuseGood).toOption.map (·.live) = some #[0, 1, 3, 3, 0, 0, 0] := by decide +kernel

/-- `u1` (first use 6) and `u2` (first use 3) are both moved and both read `t0`, whose last use 4 lies between:
`range_extend_to` shrinks the extension of `t0`, it is released at 4, and the moved `u1` cannot be rewritten. -/
def exMonoBad : St 8 :=
  { insts := #[.add (.tmp 0) (.mem 5) (.imm 3), .add (.tmp 1) (.tmp 0) (.imm 10), .add (.tmp 2) (.tmp 0) (.imm 20),
               .copy (.mem 1) (.tmp 2), .add (.tmp 3) (.tmp 0) (.imm 1), .add (.mem 3) (.tmp 3) (.imm 0),
               .copy (.mem 2) (.tmp 1), .out 2],
    ranges := #[ri 0 (some 1) (some 4) 3, ri 1 (some 6) (some 6) 1, ri 2 (some 3) (some 3) 1, ri 4 (some 5) (some 5) 1],
    writes := [(1, [3]), (3, [5]), (2, [6])] }

theorem exMonoBad_pre : AllocPre exMonoBad := allocPreB_sound (by decide)

/-- The modelled panic site of a failing run. -/
def allocErr (numRegs : Nat) (s : St 8) : Option String :=
  match allocateTemps numRegs s with
  | .ok _ => none
  | .error e => some e

theorem alloc_shrunk_extension_panics :
    allocErr 1 exMonoBad = some "allocate_temps:replace:replacements.get.unwrap" := by decide +kernel

end Alloc
end C02
end Hpbf
